/-
C18, round 3: `NewStyledString` restores hyperlinks (URL and parameters) — lemmas for `Model.SgrLinks.nssLoopL`:
byte level = token level on printed token sequences (`nssL_ltoks`), the OSC 8 payload is read back as the link
(`linkOfSeq_payload`), the SGR sequences `Encode` writes never touch the link (`ssDelta_ne`, `ssSeqL_emittable`),
and the round trip with the link carried along (`ss_roundtrip_links_full`).
-/
import VaxisModel.Lemmas.SgrLinks
import VaxisModel.Props.C18

namespace VaxisModel.Lemmas.SgrLinksFull
open VaxisModel.Gen VaxisModel.Model.Sgr VaxisModel.Model.SgrBytes VaxisModel.Model.SgrLinks
open VaxisModel.Lemmas.ParserParams VaxisModel.Lemmas.Sgr VaxisModel.Lemmas.SgrBytes VaxisModel.Lemmas.SgrLinks
open VaxisModel.Model.Color (indexColor rgbColor)

/-! ### Cut -/

theorem cutByte_append (sep : Nat) (a rest : Str) (ha : ∀ b ∈ a, b ≠ sep) :
    cutByte sep (a ++ sep :: rest) = (a, rest) := by
  induction a with
  | nil => simp [cutByte]
  | cons b a ih =>
    have hb : b ≠ sep := ha b (by simp)
    simp only [List.cons_append, cutByte, hb, if_false, ih (fun x hx => ha x (by simp [hx]))]

/-- A link the encoders can transmit: parameters without `;`, and none at all for the empty URL (`linkPs = ""`). -/
def LinkCanon (l : Link) : Prop := (∀ b ∈ l.params, b ≠ 0x3B) ∧ (l.url = [] → l.params = [])

/-- `Cut(seq, ";")` on the payload `8;params;url` (after `TrimPrefix "ESC ] 8 ;"`) gives the link back. -/
theorem linkOfSeq_payload (l : Link) (h : LinkCanon l) : linkOfSeq ((osc8Payload l).drop 2) = l := by
  obtain ⟨h1, h2⟩ := h
  have hd : (osc8Payload l).drop 2 = (if l.url = [] then [] else l.params) ++ 0x3B :: l.url := rfl
  rw [hd]
  unfold linkOfSeq
  by_cases hu : l.url = []
  · have hp := h2 hu
    rw [if_pos hu, cutByte_append 0x3B [] l.url (by simp)]
    cases l; simp_all
  · rw [if_neg hu, cutByte_append 0x3B l.params l.url h1]

theorem linkOfSeq_closing : linkOfSeq ((osc8Payload {}).drop 2) = {} :=
  linkOfSeq_payload {} ⟨by simp, fun _ => rfl⟩

/-! ### The parameter loop: style part = `ssLoopK`, link part -/

theorem ssLoopK_nil (cfg : Cfg) (dflt : Style) (k : Nat) (s : Style) : ssLoopK cfg dflt k [] s = .ok s := by
  cases k <;> rfl

theorem ssLoopKL_nil (cfg : Cfg) (dflt : Style) (dl : Link) (k : Nat) (s : Style) (l : Link) :
    ssLoopKL cfg dflt dl k [] s l = .ok (s, l) := by
  cases k <;> rfl

/-- The style part of `ssLoopKL` is `ssLoopK` (the link never influences the style). -/
theorem ssLoopKL_fst (cfg : Cfg) (dflt : Style) (dl : Link) : ∀ (ps : List (List SubTok)) (k : Nat) (s : Style) (l : Link),
    (match ssLoopKL cfg dflt dl k ps s l with | .ok r => Except.ok r.1 | .error e => .error e) = ssLoopK cfg dflt k ps s := by
  intro ps
  induction ps with
  | nil => intro k s l; rw [ssLoopKL_nil, ssLoopK_nil]
  | cons subs rest ih =>
    intro k s l
    cases k with
    | succ k => simp only [ssLoopKL, ssLoopK]; exact ih k s l
    | zero =>
      simp only [ssLoopKL, ssLoopK]
      cases h : ssOne cfg dflt s subs rest with
      | error e => rfl
      | ok r => obtain ⟨s', k'⟩ := r; exact ih k' s' _

/-- One parameter that is not `0`: the link is untouched. -/
theorem ssLoopKL_single (cfg : Cfg) (dflt : Style) (dl : Link) (subs : List SubTok) (s : Style) (l : Link)
    (h0 : isResetParam cfg subs = false) :
    ssLoopKL cfg dflt dl 0 [subs] s l =
      match ssLoop cfg dflt [subs] s with
      | .ok s' => .ok (s', l)
      | .error e => .error e := by
  simp only [ssLoopKL, ssLoop, ssLoopK, h0, Bool.false_eq_true, if_false]
  cases ssOne cfg dflt s subs [] with
  | error e => rfl
  | ok r => obtain ⟨s', k'⟩ := r; simp only [ssLoopKL_nil, ssLoopK_nil]

/-- On every non-empty sequence of the colon-form range (what `StyledString.Encode` writes between two cells)
    the CSI case leaves the hyperlink alone and changes the style as `ssSeq` does. -/
theorem ssSeqL_emittable (dflt : Style) (dl : Link) (s : Style) (l : Link) (x : Seq) (hx : emittable x = true) (hne : x ≠ []) :
    ssSeqL dflt dl s l x =
      match ssSeq dflt s x with
      | .ok s' => .ok (s', l)
      | .error e => .error e := by
  have key : ∀ (p0 : Nat) (tl : List Nat), p0 ≠ 0 →
      ssSeqL dflt dl s l [p0 :: tl] =
        match ssSeq dflt s [p0 :: tl] with
        | .ok s' => .ok (s', l)
        | .error e => .error e := by
    intro p0 tl hp
    have hr : isResetParam ssCfg ((p0 :: tl).map tokN) = false := by
      simp [isResetParam, tokN, hp]
    simp only [ssSeqL, ssSeq, ssSeqTok, List.isEmpty_cons, Bool.false_eq_true, if_false, List.map_cons, List.map_nil]
    exact ssLoopKL_single ssCfg dflt dl _ s l hr
  rcases emittable_cases x hx with rfl | ⟨p, hp, rfl⟩ | ⟨n, _, rfl⟩ | ⟨p, n, hp, _, rfl⟩ | ⟨p, r, g, b, hp, _, _, _, rfl⟩
  · exact absurd rfl hne
  · exact key p [] (solo_ne0 p hp)
  · exact key 4 [n] (by decide)
  · exact key p [5, n] (by rcases hp with rfl | rfl | rfl <;> decide)
  · exact key p [2, r, g, b] (by rcases hp with rfl | rfl | rfl <;> decide)

/-! ### `StyledString.Encode` never writes an empty SGR between two cells -/

theorem colour_ne_gen (resetT setT brightT idxT rgbT : Sequences.Template) (k kb : Nat)
    (hreset : fmt resetT [] ≠ [])
    (hset : ∀ i, i < 8 → fmt setT [i] = [[k + i]]) (hbright : ∀ i, i < 8 → fmt brightT [i] = [[kb + i]])
    (hidx : ∀ n, n < 256 → fmt idxT [n] ≠ [])
    (hrgb : ∀ r g b, r < 256 → g < 256 → b < 256 → fmt rgbT [r, g, b] ≠ []) (c : VaxisModel.Model.Color.Color) :
    ∀ x ∈ colourSeq resetT setT brightT idxT rgbT c, x ≠ [] := by
  intro x hx
  unfold colourSeq at hx
  rcases params_cases' c with h | ⟨i, hi, h⟩ | ⟨r, g, b, hr, hg, hb, h⟩
  · rw [h] at hx; simp only [List.mem_singleton] at hx; subst hx; exact hreset
  · rw [h] at hx; simp only [] at hx
    by_cases h8 : i < 8
    · simp only [h8, if_true, hset i h8, List.mem_singleton] at hx; subst hx; simp
    · by_cases h16 : i < 16
      · have h' : i - 8 < 8 := by omega
        simp only [h8, h16, if_true, if_false, hbright _ h', List.mem_singleton] at hx; subst hx; simp
      · simp only [h8, h16, if_false, List.mem_singleton] at hx; subst hx
        exact hidx i hi
  · rw [h] at hx; simp only [List.mem_singleton] at hx; subst hx
    exact hrgb r g b hr hg hb

theorem ul_ne (c : VaxisModel.Model.Color.Color) : ∀ x ∈ ulColourSeq c, x ≠ [] := by
  intro x hx
  unfold ulColourSeq at hx
  rcases params_cases' c with h | ⟨i, hi, h⟩ | ⟨r, g, b, hr, hg, hb, h⟩
  · rw [h] at hx; simp only [fmt_ulColorReset, List.mem_singleton] at hx; subst hx; simp
  · rw [h] at hx; simp only [fmt_ulIndexSet, List.mem_singleton] at hx; subst hx; simp
  · rw [h] at hx; simp only [fmt_ulRGBSet, List.mem_singleton] at hx; subst hx; simp

theorem attr_ne (a b : Nat) : ∀ x ∈ attrDelta a b, x ≠ [] := by
  intro x hx
  unfold attrDelta at hx
  split at hx
  · unfold attrBody at hx
    simp only [boldSetQ_eq, dimSetQ_eq, italicSetQ_eq, blinkSetQ_eq, reverseSetQ_eq, hiddenSetQ_eq,
      strikethroughSetQ_eq, boldDimResetQ_eq, italicResetQ_eq, blinkResetQ_eq, reverseResetQ_eq, hiddenResetQ_eq,
      strikethroughResetQ_eq, List.mem_append] at hx
    rcases hx with h | h | h | h | h | h | h | h | h | h | h | h | h | h
    all_goals first
      | (have := mem_opt _ _ _ h; subst this; simp)
      | (split at h
         · rcases List.mem_cons.mp h with rfl | h'
           · simp
           · have := mem_opt _ _ _ h'; subst this; simp
         · cases h)
  · cases hx

theorem ssDelta_ne (legacy : Bool) (p n : Style) : ∀ x ∈ ssDelta legacy p n, x ≠ [] := by
  intro x hx
  unfold ssDelta at hx
  simp only [List.mem_append] at hx
  rcases hx with h | h | h | h | h
  · split at h
    · exact colour_ne_gen _ _ _ _ _ 30 90 (by rw [fmt_fgReset]; simp) fmt_fgSet fmt_fgBrightSet
        (fun n _ => by rw [fmt_ssFgIndexSet legacy]; simp)
        (fun r g b _ _ _ => by rw [fmt_ssFgRGBSet legacy]; simp) _ x h
    · cases h
  · split at h
    · exact colour_ne_gen _ _ _ _ _ 40 100 (by rw [fmt_bgReset]; simp) fmt_bgSet fmt_bgBrightSet
        (fun n _ => by rw [fmt_ssBgIndexSet legacy]; simp)
        (fun r g b _ _ _ => by rw [fmt_ssBgRGBSet legacy]; simp) _ x h
    · cases h
  · split at h
    · exact ul_ne _ x h
    · cases h
  · exact attr_ne _ _ x h
  · split at h
    · simp only [fmt_ulStyleSet, List.mem_singleton] at h; subst h; simp
    · cases h

/-! ### folding the CSI case over the sequences of one delta -/

def foldCL (f : Style → Link → Seq → Except Panic (Style × Link)) : Style → Link → List Seq → Except Panic (Style × Link)
  | s, l, [] => .ok (s, l)
  | s, l, x :: r =>
    match f s l x with
    | .ok (s', l') => foldCL f s' l' r
    | .error e => .error e

theorem foldCL_of_foldC (dflt : Style) (dl : Link) (xs : List Seq) (hx : ∀ x ∈ xs, emittable x = true ∧ x ≠ []) :
    ∀ (s : Style) (l : Link) (n : Style), foldC (ssSeq dflt) s xs = .ok n → foldCL (ssSeqL dflt dl) s l xs = .ok (n, l) := by
  induction xs with
  | nil => intro s l n h; simp only [foldC] at h; injection h with h; subst h; rfl
  | cons x r ih =>
    intro s l n h
    obtain ⟨he, hne⟩ := hx x (List.mem_cons_self ..)
    simp only [foldC] at h
    simp only [foldCL, ssSeqL_emittable dflt dl s l x he hne]
    cases hs : ssSeq dflt s x with
    | error e => rw [hs] at h; cases h
    | ok s' =>
      rw [hs] at h
      exact ih (fun y hy => hx y (List.mem_cons_of_mem _ hy)) s' l n h

/-- What `NewStyledString` holds after the sequences `Encode` writes between two cells: the next style, the link untouched. -/
theorem ss_delta_roundtrip_L (hc : Covers ssCfg) (legacy : Bool) (s n : Style) (l : Link) (hs : s.wf) (hn : n.wf) :
    foldCL (ssSeqL {} {}) s l (ssDelta legacy s n) = .ok (n, l) :=
  foldCL_of_foldC {} {} _ (fun x hx => ⟨ssDelta_range legacy s n hn.ulStyle x hx, ssDelta_ne legacy s n x hx⟩) s l n
    (ss_delta_roundtrip hc legacy s n hs hn)

/-! ### byte level = token level -/

theorem nssL_step_sgr (cl : Str → Nat) (dflt : Style) (dl : Link) (fuel : Nat) (st : Style) (lk : Link) (body rest : Str)
    (hb : ∀ b ∈ body, b ≠ 0x6D) :
    nssLoopL cl dflt dl (fuel + 1) st lk (0x1B :: 0x5B :: (body ++ 0x6D :: rest)) =
      if rest.isEmpty then .ok []
      else if body.isEmpty then nssLoopL cl dflt dl fuel dflt dl rest
      else
        match ssLoopKL ssCfg dflt dl 0 (splitParams body) st lk with
        | .error e => .error e
        | .ok (st', lk') => nssLoopL cl dflt dl fuel st' lk' rest := by
  conv => lhs; unfold nssLoopL
  have hd : List.drop 2 (0x1B :: 0x5B :: (body ++ 0x6D :: rest)) = body ++ 0x6D :: rest := rfl
  simp only [hasCsiPrefix, if_true, hd, cutM_append body rest hb]
  split
  · rfl
  · split
    · rfl
    · cases ssLoopKL ssCfg dflt dl 0 (splitParams body) st lk <;> rfl

theorem nssL_step_text (cl : Str → Nat) (dflt : Style) (dl : Link) (fuel : Nat) (st : Style) (lk : Link) (c : Nat)
    (g' rest : Str) (hc : 0x20 ≤ c) (hcl : cl (c :: g' ++ rest) = (c :: g').length) :
    nssLoopL cl dflt dl (fuel + 1) st lk (c :: g' ++ rest) =
      match nssLoopL cl dflt dl fuel st lk rest with
      | .ok cs => .ok (⟨⟨c :: g', st⟩, lk⟩ :: cs)
      | .error e => .error e := by
  have hpre : hasCsiPrefix (c :: (g' ++ rest)) = false := by
    unfold hasCsiPrefix
    split
    · rename_i h; injection h with h _; omega
    · rfl
  have hosc : hasOsc8Prefix (c :: (g' ++ rest)) = false := by
    unfold hasOsc8Prefix
    split
    · rename_i h; injection h with h _; omega
    · rfl
  have hn : max 1 ((c :: g').length) = (c :: g').length := by simp
  have ht : (c :: (g' ++ rest)).take (c :: g').length = c :: g' := by
    rw [← List.cons_append]; simp
  have hd : (c :: (g' ++ rest)).drop (c :: g').length = rest := by
    rw [← List.cons_append]; simp
  simp only [List.cons_append] at hcl ⊢
  conv => lhs; unfold nssLoopL
  simp only [hpre, hosc, Bool.false_eq_true, if_false, hcl, hn, ht, hd]
  cases nssLoopL cl dflt dl fuel st lk rest <;> rfl

theorem nssL_step_link (cl : Str → Nat) (dflt : Style) (dl : Link) (fuel : Nat) (st : Style) (lk : Link) (p' rest : Str)
    (hp : ∀ b ∈ p', 0x20 ≤ b) :
    nssLoopL cl dflt dl (fuel + 1) st lk (0x1B :: 0x5D :: 0x38 :: 0x3B :: (p' ++ 0x1B :: 0x5C :: rest)) =
      nssLoopL cl dflt dl fuel st (linkOfSeq p') rest := by
  conv => lhs; unfold nssLoopL
  have h1 : hasCsiPrefix (0x1B :: 0x5D :: 0x38 :: 0x3B :: (p' ++ 0x1B :: 0x5C :: rest)) = false := by rfl
  have h2 : hasOsc8Prefix (0x1B :: 0x5D :: 0x38 :: 0x3B :: (p' ++ 0x1B :: 0x5C :: rest)) = true := by rfl
  have hd : List.drop 4 (0x1B :: 0x5D :: 0x38 :: 0x3B :: (p' ++ 0x1B :: 0x5C :: rest)) = p' ++ 0x1B :: 0x5C :: rest := rfl
  simp only [h1, h2, Bool.false_eq_true, if_false, if_true, hd, cutST_append p' rest hp]

/-- **`NewStyledString` with hyperlinks on the printed token sequence is the token-level `ssParseLToksL`.** -/
theorem nssL_ltoks (cl : Str → Nat) (dflt : Style) (dl : Link) : ∀ (ts : List LTok) (st : Style) (lk : Link) (fuel : Nat),
    GoodL cl ts → (bytesOfLToks ts).length ≤ fuel →
    nssLoopL cl dflt dl fuel st lk (bytesOfLToks ts) = ssParseLToksL (ssSeqL dflt dl) st lk ts := by
  intro ts
  induction ts with
  | nil => intro st lk fuel _ _; cases fuel <;> rfl
  | cons t r ih =>
    intro st lk fuel hg hf
    rw [bytesOfLToks_cons] at hf ⊢
    match t, hg with
    | .tok (.sgr q), hg =>
      obtain ⟨hq, hr⟩ := hg
      have h2 := csiM_length_pos q
      have hf' : (csiM q ++ bytesOfLToks r).length ≤ fuel := hf
      show nssLoopL cl dflt dl fuel st lk (csiM q ++ bytesOfLToks r) = _
      cases fuel with
      | zero => simp only [List.length_append] at hf'; omega
      | succ fuel =>
        have hshape : csiM q ++ bytesOfLToks r = 0x1B :: 0x5B :: (encParams q ++ 0x6D :: bytesOfLToks r) := by
          simp [csiM]
        have hlen : (bytesOfLToks r).length ≤ fuel := by
          simp only [List.length_append] at hf'; omega
        rw [hshape, nssL_step_sgr cl dflt dl fuel st lk _ _ (encParams_no_m q), goodL_empty cl r hr]
        simp only [ssParseLToksL]
        by_cases hre : r.isEmpty = true
        · simp [hre]
        · simp only [hre, Bool.false_eq_true, if_false]
          cases q with
          | nil =>
            simp only [encParams, List.isEmpty_nil, if_true]
            rw [ih dflt dl fuel hr hlen]
            rfl
          | cons p q' =>
            have hne : (encParams (p :: q')).isEmpty = false := by
              have := encParams_ne_nil (p :: q') (by simp) hq
              cases h : encParams (p :: q') with
              | nil => exact absurd h this
              | cons _ _ => rfl
            simp only [hne, Bool.false_eq_true, if_false]
            rw [splitParams_encParams (p :: q') hq (by simp)]
            have hss : ssSeqL dflt dl st lk (p :: q') = ssLoopKL ssCfg dflt dl 0 ((p :: q').map (·.map tokN)) st lk := by
              simp [ssSeqL]
            rw [hss]
            cases ssLoopKL ssCfg dflt dl 0 ((p :: q').map (·.map tokN)) st lk with
            | error e => rfl
            | ok r' => obtain ⟨st', lk'⟩ := r'; exact ih st' lk' fuel hr hlen
    | .tok (.text g), hg =>
      obtain ⟨⟨c, g', rfl, hc⟩, hcl, hr⟩ := hg
      have hf' : ((c :: g') ++ bytesOfLToks r).length ≤ fuel := hf
      show nssLoopL cl dflt dl fuel st lk ((c :: g') ++ bytesOfLToks r) = _
      cases fuel with
      | zero => simp at hf'
      | succ fuel =>
        rw [nssL_step_text cl dflt dl fuel st lk c g' _ hc hcl, ih st lk fuel hr (by simp at hf'; omega)]
        simp only [ssParseLToksL]
        cases ssParseLToksL (ssSeqL dflt dl) st lk r <;> rfl
    | .link p, hg =>
      obtain ⟨⟨p', rfl⟩, hp, hr⟩ := hg
      have hp' : ∀ b ∈ p', 0x20 ≤ b := fun b hb => hp b (by simp [hb])
      have hshape : ltokBytes (.link (0x38 :: 0x3B :: p')) ++ bytesOfLToks r =
          0x1B :: 0x5D :: 0x38 :: 0x3B :: (p' ++ 0x1B :: 0x5C :: bytesOfLToks r) := by
        simp [ltokBytes]
      rw [hshape] at hf ⊢
      cases fuel with
      | zero => simp at hf
      | succ fuel =>
        rw [nssL_step_link cl dflt dl fuel st lk p' _ hp', ih st _ fuel hr (by simp at hf; omega)]
        simp only [ssParseLToksL, List.drop_succ_cons, List.drop_zero]

theorem newStyledStringBL_ltoks (cl : Str → Nat) (dflt : Style) (dl : Link) (ts : List LTok) (hg : GoodL cl ts) :
    newStyledStringBL cl dflt dl (bytesOfLToks ts) = ssParseLToksL (ssSeqL dflt dl) dflt dl ts := by
  unfold newStyledStringBL
  exact nssL_ltoks cl dflt dl ts dflt dl _ hg (Nat.le_refl _)

/-! ### the round trip with the link carried along -/

/-- The restriction under which the hyperlinks of a cell list can come back: `Encode` writes OSC 8 only when the URL
    differs from the previous cell's (the cursor starts without a link), and writes no parameters for the empty URL.
    So: every link is `LinkCanon`, and a cell with the same URL as its predecessor has the same parameters. -/
def LinksRestorable : Link → List LCell → Prop
  | _, [] => True
  | l, c :: cs => LinkCanon c.link ∧ (c.link.url = l.url → c.link.params = l.params) ∧ LinksRestorable c.link cs

theorem ssParseLToksL_sgrs (f : Style → Link → Seq → Except Panic (Style × Link)) (xs : List Seq) (rest : List LTok)
    (hrest : rest ≠ []) :
    ∀ s l, ssParseLToksL f s l (xs.map (fun q => LTok.tok (.sgr q)) ++ rest) =
      match foldCL f s l xs with
      | .ok (s', l') => ssParseLToksL f s' l' rest
      | .error e => .error e := by
  induction xs with
  | nil => intro s l; rfl
  | cons x xs ih =>
    intro s l
    have hne : (List.map (fun q => LTok.tok (.sgr q)) xs ++ rest).isEmpty = false := by
      cases xs <;> cases rest <;> simp_all
    simp only [List.map_cons, List.cons_append, ssParseLToksL, foldCL, hne]
    cases f s l x with
    | error e => rfl
    | ok r => obtain ⟨s', l'⟩ := r; exact ih s' l'

theorem ss_roundtrip_links_full (f : Style → Link → Seq → Except Panic (Style × Link)) (delta : Style → Style → List Seq)
    (hdelta : ∀ s n l, s.wf → n.wf → foldCL f s l (delta s n) = .ok (n, l)) :
    ∀ (cs : List LCell) (s : Style) (l : Link), s.wf → (∀ c ∈ cs, c.cell.st.wf) → LinksRestorable l cs →
      ssParseLToksL f s l (encodeFromL delta s l cs) = .ok cs := by
  intro cs
  induction cs with
  | nil =>
    intro s l _ _ _
    unfold encodeFromL
    by_cases hu : (l.url != []) = true <;> by_cases hc : (s != {} || l != {}) = true <;>
      simp [hu, hc, ssParseLToksL]
  | cons c cs ih =>
    intro s l hs hcs hr
    obtain ⟨hcan, hsame, hrest⟩ := hr
    have hc : c.cell.st.wf := hcs c (List.mem_cons_self ..)
    unfold encodeFromL
    rw [ssParseLToksL_sgrs f _ _ (by split <;> simp), hdelta s c.cell.st l hs hc]
    have ih' := ih c.cell.st c.link hc (fun d hd => hcs d (List.mem_cons_of_mem _ hd)) hrest
    simp only []
    by_cases hu : (l.url != c.link.url) = true
    · simp only [hu, if_true, List.cons_append, List.nil_append, ssParseLToksL, linkOfSeq_payload c.link hcan, ih']
    · have hurl : c.link.url = l.url := (by simpa using hu : l.url = c.link.url).symm
      have hl : l = c.link := by
        have hp := hsame hurl
        cases l; cases hcl : c.link; rw [hcl] at hurl hp; simp_all
      subst hl
      simp only [hu, Bool.false_eq_true, if_false, List.nil_append, ssParseLToksL, ih']

/-! ### the model without links is the projection of the model with links -/

theorem nssLoopL_cells (cl : Str → Nat) (dflt : Style) (dl : Link) : ∀ (fuel : Nat) (st : Style) (lk : Link) (s : Str),
    (match nssLoopL cl dflt dl fuel st lk s with | .ok cs => Except.ok (cs.map (·.cell)) | .error e => .error e)
      = nssLoop cl dflt fuel st s := by
  intro fuel
  induction fuel with
  | zero => intro st lk s; rfl
  | succ fuel ih =>
    intro st lk s
    cases s with
    | nil => rfl
    | cons c r =>
      conv => lhs; unfold nssLoopL
      conv => rhs; unfold nssLoop
      by_cases h1 : hasCsiPrefix (c :: r) = true
      · simp only [h1, if_true]
        by_cases hA : (cutM (List.drop 2 (c :: r))).2.isEmpty = true
        · simp only [hA, if_true, List.map_nil]
        · simp only [hA, Bool.false_eq_true, if_false]
          by_cases hB : (cutM (List.drop 2 (c :: r))).1.isEmpty = true
          · simp only [hB, if_true]; exact ih dflt dl _
          · simp only [hB, Bool.false_eq_true, if_false]
            have hf := ssLoopKL_fst ssCfg dflt dl (splitParams (cutM (List.drop 2 (c :: r))).1) 0 st lk
            unfold ssLoop
            rw [← hf]
            cases ssLoopKL ssCfg dflt dl 0 (splitParams (cutM (List.drop 2 (c :: r))).1) st lk with
            | error e => rfl
            | ok r' => obtain ⟨st', lk'⟩ := r'; exact ih st' lk' _
      · simp only [h1, Bool.false_eq_true, if_false]
        by_cases h2 : hasOsc8Prefix (c :: r) = true
        · simp only [h2, if_true]; exact ih st _ _
        · simp only [h2, Bool.false_eq_true, if_false]
          rw [← ih st lk (List.drop (max 1 (cl (c :: r))) (c :: r))]
          cases nssLoopL cl dflt dl fuel st lk (List.drop (max 1 (cl (c :: r))) (c :: r)) <;> rfl

/-! ### the legacy semicolon forms (what `EncodeCells` writes under `VAXIS_FORCE_LEGACY_SGR`) leave the link alone too -/

theorem ssLoopKL_skip2 (cfg : Cfg) (dflt : Style) (dl : Link) (a b : List SubTok) (s : Style) (l : Link) :
    ssLoopKL cfg dflt dl 2 [a, b] s l = .ok (s, l) := rfl

theorem ssLoopKL_skip4 (cfg : Cfg) (dflt : Style) (dl : Link) (a b c d : List SubTok) (s : Style) (l : Link) :
    ssLoopKL cfg dflt dl 4 [a, b, c, d] s l = .ok (s, l) := rfl

theorem ssSeqL_idx_legacy (dflt : Style) (dl : Link) (s : Style) (l : Link) (p n : Nat) (hp : p = 38 ∨ p = 48) :
    ssSeqL dflt dl s l [[p], [5], [n]] = .ok (setCol p s (indexColor (u8 n)), l) := by
  have hl : p ∈ ssCfg.labels := by rcases hp with rfl | rfl <;> decide
  have ha : ssCfg.accepts p 1 = true := Props.C18.ssCfg_legacy p hp
  rcases hp with rfl | rfl <;>
    simp [ssSeqL, ssLoopKL, ssOne, idx, tokN, hl, ssColour, ssLegacy, rawIs, rawAtoi, ha, setCol, u8i_nat, isResetParam]

theorem ssSeqL_rgb_legacy (dflt : Style) (dl : Link) (s : Style) (l : Link) (p r g b : Nat) (hp : p = 38 ∨ p = 48) :
    ssSeqL dflt dl s l [[p], [2], [r], [g], [b]] = .ok (setCol p s (rgbColor (u8 r) (u8 g) (u8 b)), l) := by
  have hl : p ∈ ssCfg.labels := by rcases hp with rfl | rfl <;> decide
  have ha : ssCfg.accepts p 1 = true := Props.C18.ssCfg_legacy p hp
  rcases hp with rfl | rfl <;>
    simp [ssSeqL, ssLoopKL, ssOne, idx, tokN, hl, ssColour, ssLegacy, rawIs, rawAtoi, ha, setCol, u8i_nat, isResetParam]

/-- On every non-empty producible sequence, legacy forms included, the CSI case leaves the hyperlink alone. -/
theorem ssSeqL_emittableLegacy (s : Style) (l : Link) (x : Seq) (hx : emittableLegacy x = true) (hne : x ≠ []) :
    ssSeqL {} {} s l x =
      match ssSeq {} s x with
      | .ok s' => .ok (s', l)
      | .error e => .error e := by
  rcases emittableLegacy_cases x hx with h | ⟨p, n, hp, _, rfl⟩ | ⟨p, r, g, b, hp, _, _, _, rfl⟩
  · exact ssSeqL_emittable {} {} s l x h hne
  · have hp' : p = 38 ∨ p = 48 ∨ p = 58 := by rcases hp with h | h <;> simp [h]
    have hl : p ∈ ssCfg.labels := by rcases hp with rfl | rfl <;> decide
    have h1 : ssSeq {} s [[p], [5], [n]] = .ok (setCol p s (indexColor (u8 n))) := by
      have := ss_idx_legacy ssCfg {} s p n hp' hl (Props.C18.ssCfg_legacy p hp)
      simpa [ssSeq, ssSeqTok] using this
    rw [ssSeqL_idx_legacy {} {} s l p n hp, h1]
  · have hp' : p = 38 ∨ p = 48 ∨ p = 58 := by rcases hp with h | h <;> simp [h]
    have hl : p ∈ ssCfg.labels := by rcases hp with rfl | rfl <;> decide
    have h1 : ssSeq {} s [[p], [2], [r], [g], [b]] = .ok (setCol p s (rgbColor (u8 r) (u8 g) (u8 b))) := by
      have := ss_rgb_legacy ssCfg {} s p r g b hp' hl (Props.C18.ssCfg_legacy p hp)
      simpa [ssSeq, ssSeqTok] using this
    rw [ssSeqL_rgb_legacy {} {} s l p r g b hp, h1]

theorem encodeDelta_ne (legacy : Bool) (p n : Style) : ∀ x ∈ encodeDelta legacy p n, x ≠ [] := by
  intro x hx
  unfold encodeDelta at hx
  simp only [List.mem_append] at hx
  rcases hx with h | h | h | h | h
  · split at h
    · exact colour_ne_gen _ _ _ _ _ 30 90 (by rw [fmt_fgReset]; simp) fmt_fgSet fmt_fgBrightSet
        (fun n _ => by cases legacy <;> simp [q, fmt_fgIndexSet, fmt_fgIndexSet_legacy])
        (fun r g b _ _ _ => by cases legacy <;> simp [q, fmt_fgRGBSet, fmt_fgRGBSet_legacy]) _ x h
    · cases h
  · split at h
    · exact colour_ne_gen _ _ _ _ _ 40 100 (by rw [fmt_bgReset]; simp) fmt_bgSet fmt_bgBrightSet
        (fun n _ => by cases legacy <;> simp [q, fmt_bgIndexSet, fmt_bgIndexSet_legacy])
        (fun r g b _ _ _ => by cases legacy <;> simp [q, fmt_bgRGBSet, fmt_bgRGBSet_legacy]) _ x h
    · cases h
  · split at h
    · exact ul_ne _ x h
    · cases h
  · exact attr_ne _ _ x h
  · split at h
    · simp only [fmt_ulStyleSet, List.mem_singleton] at h; subst h; simp
    · cases h

theorem foldCL_of_foldC_legacy (xs : List Seq) (hx : ∀ x ∈ xs, emittableLegacy x = true ∧ x ≠ []) :
    ∀ (s : Style) (l : Link) (n : Style), foldC (ssSeq {}) s xs = .ok n → foldCL (ssSeqL {} {}) s l xs = .ok (n, l) := by
  induction xs with
  | nil => intro s l n h; simp only [foldC] at h; injection h with h; subst h; rfl
  | cons x r ih =>
    intro s l n h
    obtain ⟨he, hne⟩ := hx x (List.mem_cons_self ..)
    simp only [foldC] at h
    simp only [foldCL, ssSeqL_emittableLegacy s l x he hne]
    cases hs : ssSeq {} s x with
    | error e => rw [hs] at h; cases h
    | ok s' =>
      rw [hs] at h
      exact ih (fun y hy => hx y (List.mem_cons_of_mem _ hy)) s' l n h

/-- `NewStyledString` after the sequences `EncodeCells` writes between two cells (either format variant): the next style,
    the link untouched. -/
theorem ss_delta_roundtrip_cells_L (legacy : Bool) (s n : Style) (l : Link) (hs : s.wf) (hn : n.wf) :
    foldCL (ssSeqL {} {}) s l (encodeDelta legacy s n) = .ok (n, l) :=
  foldCL_of_foldC_legacy _ (fun x hx => ⟨encodeDelta_range legacy s n hn.ulStyle x hx, encodeDelta_ne legacy s n x hx⟩) s l n
    (ss_delta_roundtrip_cells Props.C18.ssCfg_covers Props.C18.ssCfg_legacy legacy s n hs hn)


/-- `LinksRestorable` as the driver evaluates it. -/
theorem restorableB_iff : ∀ (cs : List LCell) (l : Link), restorableB l cs = true ↔ LinksRestorable l cs := by
  intro cs
  induction cs with
  | nil => intro l; simp [restorableB, LinksRestorable]
  | cons c cs ih =>
    intro l
    simp only [restorableB, LinksRestorable, LinkCanon, Bool.and_eq_true, ih c.link]
    constructor
    · rintro ⟨⟨⟨h1, h2⟩, h3⟩, h4⟩
      refine ⟨⟨?_, ?_⟩, ?_, h4⟩
      · intro b hb he; subst he; simp [hb] at h1
      · intro hu; simpa [hu] using h2
      · intro hu; simpa [hu] using h3
    · rintro ⟨⟨h1, h2⟩, h3, h4⟩
      refine ⟨⟨⟨?_, ?_⟩, ?_⟩, h4⟩
      · simp only [Bool.not_eq_true', List.contains_eq_mem, decide_eq_false_iff_not]; intro hm; exact h1 _ hm rfl
      · by_cases hu : c.link.url = [] <;> simp [hu, h2]
      · by_cases hu : c.link.url = l.url <;> simp [hu, h3]

end VaxisModel.Lemmas.SgrLinksFull
