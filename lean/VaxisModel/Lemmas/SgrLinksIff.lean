/-
C18, hyperlinks: NECESSITY of `LinksRestorable` for the round trip `Encode` / `NewStyledString` with the hyperlink
fields.  Token level: when `ssParseLToksL` returns the cell list that `encodeFromL` was given (cursor link = the link
the parser holds, and that link transmittable — `LinkCanon`, as the start link `{}` is), the list is `LinksRestorable`.
Core Lean only.
-/
import VaxisModel.Lemmas.SgrLinksFull

namespace VaxisModel.Lemmas.SgrLinksIff
open VaxisModel.Gen VaxisModel.Model.Sgr VaxisModel.Model.SgrBytes VaxisModel.Model.SgrLinks
open VaxisModel.Lemmas.Sgr VaxisModel.Lemmas.SgrBytes VaxisModel.Lemmas.SgrLinks VaxisModel.Lemmas.SgrLinksFull

/-! ### Cut: what comes back before the first separator never contains it -/

theorem cutByte_fst_no_sep (sep : Nat) : ∀ (s : Str), ∀ b ∈ (cutByte sep s).1, b ≠ sep := by
  intro s
  induction s with
  | nil => intro b hb; simp [cutByte] at hb
  | cons c r ih =>
    intro b hb
    unfold cutByte at hb
    by_cases hc : c = sep
    · simp [hc] at hb
    · simp only [hc, if_false, List.mem_cons] at hb
      rcases hb with rfl | hb
      · exact hc
      · exact ih b hb

/-- `Cut` on `a ++ sep :: rest` where `a` does contain the separator: what comes back is shorter than `a`. -/
theorem cutByte_fst_length_lt (sep : Nat) : ∀ (a rest : Str), sep ∈ a → (cutByte sep (a ++ rest)).1.length < a.length := by
  intro a
  induction a with
  | nil => intro _ h; cases h
  | cons c r ih =>
    intro rest h
    by_cases hc : c = sep
    · simp [cutByte, hc]
    · have hr : sep ∈ r := by
        rcases List.mem_cons.mp h with h | h
        · exact absurd h.symm hc
        · exact h
      have := ih rest hr
      simp only [List.cons_append, cutByte, hc, if_false, List.length_cons]
      omega

/-- The payload read back (`TrimPrefix "ESC ] 8 ;"`, then `Cut(seq, ";")`): parameters up to the first `;` of
    `params;url` (of `;url` for the empty URL), URL everything after it. -/
theorem linkOfSeq_payload_eq (l : Link) :
    linkOfSeq ((osc8Payload l).drop 2) =
      ⟨(cutByte 0x3B ((if l.url = [] then [] else l.params) ++ 0x3B :: l.url)).2,
       (cutByte 0x3B ((if l.url = [] then [] else l.params) ++ 0x3B :: l.url)).1⟩ := rfl

/-- **Only a transmittable link is read back as itself**: the converse of `linkOfSeq_payload`. -/
theorem linkCanon_of_payload (l : Link) (h : linkOfSeq ((osc8Payload l).drop 2) = l) : LinkCanon l := by
  rw [linkOfSeq_payload_eq] at h
  have hp : (cutByte 0x3B ((if l.url = [] then [] else l.params) ++ 0x3B :: l.url)).1 = l.params :=
    congrArg Link.params h
  by_cases hu : l.url = []
  · rw [if_pos hu] at hp
    have hp' : l.params = [] := by rw [← hp]; simp [cutByte]
    exact ⟨(by rw [hp']; intro b hb; cases hb), fun _ => hp'⟩
  · rw [if_neg hu] at hp
    refine ⟨?_, fun h0 => absurd h0 hu⟩
    rw [← hp]
    exact cutByte_fst_no_sep 0x3B _

theorem linkCanon_iff_payload (l : Link) : linkOfSeq ((osc8Payload l).drop 2) = l ↔ LinkCanon l :=
  ⟨linkCanon_of_payload l, linkOfSeq_payload l⟩

theorem linkCanon_default : LinkCanon {} := ⟨(by intro b hb; cases hb), fun _ => rfl⟩

/-- Parameters under the empty URL are read back as none. -/
theorem linkOfSeq_payload_empty_url (l : Link) (hu : l.url = []) : linkOfSeq ((osc8Payload l).drop 2) = {} := by
  rw [linkOfSeq_payload_eq, if_pos hu, hu]
  rfl

/-- Parameters that contain `;` are read back cut short. -/
theorem linkOfSeq_payload_semicolon (l : Link) (hu : l.url ≠ []) (hs : 0x3B ∈ l.params) :
    (linkOfSeq ((osc8Payload l).drop 2)).params.length < l.params.length := by
  rw [linkOfSeq_payload_eq, if_neg hu]
  exact cutByte_fst_length_lt 0x3B l.params _ hs

/-! ### the head of the result -/

/-- What the parser returns when the encoded list starts with a cell: the head cell carries the link that is current
    after the optional OSC 8, the tail is the parse of the rest under that link. -/
theorem parse_cons (f : Style → Link → Seq → Except Panic (Style × Link)) (delta : Style → Style → List Seq)
    (hdelta : ∀ s n l, s.wf → n.wf → foldCL f s l (delta s n) = .ok (n, l))
    (c : LCell) (cs : List LCell) (s : Style) (l : Link) (hs : s.wf) (hc : c.cell.st.wf) :
    ssParseLToksL f s l (encodeFromL delta s l (c :: cs)) =
      match ssParseLToksL f c.cell.st (if l.url = c.link.url then l else linkOfSeq ((osc8Payload c.link).drop 2))
          (encodeFromL delta c.cell.st c.link cs) with
      | .ok r => .ok (⟨⟨c.cell.g, c.cell.st⟩, if l.url = c.link.url then l else linkOfSeq ((osc8Payload c.link).drop 2)⟩ :: r)
      | .error e => .error e := by
  conv => lhs; unfold encodeFromL
  rw [ssParseLToksL_sgrs f _ _ (by split <;> simp), hdelta s c.cell.st l hs hc]
  simp only []
  by_cases hu : l.url = c.link.url
  · have hu' : (l.url != c.link.url) = false := by simp [hu]
    rw [if_pos hu]
    simp only [hu', Bool.false_eq_true, if_false, List.nil_append, ssParseLToksL]
    cases ssParseLToksL f c.cell.st l (encodeFromL delta c.cell.st c.link cs) <;> rfl
  · have hu' : (l.url != c.link.url) = true := by simp [hu]
    rw [if_neg hu]
    simp only [hu', if_true, List.cons_append, List.nil_append, ssParseLToksL]
    cases ssParseLToksL f c.cell.st (linkOfSeq ((osc8Payload c.link).drop 2)) (encodeFromL delta c.cell.st c.link cs) <;> rfl

/-- **Necessity at token level**: if the parser, holding the (transmittable) link `l` the encoder believes current,
    returns the very cell list, the list is `LinksRestorable l`. -/
theorem ss_roundtrip_links_needs (f : Style → Link → Seq → Except Panic (Style × Link)) (delta : Style → Style → List Seq)
    (hdelta : ∀ s n l, s.wf → n.wf → foldCL f s l (delta s n) = .ok (n, l)) :
    ∀ (cs : List LCell) (s : Style) (l : Link), s.wf → (∀ c ∈ cs, c.cell.st.wf) → LinkCanon l →
      ssParseLToksL f s l (encodeFromL delta s l cs) = .ok cs → LinksRestorable l cs := by
  intro cs
  induction cs with
  | nil => intro _ _ _ _ _ _; trivial
  | cons c cs ih =>
    intro s l hs hcs hl h
    have hc : c.cell.st.wf := hcs c (List.mem_cons_self ..)
    rw [parse_cons f delta hdelta c cs s l hs hc] at h
    cases hp : ssParseLToksL f c.cell.st (if l.url = c.link.url then l else linkOfSeq ((osc8Payload c.link).drop 2))
        (encodeFromL delta c.cell.st c.link cs) with
    | error e => rw [hp] at h; cases h
    | ok r =>
      rw [hp] at h
      simp only [Except.ok.injEq, List.cons.injEq] at h
      obtain ⟨hhead, htail⟩ := h
      subst htail
      have hlink : (if l.url = c.link.url then l else linkOfSeq ((osc8Payload c.link).drop 2)) = c.link :=
        congrArg LCell.link hhead
      rw [hlink] at hp
      by_cases hu : l.url = c.link.url
      · rw [if_pos hu] at hlink
        subst hlink
        exact ⟨hl, fun _ => rfl, ih c.cell.st _ hc (fun d hd => hcs d (List.mem_cons_of_mem _ hd)) hl hp⟩
      · rw [if_neg hu] at hlink
        have hcan := linkCanon_of_payload c.link hlink
        exact ⟨hcan, fun h' => absurd h'.symm hu,
          ih c.cell.st c.link hc (fun d hd => hcs d (List.mem_cons_of_mem _ hd)) hcan hp⟩

/-- Token level, both directions. -/
theorem ss_roundtrip_links_iff (f : Style → Link → Seq → Except Panic (Style × Link)) (delta : Style → Style → List Seq)
    (hdelta : ∀ s n l, s.wf → n.wf → foldCL f s l (delta s n) = .ok (n, l))
    (cs : List LCell) (s : Style) (l : Link) (hs : s.wf) (hcs : ∀ c ∈ cs, c.cell.st.wf) (hl : LinkCanon l) :
    ssParseLToksL f s l (encodeFromL delta s l cs) = .ok cs ↔ LinksRestorable l cs :=
  ⟨ss_roundtrip_links_needs f delta hdelta cs s l hs hcs hl, ss_roundtrip_links_full f delta hdelta cs s l hs hcs⟩

/-! ### the clauses of `LinksRestorable`, one by one -/

theorem restorable_mem_canon : ∀ (cs : List LCell) (l : Link), LinksRestorable l cs → ∀ c ∈ cs, LinkCanon c.link := by
  intro cs
  induction cs with
  | nil => intro _ _ c hc; cases hc
  | cons d cs ih =>
    intro l h c hc
    obtain ⟨h1, _, h3⟩ := h
    rcases List.mem_cons.mp hc with rfl | hc
    · exact h1
    · exact ih d.link h3 c hc

/-- Neighbouring cells with the same URL have the same parameters (and the first cell, if its URL is empty, has none). -/
theorem restorable_neighbours : ∀ (cs : List LCell) (l : Link), LinksRestorable l cs →
    ∀ (i : Nat) (h : i + 1 < cs.length), (cs[i + 1]).link.url = (cs[i]).link.url → (cs[i + 1]).link.params = (cs[i]).link.params := by
  intro cs
  induction cs with
  | nil => intro _ _ i h; simp at h
  | cons d cs ih =>
    intro l hr i h
    obtain ⟨_, _, h3⟩ := hr
    cases i with
    | zero =>
      cases cs with
      | nil => simp at h
      | cons e cs => intro hu; exact h3.2.1 hu
    | succ i =>
      have h' : i + 1 < cs.length := by simpa using h
      simpa using ih d.link h3 i h'

/-- The clauses give `LinksRestorable` back (the first cell judged against the cursor link `l`). -/
theorem restorable_of_clauses : ∀ (cs : List LCell) (l : Link), (∀ c ∈ cs, LinkCanon c.link) →
    (∀ c, cs.head? = some c → c.link.url = l.url → c.link.params = l.params) →
    (∀ (i : Nat) (h : i + 1 < cs.length), (cs[i + 1]).link.url = (cs[i]).link.url → (cs[i + 1]).link.params = (cs[i]).link.params) →
    LinksRestorable l cs := by
  intro cs
  induction cs with
  | nil => intro _ _ _ _; trivial
  | cons d cs ih =>
    intro l hcan hhead hnb
    refine ⟨hcan d (List.mem_cons_self ..), hhead d rfl, ih d.link (fun c hc => hcan c (List.mem_cons_of_mem _ hc)) ?_ ?_⟩
    · intro c hc
      cases cs with
      | nil => cases hc
      | cons e cs =>
        simp only [List.head?_cons, Option.some.injEq] at hc
        subst hc
        exact hnb 0 (by simp)
    · intro i h
      have := hnb (i + 1) (by simpa using h)
      simpa using this

/-- `LinksRestorable {}` without recursion: every link transmittable, neighbours with equal URLs have equal parameters. -/
theorem restorable_default_iff (cs : List LCell) :
    LinksRestorable {} cs ↔ (∀ c ∈ cs, LinkCanon c.link) ∧
      ∀ (i : Nat) (h : i + 1 < cs.length), (cs[i + 1]).link.url = (cs[i]).link.url → (cs[i + 1]).link.params = (cs[i]).link.params := by
  constructor
  · intro h; exact ⟨restorable_mem_canon cs {} h, restorable_neighbours cs {} h⟩
  · rintro ⟨h1, h2⟩
    refine restorable_of_clauses cs {} h1 ?_ h2
    intro c hc hu
    have hm : c ∈ cs := by
      cases cs with
      | nil => cases hc
      | cons e cs => simp only [List.head?_cons, Option.some.injEq] at hc; subst hc; exact List.mem_cons_self ..
    exact (h1 c hm).2 hu

/-! ### witness cell lists for `Props/C18LinksIff.lean` -/

/-- Parameters `a;b` under the URL `u`: written `ESC ] 8 ; a;b ; u ESC \`. -/
def exSemiParams : List LCell := [⟨⟨[0x61], {}⟩, ⟨[0x75], [0x61, 0x3B, 0x62]⟩⟩]

/-- Parameters `p` on a cell without URL, after a cell with the URL `u`: written `ESC ] 8 ; ; ESC \`. -/
def exEmptyUrlParams : List LCell := [⟨⟨[0x61], {}⟩, ⟨[0x75], []⟩⟩, ⟨⟨[0x62], {}⟩, ⟨[], [0x70]⟩⟩]

/-- Parameters `p` on the very first cell, without URL: nothing is written at all. -/
def exFirstParams : List LCell := [⟨⟨[0x61], {}⟩, ⟨[], [0x70]⟩⟩]

end VaxisModel.Lemmas.SgrLinksIff
