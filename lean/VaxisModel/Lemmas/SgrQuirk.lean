/-
C18, round 4 (T2): a whole rendered frame read by the library's own SGR consumers (the vaxis-inside-vaxis situation: an
application rendering into the embedded terminal, or its output captured and re-parsed), for every capability setting and
both format variants.  The consumer follows the renderer with the pen `capStyle rgb su <cursor>`.
-/
import VaxisModel.Lemmas.SgrDelta
import VaxisModel.Lemmas.SgrShows
import VaxisModel.Lemmas.SgrBytes

namespace VaxisModel.Lemmas.SgrQuirk
open VaxisModel VaxisModel.Gen VaxisModel.Model.Sgr VaxisModel.Model.SgrBytes VaxisModel.Lemmas.Sgr VaxisModel.Lemmas.SgrDelta
open VaxisModel.Lemmas.SgrBytes VaxisModel.Lemmas.ParserParams

theorem capStyle_default (rgb su : Bool) : capStyle rgb su {} = {} := by
  cases rgb <;> cases su <;> simp [capStyle, asIndex_zero] <;> rfl

/-- The cells a consumer sees for a frame: the renderer's cells with the styles the terminal's capabilities leave. -/
def capCells {γ : Type} (rgb su : Bool) (cs : List (Cell γ)) : List (Cell γ) := cs.map (fun c => ⟨c.g, capStyle rgb su c.st⟩)

theorem render_read_generic {γ : Type} (rgb su legacy : Bool) (f : Style → Seq → Except Panic Style)
    (hdelta : ∀ p n, p.wf → n.wf → foldC f (capStyle rgb su p) (renderDelta rgb su legacy p n) = .ok (capStyle rgb su n))
    (hreset : ∀ s, ∃ s', f s [] = .ok s') :
    ∀ (cs : List (Cell γ)) (s : Style), s.wf → (∀ c ∈ cs, c.st.wf) →
      parseToks f (capStyle rgb su s) (renderFrom rgb su legacy s cs) = .ok (capCells rgb su cs) := by
  intro cs
  induction cs with
  | nil =>
    intro s _ _
    obtain ⟨s', h⟩ := hreset (capStyle rgb su s)
    simp only [renderFrom, sgrResetQ_eq, parseToks, h, capCells, List.map_nil]
  | cons c cs ih =>
    intro s hs hcs
    have hc : c.st.wf := hcs c (List.mem_cons_self ..)
    unfold renderFrom
    rw [parseToks_sgrs, hdelta s c.st hs hc]
    simp only [parseToks, ih c.st hc (fun d hd => hcs d (List.mem_cons_of_mem _ hd)), capCells, List.map_cons]

theorem render_read_generic_ss {γ : Type} (rgb su legacy : Bool) (f : Style → Seq → Except Panic Style)
    (hdelta : ∀ p n, p.wf → n.wf → foldC f (capStyle rgb su p) (renderDelta rgb su legacy p n) = .ok (capStyle rgb su n)) :
    ∀ (cs : List (Cell γ)) (s : Style), s.wf → (∀ c ∈ cs, c.st.wf) →
      ssParseToks f (capStyle rgb su s) (renderFrom rgb su legacy s cs) = .ok (capCells rgb su cs) := by
  intro cs
  induction cs with
  | nil =>
    intro s _ _
    simp [renderFrom, ssParseToks, capCells]
  | cons c cs ih =>
    intro s hs hcs
    have hc : c.st.wf := hcs c (List.mem_cons_self ..)
    unfold renderFrom
    rw [ssParseToks_sgrs f _ _ (by simp), hdelta s c.st hs hc]
    simp only [ssParseToks, ih c.st hc (fun d hd => hcs d (List.mem_cons_of_mem _ hd)), capCells, List.map_cons]

/-! ### bytes of a list of producible sequences through the consumers -/

theorem good_sgrs (cl : Str → Nat) (rest : List (Tok Seq Str)) (hr : Good cl rest) :
    ∀ (l : List Seq), (∀ q ∈ l, ParamsOk q) → Good cl (l.map Tok.sgr ++ rest)
  | [], _ => hr
  | q :: l, h => ⟨h q (List.mem_cons_self ..), good_sgrs cl rest hr l (fun x hx => h x (List.mem_cons_of_mem _ hx))⟩

/-- The parser-based consumers on the bytes of a list of producible sequences = the fold over the sequences. -/
theorem pen_bytes (cl : Str → Nat) (f : Style → Seq → Except Panic Style) (l : List Seq)
    (h : ∀ q ∈ l, emittableLegacy q = true) (s : Style) :
    penOf f s (tokenize cl (bytesOfSeqs l)) = foldC f s l := by
  have hg : Good cl (l.map Tok.sgr ++ []) := good_sgrs cl [] trivial l (fun q hq => paramsOk_of_eml q (h q hq))
  rw [List.append_nil] at hg
  rw [← bytesOfToks_sgrs, tokenize_toks cl _ hg, penOf_items]
  have := penAfter_sgrs (γ := Str) f l [] s
  rw [List.append_nil] at this
  rw [this]
  cases foldC f s l <;> rfl

end VaxisModel.Lemmas.SgrQuirk
