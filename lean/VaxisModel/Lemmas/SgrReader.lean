/-
C18 ∘ C02's reader model: on a complete in-memory string of Unicode scalar values, delivered to the parser in one read,
`ParserIO.runChunks` (bufio fill loop, `readRune`, `print`'s look-ahead over the buffer) delivers exactly the items of
`SgrBytes.scan` with the cluster oracle on the remaining runes, followed by what the parser emits at end of input.
-/
import VaxisModel.Model.SgrReader
import VaxisModel.Lemmas.SgrBytes
import VaxisModel.Lemmas.ParserRead
import VaxisModel.Props.C02

namespace VaxisModel.Lemmas.SgrReader
open VaxisModel.Model.Sgr VaxisModel.Model.SgrBytes VaxisModel.Model.SgrReader
open VaxisModel.Model.ParserTable VaxisModel.Model.Parser VaxisModel.Model.ParserIO VaxisModel.Model.ParserUtf8
open VaxisModel.Lemmas.ParserUtf8 VaxisModel.Lemmas.ParserTextU VaxisModel.Lemmas.ParserRead
open VaxisModel.Lemmas.ParserAbs (isEof)

local notation "bytesOfRd" => VaxisModel.Lemmas.ParserText.bytesOf
local notation "IOItem" => VaxisModel.Model.ParserIO.Item
local notation "SItem" => VaxisModel.Model.SgrBytes.Item
local notation "SSeq" => VaxisModel.Model.Sgr.Seq

/-! ### UTF-8 of a rune list -/

theorem utf8_nil : utf8 [] = [] := rfl
theorem utf8_cons (r : Nat) (w : Str) : utf8 (r :: w) = encodeRune r ++ utf8 w := by simp [utf8]
theorem utf8_append (a b : Str) : utf8 (a ++ b) = utf8 a ++ utf8 b := by simp [utf8]

theorem utf8_length_ge (w : Str) : w.length ≤ (utf8 w).length := by
  induction w with
  | nil => simp [utf8]
  | cons r w ih =>
    have := (encodeRune_length r).1
    rw [utf8_cons, List.length_append, List.length_cons]; omega

theorem encodeRune_ne_nil (r : Nat) : ∃ b t, encodeRune r = b :: t := by
  have := (encodeRune_length r).1
  cases h : encodeRune r with
  | nil => rw [h] at this; simp at this
  | cons b t => exact ⟨b, t, rfl⟩

/-! ### the reader once everything is buffered -/

theorem fill_done (buf : List Nat) (pos : Nat) : (Rd.mk buf [] pos).fill = Rd.mk buf [] pos := by
  simp [Rd.fill, fillLoop]

/-- `readRune` with the rest of a valid string in the buffer: the next scalar, its bytes consumed. -/
theorem readRune_valid (r : Nat) (hr : IsScalar r) (w : Str) (pos : Nat) :
    readRune (Rd.mk (utf8 (r :: w)) [] pos) = (some r, Rd.mk (utf8 w) [] (pos + (encodeRune r).length)) := by
  obtain ⟨b, t, he⟩ := encodeRune_ne_nil r
  have hb : bytesOfRd (Rd.mk (utf8 (r :: w)) [] pos) = b :: (t ++ utf8 w) := by
    simp [VaxisModel.Lemmas.ParserText.bytesOf, utf8_cons, he]
  obtain ⟨h1, h2, h3, k, h4⟩ := (readRune_spec (Rd.mk (utf8 (r :: w)) [] pos)).2 b (t ++ utf8 w) hb
  have hu : unit1 (b :: (t ++ utf8 w)) = ⟨r, false, (encodeRune r).length⟩ := by
    have := unit1_encode r hr (utf8 w); rw [he] at this; rw [he]; exact this
  rw [hu] at h1 h2 h3
  have hc : (readRune (Rd.mk (utf8 (r :: w)) [] pos)).2.chunks = [] := by rw [h4]; simp
  have hbuf : (readRune (Rd.mk (utf8 (r :: w)) [] pos)).2.buf = utf8 w := by
    have : bytesOfRd (readRune (Rd.mk (utf8 (r :: w)) [] pos)).2 = utf8 w := by
      rw [h2]
      have : b :: (t ++ utf8 w) = encodeRune r ++ utf8 w := by rw [he]; rfl
      rw [this, List.drop_left]
    simpa [VaxisModel.Lemmas.ParserText.bytesOf, hc] using this
  generalize hq : readRune (Rd.mk (utf8 (r :: w)) [] pos) = q at h1 h3 hc hbuf
  obtain ⟨o, rd'⟩ := q
  obtain ⟨bf, ch, ps⟩ := rd'
  simp only at h1 h3 hc hbuf
  subst h1 hc hbuf h3
  rfl

/-- `print`'s look-ahead with the rest of a valid string in the buffer: it takes runes until the builder holds
    `n` of them (the oracle's cluster length) or the string ends. -/
theorem printLoop_valid (n : Nat) : ∀ (fuel : Nat) (w : Str) (acc : List Nat) (pos : Nat),
    (∀ r ∈ w, IsScalar r) → w.length ≤ fuel →
    printLoop n fuel (Rd.mk (utf8 w) [] pos) acc =
      (acc ++ w.take (n - acc.length),
       Rd.mk (utf8 (w.drop (n - acc.length))) [] (pos + (utf8 (w.take (n - acc.length))).length)) := by
  intro fuel
  induction fuel with
  | zero =>
    intro w acc pos _ hl
    have : w = [] := List.eq_nil_of_length_eq_zero (by omega)
    subst this
    simp [printLoop, utf8]
  | succ fuel ih =>
    intro w acc pos hs hl
    cases w with
    | nil => simp [printLoop, utf8]
    | cons r w =>
      have hr : IsScalar r := hs r (by simp)
      obtain ⟨b, t, he⟩ := encodeRune_ne_nil r
      have hne : (utf8 (r :: w)).isEmpty = false := by rw [utf8_cons, he]; rfl
      have hd : decodeRune (utf8 (r :: w)) = (r, (encodeRune r).length) := by
        rw [utf8_cons]; exact decodeRune_encode r hr (utf8 w)
      have hinv : (decide (r = runeError) && decide ((encodeRune r).length = 1)) = false := by
        have hl := (encodeRune_length r).2
        by_cases h : r = runeError
        · have : ¬ (encodeRune r).length = 1 := fun h1 => by have := hl h1; simp only [runeError] at h; omega
          simp [this]
        · simp [h]
      simp only [printLoop, hne, Bool.false_eq_true, if_false, fill_done, hd, lookahead_flag, Bool.true_and, hinv]
      by_cases hfull : acc.length + 1 > n
      · have h0 : n - acc.length = 0 := by omega
        simp [hfull, h0, utf8]
      · have hpos : n - acc.length = (n - (acc.length + 1)) + 1 := by omega
        simp only [hfull, if_false]
        have hcons : Rd.consume (Rd.mk (utf8 (r :: w)) [] pos) (encodeRune r).length =
            Rd.mk (utf8 w) [] (pos + (encodeRune r).length) := by
          simp [Rd.consume, utf8_cons]
        rw [hcons, ih w (acc ++ [r]) _ (fun x hx => hs x (by simp [hx])) (by simp at hl; omega)]
        simp only [List.length_append, List.length_cons, List.length_nil, Nat.zero_add]
        rw [hpos, List.take_succ_cons, List.drop_succ_cons, utf8_cons, List.length_append]
        simp [Nat.add_assoc]

/-! ### the end of input -/

theorem eof_row : handAnywhere.row .eof = ([.runExitIfSet], .stop) := by decide

/-- At end of input the parser emits at most the control string that was open: never a Print, never a CSI. -/
theorem eof_out (s : PState) : ∀ x ∈ (pstep s .eof).out, isPrint x = false ∧ (∀ i p f, x ≠ .csi i p f) := by
  intro x hx
  unfold pstep step runFn at hx
  simp only [handTable, eof_row, runActs, usesRune, applyAct] at hx
  cases he : s.exit with
  | none => simp [he, finish] at hx
  | some f =>
    cases f <;> simp [he, finish, runExitFn] at hx <;> subst hx <;> simp [isPrint]

/-- What follows the items of the string itself: nothing `ParseStyledString` looks at. -/
def TailOk (tail : List IOItem) : Prop :=
  ∀ x ∈ tail, ∃ q, x = .seq q ∧ isPrint q = false ∧ (∀ i p f, q ≠ .csi i p f)

theorem cellsOfIO_tail (tail : List IOItem) (h : TailOk tail) : ∀ s, cellsOfIO s tail = .ok [] := by
  induction tail with
  | nil => intro s; rfl
  | cons x r ih =>
    intro s
    obtain ⟨q, rfl, _, hq⟩ := h x (by simp)
    have ih' := ih (fun y hy => h y (by simp [hy])) s
    cases q <;> first | exact absurd rfl (hq _ _ _) | simpa [cellsOfIO] using ih'

/-! ### the run loop on a buffered valid string = `scan` -/

/-- The oracle of ParserIO (indexed by byte offset) and the oracle on the remaining runes say the same. -/
def Agrees (clusterAt : Nat → Nat) (cl : Str → Nat) (pos : Nat) (rs : Str) : Prop :=
  ∀ k, clusterAt (pos + (utf8 (rs.take k)).length) = cl (rs.drop k)

theorem Agrees.drop {clusterAt : Nat → Nat} {cl : Str → Nat} {pos : Nat} {rs : Str} (h : Agrees clusterAt cl pos rs) (n : Nat) :
    Agrees clusterAt cl (pos + (utf8 (rs.take n)).length) (rs.drop n) := by
  intro k
  have := h (n + k)
  rw [List.take_add, utf8_append, List.length_append, ← Nat.add_assoc] at this
  rw [this, List.drop_drop]

theorem runLoop_single (clusterAt : Nat → Nat) (cl : Str → Nat) : ∀ (n : Nat) (rs : Str) (s : PState) (pos fuel : Nat),
    Props.C02.Inv s → (∀ r ∈ rs, IsScalar r) → Agrees clusterAt cl pos rs → rs.length ≤ n → rs.length + 1 ≤ fuel →
    ∃ tail, runLoop handTable clusterAt fuel s (Rd.mk (utf8 rs) [] pos) = (scan cl n s rs).map ioItem ++ tail ∧ TailOk tail := by
  intro n
  induction n with
  | zero =>
    intro rs s pos fuel _ _ _ hn hf
    have : rs = [] := List.eq_nil_of_length_eq_zero (by omega)
    subst this
    cases fuel with
    | zero => omega
    | succ fuel =>
      refine ⟨(pstep s .eof).out.map .seq ++ [.seq .eof], ?_, ?_⟩
      · simp [runLoop, readRune, fill_done, utf8, scan, pstep]
      · intro x hx
        simp only [List.mem_append, List.mem_map, List.mem_singleton] at hx
        rcases hx with ⟨q, hq, rfl⟩ | rfl
        · exact ⟨q, rfl, (eof_out s q hq).1, (eof_out s q hq).2⟩
        · exact ⟨.eof, rfl, rfl, fun _ _ _ h => by cases h⟩
  | succ n ih =>
    intro rs s pos fuel hinv hs hag hn hf
    cases fuel with
    | zero => omega
    | succ fuel =>
      cases rs with
      | nil =>
        refine ⟨(pstep s .eof).out.map .seq ++ [.seq .eof], ?_, ?_⟩
        · simp [runLoop, readRune, fill_done, utf8, scan, pstep]
        · intro x hx
          simp only [List.mem_append, List.mem_map, List.mem_singleton] at hx
          rcases hx with ⟨q, hq, rfl⟩ | rfl
          · exact ⟨q, rfl, (eof_out s q hq).1, (eof_out s q hq).2⟩
          · exact ⟨.eof, rfl, rfl, fun _ _ _ h => by cases h⟩
      | cons r w =>
        have hr : IsScalar r := hs r (by simp)
        have hw : ∀ x ∈ w, IsScalar x := fun x hx => hs x (by simp [hx])
        have hstep := Props.C02.invariant_step s hinv (.rune r)
        have hstop : (step handTable s (.rune r)).stop = false := by
          have := hstep.2.2; simpa [pstep, isEof] using this
        have hinv' : Props.C02.Inv (pstep s (.rune r)).st := hstep.1 rfl
        have h0 : clusterAt pos = cl (r :: w) := by simpa [utf8] using hag 0
        have hrun : ∀ tail', runLoop handTable clusterAt (fuel + 1) s (Rd.mk (utf8 (r :: w)) [] pos) = tail' ↔
            (let d := deliver clusterAt pos (step handTable s (.rune r)).out (Rd.mk (utf8 w) [] (pos + (encodeRune r).length))
             d.1 ++ runLoop handTable clusterAt fuel (step handTable s (.rune r)).st d.2) = tail' := by
          intro tail'
          conv => lhs; lhs; unfold runLoop
          simp only [readRune_valid r hr w pos, hstop, Bool.false_eq_true, if_false]
        by_cases hpr : ∃ x ∈ (pstep s (.rune r)).out, isPrint x = true
        · -- a Print: the look-ahead takes the rest of the cluster
          obtain ⟨x, hx, hxp⟩ := hpr
          obtain ⟨_, _, hps⟩ := print_only_ground s r x hx hxp
          have hps' : step handTable s (.rune r) = ⟨s, [.print r], false⟩ := hps
          have hfuel : w.length ≤ (Rd.mk (utf8 w) [] (pos + (encodeRune r).length)).remaining + 1 := by
            have := utf8_length_ge w
            simp [Rd.remaining]; omega
          have hN : max 1 (cl (r :: w)) = (max 1 (cl (r :: w)) - 1) + 1 := by omega
          generalize hm : max 1 (cl (r :: w)) - 1 = m at hN
          have hag' := hag.drop (m + 1)
          rw [List.take_succ_cons, List.drop_succ_cons, utf8_cons, List.length_append, ← Nat.add_assoc] at hag'
          obtain ⟨tail, ht, hok⟩ := ih (w.drop m) s _ fuel hinv (fun x hx => hw x (List.mem_of_mem_drop hx)) hag'
            (by simp at hn ⊢; omega) (by simp at hf ⊢; omega)
          refine ⟨tail, ?_, hok⟩
          rw [hrun]
          conv => rhs; unfold scan
          simp only [hps, hps', deliver, h0]
          rw [printLoop_valid _ _ w [r] _ hw hfuel]
          simp only [List.length_cons, List.length_nil, Nat.zero_add]
          rw [hN, List.take_succ_cons, List.drop_succ_cons]
          simp only [Nat.add_sub_cancel, List.singleton_append, List.cons_append, List.nil_append, List.map_cons, ioItem]
          rw [ht]
        · -- no Print in the output: the items as they are
          have hnp : ∀ x ∈ (step handTable s (.rune r)).out, isPrint x = false := by
            intro x hx
            cases hxp : isPrint x with
            | false => rfl
            | true => exact absurd ⟨x, hx, hxp⟩ hpr
          have hag' := hag.drop 1
          simp only [List.take_succ_cons, List.take_zero, List.drop_succ_cons, List.drop_zero] at hag'
          have hu1 : utf8 [r] = encodeRune r := by simp [utf8]
          rw [hu1] at hag'
          obtain ⟨tail, ht, hok⟩ := ih w (pstep s (.rune r)).st _ fuel hinv' hw hag'
            (by simp at hn; omega) (by simp at hf; omega)
          refine ⟨tail, ?_, hok⟩
          rw [hrun, deliver_noprint _ _ _ _ hnp]
          conv => rhs; unfold scan
          dsimp only
          split
          · rename_i r' heq
            have := hnp (.print r') (by show Seq.print r' ∈ (pstep s (.rune r)).out; rw [heq]; simp)
            simp [isPrint] at this
          · simp only [List.map_append, List.map_map]
            rw [List.append_assoc]
            congr 1

/-! ### the first read, whole strings -/

theorem readRune_first (bs : List Nat) :
    readRune (Rd.mk [] [bs] 0) = readRune (Rd.mk bs [] 0) := by
  have h : (Rd.mk [] [bs] 0).fill = (Rd.mk bs [] 0).fill := by simp [Rd.fill, fillLoop, fullRune]
  unfold readRune
  simp only [h]

theorem runLoop_first (clusterAt : Nat → Nat) (fuel : Nat) (s : PState) (bs : List Nat) :
    runLoop handTable clusterAt fuel s (Rd.mk [] [bs] 0) = runLoop handTable clusterAt fuel s (Rd.mk bs [] 0) := by
  cases fuel with
  | zero => rfl
  | succ fuel =>
    conv => lhs; unfold runLoop
    conv => rhs; unfold runLoop
    simp only [readRune_first]

/-- **One read of a valid string**: the items ParserIO delivers are the items of `tokenize` (the C18 byte-level model:
    one automaton step per rune, a Print swallows the oracle's cluster of the remaining runes), then the end of input. -/
theorem runChunks_single (clusterAt : Nat → Nat) (cl : Str → Nat) (rs : Str) (hs : ∀ r ∈ rs, IsScalar r)
    (hag : Agrees clusterAt cl 0 rs) :
    ∃ tail, runChunks handTable clusterAt [utf8 rs] = (tokenize cl rs).map ioItem ++ tail ∧ TailOk tail := by
  unfold runChunks tokenize
  by_cases he : utf8 rs = []
  · have hrs : rs = [] := by
      cases rs with
      | nil => rfl
      | cons r w =>
        obtain ⟨b, t, hb⟩ := encodeRune_ne_nil r
        rw [utf8_cons, hb] at he; cases he
    subst hrs
    have : ([utf8 []] : List (List Nat)).filter (!·.isEmpty) = [] := by simp [utf8]
    simp only [this]
    exact runLoop_single clusterAt cl 0 [] PState.init 0 _ Props.C02.inv_init hs hag (Nat.le_refl _) (by simp [Rd.remaining])
  · have : ([utf8 rs] : List (List Nat)).filter (!·.isEmpty) = [utf8 rs] := by
      cases h : utf8 rs with
      | nil => exact absurd h he
      | cons b t => simp
    simp only [this]
    rw [runLoop_first]
    exact runLoop_single clusterAt cl rs.length rs PState.init 0 _ Props.C02.inv_init hs hag (Nat.le_refl _)
      (by have := utf8_length_ge rs; simp [Rd.remaining]; omega)

/-- `ParseStyledString`'s loop does not look at the tail, and on the items of the string it is `cellsOf`. -/
theorem cellsOfIO_items (tail : List IOItem) (h : TailOk tail) :
    ∀ (items : List SItem) (s : Style), cellsOfIO s (items.map ioItem ++ tail) = cellsOf s items := by
  intro items
  induction items with
  | nil => intro s; exact cellsOfIO_tail tail h s
  | cons x r ih =>
    intro s
    match x with
    | .text g => simp only [List.map_cons, List.cons_append, ioItem, cellsOfIO, cellsOf, ih]; cases cellsOf s r <;> rfl
    | .seq (.csi i ps f) =>
      simp only [List.map_cons, List.cons_append, ioItem, cellsOfIO, cellsOf, ih]
      split
      · cases parseSGR s (ps.map (·.map Int.toNat)) <;> rfl
      · rfl
    | .seq (.print _) | .seq (.c0 _) | .seq (.esc _ _) | .seq (.ss3 _) | .seq (.osc _) | .seq (.dcs _ _ _ _)
    | .seq (.apc _) | .seq .err | .seq .eof | .seq .panic =>
      simp only [List.map_cons, List.cons_append, ioItem, cellsOfIO, cellsOf, ih]

/-! ### the runes of an encoded string -/

theorem csiM_scalar (q : SSeq) : ∀ r ∈ csiM q, IsScalar r := by
  intro r hr
  simp only [csiM, List.mem_cons, List.mem_append, List.mem_nil_iff, or_false] at hr
  rcases hr with rfl | rfl | hr | rfl
  · exact Or.inl (by decide)
  · exact Or.inl (by decide)
  · have := VaxisModel.Lemmas.ParserParams.encParams_bytes q r hr
    exact Or.inl (by omega)
  · exact Or.inl (by decide)

theorem bytesOfToks_scalar : ∀ (ts : List (Tok SSeq Str)), (∀ g, Tok.text g ∈ ts → ∀ r ∈ g, IsScalar r) →
    ∀ r ∈ bytesOfToks ts, IsScalar r
  | [], _, r, hr => by simp [bytesOfToks] at hr
  | .sgr q :: ts, h, r, hr => by
    rw [VaxisModel.Lemmas.SgrBytes.bytesOfToks_sgr, List.mem_append] at hr
    rcases hr with hr | hr
    · exact csiM_scalar q r hr
    · exact bytesOfToks_scalar ts (fun g hg => h g (by simp [hg])) r hr
  | .text g :: ts, h, r, hr => by
    rw [VaxisModel.Lemmas.SgrBytes.bytesOfToks_text, List.mem_append] at hr
    rcases hr with hr | hr
    · exact h g (by simp) r hr
    · exact bytesOfToks_scalar ts (fun g' hg => h g' (by simp [hg])) r hr

theorem encodeFrom_text_mem (delta : Style → Style → List SSeq) : ∀ (cs : List (Cell Str)) (s : Style) (g : Str),
    Tok.text g ∈ encodeFrom delta s cs → ∃ c ∈ cs, c.g = g := by
  intro cs
  induction cs with
  | nil =>
    intro s g hg
    unfold encodeFrom at hg
    split at hg <;> simp at hg
  | cons c cs ih =>
    intro s g hg
    unfold encodeFrom at hg
    simp only [List.mem_append, List.mem_map, List.mem_cons] at hg
    rcases hg with ⟨q, _, e⟩ | e | hg
    · cases e
    · injection e with e; exact ⟨c, by simp, e.symm⟩
    · obtain ⟨d, hd, e⟩ := ih c.st g hg
      exact ⟨d, by simp [hd], e⟩

end VaxisModel.Lemmas.SgrReader
