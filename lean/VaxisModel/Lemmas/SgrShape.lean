/-
C18, round 4: every SGR consumer is, for a fixed parameter list, a transformer of a very simple shape — each colour field and
the underline style is either kept or set to a constant, each attribute bit is kept, set or cleared — or it panics whatever
the style (control flow never looks at the style).  Two transformers of that shape that agree on the two test styles
`probe0 = ⟨0,0,0,0,0⟩` and `probe1 = ⟨1,1,1,7,255⟩` agree on every style with an 8-bit attribute mask.  This makes
"the consumers agree on `q` from every style" decidable by evaluation at two points (`Props.C18Agree.consumers_agree_iff`).
-/
import VaxisModel.Lemmas.SgrAgree

namespace VaxisModel.Lemmas.SgrShape
open VaxisModel VaxisModel.Gen VaxisModel.Model.Sgr VaxisModel.Lemmas.Sgr VaxisModel.Lemmas.SgrAgree
open VaxisModel.Model.Color (Color indexColor rgbColor)

/-! ### shapes -/

/-- A function on attribute masks that treats every bit on its own: kept, or constant (bits ≥ 8 are never set). -/
def BitShaped (g : Nat → Nat) : Prop :=
  ∀ i, (∀ m, (g m).testBit i = m.testBit i) ∨ (∃ b, (8 ≤ i → b = false) ∧ ∀ m, (g m).testBit i = b)

theorem bitShaped_id : BitShaped (fun m => m) := fun _ => Or.inl (fun _ => rfl)

theorem bitShaped_zero : BitShaped (fun _ => 0) := fun i => Or.inr ⟨false, fun _ => rfl, fun _ => Nat.zero_testBit i⟩

theorem bitShaped_comp (g h : Nat → Nat) (hg : BitShaped g) (hh : BitShaped h) : BitShaped (fun m => h (g m)) := by
  intro i
  rcases hh i with hk | ⟨b, hb, hc⟩
  · rcases hg i with gk | ⟨b, hb, gc⟩
    · exact Or.inl (fun m => by show (h (g m)).testBit i = _; rw [hk, gk])
    · exact Or.inr ⟨b, hb, fun m => by show (h (g m)).testBit i = _; rw [hk, gc]⟩
  · exact Or.inr ⟨b, hb, fun m => hc (g m)⟩

theorem bitShaped_set (i : Nat) (hi : i < 8) : BitShaped (fun m => setBits m (2 ^ i)) := by
  intro j
  by_cases h : i = j
  · subst h
    exact Or.inr ⟨true, fun h8 => absurd h8 (by omega), fun m => by rw [tb_set]; simp⟩
  · exact Or.inl (fun m => by rw [tb_set]; simp [h])

theorem bitShaped_clear (i : Nat) : BitShaped (fun m => clearBits m (2 ^ i)) := by
  intro j
  by_cases h : i = j
  · subst h
    exact Or.inr ⟨false, fun _ => rfl, fun m => by rw [tb_clear]; simp⟩
  · exact Or.inl (fun m => by rw [tb_clear]; simp [h])

theorem lt256_testBit (m i : Nat) (hm : m < 256) (hi : 8 ≤ i) : m.testBit i = false :=
  Nat.testBit_lt_two_pow (Nat.lt_of_lt_of_le hm (by
    calc 256 = 2 ^ 8 := by decide
      _ ≤ 2 ^ i := Nat.pow_le_pow_right (by decide) hi))

theorem tb255 (i : Nat) (hi : i < 8) : (255 : Nat).testBit i = true := by
  have : i = 0 ∨ i = 1 ∨ i = 2 ∨ i = 3 ∨ i = 4 ∨ i = 5 ∨ i = 6 ∨ i = 7 := by omega
  rcases this with rfl | rfl | rfl | rfl | rfl | rfl | rfl | rfl <;> decide

/-- Two bit-shaped functions that agree on 0 and on 255 agree on every 8-bit mask. -/
theorem bitShaped_ext (g h : Nat → Nat) (hg : BitShaped g) (hh : BitShaped h) (h0 : g 0 = h 0) (h1 : g 255 = h 255)
    (m : Nat) (hm : m < 256) : g m = h m := by
  apply Nat.eq_of_testBit_eq
  intro i
  by_cases hi : 8 ≤ i
  · have hmi := lt256_testBit m i hm hi
    have e1 : (g m).testBit i = false := by
      rcases hg i with k | ⟨b, hb, c⟩
      · rw [k, hmi]
      · rw [c, hb hi]
    have e2 : (h m).testBit i = false := by
      rcases hh i with k | ⟨b, hb, c⟩
      · rw [k, hmi]
      · rw [c, hb hi]
    rw [e1, e2]
  · have hi' : i < 8 := by omega
    have t0 : (0 : Nat).testBit i = false := Nat.zero_testBit i
    have t1 := tb255 i hi'
    have a0 : (g 0).testBit i = (h 0).testBit i := by rw [h0]
    have a1 : (g 255).testBit i = (h 255).testBit i := by rw [h1]
    rcases hg i with gk | ⟨b, _, gc⟩ <;> rcases hh i with hk | ⟨b', _, hc⟩
    · rw [gk, hk]
    · rw [gk, hc] at a0 a1
      rw [t0] at a0; rw [t1] at a1
      rw [← a0] at a1; cases a1
    · rw [gc, hk] at a0 a1
      rw [t0] at a0; rw [t1] at a1
      rw [a0] at a1; cases a1
    · rw [gc, hc] at a0
      rw [gc, hc, a0]

/-- A field that is kept or set to a constant. -/
def KC {α : Type} (f : α → α) : Prop := (∀ x, f x = x) ∨ (∃ c, ∀ x, f x = c)

theorem kc_comp {α : Type} (f g : α → α) (hf : KC f) (hg : KC g) : KC (fun x => g (f x)) := by
  rcases hg with gk | ⟨c, gc⟩
  · rcases hf with fk | ⟨c, fc⟩
    · exact Or.inl (fun x => by show g (f x) = x; rw [gk, fk])
    · exact Or.inr ⟨c, fun x => by show g (f x) = c; rw [gk, fc]⟩
  · exact Or.inr ⟨c, fun x => gc (f x)⟩

theorem kc_ext (f g : Nat → Nat) (hf : KC f) (hg : KC g) (a b : Nat) (hab : a ≠ b) (ha : f a = g a) (hb : f b = g b) (x : Nat) :
    f x = g x := by
  rcases hf with fk | ⟨c, fc⟩ <;> rcases hg with gk | ⟨c', gc⟩
  · rw [fk, gk]
  · rw [fk, gc] at ha hb; exact absurd (ha.trans hb.symm) hab
  · rw [fc, gk] at ha hb; exact absurd (ha.symm.trans hb) hab
  · rw [fc, gc] at ha; rw [fc, gc, ha]

/-- A style transformer of the simple shape: field by field. -/
structure Shaped (F : Style → Style) : Prop where
  shape : ∃ (ffg fbg ful : Color → Color) (fus : Nat → Nat) (g : Nat → Nat),
    KC ffg ∧ KC fbg ∧ KC ful ∧ KC fus ∧ BitShaped g ∧
    ∀ s, F s = ⟨ffg s.fg, fbg s.bg, ful s.ul, fus s.ulStyle, g s.attr⟩

theorem shaped_mk (ffg fbg ful : Color → Color) (fus g : Nat → Nat) (h1 : KC ffg) (h2 : KC fbg) (h3 : KC ful) (h4 : KC fus)
    (h5 : BitShaped g) : Shaped (fun s => ⟨ffg s.fg, fbg s.bg, ful s.ul, fus s.ulStyle, g s.attr⟩) :=
  ⟨⟨ffg, fbg, ful, fus, g, h1, h2, h3, h4, h5, fun _ => rfl⟩⟩

theorem kc_id {α : Type} : KC (fun x : α => x) := Or.inl (fun _ => rfl)
theorem kc_const {α : Type} (c : α) : KC (fun _ : α => c) := Or.inr ⟨c, fun _ => rfl⟩

theorem shaped_id : Shaped (fun s => s) :=
  ⟨⟨_, _, _, _, _, kc_id, kc_id, kc_id, kc_id, bitShaped_id, fun s => by cases s; rfl⟩⟩

theorem shaped_comp (F G : Style → Style) (hF : Shaped F) (hG : Shaped G) : Shaped (fun s => G (F s)) := by
  obtain ⟨a1, a2, a3, a4, a5, p1, p2, p3, p4, p5, hF⟩ := hF.shape
  obtain ⟨b1, b2, b3, b4, b5, q1, q2, q3, q4, q5, hG⟩ := hG.shape
  exact ⟨⟨_, _, _, _, _, kc_comp a1 b1 p1 q1, kc_comp a2 b2 p2 q2, kc_comp a3 b3 p3 q3, kc_comp a4 b4 p4 q4,
    bitShaped_comp a5 b5 p5 q5, fun s => by rw [hF, hG]⟩⟩

theorem shaped_ite (c : Prop) [Decidable c] (F G : Style → Style) (hF : Shaped F) (hG : Shaped G) :
    Shaped (fun s => if c then F s else G s) := by
  by_cases h : c
  · simpa only [h, if_true] using hF
  · simpa only [h, if_false] using hG

/-- **Two shaped transformers that agree on the two probes agree on every style with an 8-bit mask.** -/
theorem shaped_ext (F G : Style → Style) (hF : Shaped F) (hG : Shaped G) (h0 : F probe0 = G probe0) (h1 : F probe1 = G probe1)
    (s : Style) (hs : s.attr < 256) : F s = G s := by
  obtain ⟨a1, a2, a3, a4, a5, p1, p2, p3, p4, p5, hF⟩ := hF.shape
  obtain ⟨b1, b2, b3, b4, b5, q1, q2, q3, q4, q5, hG⟩ := hG.shape
  rw [hF, hG] at h0 h1
  simp only [probe0, probe1, Style.mk.injEq] at h0 h1
  rw [hF, hG]
  simp only [Style.mk.injEq]
  exact ⟨kc_ext a1 b1 p1 q1 0 1 (by decide) h0.1 h1.1 _, kc_ext a2 b2 p2 q2 0 1 (by decide) h0.2.1 h1.2.1 _,
    kc_ext a3 b3 p3 q3 0 1 (by decide) h0.2.2.1 h1.2.2.1 _, kc_ext a4 b4 p4 q4 0 7 (by decide) h0.2.2.2.1 h1.2.2.2.1 _,
    bitShaped_ext a5 b5 p5 q5 h0.2.2.2.2 h1.2.2.2.2 _ hs⟩

/-! ### leaves -/

theorem shaped_fg (c : Color) : Shaped (fun s => { s with fg := c }) :=
  shaped_mk (fun _ => c) (fun x => x) (fun x => x) (fun x => x) (fun x => x) (kc_const c) kc_id kc_id kc_id bitShaped_id
theorem shaped_bg (c : Color) : Shaped (fun s => { s with bg := c }) :=
  shaped_mk (fun x => x) (fun _ => c) (fun x => x) (fun x => x) (fun x => x) kc_id (kc_const c) kc_id kc_id bitShaped_id
theorem shaped_ul (c : Color) : Shaped (fun s => { s with ul := c }) :=
  shaped_mk (fun x => x) (fun x => x) (fun _ => c) (fun x => x) (fun x => x) kc_id kc_id (kc_const c) kc_id bitShaped_id
theorem shaped_uls (c : Nat) : Shaped (fun s => { s with ulStyle := c }) :=
  shaped_mk (fun x => x) (fun x => x) (fun x => x) (fun _ => c) (fun x => x) kc_id kc_id kc_id (kc_const c) bitShaped_id
theorem shaped_attr (g : Nat → Nat) (hg : BitShaped g) : Shaped (fun s => { s with attr := g s.attr }) :=
  shaped_mk (fun x => x) (fun x => x) (fun x => x) (fun x => x) g kc_id kc_id kc_id kc_id hg
theorem shaped_reset (a b c : Color) (u : Nat) : Shaped (fun _ => (⟨a, b, c, u, 0⟩ : Style)) :=
  shaped_mk (fun _ => a) (fun _ => b) (fun _ => c) (fun _ => u) (fun _ => 0) (kc_const a) (kc_const b) (kc_const c) (kc_const u)
    bitShaped_zero

theorem shaped_simple (p : Nat) : Shaped (simple p) := by
  show Shaped (fun s => simple p s)
  unfold simple
  repeat' (first
    | apply shaped_ite
    | exact shaped_id
    | exact shaped_reset _ _ _ _
    | exact shaped_fg _
    | exact shaped_bg _
    | exact shaped_ul _
    | exact shaped_uls _
    | exact shaped_attr _ (bitShaped_set 1 (by decide))
    | exact shaped_attr _ (bitShaped_set 2 (by decide))
    | exact shaped_attr _ (bitShaped_set 3 (by decide))
    | exact shaped_attr _ (bitShaped_set 4 (by decide))
    | exact shaped_attr _ (bitShaped_set 5 (by decide))
    | exact shaped_attr _ (bitShaped_set 6 (by decide))
    | exact shaped_attr _ (bitShaped_set 7 (by decide))
    | exact shaped_attr _ (bitShaped_clear 3)
    | exact shaped_attr _ (bitShaped_clear 4)
    | exact shaped_attr _ (bitShaped_clear 5)
    | exact shaped_attr _ (bitShaped_clear 6)
    | exact shaped_attr _ (bitShaped_clear 7)
    | exact shaped_attr _ (bitShaped_comp _ _ (bitShaped_clear 1) (bitShaped_clear 2)))

/-! ### the consumers are shaped (or panic whatever the style) -/

theorem intOne_shaped (cfg : Cfg) (cur : Param) (rest : Seq) :
    (∃ F nx, Shaped F ∧ ∀ s, intOne cfg cur rest s = .ok (F s, nx)) ∨ (∀ s, intOne cfg cur rest s = .error .index) := by
  cases cur with
  | nil => exact Or.inr (fun s => rfl)
  | cons p subs =>
    simp only [intOne_head]
    by_cases hl : (!cfg.labels.contains p) = true
    · exact Or.inl ⟨_, .cont 0, shaped_id, fun s => by rw [if_pos hl]⟩
    simp only [if_neg hl]
    by_cases h38 : p = 38
    · simp only [if_pos h38]
      cases h : extColour cfg 38 (p :: subs) rest with
      | error e => cases e; exact Or.inr (fun s => rfl)
      | ok r =>
        obtain ⟨oc, nx⟩ := r
        cases oc with
        | none => exact Or.inl ⟨_, nx, shaped_id, fun s => rfl⟩
        | some c => exact Or.inl ⟨_, nx, shaped_fg c, fun s => rfl⟩
    simp only [if_neg h38]
    by_cases h48 : p = 48
    · simp only [if_pos h48]
      cases h : extColour cfg 48 (p :: subs) rest with
      | error e => cases e; exact Or.inr (fun s => rfl)
      | ok r =>
        obtain ⟨oc, nx⟩ := r
        cases oc with
        | none => exact Or.inl ⟨_, nx, shaped_id, fun s => rfl⟩
        | some c => exact Or.inl ⟨_, nx, shaped_bg c, fun s => rfl⟩
    simp only [if_neg h48]
    by_cases h58 : p = 58
    · simp only [if_pos h58]
      cases h : extColour cfg 58 (p :: subs) rest with
      | error e => cases e; exact Or.inr (fun s => rfl)
      | ok r =>
        obtain ⟨oc, nx⟩ := r
        cases oc with
        | none => exact Or.inl ⟨_, nx, shaped_id, fun s => rfl⟩
        | some c => exact Or.inl ⟨_, nx, shaped_ul c, fun s => rfl⟩
    simp only [if_neg h58]
    by_cases h4 : p = 4
    · subst h4
      simp only [if_true, ulCase_eff]
      cases ulEff cfg subs with
      | none => exact Or.inl ⟨_, .cont 0, shaped_id, fun s => rfl⟩
      | some v => exact Or.inl ⟨_, .cont 0, shaped_uls v, fun s => rfl⟩
    simp only [if_neg h4]
    exact Or.inl ⟨_, .cont 0, shaped_simple p, fun s => rfl⟩

theorem intLoop_shaped (cfg : Cfg) : ∀ (q : Seq) (k : Nat),
    (∃ F, Shaped F ∧ ∀ s, intLoop cfg k q s = .ok (F s)) ∨ (∀ s, intLoop cfg k q s = .error .index)
  | [], k => Or.inl ⟨_, shaped_id, fun s => by cases k <;> rfl⟩
  | cur :: rest, k + 1 => by
    rcases intLoop_shaped cfg rest k with ⟨F, hF, h⟩ | h
    · exact Or.inl ⟨F, hF, fun s => by simp only [intLoop, h]⟩
    · exact Or.inr (fun s => by simp only [intLoop, h])
  | cur :: rest, 0 => by
    rcases intOne_shaped cfg cur rest with ⟨F, nx, hF, h⟩ | h
    · cases nx with
      | stop => exact Or.inl ⟨F, hF, fun s => by simp only [intLoop, h]⟩
      | cont k =>
        rcases intLoop_shaped cfg rest k with ⟨G, hG, hg⟩ | hg
        · exact Or.inl ⟨_, shaped_comp F G hF hG, fun s => by simp only [intLoop, h, hg]⟩
        · exact Or.inr (fun s => by simp only [intLoop, h, hg])
    · exact Or.inr (fun s => by simp only [intLoop, h])

theorem ssOne_shaped (cfg : Cfg) (cur : Param) (rest : List (List SubTok)) :
    (∃ F k, Shaped F ∧ ∀ s, ssOne cfg {} s (cur.map tokN) rest = .ok (F s, k)) ∨
    (∀ s, ssOne cfg {} s (cur.map tokN) rest = .error .index) := by
  cases cur with
  | nil => exact Or.inr (fun s => rfl)
  | cons p subs =>
    by_cases h4 : p = 4
    · subst h4
      by_cases hl : cfg.labels.contains 4 = true
      · simp only [ssOne_4 cfg subs rest _ hl]
        cases ulEff cfg subs with
        | none => exact Or.inl ⟨_, 0, shaped_id, fun s => rfl⟩
        | some v => exact Or.inl ⟨_, 0, shaped_uls v, fun s => rfl⟩
      · refine Or.inl ⟨_, 0, shaped_id, fun s => ?_⟩
        rw [ssOne_unfold, if_pos (by simpa using hl)]
    simp only [ssOne_head _ _ _ _ _ h4]
    by_cases hl : (!cfg.labels.contains p) = true
    · exact Or.inl ⟨_, 0, shaped_id, fun s => by rw [if_pos hl]⟩
    simp only [if_neg hl]
    by_cases h0 : p = 0
    · simp only [if_pos h0]
      exact Or.inl ⟨_, 0, shaped_reset 0 0 0 0, fun s => rfl⟩
    simp only [if_neg h0]
    by_cases h38 : p = 38
    · simp only [if_pos h38]
      cases h : ssColour cfg 38 ((p :: subs).map tokN) rest with
      | error e => cases e; exact Or.inr (fun s => rfl)
      | ok r =>
        obtain ⟨oc, k⟩ := r
        cases oc with
        | none => exact Or.inl ⟨_, k, shaped_id, fun s => rfl⟩
        | some c => exact Or.inl ⟨_, k, shaped_fg c, fun s => rfl⟩
    simp only [if_neg h38]
    by_cases h48 : p = 48
    · simp only [if_pos h48]
      cases h : ssColour cfg 48 ((p :: subs).map tokN) rest with
      | error e => cases e; exact Or.inr (fun s => rfl)
      | ok r =>
        obtain ⟨oc, k⟩ := r
        cases oc with
        | none => exact Or.inl ⟨_, k, shaped_id, fun s => rfl⟩
        | some c => exact Or.inl ⟨_, k, shaped_bg c, fun s => rfl⟩
    simp only [if_neg h48]
    by_cases h58 : p = 58
    · simp only [if_pos h58]
      cases h : ssColour cfg 58 ((p :: subs).map tokN) rest with
      | error e => cases e; exact Or.inr (fun s => rfl)
      | ok r =>
        obtain ⟨oc, k⟩ := r
        cases oc with
        | none => exact Or.inl ⟨_, k, shaped_id, fun s => rfl⟩
        | some c => exact Or.inl ⟨_, k, shaped_ul c, fun s => rfl⟩
    simp only [if_neg h58]
    exact Or.inl ⟨_, 0, shaped_simple p, fun s => rfl⟩

theorem ssLoopK_shaped (cfg : Cfg) : ∀ (q : Seq) (k : Nat),
    (∃ F, Shaped F ∧ ∀ s, ssLoopK cfg {} k (tk q) s = .ok (F s)) ∨ (∀ s, ssLoopK cfg {} k (tk q) s = .error .index)
  | [], k => Or.inl ⟨_, shaped_id, fun s => by cases k <;> rfl⟩
  | cur :: rest, k + 1 => by
    rcases ssLoopK_shaped cfg rest k with ⟨F, hF, h⟩ | h
    · exact Or.inl ⟨F, hF, fun s => by simp only [tk, List.map_cons, ssLoopK]; exact h s⟩
    · exact Or.inr (fun s => by simp only [tk, List.map_cons, ssLoopK]; exact h s)
  | cur :: rest, 0 => by
    rcases ssOne_shaped cfg cur (tk rest) with ⟨F, k, hF, h⟩ | h
    · rcases ssLoopK_shaped cfg rest k with ⟨G, hG, hg⟩ | hg
      · refine Or.inl ⟨_, shaped_comp F G hF hG, fun s => ?_⟩
        simp only [tk, List.map_cons, ssLoopK]
        have := h s
        simp only [tk] at this
        rw [this]
        exact hg (F s)
      · refine Or.inr (fun s => ?_)
        simp only [tk, List.map_cons, ssLoopK]
        have := h s
        simp only [tk] at this
        rw [this]
        exact hg (F s)
    · refine Or.inr (fun s => ?_)
      simp only [tk, List.map_cons, ssLoopK]
      have := h s
      simp only [tk] at this
      rw [this]

/-- `parseSGR` / the emulator, and `NewStyledString` (default = zero style), as functions of the style for a fixed list. -/
theorem intSgr_shaped (cfg : Cfg) (q : Seq) :
    (∃ F, Shaped F ∧ ∀ s, intSgr cfg s q = .ok (F s)) ∨ (∀ s, intSgr cfg s q = .error .index) :=
  intLoop_shaped cfg _ 0

theorem ssSeq_shaped (q : Seq) :
    (∃ F, Shaped F ∧ ∀ s, ssSeq {} s q = .ok (F s)) ∨ (∀ s, ssSeq {} s q = .error .index) := by
  cases q with
  | nil => exact Or.inl ⟨_, shaped_reset 0 0 0 0, fun s => rfl⟩
  | cons c r =>
    rcases ssLoopK_shaped ssCfg (c :: r) 0 with ⟨F, hF, h⟩ | h
    · exact Or.inl ⟨F, hF, fun s => h s⟩
    · exact Or.inr (fun s => h s)

end VaxisModel.Lemmas.SgrShape
