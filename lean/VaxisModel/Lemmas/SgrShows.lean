/-
C18, round 3: consumers of the *parser's item sequence* other than `parseSGR` — a `Spec.sgr` terminal
(`specRunItems`: what it shows at every grapheme and its pen at the end) and any `[][]int` SGR consumer
(`cellsWith`, e.g. the embedded terminal's `sgr`) — and their agreement with the token-level definitions
on the items of a printed token sequence.  With `tokenize_toks` this turns `encoded_shows_*` and
`roundtrip_cells_emu` of `Props/C18.lean` into statements about the bytes the encoders write.
-/
import VaxisModel.Lemmas.SgrBytes

namespace VaxisModel.Lemmas.SgrShows
open VaxisModel VaxisModel.Gen VaxisModel.Model.Sgr VaxisModel.Model.SgrBytes VaxisModel.Lemmas.Sgr
open VaxisModel.Lemmas.SgrBytes VaxisModel.Spec

/-- A `Spec.sgr` terminal fed the parser's items: a `Print` is shown with the current pen, a CSI item with
    final `m` and no intermediates is interpreted by `Spec.sgr`, everything else leaves the pen alone.
    Result: (grapheme, pen) for every grapheme in order, and the pen after the last item. -/
def specRunItems : TStyle → List Item → List (Str × TStyle) × TStyle
  | t, [] => ([], t)
  | t, .text g :: r => let (l, e) := specRunItems t r; ((g, t) :: l, e)
  | t, .seq (.csi inter ps f) :: r =>
    if inter = [] ∧ f = 0x6D then specRunItems (Spec.sgr t (ps.map (·.map Int.toNat))) r
    else specRunItems t r
  | t, .seq _ :: r => specRunItems t r

/-- The `for seq := range parser.Next()` loop with any SGR consumer in place of `parseSGR`
    (`cellsWith parseSGR = cellsOf`; with `emuSgr`: the cells the embedded terminal writes). -/
def cellsWith (sgr : Style → Seq → Except Panic Style) : Style → List Item → Except Panic (List (Cell Str))
  | _, [] => .ok []
  | s, .text g :: r =>
    match cellsWith sgr s r with
    | .ok cs => .ok (⟨g, s⟩ :: cs)
    | .error e => .error e
  | s, .seq (.csi _ ps f) :: r =>
    if f = 0x6D then
      match sgr s (ps.map (·.map Int.toNat)) with
      | .ok s' => cellsWith sgr s' r
      | .error e => .error e
    else cellsWith sgr s r
  | s, .seq _ :: r => cellsWith sgr s r

theorem cellsWith_parseSGR (l : List Item) : ∀ s, cellsWith parseSGR s l = cellsOf s l := by
  induction l with
  | nil => intro s; rfl
  | cons x r ih =>
    intro s
    match x with
    | .text g => simp only [cellsWith, cellsOf, ih]; cases cellsOf s r <;> rfl
    | .seq (.csi i ps f) =>
      simp only [cellsWith, cellsOf, ih]
      split
      · cases parseSGR s (ps.map (·.map Int.toNat)) <;> rfl
      · rfl
    | .seq (.print _) | .seq (.c0 _) | .seq (.esc _ _) | .seq (.ss3 _) | .seq (.osc _) | .seq (.dcs _ _ _ _)
    | .seq (.apc _) | .seq .err | .seq .eof | .seq .panic => simp only [cellsWith, cellsOf, ih]

private theorem back (q : Seq) : (q.map (·.map Int.ofNat)).map (·.map Int.toNat) = q := by
  simp [List.map_map, Function.comp_def]

theorem specRunItems_items (ts : List (Tok Seq Str)) :
    ∀ t, specRunItems t (ts.map itemOf) = specRun t ts := by
  induction ts with
  | nil => intro t; rfl
  | cons x r ih =>
    intro t
    cases x with
    | text g => simp only [List.map_cons, itemOf, specRunItems, specRun, ih]
    | sgr q => simp only [List.map_cons, itemOf, specRunItems, specRun, back, and_self, if_true, ih]

theorem cellsWith_items (f : Style → Seq → Except Panic Style) (ts : List (Tok Seq Str)) :
    ∀ s, cellsWith f s (ts.map itemOf) = parseToks f s ts := by
  induction ts with
  | nil => intro s; rfl
  | cons x r ih =>
    intro s
    cases x with
    | text g =>
      simp only [List.map_cons, itemOf, cellsWith, parseToks, ih]
      cases parseToks f s r <;> rfl
    | sgr q =>
      simp only [List.map_cons, itemOf, cellsWith, parseToks, back, if_true]
      cases f s q with
      | error e => rfl
      | ok s' => exact ih s'

end VaxisModel.Lemmas.SgrShows
