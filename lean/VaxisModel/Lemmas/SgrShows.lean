/-
C18, round 3: consumers of the *parser's item sequence* other than `parseSGR` — a `Spec.sgr` terminal
(`specRunItems`: what it shows at every grapheme and its pen at the end) and any `[][]int` SGR consumer
(`cellsWith`, e.g. the embedded terminal's `sgr`) — and their agreement with the token-level definitions
on the items of a printed token sequence.  With `tokenize_toks` this turns `encoded_shows_*` and
`roundtrip_cells_emu` of `Props/C18.lean` into statements about the bytes the encoders write.
-/
import VaxisModel.Lemmas.SgrBytes

namespace VaxisModel.Lemmas.SgrShows
open VaxisModel VaxisModel.Gen VaxisModel.Model.Sgr VaxisModel.Model.SgrBytes VaxisModel.Lemmas.Sgr
open VaxisModel.Lemmas.SgrBytes VaxisModel.Spec

/-- A `Spec.sgr` terminal fed the parser's items: a `Print` is shown with the current pen, a CSI item with
    final `m` and no intermediates is interpreted by `Spec.sgr`, everything else leaves the pen alone.
    Result: (grapheme, pen) for every grapheme in order, and the pen after the last item. -/
def specRunItems : TStyle → List Item → List (Str × TStyle) × TStyle
  | t, [] => ([], t)
  | t, .text g :: r => let (l, e) := specRunItems t r; ((g, t) :: l, e)
  | t, .seq (.csi inter ps f) :: r =>
    if inter = [] ∧ f = 0x6D then specRunItems (Spec.sgr t (ps.map (·.map Int.toNat))) r
    else specRunItems t r
  | t, .seq _ :: r => specRunItems t r

/-- The `for seq := range parser.Next()` loop with any SGR consumer in place of `parseSGR`
    (`cellsWith parseSGR = cellsOf`; with `emuSgr`: the cells the embedded terminal writes). -/
def cellsWith (sgr : Style → Seq → Except Panic Style) : Style → List Item → Except Panic (List (Cell Str))
  | _, [] => .ok []
  | s, .text g :: r =>
    match cellsWith sgr s r with
    | .ok cs => .ok (⟨g, s⟩ :: cs)
    | .error e => .error e
  | s, .seq (.csi _ ps f) :: r =>
    if f = 0x6D then
      match sgr s (ps.map (·.map Int.toNat)) with
      | .ok s' => cellsWith sgr s' r
      | .error e => .error e
    else cellsWith sgr s r
  | s, .seq _ :: r => cellsWith sgr s r

theorem cellsWith_parseSGR (l : List Item) : ∀ s, cellsWith parseSGR s l = cellsOf s l := by
  induction l with
  | nil => intro s; rfl
  | cons x r ih =>
    intro s
    match x with
    | .text g => simp only [cellsWith, cellsOf, ih]; cases cellsOf s r <;> rfl
    | .seq (.csi i ps f) =>
      simp only [cellsWith, cellsOf, ih]
      split
      · cases parseSGR s (ps.map (·.map Int.toNat)) <;> rfl
      · rfl
    | .seq (.print _) | .seq (.c0 _) | .seq (.esc _ _) | .seq (.ss3 _) | .seq (.osc _) | .seq (.dcs _ _ _ _)
    | .seq (.apc _) | .seq .err | .seq .eof | .seq .panic => simp only [cellsWith, cellsOf, ih]

private theorem back (q : Seq) : (q.map (·.map Int.ofNat)).map (·.map Int.toNat) = q := by
  simp [List.map_map, Function.comp_def]

theorem specRunItems_items (ts : List (Tok Seq Str)) :
    ∀ t, specRunItems t (ts.map itemOf) = specRun t ts := by
  induction ts with
  | nil => intro t; rfl
  | cons x r ih =>
    intro t
    cases x with
    | text g => simp only [List.map_cons, itemOf, specRunItems, specRun, ih]
    | sgr q => simp only [List.map_cons, itemOf, specRunItems, specRun, back, and_self, if_true, ih]

theorem cellsWith_items (f : Style → Seq → Except Panic Style) (ts : List (Tok Seq Str)) :
    ∀ s, cellsWith f s (ts.map itemOf) = parseToks f s ts := by
  induction ts with
  | nil => intro s; rfl
  | cons x r ih =>
    intro s
    cases x with
    | text g =>
      simp only [List.map_cons, itemOf, cellsWith, parseToks, ih]
      cases parseToks f s r <;> rfl
    | sgr q =>
      simp only [List.map_cons, itemOf, cellsWith, parseToks, back, if_true]
      cases f s q with
      | error e => rfl
      | ok s' => exact ih s'

/-! ### a rendered frame -/

theorem renderFromB_eq (rgb su legacy : Bool) :
    ∀ (cs : List (Cell Str)) (s : Style), renderFromB rgb su legacy s cs = bytesOfToks (renderFrom rgb su legacy s cs) := by
  intro cs
  induction cs with
  | nil => intro s; unfold renderFromB renderFrom; rw [b_sgrReset]; simp [bytesOfToks, tokBytes]
  | cons c cs ih =>
    intro s
    unfold renderFromB renderFrom
    rw [bytesOfToks_append, bytesOfToks_sgrs, bytesOfToks_text, renderDeltaB_eq, ih]

theorem renderFrom_sgr_mem (rgb su legacy : Bool) (P : Seq → Prop) (hreset : P sgrResetQ)
    (hd : ∀ p n, n.ulStyle ≤ 5 → ∀ q ∈ renderDelta rgb su legacy p n, P q) :
    ∀ (cs : List (Cell Str)) (s : Style), (∀ c ∈ cs, c.st.ulStyle ≤ 5) → ∀ q, Tok.sgr q ∈ renderFrom rgb su legacy s cs → P q := by
  intro cs
  induction cs with
  | nil =>
    intro s _ q hq
    unfold renderFrom at hq
    simp at hq; subst hq; exact hreset
  | cons c cs ih =>
    intro s hcs q hq
    unfold renderFrom at hq
    simp only [List.mem_append, List.mem_map, List.mem_cons] at hq
    rcases hq with ⟨q', hq', e⟩ | h | h
    · injection e with e; subst e
      exact hd s c.st (hcs c (by simp)) q' hq'
    · cases h
    · exact ih c.st (fun d hd' => hcs d (by simp [hd'])) q h

theorem good_renderFrom (cl : Str → Nat) (rgb su legacy : Bool) (cs : List (Cell Str)) (hcs : ∀ c ∈ cs, c.st.ulStyle ≤ 5)
    (s : Style) (ht : TextOK cl (renderFrom rgb su legacy s cs)) : Good cl (renderFrom rgb su legacy s cs) :=
  good_of cl _ ht (renderFrom_sgr_mem rgb su legacy VaxisModel.Lemmas.ParserParams.ParamsOk
    (by rw [sgrResetQ_eq]; intro p hp; simp at hp)
    (fun p n hn q hq => paramsOk_of_eml q (renderDelta_range rgb su legacy p n hn q hq)) cs s hcs)

end VaxisModel.Lemmas.SgrShows
