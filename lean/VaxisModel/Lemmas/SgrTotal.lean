/-
C18, round 4 (T1a): **no SGR consumer panics on anything the parser / `strings.Split` can deliver** — with the hypothesis
"every parameter has at least one sub-parameter" discharged from the code that builds the parameter lists:

* `csiDispatch` (C02's `decodeLoop`): every finished parameter is `param ++ [ps]`, so never empty — for ANY collected
  parameter bytes;
* every `CSI` item the parser model emits, from any state, under ANY transition table (`step T`), carries such a list
  (`applyAct` emits a `csi` only in `.csiDispatch`);
* `strings.Split` never returns an empty slice (`splitB_ne_nil`), so `NewStyledString`'s `subs` is never empty.
-/
import VaxisModel.Lemmas.Sgr
import VaxisModel.Model.SgrBytes
import VaxisModel.Model.SgrLinks
import VaxisModel.Model.SgrReader

namespace VaxisModel.Lemmas.SgrTotal
open VaxisModel VaxisModel.Model.Sgr VaxisModel.Model.SgrBytes VaxisModel.Lemmas.Sgr
open VaxisModel.Model.Parser (Rune PState ExitFn decodeLoop decodeParams runExitFn applyAct runActs runFn finish step Table handTable)
open VaxisModel.Model.ParserTable

/-! ### csiDispatch never builds an empty parameter -/

theorem decodeLoop_nonempty : ∀ (rs : List Rune) (ps : Int) (param : List Int) (acc : List (List Int)),
    (∀ p ∈ acc, p ≠ []) → ∀ p ∈ decodeLoop rs ps param acc, p ≠ []
  | [], ps, param, acc, h => by
    intro p hp
    simp only [decodeLoop, List.mem_append, List.mem_singleton] at hp
    rcases hp with hp | rfl
    · exact h p hp
    · simp
  | b :: rest, ps, param, acc, h => by
    unfold decodeLoop
    have hacc : ∀ p ∈ acc ++ [param ++ [ps]], p ≠ [] := by
      intro p hp
      simp only [List.mem_append, List.mem_singleton] at hp
      rcases hp with hp | rfl
      · exact h p hp
      · simp
    split
    · exact decodeLoop_nonempty rest 0 [] _ hacc
    · split
      · exact decodeLoop_nonempty rest 0 _ acc h
      · exact decodeLoop_nonempty rest _ param acc h

/-- **What `csiDispatch` can deliver**: for any collected parameter bytes, no parameter without a sub-parameter. -/
theorem decodeParams_nonempty (rs : List Rune) : ∀ p ∈ decodeParams rs, p ≠ [] := by
  unfold decodeParams
  split
  · intro p hp; simp at hp
  · exact decodeLoop_nonempty rs 0 [] [] (by intro p hp; simp at hp)

/-- An item is fine for the SGR consumers: a `CSI` carries only non-empty parameters. -/
def CsiGood : Model.Parser.Seq → Prop
  | .csi _ ps _ => ∀ p ∈ ps, p ≠ []
  | _ => True

theorem runExitFn_good (s : PState) (f : ExitFn) : ∀ x ∈ (runExitFn s f).2, CsiGood x := by
  cases f <;> simp [runExitFn, CsiGood]

theorem applyAct_good (a : Act) (r : Rune) (s : PState) : ∀ x ∈ (applyAct a r s).2, CsiGood x := by
  cases a
  case csiDispatch =>
    intro x hx
    simp only [applyAct, List.mem_singleton] at hx
    subst hx
    exact decodeParams_nonempty s.params
  case execute => simp only [applyAct]; split <;> simp [CsiGood]
  case hook =>
    simp only [applyAct]
    split
    · simp
    · split <;> simp [CsiGood]
  case runExit =>
    simp only [applyAct]
    split
    · exact runExitFn_good s _
    · simp [CsiGood]
  case runExitIfSet =>
    simp only [applyAct]
    split
    · exact runExitFn_good s _
    · simp
  case runExitIfSetST =>
    simp only [applyAct]
    split
    · exact runExitFn_good s _
    · simp
  all_goals simp [applyAct, CsiGood]

theorem runActs_cons_other (a : Act) (hne : ∀ n', a ≠ .retIfIgnoreST n') (rest : List Act) (i : Inp) (s : PState)
    (out : List Model.Parser.Seq) (n : Model.ParserTable.Next) :
    runActs (a :: rest) i s out n =
      (match i with
       | .rune r => let (s', o) := applyAct a r s; runActs rest i s' (out ++ o) n
       | .eof =>
         if Model.Parser.usesRune a then (s, out ++ [.panic], .stop)
         else let (s', o) := applyAct a 0 s; runActs rest i s' (out ++ o) n) := by
  cases a <;> first | rfl | exact absurd rfl (hne _)

theorem runActs_good : ∀ (acts : List Act) (i : Inp) (s : PState) (out : List Model.Parser.Seq) (n : Model.ParserTable.Next),
    (∀ x ∈ out, CsiGood x) → ∀ x ∈ (runActs acts i s out n).2.1, CsiGood x := by
  intro acts
  induction acts with
  | nil => intro i s out n h; simpa [runActs] using h
  | cons a rest ih =>
    intro i s out n h
    by_cases hr : ∃ n', a = .retIfIgnoreST n'
    · obtain ⟨n', rfl⟩ := hr
      simp only [runActs]
      split
      · exact h
      · exact ih i s out n h
    · have hne : ∀ n', a ≠ .retIfIgnoreST n' := fun n' e => hr ⟨n', e⟩
      rw [runActs_cons_other a hne]
      · cases i with
        | rune r =>
          simp only
          have hg := applyAct_good a r s
          revert hg
          cases applyAct a r s with
          | mk s' o =>
            intro hg
            apply ih
            intro x hx
            rcases List.mem_append.mp hx with hx | hx
            · exact h x hx
            · exact hg x hx
        | eof =>
          simp only
          split
          · intro x hx
            simp only [List.mem_append, List.mem_singleton] at hx
            rcases hx with hx | rfl
            · exact h x hx
            · trivial
          · have hg := applyAct_good a 0 s
            revert hg
            cases applyAct a 0 s with
            | mk s' o =>
              intro hg
              apply ih
              intro x hx
              rcases List.mem_append.mp hx with hx | hx
              · exact h x hx
              · exact hg x hx

theorem runFn_good (f : StateFn) (i : Inp) (s : PState) : ∀ x ∈ (runFn f i s).2.1, CsiGood x := by
  unfold runFn
  have := runActs_good (f.row i).1 i s [] (f.row i).2 (by intro x hx; simp at hx)
  revert this
  cases runActs (f.row i).1 i s [] (f.row i).2 with
  | mk s' r => cases r with
    | mk out n => exact fun h => h

theorem finish_good (s : PState) (out : List Model.Parser.Seq) (n : Model.ParserTable.Next) (h : ∀ x ∈ out, CsiGood x) :
    ∀ x ∈ (finish s out n).out, CsiGood x := by
  cases n
  · exact h
  · exact h
  · intro x hx
    simp only [finish, List.mem_append, List.mem_singleton] at hx
    rcases hx with hx | rfl
    · exact h x hx
    · trivial

/-- **Every CSI the parser emits** — from any state, on any input, under any transition table — has only non-empty
    parameters: `Parameters` is either nil or built by `csiDispatch`'s loop. -/
theorem step_good (T : Table) (s : PState) (i : Inp) : ∀ x ∈ (step T s i).out, CsiGood x := by
  unfold step
  have h1 := runFn_good T.anywhere i s
  revert h1
  cases runFn T.anywhere i s with
  | mk s1 r1 => cases r1 with
    | mk o1 n1 =>
      intro h1
      cases n1 with
      | dispatch =>
        simp only
        have h2 := runFn_good (T.fn s1.state) i s1
        revert h2
        cases runFn (T.fn s1.state) i s1 with
        | mk s2 r2 => cases r2 with
          | mk o2 n2 =>
            intro h2
            apply finish_good
            intro x hx
            rcases List.mem_append.mp hx with hx | hx
            · exact h1 x hx
            · exact h2 x hx
      | st x => exact finish_good s1 o1 _ h1
      | stop => exact finish_good s1 o1 _ h1

/-! ### The string parsers are total -/

def ItemGood : Item → Prop
  | .seq x => CsiGood x
  | .text _ => True

theorem scan_good (cl : Str → Nat) : ∀ (fuel : Nat) (st : PState) (w : Str), ∀ x ∈ scan cl fuel st w, ItemGood x
  | 0, _, _ => by intro x hx; simp [scan] at hx
  | _ + 1, _, [] => by intro x hx; simp [scan] at hx
  | fuel + 1, st, r :: w => by
    unfold scan
    simp only
    split
    · intro x hx
      rcases List.mem_cons.mp hx with rfl | hx
      · trivial
      · exact scan_good cl fuel _ _ x hx
    · intro x hx
      rcases List.mem_append.mp hx with hx | hx
      · obtain ⟨y, hy, rfl⟩ := List.mem_map.mp hx
        exact step_good handTable st (.rune r) y hy
      · exact scan_good cl fuel _ _ x hx

theorem toNat_nonempty (ps : List (List Int)) (h : ∀ p ∈ ps, p ≠ []) : ∀ p ∈ ps.map (·.map Int.toNat), p ≠ [] := by
  intro p hp
  obtain ⟨q, hq, rfl⟩ := List.mem_map.mp hp
  have := h q hq
  cases q with
  | nil => exact absurd rfl this
  | cons a t => simp

theorem parse_nums_ok : NumsOk parseCfg := numsOk_of_B _ (by decide)
theorem emu_nums_ok : NumsOk emuCfg := numsOk_of_B _ (by decide)

theorem cellsOf_total : ∀ (items : List Item), (∀ x ∈ items, ItemGood x) → ∀ s, ∃ cs, cellsOf s items = .ok cs
  | [], _, _ => ⟨[], rfl⟩
  | .text g :: r, h, s => by
    obtain ⟨cs, hcs⟩ := cellsOf_total r (fun x hx => h x (List.mem_cons_of_mem _ hx)) s
    exact ⟨⟨g, s⟩ :: cs, by simp [cellsOf, hcs]⟩
  | .seq q :: r, h, s => by
    have hr := cellsOf_total r (fun x hx => h x (List.mem_cons_of_mem _ hx))
    have hq : CsiGood q := h (.seq q) (List.mem_cons_self ..)
    cases q with
    | csi inter ps f =>
      unfold cellsOf
      split
      · obtain ⟨s', hs'⟩ := intSgr_ok parseCfg parse_nums_ok s _ (toNat_nonempty ps hq)
        have : parseSGR s (ps.map (·.map Int.toNat)) = .ok s' := hs'
        rw [this]
        exact hr s'
      · exact hr s
    | _ => simpa [cellsOf] using hr s

theorem penOf_total (sgr : Style → Seq → Except Panic Style)
    (hsgr : ∀ s ps, (∀ p ∈ ps, p ≠ []) → ∃ s', sgr s ps = .ok s') :
    ∀ (items : List Item), (∀ x ∈ items, ItemGood x) → ∀ s, ∃ s', penOf sgr s items = .ok s'
  | [], _, s => ⟨s, rfl⟩
  | .text g :: r, h, s => by
    simpa [penOf] using penOf_total sgr hsgr r (fun x hx => h x (List.mem_cons_of_mem _ hx)) s
  | .seq q :: r, h, s => by
    have hr := penOf_total sgr hsgr r (fun x hx => h x (List.mem_cons_of_mem _ hx))
    have hq : CsiGood q := h (.seq q) (List.mem_cons_self ..)
    cases q with
    | csi inter ps f =>
      unfold penOf
      split
      · obtain ⟨s', hs'⟩ := hsgr s _ (toNat_nonempty ps hq)
        rw [hs']
        exact hr s'
      · exact hr s
    | _ => simpa [penOf] using hr s

/-! ### `strings.Split` never returns an empty slice -/

theorem splitB_ne_nil (sep : Nat) : ∀ (s : Str), splitB sep s ≠ []
  | [] => by simp [splitB]
  | b :: r => by
    unfold splitB
    split
    · simp
    · split <;> simp

theorem splitParams_nonempty (seq : Str) : ∀ p ∈ splitParams seq, p ≠ [] := by
  intro p hp
  unfold splitParams at hp
  obtain ⟨q, _, rfl⟩ := List.mem_map.mp hp
  intro h
  exact splitB_ne_nil 0x3A q (List.map_eq_nil_iff.mp h)

theorem nssLoop_total (cl : Str → Nat) (dflt : Style) : ∀ (fuel : Nat) (st : Style) (s : Str),
    ∃ cs, nssLoop cl dflt fuel st s = .ok cs
  | 0, _, _ => ⟨[], rfl⟩
  | _ + 1, _, [] => ⟨[], rfl⟩
  | fuel + 1, st, c :: r => by
    unfold nssLoop
    simp only
    split
    · split
      · exact ⟨[], rfl⟩
      · split
        · exact nssLoop_total cl dflt fuel _ _
        · obtain ⟨st', h⟩ := ssLoop_ok ssCfg dflt _ (splitParams_nonempty (cutM ((c :: r).drop 2)).1) st
          rw [h]
          exact nssLoop_total cl dflt fuel _ _
    · split
      · exact nssLoop_total cl dflt fuel _ _
      · obtain ⟨cs, h⟩ := nssLoop_total cl dflt fuel st ((c :: r).drop (max 1 (cl (c :: r))))
        rw [h]
        exact ⟨_, rfl⟩

/-! ### The reader side (`ParserIO`): any bytes, any read boundaries -/


open VaxisModel.Model.SgrReader

def IOGood : Model.ParserIO.Item → Prop
  | .seq x => CsiGood x
  | .print _ => True

theorem deliver_good (clusterAt : Nat → Nat) (start : Nat) : ∀ (out : List Model.Parser.Seq) (rd : Model.ParserIO.Rd),
    (∀ x ∈ out, CsiGood x) → ∀ y ∈ (Model.ParserIO.deliver clusterAt start out rd).1, IOGood y
  | [], rd, _ => by intro y hy; simp [Model.ParserIO.deliver] at hy
  | q :: rest, rd, h => by
    have hq : CsiGood q := h q (List.mem_cons_self ..)
    have hrest : ∀ x ∈ rest, CsiGood x := fun x hx => h x (List.mem_cons_of_mem _ hx)
    cases q with
    | print r =>
      simp only [Model.ParserIO.deliver]
      intro y hy
      rcases List.mem_cons.mp hy with rfl | hy
      · trivial
      · exact deliver_good clusterAt start rest _ hrest y hy
    | _ =>
      simp only [Model.ParserIO.deliver]
      intro y hy
      rcases List.mem_cons.mp hy with rfl | hy
      · exact hq
      · exact deliver_good clusterAt start rest _ hrest y hy

theorem runLoop_good (T : Table) (clusterAt : Nat → Nat) : ∀ (fuel : Nat) (s : PState) (rd : Model.ParserIO.Rd),
    ∀ y ∈ Model.ParserIO.runLoop T clusterAt fuel s rd, IOGood y
  | 0, _, _ => by intro y hy; simp only [Model.ParserIO.runLoop, List.mem_singleton] at hy; subst hy; trivial
  | fuel + 1, s, rd => by
    unfold Model.ParserIO.runLoop
    simp only
    split
    · intro y hy
      simp only [List.mem_append, List.mem_map, List.mem_singleton] at hy
      rcases hy with ⟨x, hx, rfl⟩ | rfl
      · exact step_good T s .eof x hx
      · trivial
    · rename_i r rd1 _
      have hd := deliver_good clusterAt rd.pos (step T s (.rune r)).out rd1 (step_good T s (.rune r))
      revert hd
      cases Model.ParserIO.deliver clusterAt rd.pos (step T s (.rune r)).out rd1 with
      | mk items rd2 =>
        intro hd
        simp only
        split
        · intro y hy
          simp only [List.mem_append, List.mem_singleton] at hy
          rcases hy with hy | rfl
          · exact hd y hy
          · trivial
        · intro y hy
          rcases List.mem_append.mp hy with hy | hy
          · exact hd y hy
          · exact runLoop_good T clusterAt fuel _ _ y hy

theorem cellsOfIO_total : ∀ (items : List Model.ParserIO.Item), (∀ x ∈ items, IOGood x) → ∀ s, ∃ cs, cellsOfIO s items = .ok cs
  | [], _, _ => ⟨[], rfl⟩
  | .print g :: r, h, s => by
    obtain ⟨cs, hcs⟩ := cellsOfIO_total r (fun x hx => h x (List.mem_cons_of_mem _ hx)) s
    exact ⟨⟨g, s⟩ :: cs, by simp [cellsOfIO, hcs]⟩
  | .seq q :: r, h, s => by
    have hr := cellsOfIO_total r (fun x hx => h x (List.mem_cons_of_mem _ hx))
    have hq : CsiGood q := h (.seq q) (List.mem_cons_self ..)
    cases q with
    | csi inter ps f =>
      unfold cellsOfIO
      split
      · obtain ⟨s', hs'⟩ := intSgr_ok parseCfg parse_nums_ok s _ (toNat_nonempty ps hq)
        have : parseSGR s (ps.map (·.map Int.toNat)) = .ok s' := hs'
        rw [this]
        exact hr s'
      · exact hr s
    | _ => simpa [cellsOfIO] using hr s

end VaxisModel.Lemmas.SgrTotal
