import VaxisModel.Model.ListGen

/-! Helper lemmas for `Props/C19.lean` (widgets/list). -/
namespace VaxisModel.Lemmas.SimpleList
open VaxisModel.Model.SimpleList VaxisModel

/-- The invariant of the list: the offset is never negative; the index is in range when there are
    items, and 0 when there are none. -/
def Inv (s : St) : Prop :=
  0 ≤ s.offset ∧ 0 ≤ s.index ∧ (s.index < (s.n : Int) ∨ (s.n = 0 ∧ s.index = 0))

theorem inv_new (n : Nat) : Inv (new n) := by
  unfold Inv new; simp; omega

theorem inv_nav (s : St) (h : Inv s) (op : Op) : Inv (nav gen s op) := by
  obtain ⟨h1, h2, h3⟩ := h
  cases op <;>
    simp only [nav, gen, Inv, Gen.ListFacts.down, Gen.ListFacts.up, Gen.ListFacts.home,
      Gen.ListFacts.«end», Gen.ListFacts.pageDown, Gen.ListFacts.pageUp, Gen.ListFacts.setItems] <;>
    (refine ⟨h1, ?_, ?_⟩ <;> first | omega | (simp only [and_true]; omega))

theorem follow_bounds (s : St) (h : Nat) (hi : Inv s) (hn : 0 < s.n) :
    0 ≤ follow s h ∧ follow s h ≤ (s.n : Int) ∧
      (0 < h → follow s h ≤ s.index ∧ s.index < follow s h + (h : Int)) := by
  obtain ⟨h1, h2, h3⟩ := hi
  unfold follow
  split
  · omega
  · split <;> omega

/-- `Draw` never panics from a state satisfying the invariant, and preserves it. -/
theorem draw_ok (s : St) (h : Nat) (hi : Inv s) :
    ∃ s' rows, draw gen s h = .ok (s', rows) ∧ Inv s' ∧ s'.n = s.n ∧ s'.index = s.index ∧
      (0 < s.n → s'.offset = follow s h ∧ rows = Model.SimpleList.rows (follow s h) s.index s.n h) := by
  unfold draw
  by_cases hn : s.n = 0
  · refine ⟨s, [], ?_, hi, rfl, rfl, ?_⟩
    · simp [gen, Gen.ListFacts.drawEmptyGuard, hn]
    · omega
  · have hpos : 0 < s.n := by omega
    obtain ⟨f1, f2, _⟩ := follow_bounds s h hi hpos
    have hg : (gen.drawEmptyGuard && s.n == 0) = false := by simp [hn]
    refine ⟨{ s with offset := follow s h }, Model.SimpleList.rows (follow s h) s.index s.n h, ?_, ?_, rfl, rfl, ?_⟩
    · simp [hg, f1, f2]
    · obtain ⟨_, h2, h3⟩ := hi
      exact ⟨f1, h2, h3⟩
    · intro _; exact ⟨rfl, rfl⟩

theorem step_ok (s : St) (op : Op) (hi : Inv s) :
    ∃ s' rows, step gen s op = .ok (s', rows) ∧ Inv s' := by
  cases op with
  | draw h =>
    obtain ⟨s', rows, he, hi', _⟩ := draw_ok s h hi
    exact ⟨s', rows, he, hi'⟩
  | down => exact ⟨_, _, rfl, inv_nav s hi .down⟩
  | up => exact ⟨_, _, rfl, inv_nav s hi .up⟩
  | home => exact ⟨_, _, rfl, inv_nav s hi .home⟩
  | «end» => exact ⟨_, _, rfl, inv_nav s hi .«end»⟩
  | pageDown h => exact ⟨_, _, rfl, inv_nav s hi (.pageDown h)⟩
  | pageUp h => exact ⟨_, _, rfl, inv_nav s hi (.pageUp h)⟩
  | setItems k => exact ⟨_, _, rfl, inv_nav s hi (.setItems k)⟩

theorem run_ok (ops : List Op) : ∀ (s : St), Inv s → ∃ s', run gen s ops = .ok s' ∧ Inv s' := by
  induction ops with
  | nil => intro s hi; exact ⟨s, rfl, hi⟩
  | cons op ops ih =>
    intro s hi
    obtain ⟨s1, rows, he, hi1⟩ := step_ok s op hi
    obtain ⟨s2, he2, hi2⟩ := ih s1 hi1
    exact ⟨s2, by simp [run, he, he2], hi2⟩

/-- Membership in the printed rows. -/
theorem mem_rows {off index : Int} {n h : Nat} {r : Row} :
    r ∈ Model.SimpleList.rows off index n h ↔
      ∃ i : Nat, i < min (n - off.toNat) h ∧ r = { row := i, item := off + (i : Int), sel := ((i : Int) == index - off) } := by
  unfold Model.SimpleList.rows
  simp only [List.mem_map, List.mem_range]
  constructor
  · rintro ⟨i, hi, rfl⟩; exact ⟨i, hi, rfl⟩
  · rintro ⟨i, hi, rfl⟩; exact ⟨i, hi, rfl⟩

end VaxisModel.Lemmas.SimpleList
