import VaxisModel.Spec.Editor

/-!
Streaming segmentations are `Segmentation`s (C17).

A segmentation that reads the text code point by code point and decides, from what it has read so
far and the next code point, whether that code point joins the current cluster or starts a new one
— the shape of UAX #29's rules and of uniseg's state machine — satisfies the three laws of
`Spec.Editor.Segmentation`: `SnocSeg f` (what appending one atom does to `f x`) implies
`Segmentation f`.
-/
namespace VaxisModel.Lemmas.SnocSeg
open VaxisModel.Spec.Editor (Segmentation)

variable {A : Type}

/-- Appending one atom either starts a new cluster or extends the last one. -/
structure SnocSeg (f : List A → List (List A)) : Prop where
  nil : f [] = []
  snoc : ∀ x a, f (x ++ [a]) = f x ++ [[a]] ∨ ∃ ini last, f x = ini ++ [last] ∧ f (x ++ [a]) = ini ++ [last ++ [a]]

/-- induction from the right -/
theorem snoc_induction {P : List A → Prop} (h0 : P []) (hs : ∀ x a, P x → P (x ++ [a])) : ∀ x, P x := by
  intro x
  have key : ∀ n, ∀ x : List A, x.length = n → P x := by
    intro n
    induction n with
    | zero => intro x hx; have : x = [] := List.length_eq_zero_iff.mp hx; subst this; exact h0
    | succ n ih =>
      intro x hx
      have hne : x ≠ [] := by intro h; subst h; simp at hx
      have hx' := List.dropLast_concat_getLast hne
      rw [← hx']
      exact hs _ _ (ih _ (by simp [List.length_dropLast, hx]))
  exact key x.length x rfl

theorem flatten_eq (f : List A → List (List A)) (h : SnocSeg f) : ∀ x, (f x).flatten = x := by
  apply snoc_induction
  · simp [h.nil]
  · intro x a ih
    rcases h.snoc x a with e | ⟨ini, last, e1, e2⟩
    · rw [e]; simp [ih]
    · rw [e2]; rw [e1] at ih; simp at ih ⊢; rw [← ih]; simp

theorem length_snoc (f : List A → List (List A)) (h : SnocSeg f) (x : List A) (a : A) :
    (f x).length ≤ (f (x ++ [a])).length := by
  rcases h.snoc x a with e | ⟨ini, last, e1, e2⟩
  · rw [e]; simp
  · rw [e2, e1]; simp

theorem mono (f : List A → List (List A)) (h : SnocSeg f) : ∀ x y, (f x).length ≤ (f (x ++ y)).length := by
  intro x
  apply snoc_induction
  · simp
  · intro y a ih
    have := length_snoc f h (x ++ y) a
    rw [List.append_assoc] at this
    omega

/-- The first `i` clusters of `f x`, re-segmented, are those clusters. -/
theorem prefix_stable (f : List A → List (List A)) (h : SnocSeg f) :
    ∀ x i, i ≤ (f x).length → f ((f x).take i).flatten = (f x).take i := by
  apply snoc_induction
  · intro i _; simp [h.nil]
  · intro x a ih i hi
    rcases h.snoc x a with e | ⟨ini, last, e1, e2⟩
    · rw [e] at hi ⊢
      by_cases hle : i ≤ (f x).length
      · rw [List.take_append_of_le_length hle]; exact ih i hle
      · have : i = (f x).length + 1 := by simp at hi; omega
        subst this
        have hfl := flatten_eq f h x
        rw [show (f x ++ [[a]]).take ((f x).length + 1) = f x ++ [[a]] from List.take_of_length_le (by simp)]
        simp [hfl, e]
    · rw [e2] at hi ⊢
      by_cases hle : i ≤ ini.length
      · have h1 : (ini ++ [last ++ [a]]).take i = ini.take i := List.take_append_of_le_length hle
        have h2 : (f x).take i = ini.take i := by rw [e1]; exact List.take_append_of_le_length hle
        rw [h1, ← h2]
        exact ih i (by rw [e1]; simp; omega)
      · have : i = ini.length + 1 := by simp at hi; omega
        subst this
        have hfl := flatten_eq f h (x ++ [a])
        rw [e2] at hfl
        rw [show (ini ++ [last ++ [a]]).take (ini.length + 1) = ini ++ [last ++ [a]] from List.take_of_length_le (by simp)]
        rw [hfl, e2]

theorem segmentation_of_snocSeg (f : List A → List (List A)) (h : SnocSeg f) : Segmentation f where
  flatten := flatten_eq f h
  prefixLen := by
    intro x i hi
    rw [prefix_stable f h x i hi]
    simp; omega
  mono := mono f h

end VaxisModel.Lemmas.SnocSeg
