import VaxisModel.Lemmas.StartupSeq
import VaxisModel.Lemmas.InputLoop

/-! Invariants of the start-up LTS (`Model/Startup.lean`) behind `Props.C07Caps.caps_exact`. -/
namespace VaxisModel.Lemmas.Startup
open VaxisModel.Model.Input VaxisModel.Model.InputLoop VaxisModel.Model.Startup
open VaxisModel.Lemmas.Input VaxisModel.Lemmas.InputEvents VaxisModel.Lemmas.StartupSeq
open VaxisModel.Spec.Startup

def DA : Event := note .primaryDeviceAttribute

def isDA (e : Event) : Bool := e == DA

/-- A list of events up to and including the first DA1 notification. -/
def upto : List Event → List Event
  | [] => []
  | e :: r => if isDA e then [e] else e :: upto r

/-- The inputs up to and including the first DA1 reply. -/
def insPre : List Seq → List Seq
  | [] => []
  | s :: r => if isDA1 s then [s] else s :: insPre r

def seenDA (ins : List Seq) : Bool := ins.any isDA1

/-- Pending notifications: queued or still to be posted by the sequence being handled. -/
def np (st : St) : List Event := (st.sys.queue ++ posted st.sys.pend).filter isNotice

def up (st : St) : List Event := upto (np st)

/-! ### list lemmas -/

theorem upto_append_of_da (l m : List Event) (h : l.any isDA = true) : upto (l ++ m) = upto l := by
  induction l with
  | nil => simp at h
  | cons a t ih =>
    by_cases ha : isDA a = true
    · simp [upto, ha]
    · simp only [List.any_cons, ha, Bool.false_or] at h
      simp [upto, ha, ih h]

theorem upto_append_of_not (l m : List Event) (h : l.any isDA = false) : upto (l ++ m) = l ++ upto m := by
  induction l with
  | nil => rfl
  | cons a t ih =>
    simp only [List.any_cons, Bool.or_eq_false_iff] at h
    simp [upto, h.1, ih h.2]

theorem upto_of_not (l : List Event) (h : l.any isDA = false) : upto l = l := by
  have := upto_append_of_not l [] h
  simpa [upto] using this

theorem upto_subset (l : List Event) : ∀ e ∈ upto l, e ∈ l := by
  induction l with
  | nil => simp [upto]
  | cons a t ih =>
    intro e he
    by_cases ha : isDA a = true
    · simp [upto, ha] at he; simp [he]
    · simp [upto, ha] at he
      rcases he with rfl | he
      · simp
      · simp [ih e he]

/-- Removing a non-DA1 element can only shrink the part before DA1. -/
theorem upto_remove (a b : List Event) (e : Event) (he : isDA e = false) :
    ∀ x ∈ upto (a ++ b), x ∈ upto (a ++ e :: b) := by
  induction a with
  | nil => intro x hx; simp only [List.nil_append] at hx ⊢; simp [upto, he, hx]
  | cons c t ih =>
    intro x hx
    by_cases hc : isDA c = true
    · simpa [upto, hc] using hx
    · simp [upto, hc] at hx ⊢
      rcases hx with rfl | hx
      · exact Or.inl rfl
      · exact Or.inr (ih x hx)

theorem lastTermID_append (a b : List Event) (d : List Nat) :
    lastTermID (a ++ b) d = lastTermID b (lastTermID a d) := by
  induction a generalizing d with
  | nil => rfl
  | cons e t ih => cases e <;> simp [lastTermID, ih]

theorem lastTermID_filter (p : Event → Bool) (hp : ∀ s, p (.terminalID s) = true) (a : List Event) (d : List Nat) :
    lastTermID (a.filter p) d = lastTermID a d := by
  induction a generalizing d with
  | nil => rfl
  | cons e t ih =>
    by_cases he : p e = true
    · cases e <;> simp [List.filter_cons, he, lastTermID, ih]
    · cases e <;> simp_all [List.filter_cons, lastTermID]

theorem insPre_append_seen (ins : List Seq) (s : Seq) (h : seenDA ins = true) : insPre (ins ++ [s]) = insPre ins := by
  induction ins with
  | nil => simp [seenDA] at h
  | cons a t ih =>
    by_cases ha : isDA1 a = true
    · simp [insPre, ha]
    · simp only [seenDA, List.any_cons, ha, Bool.false_or] at h
      simp [insPre, ha, ih h]

theorem insPre_of_not_seen (ins : List Seq) (h : seenDA ins = false) : insPre ins = ins := by
  induction ins with
  | nil => rfl
  | cons a t ih =>
    simp only [seenDA, List.any_cons, Bool.or_eq_false_iff] at h
    simp [insPre, h.1, ih h.2]

theorem insPre_append_not_seen (ins : List Seq) (s : Seq) (h : seenDA ins = false) : insPre (ins ++ [s]) = ins ++ [s] := by
  induction ins with
  | nil => by_cases hs : isDA1 s = true <;> simp [insPre, hs]
  | cons a t ih =>
    simp only [seenDA, List.any_cons, Bool.or_eq_false_iff] at h
    simp [insPre, h.1, ih h.2]

/-! ### capability flags -/

/-- The flag an internal notification stands for is set. -/
def hasI (c : Caps) : Internal → Bool
  | .primaryDeviceAttribute => false
  | .capabilitySixel => c.sixels | .capabilityOsc4 => c.osc4 | .capabilityOsc10 => c.osc10 | .capabilityOsc11 => c.osc11
  | .synchronizedUpdates => c.synchronizedUpdate | .unicodeCoreCap => c.unicodeCore | .kittyKeyboard => c.kittyKeyboard
  | .kittyGraphics => c.kittyGraphics | .styledUnderlines => c.styledUnderlines | .truecolor => c.rgb
  | .notifyColorChange => c.colorThemeUpdates | .textAreaPix => c.reportSizePixels | .textAreaChar => c.reportSizeChars
  | .inBandResizeEvents => c.inBandResize

theorem hasI_collect_self (dk : Bool) (c : Caps) (i : Internal) (hi : i ≠ .primaryDeviceAttribute) :
    hasI (collect dk c i) i = true ∨ (i = .kittyKeyboard ∧ dk = true) := by
  cases i <;> cases dk <;> simp_all [hasI, collect]

theorem hasI_collect_mono (dk : Bool) (c : Caps) (i j : Internal) (h : hasI c j = true) : hasI (collect dk c i) j = true := by
  cases i <;> cases j <;> cases dk <;> simp_all [hasI, collect]

theorem hasI_collect_inv (dk : Bool) (c : Caps) (i j : Internal) (h : hasI (collect dk c i) j = true) :
    hasI c j = true ∨ j = i := by
  cases i <;> cases j <;> cases dk <;> simp_all [hasI, collect]

theorem collect_osc176 (dk : Bool) (c : Caps) (i : Internal) : (collect dk c i).osc176 = c.osc176 := by
  cases i <;> cases dk <;> rfl

theorem collect_ew (dk : Bool) (c : Caps) (i : Internal) :
    (collect dk c i).explicitWidth = c.explicitWidth ∧ (collect dk c i).noZWJ = c.noZWJ := by
  cases i <;> cases dk <;> exact ⟨rfl, rfl⟩

theorem known_hasI (c : Caps) (i : Internal) (h : known c (note i) = true) : hasI c i = true := by
  cases i <;> simp_all [known, note, hasI]

theorem known_other (c : Caps) (e : Event) (h : ∀ i, e ≠ note i) : known c e = false := by
  cases e <;> simp_all [known, note]

/-! ### the DA1 reply -/

theorem isDA1_shape (s : Seq) (h : isDA1 s = true) : ∃ ps, s = .csi [63] ps 99 := by
  cases s with
  | csi interm ps fin =>
    simp only [isDA1, notices, noticesCSI, note, List.contains_eq_mem, decide_eq_true_eq] at h
    by_cases h99 : fin = 99
    · subst h99
      by_cases hp : interm = [63]
      · subst hp; exact ⟨ps, rfl⟩
      · simp [hp] at h
    · simp only [h99, beq_iff_eq, if_false] at h
      repeat' split at h
      all_goals simp at h
  | dcs fin interm ps data =>
    simp only [isDA1, notices, noticesDCS, note, List.contains_eq_mem, decide_eq_true_eq] at h
    repeat' split at h
    all_goals simp at h
  | osc pl =>
    simp only [isDA1, notices, appIDOf, note, List.contains_eq_mem, decide_eq_true_eq, List.mem_append] at h
    rcases h with ((h | h) | h) | h <;> split at h <;> simp at h
  | apc d => simp only [isDA1, notices, note, List.contains_eq_mem, decide_eq_true_eq] at h; split at h <;> simp at h
  | _ => simp [isDA1, notices] at h

/-- The DA1 arm posts `n` sixel notifications and then the DA1 notification, all blocking. -/
theorem da1_effs (b64 : List Nat → Option (List Nat)) (st st' : VState) (ps : List (List Int)) (effs : List Effect)
    (h : handle b64 st (.csi [63] ps 99) = .ok (st', effs)) :
    ∃ n, effs = List.replicate n (.postB (note .capabilitySixel)) ++ [.postB DA] := by
  cases hm : ps.mapM (fun p => idx p 0) with
  | error e => simp [handle, handleCSI, ch, isPrivate, hm, bind, Except.bind] at h
  | ok fs =>
    simp [handle, handleCSI, ch, isPrivate, hm, bind, Except.bind, pure, Except.pure] at h
    exact ⟨(fs.filter (· == 4)).length, by rw [← h.2]; simp [List.map_const', note, DA]⟩

/-! ### the invariant -/

def JustI (o : Opts) (ins : List Seq) (i : Internal) : Prop :=
  adv (insPre ins) i = true ∨ (i = .truecolor ∧ o.colorterm = true)

def JustA (ins : List Seq) : Prop := (insPre ins).any (fun s => (notices s).any isAppID) = true

/-- What the invariant looks at. -/
structure View where
  np : List Event
  caps : Caps
  dropped : Nat
  ins : List Seq
  termID : List Nat
  probeGot : Option (Int × Int)
  phase : Phase
  timedOut : Bool

def view (st : St) : View :=
  { np := np st, caps := st.sys.vs.caps, dropped := st.sys.dropped, ins := st.ins, termID := st.termID,
    probeGot := st.probeGot, phase := st.phase, timedOut := st.timedOut }

def active (ph : Phase) : Prop := ph = .probe ∨ ph = .loop

structure DoneP (o : Opts) (v : View) (c : Caps) : Prop where
  cI : ∀ i, i ≠ .primaryDeviceAttribute → adv (insPre v.ins) i = true → hasI c i = true ∨ (i = .kittyKeyboard ∧ o.disableKitty = true)
  cT : o.colorterm = true → c.rgb = true
  cA : JustA v.ins → c.osc176 = true
  tid : v.termID = termIDOf (insPre v.ins)

structure Core (o : Opts) (v : View) (c : Caps) : Prop where
  sI : ∀ i, hasI c i = true → JustI o v.ins i
  sA : c.osc176 = true → JustA v.ins
  ew : (c.explicitWidth = true ↔ ∃ x, v.probeGot = some x ∧ wrap64 (x.2 - 1) = 1) ∧ c.noZWJ = false
  done : (v.phase = .done ∨ v.phase = .ready) → v.timedOut = false → seenDA v.ins = true ∧ (v.dropped = 0 → DoneP o v c)
  dk : o.disableKitty = true → c.kittyKeyboard = false

structure InvV (o : Opts) (v : View) : Prop where
  noDA : active v.phase → seenDA v.ins = false → v.np.any isDA = false
  hasDA : active v.phase → seenDA v.ins = true → v.np.any isDA = true
  psI : active v.phase → ∀ i, note i ∈ upto v.np → JustI o v.ins i
  psA : active v.phase → (upto v.np).any isAppID = true → JustA v.ins
  cI : active v.phase → v.dropped = 0 → ∀ i, i ≠ .primaryDeviceAttribute → adv (insPre v.ins) i = true →
         note i ∈ upto v.np ∨ hasI v.caps i = true ∨ (i = .kittyKeyboard ∧ o.disableKitty = true)
  cT : active v.phase → v.dropped = 0 → o.colorterm = true → note .truecolor ∈ upto v.np ∨ v.caps.rgb = true
  cA : active v.phase → v.dropped = 0 → JustA v.ins → (upto v.np).any isAppID = true ∨ v.caps.osc176 = true
  tid : active v.phase → v.dropped = 0 → lastTermID (upto v.np) v.termID = termIDOf (insPre v.ins)
  probe : v.phase = .probe → v.probeGot = none
  notTO : active v.phase → v.timedOut = false
  core : if v.phase = .ready then ∃ c0, v.caps = applyQuirks o v.termID c0 ∧ Core o v c0 else Core o v v.caps

structure Inv (o : Opts) (st : St) : Prop where
  nb : ∀ ev, Effect.postNB ev ∈ st.sys.pend → isDA ev = false
  v : InvV o (view st)

/-! ### monotonicity in the inputs -/

theorem adv_append (a b : List Seq) (i : Internal) : adv (a ++ b) i = (adv a i || adv b i) := by
  simp [adv, List.any_append]

theorem insPre_mono (ins : List Seq) (s : Seq) : ∃ t, insPre (ins ++ [s]) = insPre ins ++ t := by
  by_cases h : seenDA ins = true
  · exact ⟨[], by simp [insPre_append_seen ins s h]⟩
  · have h' : seenDA ins = false := by simpa using h
    exact ⟨[s], by rw [insPre_append_not_seen ins s h', insPre_of_not_seen ins h']⟩

theorem JustI_mono (o : Opts) (ins : List Seq) (s : Seq) (i : Internal) (h : JustI o ins i) : JustI o (ins ++ [s]) i := by
  obtain ⟨t, ht⟩ := insPre_mono ins s
  rcases h with h | h
  · left; rw [ht, adv_append, h]; rfl
  · right; exact h

theorem JustA_mono (ins : List Seq) (s : Seq) (h : JustA ins) : JustA (ins ++ [s]) := by
  obtain ⟨t, ht⟩ := insPre_mono ins s
  unfold JustA at h ⊢
  rw [ht, List.any_append, h]; rfl

theorem seenDA_append (ins : List Seq) (s : Seq) : seenDA (ins ++ [s]) = (seenDA ins || isDA1 s) := by
  simp [seenDA, List.any_append]

theorem core_input (o : Opts) (v : View) (c : Caps) (s : Seq) (npn : List Event) (h : Core o v c) :
    Core o { v with np := npn, ins := v.ins ++ [s] } c := by
  refine ⟨fun i hi => JustI_mono o v.ins s i (h.sI i hi), fun ha => JustA_mono v.ins s (h.sA ha), h.ew, ?_, h.dk⟩
  intro hp hto
  obtain ⟨hs, hd⟩ := h.done hp hto
  refine ⟨by simp [seenDA_append, hs], fun h0 => ?_⟩
  have hd := hd h0
  have hpre : insPre (v.ins ++ [s]) = insPre v.ins := insPre_append_seen v.ins s hs
  exact ⟨by simpa [hpre] using hd.cI, hd.cT, by simpa [JustA, hpre] using hd.cA, by simpa [hpre] using hd.tid⟩

theorem isDA_note (i : Internal) : isDA (note i) = true ↔ i = .primaryDeviceAttribute := by
  cases i <;> simp [isDA, DA, note]

theorem not_known_DA (c : Caps) : known c DA = false := rfl

/-- In the notifications of one reply DA1 can only come last. -/
theorem upto_notices (c : Caps) (s : Seq) :
    upto ((notices s).filter (fun e => !known c e)) = (notices s).filter (fun e => !known c e) := by
  by_cases h : isDA1 s = true
  · obtain ⟨ps, rfl⟩ := isDA1_shape s h
    simp only [notices, spec_c, beq_self_eq_true, if_true, List.map_const', List.filter_append]
    have h1 : (List.replicate (List.filter (fun p => p.head? == some 4) ps).length (note Internal.capabilitySixel)).filter (fun e => !known c e)
        = List.replicate (List.filter (fun p => p.head? == some 4) ps).length (note Internal.capabilitySixel) := by
      simp [List.filter_replicate, known, note]
    have h2 : [note Internal.primaryDeviceAttribute].filter (fun e => !known c e) = [DA] := by simp [known, note, DA]
    rw [h1, h2, upto_append_of_not _ _ (by simp [List.any_replicate, isDA, DA, note])]
    simp [upto, isDA]
  · apply upto_of_not
    have h' : isDA1 s = false := by simpa using h
    simp only [isDA1, List.contains_eq_mem] at h'
    rw [List.any_eq_false]
    intro e he
    simp only [List.mem_filter] at he
    intro hda
    simp only [isDA, beq_iff_eq] at hda
    subst hda
    simp only [decide_eq_false_iff_not] at h'
    exact h' he.1

theorem mem_filter_known (c : Caps) (s : Seq) (i : Internal) (h : note i ∈ notices s) :
    note i ∈ (notices s).filter (fun e => !known c e) ∨ hasI c i = true := by
  by_cases hk : known c (note i) = true
  · exact Or.inr (known_hasI c i hk)
  · exact Or.inl (List.mem_filter.mpr ⟨h, by simpa using hk⟩)

theorem adv_single (s : Seq) (i : Internal) : adv [s] i = true ↔ note i ∈ notices s := by
  simp [adv]

theorem termIDOf_append (ins : List Seq) (s : Seq) :
    termIDOf (ins ++ [s]) = lastTermID (notices s) (termIDOf ins) := by
  simp [termIDOf, List.flatMap_append, lastTermID_append]

theorem core_of (o : Opts) (v v' : View) (hph : v'.phase = v.phase)
    (f : ∀ c, Core o v c → Core o v' c) (htid : v'.termID = v.termID) (hcaps : v'.caps = v.caps)
    (h : if v.phase = .ready then ∃ c0, v.caps = applyQuirks o v.termID c0 ∧ Core o v c0 else Core o v v.caps) :
    if v'.phase = .ready then ∃ c0, v'.caps = applyQuirks o v'.termID c0 ∧ Core o v' c0 else Core o v' v'.caps := by
  rw [hph, htid, hcaps]
  split
  · rename_i hr; rw [if_pos hr] at h
    obtain ⟨c0, h1, h2⟩ := h
    exact ⟨c0, h1, f c0 h2⟩
  · rename_i hr; rw [if_neg hr] at h
    exact f _ h

/-- Handling one more sequence: its (unsuppressed) notifications are appended to the pending ones. -/
theorem invV_input (o : Opts) (v : View) (s : Seq) (h : InvV o v) :
    InvV o { v with np := v.np ++ (notices s).filter (fun e => !known v.caps e), ins := v.ins ++ [s] } := by
  have hcore := core_of o v { v with np := v.np ++ (notices s).filter (fun e => !known v.caps e), ins := v.ins ++ [s] } rfl
    (fun c hc => core_input o v c s _ hc) rfl rfl h.core
  by_cases hs : seenDA v.ins = true
  · -- the DA1 reply has been handled already: nothing before it changes
    have hpre : insPre (v.ins ++ [s]) = insPre v.ins := insPre_append_seen v.ins s hs
    have hseen : seenDA (v.ins ++ [s]) = true := by simp [seenDA_append, hs]
    have hup : ∀ (ha : active v.phase), upto (v.np ++ (notices s).filter (fun e => !known v.caps e)) = upto v.np :=
      fun ha => upto_append_of_da _ _ (h.hasDA ha hs)
    refine ⟨?_, ?_, ?_, ?_, ?_, ?_, ?_, ?_, h.probe, h.notTO, hcore⟩
    · intro ha hns; simp [hseen] at hns
    · intro ha _; simp [List.any_append, h.hasDA ha hs]
    · intro ha i hi; rw [hup ha] at hi; exact JustI_mono o v.ins s i (h.psI ha i hi)
    · intro ha hi; rw [hup ha] at hi; exact JustA_mono v.ins s (h.psA ha hi)
    · intro ha h0 i hi hadv; simp only [hpre] at hadv; rw [hup ha]; exact h.cI ha h0 i hi hadv
    · intro ha h0 hc; rw [hup ha]; exact h.cT ha h0 hc
    · intro ha h0 hj; rw [hup ha]; exact h.cA ha h0 (by simpa [JustA, hpre] using hj)
    · intro ha h0; simp only [hpre]; rw [hup ha]; exact h.tid ha h0
  · have hs' : seenDA v.ins = false := by simpa using hs
    have hpre : insPre (v.ins ++ [s]) = v.ins ++ [s] := insPre_append_not_seen v.ins s hs'
    have hpre0 : insPre v.ins = v.ins := insPre_of_not_seen v.ins hs'
    have hup : ∀ (ha : active v.phase), upto (v.np ++ (notices s).filter (fun e => !known v.caps e))
        = v.np ++ (notices s).filter (fun e => !known v.caps e) := by
      intro ha; rw [upto_append_of_not _ _ (h.noDA ha hs'), upto_notices]
    have hup0 : ∀ (ha : active v.phase), upto v.np = v.np := fun ha => upto_of_not _ (h.noDA ha hs')
    refine ⟨?_, ?_, ?_, ?_, ?_, ?_, ?_, ?_, h.probe, h.notTO, hcore⟩
    · intro ha hns
      simp only [seenDA_append, hs', Bool.false_or] at hns
      simp only [List.any_append, h.noDA ha hs', Bool.false_or]
      rw [List.any_eq_false]
      intro e he hda
      simp only [isDA, beq_iff_eq] at hda
      subst hda
      have : isDA1 s = true := by
        simp only [isDA1, List.contains_eq_mem, decide_eq_true_eq]; exact (List.mem_filter.mp he).1
      simp [this] at hns
    · intro ha hss
      simp only [seenDA_append, hs', Bool.false_or] at hss
      rw [List.any_append, Bool.or_eq_true]
      right
      refine List.any_eq_true.mpr ⟨DA, List.mem_filter.mpr ⟨?_, by simp [not_known_DA]⟩, by simp [isDA]⟩
      simpa [isDA1, DA] using hss
    · intro ha i hi
      simp only [] at hi
      rw [hup ha, List.mem_append] at hi
      rcases hi with hi | hi
      · exact JustI_mono o v.ins s i (h.psI ha i (by rw [hup0 ha]; exact hi))
      · left; simp only [hpre]; rw [adv_append, (adv_single s i).mpr (List.mem_filter.mp hi).1]; simp
    · intro ha hi
      simp only [] at hi
      rw [hup ha, List.any_append, Bool.or_eq_true] at hi
      rcases hi with hi | hi
      · exact JustA_mono v.ins s (h.psA ha (by rw [hup0 ha]; exact hi))
      · simp only [JustA, hpre, List.any_append, Bool.or_eq_true]
        right
        simp only [List.any_cons, List.any_nil, Bool.or_false]
        obtain ⟨e, he, hea⟩ := List.any_eq_true.mp hi
        exact List.any_eq_true.mpr ⟨e, (List.mem_filter.mp he).1, hea⟩
    · intro ha h0 i hi hadv
      simp only [hpre] at hadv
      rw [adv_append, Bool.or_eq_true] at hadv
      simp only [] at *
      rw [hup ha]
      rcases hadv with hadv | hadv
      · rcases h.cI ha h0 i hi (by rw [hpre0]; exact hadv) with h1 | h1 | h1
        · left; rw [hup0 ha] at h1; exact List.mem_append.mpr (Or.inl h1)
        · exact Or.inr (Or.inl h1)
        · exact Or.inr (Or.inr h1)
      · rcases mem_filter_known v.caps s i ((adv_single s i).mp hadv) with h1 | h1
        · left; exact List.mem_append.mpr (Or.inr h1)
        · exact Or.inr (Or.inl h1)
    · intro ha h0 hc
      simp only [] at *
      rw [hup ha]
      rcases h.cT ha h0 hc with h1 | h1
      · left; rw [hup0 ha] at h1; exact List.mem_append.mpr (Or.inl h1)
      · exact Or.inr h1
    · intro ha h0 hj
      simp only [] at *
      rw [hup ha]
      simp only [JustA, hpre, List.any_append, Bool.or_eq_true, List.any_cons, List.any_nil, Bool.or_false] at hj
      rcases hj with hj | hj
      · rcases h.cA ha h0 (by simpa [JustA, hpre0] using hj) with h1 | h1
        · left; rw [hup0 ha] at h1; simp [List.any_append, h1]
        · exact Or.inr h1
      · left
        obtain ⟨e, he, hea⟩ := List.any_eq_true.mp hj
        rw [List.any_append, Bool.or_eq_true]
        right
        refine List.any_eq_true.mpr ⟨e, List.mem_filter.mpr ⟨he, ?_⟩, hea⟩
        cases e <;> simp [isAppID] at hea
        rfl
    · intro ha h0
      simp only [] at *
      rw [hup ha, hpre, termIDOf_append, lastTermID_append]
      have := h.tid ha h0
      rw [hup0 ha, hpre0] at this
      rw [this]
      apply lastTermID_filter
      intro t; rfl

/-- A non-blocking post was dropped: the pending notifications can only shrink (never DA1). -/
theorem invV_shrink (o : Opts) (v : View) (np' : List Event) (d' : Nat) (hd : d' ≠ 0)
    (hsub : ∀ x ∈ upto np', x ∈ upto v.np) (hany : np'.any isDA = v.np.any isDA) (h : InvV o v) :
    InvV o { v with np := np', dropped := d' } := by
  refine ⟨?_, ?_, ?_, ?_, ?_, ?_, ?_, ?_, h.probe, h.notTO, ?_⟩
  · intro ha hs; simp only [hany]; exact h.noDA ha hs
  · intro ha hs; simp only [hany]; exact h.hasDA ha hs
  · intro ha i hi; exact h.psI ha i (hsub _ hi)
  · intro ha hi
    obtain ⟨e, he, hea⟩ := List.any_eq_true.mp hi
    exact h.psA ha (List.any_eq_true.mpr ⟨e, hsub e he, hea⟩)
  · intro _ h0; exact absurd h0 hd
  · intro _ h0; exact absurd h0 hd
  · intro _ h0; exact absurd h0 hd
  · intro _ h0; exact absurd h0 hd
  · exact core_of o v { v with np := np', dropped := d' } rfl
      (fun c hc => ⟨hc.sI, hc.sA, hc.ew, fun hp hto => ⟨(hc.done hp hto).1, fun h0 => absurd h0 hd⟩, hc.dk⟩) rfl rfl h.core

theorem wrap64_probe (c : Int) (h1 : -9223372036854775808 ≤ c) (h2 : c < 9223372036854775808) :
    wrap64 (c - 1) = 1 ↔ c = 2 := by
  unfold wrap64; omega

theorem invV_probeRecv (o : Opts) (v : View) (x : Int × Int) (hp : v.phase = .probe) (h : InvV o v) :
    InvV o { v with caps := if wrap64 (x.2 - 1) == 1 then { v.caps with explicitWidth := true } else v.caps,
                    probeGot := some x, phase := .loop } := by
  have ha : active v.phase := Or.inl hp
  have hI : ∀ i, hasI (if wrap64 (x.2 - 1) == 1 then { v.caps with explicitWidth := true } else v.caps) i = hasI v.caps i := by
    intro i; split <;> cases i <;> rfl
  have h176 : (if wrap64 (x.2 - 1) == 1 then { v.caps with explicitWidth := true } else v.caps).osc176 = v.caps.osc176 := by
    split <;> rfl
  have hrgb : (if wrap64 (x.2 - 1) == 1 then { v.caps with explicitWidth := true } else v.caps).rgb = v.caps.rgb := by
    split <;> rfl
  have hkk : (if wrap64 (x.2 - 1) == 1 then { v.caps with explicitWidth := true } else v.caps).kittyKeyboard = v.caps.kittyKeyboard := by
    split <;> rfl
  have hcore := h.core
  rw [if_neg (by rw [hp]; decide)] at hcore
  have hal : active Phase.loop := Or.inr rfl
  refine ⟨fun _ => h.noDA ha, fun _ => h.hasDA ha, fun _ => h.psI ha, fun _ => h.psA ha, ?_, ?_, ?_, fun _ => h.tid ha,
    (by intro hc; cases hc), fun _ => h.notTO ha, ?_⟩
  · intro _ h0 i hi hadv; simp only [hI]; exact h.cI ha h0 i hi hadv
  · intro _ h0 hc; simp only [hrgb]; exact h.cT ha h0 hc
  · intro _ h0 hj; simp only [h176]; exact h.cA ha h0 hj
  · rw [if_neg (by simp)]
    refine ⟨fun i hi => hcore.sI i (by rw [hI] at hi; exact hi), fun h1 => hcore.sA (by rw [h176] at h1; exact h1), ?_,
      (fun hph => by rcases hph with hph | hph <;> cases hph), (fun hd => by rw [hkk]; exact hcore.dk hd)⟩
    have hn := h.probe hp
    have hew : v.caps.explicitWidth = false := by
      cases hx : v.caps.explicitWidth
      · rfl
      · have := hcore.ew.1.mp hx; simp [hn] at this
    constructor
    · constructor
      · intro hx
        refine ⟨x, rfl, ?_⟩
        by_cases hw : wrap64 (x.2 - 1) = 1
        · exact hw
        · simp [hw, hew] at hx
      · rintro ⟨y, hy, hw⟩
        cases hy
        simp [hw]
    · split <;> exact hcore.ew.2

theorem invV_probeTimeout (o : Opts) (v : View) (hp : v.phase = .probe) (h : InvV o v) :
    InvV o { v with phase := .loop } := by
  have ha : active v.phase := Or.inl hp
  have hcore := h.core
  rw [if_neg (by rw [hp]; decide)] at hcore
  refine ⟨fun _ => h.noDA ha, fun _ => h.hasDA ha, fun _ => h.psI ha, fun _ => h.psA ha, fun _ => h.cI ha, fun _ => h.cT ha,
    fun _ => h.cA ha, fun _ => h.tid ha, (by intro hc; cases hc), fun _ => h.notTO ha, ?_⟩
  rw [if_neg (by simp)]
  exact ⟨hcore.sI, hcore.sA, hcore.ew, (fun hph => by rcases hph with hph | hph <;> cases hph), hcore.dk⟩

theorem invV_loopTimeout (o : Opts) (v : View) (hp : v.phase = .loop) (h : InvV o v) :
    InvV o { v with phase := .done, timedOut := true } := by
  have hcore := h.core
  rw [if_neg (by rw [hp]; decide)] at hcore
  have hna : ¬ active Phase.done := by intro hx; rcases hx with hx | hx <;> cases hx
  refine ⟨fun ha => absurd ha hna, fun ha => absurd ha hna, fun ha => absurd ha hna, fun ha => absurd ha hna,
    fun ha => absurd ha hna, fun ha => absurd ha hna, fun ha => absurd ha hna, fun ha => absurd ha hna,
    (by intro hc; cases hc), fun ha => absurd ha hna, ?_⟩
  rw [if_neg (by simp)]
  exact ⟨hcore.sI, hcore.sA, hcore.ew, (fun _ hto => by cases hto), hcore.dk⟩

theorem invV_quirks (o : Opts) (v : View) (hp : v.phase = .done) (h : InvV o v) :
    InvV o { v with caps := applyQuirks o v.termID v.caps, phase := .ready } := by
  have hcore := h.core
  rw [if_neg (by rw [hp]; decide)] at hcore
  have hna : ¬ active Phase.ready := by intro hx; rcases hx with hx | hx <;> cases hx
  refine ⟨fun ha => absurd ha hna, fun ha => absurd ha hna, fun ha => absurd ha hna, fun ha => absurd ha hna,
    fun ha => absurd ha hna, fun ha => absurd ha hna, fun ha => absurd ha hna, fun ha => absurd ha hna,
    (by intro hc; cases hc), fun ha => absurd ha hna, ?_⟩
  rw [if_pos rfl]
  refine ⟨v.caps, rfl, hcore.sI, hcore.sA, hcore.ew, fun _ hto => ?_, hcore.dk⟩
  obtain ⟨h1, h2⟩ := hcore.done (Or.inl hp) hto
  exact ⟨h1, fun h0 => ⟨(h2 h0).cI, (h2 h0).cT, (h2 h0).cA, (h2 h0).tid⟩⟩

theorem note_inj {i j : Internal} (h : note i = note j) : i = j := by
  simpa [note] using h

/-- The loop receives the DA1 notification: everything the replies before it announced has been
collected. -/
theorem invV_loopDA (o : Opts) (v : View) (np' : List Event) (hp : v.phase = .loop) (hnp : v.np = DA :: np') (h : InvV o v) :
    InvV o { v with np := np', phase := .done } := by
  have ha : active v.phase := Or.inr hp
  have hcore := h.core
  rw [if_neg (by rw [hp]; decide)] at hcore
  have hna : ¬ active Phase.done := by intro hx; rcases hx with hx | hx <;> cases hx
  have hup : upto v.np = [DA] := by rw [hnp]; simp [upto, isDA]
  refine ⟨fun ha => absurd ha hna, fun ha => absurd ha hna, fun ha => absurd ha hna, fun ha => absurd ha hna,
    fun ha => absurd ha hna, fun ha => absurd ha hna, fun ha => absurd ha hna, fun ha => absurd ha hna,
    (by intro hc; cases hc), fun ha => absurd ha hna, ?_⟩
  rw [if_neg (by simp)]
  refine ⟨hcore.sI, hcore.sA, hcore.ew, fun _ _ => ⟨?_, fun h0 => ⟨?_, ?_, ?_, ?_⟩⟩, hcore.dk⟩
  · cases hs : seenDA v.ins
    · have := h.noDA ha hs; rw [hnp] at this; simp [isDA] at this
    · rfl
  · intro i hi hadv
    rcases h.cI ha h0 i hi hadv with h1 | h1
    · rw [hup] at h1; simp only [List.mem_singleton] at h1; exact absurd (note_inj h1) hi
    · exact h1
  · intro hc
    rcases h.cT ha h0 hc with h1 | h1
    · rw [hup] at h1; simp [DA, note] at h1
    · exact h1
  · intro hj
    rcases h.cA ha h0 hj with h1 | h1
    · rw [hup] at h1; simp [DA, note, isAppID] at h1
    · exact h1
  · have := h.tid ha h0
    rw [hup] at this
    simpa [lastTermID, DA, note] using this

/-- The loop receives a notification other than DA1 and updates the capability record. -/
theorem invV_loopEv (o : Opts) (v : View) (e : Event) (np' : List Event) (c' : Caps) (t' : List Nat)
    (hp : v.phase = .loop) (hnp : v.np = e :: np') (hda : isDA e = false)
    (H1 : ∀ j, hasI c' j = true → hasI v.caps j = true ∨ e = note j)
    (H2 : ∀ j, hasI v.caps j = true → hasI c' j = true)
    (H3 : ∀ j, e = note j → hasI c' j = true ∨ (j = .kittyKeyboard ∧ o.disableKitty = true))
    (H4 : c'.osc176 = true → v.caps.osc176 = true ∨ isAppID e = true)
    (H5 : (v.caps.osc176 = true ∨ isAppID e = true) → c'.osc176 = true)
    (H6 : c'.explicitWidth = v.caps.explicitWidth ∧ c'.noZWJ = v.caps.noZWJ)
    (H7 : lastTermID [e] v.termID = t')
    (H8 : o.disableKitty = true → c'.kittyKeyboard = v.caps.kittyKeyboard)
    (h : InvV o v) :
    InvV o { v with np := np', caps := c', termID := t' } := by
  have ha : active v.phase := Or.inr hp
  have hcore := h.core
  rw [if_neg (by rw [hp]; decide)] at hcore
  have hup : upto v.np = e :: upto np' := by rw [hnp]; simp [upto, hda]
  have hany : v.np.any isDA = np'.any isDA := by rw [hnp]; simp [hda]
  refine ⟨?_, ?_, ?_, ?_, ?_, ?_, ?_, ?_, h.probe, h.notTO, ?_⟩
  · intro _ hs; rw [← hany]; exact h.noDA ha hs
  · intro _ hs; rw [← hany]; exact h.hasDA ha hs
  · intro _ i hi; exact h.psI ha i (by rw [hup]; exact List.mem_cons_of_mem _ hi)
  · intro _ hi; exact h.psA ha (by rw [hup]; simp only [List.any_cons, Bool.or_eq_true]; exact Or.inr hi)
  · intro _ h0 i hi hadv
    rcases h.cI ha h0 i hi hadv with h1 | h1 | h1
    · rw [hup] at h1
      rcases List.mem_cons.mp h1 with h1 | h1
      · rcases H3 i h1.symm with h2 | h2
        · exact Or.inr (Or.inl h2)
        · exact Or.inr (Or.inr h2)
      · exact Or.inl h1
    · exact Or.inr (Or.inl (H2 i h1))
    · exact Or.inr (Or.inr h1)
  · intro _ h0 hc
    rcases h.cT ha h0 hc with h1 | h1
    · rw [hup] at h1
      rcases List.mem_cons.mp h1 with h1 | h1
      · rcases H3 .truecolor h1.symm with h2 | h2
        · exact Or.inr h2
        · exact absurd h2.1 (by decide)
      · exact Or.inl h1
    · exact Or.inr (H2 .truecolor h1)
  · intro _ h0 hj
    rcases h.cA ha h0 hj with h1 | h1
    · rw [hup] at h1
      simp only [List.any_cons, Bool.or_eq_true] at h1
      rcases h1 with h1 | h1
      · exact Or.inr (H5 (Or.inr h1))
      · exact Or.inl h1
    · exact Or.inr (H5 (Or.inl h1))
  · intro _ h0
    have := h.tid ha h0
    rw [hup, show e :: upto np' = [e] ++ upto np' from rfl, lastTermID_append, H7] at this
    exact this
  · have hph : ¬ v.phase = Phase.ready := by rw [hp]; decide
    simp only [hph, if_false]
    refine ⟨?_, ?_, ?_, (fun hph' => by rw [hp] at hph'; rcases hph' with hph' | hph' <;> cases hph'), (fun hd => by rw [H8 hd]; exact hcore.dk hd)⟩
    · intro j hj
      rcases H1 j hj with h1 | h1
      · exact hcore.sI j h1
      · exact h.psI ha j (by rw [hup, h1]; exact List.mem_cons_self)
    · intro hc
      rcases H4 hc with h1 | h1
      · exact hcore.sA h1
      · exact h.psA ha (by rw [hup]; simp [h1])
    · rw [H6.1, H6.2]; exact hcore.ew

/-! ### the goroutine side -/

theorem stepEffect_view (p : Params) (sys sys' : Sys) (e : Effect) (rest : List Effect)
    (h : stepEffect p sys e rest = some sys') :
    sys'.pend = rest ∧ sys'.vs = sys.vs ∧
    ((sys'.queue ++ posted rest = sys.queue ++ posted (e :: rest) ∧ sys'.dropped = sys.dropped) ∨
     (∃ ev, e = .postNB ev ∧ sys'.queue = sys.queue ∧ sys'.dropped = sys.dropped + 1)) := by
  cases e <;> simp only [stepEffect] at h
  all_goals (repeat' split at h)
  all_goals (first | (simp at h; done) | (simp at h; subst h; simp [posted]))

theorem filter_append_cons_notice (a b : List Event) (e : Event) :
    ((a ++ e :: b).filter isNotice = a.filter isNotice ++ e :: b.filter isNotice ∧ isNotice e = true) ∨
    ((a ++ e :: b).filter isNotice = (a ++ b).filter isNotice ∧ isNotice e = false) := by
  cases he : isNotice e
  · right; simp [List.filter_append, List.filter_cons, he]
  · left; simp [List.filter_append, List.filter_cons, he]

theorem inv_of_view_eq (o : Opts) (st st' : St) (h : Inv o st) (hv : view st' = view st)
    (hnb : ∀ ev, Effect.postNB ev ∈ st'.sys.pend → Effect.postNB ev ∈ st.sys.pend) : Inv o st' :=
  ⟨fun ev hev => h.nb ev (hnb ev hev), by rw [hv]; exact h.v⟩

theorem inv_gostep (p : Params) (o : Opts) (st : St) (sys' : Sys) (h : Inv o st)
    (hn : VaxisModel.Model.InputLoop.next p st.sys .step = some (.ok sys')) : Inv o { st with sys := sys' } := by
  simp only [VaxisModel.Model.InputLoop.next] at hn
  split at hn
  · simp at hn
  · rename_i e rest hpend
    simp only [Option.map_eq_some_iff] at hn
    obtain ⟨a, ha, hb⟩ := hn
    cases hb
    obtain ⟨hp', hvs, hq⟩ := stepEffect_view p st.sys sys' e rest ha
    have hnb : ∀ ev, Effect.postNB ev ∈ sys'.pend → Effect.postNB ev ∈ st.sys.pend := by
      intro ev hev; rw [hpend]; rw [hp'] at hev; exact List.mem_cons_of_mem _ hev
    rcases hq with ⟨hq, hd⟩ | ⟨ev, rfl, hq, hd⟩
    · apply inv_of_view_eq o st _ h _ hnb
      simp only [view, np, hp', hvs, hd, hq, hpend]
    · refine ⟨fun ev' hev => h.nb ev' (hnb ev' hev), ?_⟩
      have hevda : isDA ev = false := h.nb ev (by rw [hpend]; exact List.mem_cons_self)
      have hv : view { st with sys := sys' } =
          { view st with np := (st.sys.queue ++ posted rest).filter isNotice, dropped := st.sys.dropped + 1 } := by
        simp only [view, np, hp', hvs, hd, hq]
      rw [hv]
      have hnp : np st = (st.sys.queue ++ ev :: posted rest).filter isNotice := by simp [np, hpend, posted]
      apply invV_shrink o (view st) _ _ (by omega) _ _ h.v
      · intro x hx
        show x ∈ upto (np st)
        rw [hnp]
        rcases filter_append_cons_notice st.sys.queue (posted rest) ev with ⟨h1, _⟩ | ⟨h1, _⟩
        · rw [h1]; rw [List.filter_append] at hx; exact upto_remove _ _ ev hevda x hx
        · rw [h1]; exact hx
      · show _ = (np st).any isDA
        rw [hnp]
        simp [List.filter_append, List.any_append, List.filter_cons]
        split <;> simp [hevda]

theorem inv_clipTimeout (p : Params) (o : Opts) (st : St) (sys' : Sys) (h : Inv o st)
    (hn : VaxisModel.Model.InputLoop.next p st.sys .clipTimeout = some (.ok sys')) : Inv o { st with sys := sys' } := by
  simp only [VaxisModel.Model.InputLoop.next] at hn
  split at hn
  · rename_i v rest hpend
    split at hn
    · simp at hn; subst hn
      apply inv_of_view_eq o st _ h
      · simp [view, np, hpend, posted]
      · intro ev hev; rw [hpend]; exact List.mem_cons_of_mem _ hev
    · simp at hn
  · simp at hn

theorem mem_posted_of_nb (effs : List Effect) (ev : Event) (h : Effect.postNB ev ∈ effs) : ev ∈ posted effs := by
  induction effs with
  | nil => simp at h
  | cons a t ih =>
    rcases List.mem_cons.mp h with h1 | h1
    · subst h1; simp [posted]
    · have := ih h1
      cases a <;> simp [posted, this]

theorem nb_not_da (b64 : List Nat → Option (List Nat)) (vs vs' : VState) (s : Seq) (effs : List Effect)
    (hh : handle b64 vs s = .ok (vs', effs)) : ∀ ev, Effect.postNB ev ∈ effs → isDA ev = false := by
  intro ev hev
  cases hda : isDA ev
  · rfl
  · exfalso
    simp only [isDA, beq_iff_eq] at hda
    subst hda
    have h1 : DA ∈ (posted effs).filter isNotice :=
      List.mem_filter.mpr ⟨mem_posted_of_nb effs DA hev, by simp [isNotice, DA, note, Event.userVisible]⟩
    rw [(handle_notices b64 vs s vs' effs hh).1] at h1
    have h2 : isDA1 s = true := by
      simp only [isDA1, List.contains_eq_mem, decide_eq_true_eq]; exact (List.mem_filter.mp h1).1
    obtain ⟨ps, rfl⟩ := isDA1_shape s h2
    obtain ⟨n, hn⟩ := da1_effs b64 vs vs' ps effs hh
    rw [hn] at hev
    simp [List.mem_append, List.mem_replicate] at hev

theorem inv_input (p : Params) (o : Opts) (st : St) (sys' : Sys) (s : Seq) (h : Inv o st)
    (hn : VaxisModel.Model.InputLoop.next p st.sys (.input s) = some (.ok sys')) :
    Inv o { st with sys := sys', ins := st.ins ++ [s] } := by
  simp only [VaxisModel.Model.InputLoop.next] at hn
  split at hn
  · rename_i hpend
    split at hn
    · rename_i vs effs hh
      simp at hn; subst hn
      obtain ⟨hN, hcaps⟩ := handle_notices p.b64 st.sys.vs s vs effs hh
      refine ⟨nb_not_da p.b64 st.sys.vs vs s effs hh, ?_⟩
      have hv : view { st with sys := { st.sys with vs := vs, pend := effs }, ins := st.ins ++ [s] } =
          { view st with np := (view st).np ++ (notices s).filter (fun e => !known (view st).caps e), ins := (view st).ins ++ [s] } := by
        simp only [view, np, hpend, posted, List.append_nil, List.filter_append, hN, hcaps]
      rw [hv]
      exact invV_input o (view st) s h.v
    · simp at hn
  · simp at hn

theorem np_cons (st : St) (e : Event) (q : List Event) (hq : st.sys.queue = e :: q) :
    np st = if isNotice e then e :: (q ++ posted st.sys.pend).filter isNotice else (q ++ posted st.sys.pend).filter isNotice := by
  simp only [np, hq, List.cons_append, List.filter_cons]

theorem inv_next (p : Params) (o : Opts) (st st' : St) (l : VaxisModel.Model.Startup.Label) (h : Inv o st)
    (hn : VaxisModel.Model.Startup.next p o st l = some (.ok st')) : Inv o st' := by
  cases l with
  | input s =>
    simp only [VaxisModel.Model.Startup.next] at hn
    split at hn
    · rename_i sys' hs; simp at hn; subst hn; exact inv_input p o st sys' s h hs
    · simp at hn
    · simp at hn
  | step =>
    simp only [VaxisModel.Model.Startup.next, liftSys] at hn
    split at hn
    · rename_i sys' hs; simp at hn; subst hn; exact inv_gostep p o st sys' h hs
    · simp at hn
    · simp at hn
  | clipTimeout =>
    simp only [VaxisModel.Model.Startup.next, liftSys] at hn
    split at hn
    · rename_i sys' hs; simp at hn; subst hn; exact inv_clipTimeout p o st sys' h hs
    · simp at hn
    · simp at hn
  | probeRecv =>
    simp only [VaxisModel.Model.Startup.next] at hn
    split at hn
    · rename_i hp
      split at hn
      · simp at hn
      · rename_i x t hc
        simp at hn; subst hn
        refine ⟨h.nb, ?_⟩
        have := invV_probeRecv o (view st) x hp h.v
        simpa [view, np, setCaps] using this
    · simp at hn
  | probeTimeout =>
    simp only [VaxisModel.Model.Startup.next] at hn
    split at hn
    · rename_i hp
      simp at hn; subst hn
      refine ⟨h.nb, ?_⟩
      have := invV_probeTimeout o (view st) hp h.v
      simpa [view, np] using this
    · simp at hn
  | loopTimeout =>
    simp only [VaxisModel.Model.Startup.next] at hn
    split at hn
    · rename_i hp
      simp at hn; subst hn
      refine ⟨h.nb, ?_⟩
      have := invV_loopTimeout o (view st) hp h.v
      simpa [view, np] using this
    · simp at hn
  | quirks =>
    simp only [VaxisModel.Model.Startup.next] at hn
    split at hn
    · rename_i hp
      simp at hn; subst hn
      refine ⟨h.nb, ?_⟩
      have := invV_quirks o (view st) hp h.v
      simpa [view, np, setCaps] using this
    · simp at hn
  | loopRecv =>
    simp only [VaxisModel.Model.Startup.next] at hn
    split at hn
    · rename_i hp
      split at hn
      · simp at hn
      · rename_i e q hq
        have hnp := np_cons st e q hq
        split at hn
        · -- `break outer`: e is the DA1 notification
          rename_i hce
          simp at hn; subst hn
          have he : e = DA := by
            cases e <;> simp [collectEv] at hce
            rename_i i; cases i <;> simp [collectEv] at hce
            rfl
          subst he
          refine ⟨h.nb, ?_⟩
          have := invV_loopDA o (view st) ((q ++ posted st.sys.pend).filter isNotice) hp
            (by simp only [view]; rw [hnp]; simp [isNotice, DA, note, Event.userVisible]) h.v
          simpa [view, np] using this
        · rename_i c tid aid hce
          simp at hn; subst hn
          refine ⟨h.nb, ?_⟩
          cases e with
          | internal i =>
            have hi : i ≠ .primaryDeviceAttribute := by intro hx; subst hx; simp [collectEv] at hce
            have hc : c = collect o.disableKitty st.sys.vs.caps i ∧ tid = st.termID := by
              cases i <;> simp [collectEv] at hce <;> exact ⟨hce.1.symm, hce.2.1.symm⟩
            obtain ⟨rfl, rfl⟩ := hc
            have := invV_loopEv o (view st) (.internal i) ((q ++ posted st.sys.pend).filter isNotice)
              (collect o.disableKitty st.sys.vs.caps i) st.termID hp
              (by simp only [view]; rw [hnp]; simp [isNotice, Event.userVisible])
              (by cases i <;> simp_all [isDA, DA, note])
              (fun j hj => by
                rcases hasI_collect_inv _ _ i j hj with h1 | h1
                · exact Or.inl h1
                · right; rw [h1]; rfl)
              (fun j hj => hasI_collect_mono _ _ i j hj)
              (fun j hj => by
                have : i = j := by simpa [note] using hj
                subst this
                exact hasI_collect_self _ _ i hi)
              (fun hx => Or.inl (by rw [collect_osc176] at hx; exact hx))
              (fun hx => by
                rcases hx with hx | hx
                · rw [collect_osc176]; exact hx
                · simp [isAppID] at hx)
              (collect_ew _ _ i) rfl (fun hd => by rw [hd]; cases i <;> rfl) h.v
            simpa [view, np, setCaps] using this
          | appID a =>
            simp [collectEv] at hce
            obtain ⟨rfl, rfl, rfl⟩ := hce
            have := invV_loopEv o (view st) (.appID a) ((q ++ posted st.sys.pend).filter isNotice)
              { st.sys.vs.caps with osc176 := true } st.termID hp
              (by simp only [view]; rw [hnp]; simp [isNotice, Event.userVisible])
              (by simp [isDA, DA, note])
              (fun j hj => Or.inl (by cases j <;> exact hj))
              (fun j hj => by cases j <;> exact hj)
              (fun j hj => by simp [note] at hj)
              (fun _ => Or.inr rfl) (fun _ => rfl) ⟨rfl, rfl⟩ rfl (fun _ => rfl) h.v
            simpa [view, np, setCaps] using this
          | terminalID a =>
            simp [collectEv] at hce
            obtain ⟨rfl, rfl, rfl⟩ := hce
            have := invV_loopEv o (view st) (.terminalID a) ((q ++ posted st.sys.pend).filter isNotice)
              st.sys.vs.caps a hp
              (by simp only [view]; rw [hnp]; simp [isNotice, Event.userVisible])
              (by simp [isDA, DA, note])
              (fun j hj => Or.inl hj) (fun j hj => hj)
              (fun j hj => by simp [note] at hj)
              (fun hx => Or.inl hx)
              (fun hx => by
                rcases hx with hx | hx
                · exact hx
                · simp [isAppID] at hx)
              ⟨rfl, rfl⟩ rfl (fun _ => rfl) h.v
            simpa [view, np, setCaps] using this
          | _ =>
            simp [collectEv] at hce
            obtain ⟨rfl, rfl, rfl⟩ := hce
            have hv : view { st with sys := setCaps { st.sys with queue := q } st.sys.vs.caps } = view st := by
              simp only [view, setCaps]
              rw [hnp]
              simp [np, isNotice, Event.userVisible]
            rw [hv]; exact h.v
    · simp at hn

/-! ### runs -/

theorem inv_init (o : Opts) : Inv o (St.init o) := by
  refine ⟨by simp [St.init], ?_⟩
  have hv : view (St.init o) = View.mk (if o.colorterm then [note .truecolor] else []) ({} : Caps) 0 [] [] none .probe false := by
    simp only [view, np, St.init, posted, List.append_nil]
    cases o.colorterm <;> simp [isNotice, Event.userVisible, note]
  rw [hv]
  refine ⟨?_, ?_, ?_, ?_, ?_, ?_, ?_, ?_, fun _ => rfl, fun _ => rfl, ?_⟩
  · intro _ _; cases o.colorterm <;> simp [isDA, DA, note]
  · intro _ hs; simp [seenDA] at hs
  · intro _ i hi
    cases hc : o.colorterm
    · simp [hc, upto] at hi
    · simp [hc, upto, isDA, DA, note] at hi
      subst hi
      exact Or.inr ⟨rfl, hc⟩
  · intro _ hi; cases hc : o.colorterm <;> simp [hc, upto, isDA, DA, note, isAppID] at hi
  · intro _ _ i _ hadv; simp [insPre, adv] at hadv
  · intro _ _ hc; left; simp [hc, upto, isDA, DA, note]
  · intro _ _ hj; simp [JustA, insPre] at hj
  · intro _ _; cases o.colorterm <;> simp [upto, isDA, DA, note, lastTermID, termIDOf, insPre]
  · rw [if_neg (by simp)]
    exact ⟨fun i hi => by cases i <;> simp [hasI] at hi, fun h => by simp at h, ⟨by simp, rfl⟩,
      (fun hp => by rcases hp with hp | hp <;> cases hp), (fun _ => rfl)⟩

theorem inv_run (p : Params) (o : Opts) : ∀ (ls : List VaxisModel.Model.Startup.Label) (st st' : St),
    Inv o st → VaxisModel.Model.Startup.run p o st ls = some st' → Inv o st'
  | [], st, st', h, hr => by simp [VaxisModel.Model.Startup.run] at hr; subst hr; exact h
  | l :: ls, st, st', h, hr => by
      simp only [VaxisModel.Model.Startup.run] at hr
      split at hr
      · rename_i st1 hn
        exact inv_run p o ls st1 st' (inv_next p o st st1 l h hn) hr
      · simp at hr

theorem ins_next (p : Params) (o : Opts) (st st' : St) (l : VaxisModel.Model.Startup.Label)
    (hn : VaxisModel.Model.Startup.next p o st l = some (.ok st')) : st'.ins = st.ins ++ inputsOf [l] := by
  cases l <;> simp only [VaxisModel.Model.Startup.next, liftSys] at hn
  all_goals (repeat' split at hn)
  all_goals (first | (simp at hn; done) | (simp at hn; subst hn; simp [inputsOf]))

theorem inputsOf_cons (l : VaxisModel.Model.Startup.Label) (ls : List VaxisModel.Model.Startup.Label) :
    inputsOf (l :: ls) = inputsOf [l] ++ inputsOf ls := by
  cases l <;> simp [inputsOf]

theorem ins_run (p : Params) (o : Opts) : ∀ (ls : List VaxisModel.Model.Startup.Label) (st st' : St),
    VaxisModel.Model.Startup.run p o st ls = some st' → st'.ins = st.ins ++ inputsOf ls
  | [], st, st', hr => by simp [VaxisModel.Model.Startup.run] at hr; subst hr; simp [inputsOf]
  | l :: ls, st, st', hr => by
      simp only [VaxisModel.Model.Startup.run] at hr
      split at hr
      · rename_i st1 hn
        rw [ins_run p o ls st1 st' hr, ins_next p o st st1 l hn, List.append_assoc, ← inputsOf_cons]
      · simp at hr

theorem insPre_split (ins : List Seq) (h : seenDA ins = true) :
    ∃ A d B, ins = A ++ d :: B ∧ isDA1 d = true ∧ (∀ s ∈ A, isDA1 s = false) ∧ insPre ins = A ++ [d] := by
  induction ins with
  | nil => simp [seenDA] at h
  | cons a t ih =>
    by_cases ha : isDA1 a = true
    · exact ⟨[], a, t, rfl, ha, by simp, by simp [insPre, ha]⟩
    · simp only [seenDA, List.any_cons, ha, Bool.false_or] at h
      obtain ⟨A, d, B, h1, h2, h3, h4⟩ := ih h
      refine ⟨a :: A, d, B, by simp [h1], h2, ?_, by simp [insPre, ha, h4]⟩
      intro s hs
      rcases List.mem_cons.mp hs with rfl | hs
      · simpa using ha
      · exact h3 s hs

end VaxisModel.Lemmas.Startup
