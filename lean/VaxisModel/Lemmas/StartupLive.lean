import VaxisModel.Lemmas.Startup
import VaxisModel.Lemmas.Input

/-!
# The start-up can always complete: existence of the eager schedule

For every list of well-formed sequences without a DA1 reply followed by a DA1 reply there is a run
of the start-up LTS that handles exactly these sequences and ends `ready`, the loop ended by the
DA1 notification, nothing dropped — i.e. the hypotheses of `Props.C07Caps.caps_exact` are
satisfiable for every such stream (here: under the schedule "the probe times out, then the loop
of `New` receives whenever the goroutine would otherwise block or drop").
-/
namespace VaxisModel.Lemmas.StartupLive
open VaxisModel.Model.Input VaxisModel.Model.InputLoop VaxisModel.Model.Startup
open VaxisModel.Lemmas.Startup VaxisModel.Lemmas.StartupSeq VaxisModel.Lemmas.InputLoop VaxisModel.Lemmas.InputEvents
open VaxisModel.Spec.Startup
open VaxisModel.Lemmas.Input (WfSeq)

abbrev SLabel := VaxisModel.Model.Startup.Label

structure Good (p : Params) (v : Option (Int × Int)) (st : St) : Prop where
  ph : st.phase = .loop
  to : st.timedOut = false
  dr : st.sys.dropped = 0
  ql : st.sys.queue.length ≤ p.qcap
  nd : ∀ e ∈ st.sys.queue, isDA e = false
  pg : st.probeGot = v

theorem srun_append (p : Params) (o : Opts) : ∀ (ls1 ls2 : List SLabel) (a b : St),
    VaxisModel.Model.Startup.run p o a ls1 = some b → VaxisModel.Model.Startup.run p o a (ls1 ++ ls2) = VaxisModel.Model.Startup.run p o b ls2
  | [], _, a, b, h => by simp [VaxisModel.Model.Startup.run, VaxisModel.Model.Startup.run] at h; subst h; rfl
  | l :: t, ls2, a, b, h => by
      simp only [VaxisModel.Model.Startup.run, List.cons_append] at h ⊢
      cases hn : VaxisModel.Model.Startup.next p o a l with
      | none => simp [hn] at h
      | some r =>
        cases r with
        | error e => simp [hn] at h
        | ok s'' =>
          simp only [hn] at h ⊢
          exact srun_append p o t ls2 s'' b h

theorem inputsOf_append (a b : List SLabel) : inputsOf (a ++ b) = inputsOf a ++ inputsOf b := by
  induction a with
  | nil => rfl
  | cons l t ih => cases l <;> simp [inputsOf, ih]

theorem collectEv_some (o : Opts) (c : Caps) (tid aid : List Nat) (e : Event) (h : isDA e = false) :
    ∃ r, collectEv o c tid aid e = some r := by
  cases e with
  | internal i => cases i <;> first | (exact ⟨_, rfl⟩) | (simp [isDA, DA, note] at h)
  | _ => exact ⟨_, rfl⟩

/-- The loop of `New` receives one event that is not the DA1 notification. -/
theorem recv_one (p : Params) (o : Opts) (v : Option (Int × Int)) (st : St) (e : Event) (q : List Event) (g : Good p v st) (hq : st.sys.queue = e :: q) :
    ∃ st', VaxisModel.Model.Startup.next p o st .loopRecv = some (.ok st') ∧ st'.sys.queue = q ∧ st'.sys.pend = st.sys.pend ∧ Good p v st' ∧
      st'.sys.cursorWaiting = st.sys.cursorWaiting ∧ st'.sys.clipWaiting = st.sys.clipWaiting := by
  have hnd : isDA e = false := g.nd e (by rw [hq]; simp)
  obtain ⟨⟨c, tid, aid⟩, hc⟩ := collectEv_some o st.sys.vs.caps st.termID st.appIDLast e hnd
  refine ⟨{ st with sys := setCaps { st.sys with queue := q } c, termID := tid, appIDLast := aid }, ?_, rfl, rfl, ?_, rfl, rfl⟩
  · simp [VaxisModel.Model.Startup.next, g.ph, hq, hc]
  · refine ⟨g.ph, g.to, g.dr, ?_, ?_, g.pg⟩
    · have := g.ql; rw [hq] at this; simp [setCaps] at this ⊢; omega
    · intro x hx; exact g.nd x (by rw [hq]; simp [setCaps] at hx ⊢; exact Or.inr hx)

def NoDAeff : Effect → Prop
  | .postB ev => isDA ev = false
  | .postNB ev => isDA ev = false
  | _ => True

/-- One pending effect is performed (the loop receiving first when the queue is full), staying `Good`. -/
theorem eff_one (p : Params) (o : Opts) (v : Option (Int × Int)) (hq : 0 < p.qcap) (hk : Kinds.safe p.kinds) (st : St) (e : Effect) (rest : List Effect)
    (g : Good p v st) (hp : st.sys.pend = e :: rest) (hn : NoDAeff e) :
    ∃ ls st', inputsOf ls = [] ∧ VaxisModel.Model.Startup.run p o st ls = some st' ∧ st'.sys.pend = rest ∧ Good p v st' := by
  obtain ⟨hcp, hsd, hco, hfg, hbg, hcl⟩ := hk
  -- make room in the queue first if necessary
  have room : ∃ ls0 st0, inputsOf ls0 = [] ∧ VaxisModel.Model.Startup.run p o st ls0 = some st0 ∧ st0.sys.pend = e :: rest ∧ Good p v st0 ∧
      st0.sys.queue.length < p.qcap := by
    by_cases hlt : st.sys.queue.length < p.qcap
    · exact ⟨[], st, rfl, rfl, hp, g, hlt⟩
    · have hne : st.sys.queue ≠ [] := by
        intro h; rw [h] at hlt; simp at hlt; omega
      obtain ⟨q0, qt, hqe⟩ := List.exists_cons_of_ne_nil hne
      obtain ⟨st0, h0, hq0, hp0, g0, _, _⟩ := recv_one p o v st q0 qt g hqe
      refine ⟨[.loopRecv], st0, rfl, by simp [VaxisModel.Model.Startup.run, h0], by rw [hp0, hp], g0, ?_⟩
      have := g.ql; rw [hqe] at this; rw [hq0]; simp at this; omega
  obtain ⟨ls0, st0, hi0, hr0, hp0, g0, hlt0⟩ := room
  suffices h : ∃ l st', (∀ s, l ≠ .input s) ∧ VaxisModel.Model.Startup.next p o st0 l = some (.ok st') ∧ st'.sys.pend = rest ∧ Good p v st' by
    obtain ⟨l, st', hl, hn', hp', g'⟩ := h
    refine ⟨ls0 ++ [l], st', ?_, ?_, hp', g'⟩
    · rw [inputsOf_append, hi0]; cases l <;> simp [inputsOf] at hl ⊢
    · rw [srun_append p o ls0 [l] st st0 hr0]; simp [VaxisModel.Model.Startup.run, hn']
  have mk : ∀ sys', stepEffect p st0.sys e rest = some sys' → sys'.pend = rest → sys'.dropped = st0.sys.dropped →
      sys'.queue.length ≤ p.qcap → (∀ x ∈ sys'.queue, isDA x = false) →
      ∃ l st', (∀ s, l ≠ .input s) ∧ VaxisModel.Model.Startup.next p o st0 l = some (.ok st') ∧ st'.sys.pend = rest ∧ Good p v st' := by
    intro sys' hs hpe hdr hql hnd
    refine ⟨.step, { st0 with sys := sys' }, ?_, ?_, hpe, ⟨g0.ph, g0.to, by rw [hdr]; exact g0.dr, hql, hnd, g0.pg⟩⟩
    · intro s h; cases h
    · simp [VaxisModel.Model.Startup.next, liftSys, VaxisModel.Model.InputLoop.next, hp0, hs]
  cases e with
  | postB ev =>
    apply mk { st0.sys with pend := rest, queue := st0.sys.queue ++ [ev] }
    · simp [stepEffect, hlt0]
    · rfl
    · rfl
    · simp; omega
    · intro x hx; simp at hx; rcases hx with hx | hx
      · exact g0.nd x hx
      · subst hx; exact hn
  | postNB ev =>
    apply mk { st0.sys with pend := rest, queue := st0.sys.queue ++ [ev] }
    · simp [stepEffect, hlt0]
    · rfl
    · rfl
    · simp; omega
    · intro x hx; simp at hx; rcases hx with hx | hx
      · exact g0.nd x hx
      · subst hx; exact hn
  | sendCursorPos r c =>
    by_cases hcap : p.cursorCap = 0
    · by_cases hw : st0.sys.cursorWaiting = true
      · apply mk { st0.sys with pend := rest, cursorWaiting := false, cursorGot := st0.sys.cursorGot ++ [(r, c)] }
        · simp [stepEffect, hw, hcap]
        all_goals first | rfl | exact g0.ql | exact g0.nd
      · apply mk { st0.sys with pend := rest }
        · cases hk' : p.kinds.cursorPos <;> simp [stepEffect, hw, hcap, hk'] <;> exact absurd hk' hcp
        all_goals first | rfl | exact g0.ql | exact g0.nd
    · obtain ⟨b, hb⟩ := send1_some p.kinds.cursorPos hcp st0.sys.cursorCh.length
      cases b with
      | true =>
        apply mk { st0.sys with pend := rest, cursorCh := st0.sys.cursorCh ++ [(r, c)] }
        · simp [stepEffect, hb, hcap]
        all_goals first | rfl | exact g0.ql | exact g0.nd
      | false =>
        apply mk { st0.sys with pend := rest }
        · simp [stepEffect, hb, hcap]
        all_goals first | rfl | exact g0.ql | exact g0.nd
  | sendSizeDone =>
    obtain ⟨b, hb⟩ := send1_some p.kinds.sizeDone hsd st0.sys.sizeDone
    cases b with
    | true =>
      apply mk { st0.sys with pend := rest, sizeDone := st0.sys.sizeDone + 1 }
      · simp [stepEffect, hb]
      all_goals first | rfl | exact g0.ql | exact g0.nd
    | false =>
      apply mk { st0.sys with pend := rest }
      · simp [stepEffect, hb]
      all_goals first | rfl | exact g0.ql | exact g0.nd
  | sendColor v =>
    obtain ⟨b, hb⟩ := send1_some p.kinds.color hco st0.sys.color.length
    cases b with
    | true =>
      apply mk { st0.sys with pend := rest, color := st0.sys.color ++ [v] }
      · simp [stepEffect, hb]
      all_goals first | rfl | exact g0.ql | exact g0.nd
    | false =>
      apply mk { st0.sys with pend := rest }
      · simp [stepEffect, hb]
      all_goals first | rfl | exact g0.ql | exact g0.nd
  | sendFg v =>
    obtain ⟨b, hb⟩ := send1_some p.kinds.fg hfg st0.sys.fg.length
    cases b with
    | true =>
      apply mk { st0.sys with pend := rest, fg := st0.sys.fg ++ [v] }
      · simp [stepEffect, hb]
      all_goals first | rfl | exact g0.ql | exact g0.nd
    | false =>
      apply mk { st0.sys with pend := rest }
      · simp [stepEffect, hb]
      all_goals first | rfl | exact g0.ql | exact g0.nd
  | sendBg v =>
    obtain ⟨b, hb⟩ := send1_some p.kinds.bg hbg st0.sys.bg.length
    cases b with
    | true =>
      apply mk { st0.sys with pend := rest, bg := st0.sys.bg ++ [v] }
      · simp [stepEffect, hb]
      all_goals first | rfl | exact g0.ql | exact g0.nd
    | false =>
      apply mk { st0.sys with pend := rest }
      · simp [stepEffect, hb]
      all_goals first | rfl | exact g0.ql | exact g0.nd
  | sendClipboard v =>
    by_cases hw : st0.sys.clipWaiting = true
    · apply mk { st0.sys with pend := rest, clipWaiting := false, clipGot := st0.sys.clipGot ++ [v] }
      · simp [stepEffect, hw]
      all_goals first | rfl | exact g0.ql | exact g0.nd
    · refine ⟨.clipTimeout, { st0 with sys := { st0.sys with pend := rest } }, ?_, ?_, rfl,
        ⟨g0.ph, g0.to, g0.dr, g0.ql, g0.nd, g0.pg⟩⟩
      · intro s h; cases h
      · simp [VaxisModel.Model.Startup.next, liftSys, VaxisModel.Model.InputLoop.next, hp0, hcl]

/-- All pending effects up to a given tail are performed. -/
theorem settle_to (p : Params) (o : Opts) (v : Option (Int × Int)) (hq : 0 < p.qcap) (hk : Kinds.safe p.kinds) (tail : List Effect) :
    ∀ (pre : List Effect) (st : St), Good p v st → st.sys.pend = pre ++ tail → (∀ e ∈ pre, NoDAeff e) →
      ∃ ls st', inputsOf ls = [] ∧ VaxisModel.Model.Startup.run p o st ls = some st' ∧ st'.sys.pend = tail ∧ Good p v st' := by
  intro pre
  induction pre with
  | nil => intro st g hp _; exact ⟨[], st, rfl, rfl, by simpa using hp, g⟩
  | cons e pre ih =>
    intro st g hp hn
    obtain ⟨ls1, st1, hi1, hr1, hp1, g1⟩ := eff_one p o v hq hk st e (pre ++ tail) g (by simpa using hp) (hn e (by simp))
    obtain ⟨ls2, st2, hi2, hr2, hp2, g2⟩ := ih st1 g1 hp1 (fun x hx => hn x (by simp [hx]))
    exact ⟨ls1 ++ ls2, st2, by rw [inputsOf_append, hi1, hi2]; rfl, by rw [srun_append p o ls1 ls2 st st1 hr1, hr2], hp2, g2⟩

theorem mem_posted_of_b (effs : List Effect) (ev : Event) (h : Effect.postB ev ∈ effs) : ev ∈ posted effs := by
  induction effs with
  | nil => simp at h
  | cons a t ih =>
    rcases List.mem_cons.mp h with h1 | h1
    · subst h1; simp [posted]
    · have := ih h1
      cases a <;> simp [posted, this]

/-- A sequence that is not a DA1 reply posts no DA1 notification. -/
theorem noDA_effs (b64 : List Nat → Option (List Nat)) (vs vs' : VState) (s : Seq) (effs : List Effect)
    (hh : handle b64 vs s = .ok (vs', effs)) (hs : isDA1 s = false) : ∀ e ∈ effs, NoDAeff e := by
  have key : ∀ ev, ev ∈ posted effs → isDA ev = false := by
    intro ev hev
    cases hda : isDA ev
    · rfl
    · exfalso
      simp only [isDA, beq_iff_eq] at hda
      subst hda
      have h1 : DA ∈ (posted effs).filter isNotice :=
        List.mem_filter.mpr ⟨hev, by simp [isNotice, DA, note, Event.userVisible]⟩
      rw [(handle_notices b64 vs s vs' effs hh).1] at h1
      have h2 : isDA1 s = true := by
        simp only [isDA1, List.contains_eq_mem, decide_eq_true_eq]; exact (List.mem_filter.mp h1).1
      rw [hs] at h2; cases h2
  intro e he
  cases e with
  | postB ev => exact key ev (mem_posted_of_b effs ev he)
  | postNB ev => exact key ev (mem_posted_of_nb effs ev he)
  | _ => trivial

/-- The goroutine, idle, accepts a well-formed sequence. -/
theorem input_ok (p : Params) (o : Opts) (v : Option (Int × Int)) (st : St) (s : Seq) (g : Good p v st) (hp : st.sys.pend = []) (hw : WfSeq s) :
    ∃ st' vs' effs, handle p.b64 st.sys.vs s = .ok (vs', effs) ∧ VaxisModel.Model.Startup.next p o st (.input s) = some (.ok st') ∧
      st'.sys.pend = effs ∧ Good p v st' := by
  obtain ⟨⟨vs', effs⟩, hh⟩ := (VaxisModel.Lemmas.Input.ok_iff _).mpr (VaxisModel.Lemmas.Input.handle_ok p.b64 st.sys.vs s hw)
  refine ⟨{ st with sys := { st.sys with vs := vs', pend := effs }, ins := st.ins ++ [s] }, vs', effs, hh, ?_, rfl,
    ⟨g.ph, g.to, g.dr, g.ql, g.nd, g.pg⟩⟩
  simp [VaxisModel.Model.Startup.next, VaxisModel.Model.InputLoop.next, hp, hh]

/-- A list of well-formed sequences without a DA1 reply is handled completely. -/
theorem feed_all (p : Params) (o : Opts) (v : Option (Int × Int)) (hq : 0 < p.qcap) (hk : Kinds.safe p.kinds) :
    ∀ (A : List Seq) (st : St), Good p v st → st.sys.pend = [] → (∀ s ∈ A, WfSeq s) → (∀ s ∈ A, isDA1 s = false) →
      ∃ ls st', inputsOf ls = A ∧ VaxisModel.Model.Startup.run p o st ls = some st' ∧ st'.sys.pend = [] ∧ Good p v st' := by
  intro A
  induction A with
  | nil => intro st g hp _ _; exact ⟨[], st, rfl, rfl, hp, g⟩
  | cons s A ih =>
    intro st g hp hw hd
    obtain ⟨st1, vs', effs, hh, hn1, hp1, g1⟩ := input_ok p o v st s g hp (hw s (by simp))
    have hno := noDA_effs p.b64 st.sys.vs vs' s effs hh (hd s (by simp))
    obtain ⟨ls2, st2, hi2, hr2, hp2, g2⟩ := settle_to p o v hq hk [] effs st1 g1 (by simpa using hp1) hno
    obtain ⟨ls3, st3, hi3, hr3, hp3, g3⟩ := ih st2 g2 hp2 (fun x hx => hw x (by simp [hx])) (fun x hx => hd x (by simp [hx]))
    refine ⟨.input s :: (ls2 ++ ls3), st3, ?_, ?_, hp3, g3⟩
    · simp [inputsOf, inputsOf_append, hi2, hi3]
    · simp only [VaxisModel.Model.Startup.run, hn1]
      exact (srun_append p o ls2 ls3 st1 st2 hr2).trans hr3

/-- The loop of `New` empties a queue of other events and then receives the DA1 notification. -/
theorem drain_to_DA (p : Params) (o : Opts) :
    ∀ (q : List Event) (st : St), st.phase = .loop → st.timedOut = false → st.sys.dropped = 0 →
      st.sys.queue = q ++ [DA] → (∀ e ∈ q, isDA e = false) →
      ∃ ls st', inputsOf ls = [] ∧ VaxisModel.Model.Startup.run p o st ls = some st' ∧ st'.phase = .done ∧ st'.timedOut = false ∧ st'.sys.dropped = 0 ∧
        st'.probeGot = st.probeGot := by
  intro q
  induction q with
  | nil =>
    intro st hph hto hdr hq _
    refine ⟨[.loopRecv], { st with sys := { st.sys with queue := [] }, phase := .done }, rfl, ?_, rfl, hto, hdr, rfl⟩
    have hq' : st.sys.queue = [DA] := by simpa using hq
    simp [VaxisModel.Model.Startup.run, VaxisModel.Model.Startup.next, hph, hq', collectEv, DA, note]
  | cons e q ih =>
    intro st hph hto hdr hq hnd
    obtain ⟨⟨c, tid, aid⟩, hc⟩ := collectEv_some o st.sys.vs.caps st.termID st.appIDLast e (hnd e (by simp))
    have hq' : st.sys.queue = e :: (q ++ [DA]) := by simpa using hq
    obtain ⟨ls, st', hi, hr, h1, h2, h3, h4⟩ := ih { st with sys := setCaps { st.sys with queue := q ++ [DA] } c, termID := tid, appIDLast := aid }
      hph hto hdr rfl (fun x hx => hnd x (by simp [hx]))
    refine ⟨.loopRecv :: ls, st', by simp [inputsOf, hi], ?_, h1, h2, h3, h4⟩
    simp only [VaxisModel.Model.Startup.run, VaxisModel.Model.Startup.run]
    have : VaxisModel.Model.Startup.next p o st .loopRecv
        = some (.ok { st with sys := setCaps { st.sys with queue := q ++ [DA] } c, termID := tid, appIDLast := aid }) := by
      simp [VaxisModel.Model.Startup.next, hph, hq', hc]
    rw [this]; exact hr

/-- From any state in which `New` is in its loop and the goroutine idle, a list of sequences
ending with the first DA1 reply is handled completely and `New` gets past `applyQuirks`. -/
theorem completes_from (p : Params) (o : Opts) (v : Option (Int × Int)) (hq : 0 < p.qcap) (hk : Kinds.safe p.kinds)
    (st0 : St) (g0 : Good p v st0) (hp0 : st0.sys.pend = [])
    (A : List Seq) (d : Seq) (hw : ∀ s ∈ A ++ [d], WfSeq s) (hA : ∀ s ∈ A, isDA1 s = false) (hd : isDA1 d = true) :
    ∃ ls st, inputsOf ls = A ++ [d] ∧ VaxisModel.Model.Startup.run p o st0 ls = some st ∧
      st.phase = .ready ∧ st.timedOut = false ∧ st.sys.dropped = 0 ∧ st.probeGot = v := by
  obtain ⟨ls1, st1, hi1, hr1, hp1, g1⟩ := feed_all p o v hq hk A st0 g0 hp0 (fun s hs => hw s (by simp [hs])) hA
  -- the DA1 reply
  obtain ⟨st2, vs', effs, hh, hn2, hp2, g2⟩ := input_ok p o v st1 d g1 hp1 (hw d (by simp))
  obtain ⟨ps, rfl⟩ := isDA1_shape d hd
  obtain ⟨n, hn⟩ := da1_effs p.b64 st1.sys.vs vs' ps effs hh
  have hsix : ∀ e ∈ List.replicate n (Effect.postB (note .capabilitySixel)), NoDAeff e := by
    intro e he; rw [List.mem_replicate] at he; rw [he.2]; rfl
  obtain ⟨ls3, st3, hi3, hr3, hp3, g3⟩ := settle_to p o v hq hk [.postB DA] _ st2 g2 (by rw [hp2, hn]) hsix
  -- post the DA1 notification (the loop receiving once first if the queue is full), then drain
  have post : ∃ ls4 st4, inputsOf ls4 = [] ∧ VaxisModel.Model.Startup.run p o st3 ls4 = some st4 ∧ st4.phase = .loop ∧ st4.timedOut = false ∧
      st4.sys.dropped = 0 ∧ st4.probeGot = v ∧ ∃ q, st4.sys.queue = q ++ [DA] ∧ ∀ e ∈ q, isDA e = false := by
    have room : ∃ ls0 st0', inputsOf ls0 = [] ∧ VaxisModel.Model.Startup.run p o st3 ls0 = some st0' ∧ st0'.sys.pend = [.postB DA] ∧ Good p v st0' ∧
        st0'.sys.queue.length < p.qcap := by
      by_cases hlt : st3.sys.queue.length < p.qcap
      · exact ⟨[], st3, rfl, rfl, hp3, g3, hlt⟩
      · have hne : st3.sys.queue ≠ [] := by
          intro h; rw [h] at hlt; simp at hlt; omega
        obtain ⟨q0, qt, hqe⟩ := List.exists_cons_of_ne_nil hne
        obtain ⟨st0', h0', hq0, hp0', g0', _, _⟩ := recv_one p o v st3 q0 qt g3 hqe
        refine ⟨[.loopRecv], st0', rfl, by simp [VaxisModel.Model.Startup.run, h0'], by rw [hp0', hp3], g0', ?_⟩
        have := g3.ql; rw [hqe] at this; rw [hq0]; simp at this; omega
    obtain ⟨ls0, st0', hi0, hr0, hp0', g0', hlt0⟩ := room
    refine ⟨ls0 ++ [.step], { st0' with sys := { st0'.sys with pend := [], queue := st0'.sys.queue ++ [DA] } }, ?_, ?_, g0'.ph, g0'.to, g0'.dr, g0'.pg,
      st0'.sys.queue, rfl, g0'.nd⟩
    · rw [inputsOf_append, hi0]; rfl
    · rw [srun_append p o ls0 [.step] st3 st0' hr0]
      simp [VaxisModel.Model.Startup.run, VaxisModel.Model.Startup.next, liftSys, VaxisModel.Model.InputLoop.next, hp0', stepEffect, hlt0]
  obtain ⟨ls4, st4, hi4, hr4, hph4, hto4, hdr4, hpg4, q, hq4, hnd4⟩ := post
  obtain ⟨ls5, st5, hi5, hr5, hph5, hto5, hdr5, hpg5⟩ := drain_to_DA p o q st4 hph4 hto4 hdr4 hq4 hnd4
  refine ⟨ls1 ++ (.input (.csi [63] ps 99) :: (ls3 ++ (ls4 ++ (ls5 ++ [.quirks])))),
    { st5 with sys := setCaps st5.sys (applyQuirks o st5.termID st5.sys.vs.caps), phase := .ready }, ?_, ?_, rfl, hto5, hdr5,
    by rw [← hpg4]; exact hpg5⟩
  · simp [inputsOf, inputsOf_append, hi1, hi3, hi4, hi5]
  · rw [srun_append p o ls1 _ st0 st1 hr1]
    simp only [VaxisModel.Model.Startup.run, hn2]
    rw [srun_append p o ls3 _ st2 st3 hr3, srun_append p o ls4 _ st3 st4 hr4, srun_append p o ls5 _ st4 st5 hr5]
    simp [VaxisModel.Model.Startup.run, VaxisModel.Model.Startup.next, hph5]

/-- **The start-up can always complete** (the probe times out). -/
theorem startup_completes (p : Params) (o : Opts) (hq : 0 < p.qcap) (hk : Kinds.safe p.kinds)
    (A : List Seq) (d : Seq) (hw : ∀ s ∈ A ++ [d], WfSeq s) (hA : ∀ s ∈ A, isDA1 s = false) (hd : isDA1 d = true) :
    ∃ ls st, inputsOf ls = A ++ [d] ∧ VaxisModel.Model.Startup.run p o (St.init o) ls = some st ∧
      st.phase = .ready ∧ st.timedOut = false ∧ st.sys.dropped = 0 ∧ st.probeGot = none := by
  let st0 : St := { St.init o with sys := { (St.init o).sys with vs := { (St.init o).sys.vs with reqCursorPos := false }, cursorWaiting := false },
                                   phase := .loop }
  have h0 : VaxisModel.Model.Startup.next p o (St.init o) .probeTimeout = some (.ok st0) := by
    simp [VaxisModel.Model.Startup.next, St.init, st0]
  have g0 : Good p none st0 := by
    refine ⟨rfl, rfl, rfl, ?_, ?_, rfl⟩
    · simp only [st0, St.init]; split <;> simp <;> omega
    · intro e he; simp only [st0, St.init] at he; split at he <;> simp at he; subst he; rfl
  obtain ⟨ls, st, hi, hr, h⟩ := completes_from p o none hq hk st0 g0 rfl A d hw hA hd
  exact ⟨.probeTimeout :: ls, st, by simp [inputsOf, hi], by simp only [VaxisModel.Model.Startup.run, h0]; exact hr, h⟩

/-- **… and with the probe answered**: the cursor-position report `CSI r;c R` arrives first, is
handed to the `CursorPosition()` of the probe, and the start-up completes as above. -/
theorem startup_completes_answered (p : Params) (o : Opts) (hq : 0 < p.qcap) (hk : Kinds.safe p.kinds)
    (hcap : p.cursorCap = 1) (hnb : p.kinds.cursorPos = .nonblocking) (r c : Int)
    (A : List Seq) (d : Seq) (hw : ∀ s ∈ A ++ [d], WfSeq s) (hA : ∀ s ∈ A, isDA1 s = false) (hd : isDA1 d = true) :
    ∃ ls st, inputsOf ls = .csi [] [[r], [c]] 82 :: (A ++ [d]) ∧ VaxisModel.Model.Startup.run p o (St.init o) ls = some st ∧
      st.phase = .ready ∧ st.timedOut = false ∧ st.sys.dropped = 0 ∧ st.probeGot = some (r, c) := by
  let caps0 : Caps := if wrap64 (c - 1) == 1 then { ({} : Caps) with explicitWidth := true } else {}
  let st0 : St :=
    { sys := { vs := { reqCursorPos := false, caps := caps0 }, cursorWaiting := false,
               queue := if o.colorterm then [.internal .truecolor] else [] },
      phase := .loop, probeGot := some (r, c), ins := [.csi [] [[r], [c]] 82] }
  have h0 : VaxisModel.Model.Startup.run p o (St.init o) [.input (.csi [] [[r], [c]] 82), .step, .probeRecv] = some st0 := by
    simp [VaxisModel.Model.Startup.run, VaxisModel.Model.Startup.next, VaxisModel.Model.InputLoop.next, St.init, liftSys,
      handle, handleCSI, ch, idx2, idx, bind, Except.bind, pure, Except.pure, stepEffect, hcap, hnb, send1, setCaps, st0, caps0]
  have g0 : Good p (some (r, c)) st0 := by
    refine ⟨rfl, rfl, rfl, ?_, ?_, rfl⟩
    · simp only [st0]; split <;> simp <;> omega
    · intro e he; simp only [st0] at he; split at he <;> simp at he; subst he; rfl
  obtain ⟨ls, st, hi, hr, h⟩ := completes_from p o (some (r, c)) hq hk st0 g0 rfl A d hw hA hd
  refine ⟨[.input (.csi [] [[r], [c]] 82), .step, .probeRecv] ++ ls, st, by simp [inputsOf, inputsOf_append, hi], ?_, h⟩
  rw [srun_append p o _ ls (St.init o) st0 h0]; exact hr

/-- The split of an input list at its first DA1 reply is unique. -/
theorem split_unique : ∀ (A A' B : List Seq) (d d' : Seq), A ++ [d] = A' ++ d' :: B →
    (∀ s ∈ A, isDA1 s = false) → isDA1 d = true → (∀ s ∈ A', isDA1 s = false) → isDA1 d' = true →
    A' = A ∧ d' = d ∧ B = []
  | [], [], B, d, d', h, _, _, _, _ => by simp at h; exact ⟨rfl, h.1.symm, h.2⟩
  | [], a' :: A', B, d, d', h, _, hd, hA', _ => by
      simp at h
  | a :: A, [], B, d, d', h, hA, _, _, hd' => by
      simp at h; have := hA a (by simp); rw [h.1, hd'] at this; cases this
  | a :: A, a' :: A', B, d, d', h, hA, hd, hA', hd' => by
      simp at h
      obtain ⟨e1, e2, e3⟩ := split_unique A A' B d d' h.2 (fun s hs => hA s (by simp [hs])) hd (fun s hs => hA' s (by simp [hs])) hd'
      exact ⟨by rw [h.1, e1], e2, e3⟩

end VaxisModel.Lemmas.StartupLive
