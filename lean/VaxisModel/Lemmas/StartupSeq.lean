import VaxisModel.Lemmas.InputEvents
import VaxisModel.Model.Startup

/-! Per-sequence exactness: the capability notifications `handleSequence` posts for a sequence are
exactly those the reply stands for (`Spec.Startup.notices`), minus the ones it suppresses because
the capability is already known; `handleSequence` never writes `vx.caps`. -/
namespace VaxisModel.Lemmas.StartupSeq
open VaxisModel.Model.Input VaxisModel.Lemmas.Input VaxisModel.Lemmas.InputEvents
open VaxisModel.Spec.Startup

/-- Unexported event types (capability notifications, terminal id, app id). -/
def isNotice (e : Event) : Bool := !e.userVisible

/-- Notifications `handleSequence` does not repeat once the capability is known. -/
def known (c : Caps) : Event → Bool
  | .internal .textAreaPix => c.reportSizePixels
  | .internal .textAreaChar => c.reportSizeChars
  | .internal .inBandResizeEvents => c.inBandResize
  | _ => false

def Exact (st : VState) (r : Res) (want : List Event) : Prop :=
  ∀ st' effs, r = .ok (st', effs) →
    (posted effs).filter isNotice = want.filter (fun e => !known st.caps e) ∧ st'.caps = st.caps

theorem isPrivate_eq (interm : List Nat) : isPrivate interm = (interm == [63]) := by
  rcases interm with _ | ⟨a, _ | ⟨b, r⟩⟩ <;> simp [isPrivate, ch]

theorem firsts_filter (ps : List (List Int)) (fs : List Int) (h : ps.mapM (fun p => idx p 0) = .ok fs) :
    (fs.filter (· == 4)).length = (ps.filter fun p => p.head? == some 4).length := by
  induction ps generalizing fs with
  | nil => simp [pure, Except.pure] at h; subst h; rfl
  | cons a t ih =>
    simp only [List.mapM_cons] at h
    cases ht : t.mapM (fun p => idx p 0) with
    | error e =>
      rw [ht] at h
      rcases a with _ | ⟨a0, as⟩ <;> simp [idx, bind, Except.bind] at h
    | ok l =>
      rw [ht] at h
      rcases a with _ | ⟨a0, as⟩
      · simp [idx, bind, Except.bind] at h
      · simp [idx, bind, Except.bind, pure, Except.pure] at h
        subst h
        have := ih l ht
        by_cases h4 : a0 = 4 <;> simp [List.filter_cons, h4, this]

theorem exact_key (st : VState) (s : Seq) : Exact st (keyArm st s) [] := by
  intro st' effs h
  simp [keyArm] at h
  obtain ⟨rfl, rfl⟩ := h
  simp [posted, isNotice, Event.userVisible]

theorem exact_nil (st : VState) : Exact st (.ok (st, [])) [] := by
  intro st' effs h
  simp at h
  obtain ⟨rfl, rfl⟩ := h
  simp [posted]

theorem posted_append (a b : List Effect) : posted (a ++ b) = posted a ++ posted b := by
  induction a with
  | nil => rfl
  | cons x t ih => cases x <;> simp [posted, ih]

theorem posted_const (n : Nat) (e : Event) : posted (List.replicate n (Effect.postB e)) = List.replicate n e := by
  induction n with
  | zero => rfl
  | succ n ih => simp [posted, ih, List.replicate_succ]

theorem spec_c (interm : List Nat) (ps : List (List Int)) : noticesCSI interm ps 99 =
    if interm == [63] then (ps.filter fun p => p.head? == some 4).map (fun _ => note .capabilitySixel) ++ [note .primaryDeviceAttribute] else [] := by
  simp [noticesCSI]

theorem csi_c (st : VState) (interm : List Nat) (params : List (List Int)) :
    Exact st (handleCSI st interm params 99) (noticesCSI interm params 99) := by
  intro st' effs h
  unfold handleCSI at h
  rw [spec_c]
  rw [isPrivate_eq] at h
  by_cases hp : interm = [63]
  · subst hp
    cases hm : params.mapM (fun ps => idx ps 0) with
    | error e => simp [ch, hm, bind, Except.bind] at h
    | ok fs =>
      simp [ch, hm, bind, Except.bind, pure, Except.pure] at h
      obtain ⟨rfl, rfl⟩ := h
      have hl := firsts_filter params fs hm
      simp only [posted_append, posted, List.filter_append, List.map_const', hl, note]
      simp [posted_const, isNotice, Event.userVisible, known]
  · have := exact_key st (Seq.csi interm params 99) st' effs (by simpa [hp, ch] using h)
    simpa [hp] using this

theorem dv0 : decrpmVals 0 = [1, 2] := by decide +kernel
theorem dv1 : decrpmVals 1 = [1, 2, 3] := by decide +kernel
theorem dv2 : decrpmVals 2 = [1, 2] := by decide +kernel

theorem len2 (n : Nat) : (n + 1 + 1 < 2) = False := eq_false (by omega)
theorem len3 (n : Nat) : (n + 1 + 1 + 1 < 3) = False := eq_false (by omega)
theorem len3' (n : Nat) : (3 ≤ n + 1 + 1 + 1) = True := eq_true (by omega)

macro "arm_simp" : tactic => `(tactic|
  simp [handleCSI, noticesCSI, isPrivate_eq, ch, idx2, idx, keyArm, post, decrpmArm, bind, Except.bind, pure, Except.pure, par, note,
    posted, isNotice, Event.userVisible, known, decrpmKnown, dv0, dv1, dv2, len2, len3, len3', VaxisModel.Gen.Caps.colorThemeResp] at *)

macro "arm_all" : tactic => `(tactic|
  simp_all [handleCSI, noticesCSI, isPrivate_eq, ch, idx2, idx, keyArm, post, decrpmArm, bind, Except.bind, pure, Except.pure, par, note,
    posted, isNotice, Event.userVisible, known, decrpmKnown, dv0, dv1, dv2, len2, len3, len3', VaxisModel.Gen.Caps.colorThemeResp])

set_option hygiene false in
macro "fin" : tactic => `(tactic|
  first
    | (exfalso; omega)
    | (arm_all; done)
    | (arm_all; obtain ⟨rfl, rfl⟩ := h; simp [posted, isNotice, Event.userVisible, known]; done))

theorem csi_y (st : VState) (interm : List Nat) (params : List (List Int)) :
    Exact st (handleCSI st interm params 121) (noticesCSI interm params 121) := by
  intro st' effs h
  rcases params with _ | ⟨a, _ | ⟨b, rest⟩⟩
  · arm_simp; obtain ⟨rfl, rfl⟩ := h; simp [posted]
  · rcases a with _ | ⟨a0, as⟩
    · arm_simp
    · arm_simp; obtain ⟨rfl, rfl⟩ := h; simp [posted]
  · rcases a with _ | ⟨a0, as⟩ <;> rcases b with _ | ⟨b0, bs⟩
    · arm_simp
    · arm_simp
    · by_cases h1 : a0 = 2026 <;> by_cases h2 : a0 = 2027 <;> by_cases h3 : a0 = 2031 <;> fin
    · by_cases h1 : a0 = 2026 <;> by_cases h2 : a0 = 2027 <;> by_cases h3 : a0 = 2031 <;>
      by_cases v1 : b0 = 1 <;> by_cases v2 : b0 = 2 <;> by_cases v3 : b0 = 3 <;> fin

theorem csi_u (st : VState) (interm : List Nat) (params : List (List Int)) :
    Exact st (handleCSI st interm params 117) (noticesCSI interm params 117) := by
  intro st' effs h
  by_cases hp : interm = [63] <;> fin

theorem csi_S (st : VState) (interm : List Nat) (params : List (List Int)) :
    Exact st (handleCSI st interm params 83) (noticesCSI interm params 83) := by
  intro st' effs h
  by_cases hp : interm = [63]
  · rcases params with _ | ⟨a, _ | ⟨b, _ | ⟨c, rest⟩⟩⟩
    · fin
    · fin
    · fin
    · rcases a with _ | ⟨a0, as⟩ <;> rcases b with _ | ⟨b0, bs⟩
      · fin
      · fin
      · by_cases h2 : a0 = 2 <;> fin
      · by_cases h2 : a0 = 2 <;> by_cases h0 : b0 = 0 <;> fin
  · fin

theorem csi_t (st : VState) (interm : List Nat) (params : List (List Int)) :
    Exact st (handleCSI st interm params 116) (noticesCSI interm params 116) := by
  intro st' effs h
  rcases params with _ | ⟨a, _ | ⟨b, _ | ⟨c, rest⟩⟩⟩
  · fin
  · fin
  · fin
  · rcases a with _ | ⟨a0, as⟩ <;> rcases b with _ | ⟨b0, bs⟩ <;> rcases c with _ | ⟨c0, cs⟩
    all_goals try (arm_simp; done)
    by_cases h4 : a0 = 4 <;> by_cases h8 : a0 = 8 <;> by_cases h48 : a0 = 48
    all_goals try (exfalso; omega)
    · cases hk : st.caps.reportSizePixels <;> fin
    · cases hk : st.caps.reportSizeChars <;> fin
    · rcases rest with _ | ⟨d, _ | ⟨e, _ | ⟨f, r⟩⟩⟩
      · fin
      · fin
      · rcases d with _ | ⟨d0, ds⟩ <;> rcases e with _ | ⟨e0, es⟩ <;> cases hk : st.caps.inBandResize <;> fin
      · fin
    · fin

theorem spec_other (interm : List Nat) (ps : List (List Int)) (f : Nat)
    (h : f ≠ 99 ∧ f ≠ 83 ∧ f ≠ 121 ∧ f ≠ 117 ∧ f ≠ 116) : noticesCSI interm ps f = [] := by
  simp [noticesCSI, h]

/-- An outcome without notifications: only application-visible events, caps untouched. -/
def Quiet (st : VState) (r : Res) : Prop :=
  ∀ st' effs, r = .ok (st', effs) → (posted effs).filter isNotice = [] ∧ st'.caps = st.caps

theorem quiet_exact {st : VState} {r : Res} (h : Quiet st r) : Exact st r [] := by
  intro st' effs hr
  simpa using h st' effs hr

theorem quiet_key (st : VState) (s : Seq) : Quiet st (keyArm st s) := by
  intro st' effs h
  simpa using exact_key st s st' effs h

theorem quiet_R (st : VState) (interm : List Nat) (params : List (List Int)) : Quiet st (handleCSI st interm params 82) := by
  intro st' effs h
  cases hq : st.reqCursorPos
  · simp [handleCSI, ch, hq, keyArm] at h
    obtain ⟨rfl, rfl⟩ := h
    simp [posted, isNotice, Event.userVisible]
  · rcases params with _ | ⟨a, _ | ⟨b, _ | ⟨c, rest⟩⟩⟩
    · simp [handleCSI, ch, hq] at h; obtain ⟨rfl, rfl⟩ := h; simp [posted]
    · simp [handleCSI, ch, hq] at h; obtain ⟨rfl, rfl⟩ := h; simp [posted]
    · rcases a with _ | ⟨a0, as⟩ <;> rcases b with _ | ⟨b0, bs⟩ <;>
        simp [handleCSI, ch, hq, idx2, idx, bind, Except.bind, pure, Except.pure] at h
      obtain ⟨rfl, rfl⟩ := h; simp [posted]
    · simp [handleCSI, ch, hq] at h; obtain ⟨rfl, rfl⟩ := h; simp [posted]

theorem quiet_n (st : VState) (interm : List Nat) (params : List (List Int)) : Quiet st (handleCSI st interm params 110) := by
  intro st' effs h
  by_cases hp : interm = [63]
  · rcases params with _ | ⟨a, _ | ⟨b, _ | ⟨c, rest⟩⟩⟩
    · simp [handleCSI, ch, isPrivate_eq, hp, keyArm] at h; obtain ⟨rfl, rfl⟩ := h; simp [posted, isNotice, Event.userVisible]
    · simp [handleCSI, ch, isPrivate_eq, hp, keyArm] at h; obtain ⟨rfl, rfl⟩ := h; simp [posted, isNotice, Event.userVisible]
    · rcases a with _ | ⟨a0, as⟩ <;> rcases b with _ | ⟨b0, bs⟩ <;>
        simp [handleCSI, ch, isPrivate_eq, hp, idx2, idx, bind, Except.bind, pure, Except.pure, VaxisModel.Gen.Caps.colorThemeResp] at h
      · split at h <;> simp at h
        obtain ⟨rfl, rfl⟩ := h; simp [posted]
      · split at h <;> simp at h <;> obtain ⟨rfl, rfl⟩ := h <;> simp [posted, isNotice, Event.userVisible]
    · simp [handleCSI, ch, isPrivate_eq, hp, keyArm] at h; obtain ⟨rfl, rfl⟩ := h; simp [posted, isNotice, Event.userVisible]
  · simp [handleCSI, ch, isPrivate_eq, hp, keyArm] at h; obtain ⟨rfl, rfl⟩ := h; simp [posted, isNotice, Event.userVisible]

theorem quiet_tilde (st : VState) (interm : List Nat) (params : List (List Int)) : Quiet st (handleCSI st interm params 126) := by
  intro st' effs h
  rcases interm with _ | ⟨i0, ir⟩
  · rcases params with _ | ⟨a, rest⟩
    · simp [handleCSI, ch] at h; obtain ⟨rfl, rfl⟩ := h; simp [posted]
    · rcases a with _ | ⟨a0, as⟩
      · simp [handleCSI, ch, idx2, idx, bind, Except.bind] at h
      · simp [handleCSI, ch, idx2, idx, bind, Except.bind, pure, Except.pure, keyArm] at h
        split at h
        · simp at h; obtain ⟨rfl, rfl⟩ := h; simp [posted, isNotice, Event.userVisible]
        · split at h <;> simp at h <;> obtain ⟨rfl, rfl⟩ := h <;> simp [posted, isNotice, Event.userVisible]
  · simp [handleCSI, ch, keyArm] at h; obtain ⟨rfl, rfl⟩ := h; simp [posted, isNotice, Event.userVisible]

theorem quiet_mouse (st : VState) (interm : List Nat) (params : List (List Int)) (f : Nat) (hf : f = 77 ∨ f = 109) :
    Quiet st (handleCSI st interm params f) := by
  intro st' effs h
  cases hm : parseMouse interm params f with
  | error e => rcases hf with rfl | rfl <;> simp [handleCSI, ch, hm, bind, Except.bind] at h
  | ok v =>
    cases v <;> rcases hf with rfl | rfl <;> simp [handleCSI, ch, hm, bind, Except.bind, pure, Except.pure] at h <;>
      obtain ⟨rfl, rfl⟩ := h <;> simp [posted, isNotice, Event.userVisible]

theorem csi_notices (st : VState) (interm : List Nat) (params : List (List Int)) (f : Nat) :
    Exact st (handleCSI st interm params f) (noticesCSI interm params f) := by
  by_cases h99 : f = 99
  · subst h99; exact csi_c st interm params
  by_cases h83 : f = 83
  · subst h83; exact csi_S st interm params
  by_cases h121 : f = 121
  · subst h121; exact csi_y st interm params
  by_cases h117 : f = 117
  · subst h117; exact csi_u st interm params
  by_cases h116 : f = 116
  · subst h116; exact csi_t st interm params
  rw [spec_other interm params f ⟨h99, h83, h121, h117, h116⟩]
  apply quiet_exact
  by_cases h73 : f = 73
  · subst h73; intro st' effs h; simp [handleCSI, ch] at h; obtain ⟨rfl, rfl⟩ := h; simp [posted, isNotice, Event.userVisible]
  by_cases h79 : f = 79
  · subst h79; intro st' effs h; simp [handleCSI, ch] at h; obtain ⟨rfl, rfl⟩ := h; simp [posted, isNotice, Event.userVisible]
  by_cases h82 : f = 82
  · subst h82; exact quiet_R st interm params
  by_cases h110 : f = 110
  · subst h110; exact quiet_n st interm params
  by_cases h126 : f = 126
  · subst h126; exact quiet_tilde st interm params
  by_cases hm : f = 77 ∨ f = 109
  · exact quiet_mouse st interm params f hm
  · have : handleCSI st interm params f = keyArm st (.csi interm params f) := by
      simp only [not_or] at hm
      simp [handleCSI, ch, h99, h83, h121, h117, h116, h73, h79, h82, h110, h126, hm.1, hm.2]
    rw [this]; exact quiet_key st _

/-! ### DCS, APC, OSC -/

theorem splitOn_head (sep : Nat) (l : List Nat) : ∃ t, splitOn sep l = l.takeWhile (· != sep) :: t := by
  induction l with
  | nil => exact ⟨[], rfl⟩
  | cons a as ih =>
    obtain ⟨t, ht⟩ := ih
    unfold splitOn
    rw [ht]
    by_cases h : a = sep
    · subst h; exact ⟨List.takeWhile (fun x => x != a) as :: t, by simp⟩
    · exact ⟨t, by simp [h]⟩

theorem hex_smulx : hexEncode (str "Smulx") = hexSmulx := by decide +kernel
theorem hex_rgb : hexEncode (str "RGB") = hexRGB := by decide +kernel
theorem hex_vte : hexEncode (str "~VTE") = hexVTE := by decide +kernel

theorem dcs_notices (st : VState) (fin : Nat) (interm : List Nat) (ps : List Int) (data : List Nat) :
    Exact st (handleDCS st fin interm ps data) (noticesDCS fin interm ps data) := by
  intro st' effs h
  obtain ⟨vt, hv⟩ := splitOn_head 61 data
  unfold handleDCS at h
  unfold noticesDCS
  by_cases hr : fin = 114
  · subst hr
    rcases interm with _ | ⟨i0, ir⟩
    · simp [ch] at h; obtain ⟨rfl, rfl⟩ := h; simp [posted]
    · by_cases hplus : i0 = 43
      · subst hplus
        rcases ps with _ | ⟨p0, pr⟩
        · simp [ch, idx, bind, Except.bind, pure, Except.pure] at h; obtain ⟨rfl, rfl⟩ := h; simp [posted]
        · by_cases hp0 : p0 = 0
          · subst hp0
            simp [ch, idx, bind, Except.bind, pure, Except.pure] at h; obtain ⟨rfl, rfl⟩ := h; simp [posted]
          · simp only [show ch '=' = 61 from rfl, hv, idx, hex_smulx, hex_rgb] at h
            by_cases h1 : List.takeWhile (fun x => x != 61) data = hexSmulx
            · simp [h1, hp0, post, bind, Except.bind, pure, Except.pure] at h ⊢
              obtain ⟨rfl, rfl⟩ := h; simp [posted, isNotice, Event.userVisible, known, note]
            · by_cases h2 : List.takeWhile (fun x => x != 61) data = hexRGB
              · have hne : ¬ hexRGB = hexSmulx := by decide +kernel
                simp [h1, h2, hp0, hne, post, bind, Except.bind, pure, Except.pure] at h ⊢
                obtain ⟨rfl, rfl⟩ := h; simp [posted, isNotice, Event.userVisible, known, note]
              · simp [h1, h2, hp0, post, bind, Except.bind, pure, Except.pure] at h ⊢
                obtain ⟨rfl, rfl⟩ := h; simp [posted]
      · by_cases hd : i0 = 36
        · subst hd
          simp [ch, idx, bind, Except.bind, pure, Except.pure] at h
          split at h
          · rcases data with _ | ⟨d0, dr⟩
            · simp [idx] at h
            · simp [idx] at h
              split at h <;> simp at h <;> obtain ⟨rfl, rfl⟩ := h <;> simp [posted]
          · simp at h; obtain ⟨rfl, rfl⟩ := h; simp [posted]
        · simp [ch, idx, bind, Except.bind, pure, Except.pure, hplus, hd] at h
          obtain ⟨rfl, rfl⟩ := h; simp [posted, hplus]
  · by_cases hb : fin = 124
    · subst hb
      rcases interm with _ | ⟨i0, ir⟩
      · simp [ch] at h; obtain ⟨rfl, rfl⟩ := h; simp [posted]
      · by_cases h33 : i0 = 33
        · subst h33
          by_cases hd : data = hexVTE
          · simp [ch, idx, bind, Except.bind, pure, Except.pure, hex_vte, hd, post] at h ⊢
            obtain ⟨rfl, rfl⟩ := h; simp [posted, isNotice, Event.userVisible, known, note]
          · simp [ch, idx, bind, Except.bind, pure, Except.pure, hex_vte, hd, post] at h ⊢
            obtain ⟨rfl, rfl⟩ := h; simp [posted]
        · by_cases h62 : i0 = 62
          · subst h62
            simp [ch, idx, bind, Except.bind, pure, Except.pure] at h ⊢
            obtain ⟨rfl, rfl⟩ := h; simp [posted, isNotice, Event.userVisible, known]
          · simp [ch, idx, bind, Except.bind, pure, Except.pure, h33, h62] at h ⊢
            obtain ⟨rfl, rfl⟩ := h; simp [posted]
    · simp [ch, hr, hb] at h ⊢
      obtain ⟨rfl, rfl⟩ := h; simp [posted]

theorem isPrefix_eq : ∀ (a b : List Nat), isPrefix a b = startsWith a b
  | [], b => by simp [isPrefix, startsWith]
  | a :: as, [] => by simp [isPrefix, startsWith]
  | a :: as, b :: bs => by
      have ih := isPrefix_eq as bs
      simp only [isPrefix, startsWith, List.length_cons, List.take_succ_cons] at ih ⊢
      rw [ih, BEq.comm (a := a)]
      rfl

theorem splitOn_eq (sep : Nat) (l : List Nat) :
    splitOn sep l = if sep ∈ l then l.takeWhile (· != sep) :: splitOn sep (l.dropWhile (· != sep)).tail else [l] := by
  induction l with
  | nil => simp [splitOn]
  | cons a as ih =>
    obtain ⟨hd, tl, hs⟩ := splitOn_ne_nil sep as
    by_cases h : a = sep
    · subst h
      simp [splitOn, hs]
    · have hne : ¬ sep = a := fun e => h e.symm
      rw [splitOn, hs]
      simp only [h, beq_iff_eq, if_false]
      rw [hs] at ih
      by_cases hc : sep ∈ as
      · simp only [hc, if_true] at ih
        obtain ⟨rfl, rfl⟩ := List.cons.inj ih
        simp [hne, hc, h]
      · simp only [hc, if_false] at ih
        obtain ⟨rfl, rfl⟩ := List.cons.inj ih
        simp [hne, hc]

theorem splitOn_len2 (sep : Nat) (l : List Nat) :
    ((splitOn sep l).length = 2 ↔ (sep ∈ l ∧ ¬ sep ∈ (l.dropWhile (· != sep)).tail)) ∧
    ((splitOn sep l).length = 2 → (splitOn sep l)[1]? = some (l.dropWhile (· != sep)).tail) := by
  rw [splitOn_eq sep l]
  by_cases hc : sep ∈ l
  · simp only [hc, if_true, List.length_cons]
    rw [splitOn_eq sep (l.dropWhile (· != sep)).tail]
    by_cases hr : sep ∈ (l.dropWhile (· != sep)).tail
    · obtain ⟨hd, tl, hs⟩ := splitOn_ne_nil sep (List.dropWhile (fun x => x != sep) (List.dropWhile (fun x => x != sep) l).tail).tail
      simp [hr, hs]
    · simp [hr]
  · simp [hc]

theorem str_eq_ascii (s : String) : str s = ascii s := rfl

theorem acc_posted (p4 p10 p11 c4 c10 c11 : Bool) (pl : List Nat) :
    (posted ((if p4 then (if c4 then [Effect.sendColor pl] else []) ++ [.postB (.internal .capabilityOsc4)] else []) ++
             (if p10 then (if c10 then [Effect.sendFg pl] else []) ++ [.postB (.internal .capabilityOsc10)] else []) ++
             (if p11 then (if c11 then [Effect.sendBg pl] else []) ++ [.postB (.internal .capabilityOsc11)] else []))).filter isNotice
      = (if p4 then [note .capabilityOsc4] else []) ++ (if p10 then [note .capabilityOsc10] else []) ++
        (if p11 then [note .capabilityOsc11] else []) := by
  cases p4 <;> cases p10 <;> cases p11 <;> cases c4 <;> cases c10 <;> cases c11 <;>
    simp [posted, isNotice, Event.userVisible, note]

theorem excl_52_176 (pl : List Nat) (h : startsWith (ascii "52") pl = true) : startsWith (ascii "176") pl = false := by
  rcases pl with _ | ⟨a, _ | ⟨b, _ | ⟨c, r⟩⟩⟩ <;> simp [startsWith, ascii] at h ⊢
  all_goals omega

theorem filter_known_osc (c : Caps) (l : List Event) (h : ∀ e ∈ l, known c e = false) :
    l.filter (fun e => !known c e) = l := by
  apply List.filter_eq_self.mpr
  intro e he; simp [h e he]

theorem osc_notices (b64 : List Nat → Option (List Nat)) (st : VState) (pl : List Nat) :
    Exact st (handleOSC b64 st pl) (notices (.osc pl)) := by
  intro st' effs h
  have hk : (notices (.osc pl)).filter (fun e => !known st.caps e) = notices (.osc pl) := by
    apply filter_known_osc
    intro e he
    simp only [notices, appIDOf, List.mem_append] at he
    rcases he with ((he | he) | he) | he
    all_goals (split at he <;> simp [note] at he <;> subst he <;> rfl)
  rw [hk]
  unfold handleOSC at h
  simp only [isPrefix_eq, str_eq_ascii] at h
  simp only [notices, appIDOf]
  have hacc := acc_posted (startsWith (ascii "4") pl) (startsWith (ascii "10") pl) (startsWith (ascii "11") pl)
    st.caps.osc4 st.caps.osc10 st.caps.osc11 pl
  generalize ((if startsWith (ascii "4") pl = true then (if st.caps.osc4 = true then [Effect.sendColor pl] else []) ++ [Effect.postB (Event.internal Internal.capabilityOsc4)] else []) ++
             (if startsWith (ascii "10") pl = true then (if st.caps.osc10 = true then [Effect.sendFg pl] else []) ++ [Effect.postB (Event.internal Internal.capabilityOsc10)] else []) ++
             (if startsWith (ascii "11") pl = true then (if st.caps.osc11 = true then [Effect.sendBg pl] else []) ++ [Effect.postB (Event.internal Internal.capabilityOsc11)] else [])) = acc at h hacc
  rw [← hacc]
  obtain ⟨hlen, hval⟩ := splitOn_len2 59 pl
  simp only [show ch ';' = 59 from rfl] at h
  by_cases h52 : startsWith (ascii "52") pl = true
  · have h176 := excl_52_176 pl h52
    simp only [h52, h176, if_true] at h ⊢
    by_cases hl3 : (splitOn 59 pl).length = 3
    · rcases hs : splitOn 59 pl with _ | ⟨v0, _ | ⟨v1, _ | ⟨v2, r⟩⟩⟩ <;> rw [hs] at hl3 <;> simp at hl3
      subst hl3
      simp [hs, idx, bind, Except.bind, pure, Except.pure] at h
      cases hb : b64 v2 <;> simp [hb] at h <;> obtain ⟨rfl, rfl⟩ := h <;> simp [posted_append, posted]
    · simp [hl3, bind, Except.bind, pure, Except.pure] at h
      obtain ⟨rfl, rfl⟩ := h; simp
  · simp only [h52] at h
    by_cases h176 : startsWith (ascii "176") pl = true
    · by_cases hl2 : (splitOn 59 pl).length = 2
      · have hv := hval hl2
        have hc := hlen.mp hl2
        rcases hs : splitOn 59 pl with _ | ⟨v0, _ | ⟨v1, r⟩⟩ <;> rw [hs] at hl2 hv <;> simp at hl2 hv
        subst hl2
        subst hv
        simp [hs, h176, idx, bind, Except.bind, pure, Except.pure] at h
        obtain ⟨rfl, rfl⟩ := h
        simp [posted_append, posted, isNotice, Event.userVisible, h176, hc.1, hc.2, List.drop_one]
      · have hc : ¬ (59 ∈ pl ∧ ¬ 59 ∈ (pl.dropWhile (· != 59)).tail) := fun hx => hl2 (hlen.mpr hx)
        simp [h176, hl2, bind, Except.bind, pure, Except.pure] at h
        obtain ⟨rfl, rfl⟩ := h
        simp [h176, List.drop_one]
        intro h1; exact Classical.byContradiction fun h2 => hc ⟨h1, h2⟩
    · simp [h176, bind, Except.bind, pure, Except.pure] at h
      obtain ⟨rfl, rfl⟩ := h
      simp [h176]

theorem handle_notices (b64 : List Nat → Option (List Nat)) (st : VState) (s : Seq) :
    Exact st (handle b64 st s) (notices s) := by
  cases s with
  | csi i p f => exact csi_notices st i p f
  | dcs f i p d => exact dcs_notices st f i p d
  | osc pl => exact osc_notices b64 st pl
  | apc d =>
    intro st' effs h
    rcases d with _ | ⟨d0, dr⟩
    · simp [handle] at h; obtain ⟨rfl, rfl⟩ := h; simp [notices, posted]
    · by_cases hg : d0 = 71
      · subst hg
        simp [handle, isPrefix, str, post] at h; obtain ⟨rfl, rfl⟩ := h
        simp [notices, posted, isNotice, Event.userVisible, known, note]
      · have hg' : ¬ 71 = d0 := fun e => hg e.symm
        simp [handle, isPrefix, str, hg, hg', post] at h; obtain ⟨rfl, rfl⟩ := h
        simp [notices, hg, posted]
  | other => intro st' effs h; simp [handle] at h; obtain ⟨rfl, rfl⟩ := h; simp [notices, posted]
  | _ => exact exact_key st _

end VaxisModel.Lemmas.StartupSeq
