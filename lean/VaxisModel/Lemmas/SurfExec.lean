/-
Helper lemmas for `Props/C14Body.lean` (the `*_body_eq_model` theorems over `Model/SurfExec.lean`):
integer/uint16 facts the symbolic execution of the regenerated bodies needs.
-/
import VaxisModel.Model.SurfExec
import VaxisModel.Gen.SurfaceBodies
import VaxisModel.Lemmas.SurfacePaint

namespace VaxisModel.Lemmas.SurfExec
open VaxisModel.Model.SurfLang VaxisModel.Model.Window VaxisModel.Model.Surface VaxisModel.Model.Layout VaxisModel.Model.SurfExec

/-- The arithmetic a reader expects: lengths and indices in `int`, strict guards. -/
abbrev exactA : Arith := VaxisModel.Model.Surface.exact

theorem mul_toNat_nonneg (a b : UInt16) : ¬ ((a.toNat : Int) * (b.toNat : Int) < 0) := by
  have := Int.mul_nonneg (Int.natCast_nonneg a.toNat) (Int.natCast_nonneg b.toNat)
  omega

theorem toNat_mul_cast (a b : Nat) : ((a : Int) * (b : Int)).toNat = a * b := by
  rw [← Int.natCast_mul]; exact Int.toNat_natCast _

theorem ofInt_two : UInt16.ofInt 2 = 2 := by decide
theorem two_ne_zero16 : ¬ ((2 : UInt16) = 0) := by decide
theorem ofInt_one : UInt16.ofInt 1 = 1 := by decide
theorem ofInt_zero : UInt16.ofInt 0 = 0 := by decide

/-! ### environments -/

theorem get_set_ne (ρ : Env) (x y : String) (v : Val) (h : y ≠ x) : (ρ.set x v).get y = ρ.get y := by
  induction ρ with
  | nil => simp [Env.set, Env.get, Ne.symm h]
  | cons p r ih =>
    obtain ⟨k, w⟩ := p
    by_cases hk : k = x
    · subst hk; simp [Env.set, Env.get, Ne.symm h]
    · by_cases hy : k = y
      · subst hy; simp [Env.set, Env.get, hk]
      · simp [Env.set, Env.get, hk, hy, ih]

theorem get_set_eq (ρ : Env) (x : String) (v : Val) : (ρ.set x v).get x = some v := by
  induction ρ with
  | nil => simp [Env.set, Env.get]
  | cons p r ih =>
    obtain ⟨k, w⟩ := p
    by_cases hk : k = x
    · simp [Env.set, Env.get, hk]
    · simp [Env.set, Env.get, hk, ih]

theorem set_length_bound (ρ : Env) (x : String) (v w : Val) (h : ρ.get x = some w) : (ρ.set x v).length = ρ.length := by
  induction ρ with
  | nil => simp [Env.get] at h
  | cons p r ih =>
    obtain ⟨k, u⟩ := p
    by_cases hk : k = x
    · simp [Env.set, hk]
    · simp [Env.get, hk] at h
      simp [Env.set, hk, ih h]

theorem set_self (ρ : Env) (x : String) (w : Val) (h : ρ.get x = some w) : ρ.set x w = ρ := by
  induction ρ with
  | nil => simp [Env.get] at h
  | cons p r ih =>
    obtain ⟨k, u⟩ := p
    by_cases hk : k = x
    · simp [Env.get, hk] at h; simp [Env.set, hk, h]
    · simp [Env.get, hk] at h
      simp [Env.set, hk, ih h]

theorem set_set (ρ : Env) (x : String) (v w : Val) : (ρ.set x v).set x w = ρ.set x w := by
  induction ρ with
  | nil => simp [Env.set]
  | cons p r ih =>
    obtain ⟨k, u⟩ := p
    by_cases hk : k = x
    · simp [Env.set, hk]
    · simp [Env.set, hk, ih]

theorem set_fresh (ρ : Env) (x : String) (v : Val) (h : ρ.get x = none) : ρ.set x v = ρ ++ [(x, v)] := by
  induction ρ with
  | nil => simp [Env.set]
  | cons p r ih =>
    obtain ⟨k, u⟩ := p
    by_cases hk : k = x
    · simp [Env.get, hk] at h
    · simp [Env.get, hk] at h
      simp [Env.set, hk, ih h]

theorem set_append_bound (ρ τ : Env) (x : String) (v w : Val) (h : ρ.get x = some w) : (ρ ++ τ).set x v = ρ.set x v ++ τ := by
  induction ρ with
  | nil => simp [Env.get] at h
  | cons p r ih =>
    obtain ⟨k, u⟩ := p
    by_cases hk : k = x
    · simp [Env.set, hk]
    · simp [Env.get, hk] at h
      simp [Env.set, hk, ih h]

/-- leaving the scope of a fresh loop variable after an update of an outer variable -/
theorem take_set_set (ρ : Env) (x y : String) (u v w : Val) (hy : ρ.get y = none) (hx : ρ.get x = some w) :
    ((ρ.set y u).set x v).take ρ.length = ρ.set x v := by
  rw [set_fresh ρ y u hy, set_append_bound ρ _ x v w hx]
  have := set_length_bound ρ x v w hx
  rw [← this]; simp

/-! ### loops, generically: one iteration symbolically executed, then a pure fold -/

inductive Step (α : Type) where
  | next (a : α)
  | brk (a : α)
  | ret (a : α) (v : Val)
  | err (e : Err)

def Step.toRes {α : Type} (mk : α → M) : Step α → Res
  | .next a => .ok (mk a, .norm)
  | .brk a => .ok (mk a, .brk)
  | .ret a v => .ok (mk a, .ret v)
  | .err e => .error e

/-- the loop as a pure fold: `next a` = ran to the end (or left by `break`) -/
def foldS {α β : Type} (g : α → β → Step α) : List β → α → Step α
  | [], a => .next a
  | b :: r, a =>
    match g a b with
    | .next a' => foldS g r a'
    | .brk a' => .next a'
    | s => s

/-- A loop of the interpreter is the pure fold `g`, once ONE iteration of its body — symbolically executed on
the state `mk a` — is shown to be `g a x`. -/
theorem loopS_foldS {α β : Type} (R : Ro) (body : St) (n : Nat) (bd : Bind) (mk : α → M) (inj : β → Val) (g : α → β → Step α)
    (h : ∀ a x i, leave n (exec R body { (mk a) with ρ := bindIt bd (mk a).ρ (inj x) i }) = (g a x).toRes mk) :
    ∀ (items : List β) (i : Nat) (a : α), loopS R body n bd (items.map inj) i (mk a) = (foldS g items a).toRes mk := by
  intro items
  induction items with
  | nil => intro i a; simp [loopS, foldS, Step.toRes]
  | cons b r ih =>
    intro i a
    rw [List.map_cons, loopS, h, foldS]
    cases hg : g a b with
    | next a' => simp only [Step.toRes]; exact ih (i + 1) a'
    | brk a' => simp [Step.toRes]
    | ret a' v => simp [Step.toRes]
    | err e => simp [Step.toRes]

/-- `for _, char := range chars { w += uint16(char.Width) }` as a fold: the line's width (uint16, wrapping) -/
theorem foldS_width : ∀ (l : List Cell) (acc : UInt16),
    foldS (fun (a : UInt16) (ch : Cell) => Step.next (a + u16 ch.w)) l acc = .next (acc + lineWidth l) := by
  intro l
  induction l with
  | nil => intro acc; simp [foldS, lineWidth]
  | cons ch r ih => intro acc; simp [foldS, ih, lineWidth, UInt16.add_assoc]

/-- `for _, char := range chars { lineWidth += char.Width }` as a fold (Go int) -/
theorem foldS_widthInt : ∀ (l : List Cell) (acc : Int),
    foldS (fun (a : Int) (ch : Cell) => Step.next (a + ch.w)) l acc = .next (acc + lineWidthInt l) := by
  intro l
  induction l with
  | nil => intro acc; simp [foldS, lineWidthInt]
  | cons ch r ih => intro acc; simp [foldS, ih, lineWidthInt, Int.add_assoc]

/-- one line of `findContainerSize`: the pure step -/
def sizeStep (maxW maxH : UInt16) (a : UInt16 × UInt16) (line : List Cell) : Step (UInt16 × UInt16) :=
  if a.2 ≥ maxH then .ret a (.size a.1 a.2)
  else
    let lw := lineWidth line
    let w := if a.1 < lw then lw else a.1
    .next (if w > maxW then maxW else w, a.2 + 1)

/-- what the fold of `sizeStep` returns: the model's `sizeLoop` (with the `>=` guard), whether it ran to the end or returned early -/
def stepSize : Step (UInt16 × UInt16) → UInt16 × UInt16
  | .next a => a
  | .ret a _ => a
  | _ => (0, 0)

theorem foldS_sizeStep (maxW maxH : UInt16) : ∀ (lines : List (List Cell)) (w h : UInt16),
    (foldS (sizeStep maxW maxH) lines (w, h) = .next (sizeLoop true maxW maxH lines w h)) ∨
    (foldS (sizeStep maxW maxH) lines (w, h) = .ret (sizeLoop true maxW maxH lines w h)
        (.size (sizeLoop true maxW maxH lines w h).1 (sizeLoop true maxW maxH lines w h).2)) := by
  intro lines
  induction lines with
  | nil => intro w h; simp [foldS, sizeLoop]
  | cons l r ih =>
    intro w h
    by_cases hg : h ≥ maxH
    · simp [foldS, sizeStep, sizeLoop, hGuard, hg]
    · simp only [foldS, sizeStep, hg, if_false, sizeLoop, hGuard, if_true]
      exact ih _ _

def liftStep {α β : Type} (f : α → β) : Step α → Step β
  | .next a => .next (f a)
  | .brk a => .brk (f a)
  | .ret a v => .ret (f a) v
  | .err e => .err e

/-- the same over the states of a scanner (the scanner value rides along) -/
theorem foldS_sizeScan (txt : Bool) (maxW maxH : UInt16) : ∀ (lines : List (List Cell)) (sc : Val) (w h : UInt16),
    ∃ sc', (foldS (fun (a : Val × UInt16 × UInt16) (p : List Cell × List (List Cell)) =>
              liftStep (fun x => (Val.scanner txt p.2 p.1, x)) (sizeStep maxW maxH a.2 p.1)) (scanPairs lines) (sc, w, h)
            = .next (sc', sizeLoop true maxW maxH lines w h)) ∨
           (foldS (fun (a : Val × UInt16 × UInt16) (p : List Cell × List (List Cell)) =>
              liftStep (fun x => (Val.scanner txt p.2 p.1, x)) (sizeStep maxW maxH a.2 p.1)) (scanPairs lines) (sc, w, h)
            = .ret (sc', sizeLoop true maxW maxH lines w h)
                (.size (sizeLoop true maxW maxH lines w h).1 (sizeLoop true maxW maxH lines w h).2)) := by
  intro lines
  induction lines with
  | nil => intro sc w h; exact ⟨sc, by simp [foldS, sizeLoop, scanPairs]⟩
  | cons l r ih =>
    intro sc w h
    by_cases hg : h ≥ maxH
    · exact ⟨Val.scanner txt r l, by simp [foldS, sizeStep, sizeLoop, hGuard, hg, scanPairs, liftStep]⟩
    · simp only [foldS, sizeStep, hg, if_false, sizeLoop, hGuard, if_true, scanPairs, liftStep]
      exact ih _ _ _

/-! ### render -/

/-- what `sort.Slice(s.Children, …)` leaves behind: the children of the rendered surface, sorted IN PLACE -/
def sortedInPlace : Surface → Surface
  | .mk w h b k => .mk w h b (Kids.sortZ k)


/-- the loop as a pure fold that also sees the index -/
def foldSI {α β : Type} (g : α → β → Nat → Step α) : List β → Nat → α → Step α
  | [], _, a => .next a
  | b :: r, i, a =>
    match g a b i with
    | .next a' => foldSI g r (i + 1) a'
    | .brk a' => .next a'
    | s => s

theorem loopS_foldSI {α β : Type} (R : Ro) (body : St) (n : Nat) (bd : Bind) (mk : α → M) (inj : β → Val) (g : α → β → Nat → Step α)
    (h : ∀ a x i, leave n (exec R body { (mk a) with ρ := bindIt bd (mk a).ρ (inj x) i }) = (g a x i).toRes mk) :
    ∀ (items : List β) (i : Nat) (a : α), loopS R body n bd (items.map inj) i (mk a) = (foldSI g items i a).toRes mk := by
  intro items
  induction items with
  | nil => intro i a; simp [loopS, foldSI, Step.toRes]
  | cons b r ih =>
    intro i a
    rw [List.map_cons, loopS, h, foldSI]
    cases hg : g a b i with
    | next a' => simp only [Step.toRes]; exact ih (i + 1) a'
    | brk a' => simp [Step.toRes]
    | ret a' v => simp [Step.toRes]
    | err e => simp [Step.toRes]

/-- `row := i / int(W); col := i % int(W); win.SetCell(col, row, cell)` -/
def cellStep (w : UInt16) (win : Win) (scr : Screen) (c : Cell) (i : Nat) : Step Screen :=
  if w = 0 then .err (.panic .divideByZero)
  else .next (win.setCell scr (Int.ofNat (i % w.toNat)) (Int.ofNat (i / w.toNat)) c)

theorem foldSI_cells (w : UInt16) (win : Win) : ∀ (buf : List Cell) (i : Nat) (scr : Screen),
    foldSI (cellStep w win) buf i scr =
      if w = 0 ∧ buf ≠ [] then .err (.panic .divideByZero)
      else .next (applyPaint scr ((cellOpsFrom w i buf).map (fun o => (win, o)))) := by
  intro buf
  induction buf with
  | nil => intro i scr; simp [foldSI, cellOpsFrom, applyPaint]
  | cons c r ih =>
    intro i scr
    by_cases hw : w = 0
    · simp [foldSI, cellStep, hw]
    · simp [foldSI, cellStep, hw, ih, cellOpsFrom, applyPaint]

theorem insertByZ_map {α β : Type} (f : α → β) (x : Int × α) : ∀ l : List (Int × α),
    insertByZ (x.1, f x.2) (l.map fun p => (p.1, f p.2)) = (insertByZ x l).map fun p => (p.1, f p.2) := by
  intro l
  induction l with
  | nil => simp [insertByZ]
  | cons y r ih =>
    by_cases h : x.1 ≤ y.1
    · simp [insertByZ, h]
    · simp [insertByZ, h, ih]

theorem sortByZ_map {α β : Type} (f : α → β) : ∀ l : List (Int × α),
    sortByZ (l.map fun p => (p.1, f p.2)) = (sortByZ l).map fun p => (p.1, f p.2) := by
  intro l
  induction l with
  | nil => simp [sortByZ]
  | cons x r ih => simp only [List.map_cons, sortByZ, ih]; exact insertByZ_map f x _

theorem any_sortByZ {α : Type} (P : Int × α → Bool) (l : List (Int × α)) : (sortByZ l).any P = l.any P := by
  rw [Bool.eq_iff_iff]
  simp only [List.any_eq_true]
  constructor
  · rintro ⟨x, hx, hp⟩; exact ⟨x, (VaxisModel.Lemmas.SurfacePaint.mem_sortByZ x l).1 hx, hp⟩
  · rintro ⟨x, hx, hp⟩; exact ⟨x, (VaxisModel.Lemmas.SurfacePaint.mem_sortByZ x l).2 hx, hp⟩

abbrev KidT := Int × (Int × Int × Surface)

def subOf (p : KidT) : Val := .sub p.2.1 p.2.2.1 p.1 p.2.2.2

def kidWinP (win : Win) (q : Int × Int × Surface) : Win :=
  win.new q.1 q.2.1 (Int.ofNat q.2.2.w.toNat) (Int.ofNat q.2.2.h.toNat)

def kidWin (win : Win) (p : KidT) : Win := kidWinP win p.2

/-- the paint calls of one child -/
def kidPaint (win : Win) (q : Int × Int × Surface) : List (Win × Op) := q.2.2.paint (kidWinP win q)

theorem toVals_eq : ∀ k : Kids, Kids.toVals k = (Kids.toL k).map subOf
  | .nil => rfl
  | .cons c r z s rest => by simp [Kids.toVals, Kids.toL, subOf, toVals_eq rest]

theorem toL_ofL : ∀ l : List KidT, Kids.toL (Kids.ofL l) = l
  | [] => rfl
  | (z, (c, r, s)) :: rest => by simp [Kids.ofL, Kids.toL, toL_ofL rest]

theorem layers_eq (win : Win) : ∀ k : Kids, k.layers win = (Kids.toL k).map (fun p => (p.1, kidPaint win p.2))
  | .nil => by simp [Kids.layers, Kids.toL]
  | .cons c r z s rest => by simp [Kids.layers, Kids.toL, kidWinP, kidPaint, layers_eq win rest]

theorem divZero_eq : ∀ k : Kids, k.divZero = (Kids.toL k).any (fun p => p.2.2.2.divZero)
  | .nil => by simp [Kids.divZero, Kids.toL]
  | .cons c r z s rest => by simp [Kids.divZero, Kids.toL, divZero_eq rest]

/-- `child.Surface.render(win.New(col,row,W,H), focused)` for one child -/
def kidStep (win : Win) (scr : Screen) (p : KidT) : Step Screen :=
  match render p.2.2.2 (kidWin win p) scr with
  | .ok scr' => .next scr'
  | .error e => .err (.panic e)

theorem applyPaint_append (scr : Screen) (a b : List (Win × Op)) : applyPaint scr (a ++ b) = applyPaint (applyPaint scr a) b := by
  simp [applyPaint, List.foldl_append]

theorem foldS_kids (win : Win) : ∀ (l : List KidT) (scr : Screen),
    foldS (kidStep win) l scr =
      if l.any (fun p => p.2.2.2.divZero) then .err (.panic .divideByZero)
      else .next (applyPaint scr ((l.map (fun p => (p.1, kidPaint win p.2))).flatMap (·.2))) := by
  intro l
  induction l with
  | nil => intro scr; simp [foldS, applyPaint]
  | cons p r ih =>
    intro scr
    by_cases hd : p.2.2.2.divZero = true
    · simp [foldS, kidStep, render, hd]
    · simp only [Bool.not_eq_true] at hd
      by_cases hr : (r.any fun p => p.2.2.2.divZero) = true <;> simp [foldS, kidStep, render, hd, hr, ih, applyPaint_append, kidPaint, kidWin]


/-! ### the soft-wrap draw loops -/

/-- the text mode of a soft-wrap draw loop as the theorems need it: no ellipsis branch, `row >= Max.Height` -/
def softM : TextMode :=
  { hard := false, ell := [], sizeStrict := true, drawStrict := true, ellipsisStyle := none, fill := none, sz := (.sizeW, .sizeH) }

/-- one character of a soft-wrap row: `if col >= Max.Width { break }; s.WriteCell(col, row, cell); col += uint16(char.Width)` -/
def colStep (maxW row : UInt16) (a : UInt16 × Surface) (ch : Cell) : Step (UInt16 × Surface) :=
  if a.1 ≥ maxW then .brk a
  else match writeCell exactA a.2 a.1 row ch with
    | .error p => .err (.panic p)
    | .ok s' => .next (a.1 + u16 ch.w, s')

theorem foldS_colStep (maxW row : UInt16) (tw : Bool) : ∀ (line : List Cell) (col : UInt16) (s : Surface),
    (∃ col' s', foldS (colStep maxW row) line (col, s) = .next (col', s') ∧ drawLine exactA softM maxW row tw line col s = .ok s') ∨
    (∃ p, foldS (colStep maxW row) line (col, s) = .err (.panic p) ∧ drawLine exactA softM maxW row tw line col s = .error p) := by
  intro line
  have hh : softM.hard = false := rfl
  induction line with
  | nil => intro col s; exact .inl ⟨col, s, by simp [foldS, drawLine]⟩
  | cons ch r ih =>
    intro col s
    by_cases hg : col ≥ maxW
    · exact .inl ⟨col, s, by simp [foldS, colStep, drawLine, hg]⟩
    · cases hw : writeCell exactA s col row ch with
      | error p => exact .inr ⟨p, by simp [foldS, colStep, drawLine, hg, hw, hh]⟩
      | ok s' =>
        rcases ih (col + u16 ch.w) s' with ⟨c', s'', h1, h2⟩ | ⟨p, h1, h2⟩
        · exact .inl ⟨c', s'', by simp [foldS, colStep, drawLine, hg, hw, hh, h1, h2]⟩
        · exact .inr ⟨p, by simp [foldS, colStep, drawLine, hg, hw, hh, h1, h2]⟩

/-- one line of a soft-wrap Draw: the row guard with its early `return s, nil`, the row, `row += 1` -/
def rowStep (f : List Cell → List Cell) (txt : Bool) (maxW maxH : UInt16) (a : Val × UInt16 × Surface) (p : List Cell × List (List Cell)) : Step (Val × UInt16 × Surface) :=
  if a.2.1 ≥ maxH then .ret (.scanner txt p.2 p.1, a.2.1, a.2.2) (.tup (.surf a.2.2) .nil)
  else match drawLine exactA softM maxW a.2.1 (tooWide maxW (f p.1)) (f p.1) 0 a.2.2 with
    | .error e => .err (.panic e)
    | .ok s' => .next (.scanner txt p.2 p.1, a.2.1 + 1, s')

theorem foldS_rowStep (f : List Cell → List Cell) (txt : Bool) (maxW maxH : UInt16) : ∀ (lines : List (List Cell)) (sc : Val) (row : UInt16) (s : Surface),
    (∃ sc' row' s', (foldS (rowStep f txt maxW maxH) (scanPairs lines) (sc, row, s) = .next (sc', row', s') ∨
                     foldS (rowStep f txt maxW maxH) (scanPairs lines) (sc, row, s) = .ret (sc', row', s') (.tup (.surf s') .nil)) ∧
        drawLines exactA softM maxW maxH (lines.map f) row s = .ok s') ∨
    (∃ p, foldS (rowStep f txt maxW maxH) (scanPairs lines) (sc, row, s) = .err (.panic p) ∧
        drawLines exactA softM maxW maxH (lines.map f) row s = .error p) := by
  intro lines
  have hh : softM.drawStrict = true := rfl
  induction lines with
  | nil => intro sc row s; exact .inl ⟨sc, row, s, .inl (by simp [foldS, scanPairs]), by simp [drawLines]⟩
  | cons l r ih =>
    intro sc row s
    by_cases hg : row ≥ maxH
    · exact .inl ⟨.scanner txt r l, row, s, .inr (by simp [foldS, scanPairs, rowStep, hg]), by simp [drawLines, hGuard, hh, hg]⟩
    · cases hd : drawLine exactA softM maxW row (tooWide maxW (f l)) (f l) 0 s with
      | error p => exact .inr ⟨p, by simp [foldS, scanPairs, rowStep, hg, hd], by simp [drawLines, hGuard, hh, hg, hd]⟩
      | ok s' =>
        rcases ih (.scanner txt r l) (row + 1) s' with ⟨sc', row', s'', h1, h2⟩ | ⟨p, h1, h2⟩
        · refine .inl ⟨sc', row', s'', ?_, ?_⟩
          · simpa [foldS, scanPairs, rowStep, hg, hd] using h1
          · simp [drawLines, hGuard, hh, hg, hd, h2]
        · refine .inr ⟨p, ?_, ?_⟩
          · simpa [foldS, scanPairs, rowStep, hg, hd] using h1
          · simp [drawLines, hGuard, hh, hg, hd, h2]

/-- `vaxis.Cell{Character: char, Style: t.Style}` -/
def restyle (st : Nat) (ch : Cell) : Cell := { g := ch.g, w := ch.w, st := st }

theorem foldS_map {α β γ : Type} (g : α → γ → Step α) (f : β → γ) : ∀ (l : List β) (a : α),
    foldS (fun a b => g a (f b)) l a = foldS g (l.map f) a := by
  intro l
  induction l with
  | nil => intro a; rfl
  | cons b r ih => intro a; simp only [foldS, List.map_cons]; cases g a (f b) <;> simp [ih]


/-- a soft-wrap row does not look at the ellipsis condition, its style or the size arguments of the mode -/
theorem drawLine_soft_congr (m m' : TextMode) (h : m.hard = false) (h' : m'.hard = false) (maxW row : UInt16) (tw : Bool) :
    ∀ (line : List Cell) (col : UInt16) (s : Surface), drawLine exactA m maxW row tw line col s = drawLine exactA m' maxW row tw line col s := by
  intro line
  induction line with
  | nil => intro col s; simp [drawLine]
  | cons ch r ih =>
    intro col s
    simp only [drawLine, h, h', Bool.false_and]
    by_cases hg : col ≥ maxW
    · simp [hg]
    · simp only [hg, if_false]
      cases writeCell exactA s col row ch with
      | error p => rfl
      | ok s' => simp [ih]

theorem drawLines_soft_congr (m m' : TextMode) (h : m.hard = false) (h' : m'.hard = false) (hs : m.drawStrict = m'.drawStrict)
    (maxW maxH : UInt16) : ∀ (lines : List (List Cell)) (row : UInt16) (s : Surface),
    drawLines exactA m maxW maxH lines row s = drawLines exactA m' maxW maxH lines row s := by
  intro lines
  induction lines with
  | nil => intro row s; simp [drawLines]
  | cons l r ih =>
    intro row s
    simp only [drawLines, hs, drawLine_soft_congr m m' h h']
    by_cases hg : hGuard m'.drawStrict row maxH = true
    · simp [hg]
    · simp only [hg]
      cases drawLine exactA m' maxW row (tooWide maxW l) l 0 s with
      | error p => rfl
      | ok s' => simp [ih]

/-! ### Fill -/

/-- `s.Buffer[i].Style = style` -/
def fillStep (st : Nat) (buf : List Cell) (_c : Cell) (i : Nat) : Step (List Cell) :=
  match buf[i]? with
  | some c' => .next (buf.set i { c' with st := st })
  | none => .err (.panic .indexOutOfRange)

theorem foldSI_fill (st : Nat) : ∀ (todo done : List Cell) (items : List Cell), items.length = todo.length →
    foldSI (fillStep st) items done.length (done ++ todo) = .next (done ++ todo.map fun c => { c with st := st }) := by
  intro todo
  induction todo with
  | nil => intro done items h; cases items with
    | nil => simp [foldSI]
    | cons a b => simp at h
  | cons c r ih =>
    intro done items h
    cases items with
    | nil => simp at h
    | cons a b =>
      have hget : (done ++ c :: r)[done.length]? = some c := by simp
      simp only [foldSI, fillStep, hget]
      have hset : (done ++ c :: r).set done.length { c with st := st } = (done ++ [{ c with st := st }]) ++ r := by
        simp [List.set_append]
      rw [hset]
      have := ih (done ++ [{ c with st := st }]) b (by simpa using h)
      simp only [List.length_append, List.length_singleton] at this
      rw [this]; simp


/-! ### the hard-wrap draw loops -/

/-- the text mode of a hard-wrap draw loop: the ellipsis branch `truncate && col+uint16(char.Width) >= Max.Width` -/
def hardM (est : Option Nat) : TextMode :=
  { hard := true, ell := [.lineTooWide, .reach], sizeStrict := true, drawStrict := true, ellipsisStyle := est, fill := none, sz := (.sizeW, .sizeH) }

/-- one character of a hard-wrap row -/
def colStepH (maxW row : UInt16) (tw : Bool) (est : Option Nat) (a : UInt16 × Surface) (ch : Cell) : Step (UInt16 × Surface) :=
  if a.1 ≥ maxW then .brk a
  else if tw && decide (a.1 + u16 ch.w ≥ maxW) then
    match writeCell exactA a.2 a.1 row { g := gEllipsis, w := 1, st := est.getD ch.st } with
    | .error p => .err (.panic p)
    | .ok s' => .brk (a.1, s')
  else match writeCell exactA a.2 a.1 row ch with
    | .error p => .err (.panic p)
    | .ok s' => .next (a.1 + u16 ch.w, s')

theorem foldS_colStepH (maxW row : UInt16) (tw : Bool) (est : Option Nat) : ∀ (line : List Cell) (col : UInt16) (s : Surface),
    (∃ col' s', foldS (colStepH maxW row tw est) line (col, s) = .next (col', s') ∧ drawLine exactA (hardM est) maxW row tw line col s = .ok s') ∨
    (∃ p, foldS (colStepH maxW row tw est) line (col, s) = .err (.panic p) ∧ drawLine exactA (hardM est) maxW row tw line col s = .error p) := by
  intro line
  have hh : (hardM est).hard = true := rfl
  have he : (hardM est).ell = [.lineTooWide, .reach] := rfl
  have hs : (hardM est).ellipsisStyle = est := rfl
  induction line with
  | nil => intro col s; exact .inl ⟨col, s, by simp [foldS, drawLine]⟩
  | cons ch r ih =>
    intro col s
    by_cases hg : col ≥ maxW
    · exact .inl ⟨col, s, by simp [foldS, colStepH, drawLine, hg]⟩
    · by_cases ht : (tw && decide (col + u16 ch.w ≥ maxW)) = true
      · have hall : ((hardM est).ell.all (evalEll tw (col + u16 ch.w ≥ maxW) (!r.isEmpty))) = true := by
          simp only [he, List.all_cons, List.all_nil, evalEll, Bool.and_true]
          simpa using ht
        cases hw : writeCell exactA s col row { g := gEllipsis, w := 1, st := est.getD ch.st } with
        | error p => exact .inr ⟨p, by simp [foldS, colStepH, hg, ht, hw], by simp [drawLine, hg, hh, hall, hs, hw]⟩
        | ok s' => exact .inl ⟨col, s', by simp [foldS, colStepH, hg, ht, hw], by simp [drawLine, hg, hh, hall, hs, hw]⟩
      · have hall : ((hardM est).ell.all (evalEll tw (col + u16 ch.w ≥ maxW) (!r.isEmpty))) = false := by
          simp only [he, List.all_cons, List.all_nil, evalEll, Bool.and_true]
          simpa using ht
        cases hw : writeCell exactA s col row ch with
        | error p => exact .inr ⟨p, by simp [foldS, colStepH, hg, ht, hw], by simp [drawLine, hg, hh, hall, hw]⟩
        | ok s' =>
          rcases ih (col + u16 ch.w) s' with ⟨c', s'', h1, h2⟩ | ⟨p, h1, h2⟩
          · exact .inl ⟨c', s'', by simp [foldS, colStepH, hg, ht, hw, h1], by simp [drawLine, hg, hh, hall, hw, h2]⟩
          · exact .inr ⟨p, by simp [foldS, colStepH, hg, ht, hw, h1], by simp [drawLine, hg, hh, hall, hw, h2]⟩

/-- one line of a hard-wrap Draw over a scanner -/
def rowStepH (f : List Cell → List Cell) (txt : Bool) (maxW maxH : UInt16) (est : Option Nat) (a : Val × UInt16 × Surface)
    (p : List Cell × List (List Cell)) : Step (Val × UInt16 × Surface) :=
  if a.2.1 ≥ maxH then .ret (.scanner txt p.2 p.1, a.2.1, a.2.2) (.tup (.surf a.2.2) .nil)
  else match drawLine exactA (hardM est) maxW a.2.1 (tooWide maxW (f p.1)) (f p.1) 0 a.2.2 with
    | .error e => .err (.panic e)
    | .ok s' => .next (.scanner txt p.2 p.1, a.2.1 + 1, s')

theorem foldS_rowStepH (f : List Cell → List Cell) (txt : Bool) (maxW maxH : UInt16) (est : Option Nat) :
    ∀ (lines : List (List Cell)) (sc : Val) (row : UInt16) (s : Surface),
    (∃ sc' row' s', (foldS (rowStepH f txt maxW maxH est) (scanPairs lines) (sc, row, s) = .next (sc', row', s') ∨
                     foldS (rowStepH f txt maxW maxH est) (scanPairs lines) (sc, row, s) = .ret (sc', row', s') (.tup (.surf s') .nil)) ∧
        drawLines exactA (hardM est) maxW maxH (lines.map f) row s = .ok s') ∨
    (∃ p, foldS (rowStepH f txt maxW maxH est) (scanPairs lines) (sc, row, s) = .err (.panic p) ∧
        drawLines exactA (hardM est) maxW maxH (lines.map f) row s = .error p) := by
  intro lines
  have hh : (hardM est).drawStrict = true := rfl
  induction lines with
  | nil => intro sc row s; exact .inl ⟨sc, row, s, .inl (by simp [foldS, scanPairs]), by simp [drawLines]⟩
  | cons l r ih =>
    intro sc row s
    by_cases hg : row ≥ maxH
    · exact .inl ⟨.scanner txt r l, row, s, .inr (by simp [foldS, scanPairs, rowStepH, hg]), by simp [drawLines, hGuard, hh, hg]⟩
    · cases hd : drawLine exactA (hardM est) maxW row (tooWide maxW (f l)) (f l) 0 s with
      | error p => exact .inr ⟨p, by simp [foldS, scanPairs, rowStepH, hg, hd], by simp [drawLines, hGuard, hh, hg, hd]⟩
      | ok s' =>
        rcases ih (.scanner txt r l) (row + 1) s' with ⟨sc', row', s'', h1, h2⟩ | ⟨p, h1, h2⟩
        · refine .inl ⟨sc', row', s'', ?_, ?_⟩
          · simpa [foldS, scanPairs, rowStepH, hg, hd] using h1
          · simp [drawLines, hGuard, hh, hg, hd, h2]
        · refine .inr ⟨p, ?_, ?_⟩
          · simpa [foldS, scanPairs, rowStepH, hg, hd] using h1
          · simp [drawLines, hGuard, hh, hg, hd, h2]

/-- one line of a hard-wrap Draw over a list of lines (`Text.Draw`: `for _, line := range hardLines(…)`) -/
def rowStepHL (f : List Cell → List Cell) (maxW maxH : UInt16) (est : Option Nat) (a : UInt16 × Surface)
    (line : List Cell) : Step (UInt16 × Surface) :=
  if a.1 ≥ maxH then .ret a (.tup (.surf a.2) .nil)
  else match drawLine exactA (hardM est) maxW a.1 (tooWide maxW (f line)) (f line) 0 a.2 with
    | .error e => .err (.panic e)
    | .ok s' => .next (a.1 + 1, s')

theorem foldS_rowStepHL (f : List Cell → List Cell) (maxW maxH : UInt16) (est : Option Nat) :
    ∀ (lines : List (List Cell)) (row : UInt16) (s : Surface),
    (∃ row' s', (foldS (rowStepHL f maxW maxH est) lines (row, s) = .next (row', s') ∨
                 foldS (rowStepHL f maxW maxH est) lines (row, s) = .ret (row', s') (.tup (.surf s') .nil)) ∧
        drawLines exactA (hardM est) maxW maxH (lines.map f) row s = .ok s') ∨
    (∃ p, foldS (rowStepHL f maxW maxH est) lines (row, s) = .err (.panic p) ∧
        drawLines exactA (hardM est) maxW maxH (lines.map f) row s = .error p) := by
  intro lines
  have hh : (hardM est).drawStrict = true := rfl
  induction lines with
  | nil => intro row s; exact .inl ⟨row, s, .inl (by simp [foldS]), by simp [drawLines]⟩
  | cons l r ih =>
    intro row s
    by_cases hg : row ≥ maxH
    · exact .inl ⟨row, s, .inr (by simp [foldS, rowStepHL, hg]), by simp [drawLines, hGuard, hh, hg]⟩
    · cases hd : drawLine exactA (hardM est) maxW row (tooWide maxW (f l)) (f l) 0 s with
      | error p => exact .inr ⟨p, by simp [foldS, rowStepHL, hg, hd], by simp [drawLines, hGuard, hh, hg, hd]⟩
      | ok s' =>
        rcases ih (row + 1) s' with ⟨row', s'', h1, h2⟩ | ⟨p, h1, h2⟩
        · refine .inl ⟨row', s'', ?_, ?_⟩
          · simpa [foldS, rowStepHL, hg, hd] using h1
          · simp [drawLines, hGuard, hh, hg, hd, h2]
        · refine .inr ⟨p, ?_, ?_⟩
          · simpa [foldS, rowStepHL, hg, hd] using h1
          · simp [drawLines, hGuard, hh, hg, hd, h2]

theorem tooWide_restyle (st : Nat) (maxW : UInt16) (line : List Cell) : tooWide maxW (line.map (restyle st)) = tooWide maxW line := by
  have : ∀ l : List Cell, lineWidthInt (l.map (restyle st)) = lineWidthInt l := by
    intro l; induction l with
    | nil => rfl
    | cons c r ih => simp [lineWidthInt, restyle, ih]
  simp [tooWide, this]


/-- the draw loops look at four fields of the mode only -/
theorem drawLine_congr (m m' : TextMode) (h1 : m.hard = m'.hard) (h2 : m.ell = m'.ell) (h3 : m.ellipsisStyle = m'.ellipsisStyle)
    (maxW row : UInt16) (tw : Bool) :
    ∀ (line : List Cell) (col : UInt16) (s : Surface), drawLine exactA m maxW row tw line col s = drawLine exactA m' maxW row tw line col s := by
  intro line
  induction line with
  | nil => intro col s; simp [drawLine]
  | cons ch r ih =>
    intro col s
    simp only [drawLine, h1, h2, h3]
    by_cases hg : col ≥ maxW
    · simp [hg]
    · simp only [hg, if_false]
      split
      · rfl
      · cases writeCell exactA s col row ch with
        | error p => rfl
        | ok s' => simp [ih]

theorem drawLines_congr (m m' : TextMode) (h1 : m.hard = m'.hard) (h2 : m.ell = m'.ell) (h3 : m.ellipsisStyle = m'.ellipsisStyle)
    (h4 : m.drawStrict = m'.drawStrict) (maxW maxH : UInt16) :
    ∀ (lines : List (List Cell)) (row : UInt16) (s : Surface),
    drawLines exactA m maxW maxH lines row s = drawLines exactA m' maxW maxH lines row s := by
  intro lines
  induction lines with
  | nil => intro row s; simp [drawLines]
  | cons l r ih =>
    intro row s
    simp only [drawLines, h4, drawLine_congr m m' h1 h2 h3]
    by_cases hg : hGuard m'.drawStrict row maxH = true
    · simp [hg]
    · simp only [hg]
      cases drawLine exactA m' maxW row (tooWide maxW l) l 0 s with
      | error p => rfl
      | ok s' => simp [ih]

/-! ### Button -/

/-- the style `Button.Draw` selects: mouseDown, else hover, else focused, else default -/
def buttonStyle (md hv fc : Bool) (a b c d : Nat) : Nat := if md then a else if hv then b else if fc then c else d


/-! ### `for cond { … }` and TextField -/

/-- a `for cond { … }` loop as a pure iteration: `none` = the fuel ran out (the Go loop would not end) -/
def iterW {α : Type} (p : α → Bool) (g : α → Step α) : Nat → α → Option (Step α)
  | 0, _ => none
  | f + 1, a =>
    if p a then
      match g a with
      | .next a' => iterW p g f a'
      | .brk a' => some (.next a')
      | s => some s
    else some (.next a)

def resW {α : Type} (mk : α → M) : Option (Step α) → Res
  | none => .error (.stuck "loop does not end")
  | some s => s.toRes mk

theorem loopW_iterW {α : Type} (R : Ro) (body : St) (n : Nat) (c : Ex) (mk : α → M) (p : α → Bool) (g : α → Step α)
    (hc : ∀ a, evalE R (mk a).ρ c = .ok (.bool (p a)))
    (hb : ∀ a, p a = true → leave n (exec R body (mk a)) = (g a).toRes mk) :
    ∀ (fuel : Nat) (a : α), loopW R body n c fuel (mk a) = resW mk (iterW p g fuel a) := by
  intro fuel
  induction fuel with
  | zero => intro a; simp [loopW, iterW, resW]
  | succ f ih =>
    intro a
    rw [loopW, hc]
    cases hp : p a with
    | false => simp [iterW, hp, resW, Step.toRes]
    | true =>
      simp only [iterW, hp, if_true]
      rw [hb a hp]
      cases hg : g a with
      | next a' => simp only [Step.toRes]; exact ih a'
      | brk a' => simp [Step.toRes, resW]
      | ret a' v => simp [Step.toRes, resW]
      | err e => simp [Step.toRes, resW]

/-- one character of TextField's row: `s.WriteCell(col, 0, Cell{Character: char, Style: tf.Style}); col += uint16(char.Width)` -/
def fieldStep (st : Nat) (a : UInt16 × Surface) (ch : Cell) : Step (UInt16 × Surface) :=
  match writeCell exactA a.2 a.1 0 (restyle st ch) with
  | .error p => .err (.panic p)
  | .ok s' => .next (a.1 + u16 ch.w, s')

theorem lineWidth_append (a b : List Cell) : lineWidth (a ++ b) = lineWidth a + lineWidth b := by
  induction a with
  | nil => simp [lineWidth]
  | cons c r ih => simp [lineWidth, ih, UInt16.add_assoc]

theorem foldS_fieldStep (st : Nat) : ∀ (l : List Cell) (col : UInt16) (s : Surface),
    (∃ s', foldS (fieldStep st) l (col, s) = .next (col + lineWidth l, s') ∧ fieldLoop exactA (l.map (restyle st)) col s = .ok s') ∨
    (∃ p, foldS (fieldStep st) l (col, s) = .err (.panic p) ∧ fieldLoop exactA (l.map (restyle st)) col s = .error p) := by
  intro l
  induction l with
  | nil => intro col s; exact .inl ⟨s, by simp [foldS, lineWidth], by simp [fieldLoop]⟩
  | cons ch r ih =>
    intro col s
    cases hw : writeCell exactA s col 0 (restyle st ch) with
    | error p => exact .inr ⟨p, by simp [foldS, fieldStep, hw], by simp [fieldLoop, hw]⟩
    | ok s' =>
      have hwd : u16 (restyle st ch).w = u16 ch.w := rfl
      rcases ih (col + u16 ch.w) s' with ⟨s'', h1, h2⟩ | ⟨p, h1, h2⟩
      · exact .inl ⟨s'', by simp [foldS, fieldStep, hw, h1, lineWidth, UInt16.add_assoc], by simp [fieldLoop, hw, hwd, h2]⟩
      · exact .inr ⟨p, by simp [foldS, fieldStep, hw, h1], by simp [fieldLoop, hw, hwd, h2]⟩

theorem fieldLoop_append : ∀ (a b : List Cell) (col : UInt16) (s : Surface),
    fieldLoop exactA (a ++ b) col s =
      match fieldLoop exactA a col s with
      | .error p => .error p
      | .ok s' => fieldLoop exactA b (col + lineWidth a) s' := by
  intro a
  induction a with
  | nil => intro b col s; simp [fieldLoop, lineWidth]
  | cons c r ih =>
    intro b col s
    simp only [List.cons_append, fieldLoop]
    cases writeCell exactA s col 0 c with
    | error p => rfl
    | ok s' => simp only []; rw [ih]; simp [lineWidth, UInt16.add_assoc]

/-- the state of TextField's grapheme loop: last cluster (v4), remaining clusters (v5), graphemes counted (v2), column (v3),
surface (v1), uniseg state (v6) -/
abbrev TFSt := Val × List (List Cell) × Int × UInt16 × Surface × Int

/-- `len(rest) > 0` -/
def tfMore (a : TFSt) : Bool := !a.2.1.isEmpty

/-- one grapheme cluster: its characters written, `i += 1` -/
def tfStep (st : Nat) (a : TFSt) : Step TFSt :=
  match a.2.1 with
  | [] => .next a
  | cl :: r =>
    match foldS (fieldStep st) cl (a.2.2.2.1, a.2.2.2.2.1) with
    | .next (col', s') => .next (.strOf cl, r, a.2.2.1 + 1, col', s', 0)
    | .err e => .err e
    | _ => .err (.stuck "impossible")

theorem lineWidth_restyle (st : Nat) (l : List Cell) : lineWidth (l.map (restyle st)) = lineWidth l := by
  induction l with
  | nil => rfl
  | cons c r ih => simp [lineWidth, restyle, ih]

theorem iterW_tf (st : Nat) : ∀ (rest : List (List Cell)) (fuel : Nat) (v4 : Val) (i : Int) (col : UInt16) (s : Surface) (s6 : Int),
    rest.length < fuel →
    (∃ v4' i' col' s' s6', iterW tfMore (tfStep st) fuel (v4, rest, i, col, s, s6) = some (.next (v4', [], i', col', s', s6')) ∧
        fieldLoop exactA (rest.flatten.map (restyle st)) col s = .ok s') ∨
    (∃ p, iterW tfMore (tfStep st) fuel (v4, rest, i, col, s, s6) = some (.err (.panic p)) ∧
        fieldLoop exactA (rest.flatten.map (restyle st)) col s = .error p) := by
  intro rest
  induction rest with
  | nil =>
    intro fuel v4 i col s s6 hf
    cases fuel with
    | zero => omega
    | succ f => exact .inl ⟨v4, i, col, s, s6, by simp [iterW, tfMore], by simp [fieldLoop]⟩
  | cons cl r ih =>
    intro fuel v4 i col s s6 hf
    cases fuel with
    | zero => simp at hf
    | succ f =>
      have hf' : r.length < f := by simpa using hf
      simp only [List.flatten_cons, List.map_append, fieldLoop_append, lineWidth_restyle]
      rcases foldS_fieldStep st cl col s with ⟨s', h1, h2⟩ | ⟨p, h1, h2⟩
      · rcases ih f (.strOf cl) (i + 1) (col + lineWidth cl) s' 0 hf' with ⟨a1, a2, a3, a4, a5, g1, g2⟩ | ⟨p, g1, g2⟩
        · exact .inl ⟨a1, a2, a3, a4, a5, by simp [iterW, tfMore, tfStep, h1, g1], by rw [h2]; exact g2⟩
        · exact .inr ⟨p, by simp [iterW, tfMore, tfStep, h1, g1], by rw [h2]; exact g2⟩
      · exact .inr ⟨p, by simp [iterW, tfMore, tfStep, h1], by rw [h2]⟩


/-! ### a whole soft-wrapped RichText for the interpreter -/

/-- the interpreter's parameters for a soft-wrapped RichText whose scanner yields `lines` at `Max.Width`: `cells` returns the
cells, `findContainerSize` is the EXECUTED body of `RichText.findContainerSize` -/
def richRo (maxW : UInt16) (lines : List (List Cell)) : Ro :=
  let R0 : Ro := { noRo with fields := fun f => if f = "Softwrap" then some (.bool true) else none, soft := lines, wrapW := maxW }
  { R0 with self := fun f args =>
      if f = "meth:cells" then some (.ok (.cells lines.flatten))
      else if f = "meth:findContainerSize" then
        some ((run R0 Gen.SurfaceBodies.richFindContainerSize Gen.SurfaceBodies.richFindContainerSizeParams args (Screen.resize 0 0)).map (·.1))
      else none }


/-- the interpreter's parameters for a soft-wrapped Text in style `st` whose scanner yields `lines` at `Max.Width` -/
def textRo (maxW : UInt16) (st : Nat) (lines : List (List Cell)) : Ro :=
  let R0 : Ro := { noRo with
    fields := fun f => if f = "Softwrap" then some (.bool true) else if f = "Content" then some .text
                       else if f = "Style" then some (.sty st) else none,
    soft := lines, wrapW := maxW }
  { R0 with self := fun f args =>
      if f = "meth:findContainerSize" then
        some ((run R0 Gen.SurfaceBodies.textFindContainerSize Gen.SurfaceBodies.textFindContainerSizeParams args (Screen.resize 0 0)).map (·.1))
      else none }


end VaxisModel.Lemmas.SurfExec
