/-
Helper lemmas for `Props/C14Body.lean` (the `*_body_eq_model` theorems over `Model/SurfExec.lean`):
integer/uint16 facts the symbolic execution of the regenerated bodies needs.
-/
import VaxisModel.Model.SurfExec
import VaxisModel.Gen.SurfaceBodies

namespace VaxisModel.Lemmas.SurfExec
open VaxisModel.Model.SurfLang VaxisModel.Model.Window VaxisModel.Model.Surface VaxisModel.Model.Layout VaxisModel.Model.SurfExec

/-- The arithmetic a reader expects: lengths and indices in `int`, strict guards. -/
abbrev exactA : Arith := VaxisModel.Model.Surface.exact

theorem mul_toNat_nonneg (a b : UInt16) : ¬ ((a.toNat : Int) * (b.toNat : Int) < 0) := by
  have := Int.mul_nonneg (Int.natCast_nonneg a.toNat) (Int.natCast_nonneg b.toNat)
  omega

theorem toNat_mul_cast (a b : Nat) : ((a : Int) * (b : Int)).toNat = a * b := by
  rw [← Int.natCast_mul]; exact Int.toNat_natCast _

theorem ofInt_two : UInt16.ofInt 2 = 2 := by decide
theorem two_ne_zero16 : ¬ ((2 : UInt16) = 0) := by decide
theorem ofInt_one : UInt16.ofInt 1 = 1 := by decide
theorem ofInt_zero : UInt16.ofInt 0 = 0 := by decide

end VaxisModel.Lemmas.SurfExec
