/-
Helper lemmas for `Props/C14Body.lean` (the `*_body_eq_model` theorems over `Model/SurfExec.lean`):
integer/uint16 facts the symbolic execution of the regenerated bodies needs.
-/
import VaxisModel.Model.SurfExec
import VaxisModel.Gen.SurfaceBodies

namespace VaxisModel.Lemmas.SurfExec
open VaxisModel.Model.SurfLang VaxisModel.Model.Window VaxisModel.Model.Surface VaxisModel.Model.Layout VaxisModel.Model.SurfExec

/-- The arithmetic a reader expects: lengths and indices in `int`, strict guards. -/
abbrev exactA : Arith := VaxisModel.Model.Surface.exact

theorem mul_toNat_nonneg (a b : UInt16) : ¬ ((a.toNat : Int) * (b.toNat : Int) < 0) := by
  have := Int.mul_nonneg (Int.natCast_nonneg a.toNat) (Int.natCast_nonneg b.toNat)
  omega

theorem toNat_mul_cast (a b : Nat) : ((a : Int) * (b : Int)).toNat = a * b := by
  rw [← Int.natCast_mul]; exact Int.toNat_natCast _

theorem ofInt_two : UInt16.ofInt 2 = 2 := by decide
theorem two_ne_zero16 : ¬ ((2 : UInt16) = 0) := by decide
theorem ofInt_one : UInt16.ofInt 1 = 1 := by decide
theorem ofInt_zero : UInt16.ofInt 0 = 0 := by decide

/-! ### environments -/

theorem get_set_ne (ρ : Env) (x y : String) (v : Val) (h : y ≠ x) : (ρ.set x v).get y = ρ.get y := by
  induction ρ with
  | nil => simp [Env.set, Env.get, Ne.symm h]
  | cons p r ih =>
    obtain ⟨k, w⟩ := p
    by_cases hk : k = x
    · subst hk; simp [Env.set, Env.get, Ne.symm h]
    · by_cases hy : k = y
      · subst hy; simp [Env.set, Env.get, hk]
      · simp [Env.set, Env.get, hk, hy, ih]

theorem get_set_eq (ρ : Env) (x : String) (v : Val) : (ρ.set x v).get x = some v := by
  induction ρ with
  | nil => simp [Env.set, Env.get]
  | cons p r ih =>
    obtain ⟨k, w⟩ := p
    by_cases hk : k = x
    · simp [Env.set, Env.get, hk]
    · simp [Env.set, Env.get, hk, ih]

theorem set_length_bound (ρ : Env) (x : String) (v w : Val) (h : ρ.get x = some w) : (ρ.set x v).length = ρ.length := by
  induction ρ with
  | nil => simp [Env.get] at h
  | cons p r ih =>
    obtain ⟨k, u⟩ := p
    by_cases hk : k = x
    · simp [Env.set, hk]
    · simp [Env.get, hk] at h
      simp [Env.set, hk, ih h]

theorem set_self (ρ : Env) (x : String) (w : Val) (h : ρ.get x = some w) : ρ.set x w = ρ := by
  induction ρ with
  | nil => simp [Env.get] at h
  | cons p r ih =>
    obtain ⟨k, u⟩ := p
    by_cases hk : k = x
    · simp [Env.get, hk] at h; simp [Env.set, hk, h]
    · simp [Env.get, hk] at h
      simp [Env.set, hk, ih h]

theorem set_set (ρ : Env) (x : String) (v w : Val) : (ρ.set x v).set x w = ρ.set x w := by
  induction ρ with
  | nil => simp [Env.set]
  | cons p r ih =>
    obtain ⟨k, u⟩ := p
    by_cases hk : k = x
    · simp [Env.set, hk]
    · simp [Env.set, hk, ih]

theorem set_fresh (ρ : Env) (x : String) (v : Val) (h : ρ.get x = none) : ρ.set x v = ρ ++ [(x, v)] := by
  induction ρ with
  | nil => simp [Env.set]
  | cons p r ih =>
    obtain ⟨k, u⟩ := p
    by_cases hk : k = x
    · simp [Env.get, hk] at h
    · simp [Env.get, hk] at h
      simp [Env.set, hk, ih h]

theorem set_append_bound (ρ τ : Env) (x : String) (v w : Val) (h : ρ.get x = some w) : (ρ ++ τ).set x v = ρ.set x v ++ τ := by
  induction ρ with
  | nil => simp [Env.get] at h
  | cons p r ih =>
    obtain ⟨k, u⟩ := p
    by_cases hk : k = x
    · simp [Env.set, hk]
    · simp [Env.get, hk] at h
      simp [Env.set, hk, ih h]

/-- leaving the scope of a fresh loop variable after an update of an outer variable -/
theorem take_set_set (ρ : Env) (x y : String) (u v w : Val) (hy : ρ.get y = none) (hx : ρ.get x = some w) :
    ((ρ.set y u).set x v).take ρ.length = ρ.set x v := by
  rw [set_fresh ρ y u hy, set_append_bound ρ _ x v w hx]
  have := set_length_bound ρ x v w hx
  rw [← this]; simp

/-! ### loops, generically: one iteration symbolically executed, then a pure fold -/

inductive Step (α : Type) where
  | next (a : α)
  | brk (a : α)
  | ret (a : α) (v : Val)
  | err (e : Err)

def Step.toRes {α : Type} (mk : α → M) : Step α → Res
  | .next a => .ok (mk a, .norm)
  | .brk a => .ok (mk a, .brk)
  | .ret a v => .ok (mk a, .ret v)
  | .err e => .error e

/-- the loop as a pure fold: `next a` = ran to the end (or left by `break`) -/
def foldS {α β : Type} (g : α → β → Step α) : List β → α → Step α
  | [], a => .next a
  | b :: r, a =>
    match g a b with
    | .next a' => foldS g r a'
    | .brk a' => .next a'
    | s => s

/-- A loop of the interpreter is the pure fold `g`, once ONE iteration of its body — symbolically executed on
the state `mk a` — is shown to be `g a x`. -/
theorem loopS_foldS {α β : Type} (R : Ro) (body : St) (n : Nat) (bd : Bind) (mk : α → M) (inj : β → Val) (g : α → β → Step α)
    (h : ∀ a x i, leave n (exec R body { (mk a) with ρ := bindIt bd (mk a).ρ (inj x) i }) = (g a x).toRes mk) :
    ∀ (items : List β) (i : Nat) (a : α), loopS R body n bd (items.map inj) i (mk a) = (foldS g items a).toRes mk := by
  intro items
  induction items with
  | nil => intro i a; simp [loopS, foldS, Step.toRes]
  | cons b r ih =>
    intro i a
    rw [List.map_cons, loopS, h, foldS]
    cases hg : g a b with
    | next a' => simp only [Step.toRes]; exact ih (i + 1) a'
    | brk a' => simp [Step.toRes]
    | ret a' v => simp [Step.toRes]
    | err e => simp [Step.toRes]

/-- `for _, char := range chars { w += uint16(char.Width) }` as a fold: the line's width (uint16, wrapping) -/
theorem foldS_width : ∀ (l : List Cell) (acc : UInt16),
    foldS (fun (a : UInt16) (ch : Cell) => Step.next (a + u16 ch.w)) l acc = .next (acc + lineWidth l) := by
  intro l
  induction l with
  | nil => intro acc; simp [foldS, lineWidth]
  | cons ch r ih => intro acc; simp [foldS, ih, lineWidth, UInt16.add_assoc]

/-- `for _, char := range chars { lineWidth += char.Width }` as a fold (Go int) -/
theorem foldS_widthInt : ∀ (l : List Cell) (acc : Int),
    foldS (fun (a : Int) (ch : Cell) => Step.next (a + ch.w)) l acc = .next (acc + lineWidthInt l) := by
  intro l
  induction l with
  | nil => intro acc; simp [foldS, lineWidthInt]
  | cons ch r ih => intro acc; simp [foldS, ih, lineWidthInt, Int.add_assoc]

/-- one line of `findContainerSize`: the pure step -/
def sizeStep (maxW maxH : UInt16) (a : UInt16 × UInt16) (line : List Cell) : Step (UInt16 × UInt16) :=
  if a.2 ≥ maxH then .ret a (.size a.1 a.2)
  else
    let lw := lineWidth line
    let w := if a.1 < lw then lw else a.1
    .next (if w > maxW then maxW else w, a.2 + 1)

/-- what the fold of `sizeStep` returns: the model's `sizeLoop` (with the `>=` guard), whether it ran to the end or returned early -/
def stepSize : Step (UInt16 × UInt16) → UInt16 × UInt16
  | .next a => a
  | .ret a _ => a
  | _ => (0, 0)

theorem foldS_sizeStep (maxW maxH : UInt16) : ∀ (lines : List (List Cell)) (w h : UInt16),
    (foldS (sizeStep maxW maxH) lines (w, h) = .next (sizeLoop true maxW maxH lines w h)) ∨
    (foldS (sizeStep maxW maxH) lines (w, h) = .ret (sizeLoop true maxW maxH lines w h)
        (.size (sizeLoop true maxW maxH lines w h).1 (sizeLoop true maxW maxH lines w h).2)) := by
  intro lines
  induction lines with
  | nil => intro w h; simp [foldS, sizeLoop]
  | cons l r ih =>
    intro w h
    by_cases hg : h ≥ maxH
    · simp [foldS, sizeStep, sizeLoop, hGuard, hg]
    · simp only [foldS, sizeStep, hg, if_false, sizeLoop, hGuard, if_true]
      exact ih _ _

def liftStep {α β : Type} (f : α → β) : Step α → Step β
  | .next a => .next (f a)
  | .brk a => .brk (f a)
  | .ret a v => .ret (f a) v
  | .err e => .err e

/-- the same over the states of a scanner (the scanner value rides along) -/
theorem foldS_sizeScan (txt : Bool) (maxW maxH : UInt16) : ∀ (lines : List (List Cell)) (sc : Val) (w h : UInt16),
    ∃ sc', (foldS (fun (a : Val × UInt16 × UInt16) (p : List Cell × List (List Cell)) =>
              liftStep (fun x => (Val.scanner txt p.2 p.1, x)) (sizeStep maxW maxH a.2 p.1)) (scanPairs lines) (sc, w, h)
            = .next (sc', sizeLoop true maxW maxH lines w h)) ∨
           (foldS (fun (a : Val × UInt16 × UInt16) (p : List Cell × List (List Cell)) =>
              liftStep (fun x => (Val.scanner txt p.2 p.1, x)) (sizeStep maxW maxH a.2 p.1)) (scanPairs lines) (sc, w, h)
            = .ret (sc', sizeLoop true maxW maxH lines w h)
                (.size (sizeLoop true maxW maxH lines w h).1 (sizeLoop true maxW maxH lines w h).2)) := by
  intro lines
  induction lines with
  | nil => intro sc w h; exact ⟨sc, by simp [foldS, sizeLoop, scanPairs]⟩
  | cons l r ih =>
    intro sc w h
    by_cases hg : h ≥ maxH
    · exact ⟨Val.scanner txt r l, by simp [foldS, sizeStep, sizeLoop, hGuard, hg, scanPairs, liftStep]⟩
    · simp only [foldS, sizeStep, hg, if_false, sizeLoop, hGuard, if_true, scanPairs, liftStep]
      exact ih _ _ _

end VaxisModel.Lemmas.SurfExec
