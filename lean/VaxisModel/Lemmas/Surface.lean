/-
Helper lemmas for C14: surface addressing in exact arithmetic, the text size loop, text drawing
never panics, painting is a fold of window writes.
-/
import VaxisModel.Model.Layout
import VaxisModel.Spec.Surface
import VaxisModel.Lemmas.Window

namespace VaxisModel.Lemmas.Surface
open VaxisModel.Model.Window VaxisModel.Model.Surface VaxisModel.Model.Layout

/-! ### addressing -/

/-- "The buffer holds W·H cells". -/
def Sized (s : Surface) : Prop := s.buf.length = s.h.toNat * s.w.toNat

theorem newSurface_sized (w h : UInt16) : Sized (newSurface exact w h) := by
  simp [Sized, newSurface, bufLen, exact, Surface.buf, Surface.w, Surface.h]

theorem newSurface_dims (a : Arith) (w h : UInt16) :
    (newSurface a w h).w = w ∧ (newSurface a w h).h = h ∧ (newSurface a w h).kids = .nil := by
  simp [newSurface, Surface.w, Surface.h, Surface.kids]

theorem setBuf_dims (s : Surface) (b : List Cell) :
    (s.setBuf b).w = s.w ∧ (s.setBuf b).h = s.h ∧ (s.setBuf b).kids = s.kids ∧ (s.setBuf b).buf = b := by
  cases s; simp [Surface.setBuf, Surface.w, Surface.h, Surface.kids, Surface.buf]

/-! ### the NewSurface calls of the source, evaluated -/

theorem surface_center (a : Arith) (c : Ctx) :
    newSurfaceFor a "center.Center.Draw" 0 c (0, 0) 0 = newSurface a c.maxW c.maxH := by
  have h : surfaceArgs "center.Center.Draw" 0 = (.maxW, .maxH) := by decide
  simp only [newSurfaceFor, h, evalSz]

theorem surface_field (a : Arith) (c : Ctx) :
    newSurfaceFor a "textfield.TextField.Draw" 0 c (0, 0) 0 = newSurface a c.maxW 1 := by
  have h : surfaceArgs "textfield.TextField.Draw" 0 = (.maxW, .lit 1) := by decide
  simp only [newSurfaceFor, h, evalSz]
  rfl

theorem surface_dynamic (a : Arith) (c : Ctx) :
    newSurfaceFor a "list.Dynamic.Draw" 0 c (0, 0) 0 = newSurface a c.maxW c.maxH := by
  have h : surfaceArgs "list.Dynamic.Draw" 0 = (.maxW, .maxH) := by decide
  simp only [newSurfaceFor, h, evalSz]

theorem surface_dynamic_cursor (a : Arith) (c : Ctx) (chH : UInt16) :
    newSurfaceFor a "list.Dynamic.Draw" 1 c (0, 0) chH = newSurface a c.maxW chH := by
  have h : surfaceArgs "list.Dynamic.Draw" 1 = (.maxW, .childH) := by decide
  simp only [newSurfaceFor, h, evalSz]

theorem index_lt (W H col row : Nat) (hc : col < W) (hr : row < H) : row * W + col < H * W := by
  have h1 : row * W + col < row * W + W := by omega
  have h2 : row * W + W = (row + 1) * W := by rw [Nat.add_mul]; simp
  have h3 : (row + 1) * W ≤ H * W := Nat.mul_le_mul_right W (by omega)
  omega

/-- WriteCell in exact arithmetic, inside: exactly cell row·W+col is replaced; no panic. -/
theorem writeCell_inside (s : Surface) (hs : Sized s) (col row : UInt16) (c : Cell)
    (hc : col < s.w) (hr : row < s.h) :
    writeCell exact s col row c =
      .ok (s.setBuf (s.buf.set (row.toNat * s.w.toNat + col.toNat) c)) ∧
    row.toNat * s.w.toNat + col.toNat < s.buf.length := by
  have hc' := UInt16.lt_iff_toNat_lt.1 hc
  have hr' := UInt16.lt_iff_toNat_lt.1 hr
  have hlt : row.toNat * s.w.toNat + col.toNat < s.buf.length := by
    rw [hs]; exact index_lt _ _ _ _ hc' hr'
  have hrej : wcReject exact s col row = false := by
    simp only [wcReject, exact, if_true, Bool.or_eq_false_iff, decide_eq_false_iff_not, ge_iff_le,
      UInt16.not_le]
    exact ⟨hc, hr⟩
  refine ⟨?_, hlt⟩
  unfold writeCell
  rw [hrej]
  simp [wcIndex, exact, hlt]

/-- WriteCell in exact arithmetic, outside: nothing happens; no panic. -/
theorem writeCell_outside (s : Surface) (col row : UInt16) (c : Cell)
    (h : ¬ (col < s.w ∧ row < s.h)) : writeCell exact s col row c = .ok s := by
  have hrej : wcReject exact s col row = true := by
    simp only [wcReject, exact, if_true, Bool.or_eq_true, decide_eq_true_eq, ge_iff_le]
    by_cases hc : col < s.w
    · right; exact UInt16.not_lt.1 (fun hr => h ⟨hc, hr⟩)
    · left; exact UInt16.not_lt.1 hc
  simp [writeCell, hrej]

/-- Either way: never a panic, dimensions and `Sized` are kept. -/
theorem writeCell_ok (s : Surface) (hs : Sized s) (col row : UInt16) (c : Cell) :
    ∃ s', writeCell exact s col row c = .ok s' ∧ s'.w = s.w ∧ s'.h = s.h ∧ s'.kids = s.kids ∧ Sized s' := by
  by_cases h : col < s.w ∧ row < s.h
  · refine ⟨_, (writeCell_inside s hs col row c h.1 h.2).1, ?_⟩
    have := setBuf_dims s (s.buf.set (row.toNat * s.w.toNat + col.toNat) c)
    refine ⟨this.1, this.2.1, this.2.2.1, ?_⟩
    simp only [Sized, this.1, this.2.1, this.2.2.2, List.length_set]; exact hs
  · exact ⟨s, writeCell_outside s col row c h, rfl, rfl, rfl, hs⟩

theorem fillStyle_props (s : Surface) (st : Nat) (hs : Sized s) :
    (fillStyle s st).w = s.w ∧ (fillStyle s st).h = s.h ∧ (fillStyle s st).kids = s.kids ∧ Sized (fillStyle s st) := by
  have := setBuf_dims s (s.buf.map fun c => { c with st := st })
  refine ⟨this.1, this.2.1, this.2.2.1, ?_⟩
  simp only [Sized, fillStyle, this.1, this.2.1, this.2.2.2, List.length_map]; exact hs

/-! ### the size loop -/

theorem sizeLoop_le (maxW maxH : UInt16) (lines : List (List Cell)) (w h : UInt16)
    (hw : w ≤ maxW) (hh : h ≤ maxH) :
    (sizeLoop true maxW maxH lines w h).1 ≤ maxW ∧ (sizeLoop true maxW maxH lines w h).2 ≤ maxH := by
  induction lines generalizing w h with
  | nil => exact ⟨hw, hh⟩
  | cons line rest ih =>
    simp only [sizeLoop, hGuard, if_true]
    split
    · exact ⟨hw, hh⟩
    · rename_i hg
      apply ih
      · generalize (if w < lineWidth line then lineWidth line else w) = w'
        split
        · exact UInt16.le_refl _
        · rename_i hgt
          exact UInt16.not_lt.1 hgt
      · have h1 : h < maxH := by
          simp only [ge_iff_le, decide_eq_true_eq] at hg
          exact UInt16.not_le.1 hg
        have h1' := UInt16.lt_iff_toNat_lt.1 h1
        have h2 := UInt16.toNat_lt maxH
        rw [UInt16.le_iff_toNat_le, UInt16.toNat_add]
        have : (1 : UInt16).toNat = 1 := rfl
        rw [this]
        omega

/-! ### drawing text never panics (exact arithmetic) and keeps the size -/

theorem drawLine_ok (m : TextMode) (maxW row : UInt16) (tw : Bool) (line : List Cell) (col : UInt16) (s : Surface)
    (hs : Sized s) :
    ∃ s', drawLine exact m maxW row tw line col s = .ok s' ∧ s'.w = s.w ∧ s'.h = s.h ∧ s'.kids = s.kids ∧ Sized s' := by
  induction line generalizing col s with
  | nil => exact ⟨s, rfl, rfl, rfl, rfl, hs⟩
  | cons ch rest ih =>
    simp only [drawLine]
    split
    · exact ⟨s, rfl, rfl, rfl, rfl, hs⟩
    · split
      · exact writeCell_ok s hs _ _ _
      · obtain ⟨s1, h1, hw1, hh1, hk1, hs1⟩ := writeCell_ok s hs col row ch
        simp only [h1]
        obtain ⟨s2, h2, hw2, hh2, hk2, hs2⟩ := ih (col + u16 ch.w) s1 hs1
        exact ⟨s2, h2, hw2.trans hw1, hh2.trans hh1, hk2.trans hk1, hs2⟩

theorem drawLines_ok (m : TextMode) (maxW maxH : UInt16) (lines : List (List Cell)) (row : UInt16) (s : Surface)
    (hs : Sized s) :
    ∃ s', drawLines exact m maxW maxH lines row s = .ok s' ∧ s'.w = s.w ∧ s'.h = s.h ∧ s'.kids = s.kids ∧ Sized s' := by
  induction lines generalizing row s with
  | nil => exact ⟨s, rfl, rfl, rfl, rfl, hs⟩
  | cons line rest ih =>
    simp only [drawLines]
    split
    · exact ⟨s, rfl, rfl, rfl, rfl, hs⟩
    · obtain ⟨s1, h1, hw1, hh1, hk1, hs1⟩ := drawLine_ok m maxW row (tooWide maxW line) line 0 s hs
      simp only [h1]
      obtain ⟨s2, h2, hw2, hh2, hk2, hs2⟩ := ih (row + 1) s1 hs1
      exact ⟨s2, h2, hw2.trans hw1, hh2.trans hh1, hk2.trans hk1, hs2⟩

theorem drawText_ok (m : TextMode) (c : Ctx) (lines : List (List Cell)) :
    ∃ s, drawText exact m c lines = .ok s ∧
      s.w = evalSz c (findContainerSize m.sizeStrict c lines) 0 m.sz.1 ∧
      s.h = evalSz c (findContainerSize m.sizeStrict c lines) 0 m.sz.2 ∧
      s.kids = .nil ∧ Sized s := by
  simp only [drawText]
  have h0 := newSurface_sized (evalSz c (findContainerSize m.sizeStrict c lines) 0 m.sz.1)
    (evalSz c (findContainerSize m.sizeStrict c lines) 0 m.sz.2)
  have d0 := newSurface_dims exact (evalSz c (findContainerSize m.sizeStrict c lines) 0 m.sz.1)
    (evalSz c (findContainerSize m.sizeStrict c lines) 0 m.sz.2)
  cases hf : m.fill with
  | none =>
    simp only []
    obtain ⟨s', h, hw, hh, hk, hs⟩ := drawLines_ok m c.maxW c.maxH lines 0 _ h0
    exact ⟨s', h, hw.trans d0.1, hh.trans d0.2.1, hk.trans d0.2.2, hs⟩
  | some st =>
    simp only []
    have f := fillStyle_props _ st h0
    obtain ⟨s', h, hw, hh, hk, hs⟩ := drawLines_ok m c.maxW c.maxH lines 0 _ f.2.2.2
    exact ⟨s', h, hw.trans (f.1.trans d0.1), hh.trans (f.2.1.trans d0.2.1), hk.trans (f.2.2.1.trans d0.2.2), hs⟩

theorem fieldLoop_ok (chars : List Cell) (col : UInt16) (s : Surface) (hs : Sized s) :
    ∃ s', fieldLoop exact chars col s = .ok s' ∧ s'.w = s.w ∧ s'.h = s.h ∧ s'.kids = s.kids ∧ Sized s' := by
  induction chars generalizing col s with
  | nil => exact ⟨s, rfl, rfl, rfl, rfl, hs⟩
  | cons ch rest ih =>
    simp only [fieldLoop]
    obtain ⟨s1, h1, hw1, hh1, hk1, hs1⟩ := writeCell_ok s hs col 0 ch
    simp only [h1]
    obtain ⟨s2, h2, hw2, hh2, hk2, hs2⟩ := ih (col + u16 ch.w) s1 hs1
    exact ⟨s2, h2, hw2.trans hw1, hh2.trans hh1, hk2.trans hk1, hs2⟩

/-! ### centring -/

theorem centerAround_props (a : Arith) (c : Ctx) (ch : Surface) :
    (centerAround a c ch).w = c.maxW ∧ (centerAround a c ch).h = c.maxH ∧
    (centerAround a c ch).kids =
      .cons (Int.ofNat ((c.maxW - ch.w) / 2).toNat) (Int.ofNat ((c.maxH - ch.h) / 2).toNat) 0 ch .nil := by
  simp [centerAround, surface_center, newSurface, addChild, Kids.snoc, Surface.w, Surface.h, Surface.kids]

theorem half_margin (p q : UInt16) (h : q ≤ p) :
    ((p - q) / 2).toNat = (p.toNat - q.toNat) / 2 := by
  rw [UInt16.toNat_div, UInt16.toNat_sub_of_le _ _ h]; rfl

end VaxisModel.Lemmas.Surface
