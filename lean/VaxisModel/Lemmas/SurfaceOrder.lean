/-
The model's stable insertion sort by z-index (`Model.Surface.sortByZ`) produces exactly the order
the spec describes independently (`Spec.Surface.orderByKey`: the distinct keys in increasing order,
and under each key the entries in their original order).
-/
import VaxisModel.Model.Surface
import VaxisModel.Spec.Surface

namespace VaxisModel.Lemmas.SurfaceOrder
open VaxisModel.Model.Surface VaxisModel.Spec.Surface

variable {α : Type}

/-- `blocks Ls l`: for each level of `Ls` in turn, the entries of `l` with that key. -/
def blocks (Ls : List Int) (l : List (Int × α)) : List (Int × α) :=
  Ls.flatMap fun v => l.filter fun p => p.1 == v

theorem orderByKey_eq (l : List (Int × α)) : orderByKey l = blocks (keyLevels l) l := rfl

theorem mem_insertInt (x y : Int) (l : List Int) : y ∈ insertInt x l ↔ y = x ∨ y ∈ l := by
  induction l with
  | nil => simp [insertInt]
  | cons z rest ih =>
    simp only [insertInt]
    split
    · simp
    · split
      · rename_i h; subst h; simp
      · simp only [List.mem_cons, ih]
        constructor
        · rintro (h | h | h) <;> simp [h]
        · rintro (h | h | h) <;> simp [h]

theorem insertInt_sorted (x : Int) (l : List Int) (h : List.Pairwise (· < ·) l) :
    List.Pairwise (· < ·) (insertInt x l) := by
  induction l with
  | nil => simp [insertInt]
  | cons y rest ih =>
    rw [List.pairwise_cons] at h
    simp only [insertInt]
    split
    · rename_i hxy
      refine List.Pairwise.cons ?_ (List.Pairwise.cons h.1 h.2)
      intro b hb
      rcases List.mem_cons.1 hb with rfl | hb
      · exact hxy
      · exact Int.lt_trans hxy (h.1 b hb)
    · split
      · exact List.Pairwise.cons h.1 h.2
      · rename_i h1 h2
        refine List.Pairwise.cons ?_ (ih h.2)
        intro b hb
        rcases (mem_insertInt x b rest).1 hb with rfl | hb
        · omega
        · exact h.1 b hb

theorem keyLevels_cons (x : Int × α) (l : List (Int × α)) :
    keyLevels (x :: l) = insertInt x.1 (keyLevels l) := rfl

theorem keyLevels_sorted (l : List (Int × α)) : List.Pairwise (· < ·) (keyLevels l) := by
  induction l with
  | nil => exact List.Pairwise.nil
  | cons x rest ih => rw [keyLevels_cons]; exact insertInt_sorted _ _ ih

theorem mem_keyLevels (l : List (Int × α)) (p : Int × α) (h : p ∈ l) : p.1 ∈ keyLevels l := by
  induction l with
  | nil => cases h
  | cons x rest ih =>
    rw [keyLevels_cons, mem_insertInt]
    rcases List.mem_cons.1 h with rfl | h
    · exact Or.inl rfl
    · exact Or.inr (ih h)

theorem mem_blocks (Ls : List Int) (l : List (Int × α)) (p : Int × α) :
    p ∈ blocks Ls l ↔ p.1 ∈ Ls ∧ p ∈ l := by
  simp only [blocks, List.mem_flatMap, List.mem_filter, beq_iff_eq]
  constructor
  · rintro ⟨v, hv, hp, he⟩; exact ⟨he ▸ hv, hp⟩
  · rintro ⟨h1, h2⟩; exact ⟨p.1, h1, h2, rfl⟩

/-- Inserting before a list whose head (if any) has a key ≥ the new key puts it in front. -/
theorem insertByZ_front (x : Int × α) (L : List (Int × α)) (h : ∀ y ∈ L, x.1 ≤ y.1) :
    insertByZ x L = x :: L := by
  cases L with
  | nil => rfl
  | cons y rest => simp [insertByZ, h y List.mem_cons_self]

/-- Entries with smaller keys are skipped. -/
theorem insertByZ_skip (x : Int × α) (A B : List (Int × α)) (h : ∀ y ∈ A, y.1 < x.1) :
    insertByZ x (A ++ B) = A ++ insertByZ x B := by
  induction A with
  | nil => rfl
  | cons y rest ih =>
    have hy := h y List.mem_cons_self
    have : ¬ x.1 ≤ y.1 := by omega
    simp only [List.cons_append, insertByZ, this, if_false]
    rw [ih (fun z hz => h z (List.mem_cons_of_mem _ hz))]

theorem blocks_cons_of_not_mem (Ls : List Int) (x : Int × α) (l : List (Int × α)) (h : x.1 ∉ Ls) :
    blocks Ls (x :: l) = blocks Ls l := by
  induction Ls with
  | nil => rfl
  | cons v rest ih =>
    have hv : ¬ x.1 = v := fun e => h (e ▸ List.mem_cons_self)
    have hr : x.1 ∉ rest := fun e => h (List.mem_cons_of_mem _ e)
    simp only [blocks, List.flatMap_cons] at ih ⊢
    rw [ih hr]
    simp [hv]

/-- The generalised step: with `Ls` strictly increasing and every entry of `l` of key `x.1` accounted
for in `Ls`, adding `x` in front of `l` and its key to the levels is an insertion before the first
entry of key ≥ `x.1`. -/
theorem blocks_insert (Ls : List Int) (hs : List.Pairwise (· < ·) Ls) (x : Int × α) (l : List (Int × α))
    (hk : ∀ p ∈ l, p.1 = x.1 → x.1 ∈ Ls) :
    blocks (insertInt x.1 Ls) (x :: l) = insertByZ x (blocks Ls l) := by
  induction Ls with
  | nil =>
    have hnone : l.filter (fun p => p.1 == x.1) = [] := by
      rw [List.filter_eq_nil_iff]
      intro p hp he
      have := hk p hp (by simpa using he)
      cases this
    simp [blocks, insertInt, insertByZ, List.filter_cons, hnone]
  | cons v rest ih =>
    rw [List.pairwise_cons] at hs
    simp only [insertInt]
    by_cases h1 : x.1 < v
    · -- a new smallest level
      simp only [h1, if_true]
      have hnot : x.1 ∉ v :: rest := by
        intro hm
        rcases List.mem_cons.1 hm with e | hm
        · omega
        · have := hs.1 _ hm; omega
      have hnone : l.filter (fun p => p.1 == x.1) = [] := by
        rw [List.filter_eq_nil_iff]
        intro p hp he
        exact hnot (hk p hp (by simpa using he))
      have hb : blocks (x.1 :: v :: rest) (x :: l) = x :: blocks (v :: rest) l := by
        have := blocks_cons_of_not_mem (v :: rest) x l hnot
        simp only [blocks, List.flatMap_cons] at this ⊢
        rw [this]
        simp [hnone]
      rw [hb]
      symm
      apply insertByZ_front
      intro y hy
      have := ((mem_blocks (v :: rest) l y).1 hy).1
      rcases List.mem_cons.1 this with e | hm
      · omega
      · have := hs.1 _ hm; omega
    · simp only [h1, if_false]
      by_cases h2 : x.1 = v
      · -- an existing level: x goes to the front of its block
        simp only [h2, if_true]
        have hnot : x.1 ∉ rest := by
          intro hm; have := hs.1 _ hm; omega
        have hb : blocks (v :: rest) (x :: l) = x :: blocks (v :: rest) l := by
          have := blocks_cons_of_not_mem rest x l hnot
          simp only [blocks, List.flatMap_cons] at this ⊢
          rw [this]
          simp [h2]
        rw [hb]
        symm
        apply insertByZ_front
        intro y hy
        have := ((mem_blocks (v :: rest) l y).1 hy).1
        rcases List.mem_cons.1 this with e | hm
        · omega
        · have := hs.1 _ hm; omega
      · -- a larger key: the whole block of v is skipped
        simp only [h2, if_false]
        have hv : ¬ x.1 = v := h2
        have hk' : ∀ p ∈ l, p.1 = x.1 → x.1 ∈ rest := by
          intro p hp he
          rcases List.mem_cons.1 (hk p hp he) with e | hm
          · exact absurd e hv
          · exact hm
        have ih' := ih hs.2 hk'
        have hsplit : blocks (v :: insertInt x.1 rest) (x :: l) =
            l.filter (fun p => p.1 == v) ++ blocks (insertInt x.1 rest) (x :: l) := by
          simp [blocks, List.filter_cons, hv]
        have hsplit2 : blocks (v :: rest) l = l.filter (fun p => p.1 == v) ++ blocks rest l := by
          simp [blocks]
        rw [hsplit, hsplit2, ih']
        symm
        apply insertByZ_skip
        intro y hy
        have := (List.mem_filter.1 hy).2
        have : y.1 = v := by simpa using this
        omega

theorem orderByKey_cons (x : Int × α) (l : List (Int × α)) :
    orderByKey (x :: l) = insertByZ x (orderByKey l) := by
  rw [orderByKey_eq, orderByKey_eq, keyLevels_cons]
  exact blocks_insert (keyLevels l) (keyLevels_sorted l) x l (fun p hp _ => by
    have := mem_keyLevels l p hp
    rename_i he
    rw [← he]; exact this)

/-- The model's stable insertion sort is the spec's z-order. -/
theorem sortByZ_eq_orderByKey (l : List (Int × α)) : sortByZ l = orderByKey l := by
  induction l with
  | nil => rfl
  | cons x rest ih => rw [orderByKey_cons, ← ih]; rfl

theorem mem_orderByKey (l : List (Int × α)) (p : Int × α) : p ∈ orderByKey l ↔ p ∈ l := by
  rw [orderByKey_eq, mem_blocks]
  exact ⟨fun h => h.2, fun h => ⟨mem_keyLevels l p h, h⟩⟩

/-- Ordering depends on the keys only: it commutes with a map of the payloads. -/
theorem orderByKey_map {β : Type} (f : α → β) (l : List (Int × α)) :
    orderByKey (l.map fun p => (p.1, f p.2)) = (orderByKey l).map fun p => (p.1, f p.2) := by
  have hk : keyLevels (l.map fun p => (p.1, f p.2)) = keyLevels l := by
    simp [keyLevels, List.map_map, Function.comp_def]
  simp only [orderByKey, hk, List.map_flatMap, List.filter_map, Function.comp_def]

end VaxisModel.Lemmas.SurfaceOrder
