/-
Helper lemmas for C14's painting clause: render is a fold of window writes; the last accepted
write wins; every window render draws through descends from the window it was given.
-/
import VaxisModel.Model.Surface
import VaxisModel.Lemmas.Window

namespace VaxisModel.Lemmas.SurfacePaint
open VaxisModel.Model.Window VaxisModel.Model.Surface VaxisModel.Spec.Window VaxisModel.Lemmas.Window

/-- Call `c` (window, SetCell) lands on absolute `(x,y)` and is accepted there. -/
def hits (scr : Screen) (x y : Int) (c : Win × Op) : Prop :=
  x = (absOrigin c.1).1 + c.2.col ∧ y = (absOrigin c.1).2 + c.2.row ∧ visible c.1 scr x y

instance (scr : Screen) (x y : Int) (c : Win × Op) : Decidable (hits scr x y c) := by
  unfold hits; infer_instance

/-- The cell of the last call in the list that hits `(x,y)`. -/
def lastHit (scr : Screen) (x y : Int) : List (Win × Op) → Option Cell
  | [] => none
  | c :: rest =>
      match lastHit scr x y rest with
      | some v => some v
      | none => if hits scr x y c then some c.2.cell else none

theorem hits_congr (s s' : Screen) (hc : s'.cols = s.cols) (hr : s'.rows = s.rows) (x y : Int) (c : Win × Op) :
    hits s' x y c ↔ hits s x y c := by
  simp only [hits, visible_congr c.1 s s' hc hr]

theorem lastHit_congr (s s' : Screen) (hc : s'.cols = s.cols) (hr : s'.rows = s.rows) (x y : Int)
    (l : List (Win × Op)) : lastHit s' x y l = lastHit s x y l := by
  induction l with
  | nil => rfl
  | cons c rest ih =>
    simp only [lastHit, ih]
    have := hits_congr s s' hc hr x y c
    by_cases h : hits s x y c
    · simp [h, this.2 h]
    · have h' : ¬ hits s' x y c := fun h' => h (this.1 h')
      simp [h, h']

/-- Painter's algorithm on the model: after all calls, a cell shows the last call that hit it,
and is untouched if none did. -/
theorem applyPaint_get (calls : List (Win × Op)) (scr : Screen) (x y : Int) :
    (applyPaint scr calls).get x y =
      match lastHit scr x y calls with
      | some v => (scr.get x y).map (fun _ => v)
      | none => scr.get x y := by
  induction calls generalizing scr with
  | nil => rfl
  | cons c rest ih =>
    simp only [applyPaint, List.foldl_cons]
    have hd := put_dims c.1 scr c.2.col c.2.row (.cell c.2.cell)
    have hg := get_put c.1 scr c.2.col c.2.row (.cell c.2.cell) x y
    have ih' := ih (c.1.setCell scr c.2.col c.2.row c.2.cell)
    simp only [applyPaint] at ih'
    have hd' : (c.1.setCell scr c.2.col c.2.row c.2.cell).cols = scr.cols ∧
        (c.1.setCell scr c.2.col c.2.row c.2.cell).rows = scr.rows := hd
    rw [ih', lastHit_congr scr _ hd'.1 hd'.2]
    simp only [lastHit]
    cases hl : lastHit scr x y rest with
    | some v =>
      simp only [Win.setCell, hg]
      split <;> cases scr.get x y <;> rfl
    | none =>
      simp only [Win.setCell, hg]
      by_cases hh : hits scr x y c
      · have hh' := hh
        simp only [hits] at hh'
        simp only [hh, if_true, if_pos hh']
        rfl
      · have hh' := hh
        simp only [hits] at hh'
        simp only [hh, if_false, if_neg hh']

theorem applyPaint_dims (calls : List (Win × Op)) (scr : Screen) :
    (applyPaint scr calls).cols = scr.cols ∧ (applyPaint scr calls).rows = scr.rows := by
  induction calls generalizing scr with
  | nil => exact ⟨rfl, rfl⟩
  | cons c rest ih =>
    simp only [applyPaint, List.foldl_cons]
    have hd := put_dims c.1 scr c.2.col c.2.row (.cell c.2.cell)
    have := ih (c.1.setCell scr c.2.col c.2.row c.2.cell)
    simp only [applyPaint, Win.setCell] at this hd ⊢
    exact ⟨this.1.trans hd.1, this.2.trans hd.2⟩

theorem lastHit_some (scr : Screen) (x y : Int) (l : List (Win × Op)) (v : Cell)
    (h : lastHit scr x y l = some v) : ∃ c ∈ l, hits scr x y c ∧ c.2.cell = v := by
  induction l with
  | nil => simp [lastHit] at h
  | cons c rest ih =>
    simp only [lastHit] at h
    cases hl : lastHit scr x y rest with
    | some v' =>
      simp only [hl] at h
      obtain ⟨c', hc', hh⟩ := ih (by rw [hl, h])
      exact ⟨c', List.mem_cons_of_mem _ hc', hh⟩
    | none =>
      simp only [hl] at h
      split at h
      · rename_i hh
        exact ⟨c, List.mem_cons_self, hh, Option.some.inj h⟩
      · cases h

/-! ### descendants -/

/-- `w'` is `win` or was created (by `New` or as a literal) below it. -/
inductive Desc (win : Win) : Win → Prop where
  | refl : Desc win win
  | child (c r w h : Int) (p : Win) : Desc win p → Desc win (.child c r w h p)

theorem Desc.trans {a b c : Win} (h1 : Desc a b) (h2 : Desc b c) : Desc a c := by
  induction h2 with
  | refl => exact h1
  | child c r w h p _ ih => exact Desc.child c r w h p ih

theorem covers_of_desc {win w' : Win} (h : Desc win w') (x y : Int) (hc : covers w' x y) : covers win x y := by
  induction h with
  | refl => exact hc
  | child c r w h p _ ih => exact ih hc.2

theorem mem_insertByZ {α : Type} (x y : Int × α) (l : List (Int × α)) :
    y ∈ insertByZ x l ↔ y = x ∨ y ∈ l := by
  induction l with
  | nil => simp [insertByZ]
  | cons z rest ih =>
    simp only [insertByZ]
    split
    · simp
    · simp only [List.mem_cons, ih]
      constructor
      · rintro (h | h | h) <;> simp [h]
      · rintro (h | h | h) <;> simp [h]

theorem mem_sortByZ {α : Type} (y : Int × α) (l : List (Int × α)) : y ∈ sortByZ l ↔ y ∈ l := by
  induction l with
  | nil => simp [sortByZ]
  | cons x rest ih => simp [sortByZ, mem_insertByZ, ih]

mutual
theorem paint_desc : ∀ (s : Surface) (win : Win), ∀ c ∈ s.paint win, Desc win c.1
  | .mk w h buf kids, win => by
    intro c hc
    simp only [Surface.paint, List.mem_append, List.mem_map, List.mem_flatMap] at hc
    rcases hc with ⟨o, _, rfl⟩ | ⟨l, hl, hcl⟩
    · exact Desc.refl
    · exact layers_desc kids win l ((mem_sortByZ l _).1 hl) c hcl
theorem layers_desc : ∀ (k : Kids) (win : Win), ∀ l ∈ k.layers win, ∀ c ∈ l.2, Desc win c.1
  | .nil, _ => by intro l hl; simp [Kids.layers] at hl
  | .cons col row z s rest, win => by
    intro l hl c hc
    simp only [Kids.layers, List.mem_cons] at hl
    rcases hl with rfl | hl
    · have := paint_desc s (win.new col row (Int.ofNat s.w.toNat) (Int.ofNat s.h.toNat)) c hc
      exact Desc.trans (Desc.child _ _ _ _ win Desc.refl) this
    · exact layers_desc rest win l hl c hc
end

/-! ### the z order -/

theorem insertByZ_sorted {α : Type} (x : Int × α) (l : List (Int × α))
    (h : List.Pairwise (fun a b => a.1 ≤ b.1) l) : List.Pairwise (fun a b => a.1 ≤ b.1) (insertByZ x l) := by
  induction l with
  | nil => simp [insertByZ]
  | cons y rest ih =>
    simp only [insertByZ]
    rw [List.pairwise_cons] at h
    split
    · rename_i hxy
      refine List.Pairwise.cons ?_ (List.Pairwise.cons h.1 h.2)
      intro b hb
      rcases List.mem_cons.1 hb with rfl | hb
      · exact hxy
      · exact Int.le_trans hxy (h.1 b hb)
    · rename_i hxy
      refine List.Pairwise.cons ?_ (ih h.2)
      intro b hb
      rcases (mem_insertByZ x b rest).1 hb with rfl | hb
      · omega
      · exact h.1 b hb

theorem sortByZ_sorted {α : Type} (l : List (Int × α)) :
    List.Pairwise (fun a b => a.1 ≤ b.1) (sortByZ l) := by
  induction l with
  | nil => simp [sortByZ]
  | cons x rest ih => exact insertByZ_sorted x _ ih

end VaxisModel.Lemmas.SurfacePaint
