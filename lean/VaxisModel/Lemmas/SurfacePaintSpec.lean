/-
render ≡ the painter's algorithm of `Spec.Surface`: the last accepted call of the model's paint
sequence at a cell is the top layer of the spec at that cell.
-/
import VaxisModel.Lemmas.SurfacePaint
import VaxisModel.Lemmas.SurfaceOrder

namespace VaxisModel.Lemmas.SurfacePaintSpec
open VaxisModel.Model.Window VaxisModel.Model.Surface VaxisModel.Spec.Window VaxisModel.Spec.Surface
open VaxisModel.Lemmas.Window VaxisModel.Lemmas.SurfacePaint VaxisModel.Lemmas.SurfaceOrder

mutual
/-- The spec's view of a model surface tree. -/
def toTree : Int → Int → Int → Surface → Tree
  | col, row, z, .mk w h buf kids => .node col row z w.toNat h.toNat buf (kidsToTrees kids)
def kidsToTrees : Kids → List Tree
  | .nil => []
  | .cons col row z s rest => toTree col row z s :: kidsToTrees rest
end

/-! ### last-wins over concatenations -/

theorem lastHit_append (scr : Screen) (x y : Int) (A B : List (Win × Op)) :
    lastHit scr x y (A ++ B) =
      match lastHit scr x y B with
      | some v => some v
      | none => lastHit scr x y A := by
  induction A with
  | nil => simp only [List.nil_append, lastHit]; cases lastHit scr x y B <;> rfl
  | cons c rest ih =>
    simp only [List.cons_append, lastHit, ih]
    cases lastHit scr x y B <;> rfl

theorem topAt_append (A B : List Layer) (x y : Int) :
    topAt (A ++ B) x y =
      match topAt B x y with
      | some v => some v
      | none => topAt A x y := by
  induction A with
  | nil => simp only [List.nil_append, topAt]; cases topAt B x y <;> rfl
  | cons c rest ih =>
    simp only [List.cons_append, topAt, ih]
    cases topAt B x y <;> rfl

/-- Lists of (key, calls, layers) whose calls and layers agree entry by entry agree after
flattening. -/
theorem flat_agree (scr : Screen) (x y : Int) (l : List (Int × List (Win × Op) × List Layer))
    (h : ∀ t ∈ l, lastHit scr x y t.2.1 = topAt t.2.2 x y) :
    lastHit scr x y (l.flatMap fun t => t.2.1) = topAt (l.flatMap fun t => t.2.2) x y := by
  induction l with
  | nil => rfl
  | cons t rest ih =>
    simp only [List.flatMap_cons, lastHit_append, topAt_append]
    rw [ih (fun t' ht' => h t' (List.mem_cons_of_mem _ ht')), h t List.mem_cons_self]

/-! ### one surface's own buffer -/

theorem rect_has (r : Rect) (x y : Int) :
    r.has x y = true ↔ (r.x0 ≤ x ∧ x < r.x1 ∧ r.y0 ≤ y ∧ y < r.y1) := by
  simp [Rect.has, and_assoc]

/-- Calls of `cellOpsFrom` made on window `win`, from buffer index `i0`: the last hit at `(x,y)` is
the buffer cell whose index is `(y-ay)·W + (x-ax)`, when the window accepts `(x,y)`, the column
offset is below `W`, and that index lies in the part of the buffer covered. -/
theorem own_from (scr : Screen) (win : Win) (ax ay : Int) (ho : absOrigin win = (ax, ay))
    (W : UInt16) (hW : W.toNat ≠ 0) (x y : Int) (hx : ax ≤ x) (hy : ay ≤ y)
    (hv : visible win scr x y) (buf : List Cell) (i0 : Nat) :
    lastHit scr x y ((cellOpsFrom W i0 buf).map fun o => (win, o)) =
      if (x - ax).toNat < W.toNat ∧ i0 ≤ (y - ay).toNat * W.toNat + (x - ax).toNat
      then buf[(y - ay).toNat * W.toNat + (x - ax).toNat - i0]? else none := by
  induction buf generalizing i0 with
  | nil => simp [cellOpsFrom, lastHit]
  | cons c rest ih =>
    simp only [cellOpsFrom, List.map_cons, lastHit, ih (i0 + 1)]
    have hWpos : 0 < W.toNat := Nat.pos_of_ne_zero hW
    generalize hop : ({ col := Int.ofNat (i0 % W.toNat), row := Int.ofNat (i0 / W.toNat), cell := c } : Op) = op
    have hopc : op.col = ((i0 % W.toNat : Nat) : Int) := by rw [← hop]; rfl
    have hopr : op.row = ((i0 / W.toNat : Nat) : Int) := by rw [← hop]; rfl
    have hopcell : op.cell = c := by rw [← hop]
    generalize hdx : (x - ax).toNat = dx
    generalize hdy : (y - ay).toNat = dy
    have hxe : x = ax + dx := by omega
    have hye : y = ay + dy := by omega
    have hdm := Nat.div_add_mod i0 W.toNat
    rw [Nat.mul_comm] at hdm
    -- the head call hits (x,y) iff its index is the target index and the column offset is in range
    have hhit : hits scr x y (win, op) ↔ (dx = i0 % W.toNat ∧ dy = i0 / W.toNat) := by
      simp only [hits, ho, hopc, hopr]
      constructor
      · rintro ⟨h1, h2, _⟩
        constructor
        · have : (dx : Int) = ((i0 % W.toNat : Nat) : Int) := by omega
          exact_mod_cast this
        · have : (dy : Int) = ((i0 / W.toNat : Nat) : Int) := by omega
          exact_mod_cast this
      · rintro ⟨h1, h2⟩
        refine ⟨?_, ?_, hv⟩
        · rw [hxe, h1]
        · rw [hye, h2]
    have hml := Nat.mod_lt i0 hWpos
    by_cases hlt : dx < W.toNat
    · by_cases hge : i0 + 1 ≤ dy * W.toNat + dx
      · -- the target index is later in the buffer
        have hA1 : dx < W.toNat ∧ i0 + 1 ≤ dy * W.toNat + dx := ⟨hlt, hge⟩
        have hA2 : dx < W.toNat ∧ i0 ≤ dy * W.toNat + dx := ⟨hlt, by omega⟩
        rw [if_pos hA1, if_pos hA2]
        have e : dy * W.toNat + dx - i0 = (dy * W.toNat + dx - (i0 + 1)) + 1 := by omega
        rw [e, List.getElem?_cons_succ]
        cases hr : rest[dy * W.toNat + dx - (i0 + 1)]? with
        | some v => rfl
        | none =>
          have hne : ¬ hits scr x y (win, op) := by
            rw [hhit]; rintro ⟨h1, h2⟩; rw [h1, h2] at hge; omega
          dsimp only
          rw [if_neg hne]
      · by_cases heq : i0 = dy * W.toNat + dx
        · -- the head is the target
          have hA1 : ¬ (dx < W.toNat ∧ i0 + 1 ≤ dy * W.toNat + dx) := fun h => hge h.2
          have hA2 : dx < W.toNat ∧ i0 ≤ dy * W.toNat + dx := ⟨hlt, by omega⟩
          rw [if_neg hA1, if_pos hA2]
          have hmod : i0 % W.toNat = dx := by
            rw [heq, Nat.mul_comm, Nat.mul_add_mod]; exact Nat.mod_eq_of_lt hlt
          have hdiv : i0 / W.toNat = dy := by
            rw [heq, Nat.mul_comm, Nat.mul_add_div hWpos, Nat.div_eq_of_lt hlt]; simp
          have hh : hits scr x y (win, op) := by rw [hhit]; exact ⟨hmod.symm, hdiv.symm⟩
          have e : dy * W.toNat + dx - i0 = 0 := by omega
          dsimp only
          rw [if_pos hh, e]
          rfl
        · -- the target index is before this part of the buffer
          have hA1 : ¬ (dx < W.toNat ∧ i0 + 1 ≤ dy * W.toNat + dx) := fun h => hge h.2
          have hA2 : ¬ (dx < W.toNat ∧ i0 ≤ dy * W.toNat + dx) := fun h => by omega
          rw [if_neg hA1, if_neg hA2]
          have hne : ¬ hits scr x y (win, op) := by
            rw [hhit]; rintro ⟨h1, h2⟩; rw [h1, h2] at heq; omega
          dsimp only
          rw [if_neg hne]
    · -- column offset beyond the width: nothing of this surface lands here
      have hA1 : ¬ (dx < W.toNat ∧ i0 + 1 ≤ dy * W.toNat + dx) := fun h => hlt h.1
      have hA2 : ¬ (dx < W.toNat ∧ i0 ≤ dy * W.toNat + dx) := fun h => hlt h.1
      rw [if_neg hA1, if_neg hA2]
      have hne : ¬ hits scr x y (win, op) := by
        rw [hhit]; rintro ⟨h1, _⟩; omega
      dsimp only
      rw [if_neg hne]

theorem lastHit_none_of_invisible (scr : Screen) (win : Win) (x y : Int) (hv : ¬ visible win scr x y)
    (ops : List Op) : lastHit scr x y (ops.map fun o => (win, o)) = none := by
  induction ops with
  | nil => rfl
  | cons o rest ih =>
    simp only [List.map_cons, lastHit, ih]
    have : ¬ hits scr x y (win, o) := fun h => hv h.2.2
    simp [this]

/-- The own buffer of a surface painted on `win` shows exactly what the spec's layer shows. -/
theorem own_layer (scr : Screen) (win : Win) (ax ay : Int) (ho : absOrigin win = (ax, ay))
    (C : Rect) (hC : ∀ x y, visible win scr x y ↔ C.has x y = true)
    (hlow : ∀ x y, C.has x y = true → ax ≤ x ∧ ay ≤ y)
    (W : UInt16) (buf : List Cell) (hz : W.toNat = 0 → buf = []) (x y : Int) :
    lastHit scr x y ((cellOps W buf).map fun o => (win, o)) =
      Layer.at { ax := ax, ay := ay, clip := C, w := W.toNat, buf := buf } x y := by
  unfold Layer.at
  by_cases hv : C.has x y = true
  · by_cases hW : W.toNat = 0
    · simp [hW, hz hW, cellOps, cellOpsFrom, lastHit]
    · have hl := hlow x y hv
      have := own_from scr win ax ay ho W hW x y hl.1 hl.2 ((hC x y).2 hv) buf 0
      simp only [cellOps, this, Nat.zero_le, and_true, Nat.sub_zero, hv, hW, ne_eq, not_false_eq_true, and_self, if_true]
  · have hinv : ¬ visible win scr x y := fun h => hv ((hC x y).1 h)
    simp [cellOps, lastHit_none_of_invisible scr win x y hinv, hv]

/-! ### the whole tree -/

/-- The spec layers of a surface body placed at `(ax,ay)` with clip `c`. -/
def bodyLayers (w _h : Nat) (buf : List Cell) (kids : List Tree) (ax ay : Int) (c : Rect) : List Layer :=
  { ax := ax, ay := ay, clip := c, w := w, buf := buf } :: ((orderByKey (layersEach kids ax ay c)).flatMap (·.2))

theorem layers_eq (clipOwn : Bool) (col row z : Int) (w h : Nat) (buf : List Cell) (kids : List Tree)
    (px py : Int) (clip : Rect) :
    layers clipOwn (.node col row z w h buf kids) px py clip =
      bodyLayers w h buf kids (px + col) (py + row)
        (if clipOwn then clip.inter { x0 := px + col, y0 := py + row, x1 := px + col + w, y1 := py + row + h } else clip) := by
  simp [layers, bodyLayers]

/-- Per child: (z, model calls, spec layers). -/
def both : Kids → Win → Int → Int → Rect → List (Int × List (Win × Op) × List Layer)
  | .nil, _, _, _, _ => []
  | .cons col row z s rest, win, ax, ay, c =>
      (z, s.paint (win.new col row (Int.ofNat s.w.toNat) (Int.ofNat s.h.toNat)),
          layers true (toTree col row z s) ax ay c) :: both rest win ax ay c

theorem zOf_toTree (col row z : Int) (s : Surface) : zOf (toTree col row z s) = z := by
  cases s; simp [toTree, zOf]

theorem both_calls : ∀ (k : Kids) (win : Win) (ax ay : Int) (c : Rect),
    (both k win ax ay c).map (fun t => (t.1, t.2.1)) = k.layers win
  | .nil, _, _, _, _ => rfl
  | .cons col row z s rest, win, ax, ay, c => by
    simp [both, Kids.layers, both_calls rest win ax ay c]

theorem both_layers : ∀ (k : Kids) (win : Win) (ax ay : Int) (c : Rect),
    (both k win ax ay c).map (fun t => (t.1, t.2.2)) = layersEach (kidsToTrees k) ax ay c
  | .nil, _, _, _, _ => rfl
  | .cons col row z s rest, win, ax, ay, c => by
    simp [both, kidsToTrees, layersEach, zOf_toTree, both_layers rest win ax ay c]

theorem inter_has (a b : Rect) (x y : Int) : (a.inter b).has x y = true ↔ (a.has x y = true ∧ b.has x y = true) := by
  simp only [rect_has, Rect.inter]
  constructor
  · intro h; omega
  · intro h; omega

/-- What ties a window to the spec's description of where a surface is painted: same absolute
origin, the window accepts exactly the cells of the clip rectangle, and the clip rectangle lies
right of / below the origin. -/
structure Tied (scr : Screen) (win : Win) (ax ay : Int) (C : Rect) : Prop where
  origin : absOrigin win = (ax, ay)
  vis : ∀ x y, visible win scr x y ↔ C.has x y = true
  low : ∀ x y, C.has x y = true → ax ≤ x ∧ ay ≤ y

/-- The child window `New` creates is tied to the spec's child clip: parent clip ∩ child rectangle. -/
theorem tied_child {scr : Screen} {win : Win} {ax ay : Int} {C : Rect} (h : Tied scr win ax ay C)
    (col row : Int) (w hh : Nat) :
    Tied scr (win.new col row (Int.ofNat w) (Int.ofNat hh)) (ax + col) (ay + row)
      (C.inter { x0 := ax + col, y0 := ay + row, x1 := ax + col + w, y1 := ay + row + hh }) := by
  have ho1 : (absOrigin win).1 = ax := by rw [h.origin]
  have ho2 : (absOrigin win).2 = ay := by rw [h.origin]
  refine ⟨?_, ?_, ?_⟩
  · rw [absOrigin_new, ho1, ho2]
  · intro x y
    rw [inter_has, ← h.vis x y, rect_has]
    simp only [visible, covers_new win col row _ _ (Int.natCast_nonneg w) (Int.natCast_nonneg hh), ho1, ho2,
      Int.ofNat_eq_natCast]
    constructor
    · rintro ⟨⟨h1, h2⟩, h3⟩; exact ⟨⟨h2, h3⟩, h1⟩
    · rintro ⟨⟨h2, h3⟩, h1⟩; exact ⟨⟨h1, h2⟩, h3⟩
  · intro x y hxy
    have := ((inter_has _ _ x y).1 hxy).2
    rw [rect_has] at this
    exact ⟨this.1, this.2.2.1⟩

/-- Spec layers of a model surface placed at `(ax,ay)` with clip `c`. -/
def bodyOf : Surface → Int → Int → Rect → List Layer
  | .mk w h buf kids, ax, ay, c => bodyLayers w.toNat h.toNat buf (kidsToTrees kids) ax ay c

theorem layers_toTree (clipOwn : Bool) (col row z : Int) (s : Surface) (px py : Int) (clip : Rect) :
    layers clipOwn (toTree col row z s) px py clip =
      bodyOf s (px + col) (py + row)
        (if clipOwn then clip.inter { x0 := px + col, y0 := py + row, x1 := px + col + s.w.toNat, y1 := py + row + s.h.toNat }
         else clip) := by
  cases s with
  | mk w h buf kids => simp [toTree, layers_eq, bodyOf, Surface.w, Surface.h]

mutual
/-- The last accepted call of a surface's paint sequence at `(x,y)` is the spec's top layer there. -/
theorem paint_spec (scr : Screen) : ∀ (s : Surface) (win : Win) (ax ay : Int) (C : Rect),
    Tied scr win ax ay C → s.divZero = false → ∀ x y,
    lastHit scr x y (s.paint win) = topAt (bodyOf s ax ay C) x y
  | .mk w h buf kids, win, ax, ay, C, ht, hd, x, y => by
    have hd' : (w == 0 && !buf.isEmpty) = false ∧ kids.divZero = false := by
      simpa [Surface.divZero] using hd
    have hz : w.toNat = 0 → buf = [] := by
      intro hw
      have hw0 : w = 0 := UInt16.toNat_inj.1 (by simpa using hw)
      have := hd'.1
      simp only [hw0, beq_self_eq_true, Bool.true_and, Bool.not_eq_false', List.isEmpty_iff] at this
      exact this
    have hkids : lastHit scr x y ((sortByZ (kids.layers win)).flatMap (·.2)) =
        topAt ((orderByKey (layersEach (kidsToTrees kids) ax ay C)).flatMap (·.2)) x y := by
      rw [sortByZ_eq_orderByKey, ← both_calls kids win ax ay C, ← both_layers kids win ax ay C,
        orderByKey_map (fun p : List (Win × Op) × List Layer => p.1),
        orderByKey_map (fun p : List (Win × Op) × List Layer => p.2), List.flatMap_map, List.flatMap_map]
      apply flat_agree
      intro t htm
      exact kids_spec scr kids win ax ay C ht hd'.2 x y t ((mem_orderByKey _ t).1 htm)
    simp only [Surface.paint, bodyOf, bodyLayers, lastHit_append, topAt]
    rw [hkids, own_layer scr win ax ay ht.origin C ht.vis ht.low w buf hz x y]
    generalize topAt ((orderByKey (layersEach (kidsToTrees kids) ax ay C)).flatMap (·.2)) x y = r
    cases r <;> rfl
theorem kids_spec (scr : Screen) : ∀ (k : Kids) (win : Win) (ax ay : Int) (C : Rect),
    Tied scr win ax ay C → k.divZero = false → ∀ x y,
    ∀ t ∈ both k win ax ay C, lastHit scr x y t.2.1 = topAt t.2.2 x y
  | .nil, _, _, _, _, _, _, _, _ => by intro t ht; cases ht
  | .cons col row z s rest, win, ax, ay, C, ht, hd, x, y => by
    have hd' : s.divZero = false ∧ rest.divZero = false := by
      simpa [Kids.divZero] using hd
    intro t htm
    simp only [both, List.mem_cons] at htm
    rcases htm with rfl | htm
    · simp only
      rw [layers_toTree, if_pos rfl]
      exact paint_spec scr s _ _ _ _ (tied_child ht col row s.w.toNat s.h.toNat) hd'.1 x y
    · exact kids_spec scr rest win ax ay C ht hd'.2 x y t htm
end

/-- The full-screen window is tied to the screen rectangle. -/
theorem tied_root (scr : Screen) :
    Tied scr (Win.ofScreen scr) 0 0 { x0 := 0, y0 := 0, x1 := scr.cols, y1 := scr.rows } := by
  refine ⟨rfl, ?_, ?_⟩
  · intro x y
    simp only [visible, Win.ofScreen, covers, inOwnRect, absOrigin, width_root, height_root, inScreen, rect_has]
    constructor
    · intro h; omega
    · intro h; omega
  · intro x y h
    rw [rect_has] at h
    exact ⟨h.1, h.2.2.1⟩

/-- The window App.Run hands to render for the root surface (`win.New(0,0,W,H)` of the screen
window) is tied to screen rectangle ∩ root rectangle. -/
theorem tied_rootWin (scr : Screen) (s : Surface) :
    Tied scr (rootWin s (Win.ofScreen scr)) (0 + 0) (0 + 0)
      (({ x0 := 0, y0 := 0, x1 := scr.cols, y1 := scr.rows } : Rect).inter
        { x0 := 0 + 0, y0 := 0 + 0, x1 := 0 + 0 + s.w.toNat, y1 := 0 + 0 + s.h.toNat }) :=
  tied_child (tied_root scr) 0 0 s.w.toNat s.h.toNat

/-! ### the cleared screen of a frame -/

theorem wf_applyOps (win : Win) (ops : List Op) (s : Screen) (hwf : s.WF) : (applyOps win s ops).WF := by
  induction ops generalizing s with
  | nil => exact hwf
  | cons o rest ih =>
    simp only [applyOps, List.foldl_cons]
    exact ih _ (wf_put win s hwf o.col o.row (.cell o.cell))

/-- `win.Clear()` on the whole screen: same dimensions, well-formed, every cell the blank cell. -/
theorem clear_screen (scr : Screen) (hwf : scr.WF) :
    (clear (Win.ofScreen scr) scr).WF ∧ (clear (Win.ofScreen scr) scr).cols = scr.cols ∧
    (clear (Win.ofScreen scr) scr).rows = scr.rows ∧
    ∀ x y, inScreen scr x y → (clear (Win.ofScreen scr) scr).get x y = some clearCell := by
  have hd := applyOps_dims (Win.ofScreen scr) (fillOps (Win.ofScreen scr) clearCell) scr
  refine ⟨wf_applyOps _ _ _ hwf, hd.1, hd.2, ?_⟩
  intro x y hin
  apply fill_reaches (Win.ofScreen scr) scr hwf clearCell x y
  refine ((tied_root scr).vis x y).2 ((rect_has _ x y).2 ?_)
  unfold inScreen at hin
  exact ⟨hin.1, hin.2.1, hin.2.2.1, hin.2.2.2⟩

end VaxisModel.Lemmas.SurfacePaintSpec
