/-
Composition of the two halves of C14: every surface tree a built-in widget's Draw returns holds
W·H cells in every node ("well sized"), and rendering a well-sized tree never divides by zero — so
a frame of App.Run over any tree of built-in widgets cannot panic in render.
-/
import VaxisModel.Lemmas.Layout

namespace VaxisModel.Lemmas.SurfaceSized
open VaxisModel.Model.Window VaxisModel.Model.Surface VaxisModel.Model.Layout
open VaxisModel.Lemmas.Surface VaxisModel.Lemmas.Layout

mutual
/-- Every surface of the tree has a buffer of exactly Height·Width cells. -/
def WellSized : Surface → Prop
  | .mk w h buf kids => buf.length = h.toNat * w.toNat ∧ KidsSized kids
def KidsSized : Kids → Prop
  | .nil => True
  | .cons _ _ _ s rest => WellSized s ∧ KidsSized rest
end

theorem wellSized_iff (s : Surface) : WellSized s ↔ (Sized s ∧ KidsSized s.kids) := by
  cases s; simp [WellSized, Sized, Surface.buf, Surface.h, Surface.w, Surface.kids]

mutual
/-- render's `i / int(s.Size.Width)` runs only for cells of the buffer: a well-sized tree has no
surface of width 0 with a non-empty buffer. -/
theorem divZero_of_wellSized : ∀ s : Surface, WellSized s → s.divZero = false
  | .mk w h buf kids, hs => by
    obtain ⟨hb, hk⟩ := (by simpa [WellSized] using hs : buf.length = h.toNat * w.toNat ∧ KidsSized kids)
    simp only [Surface.divZero, Bool.or_eq_false_iff, divZero_of_kidsSized kids hk, and_true]
    by_cases hw : w = 0
    · subst hw
      have : buf = [] := List.length_eq_zero_iff.1 (by rw [hb]; simp)
      simp [this]
    · simp [hw]
theorem divZero_of_kidsSized : ∀ k : Kids, KidsSized k → k.divZero = false
  | .nil, _ => rfl
  | .cons _ _ _ s rest, hk => by
    obtain ⟨h1, h2⟩ := (by simpa [KidsSized] using hk : WellSized s ∧ KidsSized rest)
    simp [Kids.divZero, divZero_of_wellSized s h1, divZero_of_kidsSized rest h2]
end

theorem kidsSized_snoc : ∀ (k : Kids) (c r z : Int) (s : Surface), KidsSized k → WellSized s →
    KidsSized (k.snoc c r z s)
  | .nil, _, _, _, _, _, hs => by simp [Kids.snoc, KidsSized, hs]
  | .cons _ _ _ s0 rest, c, r, z, s, hk, hs => by
    obtain ⟨h1, h2⟩ := (by simpa [KidsSized] using hk : WellSized s0 ∧ KidsSized rest)
    simp [Kids.snoc, KidsSized, h1, kidsSized_snoc rest c r z s h2 hs]

theorem wellSized_addChild (s : Surface) (c r : Int) (ch : Surface) (hs : WellSized s) (hc : WellSized ch) :
    WellSized (addChild s c r ch) := by
  cases s with
  | mk w h b k =>
    obtain ⟨hb, hk⟩ := (by simpa [WellSized] using hs : b.length = h.toNat * w.toNat ∧ KidsSized k)
    simp [addChild, WellSized, hb, kidsSized_snoc k c r 0 ch hk hc]

theorem wellSized_new (w h : UInt16) : WellSized (newSurface exact w h) := by
  simp [newSurface, WellSized, KidsSized, bufLen, exact]

theorem wellSized_setBuf (s : Surface) (b : List Cell) (hs : WellSized s) (hl : b.length = s.buf.length) :
    WellSized (s.setBuf b) := by
  cases s with
  | mk w h b0 k =>
    obtain ⟨hb, hk⟩ := (by simpa [WellSized] using hs : b0.length = h.toNat * w.toNat ∧ KidsSized k)
    simp only [Surface.buf] at hl
    simp [Surface.setBuf, WellSized, hl, hb, hk]

theorem wellSized_fill (s : Surface) (st : Nat) (hs : WellSized s) : WellSized (fillStyle s st) := by
  unfold fillStyle
  exact wellSized_setBuf s _ hs (by simp)

theorem wellSized_of_leaf (s : Surface) (hk : s.kids = .nil) (hs : Sized s) : WellSized s := by
  rw [wellSized_iff, hk]; exact ⟨hs, by simp [KidsSized]⟩

theorem wellSized_center (c : Ctx) (ch : Surface) (hc : WellSized ch) : WellSized (centerAround exact c ch) := by
  unfold centerAround
  rw [surface_center]
  exact wellSized_addChild _ _ _ ch (wellSized_new _ _) hc

theorem wellSized_dynPlace (off gap : Int) : ∀ (chs : List Surface) (ah : Int) (s : Surface),
    WellSized s → (∀ ch ∈ chs, WellSized ch) → WellSized (dynPlace off gap chs ah s)
  | [], _, _, hs, _ => hs
  | ch :: rest, ah, s, hs, hall => by
    simp only [dynPlace]
    exact wellSized_dynPlace off gap rest _ _
      (wellSized_addChild s off ah ch hs (hall ch List.mem_cons_self))
      (fun x hx => hall x (List.mem_cons_of_mem _ hx))

theorem kidsSized_wrapFirst (c : Ctx) (off : Int) : ∀ k : Kids, KidsSized k → KidsSized (dynWrapFirst exact c off k)
  | .nil, _ => by simp [dynWrapFirst, KidsSized]
  | .cons _ row z ch rest, hk => by
    obtain ⟨h1, h2⟩ := (by simpa [KidsSized] using hk : WellSized ch ∧ KidsSized rest)
    simp only [dynWrapFirst, KidsSized, surface_dynamic_cursor]
    exact ⟨wellSized_addChild _ off 0 ch (wellSized_new _ _) h1, h2⟩

theorem wellSized_dynAround (cursor : Bool) (gap : Int) (c : Ctx) (chs : List Surface)
    (hall : ∀ ch ∈ chs, WellSized ch) : WellSized (dynAround exact cursor gap c chs) := by
  have h := wellSized_dynPlace (Int.ofNat (dynOff cursor).toNat) gap chs 0 (newSurface exact c.maxW c.maxH)
    (wellSized_new _ _) hall
  simp only [dynAround, surface_dynamic]
  generalize dynPlace (Int.ofNat (dynOff cursor).toNat) gap chs 0 (newSurface exact c.maxW c.maxH) = p at h ⊢
  cases p with
  | mk w hh b k =>
    obtain ⟨hb, hk⟩ := (by simpa [WellSized] using h : b.length = hh.toNat * w.toNat ∧ KidsSized k)
    cases cursor with
    | false => simp [WellSized, hb, hk]
    | true => simp [WellSized, hb, kidsSized_wrapFirst c _ k hk]

section
variable (tm : Bool → Nat → TextMode) (rm : Bool → TextMode)

theorem wellSized_text (m : TextMode) (c : Ctx) (lines : List (List Cell)) (s : Surface)
    (h : drawText exact m c lines = .ok s) : WellSized s := by
  obtain ⟨s', h', _, _, hk, hs⟩ := drawText_ok m c lines
  rw [h] at h'; cases h'
  exact wellSized_of_leaf s hk hs

theorem wellSized_field (c : Ctx) (chars : List Cell) (s : Surface)
    (h : drawField exact c chars = .ok s) : WellSized s := by
  unfold drawField at h
  rw [surface_field] at h
  split at h
  · cases h; simp [emptySurface, WellSized, KidsSized]
  · obtain ⟨s', h', _, _, hk, hs⟩ := fieldLoop_ok chars 0 (newSurface exact c.maxW 1) (newSurface_sized c.maxW 1)
    rw [h] at h'; cases h'
    exact wellSized_of_leaf s (hk.trans (newSurface_dims exact c.maxW 1).2.2) hs

mutual
/-- Whatever a built-in widget tree's Draw returns is well sized. -/
theorem wellSized_draw : ∀ (w : Widget) (c : Ctx) (s : Surface),
    drawWith exact tm rm w c = .ok s → WellSized s
  | .text hard st lines, c, s, h => wellSized_text (tm hard st) c lines s (by simpa [drawWith] using h)
  | .rich hard lines, c, s, h => wellSized_text (rm hard) c lines s (by simpa [drawWith] using h)
  | .field chars, c, s, h => wellSized_field c chars s (by simpa [drawWith] using h)
  | .center child, c, s, h => by
    simp only [drawWith] at h
    split at h
    · cases h
    · cases hch : drawWith exact tm rm child { minW := 0, minH := 0, maxW := c.maxW, maxH := c.maxH } with
      | error e => rw [hch] at h; cases h
      | ok ch =>
        rw [hch] at h; cases h
        exact wellSized_center c ch (wellSized_draw child _ ch hch)
  | .button st lines, c, s, h => by
    simp only [drawWith] at h
    split at h
    · cases h
    · cases hch : drawText exact (tm false st) { minW := 0, minH := 0, maxW := c.maxW, maxH := c.maxH } lines with
      | error e => rw [hch] at h; cases h
      | ok ch =>
        rw [hch] at h; cases h
        exact wellSized_fill _ st (wellSized_center c ch (wellSized_text _ _ lines ch hch))
  | .dynamic cursor gap kids, c, s, h => by
    simp only [drawWith] at h
    split at h
    · cases h
    · cases hk : drawKids exact tm rm kids (dynChildCtx cursor c) with
      | error e => rw [hk] at h; cases h
      | ok l =>
        rw [hk] at h; cases h
        exact wellSized_dynAround cursor gap c l (wellSized_drawKids kids _ l hk)
theorem wellSized_drawKids : ∀ (k : Widgets) (c : Ctx) (l : List Surface),
    drawKids exact tm rm k c = .ok l → ∀ s ∈ l, WellSized s
  | .nil, _, l, h => by
    simp only [drawKids] at h; cases h; intro s hs; cases hs
  | .cons w rest, c, l, h => by
    simp only [drawKids] at h
    cases hw : drawWith exact tm rm w c with
    | error e => rw [hw] at h; cases h
    | ok s0 =>
      rw [hw] at h
      cases hr : drawKids exact tm rm rest c with
      | error e => rw [hr] at h; cases h
      | ok l0 =>
        rw [hr] at h; cases h
        intro s hs
        rcases List.mem_cons.1 hs with rfl | hm
        · exact wellSized_draw w c s hw
        · exact wellSized_drawKids rest c l0 hr s hm
end
end

end VaxisModel.Lemmas.SurfaceSized
