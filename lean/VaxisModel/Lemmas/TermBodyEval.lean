/-
Symbolic evaluation of the extracted bodies of `encodeXterm` and `handleMouse` (Gen/TermBody.lean)
by the interpreter of Model/GoInterp.lean, and their comparison with the hand-written model
(Model/TermKey.lean, Model/TermMouse.lean).  Helper lemmas for Props/C13Body.lean.
-/
import VaxisModel.Model.TermBody
import VaxisModel.Lemmas.GoInterp

namespace VaxisModel.Lemmas.TermBodyEval
open VaxisModel.Model.TermBody VaxisModel.Model.Key VaxisModel.Model.GoBody VaxisModel.Model.GoInterp VaxisModel.Gen.Keys
open VaxisModel.Lemmas.GoInterp VaxisModel.Model.TermMouse VaxisModel.Model.Mouse VaxisModel.Model.TermKey VaxisModel.Gen.TermKeys

theorem const_vModShift : List.lookup "vaxis.ModShift" termConstEnv = some (.int (ModShift : Nat)) := rfl
theorem const_vModAlt : List.lookup "vaxis.ModAlt" termConstEnv = some (.int (ModAlt : Nat)) := rfl
theorem const_vModCtrl : List.lookup "vaxis.ModCtrl" termConstEnv = some (.int (ModCtrl : Nat)) := rfl
theorem const_MaxRune : List.lookup "unicode.MaxRune" termConstEnv = some (.int maxRune) := rfl
set_option maxRecDepth 8000 in
theorem const_vKeyTab : List.lookup "vaxis.KeyTab" termConstEnv = some (.int KeyTab) := rfl

theorem match_ite_some {α β : Type} (c : Prop) [Decidable c] (a : α) (rest : Option α) (F : α → β) (D : β) :
    (match (if c then some a else rest) with | some o => F o | none => D) =
      if c then F a else (match rest with | some o => F o | none => D) := by
  split <;> rename_i h <;> split at h <;> simp_all

theorem match_none' {α β : Type} (F : α → β) (D : β) :
    (match (none : Option α) with | some o => F o | none => D) = D := rfl

theorem vr49 : validRune 49 = true := by decide
theorem vr0 : validRune 0 = true := by decide
theorem vr27 : validRune 27 = true := by decide
theorem vr28 : validRune 28 = true := by decide
theorem vr29 : validRune 29 = true := by decide
theorem vr30 : validRune 30 = true := by decide
theorem vr31 : validRune 31 = true := by decide
theorem vr127 : validRune 127 = true := by decide

syntax "bc " ident " : " term : tactic
macro_rules
  | `(tactic| bc $h:ident : $t:term) =>
    `(tactic| all_goals (first | (by_cases $h:ident : $t <;>
        simp only [$h:ident, reduceIte, not_true_eq_false, not_false_eq_true, and_true, true_and, and_false, false_and, and_self,
          List.map, List.cons_append, List.nil_append, vr49, vr0, vr27, vr28, vr29, vr30, vr31, vr127, and_assoc] <;> try rfl) | skip))

theorem sprintf_csi2 (d : Int → Str) (n m f : Int) :
    sprintfAux d [27, 91, 37, 100, 59, 37, 100, 37, 99] false [.int n, .int m, .int f] [] =
      .str (27 :: 91 :: (d n ++ 59 :: (d m ++ strOfRune f))) := by
  simp [sprintfAux]

set_option maxHeartbeats 400000 in
set_option maxRecDepth 100000 in
set_option linter.unusedSimpArgs false in
theorem encodeXterm_body_mods (u : Uni) (key : Key) (pam ckm : Bool)
    (hm : ¬ (key.mods &&& ModShift ||| key.mods &&& ModAlt ||| key.mods &&& ModCtrl = 0)) :
    encodeXtermGen u key pam ckm = some (encodeXterm u key pam ckm) := by
  unfold encodeXtermGen VaxisModel.Gen.TermBody.encodeXtermBody
  simp (config := {maxSteps := 4000000}) only [Ss.ofList, Es.ofList, Cs.ofList, execSs, execS, execCs, execDefault, labelHit, isTrue_bool, lhsNames, evalEs, evalE,
    VaxisModel.Model.GoInterp.bind, VaxisModel.Model.KeyBody.keyFields, zeroOf,
    assignVals, hasErr, bindAll, List.lookup, List.map, List.append, String.reduceEq, String.reduceBEq, String.reduceAppend, ctx, termMaps, strTable, mapIndex, V.asKey,
    reduceIte, or_false, false_or, or_self, List.length, Option.map, List.cons_append, List.nil_append, Bool.or_false, List.any,
    andThen_norm, andThen_ret, andThen_err, andThen_ite, afterSwitch_ite, afterSwitch_ret, afterSwitch_norm, branch_bool,
    binop_land, binop_eq_int, binop_eq_str, binop_eq_bool, binop_ne_int, binop_ne_str, binop_add, binop_sub, binop_band, binop_bor, binop_lt, binop_gt, binop_ge, binop_le, unop_not,
    Bool.false_eq_true, const_vModShift, const_vModAlt, const_vModCtrl, const_MaxRune, const_vKeyTab,
    retStr_ite, retStr_ret, callStmt, callFn_int, callFn_string, callFn_toUpper, callFn_isLower, callFn_newBuffer, callFn_bufString,
    VaxisModel.Model.KeyBody.noFuncs, Int.toNat_natCast, lookupKey_map1, Int.natCast_eq_zero, decide_eq_true_eq, hm, decide_false, callFn_sprintf, sprintf_csi2]
  unfold encodeXterm encodeTables
  dsimp only
  generalize lookup key.keycode xtermKeymap = r6
  delta ctrlCases ctrlDefaultRange
  simp only [lookup, hm, reduceIte]
  cases r6 with
  | some nf =>
    obtain ⟨n, f⟩ := nf
    simp only [Option.isSome, Option.getD, reduceIte, Bool.false_eq_true]
    repeat' split
    all_goals (first | rfl | (simp_all; done) | grind)
  | none =>
    simp only [Option.isSome, Option.getD, reduceIte, Bool.false_eq_true]
    have s27 : strOfRune 27 = [27] := by decide
    have s49 : strOfRune 49 = [49] := by decide
    have s0 : strOfRune 0 = [0] := by decide
    have s28 : strOfRune 28 = [28] := by decide
    have s29 : strOfRune 29 = [29] := by decide
    have s30 : strOfRune 30 = [30] := by decide
    have s31 : strOfRune 31 = [31] := by decide
    have s127 : strOfRune 127 = [127] := by decide
    simp only [s27, s49, s0, s28, s29, s30, s31, s127, Bool.and_eq_true, decide_eq_true_eq, Bool.not_eq_true',
      decide_eq_false_iff_not, Int.natCast_inj, ne_eq, ge_iff_le, Bool.not_eq_eq_eq_not, Bool.not_true,
      @eq_comm _ (49 : Int) key.keycode, @eq_comm _ (50 : Int) key.keycode, @eq_comm _ (51 : Int) key.keycode,
      @eq_comm _ (52 : Int) key.keycode, @eq_comm _ (53 : Int) key.keycode, @eq_comm _ (54 : Int) key.keycode,
      @eq_comm _ (55 : Int) key.keycode, @eq_comm _ (56 : Int) key.keycode, @eq_comm _ (57 : Int) key.keycode]
    clear s27 s49 s0 s28 s29 s30 s31 s127 hm
    simp only [and_assoc]
    by_cases hTab : key.keycode = KeyTab ∧ key.mods &&& ModShift ||| key.mods &&& ModAlt ||| key.mods &&& ModCtrl = ModShift
    · simp only [hTab, and_self, reduceIte]
    · simp only [hTab, reduceIte]
      bc hText : ¬key.text = [] ∧ key.mods &&& ModCtrl = 0 ∧ key.mods &&& ModAlt = 0
      bc hKc : key.keycode < maxRune
      bc hAlt : (key.mods &&& ModShift ||| key.mods &&& ModAlt ||| key.mods &&& ModCtrl) &&& ModAlt = 0
      bc hCtrl : (key.mods &&& ModShift ||| key.mods &&& ModAlt ||| key.mods &&& ModCtrl) &&& ModCtrl = 0
      bc hLow : 97 ≤ key.keycode ∧ key.keycode ≤ 122
      bc h49 : key.keycode = 49
      bc h50 : key.keycode = 50
      bc h51 : key.keycode = 51
      bc h52 : key.keycode = 52
      bc h53 : key.keycode = 53
      bc h54 : key.keycode = 54
      bc h55 : key.keycode = 55
      bc h56 : key.keycode = 56
      bc h57 : key.keycode = 57
      bc hRange : 64 ≤ key.keycode ∧ key.keycode < 96
      bc hShift : (key.mods &&& ModShift ||| key.mods &&& ModAlt ||| key.mods &&& ModCtrl) &&& ModShift = 0
      bc hSh : key.shifted > 0


set_option maxHeartbeats 400000 in
set_option maxRecDepth 100000 in
set_option linter.unusedSimpArgs false in
theorem encodeXterm_body_plain_false_false (u : Uni) (key : Key)
    (h0 : key.mods &&& ModShift ||| key.mods &&& ModAlt ||| key.mods &&& ModCtrl = 0) :
    encodeXtermGen u key false false = some (encodeXterm u key false false) := by
  unfold encodeXtermGen VaxisModel.Gen.TermBody.encodeXtermBody
  simp (config := {maxSteps := 4000000}) only [Ss.ofList, Es.ofList, Cs.ofList, execSs, execS, execCs, execDefault, labelHit, isTrue_bool, lhsNames, evalEs, evalE,
    VaxisModel.Model.GoInterp.bind, VaxisModel.Model.KeyBody.keyFields, zeroOf,
    assignVals, hasErr, bindAll, List.lookup, List.map, List.append, String.reduceEq, String.reduceBEq, String.reduceAppend, ctx, termMaps, strTable, mapIndex, V.asKey,
    reduceIte, or_false, false_or, or_self, List.length, Option.map, List.cons_append, List.nil_append, Bool.or_false, List.any,
    andThen_norm, andThen_ret, andThen_err, andThen_ite, afterSwitch_ite, afterSwitch_ret, afterSwitch_norm, branch_bool,
    binop_land, binop_eq_int, binop_eq_str, binop_eq_bool, binop_ne_int, binop_ne_str, binop_add, binop_sub, binop_band, binop_bor, binop_lt, binop_gt, binop_ge, binop_le, unop_not,
    Bool.false_eq_true, const_vModShift, const_vModAlt, const_vModCtrl, const_MaxRune, const_vKeyTab,
    retStr_ite, retStr_ret, callStmt, callFn_int, callFn_string, callFn_toUpper, callFn_isLower, callFn_newBuffer, callFn_bufString,
    VaxisModel.Model.KeyBody.noFuncs, Int.toNat_natCast, lookupKey_map1, Int.natCast_eq_zero, decide_eq_true_eq, h0, Nat.zero_and, callFn_sprintf, sprintf_csi2, Int.natCast_zero, Bool.true_eq_false, Int.toNat_zero, decide_true, Bool.not_true, Bool.not_false, Int.zero_add]
  unfold encodeXterm encodeTables
  dsimp only
  simp only [Bool.false_eq_true, reduceIte]
  generalize lookup key.keycode keymap = r1
  generalize lookup key.keycode xtermKeymap = r6
  generalize lookup key.keycode cursorKeysNormalMode = r2
  generalize lookup key.keycode numericKeymap = r3
  simp only [h0, reduceIte, Bool.false_eq_true, Nat.zero_and, ne_eq, not_true_eq_false]
  have hs : ¬ ((0 : Nat) = ModShift) := by decide
  have hs' : ¬ ((0 : Int) = ((ModShift : Nat) : Int)) := by decide
  cases r1 <;> cases r2 <;> cases r3 <;> cases r6 <;>
    simp only [Option.isSome, Option.getD, reduceIte, Bool.false_eq_true, hs, hs', and_false, decide_false, Bool.and_false, List.nil_append, List.cons_append, List.append_assoc, Int.natCast_zero, Int.zero_add] <;>
    (try rfl) <;> (try (repeat' split) <;> simp_all)

set_option maxHeartbeats 400000 in
set_option maxRecDepth 100000 in
set_option linter.unusedSimpArgs false in
theorem encodeXterm_body_plain_true_false (u : Uni) (key : Key)
    (h0 : key.mods &&& ModShift ||| key.mods &&& ModAlt ||| key.mods &&& ModCtrl = 0) :
    encodeXtermGen u key true false = some (encodeXterm u key true false) := by
  unfold encodeXtermGen VaxisModel.Gen.TermBody.encodeXtermBody
  simp (config := {maxSteps := 4000000}) only [Ss.ofList, Es.ofList, Cs.ofList, execSs, execS, execCs, execDefault, labelHit, isTrue_bool, lhsNames, evalEs, evalE,
    VaxisModel.Model.GoInterp.bind, VaxisModel.Model.KeyBody.keyFields, zeroOf,
    assignVals, hasErr, bindAll, List.lookup, List.map, List.append, String.reduceEq, String.reduceBEq, String.reduceAppend, ctx, termMaps, strTable, mapIndex, V.asKey,
    reduceIte, or_false, false_or, or_self, List.length, Option.map, List.cons_append, List.nil_append, Bool.or_false, List.any,
    andThen_norm, andThen_ret, andThen_err, andThen_ite, afterSwitch_ite, afterSwitch_ret, afterSwitch_norm, branch_bool,
    binop_land, binop_eq_int, binop_eq_str, binop_eq_bool, binop_ne_int, binop_ne_str, binop_add, binop_sub, binop_band, binop_bor, binop_lt, binop_gt, binop_ge, binop_le, unop_not,
    Bool.false_eq_true, const_vModShift, const_vModAlt, const_vModCtrl, const_MaxRune, const_vKeyTab,
    retStr_ite, retStr_ret, callStmt, callFn_int, callFn_string, callFn_toUpper, callFn_isLower, callFn_newBuffer, callFn_bufString,
    VaxisModel.Model.KeyBody.noFuncs, Int.toNat_natCast, lookupKey_map1, Int.natCast_eq_zero, decide_eq_true_eq, h0, Nat.zero_and, callFn_sprintf, sprintf_csi2, Int.natCast_zero, Bool.true_eq_false, Int.toNat_zero, decide_true, Bool.not_true, Bool.not_false, Int.zero_add]
  unfold encodeXterm encodeTables
  dsimp only
  simp only [Bool.false_eq_true, reduceIte]
  generalize lookup key.keycode keymap = r1
  generalize lookup key.keycode xtermKeymap = r6
  generalize lookup key.keycode cursorKeysNormalMode = r2
  generalize lookup key.keycode applicationKeymap = r3
  simp only [h0, reduceIte, Bool.false_eq_true, Nat.zero_and, ne_eq, not_true_eq_false]
  have hs : ¬ ((0 : Nat) = ModShift) := by decide
  have hs' : ¬ ((0 : Int) = ((ModShift : Nat) : Int)) := by decide
  cases r1 <;> cases r2 <;> cases r3 <;> cases r6 <;>
    simp only [Option.isSome, Option.getD, reduceIte, Bool.false_eq_true, hs, hs', and_false, decide_false, Bool.and_false, List.nil_append, List.cons_append, List.append_assoc, Int.natCast_zero, Int.zero_add] <;>
    (try rfl) <;> (try (repeat' split) <;> simp_all)

set_option maxHeartbeats 400000 in
set_option maxRecDepth 100000 in
set_option linter.unusedSimpArgs false in
theorem encodeXterm_body_plain_false_true (u : Uni) (key : Key)
    (h0 : key.mods &&& ModShift ||| key.mods &&& ModAlt ||| key.mods &&& ModCtrl = 0) :
    encodeXtermGen u key false true = some (encodeXterm u key false true) := by
  unfold encodeXtermGen VaxisModel.Gen.TermBody.encodeXtermBody
  simp (config := {maxSteps := 4000000}) only [Ss.ofList, Es.ofList, Cs.ofList, execSs, execS, execCs, execDefault, labelHit, isTrue_bool, lhsNames, evalEs, evalE,
    VaxisModel.Model.GoInterp.bind, VaxisModel.Model.KeyBody.keyFields, zeroOf,
    assignVals, hasErr, bindAll, List.lookup, List.map, List.append, String.reduceEq, String.reduceBEq, String.reduceAppend, ctx, termMaps, strTable, mapIndex, V.asKey,
    reduceIte, or_false, false_or, or_self, List.length, Option.map, List.cons_append, List.nil_append, Bool.or_false, List.any,
    andThen_norm, andThen_ret, andThen_err, andThen_ite, afterSwitch_ite, afterSwitch_ret, afterSwitch_norm, branch_bool,
    binop_land, binop_eq_int, binop_eq_str, binop_eq_bool, binop_ne_int, binop_ne_str, binop_add, binop_sub, binop_band, binop_bor, binop_lt, binop_gt, binop_ge, binop_le, unop_not,
    Bool.false_eq_true, const_vModShift, const_vModAlt, const_vModCtrl, const_MaxRune, const_vKeyTab,
    retStr_ite, retStr_ret, callStmt, callFn_int, callFn_string, callFn_toUpper, callFn_isLower, callFn_newBuffer, callFn_bufString,
    VaxisModel.Model.KeyBody.noFuncs, Int.toNat_natCast, lookupKey_map1, Int.natCast_eq_zero, decide_eq_true_eq, h0, Nat.zero_and, callFn_sprintf, sprintf_csi2, Int.natCast_zero, Bool.true_eq_false, Int.toNat_zero, decide_true, Bool.not_true, Bool.not_false, Int.zero_add]
  unfold encodeXterm encodeTables
  dsimp only
  simp only [Bool.false_eq_true, reduceIte]
  generalize lookup key.keycode keymap = r1
  generalize lookup key.keycode xtermKeymap = r6
  generalize lookup key.keycode cursorKeysApplicationMode = r2
  generalize lookup key.keycode numericKeymap = r3
  simp only [h0, reduceIte, Bool.false_eq_true, Nat.zero_and, ne_eq, not_true_eq_false]
  have hs : ¬ ((0 : Nat) = ModShift) := by decide
  have hs' : ¬ ((0 : Int) = ((ModShift : Nat) : Int)) := by decide
  cases r1 <;> cases r2 <;> cases r3 <;> cases r6 <;>
    simp only [Option.isSome, Option.getD, reduceIte, Bool.false_eq_true, hs, hs', and_false, decide_false, Bool.and_false, List.nil_append, List.cons_append, List.append_assoc, Int.natCast_zero, Int.zero_add] <;>
    (try rfl) <;> (try (repeat' split) <;> simp_all)

set_option maxHeartbeats 400000 in
set_option maxRecDepth 100000 in
set_option linter.unusedSimpArgs false in
theorem encodeXterm_body_plain_true_true (u : Uni) (key : Key)
    (h0 : key.mods &&& ModShift ||| key.mods &&& ModAlt ||| key.mods &&& ModCtrl = 0) :
    encodeXtermGen u key true true = some (encodeXterm u key true true) := by
  unfold encodeXtermGen VaxisModel.Gen.TermBody.encodeXtermBody
  simp (config := {maxSteps := 4000000}) only [Ss.ofList, Es.ofList, Cs.ofList, execSs, execS, execCs, execDefault, labelHit, isTrue_bool, lhsNames, evalEs, evalE,
    VaxisModel.Model.GoInterp.bind, VaxisModel.Model.KeyBody.keyFields, zeroOf,
    assignVals, hasErr, bindAll, List.lookup, List.map, List.append, String.reduceEq, String.reduceBEq, String.reduceAppend, ctx, termMaps, strTable, mapIndex, V.asKey,
    reduceIte, or_false, false_or, or_self, List.length, Option.map, List.cons_append, List.nil_append, Bool.or_false, List.any,
    andThen_norm, andThen_ret, andThen_err, andThen_ite, afterSwitch_ite, afterSwitch_ret, afterSwitch_norm, branch_bool,
    binop_land, binop_eq_int, binop_eq_str, binop_eq_bool, binop_ne_int, binop_ne_str, binop_add, binop_sub, binop_band, binop_bor, binop_lt, binop_gt, binop_ge, binop_le, unop_not,
    Bool.false_eq_true, const_vModShift, const_vModAlt, const_vModCtrl, const_MaxRune, const_vKeyTab,
    retStr_ite, retStr_ret, callStmt, callFn_int, callFn_string, callFn_toUpper, callFn_isLower, callFn_newBuffer, callFn_bufString,
    VaxisModel.Model.KeyBody.noFuncs, Int.toNat_natCast, lookupKey_map1, Int.natCast_eq_zero, decide_eq_true_eq, h0, Nat.zero_and, callFn_sprintf, sprintf_csi2, Int.natCast_zero, Bool.true_eq_false, Int.toNat_zero, decide_true, Bool.not_true, Bool.not_false, Int.zero_add]
  unfold encodeXterm encodeTables
  dsimp only
  simp only [Bool.false_eq_true, reduceIte]
  generalize lookup key.keycode keymap = r1
  generalize lookup key.keycode xtermKeymap = r6
  generalize lookup key.keycode cursorKeysApplicationMode = r2
  generalize lookup key.keycode applicationKeymap = r3
  simp only [h0, reduceIte, Bool.false_eq_true, Nat.zero_and, ne_eq, not_true_eq_false]
  have hs : ¬ ((0 : Nat) = ModShift) := by decide
  have hs' : ¬ ((0 : Int) = ((ModShift : Nat) : Int)) := by decide
  cases r1 <;> cases r2 <;> cases r3 <;> cases r6 <;>
    simp only [Option.isSome, Option.getD, reduceIte, Bool.false_eq_true, hs, hs', and_false, decide_false, Bool.and_false, List.nil_append, List.cons_append, List.append_assoc, Int.natCast_zero, Int.zero_add] <;>
    (try rfl) <;> (try (repeat' split) <;> simp_all)

theorem const_WheelUp : List.lookup "vaxis.MouseWheelUp" termConstEnv = some (.int (VaxisModel.Gen.Mouse.MouseWheelUp : Nat)) := rfl
theorem const_WheelDown : List.lookup "vaxis.MouseWheelDown" termConstEnv = some (.int (VaxisModel.Gen.Mouse.MouseWheelDown : Nat)) := rfl
theorem const_NoButton : List.lookup "vaxis.MouseNoButton" termConstEnv = some (.int (VaxisModel.Gen.Mouse.MouseNoButton : Nat)) := rfl
theorem const_EventMotion : List.lookup "vaxis.EventMotion" termConstEnv = some (.int EventMotion) := rfl
theorem const_EventPress : List.lookup "vaxis.EventPress" termConstEnv = some (.int EventPress) := rfl
theorem const_EventRelease : List.lookup "vaxis.EventRelease" termConstEnv = some (.int EventRelease) := rfl

set_option maxHeartbeats 400000 in
set_option maxRecDepth 4000 in
set_option linter.unusedSimpArgs false in
theorem handleMouse_body (u : Uni) (md : Modes) (m : Mouse) :
    handleMouseGen u md m = some (handleMouse md m) := by
  unfold handleMouseGen VaxisModel.Gen.TermBody.handleMouseBody
  simp only [Ss.ofList, Es.ofList, Cs.ofList, execSs, execS, execCs, execDefault, labelHit, isTrue_bool, lhsNames, evalEs, evalE, VaxisModel.Model.GoInterp.bind, mouseFields, modeEnv, zeroOf,
    assignVals, hasErr, bindAll, List.lookup, List.map, List.append, String.reduceEq, String.reduceBEq, String.reduceAppend, ctx,
    reduceIte, or_false, false_or, or_self, List.length, Option.map, List.cons_append, List.nil_append, Bool.or_false,
    andThen_norm, andThen_ret, andThen_err, andThen_ite, afterSwitch_ite, afterSwitch_ret, afterSwitch_norm, branch_bool, binop_land, binop_eq_int, binop_eq_str, binop_add, unop_not,
    Bool.false_eq_true, const_WheelUp, const_WheelDown, const_NoButton, const_EventMotion, const_EventPress, const_EventRelease,
    outRetStr_ite, outRetStr_ret, callStmt]
  simp (config := {maxSteps := 2000000}) only [callFn_sprintf, sprintfAux, Int.reduceEq, reduceIte, List.nil_append, List.cons_append, List.append_assoc, afterSwitch_ret, afterSwitch_ite, afterSwitch_norm, andThen_ret, andThen_norm, andThen_ite, outRetStr_ite, outRetStr_ret, Bool.false_eq_true]
  unfold handleMouse
  simp only [some_ite]
  repeat' split
  all_goals (first | rfl | (simp_all; done) | grind)

theorem callStmt_lock (u : Uni) (cs : Env) (ms : List (String × MapTable)) (sl : List (String × List V))
    (ss : List (String × List (String × V))) (d : Int → Str) (f : String → List V → Option (V × Str)) (st : St) :
    callStmt { u := u, consts := cs, maps := ms, slices := sl, structs := ss, funcs := f,
               noops := ["vt.mu.Lock", "vt.mu.Unlock", "vt.invalidate"], fmtD := d } st "vt.mu.Lock" [] = .norm st := by
  unfold callStmt; simp [hasErr]
theorem callStmt_invalidate (u : Uni) (cs : Env) (ms : List (String × MapTable)) (sl : List (String × List V))
    (ss : List (String × List (String × V))) (d : Int → Str) (f : String → List V → Option (V × Str)) (st : St) :
    callStmt { u := u, consts := cs, maps := ms, slices := sl, structs := ss, funcs := f,
               noops := ["vt.mu.Lock", "vt.mu.Unlock", "vt.invalidate"], fmtD := d } st "vt.invalidate" [] = .norm st := by
  unfold callStmt; simp [hasErr]
theorem noops_unlock : ["vt.mu.Lock", "vt.mu.Unlock", "vt.invalidate"].contains "vt.mu.Unlock" = true := by decide
theorem callStmt_write (c : Ctx) (st : St) (s : Str) :
    callStmt c st "vt.pty.WriteString" [.str s] = .norm { st with out := st.out ++ s } := by
  unfold callStmt; simp [hasErr]


end VaxisModel.Lemmas.TermBodyEval
