/-
Symbolic evaluation of the extracted bodies of `encodeXterm` and `handleMouse` (Gen/TermBody.lean)
by the interpreter of Model/GoInterp.lean, and their comparison with the hand-written model
(Model/TermKey.lean, Model/TermMouse.lean).  Helper lemmas for Props/C13Body.lean.
-/
import VaxisModel.Model.TermBody
import VaxisModel.Lemmas.GoInterp

namespace VaxisModel.Lemmas.TermBodyEval
open VaxisModel.Model.TermBody VaxisModel.Model.Key VaxisModel.Model.GoBody VaxisModel.Model.GoInterp VaxisModel.Gen.Keys
open VaxisModel.Lemmas.GoInterp VaxisModel.Model.TermMouse VaxisModel.Model.Mouse VaxisModel.Model.TermKey VaxisModel.Gen.TermKeys

theorem const_vModShift : List.lookup "vaxis.ModShift" termConstEnv = some (.int (ModShift : Nat)) := rfl
theorem const_vModAlt : List.lookup "vaxis.ModAlt" termConstEnv = some (.int (ModAlt : Nat)) := rfl
theorem const_vModCtrl : List.lookup "vaxis.ModCtrl" termConstEnv = some (.int (ModCtrl : Nat)) := rfl
theorem const_MaxRune : List.lookup "unicode.MaxRune" termConstEnv = some (.int maxRune) := rfl
set_option maxRecDepth 8000 in
theorem const_vKeyTab : List.lookup "vaxis.KeyTab" termConstEnv = some (.int KeyTab) := rfl

theorem match_ite_some {α β : Type} (c : Prop) [Decidable c] (a : α) (rest : Option α) (F : α → β) (D : β) :
    (match (if c then some a else rest) with | some o => F o | none => D) =
      if c then F a else (match rest with | some o => F o | none => D) := by
  split <;> rename_i h <;> split at h <;> simp_all

theorem match_none' {α β : Type} (F : α → β) (D : β) :
    (match (none : Option α) with | some o => F o | none => D) = D := rfl

theorem vr49 : validRune 49 = true := by decide
theorem vr0 : validRune 0 = true := by decide
theorem vr27 : validRune 27 = true := by decide
theorem vr28 : validRune 28 = true := by decide
theorem vr29 : validRune 29 = true := by decide
theorem vr30 : validRune 30 = true := by decide
theorem vr31 : validRune 31 = true := by decide
theorem vr127 : validRune 127 = true := by decide

syntax "bc " ident " : " term : tactic
macro_rules
  | `(tactic| bc $h:ident : $t:term) =>
    `(tactic| all_goals (first | (by_cases $h:ident : $t <;>
        simp only [$h:ident, reduceIte, not_true_eq_false, not_false_eq_true, and_true, true_and, and_false, false_and, and_self,
          List.map, List.cons_append, List.nil_append, vr49, vr0, vr27, vr28, vr29, vr30, vr31, vr127, and_assoc] <;> try rfl) | skip))

theorem sprintf_csi2 (d : Int → Str) (n m f : Int) :
    sprintfAux d [27, 91, 37, 100, 59, 37, 100, 37, 99] false [.int n, .int m, .int f] [] =
      .str (27 :: 91 :: (d n ++ 59 :: (d m ++ strOfRune f))) := by
  simp [sprintfAux]

/-! ### `encodeXterm`: the keypad block, then the rest

The body is `[keypad application-mode block, keypad legend block] ++ coreBody`.  The two keypad statements are
evaluated symbolically by `encodeXterm_prefix`; `coreBody` (everything from `xtermMods := …` on) is compared with
`encodeXtermCore` for both shapes of the environment the keypad block leaves behind (`sub` = the key code was
replaced by the key the keypad key stands for). -/

/-- The body after the two keypad statements. -/
def coreBody : Ss :=
  match VaxisModel.Gen.TermBody.encodeXtermBody with
  | .cons _ (.cons _ rest) => rest
  | _ => .nil

/-- The environment after the keypad block: `val, ok` of the application-mode look-up (`s1`, `b1`), `val, ok` of the
    legend look-up and, when it hit (`sub`), the re-assigned `key.Keycode`. -/
def coreEnv (sub : Bool) (key : Key) (kc : Int) (b1 : Bool) (s1 : Str) (pam ckm : Bool) : Env :=
  (if sub then [("key.Keycode", V.int kc), ("ok", V.bool true), ("val", V.int kc)] else [("ok", V.bool false), ("val", V.int 0)]) ++
  ("ok", V.bool b1) :: ("val", V.str s1) ::
    VaxisModel.Model.GoInterp.bind "key" (.struct (VaxisModel.Model.KeyBody.keyFields key)) [("deckpam", .bool pam), ("decckm", .bool ckm)]

def coreGen (u : Uni) (sub : Bool) (key : Key) (kc : Int) (b1 : Bool) (s1 : Str) (pam ckm : Bool) : Option Str :=
  (execSs (ctx u VaxisModel.Model.KeyBody.noFuncs) coreBody { env := coreEnv sub key kc b1 s1 pam ckm }).retStr

set_option maxHeartbeats 400000 in
set_option maxRecDepth 100000 in
set_option linter.unusedSimpArgs false in
theorem core_body_mods_nosub (u : Uni) (key : Key) (kc : Int) (b1 : Bool) (s1 : Str) (pam ckm : Bool)
    (hsub : false = false → key.keycode = kc)
    (hm : ¬ (key.mods &&& ModShift ||| key.mods &&& ModAlt ||| key.mods &&& ModCtrl = 0)) :
    coreGen u false key kc b1 s1 pam ckm = some (encodeXtermCore u { key with keycode := kc } pam ckm) := by
  unfold coreGen coreBody coreEnv VaxisModel.Gen.TermBody.encodeXtermBody
  simp (config := {maxSteps := 4000000}) only [Ss.ofList, Es.ofList, Cs.ofList, execSs, execS, execCs, execDefault, labelHit, isTrue_bool, lhsNames, evalEs, evalE,
  VaxisModel.Model.GoInterp.bind, VaxisModel.Model.KeyBody.keyFields, zeroOf,
  assignVals, hasErr, bindAll, List.lookup, List.map, List.append, String.reduceEq, String.reduceBEq, String.reduceAppend, ctx, termMaps, strTable, mapIndex, V.asKey,
  reduceIte, or_false, false_or, or_self, List.length, Option.map, List.cons_append, List.nil_append, Bool.or_false, List.any,
  andThen_norm, andThen_ret, andThen_err, andThen_ite, afterSwitch_ite, afterSwitch_ret, afterSwitch_norm, branch_bool,
  binop_land, binop_eq_int, binop_eq_str, binop_eq_bool, binop_ne_int, binop_ne_str, binop_add, binop_sub, binop_band, binop_bor, binop_lt, binop_gt, binop_ge, binop_le, unop_not,
  Bool.false_eq_true, const_vModShift, const_vModAlt, const_vModCtrl, const_MaxRune, const_vKeyTab,
  retStr_ite, retStr_ret, callStmt, callFn_int, callFn_string, callFn_toUpper, callFn_isLower, callFn_newBuffer, callFn_bufString,
  VaxisModel.Model.KeyBody.noFuncs, Int.toNat_natCast, lookupKey_map1, Int.natCast_eq_zero, decide_eq_true_eq, hm, decide_false, callFn_sprintf, sprintf_csi2]
  unfold encodeXtermCore encodeTables
  dsimp only
  try (have hk := hsub rfl; rw [hk]; clear hk)
  clear hsub
  generalize lookup kc xtermKeymap = r6
  delta ctrlCases ctrlDefaultRange
  simp only [lookup, hm, reduceIte]
  cases r6 with
  | some nf =>
    obtain ⟨n, f⟩ := nf
    simp only [Option.isSome, Option.getD, reduceIte, Bool.false_eq_true]
    repeat' split
    all_goals (first | rfl | (simp_all; done) | grind)
  | none =>
    simp only [Option.isSome, Option.getD, reduceIte, Bool.false_eq_true]
    have s27 : strOfRune 27 = [27] := by decide
    have s49 : strOfRune 49 = [49] := by decide
    have s0 : strOfRune 0 = [0] := by decide
    have s28 : strOfRune 28 = [28] := by decide
    have s29 : strOfRune 29 = [29] := by decide
    have s30 : strOfRune 30 = [30] := by decide
    have s31 : strOfRune 31 = [31] := by decide
    have s127 : strOfRune 127 = [127] := by decide
    simp only [s27, s49, s0, s28, s29, s30, s31, s127, Bool.and_eq_true, decide_eq_true_eq, Bool.not_eq_true',
      decide_eq_false_iff_not, Int.natCast_inj, ne_eq, ge_iff_le, Bool.not_eq_eq_eq_not, Bool.not_true,
      @eq_comm _ (49 : Int) kc, @eq_comm _ (50 : Int) kc, @eq_comm _ (51 : Int) kc,
      @eq_comm _ (52 : Int) kc, @eq_comm _ (53 : Int) kc, @eq_comm _ (54 : Int) kc,
      @eq_comm _ (55 : Int) kc, @eq_comm _ (56 : Int) kc, @eq_comm _ (57 : Int) kc]
    clear s27 s49 s0 s28 s29 s30 s31 s127 hm
    simp only [and_assoc]
    by_cases hTab : kc = KeyTab ∧ key.mods &&& ModShift ||| key.mods &&& ModAlt ||| key.mods &&& ModCtrl = ModShift
    · simp only [hTab, and_self, reduceIte]
    · simp only [hTab, reduceIte]
      bc hText : ¬key.text = [] ∧ key.mods &&& ModCtrl = 0 ∧ key.mods &&& ModAlt = 0
      bc hKc : kc < maxRune
      bc hAlt : (key.mods &&& ModShift ||| key.mods &&& ModAlt ||| key.mods &&& ModCtrl) &&& ModAlt = 0
      bc hCtrl : (key.mods &&& ModShift ||| key.mods &&& ModAlt ||| key.mods &&& ModCtrl) &&& ModCtrl = 0
      bc hLow : 97 ≤ kc ∧ kc ≤ 122
      bc h49 : kc = 49
      bc h50 : kc = 50
      bc h51 : kc = 51
      bc h52 : kc = 52
      bc h53 : kc = 53
      bc h54 : kc = 54
      bc h55 : kc = 55
      bc h56 : kc = 56
      bc h57 : kc = 57
      bc hRange : 64 ≤ kc ∧ kc < 96
      bc hShift : (key.mods &&& ModShift ||| key.mods &&& ModAlt ||| key.mods &&& ModCtrl) &&& ModShift = 0
      bc hSh : key.shifted > 0

set_option maxHeartbeats 400000 in
set_option maxRecDepth 100000 in
set_option linter.unusedSimpArgs false in
theorem core_body_mods_sub (u : Uni) (key : Key) (kc : Int) (b1 : Bool) (s1 : Str) (pam ckm : Bool)
    (_hsub : true = false → key.keycode = kc)
    (hm : ¬ (key.mods &&& ModShift ||| key.mods &&& ModAlt ||| key.mods &&& ModCtrl = 0)) :
    coreGen u true key kc b1 s1 pam ckm = some (encodeXtermCore u { key with keycode := kc } pam ckm) := by
  unfold coreGen coreBody coreEnv VaxisModel.Gen.TermBody.encodeXtermBody
  simp (config := {maxSteps := 4000000}) only [Ss.ofList, Es.ofList, Cs.ofList, execSs, execS, execCs, execDefault, labelHit, isTrue_bool, lhsNames, evalEs, evalE,
  VaxisModel.Model.GoInterp.bind, VaxisModel.Model.KeyBody.keyFields, zeroOf,
  assignVals, hasErr, bindAll, List.lookup, List.map, List.append, String.reduceEq, String.reduceBEq, String.reduceAppend, ctx, termMaps, strTable, mapIndex, V.asKey,
  reduceIte, or_false, false_or, or_self, List.length, Option.map, List.cons_append, List.nil_append, Bool.or_false, List.any,
  andThen_norm, andThen_ret, andThen_err, andThen_ite, afterSwitch_ite, afterSwitch_ret, afterSwitch_norm, branch_bool,
  binop_land, binop_eq_int, binop_eq_str, binop_eq_bool, binop_ne_int, binop_ne_str, binop_add, binop_sub, binop_band, binop_bor, binop_lt, binop_gt, binop_ge, binop_le, unop_not,
  Bool.false_eq_true, const_vModShift, const_vModAlt, const_vModCtrl, const_MaxRune, const_vKeyTab,
  retStr_ite, retStr_ret, callStmt, callFn_int, callFn_string, callFn_toUpper, callFn_isLower, callFn_newBuffer, callFn_bufString,
  VaxisModel.Model.KeyBody.noFuncs, Int.toNat_natCast, lookupKey_map1, Int.natCast_eq_zero, decide_eq_true_eq, hm, decide_false, callFn_sprintf, sprintf_csi2]
  unfold encodeXtermCore encodeTables
  dsimp only
  generalize lookup kc xtermKeymap = r6
  delta ctrlCases ctrlDefaultRange
  simp only [lookup, hm, reduceIte]
  cases r6 with
  | some nf =>
    obtain ⟨n, f⟩ := nf
    simp only [Option.isSome, Option.getD, reduceIte, Bool.false_eq_true]
    repeat' split
    all_goals (first | rfl | (simp_all; done) | grind)
  | none =>
    simp only [Option.isSome, Option.getD, reduceIte, Bool.false_eq_true]
    have s27 : strOfRune 27 = [27] := by decide
    have s49 : strOfRune 49 = [49] := by decide
    have s0 : strOfRune 0 = [0] := by decide
    have s28 : strOfRune 28 = [28] := by decide
    have s29 : strOfRune 29 = [29] := by decide
    have s30 : strOfRune 30 = [30] := by decide
    have s31 : strOfRune 31 = [31] := by decide
    have s127 : strOfRune 127 = [127] := by decide
    simp only [s27, s49, s0, s28, s29, s30, s31, s127, Bool.and_eq_true, decide_eq_true_eq, Bool.not_eq_true',
      decide_eq_false_iff_not, Int.natCast_inj, ne_eq, ge_iff_le, Bool.not_eq_eq_eq_not, Bool.not_true,
      @eq_comm _ (49 : Int) kc, @eq_comm _ (50 : Int) kc, @eq_comm _ (51 : Int) kc,
      @eq_comm _ (52 : Int) kc, @eq_comm _ (53 : Int) kc, @eq_comm _ (54 : Int) kc,
      @eq_comm _ (55 : Int) kc, @eq_comm _ (56 : Int) kc, @eq_comm _ (57 : Int) kc]
    clear s27 s49 s0 s28 s29 s30 s31 s127 hm
    simp only [and_assoc]
    by_cases hTab : kc = KeyTab ∧ key.mods &&& ModShift ||| key.mods &&& ModAlt ||| key.mods &&& ModCtrl = ModShift
    · simp only [hTab, and_self, reduceIte]
    · simp only [hTab, reduceIte]
      bc hText : ¬key.text = [] ∧ key.mods &&& ModCtrl = 0 ∧ key.mods &&& ModAlt = 0
      bc hKc : kc < maxRune
      bc hAlt : (key.mods &&& ModShift ||| key.mods &&& ModAlt ||| key.mods &&& ModCtrl) &&& ModAlt = 0
      bc hCtrl : (key.mods &&& ModShift ||| key.mods &&& ModAlt ||| key.mods &&& ModCtrl) &&& ModCtrl = 0
      bc hLow : 97 ≤ kc ∧ kc ≤ 122
      bc h49 : kc = 49
      bc h50 : kc = 50
      bc h51 : kc = 51
      bc h52 : kc = 52
      bc h53 : kc = 53
      bc h54 : kc = 54
      bc h55 : kc = 55
      bc h56 : kc = 56
      bc h57 : kc = 57
      bc hRange : 64 ≤ kc ∧ kc < 96
      bc hShift : (key.mods &&& ModShift ||| key.mods &&& ModAlt ||| key.mods &&& ModCtrl) &&& ModShift = 0
      bc hSh : key.shifted > 0

theorem core_body_mods (u : Uni) (sub : Bool) (key : Key) (kc : Int) (b1 : Bool) (s1 : Str) (pam ckm : Bool)
    (hsub : sub = false → key.keycode = kc)
    (hm : ¬ (key.mods &&& ModShift ||| key.mods &&& ModAlt ||| key.mods &&& ModCtrl = 0)) :
    coreGen u sub key kc b1 s1 pam ckm = some (encodeXtermCore u { key with keycode := kc } pam ckm) := by
  cases sub
  · exact core_body_mods_nosub u key kc b1 s1 pam ckm hsub hm
  · exact core_body_mods_sub u key kc b1 s1 pam ckm hsub hm

set_option maxHeartbeats 400000 in
set_option maxRecDepth 100000 in
set_option linter.unusedSimpArgs false in
theorem core_body_plain_false_false (u : Uni) (sub : Bool) (key : Key) (kc : Int) (b1 : Bool) (s1 : Str)
    (hsub : sub = false → key.keycode = kc)
    (h0 : key.mods &&& ModShift ||| key.mods &&& ModAlt ||| key.mods &&& ModCtrl = 0) :
    coreGen u sub key kc b1 s1 false false = some (encodeXtermCore u { key with keycode := kc } false false) := by
  unfold coreGen coreBody coreEnv VaxisModel.Gen.TermBody.encodeXtermBody
  cases sub
  all_goals
   (simp (config := {maxSteps := 4000000}) only [Ss.ofList, Es.ofList, Cs.ofList, execSs, execS, execCs, execDefault, labelHit, isTrue_bool, lhsNames, evalEs, evalE,
    VaxisModel.Model.GoInterp.bind, VaxisModel.Model.KeyBody.keyFields, zeroOf,
    assignVals, hasErr, bindAll, List.lookup, List.map, List.append, String.reduceEq, String.reduceBEq, String.reduceAppend, ctx, termMaps, strTable, mapIndex, V.asKey,
    reduceIte, or_false, false_or, or_self, List.length, Option.map, List.cons_append, List.nil_append, Bool.or_false, List.any,
    andThen_norm, andThen_ret, andThen_err, andThen_ite, afterSwitch_ite, afterSwitch_ret, afterSwitch_norm, branch_bool,
    binop_land, binop_eq_int, binop_eq_str, binop_eq_bool, binop_ne_int, binop_ne_str, binop_add, binop_sub, binop_band, binop_bor, binop_lt, binop_gt, binop_ge, binop_le, unop_not,
    Bool.false_eq_true, const_vModShift, const_vModAlt, const_vModCtrl, const_MaxRune, const_vKeyTab,
    retStr_ite, retStr_ret, callStmt, callFn_int, callFn_string, callFn_toUpper, callFn_isLower, callFn_newBuffer, callFn_bufString,
    VaxisModel.Model.KeyBody.noFuncs, Int.toNat_natCast, lookupKey_map1, Int.natCast_eq_zero, decide_eq_true_eq, h0, Nat.zero_and, callFn_sprintf, sprintf_csi2, Int.natCast_zero, Bool.true_eq_false, Int.toNat_zero, decide_true, Bool.not_true, Bool.not_false, Int.zero_add]
    unfold encodeXtermCore encodeTables
    dsimp only
    try (have hk := hsub rfl; rw [hk]; clear hk)
    clear hsub
    simp only [Bool.false_eq_true, reduceIte]
    generalize lookup kc keymap = r1
    generalize lookup kc xtermKeymap = r6
    generalize lookup kc cursorKeysNormalMode = r2
    generalize lookup kc numericKeymap = r3
    simp only [h0, reduceIte, Bool.false_eq_true, Nat.zero_and, ne_eq, not_true_eq_false]
    have hs : ¬ ((0 : Nat) = ModShift) := by decide
    have hs' : ¬ ((0 : Int) = ((ModShift : Nat) : Int)) := by decide
    cases r1 <;> cases r2 <;> cases r3 <;> cases r6 <;>
      simp only [Option.isSome, Option.getD, reduceIte, Bool.false_eq_true, hs, hs', and_false, decide_false, Bool.and_false, List.nil_append, List.cons_append, List.append_assoc, Int.natCast_zero, Int.zero_add] <;>
      (try rfl) <;> (try (repeat' split) <;> simp_all))

set_option maxHeartbeats 400000 in
set_option maxRecDepth 100000 in
set_option linter.unusedSimpArgs false in
theorem core_body_plain_false_true (u : Uni) (sub : Bool) (key : Key) (kc : Int) (b1 : Bool) (s1 : Str)
    (hsub : sub = false → key.keycode = kc)
    (h0 : key.mods &&& ModShift ||| key.mods &&& ModAlt ||| key.mods &&& ModCtrl = 0) :
    coreGen u sub key kc b1 s1 false true = some (encodeXtermCore u { key with keycode := kc } false true) := by
  unfold coreGen coreBody coreEnv VaxisModel.Gen.TermBody.encodeXtermBody
  cases sub
  all_goals
   (simp (config := {maxSteps := 4000000}) only [Ss.ofList, Es.ofList, Cs.ofList, execSs, execS, execCs, execDefault, labelHit, isTrue_bool, lhsNames, evalEs, evalE,
    VaxisModel.Model.GoInterp.bind, VaxisModel.Model.KeyBody.keyFields, zeroOf,
    assignVals, hasErr, bindAll, List.lookup, List.map, List.append, String.reduceEq, String.reduceBEq, String.reduceAppend, ctx, termMaps, strTable, mapIndex, V.asKey,
    reduceIte, or_false, false_or, or_self, List.length, Option.map, List.cons_append, List.nil_append, Bool.or_false, List.any,
    andThen_norm, andThen_ret, andThen_err, andThen_ite, afterSwitch_ite, afterSwitch_ret, afterSwitch_norm, branch_bool,
    binop_land, binop_eq_int, binop_eq_str, binop_eq_bool, binop_ne_int, binop_ne_str, binop_add, binop_sub, binop_band, binop_bor, binop_lt, binop_gt, binop_ge, binop_le, unop_not,
    Bool.false_eq_true, const_vModShift, const_vModAlt, const_vModCtrl, const_MaxRune, const_vKeyTab,
    retStr_ite, retStr_ret, callStmt, callFn_int, callFn_string, callFn_toUpper, callFn_isLower, callFn_newBuffer, callFn_bufString,
    VaxisModel.Model.KeyBody.noFuncs, Int.toNat_natCast, lookupKey_map1, Int.natCast_eq_zero, decide_eq_true_eq, h0, Nat.zero_and, callFn_sprintf, sprintf_csi2, Int.natCast_zero, Bool.true_eq_false, Int.toNat_zero, decide_true, Bool.not_true, Bool.not_false, Int.zero_add]
    unfold encodeXtermCore encodeTables
    dsimp only
    try (have hk := hsub rfl; rw [hk]; clear hk)
    clear hsub
    simp only [Bool.false_eq_true, reduceIte]
    generalize lookup kc keymap = r1
    generalize lookup kc xtermKeymap = r6
    generalize lookup kc cursorKeysApplicationMode = r2
    generalize lookup kc numericKeymap = r3
    simp only [h0, reduceIte, Bool.false_eq_true, Nat.zero_and, ne_eq, not_true_eq_false]
    have hs : ¬ ((0 : Nat) = ModShift) := by decide
    have hs' : ¬ ((0 : Int) = ((ModShift : Nat) : Int)) := by decide
    cases r1 <;> cases r2 <;> cases r3 <;> cases r6 <;>
      simp only [Option.isSome, Option.getD, reduceIte, Bool.false_eq_true, hs, hs', and_false, decide_false, Bool.and_false, List.nil_append, List.cons_append, List.append_assoc, Int.natCast_zero, Int.zero_add] <;>
      (try rfl) <;> (try (repeat' split) <;> simp_all))

set_option maxHeartbeats 400000 in
set_option maxRecDepth 100000 in
set_option linter.unusedSimpArgs false in
theorem core_body_plain_true_false (u : Uni) (sub : Bool) (key : Key) (kc : Int) (b1 : Bool) (s1 : Str)
    (hsub : sub = false → key.keycode = kc)
    (h0 : key.mods &&& ModShift ||| key.mods &&& ModAlt ||| key.mods &&& ModCtrl = 0) :
    coreGen u sub key kc b1 s1 true false = some (encodeXtermCore u { key with keycode := kc } true false) := by
  unfold coreGen coreBody coreEnv VaxisModel.Gen.TermBody.encodeXtermBody
  cases sub
  all_goals
   (simp (config := {maxSteps := 4000000}) only [Ss.ofList, Es.ofList, Cs.ofList, execSs, execS, execCs, execDefault, labelHit, isTrue_bool, lhsNames, evalEs, evalE,
    VaxisModel.Model.GoInterp.bind, VaxisModel.Model.KeyBody.keyFields, zeroOf,
    assignVals, hasErr, bindAll, List.lookup, List.map, List.append, String.reduceEq, String.reduceBEq, String.reduceAppend, ctx, termMaps, strTable, mapIndex, V.asKey,
    reduceIte, or_false, false_or, or_self, List.length, Option.map, List.cons_append, List.nil_append, Bool.or_false, List.any,
    andThen_norm, andThen_ret, andThen_err, andThen_ite, afterSwitch_ite, afterSwitch_ret, afterSwitch_norm, branch_bool,
    binop_land, binop_eq_int, binop_eq_str, binop_eq_bool, binop_ne_int, binop_ne_str, binop_add, binop_sub, binop_band, binop_bor, binop_lt, binop_gt, binop_ge, binop_le, unop_not,
    Bool.false_eq_true, const_vModShift, const_vModAlt, const_vModCtrl, const_MaxRune, const_vKeyTab,
    retStr_ite, retStr_ret, callStmt, callFn_int, callFn_string, callFn_toUpper, callFn_isLower, callFn_newBuffer, callFn_bufString,
    VaxisModel.Model.KeyBody.noFuncs, Int.toNat_natCast, lookupKey_map1, Int.natCast_eq_zero, decide_eq_true_eq, h0, Nat.zero_and, callFn_sprintf, sprintf_csi2, Int.natCast_zero, Bool.true_eq_false, Int.toNat_zero, decide_true, Bool.not_true, Bool.not_false, Int.zero_add]
    unfold encodeXtermCore encodeTables
    dsimp only
    try (have hk := hsub rfl; rw [hk]; clear hk)
    clear hsub
    simp only [Bool.false_eq_true, reduceIte]
    generalize lookup kc keymap = r1
    generalize lookup kc xtermKeymap = r6
    generalize lookup kc cursorKeysNormalMode = r2
    generalize lookup kc applicationKeymap = r3
    simp only [h0, reduceIte, Bool.false_eq_true, Nat.zero_and, ne_eq, not_true_eq_false]
    have hs : ¬ ((0 : Nat) = ModShift) := by decide
    have hs' : ¬ ((0 : Int) = ((ModShift : Nat) : Int)) := by decide
    cases r1 <;> cases r2 <;> cases r3 <;> cases r6 <;>
      simp only [Option.isSome, Option.getD, reduceIte, Bool.false_eq_true, hs, hs', and_false, decide_false, Bool.and_false, List.nil_append, List.cons_append, List.append_assoc, Int.natCast_zero, Int.zero_add] <;>
      (try rfl) <;> (try (repeat' split) <;> simp_all))

set_option maxHeartbeats 400000 in
set_option maxRecDepth 100000 in
set_option linter.unusedSimpArgs false in
theorem core_body_plain_true_true (u : Uni) (sub : Bool) (key : Key) (kc : Int) (b1 : Bool) (s1 : Str)
    (hsub : sub = false → key.keycode = kc)
    (h0 : key.mods &&& ModShift ||| key.mods &&& ModAlt ||| key.mods &&& ModCtrl = 0) :
    coreGen u sub key kc b1 s1 true true = some (encodeXtermCore u { key with keycode := kc } true true) := by
  unfold coreGen coreBody coreEnv VaxisModel.Gen.TermBody.encodeXtermBody
  cases sub
  all_goals
   (simp (config := {maxSteps := 4000000}) only [Ss.ofList, Es.ofList, Cs.ofList, execSs, execS, execCs, execDefault, labelHit, isTrue_bool, lhsNames, evalEs, evalE,
    VaxisModel.Model.GoInterp.bind, VaxisModel.Model.KeyBody.keyFields, zeroOf,
    assignVals, hasErr, bindAll, List.lookup, List.map, List.append, String.reduceEq, String.reduceBEq, String.reduceAppend, ctx, termMaps, strTable, mapIndex, V.asKey,
    reduceIte, or_false, false_or, or_self, List.length, Option.map, List.cons_append, List.nil_append, Bool.or_false, List.any,
    andThen_norm, andThen_ret, andThen_err, andThen_ite, afterSwitch_ite, afterSwitch_ret, afterSwitch_norm, branch_bool,
    binop_land, binop_eq_int, binop_eq_str, binop_eq_bool, binop_ne_int, binop_ne_str, binop_add, binop_sub, binop_band, binop_bor, binop_lt, binop_gt, binop_ge, binop_le, unop_not,
    Bool.false_eq_true, const_vModShift, const_vModAlt, const_vModCtrl, const_MaxRune, const_vKeyTab,
    retStr_ite, retStr_ret, callStmt, callFn_int, callFn_string, callFn_toUpper, callFn_isLower, callFn_newBuffer, callFn_bufString,
    VaxisModel.Model.KeyBody.noFuncs, Int.toNat_natCast, lookupKey_map1, Int.natCast_eq_zero, decide_eq_true_eq, h0, Nat.zero_and, callFn_sprintf, sprintf_csi2, Int.natCast_zero, Bool.true_eq_false, Int.toNat_zero, decide_true, Bool.not_true, Bool.not_false, Int.zero_add]
    unfold encodeXtermCore encodeTables
    dsimp only
    try (have hk := hsub rfl; rw [hk]; clear hk)
    clear hsub
    simp only [Bool.false_eq_true, reduceIte]
    generalize lookup kc keymap = r1
    generalize lookup kc xtermKeymap = r6
    generalize lookup kc cursorKeysApplicationMode = r2
    generalize lookup kc applicationKeymap = r3
    simp only [h0, reduceIte, Bool.false_eq_true, Nat.zero_and, ne_eq, not_true_eq_false]
    have hs : ¬ ((0 : Nat) = ModShift) := by decide
    have hs' : ¬ ((0 : Int) = ((ModShift : Nat) : Int)) := by decide
    cases r1 <;> cases r2 <;> cases r3 <;> cases r6 <;>
      simp only [Option.isSome, Option.getD, reduceIte, Bool.false_eq_true, hs, hs', and_false, decide_false, Bool.and_false, List.nil_append, List.cons_append, List.append_assoc, Int.natCast_zero, Int.zero_add] <;>
      (try rfl) <;> (try (repeat' split) <;> simp_all))

/-- Both shapes, all modes, all modifier sets: the body from `xtermMods := …` on is `encodeXtermCore`. -/
theorem core_body (u : Uni) (sub : Bool) (key : Key) (kc : Int) (b1 : Bool) (s1 : Str) (pam ckm : Bool)
    (hsub : sub = false → key.keycode = kc) :
    coreGen u sub key kc b1 s1 pam ckm = some (encodeXtermCore u { key with keycode := kc } pam ckm) := by
  by_cases h0 : key.mods &&& ModShift ||| key.mods &&& ModAlt ||| key.mods &&& ModCtrl = 0
  · cases pam <;> cases ckm
    · exact core_body_plain_false_false u sub key kc b1 s1 hsub h0
    · exact core_body_plain_false_true u sub key kc b1 s1 hsub h0
    · exact core_body_plain_true_false u sub key kc b1 s1 hsub h0
    · exact core_body_plain_true_true u sub key kc b1 s1 hsub h0
  · exact core_body_mods u sub key kc b1 s1 pam ckm hsub h0

/-- The two keypad statements at the head of the body. -/
def kpA : S := match VaxisModel.Gen.TermBody.encodeXtermBody with | .cons a _ => a | _ => .brk
def kpB : S := match VaxisModel.Gen.TermBody.encodeXtermBody with | .cons _ (.cons b _) => b | _ => .brk

theorem body_split : VaxisModel.Gen.TermBody.encodeXtermBody = .cons kpA (.cons kpB coreBody) := rfl

theorem exec_two (c : Ctx) (a b : S) (rest : Ss) (st : St) :
    execSs c (.cons a (.cons b rest)) st =
      (execS c a st).andThen (fun st1 => (execS c b st1).andThen (fun st2 => execSs c rest st2)) := by
  simp only [execSs]

theorem lookupKey_map_id {β : Type} (k : Int) (t : List (Int × β)) :
    lookupKey [k] (t.map fun e => ([e.1], e.2)) = lookup k t := by
  have := lookupKey_map1 k t (fun x : β => x)
  simpa using this

theorem const_vModNumLock : List.lookup "vaxis.ModNumLock" termConstEnv = some (.int (ModNumLock : Nat)) := rfl

set_option maxHeartbeats 400000 in
set_option maxRecDepth 100000 in
set_option linter.unusedSimpArgs false in
theorem encodeXterm_body (u : Uni) (key : Key) (pam ckm : Bool) :
    encodeXtermGen u key pam ckm = some (encodeXterm u key pam ckm) := by
  unfold encodeXtermGen
  rw [body_split, exec_two]
  unfold kpA kpB VaxisModel.Gen.TermBody.encodeXtermBody
  simp (config := {maxSteps := 4000000}) only [Ss.ofList, Es.ofList, Cs.ofList, execSs, execS, lhsNames, evalEs, evalE,
    VaxisModel.Model.GoInterp.bind, VaxisModel.Model.KeyBody.keyFields,
    assignVals, hasErr, bindAll, List.lookup, List.map, List.append, String.reduceEq, String.reduceBEq, String.reduceAppend, ctx, termMaps, strTable, mapIndex, V.asKey,
    reduceIte, or_false, false_or, or_self, List.length, Option.map, List.cons_append, List.nil_append, Bool.or_false, List.any,
    andThen_norm, andThen_ret, andThen_err, andThen_ite, branch_bool,
    binop_land, binop_eq_int, binop_band, binop_bor,
    Bool.false_eq_true, const_vModShift, const_vModAlt, const_vModCtrl, const_vModNumLock,
    retStr_ite, retStr_ret, VaxisModel.Model.KeyBody.noFuncs, Int.toNat_natCast, lookupKey_map1, Int.natCast_eq_zero, decide_eq_true_eq]
  rw [lookupKey_map_id]
  unfold encodeXterm keypadLegend keypadMask
  generalize lookup key.keycode keypadApplicationMode = ra
  generalize lookup key.keycode keypadNumericMode = rn
  cases rn with
  | none =>
    have h := fun b1 s1 => core_body u false key key.keycode b1 s1 pam ckm (fun _ => rfl)
    simp only [coreGen, coreEnv, VaxisModel.Model.GoInterp.bind, VaxisModel.Model.KeyBody.keyFields, ctx, termMaps, strTable,
      List.map, List.append, List.cons_append, List.nil_append, Bool.false_eq_true, reduceIte, String.reduceEq, or_self, String.reduceAppend] at h
    cases ra <;> cases pam <;>
      simp only [Option.isSome, Option.getD, Bool.false_eq_true, reduceIte, Bool.and_false, Bool.false_and, Bool.true_and, Bool.and_true,
        decide_eq_true_eq, true_and, false_and, ite_self, h] <;> (try split) <;> (first | rfl | (simp_all; done))
  | some v =>
    have h := fun b1 s1 => core_body u true key v b1 s1 pam ckm (fun hh => by cases hh)
    simp only [coreGen, coreEnv, VaxisModel.Model.GoInterp.bind, VaxisModel.Model.KeyBody.keyFields, ctx, termMaps, strTable,
      List.map, List.append, List.cons_append, List.nil_append, Bool.false_eq_true, reduceIte, String.reduceEq, or_self, String.reduceAppend] at h
    cases ra <;> cases pam <;>
      simp only [Option.isSome, Option.getD, Bool.false_eq_true, reduceIte, Bool.and_false, Bool.false_and, Bool.true_and, Bool.and_true,
        decide_eq_true_eq, true_and, false_and, ite_self, h] <;> (try split) <;> (first | rfl | (simp_all; done))


theorem const_WheelUp : List.lookup "vaxis.MouseWheelUp" termConstEnv = some (.int (VaxisModel.Gen.Mouse.MouseWheelUp : Nat)) := rfl
theorem const_WheelDown : List.lookup "vaxis.MouseWheelDown" termConstEnv = some (.int (VaxisModel.Gen.Mouse.MouseWheelDown : Nat)) := rfl
theorem const_NoButton : List.lookup "vaxis.MouseNoButton" termConstEnv = some (.int (VaxisModel.Gen.Mouse.MouseNoButton : Nat)) := rfl
theorem const_EventMotion : List.lookup "vaxis.EventMotion" termConstEnv = some (.int EventMotion) := rfl
theorem const_EventPress : List.lookup "vaxis.EventPress" termConstEnv = some (.int EventPress) := rfl
theorem const_EventRelease : List.lookup "vaxis.EventRelease" termConstEnv = some (.int EventRelease) := rfl

set_option maxHeartbeats 400000 in
set_option maxRecDepth 4000 in
set_option linter.unusedSimpArgs false in
theorem handleMouse_body (u : Uni) (md : Modes) (m : Mouse) :
    handleMouseGen u md m = some (handleMouse md m) := by
  unfold handleMouseGen VaxisModel.Gen.TermBody.handleMouseBody
  simp only [Ss.ofList, Es.ofList, Cs.ofList, execSs, execS, execCs, execDefault, labelHit, isTrue_bool, lhsNames, evalEs, evalE, VaxisModel.Model.GoInterp.bind, mouseFields, modeEnv, zeroOf,
    assignVals, hasErr, bindAll, List.lookup, List.map, List.append, String.reduceEq, String.reduceBEq, String.reduceAppend, ctx,
    reduceIte, or_false, false_or, or_self, List.length, Option.map, List.cons_append, List.nil_append, Bool.or_false,
    andThen_norm, andThen_ret, andThen_err, andThen_ite, afterSwitch_ite, afterSwitch_ret, afterSwitch_norm, branch_bool, binop_land, binop_eq_int, binop_eq_str, binop_add, unop_not,
    Bool.false_eq_true, const_WheelUp, const_WheelDown, const_NoButton, const_EventMotion, const_EventPress, const_EventRelease,
    outRetStr_ite, outRetStr_ret, callStmt]
  simp (config := {maxSteps := 2000000}) only [callFn_sprintf, sprintfAux, Int.reduceEq, reduceIte, List.nil_append, List.cons_append, List.append_assoc, afterSwitch_ret, afterSwitch_ite, afterSwitch_norm, andThen_ret, andThen_norm, andThen_ite, outRetStr_ite, outRetStr_ret, Bool.false_eq_true]
  unfold handleMouse
  simp only [some_ite]
  repeat' split
  all_goals (first | rfl | (simp_all; done) | grind)

theorem callStmt_lock (u : Uni) (cs : Env) (ms : List (String × MapTable)) (sl : List (String × List V))
    (ss : List (String × List (String × V))) (d : Int → Str) (f : String → List V → Option (V × Str)) (st : St) :
    callStmt { u := u, consts := cs, maps := ms, slices := sl, structs := ss, funcs := f,
               noops := ["vt.mu.Lock", "vt.mu.Unlock", "vt.invalidate"], fmtD := d } st "vt.mu.Lock" [] = .norm st := by
  unfold callStmt; simp [hasErr]
theorem callStmt_invalidate (u : Uni) (cs : Env) (ms : List (String × MapTable)) (sl : List (String × List V))
    (ss : List (String × List (String × V))) (d : Int → Str) (f : String → List V → Option (V × Str)) (st : St) :
    callStmt { u := u, consts := cs, maps := ms, slices := sl, structs := ss, funcs := f,
               noops := ["vt.mu.Lock", "vt.mu.Unlock", "vt.invalidate"], fmtD := d } st "vt.invalidate" [] = .norm st := by
  unfold callStmt; simp [hasErr]
theorem noops_unlock : ["vt.mu.Lock", "vt.mu.Unlock", "vt.invalidate"].contains "vt.mu.Unlock" = true := by decide
theorem callStmt_write (c : Ctx) (st : St) (s : Str) :
    callStmt c st "vt.pty.WriteString" [.str s] = .norm { st with out := st.out ++ s } := by
  unfold callStmt; simp [hasErr]


end VaxisModel.Lemmas.TermBodyEval
