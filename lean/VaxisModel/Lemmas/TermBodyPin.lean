/-
Frozen copy of Gen/TermBody.lean (the function bodies as the extractor saw them when the model was
written).  `Props` proves `Gen.TermBody.* = Lemmas.TermBodyPin.*` by `rfl`: any change of the decision structure of
the source (an arm moved, a guard changed, `&&` turned into `||`, a modifier dropped) breaks that
theorem.  Regenerate with:  sed (see notes/C09.md, "Structural tie") after the hand model has been
updated to the new source.
-/
import VaxisModel.Model.GoBody

namespace VaxisModel.Lemmas.TermBodyPin
open VaxisModel.Model.GoBody

/-- widgets/term/key.go `encodeXterm` -/
def encodeXtermBody : Ss :=
  (Ss.ofList [
    (.assign .define (Es.ofList [(.var "xtermMods")]) (Es.ofList [(.bin .band (.var "key.Modifiers") (.var "vaxis.ModShift"))])),
    (.assign .orSet (Es.ofList [(.var "xtermMods")]) (Es.ofList [(.bin .band (.var "key.Modifiers") (.var "vaxis.ModAlt"))])),
    (.assign .orSet (Es.ofList [(.var "xtermMods")]) (Es.ofList [(.bin .band (.var "key.Modifiers") (.var "vaxis.ModCtrl"))])),
    (.ifS .nil (.bin .eq (.var "xtermMods") (.int 0)) (Ss.ofList [
      (.ifS (Ss.ofList [(.assign .define (Es.ofList [(.var "val"), (.var "ok")]) (Es.ofList [(.idx (.var "keymap") (.var "key.Keycode"))]))]) (.var "ok") (Ss.ofList [
        (.ret (Es.ofList [(.var "val")]))]) .nil),
      (.switchS .nil (.var "decckm") (Cs.ofList [
        ((Es.ofList [.tt]), (Ss.ofList [
          (.ifS (Ss.ofList [(.assign .define (Es.ofList [(.var "val"), (.var "ok")]) (Es.ofList [(.idx (.var "cursorKeysApplicationMode") (.var "key.Keycode"))]))]) (.var "ok") (Ss.ofList [
            (.ret (Es.ofList [(.var "val")]))]) .nil)])),
        ((Es.ofList [.ff]), (Ss.ofList [
          (.ifS (Ss.ofList [(.assign .define (Es.ofList [(.var "val"), (.var "ok")]) (Es.ofList [(.idx (.var "cursorKeysNormalMode") (.var "key.Keycode"))]))]) (.var "ok") (Ss.ofList [
            (.ret (Es.ofList [(.var "val")]))]) .nil)]))])),
      (.switchS .nil (.var "deckpam") (Cs.ofList [
        ((Es.ofList [.tt]), (Ss.ofList [
          (.ifS (Ss.ofList [(.assign .define (Es.ofList [(.var "val"), (.var "ok")]) (Es.ofList [(.idx (.var "applicationKeymap") (.var "key.Keycode"))]))]) (.var "ok") (Ss.ofList [
            (.ret (Es.ofList [(.var "val")]))]) .nil)])),
        ((Es.ofList [.ff]), (Ss.ofList [
          (.ifS (Ss.ofList [(.assign .define (Es.ofList [(.var "val"), (.var "ok")]) (Es.ofList [(.idx (.var "numericKeymap") (.var "key.Keycode"))]))]) (.var "ok") (Ss.ofList [
            (.ret (Es.ofList [(.var "val")]))]) .nil)]))])),
      (.ifS .nil (.bin .lt (.var "key.Keycode") (.var "unicode.MaxRune")) (Ss.ofList [
        (.ifS .nil (.bin .ne (.var "key.Text") (.str [])) (Ss.ofList [
          (.ret (Es.ofList [(.var "key.Text")]))]) .nil),
        (.ret (Es.ofList [(.call "string" (Es.ofList [(.var "key.Keycode")]))]))]) .nil)]) .nil),
    (.ifS .nil (.bin .land (.bin .eq (.var "key.Keycode") (.var "vaxis.KeyTab")) (.bin .eq (.var "xtermMods") (.var "vaxis.ModShift"))) (Ss.ofList [
      (.ret (Es.ofList [(.str [27, 91, 90])]))]) .nil),
    (.ifS (Ss.ofList [(.assign .define (Es.ofList [(.var "val"), (.var "ok")]) (Es.ofList [(.idx (.var "xtermKeymap") (.var "key.Keycode"))]))]) (.var "ok") (Ss.ofList [
      (.ret (Es.ofList [(.call "fmt.Sprintf" (Es.ofList [(.str [27, 91, 37, 100, 59, 37, 100, 37, 99]), (.var "val.number"), (.bin .add (.call "int" (Es.ofList [(.var "xtermMods")])) (.int 1)), (.var "val.final")]))]))]) .nil),
    (.ifS .nil (.bin .land (.bin .land (.bin .ne (.var "key.Text") (.str [])) (.bin .eq (.bin .band (.var "key.Modifiers") (.var "vaxis.ModCtrl")) (.int 0))) (.bin .eq (.bin .band (.var "key.Modifiers") (.var "vaxis.ModAlt")) (.int 0))) (Ss.ofList [
      (.ret (Es.ofList [(.var "key.Text")]))]) .nil),
    (.assign .define (Es.ofList [(.var "buf")]) (Es.ofList [(.call "bytes.NewBuffer" (Es.ofList [.nilv]))])),
    (.ifS .nil (.bin .lt (.var "key.Keycode") (.var "unicode.MaxRune")) (Ss.ofList [
      (.ifS .nil (.bin .ne (.bin .band (.var "xtermMods") (.var "vaxis.ModAlt")) (.int 0)) (Ss.ofList [
        (.expr (.call "buf.WriteRune" (Es.ofList [(.int 27)])))]) .nil),
      (.ifS .nil (.bin .ne (.bin .band (.var "xtermMods") (.var "vaxis.ModCtrl")) (.int 0)) (Ss.ofList [
        (.ifS .nil (.bin .land (.bin .ge (.var "key.Keycode") (.int 97)) (.bin .le (.var "key.Keycode") (.int 122))) (Ss.ofList [
          (.expr (.call "buf.WriteRune" (Es.ofList [(.bin .sub (.var "key.Keycode") (.int 96))]))),
          (.ret (Es.ofList [(.call "buf.String" .nil)]))]) .nil),
        (.switchS .nil (.var "key.Keycode") (Cs.ofList [
          ((Es.ofList [(.int 49)]), (Ss.ofList [
            (.expr (.call "buf.WriteRune" (Es.ofList [(.int 49)])))])),
          ((Es.ofList [(.int 50)]), (Ss.ofList [
            (.expr (.call "buf.WriteRune" (Es.ofList [(.int 0)])))])),
          ((Es.ofList [(.int 51)]), (Ss.ofList [
            (.expr (.call "buf.WriteRune" (Es.ofList [(.int 27)])))])),
          ((Es.ofList [(.int 52)]), (Ss.ofList [
            (.expr (.call "buf.WriteRune" (Es.ofList [(.int 28)])))])),
          ((Es.ofList [(.int 53)]), (Ss.ofList [
            (.expr (.call "buf.WriteRune" (Es.ofList [(.int 29)])))])),
          ((Es.ofList [(.int 54)]), (Ss.ofList [
            (.expr (.call "buf.WriteRune" (Es.ofList [(.int 30)])))])),
          ((Es.ofList [(.int 55)]), (Ss.ofList [
            (.expr (.call "buf.WriteRune" (Es.ofList [(.int 31)])))])),
          ((Es.ofList [(.int 56)]), (Ss.ofList [
            (.expr (.call "buf.WriteRune" (Es.ofList [(.int 127)])))])),
          ((Es.ofList [(.int 57)]), .nil),
          (.nil, (Ss.ofList [
            (.ifS .nil (.bin .land (.bin .ge (.var "key.Keycode") (.int 64)) (.bin .lt (.var "key.Keycode") (.int 96))) (Ss.ofList [
              (.expr (.call "buf.WriteRune" (Es.ofList [(.bin .sub (.var "key.Keycode") (.int 64))])))]) (Ss.ofList [
              (.expr (.call "buf.WriteRune" (Es.ofList [(.var "key.Keycode")])))]))]))])),
        (.ret (Es.ofList [(.call "buf.String" .nil)]))]) .nil),
      (.ifS .nil (.bin .ne (.bin .band (.var "xtermMods") (.var "vaxis.ModShift")) (.int 0)) (Ss.ofList [
        (.ifS .nil (.bin .gt (.var "key.ShiftedCode") (.int 0)) (Ss.ofList [
          (.expr (.call "buf.WriteRune" (Es.ofList [(.var "key.ShiftedCode")])))]) (Ss.ofList [
          (.expr (.call "buf.WriteRune" (Es.ofList [(.call "unicode.ToUpper" (Es.ofList [(.var "key.Keycode")]))])))])),
        (.ret (Es.ofList [(.call "buf.String" .nil)]))]) .nil),
      (.expr (.call "buf.WriteRune" (Es.ofList [(.var "key.Keycode")]))),
      (.ret (Es.ofList [(.call "buf.String" .nil)]))]) .nil),
    (.ret (Es.ofList [(.str [])]))])

/-- widgets/term/mouse.go `handleMouse` -/
def handleMouseBody : Ss :=
  (Ss.ofList [
    (.ifS .nil (.bin .land (.bin .land (.un .not (.var "vt.mode.mouseButtons")) (.un .not (.var "vt.mode.mouseDrag"))) (.un .not (.var "vt.mode.mouseMotion"))) (Ss.ofList [
      (.ifS .nil (.bin .land (.var "vt.mode.altScroll") (.var "vt.mode.smcup")) (Ss.ofList [
        (.assign .define (Es.ofList [(.var "up"), (.var "down")]) (Es.ofList [(.str [27, 91, 65]), (.str [27, 91, 66])])),
        (.ifS .nil (.var "vt.mode.decckm") (Ss.ofList [
          (.assign .set (Es.ofList [(.var "up"), (.var "down")]) (Es.ofList [(.str [27, 79, 65]), (.str [27, 79, 66])]))]) .nil),
        (.ifS .nil (.bin .eq (.var "msg.Button") (.var "vaxis.MouseWheelUp")) (Ss.ofList [
          (.expr (.call "vt.pty.WriteString" (Es.ofList [(.var "up")]))),
          (.expr (.call "vt.pty.WriteString" (Es.ofList [(.var "up")]))),
          (.expr (.call "vt.pty.WriteString" (Es.ofList [(.var "up")])))]) .nil),
        (.ifS .nil (.bin .eq (.var "msg.Button") (.var "vaxis.MouseWheelDown")) (Ss.ofList [
          (.expr (.call "vt.pty.WriteString" (Es.ofList [(.var "down")]))),
          (.expr (.call "vt.pty.WriteString" (Es.ofList [(.var "down")]))),
          (.expr (.call "vt.pty.WriteString" (Es.ofList [(.var "down")])))]) .nil)]) .nil),
      (.ret (Es.ofList [(.str [])]))]) .nil),
    (.ifS .nil (.bin .land (.bin .land (.un .not (.var "vt.mode.mouseMotion")) (.bin .eq (.var "msg.EventType") (.var "vaxis.EventMotion"))) (.bin .eq (.var "msg.Button") (.var "vaxis.MouseNoButton"))) (Ss.ofList [
      (.ret (Es.ofList [(.str [])]))]) .nil),
    (.ifS .nil (.bin .land (.bin .land (.un .not (.var "vt.mode.mouseDrag")) (.un .not (.var "vt.mode.mouseMotion"))) (.bin .eq (.var "msg.EventType") (.var "vaxis.EventMotion"))) (Ss.ofList [
      (.ret (Es.ofList [(.str [])]))]) .nil),
    (.ifS .nil (.var "vt.mode.mouseSGR") (Ss.ofList [
      (.switchS .nil (.var "msg.EventType") (Cs.ofList [
        ((Es.ofList [(.var "vaxis.EventMotion")]), (Ss.ofList [
          (.ret (Es.ofList [(.call "fmt.Sprintf" (Es.ofList [(.str [27, 91, 60, 37, 100, 59, 37, 100, 59, 37, 100, 77]), (.bin .add (.var "msg.Button") (.int 32)), (.bin .add (.var "msg.Col") (.int 1)), (.bin .add (.var "msg.Row") (.int 1))]))]))])),
        ((Es.ofList [(.var "vaxis.EventPress")]), (Ss.ofList [
          (.ret (Es.ofList [(.call "fmt.Sprintf" (Es.ofList [(.str [27, 91, 60, 37, 100, 59, 37, 100, 59, 37, 100, 77]), (.var "msg.Button"), (.bin .add (.var "msg.Col") (.int 1)), (.bin .add (.var "msg.Row") (.int 1))]))]))])),
        ((Es.ofList [(.var "vaxis.EventRelease")]), (Ss.ofList [
          (.ret (Es.ofList [(.call "fmt.Sprintf" (Es.ofList [(.str [27, 91, 60, 37, 100, 59, 37, 100, 59, 37, 100, 109]), (.var "msg.Button"), (.bin .add (.var "msg.Col") (.int 1)), (.bin .add (.var "msg.Row") (.int 1))]))]))])),
        (.nil, (Ss.ofList [
          (.ret (Es.ofList [(.str [])]))]))]))]) .nil),
    (.assign .define (Es.ofList [(.var "encodedCol")]) (Es.ofList [(.bin .add (.bin .add (.int 32) (.var "msg.Col")) (.int 1))])),
    (.assign .define (Es.ofList [(.var "encodedRow")]) (Es.ofList [(.bin .add (.bin .add (.int 32) (.var "msg.Row")) (.int 1))])),
    (.ret (Es.ofList [(.call "fmt.Sprintf" (Es.ofList [(.str [27, 91, 77, 37, 99, 37, 99, 37, 99]), (.bin .add (.var "msg.Button") (.int 32)), (.var "encodedCol"), (.var "encodedRow")]))]))])

/-- widgets/term/term.go `Update` -/
def updateBody : Ss :=
  (Ss.ofList [
    (.expr (.call "vt.mu.Lock" .nil)),
    (.deferS (.call "vt.mu.Unlock" .nil)),
    (.expr (.call "vt.invalidate" .nil)),
    (.typeSwitch "msg" (.var "msg") (Cs.ofList [
      ((Es.ofList [(.var "vaxis.Key")]), (Ss.ofList [
        (.assign .define (Es.ofList [(.var "str")]) (Es.ofList [(.call "encodeXterm" (Es.ofList [(.var "msg"), (.var "vt.mode.deckpam"), (.var "vt.mode.decckm")]))])),
        (.expr (.call "vt.pty.WriteString" (Es.ofList [(.var "str")])))])),
      ((Es.ofList [(.var "vaxis.PasteStartEvent")]), (Ss.ofList [
        (.ifS .nil (.var "vt.mode.paste") (Ss.ofList [
          (.expr (.call "vt.pty.WriteString" (Es.ofList [(.str [27, 91, 50, 48, 48, 126])]))),
          (.ret .nil)]) .nil)])),
      ((Es.ofList [(.var "vaxis.PasteEndEvent")]), (Ss.ofList [
        (.ifS .nil (.var "vt.mode.paste") (Ss.ofList [
          (.expr (.call "vt.pty.WriteString" (Es.ofList [(.str [27, 91, 50, 48, 49, 126])]))),
          (.ret .nil)]) .nil)])),
      ((Es.ofList [(.var "vaxis.Mouse")]), (Ss.ofList [
        (.assign .define (Es.ofList [(.var "mouse")]) (Es.ofList [(.call "vt.handleMouse" (Es.ofList [(.var "msg")]))])),
        (.expr (.call "vt.pty.WriteString" (Es.ofList [(.var "mouse")]))),
        (.ret .nil)]))]))])

/-- Number of nodes the extractor could not translate. -/
def unknownCount : Nat := 0

end VaxisModel.Lemmas.TermBodyPin
