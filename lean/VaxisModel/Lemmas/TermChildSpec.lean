/-
Helper lemmas for Props/C13Child: the table-driven mode model against the standard meaning row by row, the
dispatch rows, the parameter clamp, `runOps` over appended streams.
-/
import VaxisModel.Lemmas.TermEmuModes

namespace VaxisModel.Lemmas.TermChildSpec
open VaxisModel.Model.Emu VaxisModel.Model.TermChild VaxisModel.Gen.TermModes
open VaxisModel.Model.TermInputModes VaxisModel.Lemmas.TermEmuFrame VaxisModel.Lemmas.TermEmuModes
open VaxisModel.Model.Key (lookup Uni Str)
open VaxisModel.Spec.TermInput

theorem set_rows_conform :
    ((Gen.TermInputModes.decset.map (·.1)).all fun n => (List.range 512).all fun s =>
      applyParam Gen.TermInputModes.decset (modesOfNat s) n == specParam true (modesOfNat s) n) = true := by
  decide +kernel

theorem rst_rows_conform :
    ((Gen.TermInputModes.decrst.map (·.1)).all fun n => (List.range 512).all fun s =>
      applyParam Gen.TermInputModes.decrst (modesOfNat s) n == specParam false (modesOfNat s) n) = true := by
  decide +kernel

/-- Every mode number the standard meaning speaks about has a case in `decset` and in `decrst`. -/
theorem spec_numbers_have_cases :
    ([1, 1000, 1002, 1003, 1006, 1007, 1049, 2004].all fun n =>
      (Gen.TermInputModes.decset.map (·.1)).contains n && (Gen.TermInputModes.decrst.map (·.1)).contains n) = true := by
  decide

theorem specParam_other (v : Bool) (md : IModes) (n : Int)
    (h : n ∉ [1, 1000, 1002, 1003, 1006, 1007, 1049, 2004]) : specParam v md n = md := by
  simp only [List.mem_cons, List.not_mem_nil, or_false, not_or] at h
  obtain ⟨h1, h2, h3, h4, h5, h6, h7, h8⟩ := h
  simp [specParam, h1, h2, h3, h4, h5, h6, h7, h8]

theorem param_conform (tbl : List (Int × List (Nat × Bool))) (v : Bool)
    (hrows : ((tbl.map (·.1)).all fun n => (List.range 512).all fun s =>
      applyParam tbl (modesOfNat s) n == specParam v (modesOfNat s) n) = true)
    (hnums : ∀ n ∈ [1, 1000, 1002, 1003, 1006, 1007, 1049, 2004], n ∈ tbl.map (·.1))
    (md : IModes) (n : Int) : applyParam tbl md n = specParam v md n := by
  by_cases hk : n ∈ tbl.map (·.1)
  · have := List.all_eq_true.mp hrows n hk
    have := all_states (P := fun md => applyParam tbl md n == specParam v md n) this md
    simpa using this
  · rw [specParam_other v md n (fun hn => hk (hnums n hn))]
    simp [applyParam, lookup_none_of_not_mem n tbl hk]

theorem nums_in_set : ∀ n ∈ [1, 1000, 1002, 1003, 1006, 1007, 1049, 2004], n ∈ Gen.TermInputModes.decset.map (·.1) := by
  intro n hn
  have := List.all_eq_true.mp spec_numbers_have_cases n hn
  simp only [Bool.and_eq_true, List.contains_iff_mem] at this
  exact this.1

theorem nums_in_rst : ∀ n ∈ [1, 1000, 1002, 1003, 1006, 1007, 1049, 2004], n ∈ Gen.TermInputModes.decrst.map (·.1) := by
  intro n hn
  have := List.all_eq_true.mp spec_numbers_have_cases n hn
  simp only [Bool.and_eq_true, List.contains_iff_mem] at this
  exact this.2

theorem foldl_congr {α β : Type} (f g : α → β → α) (h : ∀ a b, f a b = g a b) : ∀ (l : List β) (a : α), l.foldl f a = l.foldl g a
  | [], _ => rfl
  | b :: rest, a => by simp only [List.foldl_cons, h]; exact foldl_congr f g h rest _

theorem dispatch_rows :
    (csiTable.all fun r => (r.2.1 == CsiArm.decset) == (r.1 == [63, 104]) && (r.2.1 == CsiArm.decrst) == (r.1 == [63, 108])) &&
    (escTable.all fun r => (r.2.1 == EscArm.arm_3d) == (r.1 == [61]) && (r.2.1 == EscArm.arm_3e) == (r.1 == [62]) &&
      (r.2.1 == EscArm.ris) == (r.1 == [99])) &&
    (lookupArm csiTable [63, 104] == some CsiArm.decset) && (lookupArm csiTable [63, 108] == some CsiArm.decrst) &&
    (lookupArm escTable [61] == some EscArm.arm_3d) && (lookupArm escTable [62] == some EscArm.arm_3e) &&
    (lookupArm escTable [99] == some EscArm.ris) = true := by
  decide

theorem lookupArm_some {α : Type} {t : List (List Nat × α × ArgKind)} {l : List Nat} {a : α}
    (h : lookupArm t l = some a) : ∃ r ∈ t, r.1 = l ∧ r.2.1 = a := by
  unfold lookupArm at h
  obtain ⟨r, hr, hra⟩ := Option.map_eq_some_iff.mp h
  refine ⟨r, List.mem_of_find?_eq_some hr, ?_, hra⟩
  have := List.find?_some hr
  simpa using this

/-- The clamp `csi()` applies to its parameters never changes which mode a number names. -/
theorem specParam_clamp (v : Bool) (md : IModes) (n : Int) : specParam v md (clampParam n) = specParam v md n := by
  unfold clampParam maxParam
  split
  · rename_i h
    rw [specParam_other v md 65535 (by decide), specParam_other v md n]
    simp only [List.mem_cons, List.not_mem_nil, or_false, not_or]
    omega
  · rfl

theorem foldl_specParam_clamp (v : Bool) : ∀ (ns : List Int) (md : IModes),
    (ns.map clampParam).foldl (specParam v) md = ns.foldl (specParam v) md
  | [], _ => rfl
  | n :: rest, md => by
    simp only [List.map_cons, List.foldl_cons, specParam_clamp]
    exact foldl_specParam_clamp v rest _

theorem runOps_append : ∀ (a b : List EOp) (e0 : Emu), runOps e0 (a ++ b) = (runOps e0 a >>= fun e => runOps e b)
  | [], _, _ => rfl
  | op :: rest, b, e0 => by
    simp only [List.cons_append, runOps]
    cases emuStep e0 op with
    | error p => rfl
    | ok r =>
      obtain ⟨e1, k⟩ := r
      simp only [bind, Except.bind]
      exact runOps_append rest b e1

end VaxisModel.Lemmas.TermChildSpec
