/-
Frame lemmas for C13's composition with the emulator model: which operations of `Model.Emu` can
change the `mode` struct at all.  Everything except SM / RM / DECSET / DECRST / DECRC / `ESC =` /
`ESC >` / RIS returns a state with *the same* `mode`; SM / RM / DECRC change only fields the
forwarding code never reads.
-/
import VaxisModel.Model.TermChild

namespace VaxisModel.Lemmas.TermEmuFrame
open VaxisModel.Model.Emu VaxisModel.Model.TermChild VaxisModel.Gen.TermModes

theorem bind_ok {α β : Type} {x : M α} {f : α → M β} {b : β} (h : (x >>= f) = .ok b) :
    ∃ a, x = .ok a ∧ f a = .ok b := by
  cases x with
  | error e => simp [bind, Except.bind] at h
  | ok a => exact ⟨a, rfl, h⟩

theorem ok_inj {α : Type} {a b : α} (h : (Except.ok a : M α) = .ok b) : a = b := by
  injection h

theorem pure_inj {α : Type} {a b : α} (h : (pure a : M α) = .ok b) : a = b := by
  injection h

@[simp] theorem setActive_mode' (e : Emu) (g : Grid) : (e.setActive g).mode = e.mode := by
  unfold Emu.setActive; split <;> rfl

theorem scrollUp_mode {e e' : Emu} {n : Int} (h : scrollUp e n = .ok e') : e'.mode = e.mode := by
  unfold scrollUp at h
  obtain ⟨g, _, h⟩ := bind_ok h
  have := ok_inj h; subst this; simp

theorem scrollDown_mode {e e' : Emu} {n : Int} (h : scrollDown e n = .ok e') : e'.mode = e.mode := by
  unfold scrollDown at h
  obtain ⟨g, _, h⟩ := bind_ok h
  have := ok_inj h; subst this; simp

theorem ind_mode {e e' : Emu} (h : ind e = .ok e') : e'.mode = e.mode := by
  unfold ind at h
  simp only at h
  split at h
  · exact (scrollUp_mode h).trans rfl
  · split at h <;> (have := ok_inj h; subst this; rfl)

theorem nel_mode {e e' : Emu} (h : nel e = .ok e') : e'.mode = e.mode := by
  unfold nel at h
  obtain ⟨e1, h1, h⟩ := bind_ok h
  have := ok_inj h; subst this
  have := ind_mode h1; exact this

theorem ri_mode {fx : Fixes} {e e' : Emu} (h : ri fx e = .ok e') : e'.mode = e.mode := by
  unfold ri at h
  simp only at h
  split at h
  · split at h
    · exact (scrollDown_mode h).trans rfl
    · split at h <;> (have := ok_inj h; subst this; rfl)
  · split at h
    · have := ok_inj h; subst this; rfl
    · split at h
      · exact (scrollDown_mode h).trans rfl
      · have := ok_inj h; subst this; rfl


theorem ok_bind' {α β : Type} (a : α) (f : α → M β) : ((Except.ok a : M α) >>= f) = f a := rfl
theorem pure_bind' {α β : Type} (a : α) (f : α → M β) : ((pure a : M α) >>= f) = f a := rfl

set_option hygiene false in
/-- peel binds and branches of `h : <do-block> = .ok e'` -/
macro "peel" : tactic => `(tactic| repeat' (first
  | (simp only [ok_bind', pure_bind'] at h)
  | (obtain ⟨_, _, h⟩ := bind_ok h)
  | (split at h)))

theorem repeatGo_mode {f : Emu → M Emu} (hf : ∀ s s', f s = .ok s' → s'.mode = s.mode) :
    ∀ (n : Nat) (s s' : Emu), repeatGo f n s = .ok s' → s'.mode = s.mode := by
  intro n
  induction n with
  | zero => intro s s' h; have := ok_inj h; subst this; rfl
  | succ n ih =>
    intro s s' h
    unfold repeatGo at h
    obtain ⟨s1, h1, h⟩ := bind_ok h
    exact (ih _ _ h).trans (hf _ _ h1)

theorem repeatN_mode {f : Emu → M Emu} (hf : ∀ s s', f s = .ok s' → s'.mode = s.mode)
    {n : Nat} {s s' : Emu} (h : repeatN f n s = .ok s') : s'.mode = s.mode := by
  unfold repeatN at h
  split at h
  · exact repeatGo_mode hf _ _ _ h
  · obtain ⟨_, _, h⟩ := bind_ok h
    cases h

set_option hygiene false in
macro "fin_ok" : tactic => `(tactic| (have hh := ok_inj h; subst hh; simp))

theorem ich_mode {fx : Fixes} {e e' : Emu} {n : Int} (h : ich fx e n = .ok e') : e'.mode = e.mode := by
  unfold ich at h; peel; fin_ok

theorem ed_mode {e e' : Emu} {n : Int} (h : ed e n = .ok e') : e'.mode = e.mode := by
  unfold ed at h; peel <;> fin_ok

theorem el_mode {fx : Fixes} {e e' : Emu} {n : Int} (h : el fx e n = .ok e') : e'.mode = e.mode := by
  unfold el at h; peel <;> fin_ok

theorem il_mode {fx : Fixes} {e e' : Emu} {n : Int} (h : il fx e n = .ok e') : e'.mode = e.mode := by
  unfold il at h; peel <;> fin_ok

theorem dl_mode {fx : Fixes} {e e' : Emu} {n : Int} (h : dl fx e n = .ok e') : e'.mode = e.mode := by
  unfold dl at h; peel <;> fin_ok

theorem dch_mode {e e' : Emu} {n : Int} (h : dch e n = .ok e') : e'.mode = e.mode := by
  unfold dch at h; peel <;> fin_ok

theorem ech_mode {e e' : Emu} {n : Int} (h : ech e n = .ok e') : e'.mode = e.mode := by
  unfold ech at h; peel <;> fin_ok

theorem rep_mode {fx : Fixes} {e e' : Emu} {n : Int} (h : rep fx e n = .ok e') : e'.mode = e.mode := by
  unfold rep at h; peel <;> fin_ok

theorem sgr_mode {e e' : Emu} {pm : List Param} (h : sgr e pm = .ok e') : e'.mode = e.mode := by
  unfold sgr at h; peel <;> fin_ok

theorem osc_mode {fx : Fixes} {e e' : Emu} {d : List Nat} {info : OscInfo} {k : Nat} (h : osc fx e d info = .ok (e', k)) : e'.mode = e.mode := by
  unfold osc at h
  simp only at h
  peel
  all_goals (first | (have hh := ok_inj h; injection hh with h1 h2; subst h1; rfl) | cases h)

/-- `print` after the wrap stage (same text as in `Model/Emu.lean`). -/
def pTail (fx : Fixes) (e : Emu) (g : G) (w : Nat) : M Emu := do
  let wi : Int := w
  let col := e.cur.col
  let rw := e.cur.row
  let e ← if e.mode.irm then do
      let line ← getI e.active rw
      let line' ← forDown e.right (if fx.f16 then col + wi else col + 1) (fun i line => do
          let x ← getI line (i - wi)
          setI line i x) line
      let g' ← setI e.active rw line'
      .ok (e.setActive g')
    else .ok e
  let col := if col > e.width - 1 then e.width - 1 else col
  let rw := if rw > e.height - 1 then e.height - 1 else rw
  if w = 0 then .ok e
  else do
    let cell : ECell := { g := g, w := w, st := e.cur.st }
    let row ← getI e.active rw
    let row' ← setI row col cell
    let g1 ← setI e.active rw row'
    -- trailing cells of a wide glyph
    let g2 ← forUpBrk 1 (wi - 1) (fun i gr =>
      if col + i > e.right then .ok (gr, false)
      else do
        let gr' ← modCell gr rw (col + i) (fun c => { c with g := [32], st := e.cur.st })
        .ok (gr', true)) g1
    let e := e.setActive g2
    let e :=
      if !e.mode.decawm && decide (e.cur.col + wi > e.right) then e
      else { e with cur := { e.cur with col := e.cur.col + wi } }
    let e :=
      if fx.f105c && decide (e.cur.col > e.right + 1) then { e with cur := { e.cur with col := e.right + 1 } } else e
    .ok (if decide (e.cur.col ≥ e.right + 1) && e.mode.decawm then { e with lastCol := true } else e)

theorem pTail_mode {fx : Fixes} {e e' : Emu} {g : G} {w : Nat} (h : pTail fx e g w = .ok e') : e'.mode = e.mode := by
  unfold pTail at h
  peel
  all_goals (have hh := ok_inj h; subst hh; simp)

theorem print_mode {fx : Fixes} {e e' : Emu} {g : G} {w : Nat} (h : print fx e g w = .ok e') : e'.mode = e.mode := by
  unfold print at h
  cases hss : e.cs.ss <;> simp only [hss, if_true, if_false, Bool.false_eq_true] at h
  · by_cases hw : ((e.lastCol || decide (e.cur.col + ↑w - 1 > e.right)) && e.mode.decawm) = true
    · rw [if_pos hw] at h
      obtain ⟨g', _, h⟩ := bind_ok h
      obtain ⟨e1, h1, h⟩ := bind_ok h
      have m1 := nel_mode h1
      simp only [setActive_mode'] at m1
      rw [← m1]
      exact pTail_mode h
    · rw [if_neg hw] at h
      exact pTail_mode h
  · by_cases hw : ((e.lastCol || decide (e.cur.col + ↑w - 1 > e.right)) && e.mode.decawm) = true
    · rw [if_pos hw] at h
      obtain ⟨g', _, h⟩ := bind_ok h
      obtain ⟨e1, h1, h⟩ := bind_ok h
      have m1 := nel_mode h1
      simp only [setActive_mode'] at m1
      rw [← m1]
      exact pTail_mode h
    · rw [if_neg hw] at h
      exact (pTail_mode h).trans rfl

theorem cnl_mode {fx : Fixes} {e e' : Emu} {n : Int} (h : cnl fx e n = .ok e') : e'.mode = e.mode := by
  unfold cnl at h
  split at h
  · have := ok_inj h; subst this; rfl
  · exact (repeatN_mode (fun _ _ => nel_mode) h).trans rfl

theorem cpl_mode {fx : Fixes} {e e' : Emu} {n : Int} (h : cpl fx e n = .ok e') : e'.mode = e.mode := by
  unfold cpl at h
  split at h
  · have := ok_inj h; subst this; rfl
  · obtain ⟨e1, h1, h⟩ := bind_ok h
    have := ok_inj h; subst this
    exact (repeatN_mode (fun _ _ => ri_mode) h1).trans rfl

theorem lf_mode {e e' : Emu} (h : lf e = .ok e') : e'.mode = e.mode := by
  unfold lf at h
  obtain ⟨e1, h1, h⟩ := bind_ok h
  have := ok_inj h; subst this
  have := ind_mode h1
  split <;> exact this

theorem c0_mode {fx : Fixes} {e e' : Emu} {r k : Nat} (h : c0 fx e r = .ok (e', k)) : e'.mode = e.mode := by
  unfold c0 at h
  split at h
  · have := ok_inj h; injection this with h1 h2; subst h1; rfl
  · split at h
    case h_1 => have := ok_inj h; injection this with h1 h2; subst h1; rfl
    case h_2 => have := ok_inj h; injection this with h1 h2; subst h1; unfold bs; simp only; (repeat' split) <;> rfl
    case h_3 => have := ok_inj h; injection this with h1 h2; subst h1; rfl
    case h_4 => obtain ⟨e1, h1, h⟩ := bind_ok h; have := ok_inj h; injection this with h2 h3; subst h2; exact lf_mode h1
    case h_5 => obtain ⟨e1, h1, h⟩ := bind_ok h; have := ok_inj h; injection this with h2 h3; subst h2; exact lf_mode h1
    case h_6 => obtain ⟨e1, h1, h⟩ := bind_ok h; have := ok_inj h; injection this with h2 h3; subst h2; exact lf_mode h1
    case h_7 => have := ok_inj h; injection this with h1 h2; subst h1; rfl
    case h_8 => have := ok_inj h; injection this with h1 h2; subst h1; rfl
    case h_9 => have := ok_inj h; injection this with h1 h2; subst h1; rfl

end VaxisModel.Lemmas.TermEmuFrame
