/-
How one operation of the emulator model `Model.Emu` moves the nine input modes, expressed through the
table-driven mode model of C13 (`Model.TermInputModes.applyChild` over the regenerated
`Gen.TermInputModes`), and the agreement of that model with the standard meaning (`Spec.specApply`) for
EVERY mode number and parameter list.
-/
import VaxisModel.Lemmas.TermEmuFrame
import VaxisModel.Spec.TermInput

namespace VaxisModel.Lemmas.TermEmuModes
open VaxisModel.Model.Emu VaxisModel.Model.TermChild VaxisModel.Gen.TermModes
open VaxisModel.Model.TermInputModes VaxisModel.Lemmas.TermEmuFrame
open VaxisModel.Model.Key (lookup)
open VaxisModel.Spec.TermInput (modesOfNat specParam specApply)

abbrev IModes := VaxisModel.Model.TermMouse.Modes

/-- Position of an emulator mode field among the nine input modes (99 = not an input mode). -/
def fieldIdx : ModeField → Nat
  | .deckpam => 0 | .decckm => 1 | .paste => 2 | .mouseButtons => 3 | .mouseDrag => 4
  | .mouseMotion => 5 | .mouseSGR => 6 | .altScroll => 7 | .smcup => 8 | _ => 99

theorem inputModes_set (m : Modes) (f : ModeField) (b : Bool) :
    inputModes (m.set f b) = setField (inputModes m) (fieldIdx f) b := by
  cases f <;> rfl

/-! ### the 512 mode states -/

def natOfModes (md : IModes) : Nat :=
  (if md.deckpam then 1 else 0) + (if md.decckm then 2 else 0) + (if md.paste then 4 else 0) +
  (if md.mouseButtons then 8 else 0) + (if md.mouseDrag then 16 else 0) + (if md.mouseMotion then 32 else 0) +
  (if md.mouseSGR then 64 else 0) + (if md.altScroll then 128 else 0) + (if md.smcup then 256 else 0)

theorem natOfModes_lt (md : IModes) : natOfModes md < 512 := by
  unfold natOfModes
  repeat' split
  all_goals omega

theorem modes_roundtrip (md : IModes) : modesOfNat (natOfModes md) = md := by
  obtain ⟨a, b, c, d, e, f, g, h, i⟩ := md
  cases a <;> cases b <;> cases c <;> cases d <;> cases e <;> cases f <;> cases g <;> cases h <;> cases i <;> rfl

/-- A Bool statement checked on the 512 states holds for every state. -/
theorem all_states {P : IModes → Bool} (h : ((List.range 512).all fun s => P (modesOfNat s)) = true) (md : IModes) :
    P md = true := by
  have := List.all_eq_true.mp h (natOfModes md) (List.mem_range.mpr (natOfModes_lt md))
  rwa [modes_roundtrip] at this

/-! ### table lookups outside the key lists -/

theorem lookup_none_of_not_mem {α : Type} (n : Int) : ∀ tbl : List (Int × α), n ∉ tbl.map (·.1) → lookup n tbl = none
  | [], _ => rfl
  | (k, v) :: rest, h => by
    have h1 : n ≠ k := fun e => h (by simp [e])
    have h2 : n ∉ rest.map (·.1) := fun e => h (by simp [e])
    simp [lookup, h1, lookup_none_of_not_mem n rest h2]

theorem lookupMode_none_of_not_mem (n : Int) (tbl : List (Int × ModeField)) (h : n ∉ tbl.map (·.1)) :
    lookupMode tbl n = none := by
  unfold lookupMode
  rw [Option.map_eq_none_iff, List.find?_eq_none]
  intro x hx hx'
  simp only [decide_eq_true_eq] at hx'
  exact h (by rw [← hx']; exact List.mem_map_of_mem hx)

/-! ### DECSET / DECRST: what the emulator model does to the input modes for one parameter -/

/-- The assignments `decsetOne` / `decrstOne` make to input-mode fields for the number `n`
    (`v = true`: DECSET with `tbl = decsetTable`; `v = false`: DECRST with `tbl = decrstTable`). -/
def emuAssigns (tbl : List (Int × ModeField)) (v : Bool) (n : Int) : List (Nat × Bool) :=
  match lookupMode tbl n with
  | some f => [(fieldIdx f, v)]
  | none => if n = 7 then [] else if n = 1049 then [(8, v), (7, v)] else []

theorem decsc_mode (e : Emu) : (decsc e).mode = e.mode := by
  unfold decsc; simp only; split <;> rfl

theorem decrc_inputModes (e : Emu) : inputModes (decrc e).mode = inputModes e.mode := by
  unfold decrc; rfl

theorem decsetOne_modes {fx : Fixes} {e e' : Emu} {p : Param} (h : decsetOne fx e p = .ok e') :
    inputModes e'.mode = applyAssigns (inputModes e.mode) (emuAssigns decsetTable true p.1) := by
  unfold decsetOne at h
  unfold emuAssigns
  split at h
  · rename_i f hf
    have := ok_inj h; subst this
    simp only [hf, applyAssigns, inputModes_set]
  · rename_i hf
    simp only [hf]
    split at h
    · rename_i h7
      have := ok_inj h; subst this
      simp only [h7, if_true, applyAssigns]; rfl
    · rename_i h7
      simp only [h7, if_false]
      split at h
      · rename_i h1049
        simp only [h1049, if_true]
        simp only at h
        split at h
        · obtain ⟨e1, h1, h⟩ := bind_ok h
          have := ok_inj h; subst this
          have m1 : e1.mode = e.mode := (ed_mode h1).trans (decsc_mode e)
          simp only [applyAssigns, setField, inputModes, m1]
        · obtain ⟨e1, h1, h⟩ := bind_ok h
          have := ok_inj h; subst this
          have m1 : e1.mode = e.mode := by have := ok_inj h1; subst this; exact decsc_mode e
          simp only [applyAssigns, setField, inputModes, m1]
      · rename_i h1049
        have := ok_inj h; subst this
        simp only [h1049, if_false, applyAssigns]

theorem decrstOne_modes {e e' : Emu} {p : Param} (h : decrstOne e p = .ok e') :
    inputModes e'.mode = applyAssigns (inputModes e.mode) (emuAssigns decrstTable false p.1) := by
  unfold decrstOne at h
  unfold emuAssigns
  split at h
  · rename_i f hf
    have := ok_inj h; subst this
    simp only [hf, applyAssigns, inputModes_set]
  · rename_i hf
    simp only [hf]
    split at h
    · rename_i h7
      have := ok_inj h; subst this
      simp only [h7, if_true, applyAssigns]; rfl
    · rename_i h7
      simp only [h7, if_false]
      split at h
      · rename_i h1049
        simp only [h1049, if_true]
        simp only at h
        split at h
        · obtain ⟨e1, h1, h⟩ := bind_ok h
          have := ok_inj h; subst this
          have m1 : e1.mode = e.mode := ed_mode h1
          rw [decrc_inputModes]
          simp only [applyAssigns, setField, inputModes, m1]
        · obtain ⟨e1, h1, h⟩ := bind_ok h
          have := ok_inj h; subst this
          have m1 : e1.mode = e.mode := by have := ok_inj h1; subst this; rfl
          rw [decrc_inputModes]
          simp only [applyAssigns, setField, inputModes, m1]
      · rename_i h1049
        have := ok_inj h; subst this
        simp only [h1049, if_false, applyAssigns]

/-! ### agreement of the emulator model's tables (`Gen.TermModes`, extractor C05) with the mode tables of
    C13 (`Gen.TermInputModes`, extractor C13), for every number -/

def setKeys : List Int := decsetTable.map (·.1) ++ [7, 1049] ++ Gen.TermInputModes.decset.map (·.1)
def rstKeys : List Int := decrstTable.map (·.1) ++ [7, 1049] ++ Gen.TermInputModes.decrst.map (·.1)

theorem set_rows_agree :
    (setKeys.all fun n => (List.range 512).all fun s =>
      applyAssigns (modesOfNat s) (emuAssigns decsetTable true n) == applyParam Gen.TermInputModes.decset (modesOfNat s) n) = true := by
  decide +kernel

theorem rst_rows_agree :
    (rstKeys.all fun n => (List.range 512).all fun s =>
      applyAssigns (modesOfNat s) (emuAssigns decrstTable false n) == applyParam Gen.TermInputModes.decrst (modesOfNat s) n) = true := by
  decide +kernel

theorem emuAssigns_none (tbl : List (Int × ModeField)) (v : Bool) (n : Int)
    (h1 : n ∉ tbl.map (·.1)) (h7 : n ≠ 7) (h1049 : n ≠ 1049) : emuAssigns tbl v n = [] := by
  unfold emuAssigns
  simp [lookupMode_none_of_not_mem n tbl h1, h7, h1049]

theorem set_agree (md : IModes) (n : Int) :
    applyAssigns md (emuAssigns decsetTable true n) = applyParam Gen.TermInputModes.decset md n := by
  by_cases hk : n ∈ setKeys
  · have := List.all_eq_true.mp set_rows_agree n hk
    have := all_states (P := fun md => applyAssigns md (emuAssigns decsetTable true n) == applyParam Gen.TermInputModes.decset md n) this md
    simpa using this
  · simp only [setKeys, List.mem_append, not_or] at hk
    obtain ⟨⟨h1, h2⟩, h3⟩ := hk
    rw [emuAssigns_none _ _ _ h1 (fun e => h2 (by simp [e])) (fun e => h2 (by simp [e]))]
    simp [applyParam, lookup_none_of_not_mem n _ h3, applyAssigns]

theorem rst_agree (md : IModes) (n : Int) :
    applyAssigns md (emuAssigns decrstTable false n) = applyParam Gen.TermInputModes.decrst md n := by
  by_cases hk : n ∈ rstKeys
  · have := List.all_eq_true.mp rst_rows_agree n hk
    have := all_states (P := fun md => applyAssigns md (emuAssigns decrstTable false n) == applyParam Gen.TermInputModes.decrst md n) this md
    simpa using this
  · simp only [rstKeys, List.mem_append, not_or] at hk
    obtain ⟨⟨h1, h2⟩, h3⟩ := hk
    rw [emuAssigns_none _ _ _ h1 (fun e => h2 (by simp [e])) (fun e => h2 (by simp [e]))]
    simp [applyParam, lookup_none_of_not_mem n _ h3, applyAssigns]

theorem decset_modes {fx : Fixes} : ∀ (pm : List Param) {e e' : Emu}, decset fx e pm = .ok e' →
    inputModes e'.mode = (pm.map (·.1)).foldl (applyParam Gen.TermInputModes.decset) (inputModes e.mode)
  | [], e, e', h => by have := ok_inj h; subst this; rfl
  | p :: rest, e, e', h => by
    unfold decset at h
    rw [List.foldlM_cons] at h
    obtain ⟨e1, h1, h⟩ := bind_ok h
    have ih := decset_modes rest (e := e1) (e' := e') h
    rw [ih, decsetOne_modes h1, set_agree]
    rfl

theorem decrst_modes : ∀ (pm : List Param) {e e' : Emu}, decrst e pm = .ok e' →
    inputModes e'.mode = (pm.map (·.1)).foldl (applyParam Gen.TermInputModes.decrst) (inputModes e.mode)
  | [], e, e', h => by have := ok_inj h; subst this; rfl
  | p :: rest, e, e', h => by
    unfold decrst at h
    rw [List.foldlM_cons] at h
    obtain ⟨e1, h1, h⟩ := bind_ok h
    have ih := decrst_modes rest (e := e1) (e' := e') h
    rw [ih, decrstOne_modes h1, rst_agree]
    rfl

/-! ### SM / RM never touch an input mode -/

theorem sm_rm_tables_not_input :
    ((smTable ++ rmTable).all fun r => fieldIdx r.2 == 99) = true := by decide

theorem smOne_inputModes (tab : List (Int × ModeField)) (htab : ∀ r ∈ tab, fieldIdx r.2 = 99) (b : Bool) (e : Emu) (p : Param) :
    inputModes (smOne tab b e p).mode = inputModes e.mode := by
  unfold smOne
  split
  · rename_i f hf
    unfold lookupMode at hf
    obtain ⟨r, hr, hrf⟩ := Option.map_eq_some_iff.mp hf
    have hmem := List.mem_of_find?_eq_some hr
    have := htab r hmem
    simp only [inputModes_set]
    rw [← hrf, this]; rfl
  · rfl

theorem foldl_smOne_inputModes (tab : List (Int × ModeField)) (htab : ∀ r ∈ tab, fieldIdx r.2 = 99) (b : Bool) :
    ∀ (pm : List Param) (e : Emu), inputModes (pm.foldl (smOne tab b) e).mode = inputModes e.mode
  | [], _ => rfl
  | p :: rest, e => by
    rw [List.foldl_cons, foldl_smOne_inputModes tab htab b rest, smOne_inputModes tab htab]

theorem sm_inputModes (e : Emu) (pm : List Param) : inputModes (sm e pm).mode = inputModes e.mode := by
  apply foldl_smOne_inputModes
  intro r hr
  have := List.all_eq_true.mp sm_rm_tables_not_input r (by simp [hr])
  simpa using this

theorem rm_inputModes (e : Emu) (pm : List Param) : inputModes (rm e pm).mode = inputModes e.mode := by
  apply foldl_smOne_inputModes
  intro r hr
  have := List.all_eq_true.mp sm_rm_tables_not_input r (by simp [hr])
  simpa using this

/-! ### ESC = / ESC > / RIS -/

theorem pam_pnm_ris_agree :
    ((List.range 512).all fun s =>
      applyChild (modesOfNat s) .pam == { modesOfNat s with deckpam := true } &&
      applyChild (modesOfNat s) .pnm == { modesOfNat s with deckpam := false } &&
      applyChild (modesOfNat s) .ris == {}) = true := by
  decide +kernel

theorem pam_agree (md : IModes) : applyChild md .pam = { md with deckpam := true } := by
  have := all_states (P := fun md => applyChild md .pam == { md with deckpam := true } &&
      applyChild md .pnm == { md with deckpam := false } && applyChild md .ris == {}) pam_pnm_ris_agree md
  simp only [Bool.and_eq_true, beq_iff_eq] at this
  exact this.1.1

theorem pnm_agree (md : IModes) : applyChild md .pnm = { md with deckpam := false } := by
  have := all_states (P := fun md => applyChild md .pam == { md with deckpam := true } &&
      applyChild md .pnm == { md with deckpam := false } && applyChild md .ris == {}) pam_pnm_ris_agree md
  simp only [Bool.and_eq_true, beq_iff_eq] at this
  exact this.1.2

theorem ris_agree (md : IModes) : applyChild md .ris = {} := by
  have := all_states (P := fun md => applyChild md .pam == { md with deckpam := true } &&
      applyChild md .pnm == { md with deckpam := false } && applyChild md .ris == {}) pam_pnm_ris_agree md
  simp only [Bool.and_eq_true, beq_iff_eq] at this
  exact this.2

/-! ### dispatch -/

theorem esc_modes {fx : Fixes} {e e' : Emu} {l : List Nat} (h : esc fx e l = .ok e') :
    inputModes e'.mode = stepModes (inputModes e.mode) (modelOpOf (.esc l)) := by
  unfold esc at h
  unfold modelOpOf
  split at h
  · rename_i hl
    have := ok_inj h; subst this
    simp only [hl, Option.bind_none, stepModes]
  · rename_i arm hl
    simp only [hl, Option.bind_some]
    cases arm <;> simp only [escArmOp, stepModes] at h ⊢
    case decsc => have := ok_inj h; subst this; rw [decsc_mode]
    case decrc => have := ok_inj h; subst this; rw [decrc_inputModes]
    case ind => rw [ind_mode h]
    case nel => rw [nel_mode h]
    case ri => rw [ri_mode h]
    case arm_3d => have := ok_inj h; subst this; rw [pam_agree]; rfl
    case arm_3e => have := ok_inj h; subst this; rw [pnm_agree]; rfl
    case ris => have := ok_inj h; subst this; rw [ris_agree]; rfl
    all_goals (have := ok_inj h; subst this; rfl)

set_option linter.unusedSimpArgs false in
theorem csi_modes {fx : Fixes} (hf : fx.f18 = true) {e e' : Emu} {l : List Nat} {pm : List Param} (h : csi fx e l pm = .ok e') :
    inputModes e'.mode = stepModes (inputModes e.mode) (modelOpOf (.csi l (pm.map (·.1)))) := by
  unfold csi at h
  unfold modelOpOf
  simp only [hf, if_true] at h
  have hmap : (clampParams pm).map (·.1) = (pm.map (·.1)).map clampParam := by
    unfold clampParams; simp [List.map_map, Function.comp_def]
  split at h
  · rename_i hl
    have := ok_inj h; subst this
    simp only [hl, Option.bind_none, stepModes]
  · rename_i arm hl
    simp only [hl, Option.bind_some]
    cases arm <;> simp only [csiArmOp, stepModes] at h ⊢
    case ich => rw [ich_mode h]
    case cnl => rw [cnl_mode h]
    case cpl => rw [cpl_mode h]
    case ed => rw [ed_mode h]
    case el => rw [el_mode h]
    case il => rw [il_mode h]
    case dl => rw [dl_mode h]
    case dch => rw [dch_mode h]
    case arm_53 => rw [scrollUp_mode h]
    case arm_54 => split at h; (have := ok_inj h; subst this; rfl); rw [scrollDown_mode h]
    case ech => rw [ech_mode h]
    case rep => rw [rep_mode h]
    case sm => have := ok_inj h; subst this; rw [sm_inputModes]
    case rm => have := ok_inj h; subst this; rw [rm_inputModes]
    case decset => rw [decset_modes _ h, hmap]; rfl
    case decrst => rw [decrst_modes _ h, hmap]; rfl
    case sgr => rw [sgr_mode h]
    case decsc => have := ok_inj h; subst this; rw [decsc_mode]
    case decrc => have := ok_inj h; subst this; rw [decrc_inputModes]
    all_goals (have := ok_inj h; subst this; first | rfl | (simp only [cuu, cud, cuf, cub, cha, cup, cht, cbt, hpa, hpr, vpa, vpr, tbc, decstbm]; (repeat' split) <;> rfl))

/-! ### resize -/

theorem reflowRow_mode {fx : Fixes} : ∀ (cells : Row) {e e' : Emu} {b b' : Bool},
    cells.foldlM (fun (acc : Emu × Bool) cell => do
      let e := { acc.1 with cur := { acc.1.cur with st := cell.st } }
      let e ← print fx e cell.g cell.w
      .ok (e, cell.wrapped)) (e, b) = .ok (e', b') → e'.mode = e.mode
  | [], e, e', b, b', h => by
    have := ok_inj h; injection this with h1 h2; subst h1; rfl
  | c :: rest, e, e', b, b', h => by
    rw [List.foldlM_cons] at h
    obtain ⟨acc, h1, h⟩ := bind_ok h
    obtain ⟨e1, h2, h1⟩ := bind_ok h1
    have := ok_inj h1; subst this
    exact (reflowRow_mode rest h).trans ((print_mode h2).trans rfl)

theorem reflow_mode {fx : Fixes} {last : Int} : ∀ (rows : List Row) (k : Nat) {e e' : Emu},
    reflow fx last rows k e = .ok e' → e'.mode = e.mode
  | [], _, e, e', h => by have := ok_inj h; subst this; rfl
  | r :: rest, k, e, e', h => by
    unfold reflow at h
    split at h
    · have := ok_inj h; subst this; rfl
    · obtain ⟨⟨e1, wr⟩, h1, h⟩ := bind_ok h
      simp only at h
      have m1 : e1.mode = e.mode := by
        unfold reflowRow at h1
        exact reflowRow_mode r h1
      split at h
      · obtain ⟨e2, h2, h⟩ := bind_ok h
        exact (reflow_mode rest (k + 1) h).trans ((nel_mode h2).trans m1)
      · obtain ⟨e2, h2, h⟩ := bind_ok h
        have := ok_inj h2; subst this
        exact (reflow_mode rest (k + 1) h).trans m1

theorem resize_mode {fx : Fixes} {e e' : Emu} {w h : Int} (hr : resize fx e w h = .ok e') : e'.mode = e.mode := by
  unfold resize at hr
  split at hr
  · cases hr
  · simp only at hr
    obtain ⟨e1, h1, hr⟩ := bind_ok hr
    have := ok_inj hr; subst this
    have m := reflow_mode _ _ h1
    (repeat' split) <;> exact m

/-! ### one operation / a whole stream -/

theorem emuStep_modes {e e' : Emu} {op : EOp} {k : Nat} (h : emuStep e op = .ok (e', k)) :
    inputModes e'.mode = stepModes (inputModes e.mode) (modelOpOf (seqOf op)) := by
  unfold emuStep emuStepF at h
  cases op <;> simp only [seqOf, modelOpOf, stepModes] at h ⊢
  case print g w =>
    obtain ⟨e1, h1, h⟩ := bind_ok h
    have := ok_inj h; injection this with h2 h3; subst h2
    rw [print_mode h1]
  case c0 r => rw [c0_mode h]
  case esc l =>
    obtain ⟨e1, h1, h⟩ := bind_ok h
    have := ok_inj h; injection this with h2 h3; subst h2
    exact esc_modes h1
  case csi l pm =>
    obtain ⟨e1, h1, h⟩ := bind_ok h
    have := ok_inj h; injection this with h2 h3; subst h2
    exact csi_modes rfl h1
  case osc d info => rw [osc_mode h]
  case dcs => have := ok_inj h; injection this with h2 h3; subst h2; rfl
  case apc => have := ok_inj h; injection this with h2 h3; subst h2; rfl
  case resize w hh =>
    obtain ⟨e1, h1, h⟩ := bind_ok h
    have := ok_inj h; injection this with h2 h3; subst h2
    rw [resize_mode h1]

theorem runOps_modes : ∀ (ops : List EOp) {e e' : Emu}, runOps e ops = .ok e' →
    inputModes e'.mode = modesAfter (inputModes e.mode) (ops.map seqOf)
  | [], e, e', h => by have := ok_inj h; subst this; rfl
  | op :: rest, e, e', h => by
    unfold runOps at h
    obtain ⟨⟨e1, k⟩, h1, h⟩ := bind_ok h
    simp only at h
    rw [runOps_modes rest h, emuStep_modes h1]
    unfold modesAfter
    simp only [List.map_cons, List.filterMap_cons]
    cases modelOpOf (seqOf op) <;> rfl

end VaxisModel.Lemmas.TermEmuModes
