/-
Helper lemmas for C13: `parseMouseEvent` on SGR reports.
-/
import VaxisModel.Spec.TermInput

namespace VaxisModel.Lemmas.TermInput
open VaxisModel.Model.Key VaxisModel.Model.Mouse VaxisModel.Model.TermKey VaxisModel.Model.TermMouse
open VaxisModel.Spec.KeyEnc VaxisModel.Spec.TermInput VaxisModel.Gen.Keys

/-- Every button of the API survives the SGR button field (press, release, motion = +32). -/
theorem parse_back : ∀ b ∈ buttonConsts,
    (parseMouseEvent [60] [[b], [1], [1]] 77 = some { button := b, col := 0, row := 0, event := EventPress }) ∧
    (parseMouseEvent [60] [[b], [1], [1]] 109 = some { button := b, col := 0, row := 0, event := EventRelease }) ∧
    (parseMouseEvent [60] [[b + 32], [1], [1]] 77 = some { button := b, col := 0, row := 0, event := EventMotion }) := by
  decide

theorem parse_pos (inter : List Int) (b c r fin : Int) :
    parseMouseEvent inter [[b], [c + 1], [r + 1]] fin =
      (parseMouseEvent inter [[b], [1], [1]] fin).map fun m => { m with col := c, row := r } := by
  unfold parseMouseEvent
  split
  · rfl
  · simp


end VaxisModel.Lemmas.TermInput
