/-
Helper lemmas for C13: `parseMouseEvent` on SGR reports.
-/
import VaxisModel.Spec.TermInput
import VaxisModel.Lemmas.KeyDecode

namespace VaxisModel.Lemmas.TermInput
open VaxisModel.Model.Key VaxisModel.Model.Mouse VaxisModel.Model.TermKey VaxisModel.Model.TermMouse
open VaxisModel.Spec.KeyEnc VaxisModel.Spec.TermInput VaxisModel.Gen.Keys VaxisModel.Gen.TermKeys
open VaxisModel.Lemmas.KeyMatch VaxisModel.Lemmas.KeyDecode

/-- Every button of the API survives the SGR button field (press, release, motion = +32). -/
theorem parse_back : ∀ b ∈ buttonConsts,
    (parseMouseEvent [60] [[b], [1], [1]] 77 = some { button := b, col := 0, row := 0, event := EventPress }) ∧
    (parseMouseEvent [60] [[b], [1], [1]] 109 = some { button := b, col := 0, row := 0, event := EventRelease }) ∧
    (parseMouseEvent [60] [[b + 32], [1], [1]] 77 = some { button := b, col := 0, row := 0, event := EventMotion }) := by
  decide

theorem parse_pos (inter : List Int) (b c r fin : Int) :
    parseMouseEvent inter [[b], [c + 1], [r + 1]] fin =
      (parseMouseEvent inter [[b], [1], [1]] fin).map fun m => { m with col := c, row := r } := by
  unfold parseMouseEvent
  split
  · rfl
  · simp


theorem lookup_none_of_lt {α : Type} (kc : Int) : ∀ tbl : List (Int × α), (∀ e ∈ tbl, kc < e.1) → lookup kc tbl = none
  | [], _ => rfl
  | (k, v) :: rest, h => by
    have h1 : kc ≠ k := by have := h (k, v) (by simp); simp at this; omega
    simp [lookup, h1, lookup_none_of_lt kc rest (fun e he => h e (by simp [he]))]

/-- Every key of the term tables is a special key (above the Unicode range). -/
theorem term_tables_special :
    (keymap.all fun e => decide (maxRune < e.1)) && (cursorKeysApplicationMode.all fun e => decide (maxRune < e.1)) &&
    (cursorKeysNormalMode.all fun e => decide (maxRune < e.1)) && (numericKeymap.all fun e => decide (maxRune < e.1)) &&
    (applicationKeymap.all fun e => decide (maxRune < e.1)) && (xtermKeymap.all fun e => decide (maxRune < e.1)) = true := by
  decide

theorem tbl_none {α : Type} (tbl : List (Int × α)) (h : (tbl.all fun e => decide (maxRune < e.1)) = true)
    (kc : Int) (hk : kc ≤ maxRune) : lookup kc tbl = none := by
  apply lookup_none_of_lt
  intro e he
  have := List.all_eq_true.mp h e he
  simp only [decide_eq_true_eq] at this
  omega

/-- On a key code that is not above the Unicode range the table-driven part of the encoder only
    produces the event's text or the plain character (and nothing at `MaxRune` itself). -/
theorem encodeTables_char' (kc : Int) (xm : Nat) (pam ckm : Bool) (text : Str) (hk : kc ≤ maxRune) (htab : kc ≠ KeyTab ∨ xm ≠ ModShift) :
    encodeTables kc xm pam ckm text =
      if xm = 0 ∧ kc < maxRune then some (if text ≠ [] then text else strOfRune kc) else none := by
  have h := term_tables_special
  simp only [Bool.and_eq_true] at h
  obtain ⟨⟨⟨⟨⟨h1, h2⟩, h3⟩, h4⟩, h5⟩, h6⟩ := h
  have e1 := tbl_none keymap h1 kc hk
  have e2 := tbl_none cursorKeysApplicationMode h2 kc hk
  have e3 := tbl_none cursorKeysNormalMode h3 kc hk
  have e4 := tbl_none numericKeymap h4 kc hk
  have e5 := tbl_none applicationKeymap h5 kc hk
  have e6 := tbl_none xtermKeymap h6 kc hk
  have htab' : ¬(kc = KeyTab ∧ xm = ModShift) := by
    rcases htab with h | h
    · exact fun hh => h hh.1
    · exact fun hh => h hh.2
  unfold encodeTables
  by_cases hx : xm = 0
  · by_cases hlt : kc < maxRune
    · cases pam <;> cases ckm <;> simp [hx, e1, e2, e3, e4, e5, hlt]
    · cases pam <;> cases ckm <;> simp [hx, e1, e2, e3, e4, e5, e6, hlt, ModShift] <;> omega
  · simp [hx, e6, htab']

/-- On a character key the table-driven part of the encoder only produces the event's text or the
    plain character. -/
theorem encodeTables_char (kc : Int) (xm : Nat) (pam ckm : Bool) (text : Str) (hk : kc < maxRune) (htab : kc ≠ KeyTab ∨ xm ≠ ModShift) :
    encodeTables kc xm pam ckm text = if xm = 0 then some (if text ≠ [] then text else strOfRune kc) else none := by
  rw [encodeTables_char' kc xm pam ckm text (by omega) htab]
  simp [hk]

/-- The event's text is only read for character keys (below `MaxRune`). -/
theorem encodeTables_text (kc : Int) (xm : Nat) (pam ckm : Bool) (text : Str) (h : ¬ kc < maxRune) :
    encodeTables kc xm pam ckm text = encodeTables kc xm pam ckm := by
  unfold encodeTables
  simp [h]

theorem cursorKeys_special : ∀ e ∈ cursorKeys, ¬ e.1 < maxRune := by decide

/-- Neither Alt nor Ctrl among the three xterm modifier bits. -/
theorem mods_no_alt_ctrl : ∀ x : Fin 8, x.val &&& (altBit ||| ctrlBit) = 0 →
    x.val &&& ModAlt = 0 ∧ x.val &&& ModCtrl = 0 ∧ (x.val = 0 ∨ x.val = ModShift) := by decide

/-- The explicit Ctrl cases of the source only write valid runes. -/
theorem ctrlCases_valid (kc : Int) (out : List Int) (h : lookup kc ctrlCases = some out) :
    (out.map fun r => if validRune r = true then r else 65533) = out := by
  have hall : (ctrlCases.all fun e => (e.2.map fun r => if validRune r = true then r else 65533) == e.2) = true := by decide
  have hmem : ∀ (tbl : List (Int × List Int)), lookup kc tbl = some out → (kc, out) ∈ tbl := by
    intro tbl
    induction tbl with
    | nil => intro h; simp [lookup] at h
    | cons e rest ih =>
      obtain ⟨k', v⟩ := e
      intro h
      by_cases hk : kc = k'
      · simp [lookup, hk] at h; simp [hk, h]
      · simp [lookup, hk] at h; simp [ih h]
  have := List.all_eq_true.mp hall _ (hmem _ h)
  simpa using this

theorem and7 (m b : Nat) (hb : 7 &&& b = b) : m &&& b = (m &&& 7) &&& b := by
  rw [Nat.and_assoc, hb]

/-- The model's `xtermMods` expression is `mods & 7`. -/
theorem xm_eq (m : Nat) : (m &&& ModShift) ||| (m &&& ModAlt) ||| (m &&& ModCtrl) = m &&& 7 := by
  apply Nat.eq_of_testBit_eq; intro i
  simp only [Nat.testBit_or, Nat.testBit_and]
  by_cases h : i < 3
  · have : i = 0 ∨ i = 1 ∨ i = 2 := by omega
    rcases this with rfl | rfl | rfl <;> simp [ModShift, ModAlt, ModCtrl] <;> cases m.testBit _ <;> decide
  · have h1 : ModShift.testBit i = false := Nat.testBit_lt_two_pow (Nat.lt_of_lt_of_le (by decide : ModShift < 2 ^ 3) (Nat.pow_le_pow_right (by decide) (by omega)))
    have h2 : ModAlt.testBit i = false := Nat.testBit_lt_two_pow (Nat.lt_of_lt_of_le (by decide : ModAlt < 2 ^ 3) (Nat.pow_le_pow_right (by decide) (by omega)))
    have h3 : ModCtrl.testBit i = false := Nat.testBit_lt_two_pow (Nat.lt_of_lt_of_le (by decide : ModCtrl < 2 ^ 3) (Nat.pow_le_pow_right (by decide) (by omega)))
    have h4 : (7 : Nat).testBit i = false := Nat.testBit_lt_two_pow (Nat.lt_of_lt_of_le (by decide : 7 < 2 ^ 3) (Nat.pow_le_pow_right (by decide) (by omega)))
    simp [h1, h2, h3, h4]



/-! ### The keypad block of `encodeXterm` (F413 fixed) -/

/-- Every key of the two keypad tables is a keypad key code. -/
theorem keypad_tables_above :
    ((keypadApplicationMode.all fun e => decide (KeyKeyPad0 ≤ e.1)) &&
     (keypadNumericMode.all fun e => decide (KeyKeyPad0 ≤ e.1))) = true := by decide

/-- Below the keypad key codes (every character key, Tab / Enter / Escape / BackSpace, the cursor, editing and
    function keys) the keypad block does nothing: `encodeXterm` is `encodeXtermCore`. -/
theorem encodeXterm_core_of_lt (u : Uni) (k : Key) (pam ckm : Bool) (h : k.keycode < KeyKeyPad0) :
    encodeXterm u k pam ckm = encodeXtermCore u k pam ckm := by
  have hall := keypad_tables_above
  simp only [Bool.and_eq_true, List.all_eq_true, decide_eq_true_eq] at hall
  have h1 : lookup k.keycode keypadApplicationMode = none :=
    lookup_none_of_lt _ _ (fun e he => by have := hall.1 e he; omega)
  have h2 : lookup k.keycode keypadNumericMode = none :=
    lookup_none_of_lt _ _ (fun e he => by have := hall.2 e he; omega)
  unfold encodeXterm keypadLegend
  simp only [h1, h2, ite_self, Option.getD_none]

/-- A key that is in neither keypad table (`KeyKeyPadBegin` is one: it has reports of its own) is encoded by the core. -/
theorem encodeXterm_core_of_not_keypad (u : Uni) (k : Key) (pam ckm : Bool)
    (h1 : lookup k.keycode keypadApplicationMode = none) (h2 : lookup k.keycode keypadNumericMode = none) :
    encodeXterm u k pam ckm = encodeXtermCore u k pam ckm := by
  unfold encodeXterm keypadLegend
  simp only [h1, h2, ite_self, Option.getD_none]

theorem maxRune_lt_keypad : maxRune < KeyKeyPad0 := by decide

end VaxisModel.Lemmas.TermInput
