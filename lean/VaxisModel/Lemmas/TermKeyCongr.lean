/-
Congruence of the term-widget key encoder in the `unicode` oracle (companion of Lemmas/KeyCongr.lean).
-/
import VaxisModel.Lemmas.KeyCongr
import VaxisModel.Model.TermKey
import VaxisModel.Spec.TermInput

namespace VaxisModel.Lemmas.KeyCongr
open VaxisModel.Model.Key VaxisModel.Model.TermKey VaxisModel.Spec.KeyEnc VaxisModel.Spec.TermInput VaxisModel.Gen.Keys

theorem shiftedOf_congr (u v : Uni) (k : Key) (h : AgreeAt u v k.keycode) : shiftedOf u k = shiftedOf v k := by
  unfold shiftedOf
  rw [h.isLower, h.toUpper]

theorem encodeXtermCore_congr (u v : Uni) (k : Key) (pam ckm : Bool) (h : AgreeAt u v k.keycode) :
    encodeXtermCore u k pam ckm = encodeXtermCore v k pam ckm := by
  unfold encodeXtermCore
  simp only [h.toUpper]

theorem encodeXterm_congr (u v : Uni) (k : Key) (pam ckm : Bool) (h : AgreeAt u v (keypadLegend k.keycode)) :
    encodeXterm u k pam ckm = encodeXterm v k pam ckm := by
  unfold encodeXterm
  have e := encodeXtermCore_congr u v { k with keycode := keypadLegend k.keycode } pam ckm h
  simp only [e]

end VaxisModel.Lemmas.KeyCongr
