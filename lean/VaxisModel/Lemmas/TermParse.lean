/-
Helper lemmas for Props/C13Parse: `fmt.Sprintf("%d")` as modelled by C13 (`Model.TermKey.decimal`) prints the
digits the parser model of C02 reads (`Lemmas.ParserParams.digitsOf`).
-/
import VaxisModel.Model.TermKey
import VaxisModel.Lemmas.ParserParams

namespace VaxisModel.Lemmas.TermParse
open VaxisModel.Model.TermKey VaxisModel.Lemmas.ParserParams

theorem decimalAux_eq : ∀ (fuel n : Nat) (acc : List Int), n < fuel →
    decimalAux fuel n acc = (digitsOf n).map Int.ofNat ++ acc
  | 0, _, _, h => by omega
  | fuel + 1, n, acc, h => by
    unfold decimalAux
    simp only
    by_cases h10 : n < 10
    · have hm : n % 10 = n := Nat.mod_eq_of_lt h10
      unfold digitsOf
      simp [h10, hm]
    · simp only [h10, if_false]
      rw [decimalAux_eq fuel (n / 10) _ (by omega)]
      conv => rhs; unfold digitsOf
      simp [h10]

theorem decimalNat_eq (n : Nat) : decimalNat n = (digitsOf n).map Int.ofNat := by
  unfold decimalNat
  rw [decimalAux_eq (n + 1) n [] (by omega)]
  simp

/-- `%d` of a non-negative int, as parser runes, is `digitsOf`. -/
theorem decimal_nats (n : Nat) : (decimal (n : Int)).map Int.toNat = digitsOf n := by
  unfold decimal
  have : ¬ ((n : Int) < 0) := by omega
  simp only [this, if_false, Int.toNat_natCast, decimalNat_eq, List.map_map]
  have : (Int.toNat ∘ Int.ofNat) = id := by funext x; simp
  rw [this]; simp

end VaxisModel.Lemmas.TermParse
