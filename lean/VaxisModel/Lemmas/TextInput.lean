import VaxisModel.Model.TextInput
import VaxisModel.Spec.Editor

/-! Helper lemmas for C17 (widgets/textinput). -/
namespace VaxisModel.Lemmas.TextInput
open VaxisModel.Model.TextInput

/-- The scroll loop returns as soon as `offset` reaches `cursor`: enough fuel for the distance. -/
theorem scrollLoop_terminates {G : Type} (width : G → Int) (content : List G) (cursor col winW : Int) :
    ∀ (fuel : Nat) (offset : Int), (cursor - offset).toNat < fuel →
    ∃ off, scrollLoop width content cursor col winW fuel offset = some off := by
  intro fuel
  induction fuel with
  | zero => intro offset h; omega
  | succ n ih =>
    intro offset h
    unfold scrollLoop
    split
    · rename_i hc
      apply ih
      omega
    · exact ⟨offset, rfl⟩

theorem draw_not_hang {G : Type} (width : G → Int) (m : TI G) (prompt : List G) (winW : Int)
    (hoff : 0 ≤ m.offset) (hcur : m.cursor ≤ m.content.length) :
    (match draw width m prompt winW with | .hang => false | _ => true) = true := by
  unfold draw
  by_cases hw : winW = 0
  · simp [hw]
  · simp only [hw, ↓reduceIte]
    cases hp : promptLoop width winW prompt 0 with
    | none => rfl
    | some col =>
      obtain ⟨off, hoff'⟩ := scrollLoop_terminates width m.content m.cursor col winW (m.content.length + 2)
        (if widthToCursor width m.content.length 0 m.content 0 0 + col + 4 < winW then 0 else m.offset) (by split <;> omega)
      simp only [hoff']

open VaxisModel.Spec.Editor (Ed Op lead wordLeftPos wordRightPos)

theorem lead_le {G : Type} (p : G → Bool) (l : List G) : lead p l ≤ l.length := by
  unfold lead
  exact (List.takeWhile_prefix p).length_le

theorem fwdLoop_eq {G : Type} (p : G → Bool) : ∀ (l : List G) (c : Int), fwdLoop p l c = c + lead p l := by
  intro l
  induction l with
  | nil => intro c; simp [fwdLoop, lead]
  | cons g gs ih =>
    intro c
    unfold fwdLoop
    by_cases h : p g = true
    · simp only [h, ↓reduceIte, ih]
      simp only [lead, List.takeWhile_cons, h, ↓reduceIte, List.length_cons]
      omega
    · simp [h, lead]

theorem bwdLoop_eq {G : Type} (p : G → Bool) : ∀ (l : List G) (c : Int), bwdLoop p l c = c - lead p l := by
  intro l
  induction l with
  | nil => intro c; simp [bwdLoop, lead]
  | cons g gs ih =>
    intro c
    unfold bwdLoop
    by_cases h : p g = true
    · simp only [h, ↓reduceIte, ih]
      simp only [lead, List.takeWhile_cons, h, ↓reduceIte, List.length_cons]
      omega
    · simp [h, lead]

theorem bwdLoop2_eq {G : Type} (p : G → Bool) : ∀ (l : List G) (c : Int),
    bwdLoop2 p l c = if lead p l < l.length then c - lead p l + 1 else c - l.length := by
  intro l
  induction l with
  | nil => intro c; simp [bwdLoop2, lead]
  | cons g gs ih =>
    intro c
    unfold bwdLoop2
    by_cases h : p g = true
    · simp only [h, ↓reduceIte, ih]
      simp only [lead, List.takeWhile_cons, h, ↓reduceIte, List.length_cons]
      by_cases hlt : (List.takeWhile p gs).length < gs.length
      · have h2 : (List.takeWhile p gs).length + 1 < gs.length + 1 := by omega
        simp only [hlt, h2, ↓reduceIte, Int.natCast_add]; omega
      · have h2 : ¬ (List.takeWhile p gs).length + 1 < gs.length + 1 := by omega
        simp only [hlt, h2, ↓reduceIte, Int.natCast_add]; omega
    · simp [h, lead]

theorem insertChars_eq {G : Type} : ∀ (text : List G) (content : List G) (c : Nat) (offset : Int) (paste : List G),
    c ≤ content.length →
    insertChars ⟨content, (c : Int), offset, paste⟩ text =
      some ⟨content.take c ++ text ++ content.drop c, ((c + text.length : Nat) : Int), offset, paste⟩ := by
  intro text
  induction text with
  | nil => intro content c offset paste _; simp [insertChars]
  | cons g gs ih =>
    intro content c offset paste hc
    unfold insertChars
    have hr : inRange content (c : Int) = true := by simp [inRange]; omega
    simp only [hr, ↓reduceIte, Int.toNat_natCast]
    have hlen : (content.take c ++ [g]).length = c + 1 := by simp; omega
    have := ih (content.take c ++ [g] ++ content.drop c) (c + 1) offset paste (by simp; omega)
    simp only [Int.natCast_add, Int.cast_ofNat_Int] at this ⊢
    rw [this, List.take_left' hlen, List.drop_left' hlen]
    simp only [List.length_cons, Int.natCast_add, List.append_assoc, List.cons_append, List.nil_append]
    have : (c : Int) + 1 + (gs.length : Int) = (c : Int) + ((gs.length : Int) + ((1 : Nat) : Int)) := by omega
    rw [this]

/-! ### Refinement of the ideal editor -/

/-- Representation invariant of textinput between calls: cursor within the content, offset ≥ 0. -/
def TIInv {G : Type} (m : TI G) : Prop := 0 ≤ m.cursor ∧ m.cursor ≤ m.content.length ∧ 0 ≤ m.offset

def tiAbs {G : Type} (m : TI G) : Ed G := ⟨m.content, m.cursor.toNat⟩

/-- The key bindings of `Update` as ideal operations (the `switch msg.String()` labels). -/
def keyMeaning {G : Type} (key : String) (ctrl alt super : Bool) (text : List G) : Op G :=
  if key = "Ctrl+a" ∨ key = "Home" then .home
  else if key = "Ctrl+e" ∨ key = "End" then .toEnd
  else if key = "Ctrl+f" ∨ key = "Right" then .right
  else if key = "Ctrl+b" ∨ key = "Left" then .left
  else if key = "Alt+f" ∨ key = "Ctrl+Right" then .wordRight
  else if key = "Alt+b" ∨ key = "Ctrl+Left" then .wordLeft
  else if key = "Ctrl+d" ∨ key = "Delete" then .deleteRight
  else if key = "Ctrl+k" then .killToEnd
  else if key = "Ctrl+u" then .killToStart
  else if key = "Ctrl+h" ∨ key = "BackSpace" then .deleteLeft
  else if key = "Ctrl+w" then .deleteWordLeft
  else if ctrl ∨ alt ∨ super then .noop
  else .insert text

/-- The binding table the model (`keySwitch`) and `keyMeaning` dispatch on: case labels in source
order with the ideal operation of the arm (`[]` = default arm). Compared with the labels extracted
from textinput.go (`Gen.EditorKeys.updateCases`) in `Props.C17.update_bindings_extracted`. -/
def bindingTable : List (List String × Op Nat) := [
  (["Ctrl+a", "Home"], .home),
  (["Ctrl+e", "End"], .toEnd),
  (["Ctrl+f", "Right"], .right),
  (["Ctrl+b", "Left"], .left),
  (["Alt+f", "Ctrl+Right"], .wordRight),
  (["Alt+b", "Ctrl+Left"], .wordLeft),
  (["Ctrl+d", "Delete"], .deleteRight),
  (["Ctrl+k"], .killToEnd),
  (["Ctrl+u"], .killToStart),
  (["Ctrl+h", "BackSpace"], .deleteLeft),
  (["Ctrl+w"], .deleteWordLeft),
  ([], .insert [7])]

/-- The `if` chain of TextField.HandleEvent as the model `TextField.handleKey` reads it. -/
def handleEventTable : List (String × String) := [
  ("ev.EventType == vaxis.EventRelease", ""),
  ("len(ev.Text) > 0", "tf.InsertStringAtCursor(ev.Text)"),
  ("ev.Matches('a', vaxis.ModCtrl) || ev.Matches(vaxis.KeyHome)", "tf.CursorTo(0)"),
  ("ev.Matches('e', vaxis.ModCtrl) || ev.Matches(vaxis.KeyEnd)", "tf.CursorTo(tf.n)"),
  ("ev.Matches('f', vaxis.ModCtrl) || ev.Matches(vaxis.KeyRight)", "tf.CursorTo(tf.cursor + 1)"),
  ("ev.Matches('b', vaxis.ModCtrl) || ev.Matches(vaxis.KeyLeft)", "tf.CursorTo(tf.cursor - 1)"),
  ("ev.Matches('d', vaxis.ModCtrl) || ev.Matches(vaxis.KeyDelete)", "tf.DeleteCharRightOfCursor()"),
  ("ev.Matches('h', vaxis.ModCtrl) || ev.Matches(vaxis.KeyBackspace)", "tf.DeleteCharLeftOfCursor()"),
  ("ev.Matches('k', vaxis.ModCtrl)", "tf.DeleteCursorToEndOfLine()"),
  ("ev.Matches(vaxis.KeyEnter)", "tf.Reset()")]

def tiSpecOf {G : Type} (m : TI G) : Ev G → Op G
  | .pasteEnd => .insert m.paste
  | .release => .noop
  | .pasteKey _ => .noop
  | .key s c a sup t => keyMeaning s c a sup t
  | .other => .noop

theorem clamp_spec {G : Type} (content : List G) (x offset : Int) (paste : List G) (ho : 0 ≤ offset) :
    TIInv (clamp ⟨content, x, offset, paste⟩) ∧ (clamp ⟨content, x, offset, paste⟩).content = content ∧
    (clamp ⟨content, x, offset, paste⟩).cursor.toNat = min x.toNat content.length := by
  unfold clamp TIInv
  simp only
  split <;> split <;> (refine ⟨⟨?_, ?_, ho⟩, ?_, ?_⟩ <;> first | trivial | omega)

variable {G : Type} (isAlnum : G → Bool)

theorem lead_drop_le (p : G → Bool) (l : List G) (c : Nat) : c + lead p (l.drop c) ≤ max c l.length := by
  have := lead_le p (l.drop c)
  rw [List.length_drop] at this
  omega

theorem lead_take_rev_le (p : G → Bool) (l : List G) (c : Nat) : lead p (l.take c).reverse ≤ c := by
  have := lead_le p (l.take c).reverse
  rw [List.length_reverse, List.length_take] at this
  omega

theorem keySwitch_refines (content : List G) (c : Nat) (offset : Int) (paste : List G)
    (hc : c ≤ content.length) (ho : 0 ≤ offset) (key : String) (ctrl alt sup : Bool) (text : List G) :
    ∃ m', update isAlnum ⟨content, (c : Int), offset, paste⟩ (.key key ctrl alt sup text) = some m' ∧ TIInv m' ∧
      tiAbs m' = VaxisModel.Spec.Editor.apply isAlnum ⟨content, c⟩ (keyMeaning key ctrl alt sup text) := by
  unfold update keySwitch keyMeaning
  simp only [Int.toNat_natCast]
  by_cases h1 : key = "Ctrl+a" ∨ key = "Home"
  · simp only [h1, ↓reduceIte]
    have := clamp_spec content 0 offset paste ho
    exact ⟨_, rfl, this.1, by simp [tiAbs, VaxisModel.Spec.Editor.apply, this.2.1, this.2.2]⟩
  simp only [h1, ↓reduceIte]
  by_cases h2 : key = "Ctrl+e" ∨ key = "End"
  · simp only [h2, ↓reduceIte]
    have := clamp_spec content (content.length : Int) offset paste ho
    exact ⟨_, rfl, this.1, by simp [tiAbs, VaxisModel.Spec.Editor.apply, this.2.1, this.2.2]⟩
  simp only [h2, ↓reduceIte]
  by_cases h3 : key = "Ctrl+f" ∨ key = "Right"
  · simp only [h3, ↓reduceIte]
    have := clamp_spec content ((c : Int) + 1) offset paste ho
    refine ⟨_, rfl, this.1, ?_⟩
    simp only [tiAbs, VaxisModel.Spec.Editor.apply, this.2.1, this.2.2]
    congr 1
  simp only [h3, ↓reduceIte]
  by_cases h4 : key = "Ctrl+b" ∨ key = "Left"
  · simp only [h4, ↓reduceIte]
    have := clamp_spec content ((c : Int) - 1) offset paste ho
    refine ⟨_, rfl, this.1, ?_⟩
    simp only [tiAbs, VaxisModel.Spec.Editor.apply, this.2.1, this.2.2]
    congr 1
    omega
  simp only [h4, ↓reduceIte]
  by_cases h5 : key = "Alt+f" ∨ key = "Ctrl+Right"
  · simp only [h5, ↓reduceIte]
    have hneg : ¬ ((c : Int) < 0 ∧ (c : Int) < (content.length : Int)) := by omega
    simp only [hneg, ↓reduceIte, fwdLoop_eq]
    have hl1 := lead_drop_le (fun g => !isAlnum g) content c
    have e1 : ((c : Int) + (lead (fun g => !isAlnum g) (content.drop c) : Int)).toNat
        = c + lead (fun g => !isAlnum g) (content.drop c) := by omega
    rw [e1]
    have hl2 := lead_drop_le isAlnum content (c + lead (fun g => !isAlnum g) (content.drop c))
    have := clamp_spec content ((c : Int) + (lead (fun g => !isAlnum g) (content.drop c) : Int) +
      (lead isAlnum (content.drop (c + lead (fun g => !isAlnum g) (content.drop c))) : Int)) offset paste ho
    refine ⟨_, rfl, this.1, ?_⟩
    simp only [tiAbs, VaxisModel.Spec.Editor.apply, wordRightPos, this.2.1, this.2.2]
    congr 1
    omega
  simp only [h5, ↓reduceIte]
  by_cases h6 : key = "Alt+b" ∨ key = "Ctrl+Left"
  · simp only [h6, ↓reduceIte]
    have hge : ¬ ((c : Int) - 1 ≥ (content.length : Int)) := by omega
    simp only [hge, ↓reduceIte, bwdLoop_eq, bwdLoop2_eq]
    have e0 : ((c : Int) - 1 + 1).toNat = c := by omega
    rw [e0]
    have hl1 := lead_take_rev_le (fun g => !isAlnum g) content c
    generalize hL1 : lead (fun g => !isAlnum g) (content.take c).reverse = L1 at hl1 ⊢
    have e1 : ((c : Int) - 1 - (L1 : Int) + 1).toNat = c - L1 := by omega
    rw [e1]
    have hl2 := lead_take_rev_le isAlnum content (c - L1)
    have hlen : ((content.take (c - L1)).reverse).length = c - L1 := by
      rw [List.length_reverse, List.length_take]; omega
    generalize hL2 : lead isAlnum (content.take (c - L1)).reverse = L2 at hl2 ⊢
    rw [hlen]
    by_cases hlt : L2 < c - L1
    · simp only [hlt, ↓reduceIte]
      have := clamp_spec content ((c : Int) - 1 - (L1 : Int) - (L2 : Int) + 1) offset paste ho
      refine ⟨_, rfl, this.1, ?_⟩
      simp only [tiAbs, VaxisModel.Spec.Editor.apply, wordLeftPos, this.2.1, this.2.2, hL1, hL2]
      congr 1
      omega
    · simp only [hlt, ↓reduceIte]
      have := clamp_spec content ((c : Int) - 1 - (L1 : Int) - ((c - L1 : Nat) : Int)) offset paste ho
      refine ⟨_, rfl, this.1, ?_⟩
      simp only [tiAbs, VaxisModel.Spec.Editor.apply, wordLeftPos, this.2.1, this.2.2, hL1, hL2]
      congr 1
      omega
  simp only [h6, ↓reduceIte]
  by_cases h7 : key = "Ctrl+d" ∨ key = "Delete"
  · simp only [h7, ↓reduceIte]
    by_cases he : (c : Int) = (content.length : Int)
    · simp only [he, ↓reduceIte]
      have hce : c = content.length := by omega
      have := clamp_spec content (content.length : Int) offset paste ho
      refine ⟨_, rfl, this.1, ?_⟩
      simp only [tiAbs, VaxisModel.Spec.Editor.apply, this.2.1, this.2.2, hce]
      rw [List.eraseIdx_of_length_le (Nat.le_refl _)]
      simp
    · simp only [he, ↓reduceIte]
      have hr : (0 : Int) ≤ (c : Int) ∧ (c : Int) + 1 ≤ (content.length : Int) := by omega
      simp only [hr, and_self, ↓reduceIte]
      have := clamp_spec (content.take c ++ content.drop (c + 1)) (c : Int) offset paste ho
      refine ⟨_, rfl, this.1, ?_⟩
      simp only [tiAbs, VaxisModel.Spec.Editor.apply, this.2.1, this.2.2, List.eraseIdx_eq_take_drop_succ]
      congr 1
      simp only [List.length_append, List.length_take, List.length_drop, Int.toNat_natCast]
      omega
  simp only [h7, ↓reduceIte]
  have hin : inRange content (c : Int) = true := by simp [inRange]; omega
  by_cases h8 : key = "Ctrl+k"
  · simp only [h8, ↓reduceIte, hin]
    have := clamp_spec (content.take c) (c : Int) offset paste ho
    refine ⟨_, rfl, this.1, ?_⟩
    simp only [tiAbs, VaxisModel.Spec.Editor.apply, this.2.1, this.2.2]
    congr 1
    simp only [List.length_take, Int.toNat_natCast]
    omega
  simp only [h8, ↓reduceIte]
  by_cases h9 : key = "Ctrl+u"
  · simp only [h9, ↓reduceIte, hin]
    have := clamp_spec (content.drop c) 0 offset paste ho
    refine ⟨_, rfl, this.1, ?_⟩
    simp only [tiAbs, VaxisModel.Spec.Editor.apply, this.2.1, this.2.2]
    congr 1
  simp only [h9, ↓reduceIte]
  by_cases h10 : key = "Ctrl+h" ∨ key = "BackSpace"
  · simp only [h10, ↓reduceIte]
    by_cases hz : (c : Int) = 0
    · simp only [hz, ↓reduceIte]
      have hc0 : c = 0 := by omega
      refine ⟨_, rfl, ⟨by simp, by simp, ho⟩, ?_⟩
      simp [tiAbs, VaxisModel.Spec.Editor.apply, hc0]
    · simp only [hz, ↓reduceIte]
      have hc0 : c ≠ 0 := by omega
      have e1 : ((c : Int) - 1).toNat = c - 1 := by omega
      by_cases he : (c : Int) = (content.length : Int)
      · have hge : (0 : Int) ≤ (c : Int) - 1 := by omega
        simp only [he, ↓reduceIte]
        rw [← he]
        simp only [hge, ↓reduceIte, e1]
        have := clamp_spec (content.take (c - 1)) ((c : Int) - 1) offset paste ho
        refine ⟨_, rfl, this.1, ?_⟩
        simp only [tiAbs, VaxisModel.Spec.Editor.apply, this.2.1, this.2.2, hc0, ↓reduceIte,
          List.eraseIdx_eq_take_drop_succ]
        have hd : content.drop (c - 1 + 1) = [] := by
          apply List.drop_eq_nil_of_le; omega
        rw [hd, List.append_nil]
        congr 1
        simp only [List.length_take]
        omega
      · have hr : (0 : Int) ≤ (c : Int) - 1 ∧ (c : Int) ≤ (content.length : Int) := by omega
        simp only [he, ↓reduceIte, hr, and_self, e1]
        have := clamp_spec (content.take (c - 1) ++ content.drop c) ((c : Int) - 1) offset paste ho
        refine ⟨_, rfl, this.1, ?_⟩
        simp only [tiAbs, VaxisModel.Spec.Editor.apply, this.2.1, this.2.2, hc0, ↓reduceIte,
          List.eraseIdx_eq_take_drop_succ]
        have : c - 1 + 1 = c := by omega
        rw [this]
        congr 1
        simp only [List.length_append, List.length_take, List.length_drop]
        omega
  simp only [h10, ↓reduceIte]
  by_cases h11 : key = "Ctrl+w"
  · simp only [h11, ↓reduceIte]
    by_cases hz : (c : Int) = 0
    · simp only [hz, ↓reduceIte]
      have hc0 : c = 0 := by omega
      refine ⟨_, rfl, ⟨by simp, by simp, ho⟩, ?_⟩
      simp [tiAbs, VaxisModel.Spec.Editor.apply, hc0, wordLeftPos]
    · simp only [hz, ↓reduceIte, hin, Bool.not_true, Bool.false_eq_true, bwdLoop_eq]
      have hl1 := lead_take_rev_le (fun g => !isAlnum g) content c
      generalize hL1 : lead (fun g => !isAlnum g) (content.take c).reverse = L1 at hl1 ⊢
      have e1 : ((c : Int) - (L1 : Int)).toNat = c - L1 := by omega
      rw [e1]
      have hl2 := lead_take_rev_le isAlnum content (c - L1)
      generalize hL2 : lead isAlnum (content.take (c - L1)).reverse = L2 at hl2 ⊢
      have e2 : ((c : Int) - (L1 : Int) - (L2 : Int)).toNat = c - L1 - L2 := by omega
      rw [e2]
      have := clamp_spec (content.take (c - L1 - L2) ++ content.drop c) ((c : Int) - (L1 : Int) - (L2 : Int)) offset paste ho
      refine ⟨_, rfl, this.1, ?_⟩
      simp only [tiAbs, VaxisModel.Spec.Editor.apply, wordLeftPos, this.2.1, this.2.2, hL1, hL2, e2]
      congr 1
      simp only [List.length_append, List.length_take, List.length_drop]
      omega
  simp only [h11, ↓reduceIte]
  have hself : TIInv (⟨content, (c : Int), offset, paste⟩ : TI G) := ⟨by simp, by simp; omega, ho⟩
  by_cases hc1 : ctrl = true
  · simp only [hc1, ↓reduceIte, true_or]
    exact ⟨_, rfl, hself, by simp [tiAbs, VaxisModel.Spec.Editor.apply]⟩
  by_cases hc2 : alt = true
  · simp only [hc1, hc2, ↓reduceIte, true_or, or_true]
    exact ⟨_, rfl, hself, by simp [tiAbs, VaxisModel.Spec.Editor.apply]⟩
  by_cases hc3 : sup = true
  · simp only [hc1, hc2, hc3, ↓reduceIte, or_true]
    exact ⟨_, rfl, hself, by simp [tiAbs, VaxisModel.Spec.Editor.apply]⟩
  simp only [hc1, hc2, hc3, or_self]
  by_cases ht : text = []
  · subst ht
    simp only [ne_eq, not_true_eq_false, ↓reduceIte]
    have := clamp_spec content (c : Int) offset paste ho
    refine ⟨_, rfl, this.1, ?_⟩
    simp only [tiAbs, VaxisModel.Spec.Editor.apply, this.2.1, this.2.2]
    simp
    omega
  · simp only [ne_eq, ht, not_false_eq_true, ↓reduceIte, insertChars_eq text content c offset paste hc, Option.map_some]
    have := clamp_spec (content.take c ++ text ++ content.drop c) ((c + text.length : Nat) : Int) offset paste ho
    refine ⟨_, rfl, this.1, ?_⟩
    simp only [tiAbs, VaxisModel.Spec.Editor.apply, this.2.1, this.2.2]
    congr 1
    simp only [List.length_append, List.length_take, List.length_drop, Int.toNat_natCast]
    omega

theorem update_refines (m : TI G) (ev : Ev G) (h : TIInv m) :
    ∃ m', update isAlnum m ev = some m' ∧ TIInv m' ∧
      tiAbs m' = VaxisModel.Spec.Editor.apply isAlnum (tiAbs m) (tiSpecOf m ev) := by
  obtain ⟨content, cursor, offset, paste⟩ := m
  obtain ⟨h0, h1, ho⟩ := h
  simp only at h0 h1 ho
  obtain ⟨c, rfl⟩ := Int.eq_ofNat_of_zero_le h0
  have hc : c ≤ content.length := by omega
  cases ev with
  | pasteEnd =>
    have hin : inRange content (c : Int) = true := by simp [inRange]; omega
    simp only [update, hin, ↓reduceIte, Int.toNat_natCast, tiSpecOf]
    have := clamp_spec (content.take c ++ paste ++ content.drop c) ((c : Int) + (paste.length : Int)) offset [] ho
    refine ⟨_, rfl, this.1, ?_⟩
    simp only [tiAbs, VaxisModel.Spec.Editor.apply, this.2.1, this.2.2, Int.toNat_natCast]
    congr 1
    simp only [List.length_append, List.length_take, List.length_drop]
    omega
  | release =>
    exact ⟨_, rfl, ⟨h0, h1, ho⟩, by simp [tiAbs, tiSpecOf, VaxisModel.Spec.Editor.apply]⟩
  | pasteKey t =>
    exact ⟨_, rfl, ⟨h0, h1, ho⟩, by simp [tiAbs, tiSpecOf, VaxisModel.Spec.Editor.apply]⟩
  | key s ct a sup t =>
    have := keySwitch_refines isAlnum content c offset paste hc ho s ct a sup t
    simpa [tiAbs, tiSpecOf] using this
  | other =>
    have := clamp_spec content (c : Int) offset paste ho
    refine ⟨_, rfl, this.1, ?_⟩
    simp only [tiAbs, tiSpecOf, VaxisModel.Spec.Editor.apply, this.2.1, this.2.2, Int.toNat_natCast]
    congr 1
    omega

theorem setContent_refines (m : TI G) (s : List G) (h : TIInv m) :
    TIInv (setContent m s) ∧
    tiAbs (setContent m s) = VaxisModel.Spec.Editor.apply isAlnum (tiAbs m) (.setContent s) := by
  refine ⟨⟨by simp [setContent], by simp [setContent], h.2.2⟩, ?_⟩
  simp [tiAbs, setContent, VaxisModel.Spec.Editor.apply]

/-- `Draw` changes only the scroll offset, and keeps it non-negative. -/
theorem draw_keeps (width : G → Int) (m : TI G) (prompt : List G) (winW : Int) (h : TIInv m) :
    ∀ m' c, (draw width m prompt winW = .shown m' c ∨ draw width m prompt winW = .early m') →
      TIInv m' ∧ tiAbs m' = tiAbs m := by
  intro m' c hd
  unfold draw at hd
  by_cases hw : winW = 0
  · simp only [hw, ↓reduceIte] at hd
    rcases hd with hd | hd
    · cases hd
    · cases hd; exact ⟨h, rfl⟩
  · simp only [hw, ↓reduceIte] at hd
    cases hp : promptLoop width winW prompt 0 with
    | none =>
      simp only [hp] at hd
      rcases hd with hd | hd
      · cases hd
      · cases hd; exact ⟨h, rfl⟩
    | some col =>
      simp only [hp] at hd
      cases hs : scrollLoop width m.content m.cursor col winW (m.content.length + 2)
          (if widthToCursor width m.content.length 0 m.content 0 0 + col + 4 < winW then 0 else m.offset) with
      | none =>
        simp only [hs] at hd
        rcases hd with hd | hd <;> cases hd
      | some off =>
        simp only [hs] at hd
        rcases hd with hd | hd
        · cases hd
          refine ⟨⟨h.1, h.2.1, ?_⟩, rfl⟩
          simp only
          split <;> omega
        · cases hd

/-- Operations of the textinput API. -/
inductive TIOp (G : Type) where
  | ev (e : Ev G)
  | set (s : List G)
  | draw (prompt : List G) (winW : Int)

/-- One API call on the model; `none` = the call panicked or did not return. -/
def tiStep (width : G → Int) (m : TI G) : TIOp G → Option (TI G)
  | .ev e => update isAlnum m e
  | .set s => some (setContent m s)
  | .draw p w =>
    match draw width m p w with
    | .hang => none
    | .early m' => some m'
    | .shown m' _ => some m'

def tiOpSpec (m : TI G) : TIOp G → Op G
  | .ev e => tiSpecOf m e
  | .set s => .setContent s
  | .draw _ _ => .noop

theorem tiStep_refines (width : G → Int) (m : TI G) (op : TIOp G) (h : TIInv m) :
    ∃ m', tiStep isAlnum width m op = some m' ∧ TIInv m' ∧
      tiAbs m' = VaxisModel.Spec.Editor.apply isAlnum (tiAbs m) (tiOpSpec m op) := by
  cases op with
  | ev e => exact update_refines isAlnum m e h
  | set s => exact ⟨_, rfl, setContent_refines isAlnum m s h⟩
  | draw p w =>
    have hnh := draw_not_hang width m p w h.2.2 h.2.1
    unfold tiStep
    cases hd : draw width m p w with
    | hang => rw [hd] at hnh; cases hnh
    | early m' =>
      have := draw_keeps width m p w h m' 0 (Or.inr hd)
      exact ⟨m', by simp only [hd], this.1, by rw [this.2]; rfl⟩
    | shown m' c =>
      have := draw_keeps width m p w h m' c (Or.inl hd)
      exact ⟨m', by simp only [hd], this.1, by rw [this.2]; rfl⟩

/-- Run a history; the ideal ops are computed along the way (a paste inserts the buffer held at
that moment). -/
def tiRun (width : G → Int) : TI G → List (TIOp G) → Option (TI G × List (Op G))
  | m, [] => some (m, [])
  | m, op :: ops =>
    match tiStep isAlnum width m op with
    | none => none
    | some m' =>
      match tiRun width m' ops with
      | none => none
      | some (mf, sops) => some (mf, tiOpSpec m op :: sops)

theorem tiRun_refines (width : G → Int) : ∀ (ops : List (TIOp G)) (m : TI G), TIInv m →
    ∃ mf sops, tiRun isAlnum width m ops = some (mf, sops) ∧ TIInv mf ∧
      tiAbs mf = VaxisModel.Spec.Editor.run isAlnum (tiAbs m) sops := by
  intro ops
  induction ops with
  | nil => intro m h; exact ⟨m, [], rfl, h, rfl⟩
  | cons op ops ih =>
    intro m h
    obtain ⟨m', hs, hinv, habs⟩ := tiStep_refines isAlnum width m op h
    obtain ⟨mf, sops, hr, hinvf, habsf⟩ := ih m' hinv
    refine ⟨mf, tiOpSpec m op :: sops, ?_, hinvf, ?_⟩
    · simp only [tiRun, hs, hr]
    · simp only [VaxisModel.Spec.Editor.run]
      rw [habsf, habs]

/-! ### Cursor column of `Draw` while the text fits -/

def widthSumI {G : Type} (width : G → Int) : List G → Int
  | [] => 0
  | g :: gs => width g + widthSumI width gs

theorem widthSumI_nonneg {G : Type} (width : G → Int) (hw : ∀ g, 0 ≤ width g) (l : List G) :
    0 ≤ widthSumI width l := by
  induction l with
  | nil => simp [widthSumI]
  | cons g gs ih => have := hw g; simp only [widthSumI]; omega

theorem widthToCursor_le {G : Type} (width : G → Int) (hw : ∀ g, 0 ≤ width g) (cursor offset : Int) :
    ∀ (l : List G) (i w : Int), widthToCursor width cursor offset l i w ≤ w + widthSumI width l := by
  intro l
  induction l with
  | nil => intro i w; simp [widthToCursor, widthSumI]
  | cons g gs ih =>
    intro i w
    unfold widthToCursor
    have h1 := hw g
    have h2 := widthSumI_nonneg width hw gs
    simp only [widthSumI]
    split
    · have := ih (i + 1) w; omega
    · split
      · omega
      · have := ih (i + 1) (w + width g); omega

theorem cursorLoop_fit {G : Type} (width : G → Int) (hw : ∀ g, 0 ≤ width g) (cursorIdx winW : Int) :
    ∀ (l : List G) (i col cur : Int), 0 ≤ i → col + widthSumI width l < winW →
    cursorLoop width cursorIdx 0 winW l i col cur =
      if i < cursorIdx ∧ cursorIdx ≤ i + l.length then col + widthSumI width (l.take (cursorIdx - i).toNat) else cur := by
  intro l
  induction l with
  | nil =>
    intro i col cur _ _
    have : ¬ (i < cursorIdx ∧ cursorIdx ≤ i + (([] : List G).length : Int)) := by simp
    rw [if_neg this]
    rfl
  | cons g gs ih =>
    intro i col cur hi hfit
    unfold cursorLoop
    simp only [widthSumI] at hfit
    have h1 := hw g
    have h2 := widthSumI_nonneg width hw gs
    have hi0 : ¬ i < 0 := by omega
    have hcol : ¬ col + width g ≥ winW := by omega
    simp only [hi0, ↓reduceIte, hcol]
    rw [ih (i + 1) (col + width g) _ (by omega) (by omega)]
    simp only [List.length_cons, Int.natCast_add, Int.cast_ofNat_Int]
    by_cases hc1 : i + 1 = cursorIdx
    · have hn : ¬ (i + 1 < cursorIdx ∧ cursorIdx ≤ i + 1 + (gs.length : Int)) := by omega
      have hp : i < cursorIdx ∧ cursorIdx ≤ i + ((gs.length : Int) + 1) := by omega
      have ht : (cursorIdx - i).toNat = 1 := by omega
      rw [if_neg hn, if_pos hp, if_pos hc1, ht]
      simp [widthSumI]
    · by_cases hc2 : i + 1 < cursorIdx ∧ cursorIdx ≤ i + 1 + (gs.length : Int)
      · have hp : i < cursorIdx ∧ cursorIdx ≤ i + ((gs.length : Int) + 1) := by omega
        have ht : (cursorIdx - i).toNat = (cursorIdx - (i + 1)).toNat + 1 := by omega
        rw [if_pos hc2, if_pos hp, ht, List.take_succ_cons]
        simp only [widthSumI]
        omega
      · have hp : ¬ (i < cursorIdx ∧ cursorIdx ≤ i + ((gs.length : Int) + 1)) := by omega
        rw [if_neg hc2, if_neg hp, if_neg hc1]

theorem widthToCursor_all {G : Type} (width : G → Int) (cursor : Int) :
    ∀ (l : List G) (i w : Int), 0 ≤ i → i + l.length ≤ cursor →
    widthToCursor width cursor 0 l i w = w + widthSumI width l := by
  intro l
  induction l with
  | nil => intro i w _ _; simp [widthToCursor, widthSumI]
  | cons g gs ih =>
    intro i w hi hc
    simp only [List.length_cons, Int.natCast_add, Int.cast_ofNat_Int] at hc
    unfold widthToCursor
    have h1 : ¬ i < 0 := by omega
    have h2 : ¬ i = cursor := by omega
    simp only [h1, h2, ↓reduceIte, widthSumI]
    rw [ih (i + 1) (w + width g) (by omega) (by omega)]
    omega

/-- While prompt + text + scrolloff fit in the window, `Draw` resets the offset to 0 and shows the
cursor at prompt width + display width of the text before the cursor. -/
theorem draw_cursor_fit {G : Type} (width : G → Int) (hw : ∀ g, 0 ≤ width g) (m : TI G) (prompt : List G)
    (winW col : Int) (hinv : TIInv m)
    (hp : promptLoop width winW prompt 0 = some col) (hcol : 0 ≤ col)
    (hfit : col + widthSumI width m.content + 4 < winW) :
    draw width m prompt winW =
      .shown { m with offset := 0 } (col + widthSumI width (m.content.take m.cursor.toNat)) := by
  obtain ⟨content, cursor, offset, paste⟩ := m
  obtain ⟨h0, h1, _⟩ := hinv
  simp only at h0 h1 hfit ⊢
  have hnn := widthSumI_nonneg width hw content
  have hw0 : ¬ winW = 0 := by omega
  unfold draw
  simp only [hw0, ↓reduceIte, hp]
  have hall := widthToCursor_all width (content.length : Int) content 0 0 (Int.le_refl 0) (by omega)
  have hreset : widthToCursor width (content.length : Int) 0 content 0 0 + col + 4 < winW := by
    rw [hall]; omega
  simp only [hreset, ↓reduceIte]
  have hwtc := widthToCursor_le width hw cursor 0 content 0 0
  have hcond : ¬ ((0 : Int) < cursor ∧ widthToCursor width cursor 0 content 0 0 + col + 4 ≥ winW) := by omega
  simp only [scrollLoop, hcond, ↓reduceIte]
  have hadj : (if (if cursor - 4 - 0 < 0 then cursor - 4 else (0 : Int)) < 0 then (0 : Int)
      else (if cursor - 4 - 0 < 0 then cursor - 4 else 0)) = 0 := by
    split <;> split <;> omega
  rw [hadj]
  rw [cursorLoop_fit width hw cursor winW content 0 col col (Int.le_refl 0) (by omega)]
  congr 1
  by_cases hc : 0 < cursor
  · rw [if_pos ⟨hc, by omega⟩]
    simp
  · have hc0 : cursor = 0 := by omega
    rw [if_neg (by omega), hc0]
    simp [widthSumI]

end VaxisModel.Lemmas.TextInput
