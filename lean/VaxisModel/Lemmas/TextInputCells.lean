import VaxisModel.Model.TextInputCells
import VaxisModel.Lemmas.TextInput

/-! Helper lemmas for C17: the cells drawn by textinput while the line fits. -/
namespace VaxisModel.Lemmas.TextInput
open VaxisModel.Model.TextInput

theorem promptLoop_col {G : Type} (width : G → Int) (winW : Int) :
    ∀ (prompt : List G) (c col : Int), promptLoop width winW prompt c = some col → col = c + widthSumI width prompt := by
  intro prompt
  induction prompt with
  | nil => intro c col h; simp [promptLoop] at h; simp [widthSumI, h]
  | cons g gs ih =>
    intro c col h
    unfold promptLoop at h
    simp only at h
    split at h
    · cases h
    · have := ih _ _ h
      simp only [widthSumI]; omega

theorem promptCells_eq {G : Type} (width : G → Int) (winW : Int) :
    ∀ (prompt : List G) (c col : Int), promptLoop width winW prompt c = some col →
    promptCells width winW prompt c = placed width .g prompt c := by
  intro prompt
  induction prompt with
  | nil => intro c col _; rfl
  | cons g gs ih =>
    intro c col h
    unfold promptLoop at h
    simp only at h
    split at h
    · cases h
    · rename_i hlt
      simp only [promptCells, placed, hlt, ↓reduceIte]
      rw [ih _ _ h]

theorem cellLoop_fit {G : Type} (width : G → Int) (hw : ∀ g, 0 ≤ width g) (masked : Bool) (winW : Int) :
    ∀ (l : List G) (i col : Int), 0 ≤ i → col + widthSumI width l < winW →
    cellLoop width masked 0 winW l i col = placed width (if masked then fun _ => .mask else .g) l col := by
  intro l
  induction l with
  | nil => intro i col _ _; rfl
  | cons g gs ih =>
    intro i col hi hfit
    simp only [widthSumI] at hfit
    have h1 := hw g
    have h2 := widthSumI_nonneg width hw gs
    have hi0 : ¬ i < 0 := by omega
    have hcol : ¬ col + width g ≥ winW := by omega
    have hoff : ¬ ((0 : Int) > 0 ∧ i = 0) := by omega
    simp only [cellLoop, placed, hi0, hcol, hoff, ↓reduceIte]
    rw [ih (i + 1) (col + width g) (by omega) (by omega)]
    cases masked <;> rfl

/-- While prompt + text + scrolloff fit the window, `Draw` writes exactly the prompt and then the
text's graphemes (or the mask), each at the column equal to the display width before it. -/
theorem drawCells_fit {G : Type} (width : G → Int) (hw : ∀ g, 0 ≤ width g) (masked : Bool) (m : TI G) (prompt : List G)
    (winW col : Int) (hinv : TIInv m) (hp : promptLoop width winW prompt 0 = some col) (hcol : 0 ≤ col)
    (hfit : col + widthSumI width m.content + 4 < winW) :
    drawCells width masked m prompt winW =
      some (placed width .g prompt 0 ++ placed width (if masked then fun _ => .mask else .g) m.content col) := by
  have hd := draw_cursor_fit width hw m prompt winW col hinv hp hcol hfit
  unfold drawCells
  rw [hd]
  simp only [hp]
  rw [promptCells_eq width winW prompt 0 col hp,
    cellLoop_fit width hw masked winW m.content 0 col (Int.le_refl 0) (by omega)]

theorem placed_getElem? {G : Type} (width : G → Int) (f : G → Glyph G) :
    ∀ (l : List G) (c : Int) (k : Nat),
    (placed width f l c)[k]? = (l[k]?).map (fun g => (c + widthSumI width (l.take k), f g)) := by
  intro l
  induction l with
  | nil => intro c k; simp [placed]
  | cons g gs ih =>
    intro c k
    cases k with
    | zero => simp [placed, widthSumI]
    | succ k =>
      simp only [placed, List.getElem?_cons_succ, List.take_succ_cons, widthSumI]
      rw [ih]
      cases gs[k]? <;> simp [Int.add_assoc]

/-- A draw that does not fit: 8 one-column characters, cursor at the end, 8 columns: scrolled, the
first shown cell is the truncator. -/
example :
    drawCells (fun _ : Nat => 1) false (setContent new [0, 1, 2, 3, 4, 5, 6, 7]) [] 8 =
      some [(0, .trunc), (1, .g 5), (2, .g 6), (3, .g 7)] := by decide

/-- Password mode: every cell shows the mask; right truncator where the text runs out of the window. -/
example :
    drawCells (fun _ : Nat => 1) true { (setContent new [0, 1, 2, 3, 4, 5] : TI Nat) with cursor := 0 } [] 5 =
      some [(0, .mask), (1, .mask), (2, .mask), (3, .mask), (4, .trunc)] := by decide

end VaxisModel.Lemmas.TextInput
