import VaxisModel.Model.TextInputCells
import VaxisModel.Lemmas.TextInput

/-! Helper lemmas for C17: the cells drawn by textinput while the line fits. -/
namespace VaxisModel.Lemmas.TextInput
open VaxisModel.Model.TextInput

theorem promptLoop_col {G : Type} (width : G → Int) (winW : Int) :
    ∀ (prompt : List G) (c col : Int), promptLoop width winW prompt c = some col → col = c + widthSumI width prompt := by
  intro prompt
  induction prompt with
  | nil => intro c col h; simp [promptLoop] at h; simp [widthSumI, h]
  | cons g gs ih =>
    intro c col h
    unfold promptLoop at h
    simp only at h
    split at h
    · cases h
    · have := ih _ _ h
      simp only [widthSumI]; omega

theorem promptCells_eq {G : Type} (width : G → Int) (winW : Int) :
    ∀ (prompt : List G) (c col : Int), promptLoop width winW prompt c = some col →
    promptCells width winW prompt c = placed width .g prompt c := by
  intro prompt
  induction prompt with
  | nil => intro c col _; rfl
  | cons g gs ih =>
    intro c col h
    unfold promptLoop at h
    simp only at h
    split at h
    · cases h
    · rename_i hlt
      simp only [promptCells, placed, hlt, ↓reduceIte]
      rw [ih _ _ h]

theorem cellLoop_fit {G : Type} (width : G → Int) (hw : ∀ g, 0 ≤ width g) (masked : Bool) (winW : Int) :
    ∀ (l : List G) (i col : Int), 0 ≤ i → col + widthSumI width l < winW →
    cellLoop width masked 0 winW l i col = placed width (if masked then fun _ => .mask else .g) l col := by
  intro l
  induction l with
  | nil => intro i col _ _; rfl
  | cons g gs ih =>
    intro i col hi hfit
    simp only [widthSumI] at hfit
    have h1 := hw g
    have h2 := widthSumI_nonneg width hw gs
    have hi0 : ¬ i < 0 := by omega
    have hcol : ¬ col + width g ≥ winW := by omega
    have hoff : ¬ ((0 : Int) > 0 ∧ i = 0) := by omega
    simp only [cellLoop, placed, hi0, hcol, hoff, ↓reduceIte]
    rw [ih (i + 1) (col + width g) (by omega) (by omega)]
    cases masked <;> rfl

/-- While prompt + text + scrolloff fit the window, `Draw` writes exactly the prompt and then the
text's graphemes (or the mask), each at the column equal to the display width before it. -/
theorem drawCells_fit {G : Type} (width : G → Int) (hw : ∀ g, 0 ≤ width g) (masked : Bool) (m : TI G) (prompt : List G)
    (winW col : Int) (hinv : TIInv m) (hp : promptLoop width winW prompt 0 = some col) (hcol : 0 ≤ col)
    (hfit : col + widthSumI width m.content + 4 < winW) :
    drawCells width masked m prompt winW =
      some (placed width .g prompt 0 ++ placed width (if masked then fun _ => .mask else .g) m.content col) := by
  have hd := draw_cursor_fit width hw m prompt winW col hinv hp hcol hfit
  unfold drawCells
  rw [hd]
  simp only [hp]
  rw [promptCells_eq width winW prompt 0 col hp,
    cellLoop_fit width hw masked winW m.content 0 col (Int.le_refl 0) (by omega)]

theorem placed_getElem? {G : Type} (width : G → Int) (f : G → Glyph G) :
    ∀ (l : List G) (c : Int) (k : Nat),
    (placed width f l c)[k]? = (l[k]?).map (fun g => (c + widthSumI width (l.take k), f g)) := by
  intro l
  induction l with
  | nil => intro c k; simp [placed]
  | cons g gs ih =>
    intro c k
    cases k with
    | zero => simp [placed, widthSumI]
    | succ k =>
      simp only [placed, List.getElem?_cons_succ, List.take_succ_cons, widthSumI]
      rw [ih]
      cases gs[k]? <;> simp [Int.add_assoc]

/-- A draw that does not fit: 8 one-column characters, cursor at the end, 8 columns: scrolled, the
first shown cell is the truncator. -/
example :
    drawCells (fun _ : Nat => 1) false (setContent new [0, 1, 2, 3, 4, 5, 6, 7]) [] 8 =
      some [(0, .trunc), (1, .g 5), (2, .g 6), (3, .g 7)] := by decide

/-- Password mode: every cell shows the mask; right truncator where the text runs out of the window. -/
example :
    drawCells (fun _ : Nat => 1) true { (setContent new [0, 1, 2, 3, 4, 5] : TI Nat) with cursor := 0 } [] 5 =
      some [(0, .mask), (1, .mask), (2, .mask), (3, .mask), (4, .trunc)] := by decide

/-! ### The scroll offset after `Draw` -/

theorem scrollLoop_le {G : Type} (width : G → Int) (content : List G) (cursor col winW : Int) :
    ∀ (fuel : Nat) (offset off : Int), scrollLoop width content cursor col winW fuel offset = some off →
    offset ≤ off ∧ (off ≤ cursor ∨ off = offset) := by
  intro fuel
  induction fuel with
  | zero => intro offset off h; simp [scrollLoop] at h
  | succ n ih =>
    intro offset off h
    unfold scrollLoop at h
    split at h
    · rename_i hc
      have := ih (offset + 1) off h
      omega
    · simp only [Option.some.injEq] at h
      omega

/-- `Draw` never leaves the view scrolled past the cursor: afterwards `0 ≤ offset ≤ cursor`. -/
theorem draw_offset_le_cursor {G : Type} (width : G → Int) (m : TI G) (prompt : List G) (winW : Int) (h : TIInv m) :
    ∀ m' c, draw width m prompt winW = .shown m' c → 0 ≤ m'.offset ∧ m'.offset ≤ m.cursor := by
  intro m' c hd
  obtain ⟨h0, h1, ho⟩ := h
  unfold draw at hd
  by_cases hw : winW = 0
  · simp only [hw, ↓reduceIte] at hd; cases hd
  · simp only [hw, ↓reduceIte] at hd
    cases hp : promptLoop width winW prompt 0 with
    | none => simp only [hp] at hd; cases hd
    | some col =>
      simp only [hp] at hd
      cases hs : scrollLoop width m.content m.cursor col winW (m.content.length + 2)
          (if widthToCursor width m.content.length 0 m.content 0 0 + col + 4 < winW then 0 else m.offset) with
      | none => simp only [hs] at hd; cases hd
      | some off =>
        simp only [hs] at hd
        have hl := scrollLoop_le width m.content m.cursor col winW _ _ off hs
        cases hd
        simp only
        constructor
        · split <;> omega
        · split at hl <;> split <;> split <;> omega

/-! ### Every written cell is inside the window -/

theorem promptCells_in_window {G : Type} (width : G → Int) (hw : ∀ g, 0 ≤ width g) (winW : Int) :
    ∀ (prompt : List G) (col : Int), 0 ≤ col → col < winW →
    ∀ x ∈ promptCells width winW prompt col, 0 ≤ x.1 ∧ x.1 < winW := by
  intro prompt
  induction prompt with
  | nil => intro col _ _ x hx; simp [promptCells] at hx
  | cons g gs ih =>
    intro col h0 h1 x hx
    simp only [promptCells, List.mem_cons] at hx
    rcases hx with rfl | hx
    · exact ⟨h0, h1⟩
    · split at hx
      · simp at hx
      · exact ih (col + width g) (by have := hw g; omega) (by omega) x hx

theorem cellLoop_in_window {G : Type} (width : G → Int) (hw : ∀ g, 0 ≤ width g) (masked : Bool) (offset winW : Int) :
    ∀ (l : List G) (i col : Int), 0 ≤ col → col < winW →
    ∀ x ∈ cellLoop width masked offset winW l i col, 0 ≤ x.1 ∧ x.1 < winW := by
  intro l
  induction l with
  | nil => intro i col _ _ x hx; simp [cellLoop] at hx
  | cons g gs ih =>
    intro i col h0 h1 x hx
    unfold cellLoop at hx
    split at hx
    · exact ih (i + 1) col h0 h1 x hx
    · simp only [List.mem_cons] at hx
      rcases hx with rfl | hx
      · exact ⟨h0, h1⟩
      · split at hx
        · simp at hx
        · exact ih (i + 1) (col + width g) (by have := hw g; omega) (by omega) x hx

theorem promptLoop_lt {G : Type} (width : G → Int) (hw : ∀ g, 0 ≤ width g) (winW : Int) :
    ∀ (prompt : List G) (c col : Int), 0 ≤ c → c < winW → promptLoop width winW prompt c = some col → 0 ≤ col ∧ col < winW := by
  intro prompt
  induction prompt with
  | nil => intro c col h0 h1 h; simp [promptLoop] at h; omega
  | cons g gs ih =>
    intro c col h0 h1 h
    unfold promptLoop at h
    simp only at h
    split at h
    · cases h
    · exact ih _ _ (by have := hw g; omega) (by omega) h

/-- Every cell `Draw` writes lies inside the window, for every window width and scroll state. -/
theorem drawCells_in_window {G : Type} (width : G → Int) (hw : ∀ g, 0 ≤ width g) (masked : Bool) (m : TI G)
    (prompt : List G) (winW : Int) (hpos : 0 < winW) (cells : List (Int × Glyph G))
    (hd : drawCells width masked m prompt winW = some cells) :
    ∀ x ∈ cells, 0 ≤ x.1 ∧ x.1 < winW := by
  have hP := promptCells_in_window width hw winW prompt 0 (Int.le_refl 0) hpos
  unfold drawCells at hd
  split at hd
  · cases hd
  · simp only [Option.some.injEq] at hd
    subst hd
    split
    · intro x hx; cases hx
    · exact hP
  · split at hd
    · simp only [Option.some.injEq] at hd
      subst hd
      exact hP
    · rename_i col hp
      simp only [Option.some.injEq] at hd
      subst hd
      have hc := promptLoop_lt width hw winW prompt 0 col (Int.le_refl 0) hpos hp
      intro x hx
      rcases List.mem_append.mp hx with h | h
      · exact hP x h
      · exact cellLoop_in_window width hw masked _ winW m.content 0 col hc.1 hc.2 x h

/-! ### A layout of positive-width graphemes never writes one cell over another -/

theorem placed_col_ge {G : Type} (width : G → Int) (hw : ∀ g, 0 ≤ width g) (f : G → Glyph G) :
    ∀ (l : List G) (c : Int), ∀ x ∈ placed width f l c, c ≤ x.1 := by
  intro l
  induction l with
  | nil => intro c x hx; simp [placed] at hx
  | cons g gs ih =>
    intro c x hx
    simp only [placed, List.mem_cons] at hx
    rcases hx with rfl | hx
    · exact Int.le_refl _
    · have := ih (c + width g) x hx
      have := hw g
      omega

/-- With graphemes of positive width the columns of a layout strictly increase: no cell is written
over another one. -/
theorem placed_cols_increasing {G : Type} (width : G → Int) (hw : ∀ g, 0 < width g) (f : G → Glyph G) :
    ∀ (l : List G) (c : Int), ((placed width f l c).map (·.1)).Pairwise (· < ·) := by
  intro l
  induction l with
  | nil => intro c; simp [placed]
  | cons g gs ih =>
    intro c
    simp only [placed, List.map_cons, List.pairwise_cons]
    refine ⟨?_, ih (c + width g)⟩
    intro y hy
    obtain ⟨x, hx, rfl⟩ := List.mem_map.mp hy
    have := placed_col_ge width (fun g => Int.le_of_lt (hw g)) f gs (c + width g) x hx
    have := hw g
    omega

end VaxisModel.Lemmas.TextInput
