import VaxisModel.Model.TextInputCl
import VaxisModel.Lemmas.TextInput
import VaxisModel.Lemmas.EditorCl

/-! Helper lemmas for C17: textinput over texts whose graphemes can merge refines the ideal editor
with re-segmentation (`Spec.Editor.applyC`). -/
namespace VaxisModel.Lemmas.TextInputCl
open VaxisModel.Model.TextInputCl
open VaxisModel.Model.TextInput (TI keySwitch clamp inRange draw DrawRes)
open VaxisModel.Lemmas.TextInput (TIInv tiAbs keyMeaning update_refines draw_keeps draw_not_hang)
open VaxisModel.Lemmas.EditorCl (resegment_id prefix_le)
open VaxisModel.Spec.Editor (Ed Op applyC runC Segmentation apply)

variable {A : Type} (cl : List A → List (List A))

/-- Representation invariant between calls: cursor within the content, offset ≥ 0, and the content
is the segmentation of its text. -/
def TIInvC (m : TIC A) : Prop := TIInv (toG m) ∧ m.content = cl m.content.flatten

def tiAbsC (m : TIC A) : Ed (List A) := ⟨m.content, m.cursor.toNat⟩

def tiSpecOfC (m : TIC A) : Ev A → Op (List A)
  | .pasteEnd => .insert (cl m.paste)
  | .release => .noop
  | .pasteKey _ => .noop
  | .key s c a sup t => keyMeaning s c a sup (cl t)
  | .other => .noop

variable {cl}

/-- An arm of the key switch that `return`s leaves the widget as it was. -/
theorem keySwitch_ret {G : Type} (isAlnum : G → Bool) (m g : TI G) (key : String) (c a s : Bool) (t : List G)
    (h : keySwitch isAlnum m key c a s t = some (g, true)) : g = m := by
  unfold keySwitch at h
  dsimp only at h
  by_cases h1 : key = "Ctrl+a" ∨ key = "Home"
  · rw [if_pos h1] at h; simp at h
  rw [if_neg h1] at h
  by_cases h2 : key = "Ctrl+e" ∨ key = "End"
  · rw [if_pos h2] at h; simp at h
  rw [if_neg h2] at h
  by_cases h3 : key = "Ctrl+f" ∨ key = "Right"
  · rw [if_pos h3] at h; simp at h
  rw [if_neg h3] at h
  by_cases h4 : key = "Ctrl+b" ∨ key = "Left"
  · rw [if_pos h4] at h; simp at h
  rw [if_neg h4] at h
  by_cases h5 : key = "Alt+f" ∨ key = "Ctrl+Right"
  · rw [if_pos h5] at h; split at h <;> simp at h
  rw [if_neg h5] at h
  by_cases h6 : key = "Alt+b" ∨ key = "Ctrl+Left"
  · rw [if_pos h6] at h; simp at h
  rw [if_neg h6] at h
  by_cases h7 : key = "Ctrl+d" ∨ key = "Delete"
  · rw [if_pos h7] at h
    split at h
    · simp at h
    · split at h <;> simp at h
  rw [if_neg h7] at h
  by_cases h8 : key = "Ctrl+k"
  · rw [if_pos h8] at h; split at h <;> simp at h
  rw [if_neg h8] at h
  by_cases h9 : key = "Ctrl+u"
  · rw [if_pos h9] at h; split at h <;> simp at h
  rw [if_neg h9] at h
  by_cases h10 : key = "Ctrl+h" ∨ key = "BackSpace"
  · rw [if_pos h10] at h
    split at h
    · simp at h; exact h.symm
    · split at h
      · split at h <;> simp at h
      · split at h <;> simp at h
  rw [if_neg h10] at h
  by_cases h11 : key = "Ctrl+w"
  · rw [if_pos h11] at h
    split at h
    · simp at h; exact h.symm
    · split at h <;> simp at h
  rw [if_neg h11] at h
  split at h
  · simp at h; exact h.symm
  split at h
  · simp at h; exact h.symm
  split at h
  · simp at h; exact h.symm
  split at h
  · simp at h
  · simp at h

theorem resegment_refines (hs : Segmentation cl) (g : TI (List A)) (p : List A) (h : TIInv g) :
    ∃ m', resegment cl (ofG g p) = some m' ∧ TIInvC cl m' ∧ m'.paste = p ∧
      tiAbsC m' = VaxisModel.Spec.Editor.resegment cl (tiAbs g) := by
  obtain ⟨h0, h1, ho⟩ := h
  obtain ⟨c, hc⟩ := Int.eq_ofNat_of_zero_le h0
  have hcl : c ≤ g.content.length := by omega
  have hin : inRange g.content g.cursor = true := by simp [inRange]; omega
  have hsplit : g.content.flatten = (g.content.take c).flatten ++ (g.content.drop c).flatten := by
    rw [← List.flatten_append, List.take_append_drop]
  have hmono : (cl (g.content.take c).flatten).length ≤ (cl g.content.flatten).length := by
    rw [hsplit]; exact hs.mono _ _
  refine ⟨⟨cl g.content.flatten, ((cl (g.content.take g.cursor.toNat).flatten).length : Int), g.offset, p⟩,
    by simp only [resegment, ofG, hin, ↓reduceIte], ⟨⟨?_, ?_, ?_⟩, ?_⟩, rfl, ?_⟩
  · simp [toG]
  · simp only [toG, hc, Int.toNat_natCast]; omega
  · exact ho
  · simp only [hs.flatten]
  · simp only [tiAbsC, VaxisModel.Spec.Editor.resegment, tiAbs, hc, Int.toNat_natCast]
    congr 1
    exact (Nat.min_eq_left hmono).symm

theorem canon_resegment (hs : Segmentation cl) (m : TIC A) (h : TIInvC cl m) :
    VaxisModel.Spec.Editor.resegment cl (tiAbsC m) = tiAbsC m := by
  obtain ⟨⟨h0, h1, _⟩, hcan⟩ := h
  simp only [toG] at h0 h1
  have := resegment_id hs m.content.flatten m.cursor.toNat (by rw [← hcan]; omega)
  rw [← hcan] at this
  exact this

variable (isAlnum : List A → Bool)

theorem update_refinesC (hs : Segmentation cl) (m : TIC A) (ev : Ev A) (h : TIInvC cl m) :
    ∃ m', update cl isAlnum m ev = some m' ∧ TIInvC cl m' ∧
      tiAbsC m' = applyC cl isAlnum (tiAbsC m) (tiSpecOfC cl m ev) := by
  have hnoop : applyC cl isAlnum (tiAbsC m) .noop = tiAbsC m := canon_resegment hs m h
  cases ev with
  | pasteEnd =>
    obtain ⟨g, hu, hinv, habs⟩ := update_refines isAlnum (⟨m.content, m.cursor, m.offset, cl m.paste⟩ : TI (List A)) .pasteEnd h.1
    have hin : inRange m.content m.cursor = true := by
      have := h.1; simp only [TIInv, toG] at this; simp [inRange]; omega
    simp only [VaxisModel.Model.TextInput.update, hin, ↓reduceIte, Option.some.injEq] at hu
    obtain ⟨m', hr, hi, _, ha⟩ := resegment_refines hs g [] hinv
    refine ⟨m', ?_, hi, ?_⟩
    · simp only [update, hin, ↓reduceIte, toG]
      rw [← hr, ← hu]
    · rw [ha, habs]; rfl
  | release => exact ⟨m, rfl, h, hnoop.symm⟩
  | pasteKey t => exact ⟨_, rfl, ⟨h.1, h.2⟩, hnoop.symm⟩
  | key s c a sup t =>
    obtain ⟨g, hu, hinv, habs⟩ := update_refines isAlnum (toG m) (.key s c a sup (cl t)) h.1
    simp only [VaxisModel.Model.TextInput.update] at hu
    simp only [update, tiSpecOfC]
    cases hk : keySwitch isAlnum (toG m) s c a sup (cl t) with
    | none => rw [hk] at hu; cases hu
    | some r =>
      obtain ⟨g', b⟩ := r
      rw [hk] at hu
      cases b with
      | true =>
        simp only [Option.some.injEq] at hu
        have hg : g' = toG m := keySwitch_ret isAlnum (toG m) g' s c a sup (cl t) hk
        have hm : ofG g' m.paste = m := by rw [hg]; rfl
        refine ⟨m, by simp only [hm], h, ?_⟩
        have : tiAbs g = tiAbsC m := by rw [← hu, hg]; rfl
        have habs' : tiAbs g = apply isAlnum (tiAbs (toG m)) (keyMeaning s c a sup (cl t)) := habs
        rw [applyC, show tiAbsC m = tiAbs (toG m) from rfl, ← habs', this]
        exact (canon_resegment hs m h).symm
      | false =>
        simp only [Option.some.injEq] at hu
        obtain ⟨m', hr, hi, _, ha⟩ := resegment_refines hs g m.paste hinv
        refine ⟨m', by simp only [hu]; exact hr, hi, ?_⟩
        rw [ha, habs]; rfl
  | other =>
    obtain ⟨g, hu, hinv, habs⟩ := update_refines isAlnum (toG m) .other h.1
    simp only [VaxisModel.Model.TextInput.update, Option.some.injEq] at hu
    obtain ⟨m', hr, hi, _, ha⟩ := resegment_refines hs g m.paste hinv
    refine ⟨m', by simp only [update, hu]; exact hr, hi, ?_⟩
    rw [ha, habs]; rfl

theorem setContent_refinesC (hs : Segmentation cl) (m : TIC A) (s : List A) (h : TIInvC cl m) :
    TIInvC cl (setContent cl m s) ∧
    tiAbsC (setContent cl m s) = applyC cl isAlnum (tiAbsC m) (.setContent (cl s)) := by
  refine ⟨⟨⟨by simp [setContent, toG], by simp [setContent, toG], h.1.2.2⟩, by simp [setContent, hs.flatten]⟩, ?_⟩
  simp only [tiAbsC, setContent, applyC, apply, Int.toNat_natCast]
  exact (resegment_id hs s _ (Nat.le_refl _)).symm

/-- Operations of the textinput API. -/
inductive TIOpC (A : Type) where
  | ev (e : Ev A)
  | set (s : List A)
  | draw (prompt : List (List A)) (winW : Int)

/-- One API call on the model; `none` = the call panicked or did not return. -/
def tiStepC (cl : List A → List (List A)) (width : List A → Int) (m : TIC A) : TIOpC A → Option (TIC A)
  | .ev e => update cl isAlnum m e
  | .set s => some (setContent cl m s)
  | .draw p w =>
    match draw width (toG m) p w with
    | .hang => none
    | .early g => some (ofG g m.paste)
    | .shown g _ => some (ofG g m.paste)

def tiOpSpecC (cl : List A → List (List A)) (m : TIC A) : TIOpC A → Op (List A)
  | .ev e => tiSpecOfC cl m e
  | .set s => .setContent (cl s)
  | .draw _ _ => .noop

theorem tiStepC_refines (hs : Segmentation cl) (width : List A → Int) (m : TIC A) (op : TIOpC A) (h : TIInvC cl m) :
    ∃ m', tiStepC isAlnum cl width m op = some m' ∧ TIInvC cl m' ∧
      tiAbsC m' = applyC cl isAlnum (tiAbsC m) (tiOpSpecC cl m op) := by
  cases op with
  | ev e => exact update_refinesC isAlnum hs m e h
  | set s => exact ⟨_, rfl, setContent_refinesC isAlnum hs m s h⟩
  | draw p w =>
    have hnoop : applyC cl isAlnum (tiAbsC m) .noop = tiAbsC m := canon_resegment hs m h
    have hnh := draw_not_hang width (toG m) p w h.1.2.2 h.1.2.1
    have key : ∀ g c, (draw width (toG m) p w = .shown g c ∨ draw width (toG m) p w = .early g) →
        TIInvC cl (ofG g m.paste) ∧ tiAbsC (ofG g m.paste) = applyC cl isAlnum (tiAbsC m) .noop := by
      intro g c hd
      have hk := draw_keeps width (toG m) p w h.1 g c hd
      have hcont : g.content = m.content := congrArg Ed.text hk.2
      refine ⟨⟨hk.1, ?_⟩, ?_⟩
      · show g.content = cl g.content.flatten
        rw [hcont]; exact h.2
      · rw [hnoop]; exact hk.2
    unfold tiStepC
    cases hd : draw width (toG m) p w with
    | hang => rw [hd] at hnh; cases hnh
    | early g => exact ⟨_, by simp only [hd], key g 0 (Or.inr hd)⟩
    | shown g c => exact ⟨_, by simp only [hd], key g c (Or.inl hd)⟩

/-- Run a history; the ideal ops are computed along the way. -/
def tiRunC (cl : List A → List (List A)) (width : List A → Int) : TIC A → List (TIOpC A) → Option (TIC A × List (Op (List A)))
  | m, [] => some (m, [])
  | m, op :: ops =>
    match tiStepC isAlnum cl width m op with
    | none => none
    | some m' =>
      match tiRunC cl width m' ops with
      | none => none
      | some (mf, sops) => some (mf, tiOpSpecC cl m op :: sops)

theorem tiRunC_refines (hs : Segmentation cl) (width : List A → Int) : ∀ (ops : List (TIOpC A)) (m : TIC A), TIInvC cl m →
    ∃ mf sops, tiRunC isAlnum cl width m ops = some (mf, sops) ∧ TIInvC cl mf ∧
      tiAbsC mf = runC cl isAlnum (tiAbsC m) sops := by
  intro ops
  induction ops with
  | nil => intro m h; exact ⟨m, [], rfl, h, rfl⟩
  | cons op ops ih =>
    intro m h
    obtain ⟨m', hst, hinv, habs⟩ := tiStepC_refines isAlnum hs width m op h
    obtain ⟨mf, sops, hr, hinvf, habsf⟩ := ih m' hinv
    refine ⟨mf, tiOpSpecC cl m op :: sops, ?_, hinvf, ?_⟩
    · simp only [tiRunC, hst, hr]
    · simp only [runC]
      rw [habsf, habs]

end VaxisModel.Lemmas.TextInputCl
