import VaxisModel.Lemmas.TextInputCl

/-! C17, round 3: `Model.TextInputCl` with the segmentation that never merges *is* `Model.TextInput`
(instantiated at graphemes = one-atom clusters): helper lemmas. -/
namespace VaxisModel.Lemmas.TextInputOne
open VaxisModel.Model.TextInput (TI keySwitch clamp inRange insertChars)
open VaxisModel.Model.TextInputCl (TIC toG ofG resegment)
open VaxisModel.Lemmas.TextInput (TIInv tiAbs update_refines tiSpecOf keyMeaning)
open VaxisModel.Lemmas.EditorCl
open VaxisModel.Spec.Editor (Op)

variable {A : Type}

/-- The widget over merging graphemes as a `Model.TextInput` widget over one-atom clusters: the paste
buffer (`[]rune`) as the clusters it will become. -/
def gOf (m : TIC A) : TI (List A) := ⟨m.content, m.cursor, m.offset, singletons m.paste⟩

/-- …and back: the paste buffer is the atoms of its clusters. -/
def cOf (g : TI (List A)) : TIC A := ⟨g.content, g.cursor, g.offset, g.paste.flatten⟩

def evOf : VaxisModel.Model.TextInputCl.Ev A → VaxisModel.Model.TextInput.Ev (List A)
  | .pasteEnd => .pasteEnd
  | .release => .release
  | .pasteKey t => .pasteKey (singletons t)
  | .key s c a sup t => .key s c a sup (singletons t)
  | .other => .other

theorem cOf_gOf (m : TIC A) : cOf (gOf m) = m := by
  simp [cOf, gOf, singletons_flatten]

theorem insertChars_paste {G : Type} (p : List G) : ∀ (t : List G) (m : TI G),
    insertChars { m with paste := p } t = (insertChars m t).map fun g => { g with paste := p } := by
  intro t
  induction t with
  | nil => intro m; rfl
  | cons g gs ih =>
    intro m
    unfold insertChars
    by_cases h : inRange m.content m.cursor = true
    · simp only [h, if_true]
      exact ih { m with content := List.take m.cursor.toNat m.content ++ [g] ++ List.drop m.cursor.toNat m.content, cursor := m.cursor + 1 }
    · simp only [h]; rfl

macro "arm" h:ident : tactic => `(tactic| (simp only [$h:ident, if_true, if_false, ↓reduceIte]))

/-- The key switch never looks at the paste buffer. -/
theorem keySwitch_paste {G : Type} (isAlnum : G → Bool) (m : TI G) (p : List G) (key : String) (c a s : Bool) (t : List G) :
    keySwitch isAlnum { m with paste := p } key c a s t =
      (keySwitch isAlnum m key c a s t).map fun r => ({ r.1 with paste := p }, r.2) := by
  unfold keySwitch
  simp only []
  by_cases h1 : key = "Ctrl+a" ∨ key = "Home"
  · arm h1; rfl
  arm h1
  by_cases h2 : key = "Ctrl+e" ∨ key = "End"
  · arm h2; rfl
  arm h2
  by_cases h3 : key = "Ctrl+f" ∨ key = "Right"
  · arm h3; rfl
  arm h3
  by_cases h4 : key = "Ctrl+b" ∨ key = "Left"
  · arm h4; rfl
  arm h4
  by_cases h5 : key = "Alt+f" ∨ key = "Ctrl+Right"
  · arm h5; split <;> rfl
  arm h5
  by_cases h6 : key = "Alt+b" ∨ key = "Ctrl+Left"
  · arm h6; rfl
  arm h6
  by_cases h7 : key = "Ctrl+d" ∨ key = "Delete"
  · arm h7; split
    · rfl
    · split <;> rfl
  arm h7
  by_cases h8 : key = "Ctrl+k"
  · arm h8; split <;> rfl
  arm h8
  by_cases h9 : key = "Ctrl+u"
  · arm h9; split <;> rfl
  arm h9
  by_cases h10 : key = "Ctrl+h" ∨ key = "BackSpace"
  · arm h10
    split
    · rfl
    · split
      · split <;> rfl
      · split <;> rfl
  arm h10
  by_cases h11 : key = "Ctrl+w"
  · arm h11
    split
    · rfl
    · split <;> rfl
  arm h11
  split
  · rfl
  · split
    · rfl
    · split
      · rfl
      · split
        · rw [insertChars_paste]; cases insertChars m t <;> rfl
        · rfl

/-- Re-segmentation with the segmentation that never merges changes nothing on single-atom content with
the cursor inside. -/
theorem resegment_singletons_id (g : TI (List A)) (p : List A) (h : TIInv g) (hs : AllSingle g.content) :
    resegment singletons (ofG g p) = some (ofG g p) := by
  obtain ⟨h0, h1, _⟩ := h
  have hin : inRange g.content g.cursor = true := by simp [inRange]; omega
  simp only [resegment, ofG, hin, if_true, Option.some.injEq]
  have e1 := singletons_flatten_of_allSingle g.content hs
  have e2 := singletons_flatten_of_allSingle _ (allSingle_take g.content g.cursor.toNat hs)
  rw [e1, e2, List.length_take]
  congr 1
  omega

theorem opSingle_ite (c : Prop) [Decidable c] (a b : Op (List A)) (ha : OpSingle a) (hb : OpSingle b) :
    OpSingle (if c then a else b) := by
  by_cases h : c
  · rw [if_pos h]; exact ha
  · rw [if_neg h]; exact hb

theorem keyMeaning_single (key : String) (c a s : Bool) (t : List A) :
    OpSingle (keyMeaning key c a s (singletons t)) := by
  unfold keyMeaning
  repeat' apply opSingle_ite
  all_goals first | trivial | exact allSingle_singletons t

/-- The clamped cursor. -/
def clampC {G : Type} (content : List G) (x : Int) : Int :=
  let c := if x > content.length then (content.length : Int) else x
  if c < 0 then 0 else c

theorem clamp_mk {G : Type} (content : List G) (x o : Int) (p : List G) :
    clamp ⟨content, x, o, p⟩ = ⟨content, clampC content x, o, p⟩ := rfl

theorem clamp_inv {G : Type} (content : List G) (x o : Int) (p : List G) (ho : 0 ≤ o) :
    TIInv (⟨content, clampC content x, o, p⟩ : TI G) := by
  have := (VaxisModel.Lemmas.TextInput.clamp_spec content x o p ho).1
  rw [clamp_mk] at this
  exact this

theorem keySwitch_paste' {G : Type} (isAlnum : G → Bool) (content : List G) (x o : Int) (p : List G) (key : String)
    (c a s : Bool) (t : List G) :
    keySwitch isAlnum ⟨content, x, o, p⟩ key c a s t =
      (keySwitch isAlnum ⟨content, x, o, []⟩ key c a s t).map fun r => (⟨r.1.content, r.1.cursor, r.1.offset, p⟩, r.2) :=
  keySwitch_paste isAlnum ⟨content, x, o, []⟩ p key c a s t

/-- **The two textinput models are one.**  On content whose characters are single atoms, with the
segmentation that never merges, `Model.TextInputCl.update` is `Model.TextInput.update` (run on the same
characters, the paste buffer as the characters it will become): same result, panic for panic. -/
theorem update_singletons (isAlnum : List A → Bool) (m : TIC A) (h : TIInv (toG m)) (hs : AllSingle m.content)
    (ev : VaxisModel.Model.TextInputCl.Ev A) :
    VaxisModel.Model.TextInputCl.update singletons isAlnum m ev =
      (VaxisModel.Model.TextInput.update isAlnum (gOf m) (evOf ev)).map cOf := by
  obtain ⟨content, x, o, paste⟩ := m
  have ho : 0 ≤ o := h.2.2
  simp only at hs
  cases ev with
  | release => simp [VaxisModel.Model.TextInputCl.update, VaxisModel.Model.TextInput.update, evOf, cOf, gOf, singletons_flatten]
  | pasteKey t =>
    simp [VaxisModel.Model.TextInputCl.update, VaxisModel.Model.TextInput.update, evOf, cOf, gOf,
      List.flatten_append, singletons_flatten]
  | other =>
    simp only [VaxisModel.Model.TextInputCl.update, VaxisModel.Model.TextInput.update, evOf, Option.map_some, toG, gOf,
      clamp_mk]
    rw [resegment_singletons_id ⟨content, clampC content x, o, []⟩ paste (clamp_inv content x o [] ho) hs]
    simp [cOf, ofG, singletons_flatten]
  | pasteEnd =>
    simp only [VaxisModel.Model.TextInputCl.update, VaxisModel.Model.TextInput.update, evOf, toG, gOf]
    by_cases hin : inRange content x = true
    · simp only [hin, ↓reduceIte, Option.map_some, clamp_mk]
      have hgc : AllSingle (content.take x.toNat ++ singletons paste ++ content.drop x.toNat) :=
        allSingle_append _ _ (allSingle_append _ _ (allSingle_take _ _ hs) (allSingle_singletons _)) (allSingle_drop _ _ hs)
      rw [resegment_singletons_id ⟨_, clampC _ _, o, []⟩ [] (clamp_inv _ _ o [] ho) hgc]
      simp [cOf, ofG]
    · simp [hin]
  | key s c a sup t =>
    simp only [VaxisModel.Model.TextInputCl.update, VaxisModel.Model.TextInput.update, evOf, toG, gOf]
    rw [keySwitch_paste' isAlnum content x o (singletons paste)]
    obtain ⟨m', hu, hinv, habs⟩ := update_refines isAlnum (⟨content, x, o, []⟩ : TI (List A)) (.key s c a sup (singletons t)) h
    simp only [VaxisModel.Model.TextInput.update] at hu
    cases hk : keySwitch isAlnum (⟨content, x, o, []⟩ : TI (List A)) s c a sup (singletons t) with
    | none => rfl
    | some r =>
      obtain ⟨g, ret⟩ := r
      rw [hk] at hu
      cases ret with
      | true =>
        simp [cOf, ofG, singletons_flatten]
      | false =>
        simp only [Option.some.injEq] at hu
        have hsingle : AllSingle m'.content := by
          have : m'.content = (tiAbs m').text := rfl
          rw [this, habs]
          exact apply_allSingle isAlnum _ _ hs (keyMeaning_single s c a sup t)
        obtain ⟨gc, gx, go, gp⟩ := g
        simp only [Option.map_some, clamp_mk] at hu ⊢
        rw [hu, resegment_singletons_id m' paste hinv hsingle]
        rw [← hu]
        simp [cOf, ofG, singletons_flatten]

/-- The paste buffer of the merge-free model stays a list of single-atom characters. -/
theorem update_paste_single (isAlnum : List A → Bool) (g g1 : TI (List A)) (ev : VaxisModel.Model.TextInputCl.Ev A)
    (hp : AllSingle g.paste) (hu : VaxisModel.Model.TextInput.update isAlnum g (evOf ev) = some g1) :
    AllSingle g1.paste := by
  obtain ⟨content, x, o, paste⟩ := g
  simp only at hp
  cases ev with
  | release => simp only [evOf, VaxisModel.Model.TextInput.update, Option.some.injEq] at hu; rw [← hu]; exact hp
  | pasteKey t =>
    simp only [evOf, VaxisModel.Model.TextInput.update, Option.some.injEq] at hu
    rw [← hu]; exact allSingle_append _ _ hp (allSingle_singletons t)
  | other =>
    simp only [evOf, VaxisModel.Model.TextInput.update, Option.some.injEq, clamp_mk] at hu
    rw [← hu]; exact hp
  | pasteEnd =>
    simp only [evOf, VaxisModel.Model.TextInput.update] at hu
    split at hu
    · simp only [Option.some.injEq, clamp_mk] at hu
      rw [← hu]; intro c hc; cases hc
    · cases hu
  | key s c a sup t =>
    simp only [evOf, VaxisModel.Model.TextInput.update] at hu
    rw [keySwitch_paste' isAlnum content x o paste] at hu
    cases hk : keySwitch isAlnum (⟨content, x, o, []⟩ : TI (List A)) s c a sup (singletons t) with
    | none => rw [hk] at hu; cases hu
    | some r =>
      obtain ⟨g, ret⟩ := r
      obtain ⟨gc, gx, go, gp⟩ := g
      rw [hk] at hu
      cases ret with
      | true => simp only [Option.map_some, Option.some.injEq] at hu; rw [← hu]; exact hp
      | false => simp only [Option.map_some, Option.some.injEq, clamp_mk] at hu; rw [← hu]; exact hp

theorem gOf_cOf (g : TI (List A)) (hp : AllSingle g.paste) : gOf (cOf g) = g := by
  obtain ⟨content, x, o, paste⟩ := g
  simp only [gOf, cOf, TI.mk.injEq, true_and]
  exact singletons_flatten_of_allSingle paste hp

/-- Histories: fold of `update`, `none` = panic. -/
def runCl (isAlnum : List A → Bool) : TIC A → List (VaxisModel.Model.TextInputCl.Ev A) → Option (TIC A)
  | m, [] => some m
  | m, e :: es => (VaxisModel.Model.TextInputCl.update singletons isAlnum m e).bind fun m' => runCl isAlnum m' es

def runG (isAlnum : List A → Bool) : TI (List A) → List (VaxisModel.Model.TextInput.Ev (List A)) → Option (TI (List A))
  | g, [] => some g
  | g, e :: es => (VaxisModel.Model.TextInput.update isAlnum g e).bind fun g' => runG isAlnum g' es

theorem runs_agree (isAlnum : List A → Bool) : ∀ (evs : List (VaxisModel.Model.TextInputCl.Ev A)) (m : TIC A),
    TIInv (toG m) → AllSingle m.content →
    runCl isAlnum m evs = (runG isAlnum (gOf m) (evs.map evOf)).map cOf := by
  intro evs
  induction evs with
  | nil => intro m _ _; simp [runCl, runG, cOf_gOf]
  | cons e es ih =>
    intro m h hs
    simp only [runCl, runG, List.map_cons]
    rw [update_singletons isAlnum m h hs e]
    cases hu : VaxisModel.Model.TextInput.update isAlnum (gOf m) (evOf e) with
    | none => rfl
    | some g1 =>
      simp only [Option.map_some, Option.bind_some]
      have hp1 : AllSingle g1.paste := update_paste_single isAlnum (gOf m) g1 e (allSingle_singletons _) hu
      have hcl : VaxisModel.Model.TextInputCl.update singletons isAlnum m e = some (cOf g1) := by
        rw [update_singletons isAlnum m h hs e, hu]; rfl
      have hinvC : VaxisModel.Lemmas.TextInputCl.TIInvC singletons m :=
        ⟨h, (singletons_flatten_of_allSingle m.content hs).symm⟩
      obtain ⟨m'', hu', hi, _⟩ := VaxisModel.Lemmas.TextInputCl.update_refinesC isAlnum singletons_seg m e hinvC
      rw [hcl] at hu'
      cases hu'
      have hs1 : AllSingle (cOf g1).content := by rw [hi.2]; exact allSingle_singletons _
      rw [ih (cOf g1) hi.1 hs1, gOf_cOf g1 hp1]

end VaxisModel.Lemmas.TextInputOne
