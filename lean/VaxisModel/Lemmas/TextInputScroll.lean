import VaxisModel.Spec.EditorView
import VaxisModel.Lemmas.TextInputCells

/-! C17, round 3: the scrolled case of `textinput.Draw` — the cell loop and the cursor column in closed form over
the visible part of the text (the graphemes from the offset on), for every window width. -/
namespace VaxisModel.Lemmas.TextInputScroll
open VaxisModel.Model.TextInput VaxisModel.Spec.EditorView

variable {G : Type}

/-- Past the offset the cell loop is the window layout without a left truncator. -/
theorem cellLoop_past (width : G → Int) (masked : Bool) (offset winW : Int) :
    ∀ (l : List G) (i col : Int), offset < i →
      cellLoop width masked offset winW l i col = windowCells width masked winW false l col := by
  intro l
  induction l with
  | nil => intro i col _; rfl
  | cons g gs ih =>
    intro i col hi
    have h1 : ¬ i < offset := by omega
    have h2 : ¬ (offset > 0 ∧ i = offset) := by omega
    unfold cellLoop windowCells
    simp only [h1, if_false, h2]
    by_cases hc : col + width g ≥ winW
    · simp [hc]
    · simp only [hc, if_false, Bool.false_eq_true]
      rw [ih (i + 1) (col + width g) (by omega)]

/-- **The cell loop shows the visible window of the text**: from index `i ≤ offset` on, the `SetCell` calls are the
layout of the graphemes from the offset on; the first is the truncator iff the offset is positive. -/
theorem cellLoop_window (width : G → Int) (masked : Bool) (offset winW : Int) :
    ∀ (l : List G) (i col : Int), i ≤ offset →
      cellLoop width masked offset winW l i col =
        windowCells width masked winW (decide (offset > 0)) (l.drop (offset - i).toNat) col := by
  intro l
  induction l with
  | nil => intro i col _; simp [cellLoop, windowCells]
  | cons g gs ih =>
    intro i col hi
    by_cases hlt : i < offset
    · have hk : (offset - i).toNat = (offset - (i + 1)).toNat + 1 := by omega
      unfold cellLoop
      simp only [hlt, if_true]
      rw [hk, List.drop_succ_cons]
      exact ih (i + 1) col (by omega)
    · have he : i = offset := by omega
      have hk : (offset - i).toNat = 0 := by omega
      rw [hk, List.drop_zero]
      unfold cellLoop windowCells
      simp only [he, and_true]
      by_cases hc : col + width g ≥ winW
      · simp [hc]
      · simp only [hc, if_false]
        rw [cellLoop_past width masked offset winW gs (offset + 1) (col + width g) (by omega)]
        by_cases ho : offset > 0 <;> simp [ho]

/-- Once the cursor index is behind the loop index, the loop no longer assigns the cursor column. -/
theorem cursorLoop_behind (width : G → Int) (cursorIdx offset winW : Int) :
    ∀ (l : List G) (i col cur : Int), offset ≤ i → cursorIdx ≤ i →
      cursorLoop width cursorIdx offset winW l i col cur = cur := by
  intro l
  induction l with
  | nil => intro i col cur _ _; rfl
  | cons g gs ih =>
    intro i col cur ho hc
    have h1 : ¬ i < offset := by omega
    have h2 : ¬ i + 1 = cursorIdx := by omega
    unfold cursorLoop
    simp only [h1, if_false, h2]
    by_cases hb : col + width g ≥ winW
    · simp [hb]
    · simp only [hb, if_false]
      exact ih (i + 1) (col + width g) cur (by omega) (by omega)

theorem textWidth_nonneg (width : G → Int) (hw : ∀ g, 0 ≤ width g) (l : List G) : 0 ≤ textWidth width l := by
  induction l with
  | nil => simp [textWidth]
  | cons g gs ih => have := hw g; simp only [textWidth]; omega

/-- **The cursor column, from the offset on**: with `k` graphemes between the loop index and the cursor, the loop
assigns `col` + their display width if it reaches the last of them — i.e. if the `k-1` before it end left of the
right edge — and otherwise leaves the cursor column as it was. -/
theorem cursorLoop_from (width : G → Int) (hw : ∀ g, 0 ≤ width g) (offset winW : Int) :
    ∀ (l : List G) (i col cur : Int) (k : Nat), offset ≤ i → k ≤ l.length →
      cursorLoop width (i + k) offset winW l i col cur =
        if k = 0 then cur
        else if k = 1 ∨ col + textWidth width (l.take (k - 1)) < winW then col + textWidth width (l.take k)
        else cur := by
  intro l
  induction l with
  | nil =>
    intro i col cur k _ hk
    have : k = 0 := by simpa using hk
    subst this
    simp [cursorLoop]
  | cons g gs ih =>
    intro i col cur k ho hk
    rcases k with _ | k
    · simp only [if_true]
      exact cursorLoop_behind width _ offset winW _ i col cur ho (by omega)
    · have h1 : ¬ i < offset := by omega
      have hk' : k ≤ gs.length := by simpa using hk
      unfold cursorLoop
      simp only [h1, if_false]
      rcases k with _ | k
      · -- the grapheme before the cursor is this one
        have e : i + 1 = i + ((0 + 1 : Nat) : Int) := by omega
        simp only [e, if_true, Nat.succ_ne_zero, if_false, Nat.zero_add, true_or, List.take_succ_cons, List.take_zero,
          textWidth, Int.add_zero]
        by_cases hb : col + width g ≥ winW
        · simp [hb]
        · simp only [hb, if_false]
          exact cursorLoop_behind width _ offset winW gs (i + 1) _ _ (by omega) (by omega)
      · have hne : ¬ i + 1 = i + ((k + 1 + 1 : Nat) : Int) := by omega
        simp only [hne, if_false, Nat.succ_ne_zero]
        have hnn := textWidth_nonneg width hw (gs.take k)
        have e1 : ¬ (k + 1 + 1 = 1) := by omega
        simp only [e1, false_or, Nat.add_sub_cancel, List.take_succ_cons, textWidth]
        by_cases hb : col + width g ≥ winW
        · have : ¬ col + (width g + textWidth width (gs.take k)) < winW := by omega
          simp [hb, this]
        · simp only [hb, if_false]
          have hi : i + ((k + 1 + 1 : Nat) : Int) = (i + 1) + ((k + 1 : Nat) : Int) := by omega
          rw [hi, ih (i + 1) (col + width g) cur (k + 1) (by omega) (by omega)]
          simp only [Nat.succ_ne_zero, if_false, Nat.add_sub_cancel]
          have a1 : col + width g + textWidth width (gs.take k) = col + (width g + textWidth width (gs.take k)) := by omega
          by_cases hk0 : k = 0
          · subst hk0
            have hlt : col + width g < winW := by omega
            simp [textWidth, hlt]
            omega
          · have e2 : ¬ (k + 1 = 1) := by omega
            simp only [e2, false_or, a1]
            split <;> omega

/-- The shape of a `Draw` that shows the cursor: the prompt loop ended at some column `col`, and the cursor column is
the cursor loop run with the offset `Draw` left in the widget. -/
theorem draw_shape (width : G → Int) (m : TI G) (prompt : List G) (winW : Int) (m' : TI G) (c : Int)
    (hd : draw width m prompt winW = .shown m' c) :
    ∃ col, promptLoop width winW prompt 0 = some col ∧ m'.content = m.content ∧ m'.cursor = m.cursor ∧
      c = cursorLoop width m.cursor m'.offset winW m.content 0 col col := by
  unfold draw at hd
  by_cases hw : winW = 0
  · simp only [hw, ↓reduceIte] at hd; cases hd
  · simp only [hw, ↓reduceIte] at hd
    cases hp : promptLoop width winW prompt 0 with
    | none => simp only [hp] at hd; cases hd
    | some col =>
      simp only [hp] at hd
      cases hs : scrollLoop width m.content m.cursor col winW (m.content.length + 2)
          (if widthToCursor width m.content.length 0 m.content 0 0 + col + 4 < winW then 0 else m.offset) with
      | none => simp only [hs] at hd; cases hd
      | some off =>
        simp only [hs] at hd
        cases hd
        exact ⟨col, rfl, rfl, rfl, rfl⟩

/-! ### Windows with room for the scroll margin: the cursor is at its grapheme -/

/-- What the forward scroll loop establishes: it stops at the cursor, or with the text from the offset to the cursor
(inclusive) plus the margin inside the window. -/
theorem scrollLoop_post (width : G → Int) (content : List G) (cursor col winW : Int) :
    ∀ (fuel : Nat) (offset off : Int), scrollLoop width content cursor col winW fuel offset = some off →
    ¬ (off < cursor ∧ widthToCursor width cursor off content 0 0 + col + 4 ≥ winW) := by
  intro fuel
  induction fuel with
  | zero => intro offset off h; simp [scrollLoop] at h
  | succ n ih =>
    intro offset off h
    unfold scrollLoop at h
    split at h
    · exact ih (offset + 1) off h
    · rename_i hc
      simp only [Option.some.injEq] at h
      rw [← h]; exact hc

theorem textWidth_take_mono (width : G → Int) (hw : ∀ g, 0 ≤ width g) : ∀ (l : List G) (n : Nat),
    textWidth width (l.take n) ≤ textWidth width (l.take (n + 1)) := by
  intro l
  induction l with
  | nil => intro n; simp [textWidth]
  | cons g gs ih =>
    intro n
    cases n with
    | zero => have := hw g; simp [textWidth]; omega
    | succ n => simp only [List.take_succ_cons, textWidth]; have := ih n; omega

theorem textWidth_take_le (width : G → Int) (hw2 : ∀ g, width g ≤ 2) : ∀ (l : List G) (n : Nat),
    textWidth width (l.take n) ≤ 2 * n := by
  intro l
  induction l with
  | nil => intro n; simp [textWidth]; omega
  | cons g gs ih =>
    intro n
    cases n with
    | zero => simp [textWidth]
    | succ n => simp only [List.take_succ_cons, textWidth]; have := ih n; have := hw2 g; omega

/-- From the offset on, `widthToCursor` is at least the display width of the graphemes before the cursor. -/
theorem widthToCursor_ge_past (width : G → Int) (hw : ∀ g, 0 ≤ width g) (cursor offset : Int) :
    ∀ (l : List G) (i w : Int), offset ≤ i →
      w + textWidth width (l.take (cursor - i).toNat) ≤ widthToCursor width cursor offset l i w := by
  intro l
  induction l with
  | nil => intro i w _; simp [widthToCursor, textWidth]
  | cons g gs ih =>
    intro i w hi
    have h1 : ¬ i < offset := by omega
    have hg := hw g
    unfold widthToCursor
    simp only [h1, if_false]
    by_cases hc : i = cursor
    · subst hc
      have e : (i - i).toNat = 0 := by omega
      rw [e]
      simp only [if_true, List.take_zero, textWidth]
      omega
    · simp only [hc, if_false]
      have := ih (i + 1) (w + width g) (by omega)
      by_cases hlt : i < cursor
      · have e : (cursor - i).toNat = (cursor - (i + 1)).toNat + 1 := by omega
        rw [e, List.take_succ_cons]
        simp only [textWidth]
        omega
      · have e : (cursor - i).toNat = 0 := by omega
        have hnn := textWidth_nonneg width hw (gs.take (cursor - (i + 1)).toNat)
        rw [e]
        simp only [List.take_zero, textWidth]
        omega

theorem widthToCursor_skip (width : G → Int) (cursor offset : Int) :
    ∀ (l : List G) (i w : Int), i ≤ offset →
      widthToCursor width cursor offset l i w = widthToCursor width cursor offset (l.drop (offset - i).toNat) offset w := by
  intro l
  induction l with
  | nil => intro i w _; simp [widthToCursor]
  | cons g gs ih =>
    intro i w hi
    by_cases hlt : i < offset
    · have hk : (offset - i).toNat = (offset - (i + 1)).toNat + 1 := by omega
      rw [hk, List.drop_succ_cons, ← ih (i + 1) w (by omega)]
      conv => lhs; unfold widthToCursor
      simp only [hlt, if_true]
    · have he : i = offset := by omega
      have hk : (offset - i).toNat = 0 := by omega
      rw [hk, List.drop_zero, he]

/-- The richer shape of a `Draw` that shows the cursor: the offset it leaves is the forward loop's result, pulled
back to `cursor - 4` when the cursor is within four graphemes of it, and never negative. -/
theorem draw_shape_offset (width : G → Int) (m : TI G) (prompt : List G) (winW : Int) (m' : TI G) (c : Int)
    (hd : draw width m prompt winW = .shown m' c) :
    ∃ col off off0, promptLoop width winW prompt 0 = some col ∧ (off0 = 0 ∨ off0 = m.offset) ∧
      scrollLoop width m.content m.cursor col winW (m.content.length + 2) off0 = some off ∧
      m'.offset = (let o := if m.cursor - 4 - off < 0 then m.cursor - 4 else off; if o < 0 then 0 else o) := by
  unfold draw at hd
  by_cases hw : winW = 0
  · simp only [hw, ↓reduceIte] at hd; cases hd
  · simp only [hw, ↓reduceIte] at hd
    cases hp : promptLoop width winW prompt 0 with
    | none => simp only [hp] at hd; cases hd
    | some col =>
      simp only [hp] at hd
      cases hs : scrollLoop width m.content m.cursor col winW (m.content.length + 2)
          (if widthToCursor width m.content.length 0 m.content 0 0 + col + 4 < winW then 0 else m.offset) with
      | none => simp only [hs] at hd; cases hd
      | some off =>
        simp only [hs] at hd
        cases hd
        refine ⟨col, off, _, rfl, ?_, hs, rfl⟩
        split
        · exact Or.inl rfl
        · exact Or.inr rfl

end VaxisModel.Lemmas.TextInputScroll
