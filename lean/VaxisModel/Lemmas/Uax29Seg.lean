import VaxisModel.Spec.Uax29
import VaxisModel.Lemmas.SnocSeg

/-! `clUax` reads its text atom by atom: it is a streaming segmentation (`SnocSeg`), hence a `Segmentation`. -/
namespace VaxisModel.Lemmas.Uax29Seg
open VaxisModel.Spec.Uax29 VaxisModel.Lemmas.SnocSeg

/-- the clusters a state stands for -/
def out (st : SegSt) : List (List Nat) := (if st.cur.isEmpty then st.done else st.cur.reverse :: st.done).reverse

theorem clUax_eq (cls : Nat → Char) (x : List Nat) : clUax cls x = out (x.foldl (segStep cls) {}) := rfl

/-- once an atom was read there is a current cluster -/
def Inv (st : SegSt) : Prop := st.prev ≠ '-' → st.cur ≠ []

theorem inv_init : Inv {} := by intro h; exact absurd rfl h

theorem cur_ne_nil (cls : Nat → Char) (st : SegSt) (a : Nat) : (segStep cls st a).cur ≠ [] := by
  simp only [segStep]
  split <;> simp

theorem inv_step (cls : Nat → Char) (st : SegSt) (a : Nat) : Inv (segStep cls st a) := fun _ => cur_ne_nil cls st a

theorem inv_fold (cls : Nat → Char) : ∀ (x : List Nat) (st : SegSt), Inv st → Inv (x.foldl (segStep cls) st) := by
  intro x
  induction x with
  | nil => intro st h; exact h
  | cons a x ih => intro st _; exact ih _ (inv_step cls st a)

theorem out_step (cls : Nat → Char) (st : SegSt) (a : Nat) (h : Inv st) :
    out (segStep cls st a) = out st ++ [[a]] ∨
      ∃ ini last, out st = ini ++ [last] ∧ out (segStep cls st a) = ini ++ [last ++ [a]] := by
  simp only [segStep]
  split
  · rename_i hj
    right
    have hp : st.prev ≠ '-' := by
      intro hp
      simp [hp] at hj
    have hc := h hp
    refine ⟨st.done.reverse, st.cur.reverse, ?_, ?_⟩
    · cases hcur : st.cur with
      | nil => exact absurd hcur hc
      | cons b r => simp [out, hcur]
    · simp [out]
  · left
    cases hcur : st.cur with
    | nil => simp [out, hcur]
    | cons b r => simp [out, hcur]

theorem clUax_snocSeg (cls : Nat → Char) : SnocSeg (clUax cls) where
  nil := rfl
  snoc := by
    intro x a
    rw [clUax_eq, clUax_eq, List.foldl_append]
    exact out_step cls _ a (inv_fold cls x {} inv_init)

end VaxisModel.Lemmas.Uax29Seg
