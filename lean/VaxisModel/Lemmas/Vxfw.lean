import VaxisModel.Model.Vxfw
import VaxisModel.Spec.Routing

/-! Helper lemmas for C15 (routing). -/
namespace VaxisModel.Lemmas.Vxfw
open VaxisModel.Model.Vxfw VaxisModel.Spec.Routing

/-- Events that `handleEvent` / `mouseHandler.handleEvent` dispatch: everything except the two
focus notifications that `focusWidget` itself sends. -/
def Routable (ev : Ev) : Prop := ev ≠ .focusIn ∧ ev ≠ .focusOut

theorem focusAfter_append (f : Id) (a b : List Entry) :
    focusAfter f (a ++ b) = focusAfter (focusAfter f a) b := by
  induction a generalizing f with
  | nil => rfl
  | cons e r ih =>
    cases e with
    | call w ev ph => simpa [focusAfter] using ih f
    | draw => simpa [focusAfter] using ih f
    | eff x => cases x <;> simpa [focusAfter] using ih _

/-- `s'` extends `s` by entries that are not offers of `ev`, with `consume` / `focused` tracked
by the trace and everything the routing reads left alone. -/
structure Ext (ev : Ev) (s s' : St) : Prop where
  ex : ∃ t, s'.trace = s.trace ++ t ∧ (∀ e ∈ t, isRouted ev e = false) ∧
        s'.consume = (s.consume || t.contains (.eff .consume)) ∧
        s'.focused = focusAfter s.focused t
  path : s'.path = s.path
  root : s'.root = s.root
  lastFrame : s'.lastFrame = s.lastFrame
  lastHits : s'.lastHits = s.lastHits
  mouse : s'.mouse = s.mouse

theorem Ext.refl (ev : Ev) (s : St) : Ext ev s s :=
  ⟨⟨[], by simp, by simp, by simp, rfl⟩, rfl, rfl, rfl, rfl, rfl⟩

theorem Ext.trans {ev : Ev} {a b c : St} (h1 : Ext ev a b) (h2 : Ext ev b c) : Ext ev a c := by
  obtain ⟨⟨t1, ht1, q1, c1, f1⟩, p1, r1, l1, lh1, m1⟩ := h1
  obtain ⟨⟨t2, ht2, q2, c2, f2⟩, p2, r2, l2, lh2, m2⟩ := h2
  refine ⟨⟨t1 ++ t2, ?_, ?_, ?_, ?_⟩, p2.trans p1, r2.trans r1, l2.trans l1, lh2.trans lh1, m2.trans m1⟩
  · rw [ht2, ht1, List.append_assoc]
  · intro e he
    rcases List.mem_append.mp he with h | h
    · exact q1 e h
    · exact q2 e h
  · rw [c2, c1, List.contains_append, Bool.or_assoc]
  · rw [f2, f1, focusAfter_append]

/-- Appending one quiet entry that is neither `consume` nor a `focusSet`. -/
theorem Ext.stuck (ev : Ev) (s : St) : Ext ev s { s with stuck := true } :=
  ⟨⟨[], by simp, by simp, by simp, rfl⟩, rfl, rfl, rfl, rfl, rfl⟩

theorem Ext.call (o : Oracle) {ev : Ev} (s : St) (w : Id) (e : Ev) (ph : Phase) (hne : e ≠ ev) :
    Ext ev s (call o s w e ph).1 := by
  refine ⟨⟨[.call w e ph], rfl, ?_, ?_, ?_⟩, rfl, rfl, rfl, rfl, rfl⟩
  · intro x hx
    simp only [List.mem_singleton] at hx
    subst hx
    simp [isRouted, hne]
  · simp [Model.Vxfw.call]
  · simp [Model.Vxfw.call, focusAfter]

theorem ext_execAtom {ev : Ev} (hev : Routable ev) (o : Oracle) (hc : St → Cmd → St)
    (hhc : ∀ s c, Ext ev s (hc s c)) (s : St) (a : Atom) : Ext ev s (execAtom hc o s a) := by
  cases a with
  | redraw => exact ⟨⟨[.eff .redraw], rfl, by simp [isRouted], by simp [execAtom], by simp [execAtom, focusAfter]⟩, rfl, rfl, rfl, rfl, rfl⟩
  | refresh => exact ⟨⟨[.eff .refresh], rfl, by simp [isRouted], by simp [execAtom], by simp [execAtom, focusAfter]⟩, rfl, rfl, rfl, rfl, rfl⟩
  | quit => exact ⟨⟨[.eff .quit], rfl, by simp [isRouted], by simp [execAtom], by simp [execAtom, focusAfter]⟩, rfl, rfl, rfl, rfl, rfl⟩
  | consume => exact ⟨⟨[.eff .consume], rfl, by simp [isRouted], by simp [execAtom], by simp [execAtom, focusAfter]⟩, rfl, rfl, rfl, rfl, rfl⟩
  | debug => exact ⟨⟨[.eff .debug], rfl, by simp [isRouted], by simp [execAtom], by simp [execAtom, focusAfter]⟩, rfl, rfl, rfl, rfl, rfl⟩
  | other k => exact ⟨⟨[.eff (.other k)], rfl, by simp [isRouted], by simp [execAtom], by simp [execAtom, focusAfter]⟩, rfl, rfl, rfl, rfl, rfl⟩
  | focus w =>
    simp only [execAtom, focusWidgetWith]
    split
    · exact Ext.refl ev s
    · have h1 := Ext.call o (ev := ev) s s.focused .focusOut .target (Ne.symm hev.2)
      have h2 := hhc (Model.Vxfw.call o s s.focused .focusOut .target).1 (Model.Vxfw.call o s s.focused .focusOut .target).2
      have h12 := h1.trans h2
      generalize hc (Model.Vxfw.call o s s.focused .focusOut .target).1 (Model.Vxfw.call o s s.focused .focusOut .target).2 = s2 at h12 ⊢
      have h3 : Ext ev s2 { s2 with focused := w, trace := s2.trace ++ [.eff (.focusSet w)] } :=
        ⟨⟨[.eff (.focusSet w)], rfl, by simp [isRouted], by simp, by simp [focusAfter]⟩, rfl, rfl, rfl, rfl, rfl⟩
      have h13 := h12.trans h3
      generalize ({ s2 with focused := w, trace := s2.trace ++ [.eff (.focusSet w)] } : St) = s3 at h13 ⊢
      have h4 := Ext.call o (ev := ev) s3 w .focusIn .target (Ne.symm hev.1)
      exact (h13.trans h4).trans (hhc _ _)

theorem ext_foldl_atoms {ev : Ev} (hev : Routable ev) (o : Oracle) (hc : St → Cmd → St)
    (hhc : ∀ s c, Ext ev s (hc s c)) (l : List Atom) (s : St) :
    Ext ev s (l.foldl (execAtom hc o) s) := by
  induction l generalizing s with
  | nil => exact Ext.refl ev s
  | cons a r ih => exact (ext_execAtom hev o hc hhc s a).trans (ih _)

theorem ext_handleCommand {ev : Ev} (hev : Routable ev) (o : Oracle) (fuel : Nat) (s : St) (c : Cmd) :
    Ext ev s (handleCommand o fuel s c) := by
  induction fuel generalizing s c with
  | zero => exact Ext.stuck ev s
  | succ n ih => exact ext_foldl_atoms hev o _ ih _ s


/-! ### dispatch -/

/-- `rest` is empty or starts with an offer of `ev`. -/
def HeadRouted (ev : Ev) (rest : List Entry) : Prop :=
  rest = [] ∨ ∃ e r, rest = e :: r ∧ isRouted ev e = true

theorem HeadRouted.append {ev : Ev} {a b : List Entry} (ha : HeadRouted ev a) (hb : HeadRouted ev b) :
    HeadRouted ev (a ++ b) := by
  rcases ha with rfl | ⟨e, r, rfl, he⟩
  · simpa using hb
  · exact Or.inr ⟨e, r ++ b, rfl, he⟩

theorem takeWhile_quiet {ev : Ev} {t rest : List Entry} (q : ∀ e ∈ t, isRouted ev e = false)
    (hr : HeadRouted ev rest) :
    (t ++ rest).takeWhile (fun x => !isRouted ev x) = t ∧
    (t ++ rest).dropWhile (fun x => !isRouted ev x) = rest := by
  induction t with
  | nil =>
    rcases hr with rfl | ⟨e, r, rfl, he⟩
    · simp
    · simp [he]
  | cons a r ih =>
    have ha : isRouted ev a = false := q a (by simp)
    have ih' := ih (fun e he => q e (by simp [he]))
    simp [ha, ih'.1, ih'.2]

theorem conforms_step (ev : Ev) (f : Id) (item : PlanItem) (plan : List PlanItem)
    (t rest : List Entry) (q : ∀ e ∈ t, isRouted ev e = false) (hr : HeadRouted ev rest) :
    conforms ev f (item :: plan) (item.want ev f :: (t ++ rest)) =
      (if t.contains (.eff .consume) then rest.isEmpty else conforms ev (focusAfter f t) plan rest) := by
  have h := takeWhile_quiet q hr
  simp only [conforms, h.1, h.2, beq_self_eq_true, Bool.true_and]

/-- What one offer does. -/
theorem offer_spec {ev : Ev} (hev : Routable ev) (o : Oracle) (fuel : Nat) (s : St) (w : Id) (ph : Phase)
    (hc : s.consume = false) :
    ∃ t, (∀ e ∈ t, isRouted ev e = false) ∧
      (offer o fuel s w ev ph).1.trace = s.trace ++ (.call w ev ph :: t) ∧
      (offer o fuel s w ev ph).2 = t.contains (.eff .consume) ∧
      (offer o fuel s w ev ph).1.consume = false ∧
      (offer o fuel s w ev ph).1.focused = focusAfter s.focused t ∧
      (offer o fuel s w ev ph).1.path = s.path ∧
      (offer o fuel s w ev ph).1.lastHits = s.lastHits := by
  have h := ext_handleCommand hev o fuel (Model.Vxfw.call o s w ev ph).1 (Model.Vxfw.call o s w ev ph).2
  obtain ⟨⟨t, ht, q, c, f⟩, p, _, _, lh, _⟩ := h
  refine ⟨t, q, ?_⟩
  simp only [offer]
  have hc' : (Model.Vxfw.call o s w ev ph).1.consume = false := by simpa [Model.Vxfw.call] using hc
  rw [hc', Bool.false_or] at c
  have htr : (Model.Vxfw.call o s w ev ph).1.trace = s.trace ++ [.call w ev ph] := rfl
  have hf : (Model.Vxfw.call o s w ev ph).1.focused = s.focused := rfl
  have hp : (Model.Vxfw.call o s w ev ph).1.path = s.path := rfl
  have hl : (Model.Vxfw.call o s w ev ph).1.lastHits = s.lastHits := rfl
  rw [htr] at ht; rw [hf] at f; rw [hp] at p; rw [hl] at lh
  generalize handleCommand o fuel (Model.Vxfw.call o s w ev ph).1 (Model.Vxfw.call o s w ev ph).2 = s2 at *
  split
  · rename_i hcons
    refine ⟨by simp [ht], ?_, rfl, f, p, lh⟩
    rw [← c, hcons]
  · rename_i hcons
    have hcf : s2.consume = false := by simpa using hcons
    refine ⟨by simp [ht], ?_, hcf, f, p, lh⟩
    rw [← c, hcf]

theorem capture_spec {ev : Ev} (hev : Routable ev) (o : Oracle) (fuel : Nat) (ws : List Id) (s : St)
    (hc : s.consume = false) :
    ∃ t, (capturePhase o fuel ev ws s).1.trace = s.trace ++ t ∧
      (capturePhase o fuel ev ws s).1.consume = false ∧
      (capturePhase o fuel ev ws s).1.path = s.path ∧
      (capturePhase o fuel ev ws s).1.lastHits = s.lastHits ∧
      HeadRouted ev t ∧
      ∀ more,
        ((capturePhase o fuel ev ws s).2 = true →
          conforms ev s.focused ((ws.filter o.captures).map .cap ++ more) t = true) ∧
        ((capturePhase o fuel ev ws s).2 = false → ∀ rest, HeadRouted ev rest →
          conforms ev s.focused ((ws.filter o.captures).map .cap ++ more) (t ++ rest) =
            conforms ev (capturePhase o fuel ev ws s).1.focused more rest) := by
  induction ws generalizing s with
  | nil =>
    refine ⟨[], by simp [capturePhase], by simpa [capturePhase] using hc, rfl, rfl, Or.inl rfl, ?_⟩
    intro more
    simp [capturePhase]
  | cons w ws ih =>
    by_cases hcap : o.captures w = true
    · obtain ⟨t1, q1, tr1, b1, c1, f1, p1, l1⟩ := offer_spec hev o fuel s w .capture hc
      by_cases hb : (offer o fuel s w ev .capture).2 = true
      · have hcp : capturePhase o fuel ev (w :: ws) s = offer o fuel s w ev .capture := by
          simp [capturePhase, hcap, hb]
        rw [hcp]
        refine ⟨.call w ev .capture :: t1, tr1, c1, p1, l1, Or.inr ⟨_, _, rfl, by simp [isRouted]⟩, ?_⟩
        intro more
        refine ⟨fun _ => ?_, fun h => by rw [hb] at h; cases h⟩
        have := conforms_step ev s.focused (.cap w) ((ws.filter o.captures).map .cap ++ more) t1 [] q1 (Or.inl rfl)
        simp only [List.append_nil] at this
        simp only [List.filter_cons, hcap, if_true, List.map_cons, List.cons_append]
        rw [show PlanItem.want ev s.focused (.cap w) = .call w ev .capture from rfl] at this
        rw [this, ← b1, hb]; rfl
      · have hbf : (offer o fuel s w ev .capture).2 = false := by simpa using hb
        have hcp : capturePhase o fuel ev (w :: ws) s = capturePhase o fuel ev ws (offer o fuel s w ev .capture).1 := by
          simp [capturePhase, hcap, hbf]
        rw [hcp]
        obtain ⟨t2, tr2, c2, p2, l2, hr2, sp2⟩ := ih (offer o fuel s w ev .capture).1 c1
        refine ⟨.call w ev .capture :: (t1 ++ t2), ?_, c2, p2.trans p1, l2.trans l1,
          Or.inr ⟨_, _, rfl, by simp [isRouted]⟩, ?_⟩
        · rw [tr2, tr1]; simp
        intro more
        have hnc : t1.contains (.eff .consume) = false := by rw [← b1, hbf]
        simp only [List.filter_cons, hcap, if_true, List.map_cons, List.cons_append]
        constructor
        · intro hfin
          have := conforms_step ev s.focused (.cap w) ((ws.filter o.captures).map .cap ++ more) t1 t2 q1 hr2
          rw [show PlanItem.want ev s.focused (.cap w) = .call w ev .capture from rfl] at this
          rw [this, hnc, ← f1]
          simpa using (sp2 more).1 hfin
        · intro hfin rest hrest
          have := conforms_step ev s.focused (.cap w) ((ws.filter o.captures).map .cap ++ more) t1 (t2 ++ rest) q1
            (hr2.append hrest)
          rw [show PlanItem.want ev s.focused (.cap w) = .call w ev .capture from rfl] at this
          rw [List.append_assoc, this, hnc, ← f1]
          simpa using (sp2 more).2 hfin rest hrest
    · have hcf : o.captures w = false := by simpa using hcap
      have hcp : capturePhase o fuel ev (w :: ws) s = capturePhase o fuel ev ws s := by
        simp [capturePhase, hcf]
      rw [hcp]
      obtain ⟨t2, tr2, c2, p2, l2, hr2, sp2⟩ := ih s hc
      refine ⟨t2, tr2, c2, p2, l2, hr2, ?_⟩
      intro more
      simpa [List.filter_cons, hcf] using sp2 more

theorem bubble_spec {ev : Ev} (hev : Routable ev) (o : Oracle) (fuel : Nat) (ws : List Id) (s : St)
    (hc : s.consume = false) :
    ∃ t, (bubblePhase o fuel ev ws s).trace = s.trace ++ t ∧
      (bubblePhase o fuel ev ws s).path = s.path ∧
      (bubblePhase o fuel ev ws s).lastHits = s.lastHits ∧
      (bubblePhase o fuel ev ws s).consume = false ∧
      HeadRouted ev t ∧
      conforms ev s.focused (ws.map .bub) t = true := by
  induction ws generalizing s with
  | nil => exact ⟨[], by simp [bubblePhase], rfl, rfl, by simpa [bubblePhase] using hc, Or.inl rfl, by simp [conforms]⟩
  | cons w ws ih =>
    obtain ⟨t1, q1, tr1, b1, c1, f1, p1, l1⟩ := offer_spec hev o fuel s w .bubble hc
    by_cases hb : (offer o fuel s w ev .bubble).2 = true
    · have hbp : bubblePhase o fuel ev (w :: ws) s = (offer o fuel s w ev .bubble).1 := by
        simp [bubblePhase, hb]
      rw [hbp]
      refine ⟨.call w ev .bubble :: t1, tr1, p1, l1, c1, Or.inr ⟨_, _, rfl, by simp [isRouted]⟩, ?_⟩
      have := conforms_step ev s.focused (.bub w) (ws.map .bub) t1 [] q1 (Or.inl rfl)
      simp only [List.append_nil] at this
      rw [show PlanItem.want ev s.focused (.bub w) = .call w ev .bubble from rfl] at this
      simp only [List.map_cons]
      rw [this, ← b1, hb]; rfl
    · have hbf : (offer o fuel s w ev .bubble).2 = false := by simpa using hb
      have hbp : bubblePhase o fuel ev (w :: ws) s = bubblePhase o fuel ev ws (offer o fuel s w ev .bubble).1 := by
        simp [bubblePhase, hbf]
      rw [hbp]
      obtain ⟨t2, tr2, p2, l2, c2, hr2, sp2⟩ := ih (offer o fuel s w ev .bubble).1 c1
      refine ⟨.call w ev .bubble :: (t1 ++ t2), ?_, p2.trans p1, l2.trans l1, c2,
        Or.inr ⟨_, _, rfl, by simp [isRouted]⟩, ?_⟩
      · rw [tr2, tr1]; simp
      have hnc : t1.contains (.eff .consume) = false := by rw [← b1, hbf]
      have := conforms_step ev s.focused (.bub w) (ws.map .bub) t1 t2 q1 hr2
      rw [show PlanItem.want ev s.focused (.bub w) = .call w ev .bubble from rfl] at this
      simp only [List.map_cons]
      rw [this, hnc, ← f1]
      simpa using sp2

/-- The three-phase dispatch follows `planOf`. -/
theorem dispatch_conforms {ev : Ev} (hev : Routable ev) (o : Oracle) (fuel : Nat) (chain : List Id)
    (tgt : St → Id) (item : PlanItem)
    (hitem : ∀ s : St, item.want ev s.focused = .call (tgt s) ev .target) (s : St) :
    ∃ t, (dispatch o fuel chain tgt ev s).trace = s.trace ++ t ∧
      (dispatch o fuel chain tgt ev s).path = s.path ∧
      (dispatch o fuel chain tgt ev s).lastHits = s.lastHits ∧
      (dispatch o fuel chain tgt ev s).consume = false ∧
      conforms ev s.focused (planOf o.captures chain item) t = true := by
  have hc0 : ({ s with consume := false } : St).consume = false := rfl
  obtain ⟨tc, trc, cc, pc, lc, hrc, spc⟩ := capture_spec hev o fuel chain { s with consume := false } hc0
  have spc' := spc ([item] ++ chain.dropLast.reverse.map .bub)
  simp only [dispatch]
  by_cases hb : (capturePhase o fuel ev chain { s with consume := false }).2 = true
  · rw [if_pos hb]
    refine ⟨tc, trc, pc, lc, cc, ?_⟩
    simpa [planOf, List.append_assoc] using spc'.1 hb
  · have hbf : (capturePhase o fuel ev chain { s with consume := false }).2 = false := by simpa using hb
    rw [if_neg hb]
    generalize capturePhase o fuel ev chain { s with consume := false } = r at *
    obtain ⟨t1, q1, tr1, b1, c1, f1, p1, l1⟩ := offer_spec hev o fuel r.1 (tgt r.1) .target cc
    have hwant := hitem r.1
    by_cases hb2 : (offer o fuel r.1 (tgt r.1) ev .target).2 = true
    · rw [if_pos hb2]
      refine ⟨tc ++ (.call (tgt r.1) ev .target :: t1), ?_, p1.trans pc, l1.trans lc, c1, ?_⟩
      · rw [tr1, trc]; simp
      have h2 := spc'.2 hbf (.call (tgt r.1) ev .target :: t1) (Or.inr ⟨_, _, rfl, by simp [isRouted]⟩)
      have h3 := conforms_step ev r.1.focused item (chain.dropLast.reverse.map .bub) t1 [] q1 (Or.inl rfl)
      rw [hwant] at h3
      simp only [List.append_nil] at h3
      simp only [planOf, List.append_assoc]
      dsimp only at h2 ⊢
      rw [h2]
      simp only [List.singleton_append]
      rw [h3, ← b1, hb2]; rfl
    · have hbf2 : (offer o fuel r.1 (tgt r.1) ev .target).2 = false := by simpa using hb2
      rw [if_neg hb2]
      obtain ⟨t2, tr2, p2, l2, c2, hr2, sp2⟩ := bubble_spec hev o fuel chain.dropLast.reverse
        (offer o fuel r.1 (tgt r.1) ev .target).1 c1
      refine ⟨tc ++ (.call (tgt r.1) ev .target :: (t1 ++ t2)), ?_, (p2.trans p1).trans pc,
        (l2.trans l1).trans lc, c2, ?_⟩
      · rw [tr2, tr1, trc]; simp
      have h2 := spc'.2 hbf (.call (tgt r.1) ev .target :: (t1 ++ t2)) (Or.inr ⟨_, _, rfl, by simp [isRouted]⟩)
      have h3 := conforms_step ev r.1.focused item (chain.dropLast.reverse.map .bub) t1 t2 q1 hr2
      rw [hwant] at h3
      have hnc : t1.contains (.eff .consume) = false := by rw [← b1, hbf2]
      simp only [planOf, List.append_assoc]
      dsimp only at h2 ⊢
      rw [h2]
      simp only [List.singleton_append]
      rw [h3, hnc, ← f1]
      simpa using sp2

end VaxisModel.Lemmas.Vxfw
