import VaxisModel.Model.Vxfw
import VaxisModel.Spec.Routing

/-! Helper lemmas for C15 (routing). -/
namespace VaxisModel.Lemmas.Vxfw
open VaxisModel.Model.Vxfw VaxisModel.Spec.Routing

/-- Events that `handleEvent` / `mouseHandler.handleEvent` dispatch: everything except the two
focus notifications that `focusWidget` itself sends. -/
def Routable (ev : Ev) : Prop := ev ≠ .focusIn ∧ ev ≠ .focusOut

theorem focusAfter_append (f : Id) (a b : List Entry) :
    focusAfter f (a ++ b) = focusAfter (focusAfter f a) b := by
  induction a generalizing f with
  | nil => rfl
  | cons e r ih =>
    cases e with
    | call w ev ph => simpa [focusAfter] using ih f
    | draw => simpa [focusAfter] using ih f
    | eff x => cases x <;> simpa [focusAfter] using ih _

mutual
theorem chf_eq (f : Id) : (t : STree) → childHasFocus f t = (chain f t).map List.reverse
  | .node i w h ch => by
    simp only [childHasFocus, chain]
    split
    · simp
    · rw [chfL_eq f ch]
      cases chainL f ch <;> simp
theorem chfL_eq (f : Id) : (l : List Kid) → childHasFocusL f l = (chainL f l).map List.reverse
  | [] => by simp [childHasFocusL, chainL]
  | (c, r, z, t) :: rest => by
    simp only [childHasFocusL, chainL]
    rw [chf_eq f t, chfL_eq f rest]
    cases chain f t <;> simp
end

mutual
theorem chain_ne_nil (f : Id) : (t : STree) → ∀ p, chain f t = some p → p ≠ []
  | .node i w h ch => by
    intro p hp
    simp only [chain] at hp
    split at hp
    · cases hp; simp
    · cases hc : chainL f ch with
      | none => simp [hc] at hp
      | some q => simp [hc] at hp; subst hp; simp
theorem chainL_ne_nil (f : Id) : (l : List Kid) → ∀ p, chainL f l = some p → p ≠ []
  | [] => by intro p hp; simp [chainL] at hp
  | (c, r, z, t) :: rest => by
    intro p hp
    simp only [chainL] at hp
    cases hc : chain f t with
    | none => rw [hc] at hp; exact chainL_ne_nil f rest p hp
    | some q => rw [hc] at hp; cases hp; exact chain_ne_nil f t _ hc
end

/-- `findPath` computes the drawn path. -/
theorem foundPath_eq (s : St) : foundPath s = drawnPath s := by
  unfold foundPath drawnPath frameHasFocus frameRootIsRoot
  cases hf : s.fhFrame with
  | none => simp
  | some t =>
    simp only [chf_eq, expectedPath]
    cases hc : chain s.focused t with
    | none => simp
    | some q =>
      have hne := chain_ne_nil _ _ _ hc
      cases q with
      | nil => exact absurd rfl hne
      | cons a r =>
        by_cases hr : s.root = t.id
        · simp [hr]
        · simp [hr]

/-- The path is the drawn chain of the focused widget (`[root]` if it is not drawn). -/
def PathInv (s : St) : Prop := s.path = drawnPath s

theorem drawnPath_congr {s s' : St} (h1 : s'.fhFrame = s.fhFrame) (h2 : s'.root = s.root)
    (h3 : s'.focused = s.focused) : drawnPath s' = drawnPath s := by
  simp only [drawnPath, h1, h2, h3]

theorem pathInv_findPath (s : St) : PathInv (findPath s).1 := by
  have h := foundPath_eq s
  simp only [PathInv, findPath]
  rw [h]
  exact (drawnPath_congr rfl rfl rfl).symm

/-- `s'` extends `s` by entries that are not offers of `ev`, with `consume` / `focused` tracked
by the trace and everything the routing reads left alone. -/
structure Ext (ev : Ev) (s s' : St) : Prop where
  ex : ∃ t, s'.trace = s.trace ++ t ∧ (∀ e ∈ t, isRouted ev e = false) ∧
        s'.consume = (s.consume || t.contains (.eff .consume)) ∧
        s'.focused = focusAfter s.focused t
  fhFrame : s'.fhFrame = s.fhFrame
  root : s'.root = s.root
  lastFrame : s'.lastFrame = s.lastFrame
  lastHits : s'.lastHits = s.lastHits
  mouse : s'.mouse = s.mouse
  pinv : PathInv s → PathInv s'

theorem Ext.refl (ev : Ev) (s : St) : Ext ev s s :=
  ⟨⟨[], by simp, by simp, by simp, rfl⟩, rfl, rfl, rfl, rfl, rfl, id⟩

theorem Ext.trans {ev : Ev} {a b c : St} (h1 : Ext ev a b) (h2 : Ext ev b c) : Ext ev a c := by
  obtain ⟨⟨t1, ht1, q1, c1, f1⟩, p1, r1, l1, lh1, m1, i1⟩ := h1
  obtain ⟨⟨t2, ht2, q2, c2, f2⟩, p2, r2, l2, lh2, m2, i2⟩ := h2
  refine ⟨⟨t1 ++ t2, ?_, ?_, ?_, ?_⟩, p2.trans p1, r2.trans r1, l2.trans l1, lh2.trans lh1, m2.trans m1,
    fun h => i2 (i1 h)⟩
  · rw [ht2, ht1, List.append_assoc]
  · intro e he
    rcases List.mem_append.mp he with h | h
    · exact q1 e h
    · exact q2 e h
  · rw [c2, c1, List.contains_append, Bool.or_assoc]
  · rw [f2, f1, focusAfter_append]

/-- A state change that leaves everything the path depends on alone keeps `PathInv`. -/
theorem PathInv.congr {s s' : St} (hp : s'.path = s.path) (h1 : s'.fhFrame = s.fhFrame)
    (h2 : s'.root = s.root) (h3 : s'.focused = s.focused) (h : PathInv s) : PathInv s' := by
  unfold PathInv at *
  rw [hp, h, drawnPath_congr h1 h2 h3]

/-- Appending one quiet entry that is neither `consume` nor a `focusSet`. -/
theorem Ext.stuck (ev : Ev) (s : St) : Ext ev s { s with stuck := true } :=
  ⟨⟨[], by simp, by simp, by simp, rfl⟩, rfl, rfl, rfl, rfl, rfl, PathInv.congr rfl rfl rfl rfl⟩

theorem Ext.call (o : Oracle) {ev : Ev} (s : St) (w : Id) (e : Ev) (ph : Phase) (hne : e ≠ ev) :
    Ext ev s (call o s w e ph).1 := by
  refine ⟨⟨[.call w e ph], rfl, ?_, ?_, ?_⟩, rfl, rfl, rfl, rfl, rfl, PathInv.congr rfl rfl rfl rfl⟩
  · intro x hx
    simp only [List.mem_singleton] at hx
    subst hx
    simp [isRouted, hne]
  · simp [Model.Vxfw.call]
  · simp [Model.Vxfw.call, focusAfter]

/-- The assignment `f.focused = w; f.findPath()` in `focusWidget`. -/
theorem Ext.setFocus (ev : Ev) (s : St) (w : Id) :
    Ext ev s (findPath { s with focused := w, trace := s.trace ++ [.eff (.focusSet w)] }).1 :=
  ⟨⟨[.eff (.focusSet w)], rfl, by simp [isRouted], by simp [findPath], by simp [findPath, focusAfter]⟩,
    rfl, rfl, rfl, rfl, rfl, fun _ => pathInv_findPath _⟩

theorem ext_execAtom {ev : Ev} (hev : Routable ev) (o : Oracle) (hc : St → Cmd → St)
    (hhc : ∀ s c, Ext ev s (hc s c)) (s : St) (a : Atom) : Ext ev s (execAtom hc o s a) := by
  cases a with
  | redraw => exact ⟨⟨[.eff .redraw], rfl, by simp [isRouted], by simp [execAtom], by simp [execAtom, focusAfter]⟩, rfl, rfl, rfl, rfl, rfl, PathInv.congr rfl rfl rfl rfl⟩
  | refresh => exact ⟨⟨[.eff .refresh], rfl, by simp [isRouted], by simp [execAtom], by simp [execAtom, focusAfter]⟩, rfl, rfl, rfl, rfl, rfl, PathInv.congr rfl rfl rfl rfl⟩
  | quit => exact ⟨⟨[.eff .quit], rfl, by simp [isRouted], by simp [execAtom], by simp [execAtom, focusAfter]⟩, rfl, rfl, rfl, rfl, rfl, PathInv.congr rfl rfl rfl rfl⟩
  | consume => exact ⟨⟨[.eff .consume], rfl, by simp [isRouted], by simp [execAtom], by simp [execAtom, focusAfter]⟩, rfl, rfl, rfl, rfl, rfl, PathInv.congr rfl rfl rfl rfl⟩
  | debug => exact ⟨⟨[.eff .debug], rfl, by simp [isRouted], by simp [execAtom], by simp [execAtom, focusAfter]⟩, rfl, rfl, rfl, rfl, rfl, PathInv.congr rfl rfl rfl rfl⟩
  | other k => exact ⟨⟨[.eff (.other k)], rfl, by simp [isRouted], by simp [execAtom], by simp [execAtom, focusAfter]⟩, rfl, rfl, rfl, rfl, rfl, PathInv.congr rfl rfl rfl rfl⟩
  | focus w =>
    simp only [execAtom, focusWidgetWith]
    split
    · exact Ext.refl ev s
    · have h1 := Ext.call o (ev := ev) s s.focused .focusOut .target (Ne.symm hev.2)
      generalize hr1 : Model.Vxfw.call o s s.focused .focusOut .target = r1 at h1 ⊢
      have h2 := Ext.setFocus ev r1.1 w
      have h12 := h1.trans h2
      generalize (findPath { r1.1 with focused := w, trace := r1.1.trace ++ [.eff (.focusSet w)] }).1 = s2 at h12 ⊢
      have h3 := Ext.call o (ev := ev) s2 w .focusIn .target (Ne.symm hev.1)
      exact ((h12.trans h3).trans (hhc _ _)).trans (hhc _ _)

theorem ext_foldl_atoms {ev : Ev} (hev : Routable ev) (o : Oracle) (hc : St → Cmd → St)
    (hhc : ∀ s c, Ext ev s (hc s c)) (l : List Atom) (s : St) :
    Ext ev s (l.foldl (execAtom hc o) s) := by
  induction l generalizing s with
  | nil => exact Ext.refl ev s
  | cons a r ih => exact (ext_execAtom hev o hc hhc s a).trans (ih _)

theorem ext_handleCommand {ev : Ev} (hev : Routable ev) (o : Oracle) (fuel : Nat) (s : St) (c : Cmd) :
    Ext ev s (handleCommand o fuel s c) := by
  induction fuel generalizing s c with
  | zero => exact Ext.stuck ev s
  | succ n ih => exact ext_foldl_atoms hev o _ ih _ s


/-! ### dispatch -/

/-- `rest` is empty or starts with an offer of `ev`. -/
def HeadRouted (ev : Ev) (rest : List Entry) : Prop :=
  rest = [] ∨ ∃ e r, rest = e :: r ∧ isRouted ev e = true

theorem HeadRouted.append {ev : Ev} {a b : List Entry} (ha : HeadRouted ev a) (hb : HeadRouted ev b) :
    HeadRouted ev (a ++ b) := by
  rcases ha with rfl | ⟨e, r, rfl, he⟩
  · simpa using hb
  · exact Or.inr ⟨e, r ++ b, rfl, he⟩

theorem takeWhile_quiet {ev : Ev} {t rest : List Entry} (q : ∀ e ∈ t, isRouted ev e = false)
    (hr : HeadRouted ev rest) :
    (t ++ rest).takeWhile (fun x => !isRouted ev x) = t ∧
    (t ++ rest).dropWhile (fun x => !isRouted ev x) = rest := by
  induction t with
  | nil =>
    rcases hr with rfl | ⟨e, r, rfl, he⟩
    · simp
    · simp [he]
  | cons a r ih =>
    have ha : isRouted ev a = false := q a (by simp)
    have ih' := ih (fun e he => q e (by simp [he]))
    simp [ha, ih'.1, ih'.2]

theorem conforms_step (ev : Ev) (f : Id) (item : PlanItem) (plan : List PlanItem)
    (t rest : List Entry) (q : ∀ e ∈ t, isRouted ev e = false) (hr : HeadRouted ev rest) :
    conforms ev f (item :: plan) (item.want ev f :: (t ++ rest)) =
      (if t.contains (.eff .consume) then rest.isEmpty else conforms ev (focusAfter f t) plan rest) := by
  have h := takeWhile_quiet q hr
  simp only [conforms, h.1, h.2, beq_self_eq_true, Bool.true_and]

/-- What one offer does. -/
theorem offer_spec {ev : Ev} (hev : Routable ev) (o : Oracle) (fuel : Nat) (s : St) (w : Id) (ph : Phase)
    (hc : s.consume = false) :
    ∃ t, (∀ e ∈ t, isRouted ev e = false) ∧
      (offer o fuel s w ev ph).1.trace = s.trace ++ (.call w ev ph :: t) ∧
      (offer o fuel s w ev ph).2 = t.contains (.eff .consume) ∧
      (offer o fuel s w ev ph).1.consume = false ∧
      (offer o fuel s w ev ph).1.focused = focusAfter s.focused t ∧
      (offer o fuel s w ev ph).1.lastHits = s.lastHits := by
  have h := ext_handleCommand hev o fuel (Model.Vxfw.call o s w ev ph).1 (Model.Vxfw.call o s w ev ph).2
  obtain ⟨⟨t, ht, q, c, f⟩, _, _, _, lh, _, _⟩ := h
  refine ⟨t, q, ?_⟩
  simp only [offer]
  have hc' : (Model.Vxfw.call o s w ev ph).1.consume = false := by simpa [Model.Vxfw.call] using hc
  rw [hc', Bool.false_or] at c
  have htr : (Model.Vxfw.call o s w ev ph).1.trace = s.trace ++ [.call w ev ph] := rfl
  have hf : (Model.Vxfw.call o s w ev ph).1.focused = s.focused := rfl
  have hl : (Model.Vxfw.call o s w ev ph).1.lastHits = s.lastHits := rfl
  rw [htr] at ht; rw [hf] at f; rw [hl] at lh
  generalize handleCommand o fuel (Model.Vxfw.call o s w ev ph).1 (Model.Vxfw.call o s w ev ph).2 = s2 at *
  split
  · rename_i hcons
    refine ⟨by simp [ht], ?_, rfl, f, lh⟩
    rw [← c, hcons]
  · rename_i hcons
    have hcf : s2.consume = false := by simpa using hcons
    refine ⟨by simp [ht], ?_, hcf, f, lh⟩
    rw [← c, hcf]

theorem capture_spec {ev : Ev} (hev : Routable ev) (o : Oracle) (fuel : Nat) (ws : List Id) (s : St)
    (hc : s.consume = false) :
    ∃ t, (capturePhase o fuel ev ws s).1.trace = s.trace ++ t ∧
      (capturePhase o fuel ev ws s).1.consume = false ∧
      (capturePhase o fuel ev ws s).1.lastHits = s.lastHits ∧
      HeadRouted ev t ∧
      ∀ more,
        ((capturePhase o fuel ev ws s).2 = true →
          conforms ev s.focused ((ws.filter o.captures).map .cap ++ more) t = true) ∧
        ((capturePhase o fuel ev ws s).2 = false → ∀ rest, HeadRouted ev rest →
          conforms ev s.focused ((ws.filter o.captures).map .cap ++ more) (t ++ rest) =
            conforms ev (capturePhase o fuel ev ws s).1.focused more rest) := by
  induction ws generalizing s with
  | nil =>
    refine ⟨[], by simp [capturePhase], by simpa [capturePhase] using hc, rfl, Or.inl rfl, ?_⟩
    intro more
    simp [capturePhase]
  | cons w ws ih =>
    by_cases hcap : o.captures w = true
    · obtain ⟨t1, q1, tr1, b1, c1, f1, l1⟩ := offer_spec hev o fuel s w .capture hc
      by_cases hb : (offer o fuel s w ev .capture).2 = true
      · have hcp : capturePhase o fuel ev (w :: ws) s = offer o fuel s w ev .capture := by
          simp [capturePhase, hcap, hb]
        rw [hcp]
        refine ⟨.call w ev .capture :: t1, tr1, c1, l1, Or.inr ⟨_, _, rfl, by simp [isRouted]⟩, ?_⟩
        intro more
        refine ⟨fun _ => ?_, fun h => by rw [hb] at h; cases h⟩
        have := conforms_step ev s.focused (.cap w) ((ws.filter o.captures).map .cap ++ more) t1 [] q1 (Or.inl rfl)
        simp only [List.append_nil] at this
        simp only [List.filter_cons, hcap, if_true, List.map_cons, List.cons_append]
        rw [show PlanItem.want ev s.focused (.cap w) = .call w ev .capture from rfl] at this
        rw [this, ← b1, hb]; rfl
      · have hbf : (offer o fuel s w ev .capture).2 = false := by simpa using hb
        have hcp : capturePhase o fuel ev (w :: ws) s = capturePhase o fuel ev ws (offer o fuel s w ev .capture).1 := by
          simp [capturePhase, hcap, hbf]
        rw [hcp]
        obtain ⟨t2, tr2, c2, l2, hr2, sp2⟩ := ih (offer o fuel s w ev .capture).1 c1
        refine ⟨.call w ev .capture :: (t1 ++ t2), ?_, c2, l2.trans l1,
          Or.inr ⟨_, _, rfl, by simp [isRouted]⟩, ?_⟩
        · rw [tr2, tr1]; simp
        intro more
        have hnc : t1.contains (.eff .consume) = false := by rw [← b1, hbf]
        simp only [List.filter_cons, hcap, if_true, List.map_cons, List.cons_append]
        constructor
        · intro hfin
          have := conforms_step ev s.focused (.cap w) ((ws.filter o.captures).map .cap ++ more) t1 t2 q1 hr2
          rw [show PlanItem.want ev s.focused (.cap w) = .call w ev .capture from rfl] at this
          rw [this, hnc, ← f1]
          simpa using (sp2 more).1 hfin
        · intro hfin rest hrest
          have := conforms_step ev s.focused (.cap w) ((ws.filter o.captures).map .cap ++ more) t1 (t2 ++ rest) q1
            (hr2.append hrest)
          rw [show PlanItem.want ev s.focused (.cap w) = .call w ev .capture from rfl] at this
          rw [List.append_assoc, this, hnc, ← f1]
          simpa using (sp2 more).2 hfin rest hrest
    · have hcf : o.captures w = false := by simpa using hcap
      have hcp : capturePhase o fuel ev (w :: ws) s = capturePhase o fuel ev ws s := by
        simp [capturePhase, hcf]
      rw [hcp]
      obtain ⟨t2, tr2, c2, l2, hr2, sp2⟩ := ih s hc
      refine ⟨t2, tr2, c2, l2, hr2, ?_⟩
      intro more
      simpa [List.filter_cons, hcf] using sp2 more

theorem bubble_spec {ev : Ev} (hev : Routable ev) (o : Oracle) (fuel : Nat) (ws : List Id) (s : St)
    (hc : s.consume = false) :
    ∃ t, (bubblePhase o fuel ev ws s).trace = s.trace ++ t ∧
      (bubblePhase o fuel ev ws s).lastHits = s.lastHits ∧
      (bubblePhase o fuel ev ws s).consume = false ∧
      HeadRouted ev t ∧
      conforms ev s.focused (ws.map .bub) t = true := by
  induction ws generalizing s with
  | nil => exact ⟨[], by simp [bubblePhase], rfl, by simpa [bubblePhase] using hc, Or.inl rfl, by simp [conforms]⟩
  | cons w ws ih =>
    obtain ⟨t1, q1, tr1, b1, c1, f1, l1⟩ := offer_spec hev o fuel s w .bubble hc
    by_cases hb : (offer o fuel s w ev .bubble).2 = true
    · have hbp : bubblePhase o fuel ev (w :: ws) s = (offer o fuel s w ev .bubble).1 := by
        simp [bubblePhase, hb]
      rw [hbp]
      refine ⟨.call w ev .bubble :: t1, tr1, l1, c1, Or.inr ⟨_, _, rfl, by simp [isRouted]⟩, ?_⟩
      have := conforms_step ev s.focused (.bub w) (ws.map .bub) t1 [] q1 (Or.inl rfl)
      simp only [List.append_nil] at this
      rw [show PlanItem.want ev s.focused (.bub w) = .call w ev .bubble from rfl] at this
      simp only [List.map_cons]
      rw [this, ← b1, hb]; rfl
    · have hbf : (offer o fuel s w ev .bubble).2 = false := by simpa using hb
      have hbp : bubblePhase o fuel ev (w :: ws) s = bubblePhase o fuel ev ws (offer o fuel s w ev .bubble).1 := by
        simp [bubblePhase, hbf]
      rw [hbp]
      obtain ⟨t2, tr2, l2, c2, hr2, sp2⟩ := ih (offer o fuel s w ev .bubble).1 c1
      refine ⟨.call w ev .bubble :: (t1 ++ t2), ?_, l2.trans l1, c2,
        Or.inr ⟨_, _, rfl, by simp [isRouted]⟩, ?_⟩
      · rw [tr2, tr1]; simp
      have hnc : t1.contains (.eff .consume) = false := by rw [← b1, hbf]
      have := conforms_step ev s.focused (.bub w) (ws.map .bub) t1 t2 q1 hr2
      rw [show PlanItem.want ev s.focused (.bub w) = .call w ev .bubble from rfl] at this
      simp only [List.map_cons]
      rw [this, hnc, ← f1]
      simpa using sp2

/-- The three-phase dispatch follows `planOf`. -/
theorem dispatch_conforms {ev : Ev} (hev : Routable ev) (o : Oracle) (fuel : Nat) (chain : List Id)
    (tgt : St → Id) (item : PlanItem)
    (hitem : ∀ s : St, item.want ev s.focused = .call (tgt s) ev .target) (s : St) :
    ∃ t, (dispatch o fuel chain tgt ev s).trace = s.trace ++ t ∧
      (dispatch o fuel chain tgt ev s).lastHits = s.lastHits ∧
      (dispatch o fuel chain tgt ev s).consume = false ∧
      conforms ev s.focused (planOf o.captures chain item) t = true := by
  have hc0 : ({ s with consume := false } : St).consume = false := rfl
  obtain ⟨tc, trc, cc, lc, hrc, spc⟩ := capture_spec hev o fuel chain { s with consume := false } hc0
  have spc' := spc ([item] ++ chain.dropLast.reverse.map .bub)
  simp only [dispatch]
  by_cases hb : (capturePhase o fuel ev chain { s with consume := false }).2 = true
  · rw [if_pos hb]
    refine ⟨tc, trc, lc, cc, ?_⟩
    simpa [planOf, List.append_assoc] using spc'.1 hb
  · have hbf : (capturePhase o fuel ev chain { s with consume := false }).2 = false := by simpa using hb
    rw [if_neg hb]
    generalize capturePhase o fuel ev chain { s with consume := false } = r at *
    obtain ⟨t1, q1, tr1, b1, c1, f1, l1⟩ := offer_spec hev o fuel r.1 (tgt r.1) .target cc
    have hwant := hitem r.1
    by_cases hb2 : (offer o fuel r.1 (tgt r.1) ev .target).2 = true
    · rw [if_pos hb2]
      refine ⟨tc ++ (.call (tgt r.1) ev .target :: t1), ?_, l1.trans lc, c1, ?_⟩
      · rw [tr1, trc]; simp
      have h2 := spc'.2 hbf (.call (tgt r.1) ev .target :: t1) (Or.inr ⟨_, _, rfl, by simp [isRouted]⟩)
      have h3 := conforms_step ev r.1.focused item (chain.dropLast.reverse.map .bub) t1 [] q1 (Or.inl rfl)
      rw [hwant] at h3
      simp only [List.append_nil] at h3
      simp only [planOf, List.append_assoc]
      dsimp only at h2 ⊢
      rw [h2]
      simp only [List.singleton_append]
      rw [h3, ← b1, hb2]; rfl
    · have hbf2 : (offer o fuel r.1 (tgt r.1) ev .target).2 = false := by simpa using hb2
      rw [if_neg hb2]
      obtain ⟨t2, tr2, l2, c2, hr2, sp2⟩ := bubble_spec hev o fuel chain.dropLast.reverse
        (offer o fuel r.1 (tgt r.1) ev .target).1 c1
      refine ⟨tc ++ (.call (tgt r.1) ev .target :: (t1 ++ t2)), ?_,
        (l2.trans l1).trans lc, c2, ?_⟩
      · rw [tr2, tr1, trc]; simp
      have h2 := spc'.2 hbf (.call (tgt r.1) ev .target :: (t1 ++ t2)) (Or.inr ⟨_, _, rfl, by simp [isRouted]⟩)
      have h3 := conforms_step ev r.1.focused item (chain.dropLast.reverse.map .bub) t1 t2 q1 hr2
      rw [hwant] at h3
      have hnc : t1.contains (.eff .consume) = false := by rw [← b1, hbf2]
      simp only [planOf, List.append_assoc]
      dsimp only at h2 ⊢
      rw [h2]
      simp only [List.singleton_append]
      rw [h3, hnc, ← f1]
      simpa using sp2

/-! ### updatePath -/

theorem focusWidget_ext {ev : Ev} (hev : Routable ev) (o : Oracle) (fuel : Nat) (s : St) (w : Id) :
    Ext ev s (focusWidget o fuel s w) := by
  cases fuel with
  | zero => exact Ext.stuck ev s
  | succ n =>
    have := ext_execAtom hev o (handleCommand o n) (fun s c => ext_handleCommand hev o n s c) s (.focus w)
    simpa [execAtom, focusWidget] using this

theorem frameHasFocus_some (s : St) (t : STree) :
    (frameHasFocus { s with fhFrame := some t }).isSome = (chain s.focused t).isSome := by
  simp [frameHasFocus, chf_eq]

theorem updatePath_found (o : Oracle) (fuel : Nat) (s : St) (t : STree) (p : List Id)
    (h : chain s.focused t = some p) :
    updatePath o fuel s t = { s with fhFrame := some t, path := expectedPath s.root t s.focused } := by
  have hf := frameHasFocus_some s t
  rw [h] at hf
  simp only [updatePath, findPath, hf, Option.isSome_some, if_true, foundPath_eq]
  rfl

theorem updatePath_notfound (o : Oracle) (fuel : Nat) (s : St) (t : STree)
    (h : chain s.focused t = none) :
    updatePath o fuel s t = focusWidget o fuel { s with fhFrame := some t, path := [s.root] } s.root := by
  have hf := frameHasFocus_some s t
  rw [h] at hf
  have hp : drawnPath { s with fhFrame := some t } = [s.root] := by
    simp [drawnPath, expectedPath, h]
  simp only [updatePath, findPath, hf, Option.isSome_none, foundPath_eq, hp]
  rfl

/-- After `updatePath` the path is the drawn chain of whatever is focused then. -/
theorem pathInv_updatePath (o : Oracle) (fuel : Nat) (s : St) (t : STree) :
    PathInv (updatePath o fuel s t) ∧ (updatePath o fuel s t).fhFrame = some t := by
  have h0 : PathInv (findPath { s with fhFrame := some t }).1 := pathInv_findPath _
  simp only [updatePath]
  split
  · exact ⟨h0, rfl⟩
  · have hx := focusWidget_ext (ev := .init) ⟨by simp, by simp⟩ o fuel
      (findPath { s with fhFrame := some t }).1 s.root
    exact ⟨hx.pinv h0, hx.fhFrame⟩


/-! ### commands without focus atoms; focus notifications -/

def NoFocusAtoms (c : Cmd) : Prop := ∀ a ∈ c.flatten, ∀ x, a ≠ Atom.focus x

/-- No widget answers a FocusOut notification with a (possibly nested) focus command. -/
def NoRefocusOnOut (o : Oracle) : Prop := ∀ w ph k, NoFocusAtoms (o.h w .focusOut ph k)

def effsOf (l : List Atom) : List Entry := (l.filterMap effOfAtom).map Entry.eff

theorem atom_beq (a b : Atom) : (a == b) = decide (a = b) := rfl

/-- Executing focus-free atoms: exactly their effects, once each, in order; flags are or-ed. -/
theorem foldl_nofocus (hc : St → Cmd → St) (o : Oracle) (l : List Atom)
    (hl : ∀ a ∈ l, ∀ x, a ≠ Atom.focus x) (s : St) :
    l.foldl (execAtom hc o) s =
      { s with
        redraw := s.redraw || l.any (fun a => a == .redraw || a == .debug)
        refresh := s.refresh || l.any (· == .refresh)
        quit := s.quit || l.any (· == .quit)
        consume := s.consume || l.any (· == .consume)
        debug := s.debug || l.any (· == .debug)
        trace := s.trace ++ effsOf l } := by
  induction l generalizing s with
  | nil => simp [effsOf]
  | cons a r ih =>
    have hr : ∀ a ∈ r, ∀ x, a ≠ Atom.focus x := fun a ha => hl a (by simp [ha])
    rw [List.foldl_cons, ih hr]
    cases a with
    | focus w => exact absurd rfl (hl (.focus w) (by simp) w)
    | redraw => simp [execAtom, effsOf, effOfAtom, atom_beq]
    | refresh => simp [execAtom, effsOf, effOfAtom, atom_beq]
    | quit => simp [execAtom, effsOf, effOfAtom, atom_beq]
    | consume => simp [execAtom, effsOf, effOfAtom, atom_beq]
    | debug => simp [execAtom, effsOf, effOfAtom, atom_beq]
    | other k => simp [execAtom, effsOf, effOfAtom, atom_beq]

theorem focusRun_effs (f : Id) (pend : Bool) (t r : List Entry) (ht : ∀ e ∈ t, ∃ x, e = Entry.eff x) :
    focusRun f pend (t ++ r) = focusRun f pend r := by
  induction t with
  | nil => rfl
  | cons e t ih =>
    obtain ⟨x, rfl⟩ := ht e (by simp)
    have := ih (fun e he => ht e (by simp [he]))
    simpa [focusRun] using this

theorem focusRun_append (f f' : Id) (a b : List Entry) (h : focusRun f false a = some f') :
    focusRun f false (a ++ b) = focusRun f' false b := by
  suffices H : ∀ (a : List Entry) (f : Id) (pend : Bool), focusRun f pend a = some f' →
      focusRun f pend (a ++ b) = focusRun f' false b from H a f false h
  intro a
  induction a with
  | nil =>
    intro f pend h
    cases pend
    · simp [focusRun] at h; subst h; rfl
    · simp [focusRun] at h
  | cons e a ih =>
    intro f pend h
    cases e with
    | draw => simpa [focusRun] using ih f pend (by simpa [focusRun] using h)
    | eff x => simpa [focusRun] using ih f pend (by simpa [focusRun] using h)
    | call w ev ph =>
      cases ev with
      | focusOut =>
        simp only [focusRun, List.cons_append] at h ⊢
        split at h
        · rename_i hcond
          rw [if_pos hcond]; exact ih f true h
        · cases h
      | focusIn =>
        simp only [focusRun, List.cons_append] at h ⊢
        split at h
        · rename_i hcond
          rw [if_pos hcond]; exact ih w false h
        · cases h
      | key k => simpa [focusRun] using ih f pend (by simpa [focusRun] using h)
      | custom k => simpa [focusRun] using ih f pend (by simpa [focusRun] using h)
      | init => simpa [focusRun] using ih f pend (by simpa [focusRun] using h)
      | mouse c r => simpa [focusRun] using ih f pend (by simpa [focusRun] using h)
      | mouseEnter => simpa [focusRun] using ih f pend (by simpa [focusRun] using h)
      | mouseLeave => simpa [focusRun] using ih f pend (by simpa [focusRun] using h)

/-- What the focus theorems need of the re-entrant command handler. -/
structure FocusGood (hc : St → Cmd → St) : Prop where
  pairs : ∀ s c, ∃ t, (hc s c).trace = s.trace ++ t ∧ focusRun s.focused false t = some (hc s c).focused

theorem effsOf_eff (l : List Atom) : ∀ e ∈ effsOf l, ∃ x, e = Entry.eff x := by
  intro e he
  simp only [effsOf, List.mem_map] at he
  obtain ⟨x, _, rfl⟩ := he
  exact ⟨x, rfl⟩

theorem focus_execAtom (o : Oracle) (hc : St → Cmd → St) (hg : FocusGood hc)
    (s : St) (a : Atom) :
    ∃ t, (execAtom hc o s a).trace = s.trace ++ t ∧
      focusRun s.focused false t = some (execAtom hc o s a).focused := by
  cases a with
  | redraw => exact ⟨[.eff .redraw], rfl, rfl⟩
  | refresh => exact ⟨[.eff .refresh], rfl, rfl⟩
  | quit => exact ⟨[.eff .quit], rfl, rfl⟩
  | consume => exact ⟨[.eff .consume], rfl, rfl⟩
  | debug => exact ⟨[.eff .debug], rfl, rfl⟩
  | other k => exact ⟨[.eff (.other k)], rfl, rfl⟩
  | focus w =>
    simp only [execAtom, focusWidgetWith]
    split
    · exact ⟨[], by simp, rfl⟩
    · rename_i hne
      generalize hs3 : (Model.Vxfw.call o (findPath { (Model.Vxfw.call o s s.focused .focusOut .target).1 with
          focused := w, trace := (Model.Vxfw.call o s s.focused .focusOut .target).1.trace ++ [.eff (.focusSet w)] }).1
          w .focusIn .target) = r3
      have htr3 : r3.1.trace = s.trace ++ [.call s.focused .focusOut .target, .eff (.focusSet w), .call w .focusIn .target] := by
        rw [← hs3]; simp [Model.Vxfw.call, findPath]
      have hf3 : r3.1.focused = w := by rw [← hs3]; rfl
      obtain ⟨t1, ht1, p1⟩ := hg.pairs r3.1 (Model.Vxfw.call o s s.focused .focusOut .target).2
      obtain ⟨t2, ht2, p2⟩ := hg.pairs (hc r3.1 (Model.Vxfw.call o s s.focused .focusOut .target).2) r3.2
      refine ⟨.call s.focused .focusOut .target :: .eff (.focusSet w) :: .call w .focusIn .target :: (t1 ++ t2), ?_, ?_⟩
      · rw [ht2, ht1, htr3]; simp
      · simp only [focusRun, Bool.not_false, Bool.true_and, decide_true, if_true]
        rw [hf3] at p1
        rw [focusRun_append _ _ _ _ p1]
        exact p2

theorem focus_foldl (o : Oracle) (hc : St → Cmd → St) (hg : FocusGood hc)
    (l : List Atom) (s : St) :
    ∃ t, (l.foldl (execAtom hc o) s).trace = s.trace ++ t ∧
      focusRun s.focused false t = some (l.foldl (execAtom hc o) s).focused := by
  induction l generalizing s with
  | nil => exact ⟨[], by simp, rfl⟩
  | cons a r ih =>
    obtain ⟨t1, ht1, p1⟩ := focus_execAtom o hc hg s a
    obtain ⟨t2, ht2, p2⟩ := ih (execAtom hc o s a)
    refine ⟨t1 ++ t2, ?_, ?_⟩
    · rw [List.foldl_cons, ht2, ht1, List.append_assoc]
    · rw [focusRun_append _ _ _ _ p1]; exact p2

theorem focusGood_handleCommand (o : Oracle) (fuel : Nat) :
    FocusGood (handleCommand o fuel) := by
  induction fuel with
  | zero => exact ⟨fun s c => ⟨[], by simp [handleCommand], rfl⟩⟩
  | succ n ih => exact ⟨fun s c => focus_foldl o _ ih _ s⟩


/-! ### hit testing -/

theorem underL_none (x y : Int) (px py : Int) :
    (l : List Kid) → (l.all fun k => !inRect (x + k.1) (y + k.2.1) k.2.2.2.w k.2.2.2.h px py) = true →
      underL x y l px py = []
  | [], _ => by simp [underL]
  | (oc, or_, z, t) :: rest, h => by
    simp only [List.all_cons, Bool.and_eq_true, Bool.not_eq_true'] at h
    simp only [underL, h.1]
    simpa using underL_none x y px py rest h.2

mutual
theorem under_eq_descend (px py : Int) : (t : STree) → (x y : Int) → noOverlapAt x y t px py = true →
    under x y t px py = descend x y t px py
  | .node i w h ch, x, y, hn => by
    simp only [noOverlapAt] at hn
    simp only [under, descend]
    rw [underL_eq_descendL px py ch x y hn]
theorem underL_eq_descendL (px py : Int) : (l : List Kid) → (x y : Int) → noOverlapAtL x y l px py = true →
    underL x y l px py = descendL x y l px py
  | [], _, _, _ => by simp [underL, descendL]
  | (oc, or_, z, t) :: rest, x, y, hn => by
    simp only [noOverlapAtL] at hn
    simp only [underL, descendL]
    by_cases hin : inRect (x + oc) (y + or_) t.w t.h px py = true
    · rw [if_pos hin] at hn
      simp only [Bool.and_eq_true] at hn
      rw [if_pos hin, if_pos hin, underL_none x y px py rest hn.2, List.append_nil]
      exact under_eq_descend px py t _ _ hn.1
    · rw [if_neg hin] at hn
      rw [if_neg hin, if_neg hin, List.nil_append]
      exact underL_eq_descendL px py rest x y hn
end

theorem u16_local (col oc : Int) (w : Nat) (_h0 : 0 ≤ col) (_h1 : col < 65536) (hw : w < 65536)
    (ha : oc ≤ col) (hb : col < oc + (w : Int)) : u16 (col - u16 oc) = col - oc := by
  unfold u16
  omega

mutual
theorem hitTest_eq_under (px py : Int) : (t : STree) → (x y : Int) → sizesOk t = true →
    0 ≤ px - x → px - x < 65536 → 0 ≤ py - y → py - y < 65536 →
    hitTest t (px - x) (py - y) = under x y t px py
  | .node i w h ch, x, y, hs, a, b, c, d => by
    simp only [sizesOk, Bool.and_eq_true] at hs
    simp only [hitTest, under]
    rw [hitKids_eq_underL px py ch x y hs.2 a b c d]
theorem hitKids_eq_underL (px py : Int) : (l : List Kid) → (x y : Int) → sizesOkL l = true →
    0 ≤ px - x → px - x < 65536 → 0 ≤ py - y → py - y < 65536 →
    hitKids l (px - x) (py - y) = underL x y l px py
  | [], _, _, _, _, _, _, _ => by simp [hitKids, underL]
  | (oc, or_, z, t) :: rest, x, y, hs, a, b, c, d => by
    simp only [sizesOkL, Bool.and_eq_true] at hs
    simp only [hitKids, underL]
    rw [hitKids_eq_underL px py rest x y hs.2 a b c d]
    have hcp : containsPoint oc or_ t.w t.h (px - x) (py - y) = inRect (x + oc) (y + or_) t.w t.h px py := by
      simp only [containsPoint, inRect]
      have e1 : decide (px - x ≥ oc) = decide (x + oc ≤ px) := by apply decide_eq_decide.mpr; omega
      have e2 : decide (px - x < oc + (t.w : Int)) = decide (px < x + oc + (t.w : Int)) := by
        apply decide_eq_decide.mpr; omega
      have e3 : decide (py - y ≥ or_) = decide (y + or_ ≤ py) := by apply decide_eq_decide.mpr; omega
      have e4 : decide (py - y < or_ + (t.h : Int)) = decide (py < y + or_ + (t.h : Int)) := by
        apply decide_eq_decide.mpr; omega
      rw [e1, e2, e3, e4]
    rw [hcp]
    by_cases hin : inRect (x + oc) (y + or_) t.w t.h px py = true
    · rw [if_pos hin, if_pos hin]
      simp only [inRect, Bool.and_eq_true, decide_eq_true_eq] at hin
      obtain ⟨⟨⟨i1, i2⟩, i3⟩, i4⟩ := hin
      have hsz : sizesOk t = true := hs.1
      have hw : t.w < 65536 ∧ t.h < 65536 := by
        cases t with
        | node i w h ch =>
          simp only [sizesOk, Bool.and_eq_true, decide_eq_true_eq] at hsz
          exact ⟨hsz.1.1, hsz.1.2⟩
      have l1 : u16 (px - x - u16 oc) = px - (x + oc) := by
        rw [u16_local (px - x) oc t.w a b hw.1 (by omega) (by omega)]; omega
      have l2 : u16 (py - y - u16 or_) = py - (y + or_) := by
        rw [u16_local (py - y) or_ t.h c d hw.2 (by omega) (by omega)]; omega
      rw [l1, l2]
      rw [hitTest_eq_under px py t (x + oc) (y + or_) hsz (by omega) (by omega) (by omega) (by omega)]
    · rw [if_neg hin, if_neg hin]
end

theorem hitsAt_eq_underRoot (t : STree) (hs : sizesOk t = true) (col row : Int) :
    hitsAt t col row = underRoot t col row := by
  have hw : t.w < 65536 ∧ t.h < 65536 := by
    cases t with
    | node i w h ch =>
      simp only [sizesOk, Bool.and_eq_true, decide_eq_true_eq] at hs
      exact ⟨hs.1.1, hs.1.2⟩
  simp only [hitsAt, underRoot]
  have hcp : containsPoint 0 0 t.w t.h col row = inRect 0 0 t.w t.h col row := by
    simp [containsPoint, inRect]
  rw [hcp]
  by_cases hin : inRect 0 0 t.w t.h col row = true
  · rw [if_pos hin, if_pos hin]
    simp only [inRect, Bool.and_eq_true, decide_eq_true_eq] at hin
    obtain ⟨⟨⟨i1, i2⟩, i3⟩, i4⟩ := hin
    have e1 : u16 col = col - 0 := by unfold u16; omega
    have e2 : u16 row = row - 0 := by unfold u16; omega
    rw [e1, e2]
    exact hitTest_eq_under col row t 0 0 hs (by omega) (by omega) (by omega) (by omega)
  · rw [if_neg hin, if_neg hin]

/-! ### commands: what each atom contributes to the trace -/

/-- The stretch of trace belonging to one atom. -/
def AtomSeg (a : Atom) (seg : List Entry) : Prop :=
  match a with
  | .focus w => seg = [] ∨ ∃ f t1 t2, seg = .call f .focusOut .target ::
      .eff (.focusSet w) :: .call w .focusIn .target :: (t1 ++ t2)
  | a => ∃ e, effOfAtom a = some e ∧ seg = [.eff e]

theorem atomSeg_execAtom (o : Oracle) (hc : St → Cmd → St)
    (hhc : ∀ s c, ∃ t, (hc s c).trace = s.trace ++ t) (s : St) (a : Atom) :
    ∃ seg, (execAtom hc o s a).trace = s.trace ++ seg ∧ AtomSeg a seg := by
  cases a with
  | redraw => exact ⟨[.eff .redraw], rfl, _, rfl, rfl⟩
  | refresh => exact ⟨[.eff .refresh], rfl, _, rfl, rfl⟩
  | quit => exact ⟨[.eff .quit], rfl, _, rfl, rfl⟩
  | consume => exact ⟨[.eff .consume], rfl, _, rfl, rfl⟩
  | debug => exact ⟨[.eff .debug], rfl, _, rfl, rfl⟩
  | other k => exact ⟨[.eff (.other k)], rfl, _, rfl, rfl⟩
  | focus w =>
    simp only [execAtom, focusWidgetWith]
    split
    · exact ⟨[], by simp, Or.inl rfl⟩
    · generalize hs3 : (Model.Vxfw.call o (findPath { (Model.Vxfw.call o s s.focused .focusOut .target).1 with
          focused := w, trace := (Model.Vxfw.call o s s.focused .focusOut .target).1.trace ++ [.eff (.focusSet w)] }).1
          w .focusIn .target) = r3
      have htr3 : r3.1.trace = s.trace ++ [.call s.focused .focusOut .target, .eff (.focusSet w), .call w .focusIn .target] := by
        rw [← hs3]; simp [Model.Vxfw.call, findPath]
      obtain ⟨t1, ht1⟩ := hhc r3.1 (Model.Vxfw.call o s s.focused .focusOut .target).2
      obtain ⟨t2, ht2⟩ := hhc (hc r3.1 (Model.Vxfw.call o s s.focused .focusOut .target).2) r3.2
      refine ⟨_, ?_, Or.inr ⟨s.focused, t1, t2, rfl⟩⟩
      rw [ht2, ht1, htr3]; simp

/-- One stretch per atom, in order. -/
inductive SegsOf : List Atom → List (List Entry) → Prop
  | nil : SegsOf [] []
  | cons {a : Atom} {seg : List Entry} {l : List Atom} {segs : List (List Entry)} :
      AtomSeg a seg → SegsOf l segs → SegsOf (a :: l) (seg :: segs)

theorem atomSeg_foldl (o : Oracle) (hc : St → Cmd → St)
    (hhc : ∀ s c, ∃ t, (hc s c).trace = s.trace ++ t) (l : List Atom) (s : St) :
    ∃ segs : List (List Entry), (l.foldl (execAtom hc o) s).trace = s.trace ++ segs.flatten ∧
      SegsOf l segs := by
  induction l generalizing s with
  | nil => exact ⟨[], by simp, SegsOf.nil⟩
  | cons a r ih =>
    obtain ⟨seg, hseg, ha⟩ := atomSeg_execAtom o hc hhc s a
    obtain ⟨segs, hsegs, hr⟩ := ih (execAtom hc o s a)
    refine ⟨seg :: segs, ?_, SegsOf.cons ha hr⟩
    rw [List.foldl_cons, hsegs, hseg]
    simp


/-! ### dispatch with focus-free answers: the explicit trace -/

def FocusFree (o : Oracle) : Prop := ∀ w e ph k, NoFocusAtoms (o.h w e ph k)

theorem any_consume (l : List Atom) : l.any (· == Atom.consume) = l.contains Atom.consume := by
  rw [List.contains_eq_any_beq]
  congr 1
  funext x
  simp [atom_beq, eq_comm]

theorem offer_plain (o : Oracle) (hnf : FocusFree o) (fuel : Nat) (s : St) (w : Id) (ev : Ev) (ph : Phase)
    (hc : s.consume = false) :
    (offer o (fuel + 1) s w ev ph).2 = (o.h w ev ph s.calls).flatten.contains .consume ∧
    (offer o (fuel + 1) s w ev ph).1.trace = s.trace ++ (.call w ev ph :: effsOf (o.h w ev ph s.calls).flatten) ∧
    (offer o (fuel + 1) s w ev ph).1.calls = s.calls + 1 ∧
    (offer o (fuel + 1) s w ev ph).1.consume = false ∧
    (offer o (fuel + 1) s w ev ph).1.focused = s.focused ∧
    (offer o (fuel + 1) s w ev ph).1.path = s.path := by
  have hfold := foldl_nofocus (handleCommand o fuel) o _ (hnf w ev ph s.calls)
    { s with calls := s.calls + 1, trace := s.trace ++ [.call w ev ph] }
  simp only [offer, handleCommand, Model.Vxfw.call, hfold]
  simp only [hc, Bool.false_or, any_consume]
  cases hcon : (o.h w ev ph s.calls).flatten.contains Atom.consume <;> simp [List.append_assoc]

theorem capture_plain (o : Oracle) (hnf : FocusFree o) (fuel : Nat) (ev : Ev) (ws : List Id) (s : St)
    (hc : s.consume = false) :
    ∀ rest : List (Id × Phase),
      let r := capturePhase o (fuel + 1) ev ws s
      (r.2 = true → s.trace ++ specRun o.h ev s.calls ((ws.filter o.captures).map (·, Phase.capture) ++ rest) = r.1.trace) ∧
      (r.2 = false → s.trace ++ specRun o.h ev s.calls ((ws.filter o.captures).map (·, Phase.capture) ++ rest) =
          r.1.trace ++ specRun o.h ev r.1.calls rest ∧
        r.1.consume = false ∧ r.1.focused = s.focused ∧ r.1.path = s.path) := by
  induction ws generalizing s with
  | nil => intro rest; simp [capturePhase, hc]
  | cons w ws ih =>
    intro rest
    by_cases hcap : o.captures w = true
    · obtain ⟨h2, htr, hcalls, hcons, hfoc, hpath⟩ := offer_plain o hnf fuel s w ev .capture hc
      simp only [capturePhase, hcap, if_true, List.filter_cons, List.map_cons, List.cons_append, specRun]
      by_cases hb : (offer o (fuel + 1) s w ev .capture).2 = true
      · simp only [hb, if_true]
        rw [← h2, hb]
        simp [htr, effsOf]
      · have hbf : (offer o (fuel + 1) s w ev .capture).2 = false := by simpa using hb
        simp only [hbf]
        rw [← h2, hbf]
        have := ih (offer o (fuel + 1) s w ev .capture).1 hcons rest
        simp only [hcalls, htr, hfoc, hpath] at this
        simp only [Bool.false_eq_true, if_false]
        constructor
        · intro hfin
          rw [← this.1 hfin]; simp [effsOf]
        · intro hfin
          obtain ⟨a, b, c, d⟩ := this.2 hfin
          refine ⟨?_, b, c, d⟩
          rw [← a]; simp [effsOf]
    · have hcf : o.captures w = false := by simpa using hcap
      simp only [capturePhase, hcf, List.filter_cons]
      exact ih s hc rest

theorem bubble_plain (o : Oracle) (hnf : FocusFree o) (fuel : Nat) (ev : Ev) (ws : List Id) (s : St)
    (hc : s.consume = false) :
    s.trace ++ specRun o.h ev s.calls (ws.map (·, Phase.bubble)) = (bubblePhase o (fuel + 1) ev ws s).trace := by
  induction ws generalizing s with
  | nil => simp [bubblePhase, specRun]
  | cons w ws ih =>
    obtain ⟨h2, htr, hcalls, hcons, hfoc, hpath⟩ := offer_plain o hnf fuel s w ev .bubble hc
    simp only [bubblePhase, List.map_cons, specRun]
    by_cases hb : (offer o (fuel + 1) s w ev .bubble).2 = true
    · simp only [hb, if_true]
      rw [← h2, hb]
      simp [htr, effsOf]
    · have hbf : (offer o (fuel + 1) s w ev .bubble).2 = false := by simpa using hb
      simp only [hbf]
      rw [← h2, hbf]
      have := ih (offer o (fuel + 1) s w ev .bubble).1 hcons
      simp only [hcalls, htr] at this
      simp only [Bool.false_eq_true, if_false]
      rw [← this]; simp [effsOf]

theorem handleEvent_plain (o : Oracle) (hnf : FocusFree o) (fuel : Nat) (s : St) (ev : Ev) :
    (handleEvent o (fuel + 1) s ev).trace =
      s.trace ++ specRun o.h ev s.calls (route o.captures s.path s.focused) := by
  simp only [handleEvent, dispatch, route, List.append_assoc]
  have hc0 : ({ s with consume := false } : St).consume = false := rfl
  have hcap := capture_plain o hnf fuel ev s.path { s with consume := false } hc0
    ([(s.focused, Phase.target)] ++ s.path.dropLast.reverse.map (·, Phase.bubble))
  by_cases hb : (capturePhase o (fuel + 1) ev s.path { s with consume := false }).2 = true
  · rw [if_pos hb]; exact (hcap.1 hb).symm
  · have hbf : (capturePhase o (fuel + 1) ev s.path { s with consume := false }).2 = false := by simpa using hb
    rw [if_neg hb]
    obtain ⟨a, b, c, d⟩ := hcap.2 hbf
    generalize capturePhase o (fuel + 1) ev s.path { s with consume := false } = r at *
    simp only at c d
    rw [a]
    obtain ⟨h2, htr, hcalls, hcons, hfoc, hpath⟩ := offer_plain o hnf fuel r.1 r.1.focused ev .target b
    simp only [List.singleton_append, specRun, c]
    rw [c] at h2 htr
    by_cases hb2 : (offer o (fuel + 1) r.1 s.focused ev .target).2 = true
    · rw [if_pos hb2, ← h2, hb2]
      simp [htr, effsOf]
    · have hbf2 : (offer o (fuel + 1) r.1 s.focused ev .target).2 = false := by simpa using hb2
      rw [if_neg hb2, ← h2, hbf2]
      have := bubble_plain o hnf fuel ev s.path.dropLast.reverse (offer o (fuel + 1) r.1 s.focused ev .target).1
        (by rw [← c]; exact hcons)
      rw [← this]
      rw [c] at hcalls
      simp [htr, hcalls, effsOf]

end VaxisModel.Lemmas.Vxfw
