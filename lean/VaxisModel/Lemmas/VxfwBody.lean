import VaxisModel.Model.VxfwInterp
import VaxisModel.Lemmas.VxfwBodyExpected

/-! `Model/VxfwInterp.lean` run on the statement tree of `focusHandler.handleEvent` IS
    `Model.Vxfw.eHandleEvent` (three-phase dispatch with the error plumbing). -/
set_option linter.unusedSimpArgs false
set_option linter.unusedVariables false

namespace VaxisModel.Lemmas.VxfwBody
open VaxisModel.Model VaxisModel.Model.GoSyn VaxisModel.Model.Vxfw VaxisModel.Model.VxfwInterp
open VaxisModel.Model.DynExec (Stmt parseBody)

def seqOf : List Stmt → Stmt
  | [] => .skip
  | a :: r => .seq a (seqOf r)

def fhe0 : Stmt :=
  (.atom ⟨0, .assign, (.var "v0.consumeEvent"), (.var "false")⟩)

def fhe1 : Stmt :=
  (.atom ⟨0, .define, (.var "v2"), (.var "r.path")⟩)

def fhe2 : Stmt :=
  (.rangeOver "_" "v3" (.var "v2")
    (.seq (.atom ⟨1, .define, (.pair (.var "v4") (.var "v5")), (.arg (.arg (.call (.var "assert")) (.var "v3")) (.var "EventCapturer"))⟩)
    (.seq (.ite (.un "!" (.var "v5"))
      (.seq (.atom ⟨2, .continueS, .none, .none⟩)
      .skip)
      .skip)
    (.seq (.atom ⟨1, .define, (.pair (.var "v6") (.var "v7")), (.arg (.call (.var "v4.CaptureEvent")) (.var "v1"))⟩)
    (.seq (.ite (.bin "!=" (.var "v7") (.var "nil"))
      (.seq (.atom ⟨2, .returnS, (.var "v7"), .none⟩)
      .skip)
      .skip)
    (.seq (.atom ⟨1, .exprS, (.arg (.call (.var "v0.handleCommand")) (.var "v6")), .none⟩)
    (.seq (.ite (.var "v0.consumeEvent")
      (.seq (.atom ⟨2, .assign, (.var "v0.consumeEvent"), (.var "false")⟩)
      (.seq (.atom ⟨2, .returnS, (.var "nil"), .none⟩)
      .skip))
      .skip)
    .skip)))))))

def fhe3 : Stmt :=
  (.atom ⟨0, .define, (.pair (.var "v8") (.var "v9")), (.arg (.arg (.call (.var "r.focused.HandleEvent")) (.var "v1")) (.var "TargetPhase"))⟩)

def fhe4 : Stmt :=
  (.ite (.bin "!=" (.var "v9") (.var "nil"))
    (.seq (.atom ⟨1, .returnS, (.var "v9"), .none⟩)
    .skip)
    .skip)

def fhe5 : Stmt :=
  (.atom ⟨0, .exprS, (.arg (.call (.var "v0.handleCommand")) (.var "v8")), .none⟩)

def fhe6 : Stmt :=
  (.ite (.var "v0.consumeEvent")
    (.seq (.atom ⟨1, .assign, (.var "v0.consumeEvent"), (.var "false")⟩)
    (.seq (.atom ⟨1, .returnS, (.var "nil"), .none⟩)
    .skip))
    .skip)

def fhe7 : Stmt :=
  (.seq (.atom ⟨1, .define, (.var "v10"), (.bin "-" (.arg (.call (.var "len")) (.var "v2")) (.int 2))⟩)
  .skip)

def fhe8 : Stmt :=
  (.loop (.bin ">=" (.var "v10") (.int 0))
    (.seq (.atom ⟨1, .define, (.var "v11"), (.index (.var "v2") (.var "v10"))⟩)
    (.seq (.atom ⟨1, .define, (.pair (.var "v12") (.var "v13")), (.arg (.arg (.call (.var "v11.HandleEvent")) (.var "v1")) (.var "BubblePhase"))⟩)
    (.seq (.ite (.bin "!=" (.var "v13") (.var "nil"))
      (.seq (.atom ⟨2, .returnS, (.var "v13"), .none⟩)
      .skip)
      .skip)
    (.seq (.atom ⟨1, .exprS, (.arg (.call (.var "v0.handleCommand")) (.var "v12")), .none⟩)
    (.seq (.ite (.var "v0.consumeEvent")
      (.seq (.atom ⟨2, .assign, (.var "v0.consumeEvent"), (.var "false")⟩)
      (.seq (.atom ⟨2, .returnS, (.var "nil"), .none⟩)
      .skip))
      .skip)
    .skip)))))
    (.seq (.atom ⟨2, .subAssign, (.var "v10"), (.int 1)⟩)
    .skip))

def fhe9 : Stmt :=
  (.atom ⟨0, .returnS, (.var "nil"), .none⟩)

def fheParts : List Stmt := [fhe0, fhe1, fhe2, fhe3, fhe4, fhe5, fhe6, fhe7, fhe8, fhe9]


theorem parse_fhe : parseBody VxfwBodyExpected.focusHandleEvent = seqOf fheParts := by decide +kernel

local macro "vs" "[" ts:Lean.Parser.Tactic.simpLemma,* "]" : tactic =>
  `(tactic| simp [exec, atom, evBool, evInt, evList, find, recv, bindId, doCall, phaseOf, seqOf, $ts,*])

def ctlOf : Outcome → Ctl
  | .next => .norm
  | .stop => .ret false
  | .fail => .ret true

/-! ### the capture loop -/

def capBody : Stmt := match fhe2 with | .rangeOver _ _ _ b => b | _ => .skip
theorem fhe2_eq : fhe2 = .rangeOver "_" "v3" (.var "v2") capBody := rfl

/-- What the rest of the function can see of a result: the state, the integer and list locals (the
    widget / command / error locals are rebound before they are read), the control outcome. -/
def view (r : Res) : Option (St × List (String × Int) × List (String × List Id) × Ctl) :=
  r.map (fun r => (r.1.s, r.1.ints, r.1.lists, r.2))

theorem view_some {r : Res} {s : St} {i : List (String × Int)} {l : List (String × List Id)} {c : Ctl}
    (h : view r = some (s, i, l, c)) : ∃ vm', r = some (vm', c) ∧ vm'.s = s ∧ vm'.ints = i ∧ vm'.lists = l := by
  cases r with
  | none => simp [view] at h
  | some x =>
    obtain ⟨vm', c'⟩ := x
    simp only [view, Option.map_some, Option.some.injEq, Prod.mk.injEq] at h
    obtain ⟨h1, h2, h3, h4⟩ := h
    exact ⟨vm', by rw [h4], h1, h2, h3⟩

theorem cap_body (e : EOracle) (fuel : Nat) (ev : Ev) (lf : Nat) (vm : VM) (w : Id) :
    view (exec e fuel ev capBody lf (bindId vm "v3" w)) =
      some (if e.o.captures w then (eOffer e fuel vm.s w ev .capture).1 else vm.s, vm.ints, vm.lists,
            if e.o.captures w then ctlOf (eOffer e fuel vm.s w ev .capture).2 else .cont) := by
  unfold eOffer
  cases hc : e.o.captures w
  · vs [view, capBody, fhe2, hc]
  · cases hf : e.failsAt vm.s w ev .capture
    · cases hk : (eHandleCommand e fuel (call e.o vm.s w ev .capture).1 (call e.o vm.s w ev .capture).2).consume
      · vs [view, capBody, fhe2, hc, hf, hk, ctlOf]
      · vs [view, capBody, fhe2, hc, hf, hk, ctlOf]
    · vs [view, capBody, fhe2, hc, hf, ctlOf]

theorem cap_loop (e : EOracle) (fuel : Nat) (ev : Ev) (lf : Nat) : ∀ (ws : List Id) (vm : VM),
    view (rangeIds "v3" (exec e fuel ev capBody lf) ws vm) =
      some ((eCapturePhase e fuel ev ws vm.s).1, vm.ints, vm.lists, ctlOf (eCapturePhase e fuel ev ws vm.s).2) := by
  intro ws
  induction ws with
  | nil => intro vm; rfl
  | cons w ws ih =>
    intro vm
    obtain ⟨vm', hb, h1, h2, h3⟩ := view_some (cap_body e fuel ev lf vm w)
    rw [rangeIds, hb, eCapturePhase]
    cases hc : e.o.captures w
    · simp only [hc, Bool.false_eq_true, ↓reduceIte] at h1 ⊢
      rw [ih vm', h1, h2, h3]
    · simp only [hc, ↓reduceIte] at h1 ⊢
      cases ho : (eOffer e fuel vm.s w ev .capture).2
      · have hn : ctlOf Outcome.next = Ctl.norm := rfl
        simp only [ho, hn, ↓reduceIte]
        rw [ih vm', h1, h2, h3]
      · have hn : ctlOf Outcome.stop = Ctl.ret false := rfl
        have hne : ¬ (Outcome.stop = Outcome.next) := by decide
        simp only [ho, hn, hne, ↓reduceIte, view, Option.map_some, h1, h2, h3]
      · have hn : ctlOf Outcome.fail = Ctl.ret true := rfl
        have hne : ¬ (Outcome.fail = Outcome.next) := by decide
        simp only [ho, hn, hne, ↓reduceIte, view, Option.map_some, h1, h2, h3]

/-! ### the target phase and one step of the bubble loop: an offer -/

/-- `cmd, err := W.HandleEvent(ev, ph); if err != nil { return err }; app.handleCommand(cmd);
    if app.consumeEvent { app.consumeEvent = false; return nil }` is the model's `eOffer`. -/
theorem tgt_exec (e : EOracle) (fuel : Nat) (ev : Ev) (lf : Nat) (vm : VM) :
    view (exec e fuel ev (seqOf [fhe3, fhe4, fhe5, fhe6]) lf vm) =
      some ((eOffer e fuel vm.s vm.s.focused ev .target).1, vm.ints, vm.lists,
            ctlOf (eOffer e fuel vm.s vm.s.focused ev .target).2) := by
  unfold eOffer
  cases hf : e.failsAt vm.s vm.s.focused ev .target
  · cases hk : (eHandleCommand e fuel (call e.o vm.s vm.s.focused ev .target).1 (call e.o vm.s vm.s.focused ev .target).2).consume
    · vs [view, fhe3, fhe4, fhe5, fhe6, hf, hk, ctlOf]
    · vs [view, fhe3, fhe4, fhe5, fhe6, hf, hk, ctlOf]
  · vs [view, fhe3, fhe4, fhe5, fhe6, hf, ctlOf]

def bubBody : Stmt := match fhe8 with | .loop _ b _ => b | _ => .skip
def bubCond : Expr := match fhe8 with | .loop c _ _ => c | _ => .none
def bubPost : Stmt := match fhe8 with | .loop _ _ p => p | _ => .skip
theorem fhe8_eq : fhe8 = .loop bubCond bubBody bubPost := rfl

theorem bub_body (e : EOracle) (fuel : Nat) (ev : Ev) (lf : Nat) (vm : VM) (p : List Id) (k : Nat) (w : Id)
    (hl : find vm.lists "v2" = some p) (hi : find vm.ints "v10" = some (k : Int)) (hw : p[k]? = some w) :
    view (exec e fuel ev bubBody lf vm) =
      some ((eOffer e fuel vm.s w ev .bubble).1, vm.ints, vm.lists, ctlOf (eOffer e fuel vm.s w ev .bubble).2) := by
  unfold eOffer
  have hneg : ¬ ((k : Int) < 0) := by omega
  cases hf : e.failsAt vm.s w ev .bubble
  · cases hk : (eHandleCommand e fuel (call e.o vm.s w ev .bubble).1 (call e.o vm.s w ev .bubble).2).consume
    · vs [view, bubBody, fhe8, hl, hi, hw, hneg, hf, hk, ctlOf]
    · vs [view, bubBody, fhe8, hl, hi, hw, hneg, hf, hk, ctlOf]
  · vs [view, bubBody, fhe8, hl, hi, hw, hneg, hf, ctlOf]

theorem bub_cond (vm : VM) (v : Int) (hi : find vm.ints "v10" = some v) :
    evBool vm bubCond = some (decide (v ≥ 0)) := by
  vs [bubCond, fhe8, hi]

theorem bub_post (e : EOracle) (fuel : Nat) (ev : Ev) (lf : Nat) (vm : VM) (v : Int) (hi : find vm.ints "v10" = some v) :
    exec e fuel ev bubPost lf vm = some ({ vm with ints := ("v10", v - 1) :: vm.ints }, .norm) := by
  vs [bubPost, fhe8, hi]

theorem take_succ_reverse (p : List Id) (n : Nat) (w : Id) (hw : p[n]? = some w) :
    (p.take (n + 1)).reverse = w :: (p.take n).reverse := by
  rw [List.take_add_one, hw]
  simp

theorem bub_loop (e : EOracle) (fuel : Nat) (ev : Ev) (p : List Id) :
    ∀ (n : Nat) (vm : VM) (v : Int) (lf : Nat), find vm.lists "v2" = some p → find vm.ints "v10" = some v →
      (v + 1).toNat = n → v + 1 ≥ 0 ∨ n = 0 → n ≤ p.length → n + 1 ≤ lf →
      ∃ vm', loopN (fun vm => evBool vm bubCond) (exec e fuel ev bubBody) (exec e fuel ev bubPost) lf vm =
          some (vm', ctlOf (eBubblePhase e fuel ev (p.take n).reverse vm.s).2) ∧
        vm'.s = (eBubblePhase e fuel ev (p.take n).reverse vm.s).1 := by
  intro n
  induction n with
  | zero =>
    intro vm v lf hl hi hv _ _ hlf
    obtain ⟨lf', rfl⟩ : ∃ lf', lf = lf' + 1 := ⟨lf - 1, by omega⟩
    have hneg : decide (v ≥ 0) = false := by simp; omega
    rw [loopN]
    simp only [bub_cond vm v hi, hneg]
    exact ⟨vm, rfl, rfl⟩
  | succ n ih =>
    intro vm v lf hl hi hv _ hn hlf
    obtain ⟨lf', rfl⟩ : ∃ lf', lf = lf' + 1 := ⟨lf - 1, by omega⟩
    have hvn : v = (n : Int) := by omega
    subst hvn
    have hpos : decide ((n : Int) ≥ 0) = true := by simp
    have hlt : n < p.length := by omega
    have hw : p[n]? = some p[n] := List.getElem?_eq_getElem hlt
    obtain ⟨vm1, hb, h1, h2, h3⟩ := view_some (bub_body e fuel ev lf' vm p n p[n] hl hi hw)
    rw [loopN]
    simp only [bub_cond vm _ hi, hpos]
    rw [hb, take_succ_reverse p n p[n] hw, eBubblePhase]
    cases ho : (eOffer e fuel vm.s p[n] ev .bubble).2
    · have hn' : ctlOf Outcome.next = Ctl.norm := rfl
      simp only [hn', ↓reduceIte]
      rw [bub_post e fuel ev lf' vm1 (n : Int) (by rw [h2]; exact hi)]
      simp only []
      obtain ⟨vm2, hr, hs⟩ := ih { vm1 with ints := ("v10", (n : Int) - 1) :: vm1.ints } ((n : Int) - 1) lf'
        (by simp only []; rw [h3]; exact hl) (by simp [find]) (by omega) (by omega) (by omega) (by omega)
      simp only [] at hr hs
      rw [← h1]
      exact ⟨vm2, hr, hs⟩
    · have hn' : ctlOf Outcome.stop = Ctl.ret false := rfl
      have hne : ¬ (Outcome.stop = Outcome.next) := by decide
      simp only [hn', hne, ↓reduceIte, ho]
      exact ⟨vm1, rfl, h1⟩
    · have hn' : ctlOf Outcome.fail = Ctl.ret true := rfl
      have hne : ¬ (Outcome.fail = Outcome.next) := by decide
      simp only [hn', hne, ↓reduceIte, ho]
      exact ⟨vm1, rfl, h1⟩

/-! ### the whole of `focusHandler.handleEvent` -/

theorem seqOf_cons (e : EOracle) (fuel : Nat) (ev : Ev) (a : Stmt) (r : List Stmt) (f : Nat) (vm : VM) :
    exec e fuel ev (seqOf (a :: r)) f vm = (match exec e fuel ev a f vm with
      | some (vm', .norm) => exec e fuel ev (seqOf r) f vm'
      | x => x) := by
  simp only [seqOf, exec]
  rfl

/-- Splitting a sequence: the first `k` statements, then the rest. -/
theorem seqOf_append (e : EOracle) (fuel : Nat) (ev : Ev) (f : Nat) : ∀ (a r : List Stmt) (vm : VM),
    exec e fuel ev (seqOf (a ++ r)) f vm = (match exec e fuel ev (seqOf a) f vm with
      | some (vm', .norm) => exec e fuel ev (seqOf r) f vm'
      | x => x) := by
  intro a
  induction a with
  | nil => intro r vm; rfl
  | cons x a ih =>
    intro r vm
    rw [List.cons_append, seqOf_cons, seqOf_cons]
    cases hx : exec e fuel ev x f vm with
    | none => rfl
    | some y =>
      obtain ⟨vm', c⟩ := y
      cases c <;> simp only [] <;> first | exact ih r vm' | rfl

theorem fhe_exec (e : EOracle) (fuel : Nat) (s : St) (ev : Ev) (lf : Nat) (hlf : s.path.length + 1 ≤ lf) :
    runFocusHandleEvent (seqOf fheParts) e fuel s ev lf = some (eHandleEvent e fuel s ev) := by
  unfold runFocusHandleEvent eHandleEvent eDispatch fheParts
  -- consumeEvent = false; path := f.path
  have h01 : exec e fuel ev (seqOf [fhe0, fhe1]) lf ⟨s, [], [], [], [], []⟩ =
      some (⟨{ s with consume := false }, [], [], [], [], [("v2", s.path)]⟩, .norm) := by
    vs [fhe0, fhe1]
  rw [show [fhe0, fhe1, fhe2, fhe3, fhe4, fhe5, fhe6, fhe7, fhe8, fhe9] = [fhe0, fhe1] ++ [fhe2, fhe3, fhe4, fhe5, fhe6, fhe7, fhe8, fhe9] from rfl,
    seqOf_append, h01]
  simp only []
  -- the capture loop
  rw [seqOf_cons, fhe2_eq]
  have hcap := view_some (cap_loop e fuel ev lf s.path ⟨{ s with consume := false }, [], [], [], [], [("v2", s.path)]⟩)
  obtain ⟨vm2, hc, hc1, hc2, hc3⟩ := hcap
  have hex : exec e fuel ev (.rangeOver "_" "v3" (.var "v2") capBody) lf ⟨{ s with consume := false }, [], [], [], [], [("v2", s.path)]⟩ =
      rangeIds "v3" (exec e fuel ev capBody lf) s.path ⟨{ s with consume := false }, [], [], [], [], [("v2", s.path)]⟩ := by
    simp [exec, find, evList]
  rw [hex, hc]
  simp only [] at hc1 hc2 hc3
  generalize eCapturePhase e fuel ev s.path { s with consume := false } = r at hc hc1 ⊢
  obtain ⟨s1, o1⟩ := r
  simp only [] at hc hc1 ⊢
  cases o1 with
  | stop => simp [ctlOf, hc1]
  | fail => simp [ctlOf, hc1]
  | next =>
    have hn : ctlOf Outcome.next = Ctl.norm := rfl
    simp only [hn, ne_eq, not_true_eq_false, ↓reduceIte]
    -- the target phase
    rw [show [fhe3, fhe4, fhe5, fhe6, fhe7, fhe8, fhe9] = [fhe3, fhe4, fhe5, fhe6] ++ [fhe7, fhe8, fhe9] from rfl, seqOf_append]
    obtain ⟨vm3, ht, ht1, ht2, ht3⟩ := view_some (tgt_exec e fuel ev lf vm2)
    rw [hc1] at ht ht1
    rw [hc2] at ht2
    rw [hc3] at ht3
    generalize eOffer e fuel s1 s1.focused ev .target = r2 at ht ht1 ⊢
    obtain ⟨s2, o2⟩ := r2
    simp only [] at ht ht1 ⊢
    rw [ht]
    cases o2 with
    | stop => simp [ctlOf, ht1]
    | fail => simp [ctlOf, ht1]
    | next =>
      simp only [hn, ne_eq, not_true_eq_false, ↓reduceIte]
      -- the bubble loop
      have h7 : exec e fuel ev fhe7 lf vm3 = some ({ vm3 with ints := ("v10", (s.path.length : Int) - 2) :: vm3.ints }, .norm) := by
        vs [fhe7, ht3]
      rw [seqOf_cons, h7]
      simp only []
      obtain ⟨vm4, hb, hb1⟩ := bub_loop e fuel ev s.path (s.path.length - 1)
        { vm3 with ints := ("v10", (s.path.length : Int) - 2) :: vm3.ints } ((s.path.length : Int) - 2) lf
        (by simp only []; rw [ht3]; simp [find]) (by simp [find]) (by omega) (by omega) (by omega) (by omega)
      simp only [] at hb hb1
      rw [seqOf_cons, fhe8_eq]
      have hloop : exec e fuel ev (.loop bubCond bubBody bubPost) lf { vm3 with ints := ("v10", (s.path.length : Int) - 2) :: vm3.ints } =
          loopN (fun vm => evBool vm bubCond) (exec e fuel ev bubBody) (exec e fuel ev bubPost) lf
            { vm3 with ints := ("v10", (s.path.length : Int) - 2) :: vm3.ints } := rfl
      rw [hloop, hb, ht1, ← List.dropLast_eq_take]
      rw [ht1, ← List.dropLast_eq_take] at hb1
      generalize eBubblePhase e fuel ev s.path.dropLast.reverse s2 = r3 at hb1 ⊢
      obtain ⟨s3, o3⟩ := r3
      simp only [] at hb1 ⊢
      cases o3 with
      | stop => simp [ctlOf, hb1]
      | fail => simp [ctlOf, hb1]
      | next =>
        simp only [hn]
        have h9 : exec e fuel ev (seqOf [fhe9]) lf vm4 = some (vm4, .ret false) := by vs [fhe9]
        rw [h9]
        simp [hb1]

end VaxisModel.Lemmas.VxfwBody
