import VaxisModel.Model.VxfwInterpAll
import VaxisModel.Lemmas.VxfwBodyX
import VaxisModel.Lemmas.VxfwBodyFocus
import VaxisModel.Lemmas.VxfwBodyTree
import VaxisModel.Lemmas.VxfwBodyRun

/-! `mouseHandler.update`, `focusHandler.updatePath`, `App.handleCommand` executed from their bodies WITH their callees
    (`hitTest`, `containsPoint`, `findPath` → `childHasFocus`, `focusWidget`) executed from theirs are still the model functions. -/
set_option linter.unusedSimpArgs false
set_option linter.unusedVariables false

namespace VaxisModel.Lemmas.VxfwBodyAll
open VaxisModel.Model VaxisModel.Model.GoSyn VaxisModel.Model.Vxfw VaxisModel.Model.VxfwInterp
open VaxisModel.Model.DynExec (Stmt parseBody)
open VaxisModel.Lemmas.VxfwBody VaxisModel.Lemmas.VxfwBodyX

/-- The plugged-in callees compute the model functions. -/
structure GoodX (e : EOracle) (fuel : Nat) (x0 : VX) : Prop where
  fp : ∀ s, x0.findPathF s = some (findPath s)
  ht : ∀ t hs c r, x0.hitTestF t hs c r = some (hs ++ hitTest t c r)
  cp : ∀ t c r, x0.cpF t c r = some (containsPoint 0 0 t.w t.h c r)
  fw : ∀ s w, callFw e fuel x0.fwF s w = some (eFocusWidget e (fuel + 1) s w)
  hitl0 : x0.hitl = []

local macro "xs" "[" ts:Lean.Parser.Tactic.simpLemma,* "]" : tactic =>
  `(tactic| simp [execX, atomX, evBoolX, evHits, bindHit, bindTree, setS, liftRes, liftCtl, vxCall, vm0, labelTok, cmdType, armEff,
      exec, atom, evBool, evInt, evList, evOfLit, find, recv, bindId, doCall, phaseOf, $ts,*])

theorem up_exec_x (e : EOracle) (fuel : Nat) (x0 : VX) (g : GoodX e fuel x0) (s : St) (t : STree) :
    runUpdatePathX upT x0 e fuel s t = some (eUpdatePath e (fuel + 1) s t) := by
  unfold runUpdatePathX eUpdatePath upT
  have hr : (findPath { s with fhFrame := some t }).1.root = s.root := rfl
  have hfw := g.fw
  cases h : (findPath { s with fhFrame := some t }).2
  · xs [h, hr, g.fp, hfw]
  · xs [h, hr, g.fp, hfw]

/-- The statements before the loops: `hits` = the model's `hitsAt`. -/
theorem mu_prefix_x (e : EOracle) (fuel : Nat) (x0 : VX) (g : GoodX e fuel x0) (s : St) (t : STree) (col row : Int) (hmo : s.mouse = some (col, row)) (K : Stmt) :
    ∃ m1, execX e fuel .init (.seq mu0 (.seq mu1 (.seq mu2 (.seq mu3 K)))) (bindTree ⟨vm0 s, x0⟩ "v1" t) = execX e fuel .init K m1 ∧
      m1.vm = vm0 s ∧ find m1.x.hitl "v2" = some (hitsAt t col row) := by
  unfold hitsAt
  cases hc : containsPoint 0 0 t.w t.h col row
  · refine ⟨⟨vm0 s, { x0 with hitl := ("v2", []) :: x0.hitl, tree := ("v3", t) :: ("v3.containsPoint", t) :: ("v1", t) :: ("v1.containsPoint", t) :: x0.tree }⟩, ?_, rfl, ?_⟩
    · xs [mu0, mu1, mu2, mu3, hmo, hc, g.cp, g.ht]
    · simp [find]
  · refine ⟨⟨vm0 s, { x0 with hitl := ("v2", (([] : List Hit) ++ hitTest t (u16 col) (u16 row))) :: ("v2", ([] : List Hit)) :: x0.hitl, tree := ("v3", t) :: ("v3.containsPoint", t) :: ("v1", t) :: ("v1.containsPoint", t) :: x0.tree }⟩, ?_, rfl, ?_⟩
    · xs [mu0, mu1, mu2, mu3, hmo, hc, g.cp, g.ht]
    · simp [find]

theorem mu_exec_x (e : EOracle) (fuel : Nat) (x0 : VX) (g : GoodX e fuel x0) (s : St) (t : STree) :
    runMouseUpdateX muT x0 e fuel s t = some (eMouseUpdate e fuel s t) := by
  unfold runMouseUpdateX eMouseUpdate
  cases hmo : s.mouse with
  | none => xs [muT, mu0, hmo]
  | some p =>
    obtain ⟨col, row⟩ := p
    obtain ⟨m1, hp, hv1, hh1⟩ := mu_prefix_x e fuel x0 g s t col row hmo muLoops
    unfold muT
    rw [hp]
    simp only []
    have hs1 : m1.vm.s = s := by rw [hv1]; rfl
    unfold muLoops
    obtain ⟨m2, hm2, hs2, hl2⟩ := out1_loop e fuel (hitsAt t col row) s.lastHits m1 hh1
    rw [hs1] at hm2 hs2
    rw [execX_seq, execX_range_hits e fuel .init "_" "v4" "r.lastHits" outB1 m1 s.lastHits (by simp [evHits, hs1]), hm2]
    cases h1 : (eNotifyLoop e fuel .mouseLeave (fun h => (hitsAt t col row).contains h) s.lastHits s).2
    · simp only [Bool.false_eq_true, ↓reduceIte]
      have hold : m2.vm.s.lastHits = s.lastHits := by rw [hs2, eNotifyLoop_hits]
      obtain ⟨m3, hm3, hs3, hl3⟩ := out2_loop e fuel s.lastHits (hitsAt t col row) m2 hold
      rw [hs2] at hm3 hs3
      rw [execX_seq, execX_range_hits e fuel .init "_" "v8" "v2" outB2 m2 (hitsAt t col row) (by simp [evHits, hl2, hh1]), hm3]
      cases h2 : (eNotifyLoop e fuel .mouseEnter (fun h => s.lastHits.contains h) (hitsAt t col row)
          (eNotifyLoop e fuel .mouseLeave (fun h => (hitsAt t col row).contains h) s.lastHits s).1).2
      · simp only [Bool.false_eq_true, ↓reduceIte]
        have hf3 : find m3.x.hitl "v2" = some (hitsAt t col row) := by rw [hl3, hl2]; exact hh1
        xs [muEnd, hf3, hs3]
      · simp only [↓reduceIte, hs3]
        exact congrArg some (Prod.ext rfl h2.symm)
    · simp only [↓reduceIte, hs2]
      exact congrArg some (Prod.ext rfl h1.symm)

theorem hc_exec_x (e : EOracle) (fuel : Nat) (x0 : VX) (g : GoodX e fuel x0) : ∀ (d : Nat) (s : St) (c : Cmd), cmdDepth c < d →
    runHandleCommandXD hcT x0 e fuel d s c = some (eHandleCommand e (fuel + 1) s c) := by
  obtain ⟨hitl, hit, tree, self0, fpF, htF, cpF, fwF⟩ := x0
  have h0 : hitl = [] := g.hitl0
  subst h0
  intro d
  induction d with
  | zero => intro s c h; omega
  | succ d ih =>
    intro s c hd
    cases c with
    | nil => unfold runHandleCommandXD hcT; xs [eHandleCommand, Cmd.flatten]
    | redraw => unfold runHandleCommandXD hcT; xs [eHandleCommand, Cmd.flatten, eExecAtom, execAtom]
    | refresh => unfold runHandleCommandXD hcT; xs [eHandleCommand, Cmd.flatten, eExecAtom, execAtom]
    | quit => unfold runHandleCommandXD hcT; xs [eHandleCommand, Cmd.flatten, eExecAtom, execAtom]
    | consume => unfold runHandleCommandXD hcT; xs [eHandleCommand, Cmd.flatten, eExecAtom, execAtom]
    | debug => unfold runHandleCommandXD hcT; xs [eHandleCommand, Cmd.flatten, eExecAtom, execAtom]
    | focus w =>
      unfold runHandleCommandXD hcT
      have hm : eHandleCommand e (fuel + 1) s (.focus w) = (eFocusWidget e (fuel + 1) s w).1 := by
        simp [eHandleCommand, Cmd.flatten, eExecAtom, eFocusWidget]
      have heta : ({ s with trace := s.trace } : St) = s := rfl
      rw [hm]
      cases hf : (eFocusWidget e (fuel + 1) s w).2
      · xs [heta, hf, g.fw]
      · xs [heta, hf, g.fw]
    | other k =>
      unfold runHandleCommandXD hcT
      have h4 : k % 4 = 0 ∨ k % 4 = 1 ∨ k % 4 = 2 ∨ k % 4 = 3 := by omega
      rcases h4 with h | h | h | h
      · xs [eHandleCommand, Cmd.flatten, eExecAtom, execAtom, h]
      · xs [eHandleCommand, Cmd.flatten, eExecAtom, execAtom, h]
      · xs [eHandleCommand, Cmd.flatten, eExecAtom, execAtom, h]
      · xs [eHandleCommand, Cmd.flatten, eExecAtom, execAtom, h]
    | batch l =>
      have hl : ∀ c ∈ l, ∀ s, runHandleCommandXD hcT ⟨[], hit, tree, self0, fpF, htF, cpF, fwF⟩ e fuel d s c = some (eHandleCommand e (fuel + 1) s c) := by
        intro c hc s
        have := depth_mem l c hc
        rw [cmdDepth] at hd
        exact ih s c (by omega)
      rw [eHC_batch, runHandleCommandXD]
      generalize runHandleCommandXD hcT _ e fuel d = run at hl ⊢
      obtain ⟨m', hm, hs'⟩ := hc_range e fuel "v2" run (fun s c => eHandleCommand e (fuel + 1) s c) l
        ⟨⟨s, [], [], [("v1", .batch l), ("v0", .batch l)], [], []⟩, (⟨[], hit, tree, run, fpF, htF, cpF, fwF⟩ : VX)⟩ rfl hl
      have heta : ({ s with trace := s.trace } : St) = s := rfl
      unfold hcT
      xs [heta, hm, hs']
    | slice l =>
      have hl : ∀ c ∈ l, ∀ s, runHandleCommandXD hcT ⟨[], hit, tree, self0, fpF, htF, cpF, fwF⟩ e fuel d s c = some (eHandleCommand e (fuel + 1) s c) := by
        intro c hc s
        have := depth_mem l c hc
        rw [cmdDepth] at hd
        exact ih s c (by omega)
      rw [eHC_slice, runHandleCommandXD]
      generalize runHandleCommandXD hcT _ e fuel d = run at hl ⊢
      obtain ⟨m', hm, hs'⟩ := hc_range e fuel "v3" run (fun s c => eHandleCommand e (fuel + 1) s c) l
        ⟨⟨s, [], [], [("v1", .slice l), ("v0", .slice l)], [], []⟩, (⟨[], hit, tree, run, fpF, htF, cpF, fwF⟩ : VX)⟩ rfl hl
      have heta : ({ s with trace := s.trace } : St) = s := rfl
      unfold hcT
      xs [heta, hm, hs']


/-- The parsed expected bodies of the callees. -/
def expC : Callees := ⟨VxfwBodyTree.htT, VxfwBodyExpected.containsPoint, VxfwBodyTree.fpT, VxfwBodyTree.chT, seqOf fwParts⟩

/-- The interpreters run on the callees' bodies compute the model functions. -/
theorem good_callees (e : EOracle) (fuel : Nat) : GoodX e fuel (calleesVX expC e fuel) where
  fp := by
    intro s
    simp only [calleesVX, expC]
    rw [VxfwBodyTree.fp_exec s]
    rfl
  ht := by
    intro t hs c r
    exact VxfwBodyTree.ht_run t hs c r
  cp := by
    intro t c r
    exact VxfwBodyTree.cp_run (0, 0, 0, t) c r
  fw := by
    intro s w
    simp only [calleesVX, expC, callFw]
    rw [fw_exec]
    rfl
  hitl0 := rfl

theorem mu_all (e : EOracle) (fuel : Nat) (s : St) (t : STree) :
    runMouseUpdateAll muT expC e fuel s t = some (eMouseUpdate e fuel s t) :=
  mu_exec_x e fuel _ (good_callees e fuel) s t

theorem up_all (e : EOracle) (fuel : Nat) (s : St) (t : STree) :
    runUpdatePathAll upT expC e fuel s t = some (eUpdatePath e (fuel + 1) s t) :=
  up_exec_x e fuel _ (good_callees e fuel) s t

theorem hc_all (e : EOracle) (fuel : Nat) (s : St) (c : Cmd) :
    runHandleCommandAll hcT expC e fuel s c = some (eHandleCommand e (fuel + 1) s c) :=
  hc_exec_x e fuel _ (good_callees e fuel) _ s c (Nat.lt_succ_self _)

/-! ### the Run loop -/

open VaxisModel.Lemmas.VxfwBodyRun in
theorem bRunFrameAll_eq (e : EOracle) (fuel : Nat) (s : St) (t1 t2 : STree) :
    bRunFrameAll expB expC e fuel s t1 t2 = some (eRunFrame e (fuel + 1) s t1 t2) := by
  unfold bRunFrameAll eRunFrame
  cases hr : s.redraw
  · rfl
  · simp only [Bool.not_true, Bool.false_eq_true, ↓reduceIte, expB, mu_all, up_all]
    split <;> rfl

open VaxisModel.Lemmas.VxfwBodyRun in
theorem bRunStepsAll_eq (e : EOracle) (fuel : Nat) : ∀ (steps : List Step) (s : St),
    bRunStepsAll expB expC e fuel s steps = some (eRunSteps e (fuel + 1) s steps)
  | [], _ => rfl
  | st :: rest, s => by
    have hst : bRunStepAll expB expC e fuel s st = some (eRunStep e (fuel + 1) s st) := by
      cases st with
      | ev ev => exact bRunEvent_eq e fuel s ev
      | frame t1 t2 => exact bRunFrameAll_eq e fuel s t1 t2
    unfold bRunStepsAll eRunSteps
    rw [hst]
    simp only []
    split
    · rfl
    · cases st with
      | ev ev =>
        simp only []
        split
        · rfl
        · exact bRunStepsAll_eq e fuel rest _
      | frame t1 t2 => exact bRunStepsAll_eq e fuel rest _

open VaxisModel.Lemmas.VxfwBodyRun in
theorem bRunAll_eq (e : EOracle) (fuel : Nat) (root : Id) (t0 : STree) (steps : List Step) :
    bRunAll expB expC e fuel root t0 steps = some (eRun e (fuel + 1) root t0 steps) := by
  unfold bRunAll eRun
  rw [bRunInit_eq]
  simp only []
  split
  · rfl
  · exact bRunStepsAll_eq e fuel steps _

end VaxisModel.Lemmas.VxfwBodyAll
