import VaxisModel.Model.GoSyn

/-! The body of `focusHandler.handleEvent` (vxfw/vxfw.go) that `Lemmas/VxfwBody.lean` executes: a copy of
    `Gen/VxfwBodies.focusHandleEvent` as of /repo b1816d3.  `Props/C15Body.body_as_expected` proves the
    regenerated body equal to it, so a change of the source shows up there. -/
namespace VaxisModel.Lemmas.VxfwBodyExpected
open VaxisModel.Model.GoSyn

/-- `focusHandler.handleEvent` -/
def focusHandleEvent : List Line := [
  ⟨0, .assign, (.var "v0.consumeEvent"), (.var "false")⟩,
  ⟨0, .define, (.var "v2"), (.var "r.path")⟩,
  ⟨0, .rangeS, (.pair (.var "_") (.var "v3")), (.var "v2")⟩,
  ⟨1, .define, (.pair (.var "v4") (.var "v5")), (.arg (.arg (.call (.var "assert")) (.var "v3")) (.var "EventCapturer"))⟩,
  ⟨1, .ifS, (.un "!" (.var "v5")), .none⟩,
  ⟨2, .continueS, .none, .none⟩,
  ⟨1, .define, (.pair (.var "v6") (.var "v7")), (.arg (.call (.var "v4.CaptureEvent")) (.var "v1"))⟩,
  ⟨1, .ifS, (.bin "!=" (.var "v7") (.var "nil")), .none⟩,
  ⟨2, .returnS, (.var "v7"), .none⟩,
  ⟨1, .exprS, (.arg (.call (.var "v0.handleCommand")) (.var "v6")), .none⟩,
  ⟨1, .ifS, (.var "v0.consumeEvent"), .none⟩,
  ⟨2, .assign, (.var "v0.consumeEvent"), (.var "false")⟩,
  ⟨2, .returnS, (.var "nil"), .none⟩,
  ⟨0, .define, (.pair (.var "v8") (.var "v9")), (.arg (.arg (.call (.var "r.focused.HandleEvent")) (.var "v1")) (.var "TargetPhase"))⟩,
  ⟨0, .ifS, (.bin "!=" (.var "v9") (.var "nil")), .none⟩,
  ⟨1, .returnS, (.var "v9"), .none⟩,
  ⟨0, .exprS, (.arg (.call (.var "v0.handleCommand")) (.var "v8")), .none⟩,
  ⟨0, .ifS, (.var "v0.consumeEvent"), .none⟩,
  ⟨1, .assign, (.var "v0.consumeEvent"), (.var "false")⟩,
  ⟨1, .returnS, (.var "nil"), .none⟩,
  ⟨0, .forInit, .none, .none⟩,
  ⟨1, .define, (.var "v10"), (.bin "-" (.arg (.call (.var "len")) (.var "v2")) (.int 2))⟩,
  ⟨0, .forS, (.bin ">=" (.var "v10") (.int 0)), .none⟩,
  ⟨1, .define, (.var "v11"), (.index (.var "v2") (.var "v10"))⟩,
  ⟨1, .define, (.pair (.var "v12") (.var "v13")), (.arg (.arg (.call (.var "v11.HandleEvent")) (.var "v1")) (.var "BubblePhase"))⟩,
  ⟨1, .ifS, (.bin "!=" (.var "v13") (.var "nil")), .none⟩,
  ⟨2, .returnS, (.var "v13"), .none⟩,
  ⟨1, .exprS, (.arg (.call (.var "v0.handleCommand")) (.var "v12")), .none⟩,
  ⟨1, .ifS, (.var "v0.consumeEvent"), .none⟩,
  ⟨2, .assign, (.var "v0.consumeEvent"), (.var "false")⟩,
  ⟨2, .returnS, (.var "nil"), .none⟩,
  ⟨1, .forPost, .none, .none⟩,
  ⟨2, .subAssign, (.var "v10"), (.int 1)⟩,
  ⟨0, .returnS, (.var "nil"), .none⟩]


/-- `mouseHandler.handleEvent` -/
def mouseHandleEvent : List Line := [
  ⟨0, .assign, (.var "r.mouse"), (.un "&" (.var "v1"))⟩,
  ⟨0, .define, (.var "v2"), (.arg (.arg (.call (.var "r.update")) (.var "v0")) (.var "r.lastFrame"))⟩,
  ⟨0, .ifS, (.bin "!=" (.var "v2") (.var "nil")), .none⟩,
  ⟨1, .returnS, (.var "v2"), .none⟩,
  ⟨0, .ifS, (.bin "==" (.arg (.call (.var "len")) (.var "r.lastHits")) (.int 0)), .none⟩,
  ⟨1, .returnS, (.var "nil"), .none⟩,
  ⟨0, .assign, (.var "v0.consumeEvent"), (.var "false")⟩,
  ⟨0, .rangeS, (.pair (.var "_") (.var "v3")), (.var "r.lastHits")⟩,
  ⟨1, .define, (.pair (.var "v4") (.var "v5")), (.arg (.arg (.call (.var "assert")) (.var "v3.w")) (.var "EventCapturer"))⟩,
  ⟨1, .ifS, (.un "!" (.var "v5")), .none⟩,
  ⟨2, .continueS, .none, .none⟩,
  ⟨1, .define, (.pair (.var "v6") (.var "v7")), (.arg (.call (.var "v4.CaptureEvent")) (.var "v1"))⟩,
  ⟨1, .ifS, (.bin "!=" (.var "v7") (.var "nil")), .none⟩,
  ⟨2, .returnS, (.var "v7"), .none⟩,
  ⟨1, .exprS, (.arg (.call (.var "v0.handleCommand")) (.var "v6")), .none⟩,
  ⟨1, .ifS, (.var "v0.consumeEvent"), .none⟩,
  ⟨2, .assign, (.var "v0.consumeEvent"), (.var "false")⟩,
  ⟨2, .returnS, (.var "nil"), .none⟩,
  ⟨0, .define, (.var "v8"), (.index (.var "r.lastHits") (.bin "-" (.arg (.call (.var "len")) (.var "r.lastHits")) (.int 1)))⟩,
  ⟨0, .define, (.pair (.var "v9") (.var "v2")), (.arg (.arg (.call (.var "v8.w.HandleEvent")) (.var "v1")) (.var "TargetPhase"))⟩,
  ⟨0, .ifS, (.bin "!=" (.var "v2") (.var "nil")), .none⟩,
  ⟨1, .returnS, (.var "v2"), .none⟩,
  ⟨0, .exprS, (.arg (.call (.var "v0.handleCommand")) (.var "v9")), .none⟩,
  ⟨0, .ifS, (.var "v0.consumeEvent"), .none⟩,
  ⟨1, .assign, (.var "v0.consumeEvent"), (.var "false")⟩,
  ⟨1, .returnS, (.var "nil"), .none⟩,
  ⟨0, .forInit, .none, .none⟩,
  ⟨1, .define, (.var "v10"), (.bin "-" (.arg (.call (.var "len")) (.var "r.lastHits")) (.int 2))⟩,
  ⟨0, .forS, (.bin ">=" (.var "v10") (.int 0)), .none⟩,
  ⟨1, .define, (.var "v11"), (.index (.var "r.lastHits") (.var "v10"))⟩,
  ⟨1, .define, (.pair (.var "v12") (.var "v13")), (.arg (.arg (.call (.var "v11.w.HandleEvent")) (.var "v1")) (.var "BubblePhase"))⟩,
  ⟨1, .ifS, (.bin "!=" (.var "v13") (.var "nil")), .none⟩,
  ⟨2, .returnS, (.var "v13"), .none⟩,
  ⟨1, .exprS, (.arg (.call (.var "v0.handleCommand")) (.var "v12")), .none⟩,
  ⟨1, .ifS, (.var "v0.consumeEvent"), .none⟩,
  ⟨2, .assign, (.var "v0.consumeEvent"), (.var "false")⟩,
  ⟨2, .returnS, (.var "nil"), .none⟩,
  ⟨1, .forPost, .none, .none⟩,
  ⟨2, .subAssign, (.var "v10"), (.int 1)⟩,
  ⟨0, .returnS, (.var "nil"), .none⟩]


/-- `focusHandler.focusWidget` -/
def focusWidget : List Line := [
  ⟨0, .ifS, (.bin "==" (.var "r.focused") (.var "v1")), .none⟩,
  ⟨1, .returnS, (.var "nil"), .none⟩,
  ⟨0, .define, (.pair (.var "v2") (.var "v3")), (.arg (.arg (.call (.var "r.focused.HandleEvent")) (.lit "vaxis.FocusOut{}")) (.var "TargetPhase"))⟩,
  ⟨0, .ifS, (.bin "!=" (.var "v3") (.var "nil")), .none⟩,
  ⟨1, .returnS, (.var "v3"), .none⟩,
  ⟨0, .assign, (.var "r.focused"), (.var "v1")⟩,
  ⟨0, .exprS, (.call (.var "r.findPath")), .none⟩,
  ⟨0, .define, (.pair (.var "v4") (.var "v3")), (.arg (.arg (.call (.var "v1.HandleEvent")) (.lit "vaxis.FocusIn{}")) (.var "TargetPhase"))⟩,
  ⟨0, .exprS, (.arg (.call (.var "v0.handleCommand")) (.var "v2")), .none⟩,
  ⟨0, .ifS, (.bin "!=" (.var "v3") (.var "nil")), .none⟩,
  ⟨1, .returnS, (.var "v3"), .none⟩,
  ⟨0, .exprS, (.arg (.call (.var "v0.handleCommand")) (.var "v4")), .none⟩,
  ⟨0, .returnS, (.var "nil"), .none⟩]


/-- `mouseHandler.mouseExit` -/
def mouseExit : List Line := [
  ⟨0, .rangeS, (.pair (.var "_") (.var "v1")), (.var "r.lastHits")⟩,
  ⟨1, .define, (.pair (.var "v2") (.var "v3")), (.arg (.arg (.call (.var "v1.w.HandleEvent")) (.lit "MouseLeave{}")) (.var "TargetPhase"))⟩,
  ⟨1, .ifS, (.bin "!=" (.var "v3") (.var "nil")), .none⟩,
  ⟨2, .returnS, (.var "v3"), .none⟩,
  ⟨1, .exprS, (.arg (.call (.var "v0.handleCommand")) (.var "v2")), .none⟩,
  ⟨0, .assign, (.var "r.lastHits"), (.lit "[]hitResult{}")⟩,
  ⟨0, .returnS, (.var "nil"), .none⟩]

/-- `mouseHandler.mouseEnter` -/
def mouseEnter : List Line := [
  ⟨0, .rangeS, (.pair (.var "_") (.var "v2")), (.var "r.lastHits")⟩,
  ⟨1, .ifS, (.bin "==" (.var "v2.w") (.var "v1")), .none⟩,
  ⟨2, .returnS, (.var "nil"), .none⟩,
  ⟨0, .assign, (.var "r.lastHits"), (.arg (.arg (.call (.var "append")) (.var "r.lastHits")) (.lit "hitResult{v1:v1}"))⟩,
  ⟨0, .define, (.pair (.var "v3") (.var "v4")), (.arg (.arg (.call (.var "v1.HandleEvent")) (.lit "MouseEnter{}")) (.var "TargetPhase"))⟩,
  ⟨0, .ifS, (.bin "!=" (.var "v4") (.var "nil")), .none⟩,
  ⟨1, .returnS, (.var "v4"), .none⟩,
  ⟨0, .exprS, (.arg (.call (.var "v0.handleCommand")) (.var "v3")), .none⟩,
  ⟨0, .returnS, (.var "nil"), .none⟩]


end VaxisModel.Lemmas.VxfwBodyExpected
