import VaxisModel.Model.GoSyn

/-! The body of `focusHandler.handleEvent` (vxfw/vxfw.go) that `Lemmas/VxfwBody.lean` executes: a copy of
    `Gen/VxfwBodies.focusHandleEvent` as of /repo b1816d3.  `Props/C15Body.body_as_expected` proves the
    regenerated body equal to it, so a change of the source shows up there. -/
namespace VaxisModel.Lemmas.VxfwBodyExpected
open VaxisModel.Model.GoSyn

/-- `focusHandler.handleEvent` -/
def focusHandleEvent : List Line := [
  ⟨0, .assign, (.var "v0.consumeEvent"), (.var "false")⟩,
  ⟨0, .define, (.var "v2"), (.var "r.path")⟩,
  ⟨0, .rangeS, (.pair (.var "_") (.var "v3")), (.var "v2")⟩,
  ⟨1, .define, (.pair (.var "v4") (.var "v5")), (.arg (.arg (.call (.var "assert")) (.var "v3")) (.var "EventCapturer"))⟩,
  ⟨1, .ifS, (.un "!" (.var "v5")), .none⟩,
  ⟨2, .continueS, .none, .none⟩,
  ⟨1, .define, (.pair (.var "v6") (.var "v7")), (.arg (.call (.var "v4.CaptureEvent")) (.var "v1"))⟩,
  ⟨1, .ifS, (.bin "!=" (.var "v7") (.var "nil")), .none⟩,
  ⟨2, .returnS, (.var "v7"), .none⟩,
  ⟨1, .exprS, (.arg (.call (.var "v0.handleCommand")) (.var "v6")), .none⟩,
  ⟨1, .ifS, (.var "v0.consumeEvent"), .none⟩,
  ⟨2, .assign, (.var "v0.consumeEvent"), (.var "false")⟩,
  ⟨2, .returnS, (.var "nil"), .none⟩,
  ⟨0, .define, (.pair (.var "v8") (.var "v9")), (.arg (.arg (.call (.var "r.focused.HandleEvent")) (.var "v1")) (.var "TargetPhase"))⟩,
  ⟨0, .ifS, (.bin "!=" (.var "v9") (.var "nil")), .none⟩,
  ⟨1, .returnS, (.var "v9"), .none⟩,
  ⟨0, .exprS, (.arg (.call (.var "v0.handleCommand")) (.var "v8")), .none⟩,
  ⟨0, .ifS, (.var "v0.consumeEvent"), .none⟩,
  ⟨1, .assign, (.var "v0.consumeEvent"), (.var "false")⟩,
  ⟨1, .returnS, (.var "nil"), .none⟩,
  ⟨0, .forInit, .none, .none⟩,
  ⟨1, .define, (.var "v10"), (.bin "-" (.arg (.call (.var "len")) (.var "v2")) (.int 2))⟩,
  ⟨0, .forS, (.bin ">=" (.var "v10") (.int 0)), .none⟩,
  ⟨1, .define, (.var "v11"), (.index (.var "v2") (.var "v10"))⟩,
  ⟨1, .define, (.pair (.var "v12") (.var "v13")), (.arg (.arg (.call (.var "v11.HandleEvent")) (.var "v1")) (.var "BubblePhase"))⟩,
  ⟨1, .ifS, (.bin "!=" (.var "v13") (.var "nil")), .none⟩,
  ⟨2, .returnS, (.var "v13"), .none⟩,
  ⟨1, .exprS, (.arg (.call (.var "v0.handleCommand")) (.var "v12")), .none⟩,
  ⟨1, .ifS, (.var "v0.consumeEvent"), .none⟩,
  ⟨2, .assign, (.var "v0.consumeEvent"), (.var "false")⟩,
  ⟨2, .returnS, (.var "nil"), .none⟩,
  ⟨1, .forPost, .none, .none⟩,
  ⟨2, .subAssign, (.var "v10"), (.int 1)⟩,
  ⟨0, .returnS, (.var "nil"), .none⟩]


/-- `mouseHandler.handleEvent` -/
def mouseHandleEvent : List Line := [
  ⟨0, .assign, (.var "r.mouse"), (.un "&" (.var "v1"))⟩,
  ⟨0, .define, (.var "v2"), (.arg (.arg (.call (.var "r.update")) (.var "v0")) (.var "r.lastFrame"))⟩,
  ⟨0, .ifS, (.bin "!=" (.var "v2") (.var "nil")), .none⟩,
  ⟨1, .returnS, (.var "v2"), .none⟩,
  ⟨0, .ifS, (.bin "==" (.arg (.call (.var "len")) (.var "r.lastHits")) (.int 0)), .none⟩,
  ⟨1, .returnS, (.var "nil"), .none⟩,
  ⟨0, .assign, (.var "v0.consumeEvent"), (.var "false")⟩,
  ⟨0, .rangeS, (.pair (.var "_") (.var "v3")), (.var "r.lastHits")⟩,
  ⟨1, .define, (.pair (.var "v4") (.var "v5")), (.arg (.arg (.call (.var "assert")) (.var "v3.w")) (.var "EventCapturer"))⟩,
  ⟨1, .ifS, (.un "!" (.var "v5")), .none⟩,
  ⟨2, .continueS, .none, .none⟩,
  ⟨1, .define, (.pair (.var "v6") (.var "v7")), (.arg (.call (.var "v4.CaptureEvent")) (.var "v1"))⟩,
  ⟨1, .ifS, (.bin "!=" (.var "v7") (.var "nil")), .none⟩,
  ⟨2, .returnS, (.var "v7"), .none⟩,
  ⟨1, .exprS, (.arg (.call (.var "v0.handleCommand")) (.var "v6")), .none⟩,
  ⟨1, .ifS, (.var "v0.consumeEvent"), .none⟩,
  ⟨2, .assign, (.var "v0.consumeEvent"), (.var "false")⟩,
  ⟨2, .returnS, (.var "nil"), .none⟩,
  ⟨0, .define, (.var "v8"), (.index (.var "r.lastHits") (.bin "-" (.arg (.call (.var "len")) (.var "r.lastHits")) (.int 1)))⟩,
  ⟨0, .define, (.pair (.var "v9") (.var "v2")), (.arg (.arg (.call (.var "v8.w.HandleEvent")) (.var "v1")) (.var "TargetPhase"))⟩,
  ⟨0, .ifS, (.bin "!=" (.var "v2") (.var "nil")), .none⟩,
  ⟨1, .returnS, (.var "v2"), .none⟩,
  ⟨0, .exprS, (.arg (.call (.var "v0.handleCommand")) (.var "v9")), .none⟩,
  ⟨0, .ifS, (.var "v0.consumeEvent"), .none⟩,
  ⟨1, .assign, (.var "v0.consumeEvent"), (.var "false")⟩,
  ⟨1, .returnS, (.var "nil"), .none⟩,
  ⟨0, .forInit, .none, .none⟩,
  ⟨1, .define, (.var "v10"), (.bin "-" (.arg (.call (.var "len")) (.var "r.lastHits")) (.int 2))⟩,
  ⟨0, .forS, (.bin ">=" (.var "v10") (.int 0)), .none⟩,
  ⟨1, .define, (.var "v11"), (.index (.var "r.lastHits") (.var "v10"))⟩,
  ⟨1, .define, (.pair (.var "v12") (.var "v13")), (.arg (.arg (.call (.var "v11.w.HandleEvent")) (.var "v1")) (.var "BubblePhase"))⟩,
  ⟨1, .ifS, (.bin "!=" (.var "v13") (.var "nil")), .none⟩,
  ⟨2, .returnS, (.var "v13"), .none⟩,
  ⟨1, .exprS, (.arg (.call (.var "v0.handleCommand")) (.var "v12")), .none⟩,
  ⟨1, .ifS, (.var "v0.consumeEvent"), .none⟩,
  ⟨2, .assign, (.var "v0.consumeEvent"), (.var "false")⟩,
  ⟨2, .returnS, (.var "nil"), .none⟩,
  ⟨1, .forPost, .none, .none⟩,
  ⟨2, .subAssign, (.var "v10"), (.int 1)⟩,
  ⟨0, .returnS, (.var "nil"), .none⟩]


/-- `focusHandler.focusWidget` -/
def focusWidget : List Line := [
  ⟨0, .ifS, (.bin "==" (.var "r.focused") (.var "v1")), .none⟩,
  ⟨1, .returnS, (.var "nil"), .none⟩,
  ⟨0, .define, (.pair (.var "v2") (.var "v3")), (.arg (.arg (.call (.var "r.focused.HandleEvent")) (.lit "vaxis.FocusOut{}")) (.var "TargetPhase"))⟩,
  ⟨0, .ifS, (.bin "!=" (.var "v3") (.var "nil")), .none⟩,
  ⟨1, .returnS, (.var "v3"), .none⟩,
  ⟨0, .assign, (.var "r.focused"), (.var "v1")⟩,
  ⟨0, .exprS, (.call (.var "r.findPath")), .none⟩,
  ⟨0, .define, (.pair (.var "v4") (.var "v3")), (.arg (.arg (.call (.var "v1.HandleEvent")) (.lit "vaxis.FocusIn{}")) (.var "TargetPhase"))⟩,
  ⟨0, .exprS, (.arg (.call (.var "v0.handleCommand")) (.var "v2")), .none⟩,
  ⟨0, .ifS, (.bin "!=" (.var "v3") (.var "nil")), .none⟩,
  ⟨1, .returnS, (.var "v3"), .none⟩,
  ⟨0, .exprS, (.arg (.call (.var "v0.handleCommand")) (.var "v4")), .none⟩,
  ⟨0, .returnS, (.var "nil"), .none⟩]


/-- `mouseHandler.mouseExit` -/
def mouseExit : List Line := [
  ⟨0, .rangeS, (.pair (.var "_") (.var "v1")), (.var "r.lastHits")⟩,
  ⟨1, .define, (.pair (.var "v2") (.var "v3")), (.arg (.arg (.call (.var "v1.w.HandleEvent")) (.lit "MouseLeave{}")) (.var "TargetPhase"))⟩,
  ⟨1, .ifS, (.bin "!=" (.var "v3") (.var "nil")), .none⟩,
  ⟨2, .returnS, (.var "v3"), .none⟩,
  ⟨1, .exprS, (.arg (.call (.var "v0.handleCommand")) (.var "v2")), .none⟩,
  ⟨0, .assign, (.var "r.lastHits"), (.lit "[]hitResult{}")⟩,
  ⟨0, .returnS, (.var "nil"), .none⟩]

/-- `mouseHandler.mouseEnter` -/
def mouseEnter : List Line := [
  ⟨0, .rangeS, (.pair (.var "_") (.var "v2")), (.var "r.lastHits")⟩,
  ⟨1, .ifS, (.bin "==" (.var "v2.w") (.var "v1")), .none⟩,
  ⟨2, .returnS, (.var "nil"), .none⟩,
  ⟨0, .assign, (.var "r.lastHits"), (.arg (.arg (.call (.var "append")) (.var "r.lastHits")) (.lit "hitResult{v1:v1}"))⟩,
  ⟨0, .define, (.pair (.var "v3") (.var "v4")), (.arg (.arg (.call (.var "v1.HandleEvent")) (.lit "MouseEnter{}")) (.var "TargetPhase"))⟩,
  ⟨0, .ifS, (.bin "!=" (.var "v4") (.var "nil")), .none⟩,
  ⟨1, .returnS, (.var "v4"), .none⟩,
  ⟨0, .exprS, (.arg (.call (.var "v0.handleCommand")) (.var "v3")), .none⟩,
  ⟨0, .returnS, (.var "nil"), .none⟩]


/-- `focusHandler.updatePath` -/
def updatePath : List Line := [
  ⟨0, .assign, (.var "r.lastFrame"), (.var "v1")⟩,
  ⟨0, .ifS, (.un "!" (.call (.var "r.findPath"))), .none⟩,
  ⟨1, .assign, (.var "_"), (.arg (.arg (.call (.var "r.focusWidget")) (.var "v0")) (.var "r.root"))⟩]

/-- `mouseHandler.update` -/
def mouseUpdate : List Line := [
  ⟨0, .ifS, (.bin "==" (.var "r.mouse") (.var "nil")), .none⟩,
  ⟨1, .returnS, (.var "nil"), .none⟩,
  ⟨0, .define, (.var "v2"), (.lit "[]hitResult{}")⟩,
  ⟨0, .define, (.var "v3"), (.arg (.arg (.arg (.call (.var "NewSubSurface")) (.int 0)) (.int 0)) (.var "v1"))⟩,
  ⟨0, .ifS, (.arg (.arg (.call (.var "v3.containsPoint")) (.var "r.mouse.Col")) (.var "r.mouse.Row")), .none⟩,
  ⟨1, .assign, (.var "v2"), (.arg (.arg (.arg (.arg (.call (.var "hitTest")) (.var "v1")) (.var "v2")) (.arg (.call (.var "uint16")) (.var "r.mouse.Col"))) (.arg (.call (.var "uint16")) (.var "r.mouse.Row")))⟩,
  ⟨0, .rangeS, (.pair (.var "_") (.var "v4")), (.var "r.lastHits")⟩,
  ⟨1, .rangeS, (.pair (.var "_") (.var "v5")), (.var "v2")⟩,
  ⟨2, .ifS, (.bin "==" (.var "v4") (.var "v5")), .none⟩,
  ⟨3, .continueS, (.var "L"), (.int 1)⟩,
  ⟨1, .define, (.pair (.var "v6") (.var "v7")), (.arg (.arg (.call (.var "v4.w.HandleEvent")) (.lit "MouseLeave{}")) (.var "TargetPhase"))⟩,
  ⟨1, .ifS, (.bin "!=" (.var "v7") (.var "nil")), .none⟩,
  ⟨2, .returnS, (.var "v7"), .none⟩,
  ⟨1, .exprS, (.arg (.call (.var "v0.handleCommand")) (.var "v6")), .none⟩,
  ⟨0, .rangeS, (.pair (.var "_") (.var "v8")), (.var "v2")⟩,
  ⟨1, .rangeS, (.pair (.var "_") (.var "v9")), (.var "r.lastHits")⟩,
  ⟨2, .ifS, (.bin "==" (.var "v8") (.var "v9")), .none⟩,
  ⟨3, .continueS, (.var "L"), (.int 1)⟩,
  ⟨1, .define, (.pair (.var "v10") (.var "v11")), (.arg (.arg (.call (.var "v8.w.HandleEvent")) (.lit "MouseEnter{}")) (.var "TargetPhase"))⟩,
  ⟨1, .ifS, (.bin "!=" (.var "v11") (.var "nil")), .none⟩,
  ⟨2, .returnS, (.var "v11"), .none⟩,
  ⟨1, .exprS, (.arg (.call (.var "v0.handleCommand")) (.var "v10")), .none⟩,
  ⟨0, .assign, (.var "r.lastHits"), (.var "v2")⟩,
  ⟨0, .returnS, (.var "nil"), .none⟩]

/-- `App.handleCommand` -/
def handleCommand : List Line := [
  ⟨0, .typeSwitchS, (.lit "v1 := v0.(type)"), .none⟩,
  ⟨1, .caseS, (.var "BatchCmd"), .none⟩,
  ⟨2, .rangeS, (.pair (.var "_") (.var "v2")), (.var "v1")⟩,
  ⟨3, .exprS, (.arg (.call (.var "r.handleCommand")) (.var "v2")), .none⟩,
  ⟨1, .caseS, (.lit "[]Command"), .none⟩,
  ⟨2, .rangeS, (.pair (.var "_") (.var "v3")), (.var "v1")⟩,
  ⟨3, .exprS, (.arg (.call (.var "r.handleCommand")) (.var "v3")), .none⟩,
  ⟨1, .caseS, (.var "RedrawCmd"), .none⟩,
  ⟨2, .assign, (.var "r.redraw"), (.var "true")⟩,
  ⟨1, .caseS, (.var "RefreshCmd"), .none⟩,
  ⟨2, .assign, (.var "r.refresh"), (.var "true")⟩,
  ⟨1, .caseS, (.var "QuitCmd"), .none⟩,
  ⟨2, .assign, (.var "r.shouldQuit"), (.var "true")⟩,
  ⟨1, .caseS, (.var "ConsumeEventCmd"), .none⟩,
  ⟨2, .assign, (.var "r.consumeEvent"), (.var "true")⟩,
  ⟨1, .caseS, (.var "FocusWidgetCmd"), .none⟩,
  ⟨2, .define, (.var "v4"), (.arg (.arg (.call (.var "r.fh.focusWidget")) (.var "r")) (.var "v1"))⟩,
  ⟨2, .ifS, (.bin "!=" (.var "v4") (.var "nil")), .none⟩,
  ⟨3, .exprS, (.arg (.arg (.call (.var "log.Error")) (.lit "\"focusWidget error: %s\"")) (.var "v4")), .none⟩,
  ⟨3, .returnS, .none, .none⟩,
  ⟨1, .caseS, (.var "SetMouseShapeCmd"), .none⟩,
  ⟨2, .exprS, (.arg (.call (.var "r.vx.SetMouseShape")) (.arg (.call (.var "vaxis.MouseShape")) (.var "v1"))), .none⟩,
  ⟨1, .caseS, (.var "SetTitleCmd"), .none⟩,
  ⟨2, .exprS, (.arg (.call (.var "r.vx.SetTitle")) (.arg (.call (.var "string")) (.var "v1"))), .none⟩,
  ⟨1, .caseS, (.var "CopyToClipboardCmd"), .none⟩,
  ⟨2, .exprS, (.arg (.call (.var "r.vx.ClipboardPush")) (.arg (.call (.var "string")) (.var "v1"))), .none⟩,
  ⟨1, .caseS, (.var "SendNotificationCmd"), .none⟩,
  ⟨2, .exprS, (.arg (.arg (.call (.var "r.vx.Notify")) (.var "v1.Title")) (.var "v1.Body")), .none⟩,
  ⟨1, .caseS, (.var "DebugCmd"), .none⟩,
  ⟨2, .assign, (.var "r.debug"), (.var "true")⟩,
  ⟨2, .assign, (.var "r.redraw"), (.var "true")⟩]

/-- `.hitTest` -/
def hitTest : List Line := [
  ⟨0, .define, (.var "v4"), (.lit "hitResult{v2:v2,v3:v3,w:v0.Widget}")⟩,
  ⟨0, .assign, (.var "v1"), (.arg (.arg (.call (.var "append")) (.var "v1")) (.var "v4"))⟩,
  ⟨0, .rangeS, (.pair (.var "_") (.var "v5")), (.var "v0.Children")⟩,
  ⟨1, .ifS, (.un "!" (.arg (.arg (.call (.var "v5.containsPoint")) (.arg (.call (.var "int")) (.var "v2"))) (.arg (.call (.var "int")) (.var "v3")))), .none⟩,
  ⟨2, .continueS, .none, .none⟩,
  ⟨1, .define, (.var "v6"), (.bin "-" (.var "v2") (.arg (.call (.var "uint16")) (.var "v5.Origin.Col")))⟩,
  ⟨1, .define, (.var "v7"), (.bin "-" (.var "v3") (.arg (.call (.var "uint16")) (.var "v5.Origin.Row")))⟩,
  ⟨1, .assign, (.var "v1"), (.arg (.arg (.arg (.arg (.call (.var "hitTest")) (.var "v5.Surface")) (.var "v1")) (.var "v6")) (.var "v7"))⟩,
  ⟨0, .returnS, (.var "v1"), .none⟩]

/-- `SubSurface.containsPoint` -/
def containsPoint : List Line := [
  ⟨0, .returnS, (.bin "&&" (.bin "&&" (.bin "&&" (.bin ">=" (.var "v0") (.var "r.Origin.Col")) (.bin "<" (.var "v0") (.bin "+" (.var "r.Origin.Col") (.arg (.call (.var "int")) (.var "r.Surface.Size.Width"))))) (.bin ">=" (.var "v1") (.var "r.Origin.Row"))) (.bin "<" (.var "v1") (.bin "+" (.var "r.Origin.Row") (.arg (.call (.var "int")) (.var "r.Surface.Size.Height"))))), .none⟩]

/-- `focusHandler.childHasFocus` -/
def childHasFocus : List Line := [
  ⟨0, .ifS, (.bin "==" (.var "v0.Widget") (.var "r.focused")), .none⟩,
  ⟨1, .assign, (.var "r.path"), (.arg (.arg (.call (.var "append")) (.var "r.path")) (.var "v0.Widget"))⟩,
  ⟨1, .returnS, (.var "true"), .none⟩,
  ⟨0, .rangeS, (.pair (.var "_") (.var "v1")), (.var "v0.Children")⟩,
  ⟨1, .ifS, (.un "!" (.arg (.call (.var "r.childHasFocus")) (.var "v1.Surface"))), .none⟩,
  ⟨2, .continueS, .none, .none⟩,
  ⟨1, .assign, (.var "r.path"), (.arg (.arg (.call (.var "append")) (.var "r.path")) (.var "v0.Widget"))⟩,
  ⟨1, .returnS, (.var "true"), .none⟩,
  ⟨0, .returnS, (.var "false"), .none⟩]

/-- `focusHandler.findPath` -/
def findPath : List Line := [
  ⟨0, .assign, (.var "r.path"), (.lit "[]Widget{}")⟩,
  ⟨0, .define, (.var "v0"), (.arg (.call (.var "r.childHasFocus")) (.var "r.lastFrame"))⟩,
  ⟨0, .ifS, (.bin "||" (.bin "!=" (.var "r.root") (.var "r.lastFrame.Widget")) (.bin "==" (.arg (.call (.var "len")) (.var "r.path")) (.int 0))), .none⟩,
  ⟨1, .assign, (.var "r.path"), (.arg (.arg (.call (.var "append")) (.var "r.path")) (.var "r.root"))⟩,
  ⟨0, .forInit, .none, .none⟩,
  ⟨1, .define, (.var "v1"), (.int 0)⟩,
  ⟨0, .forS, (.bin "<" (.var "v1") (.bin "/" (.arg (.call (.var "len")) (.var "r.path")) (.int 2))), .none⟩,
  ⟨1, .assign, (.pair (.index (.var "r.path") (.var "v1")) (.index (.var "r.path") (.bin "-" (.bin "-" (.arg (.call (.var "len")) (.var "r.path")) (.int 1)) (.var "v1")))), (.pair (.index (.var "r.path") (.bin "-" (.bin "-" (.arg (.call (.var "len")) (.var "r.path")) (.int 1)) (.var "v1"))) (.index (.var "r.path") (.var "v1")))⟩,
  ⟨1, .forPost, .none, .none⟩,
  ⟨2, .addAssign, (.var "v1"), (.int 1)⟩,
  ⟨0, .returnS, (.var "v0"), .none⟩]

/-- App.Run, the arm `case ev := <-a.vx.Events()` -/
def runEventBlock : List Line := [
  ⟨0, .typeSwitchS, (.lit "v5 := v4.(type)"), .none⟩,
  ⟨1, .caseS, (.var "vaxis.Resize"), .none⟩,
  ⟨2, .assign, (.var "r.redraw"), (.var "true")⟩,
  ⟨1, .caseS, (.var "vaxis.Mouse"), .none⟩,
  ⟨2, .define, (.var "v6"), (.arg (.arg (.call (.var "v3.handleEvent")) (.var "r")) (.var "v5"))⟩,
  ⟨2, .ifS, (.bin "!=" (.var "v6") (.var "nil")), .none⟩,
  ⟨3, .returnS, (.var "v6"), .none⟩,
  ⟨1, .caseS, (.var "vaxis.FocusIn"), .none⟩,
  ⟨2, .define, (.var "v7"), (.arg (.arg (.call (.var "v3.mouseEnter")) (.var "r")) (.var "v0"))⟩,
  ⟨2, .ifS, (.bin "!=" (.var "v7") (.var "nil")), .none⟩,
  ⟨3, .returnS, (.var "v7"), .none⟩,
  ⟨1, .caseS, (.var "vaxis.FocusOut"), .none⟩,
  ⟨2, .assign, (.var "v3.mouse"), (.var "nil")⟩,
  ⟨2, .define, (.var "v8"), (.arg (.call (.var "v3.mouseExit")) (.var "r"))⟩,
  ⟨2, .ifS, (.bin "!=" (.var "v8") (.var "nil")), .none⟩,
  ⟨3, .returnS, (.var "v8"), .none⟩,
  ⟨1, .caseS, (.var "vaxis.Key"), .none⟩,
  ⟨2, .define, (.var "v9"), (.arg (.arg (.call (.var "r.fh.handleEvent")) (.var "r")) (.var "v5"))⟩,
  ⟨2, .ifS, (.bin "!=" (.var "v9") (.var "nil")), .none⟩,
  ⟨3, .returnS, (.var "v9"), .none⟩,
  ⟨1, .caseS, (.var "vaxis.Redraw"), .none⟩,
  ⟨2, .assign, (.var "r.redraw"), (.var "true")⟩,
  ⟨1, .caseS, (.var "default"), .none⟩,
  ⟨2, .define, (.var "v10"), (.arg (.arg (.call (.var "r.fh.handleEvent")) (.var "r")) (.var "v5"))⟩,
  ⟨2, .ifS, (.bin "!=" (.var "v10") (.var "nil")), .none⟩,
  ⟨3, .returnS, (.var "v10"), .none⟩,
  ⟨0, .ifS, (.var "r.shouldQuit"), .none⟩,
  ⟨1, .returnS, (.var "nil"), .none⟩]

/-- App.Run, the arm `case <-time.After(…)` -/
def runFrameBlock : List Line := [
  ⟨0, .ifS, (.un "!" (.var "r.redraw")), .none⟩,
  ⟨1, .continueS, .none, .none⟩,
  ⟨0, .assign, (.var "r.redraw"), (.var "false")⟩,
  ⟨0, .define, (.pair (.var "v11") (.var "v12")), (.arg (.call (.var "r.layout")) (.var "v0"))⟩,
  ⟨0, .ifS, (.bin "!=" (.var "v12") (.var "nil")), .none⟩,
  ⟨1, .returnS, (.var "v12"), .none⟩,
  ⟨0, .assign, (.var "v12"), (.arg (.arg (.call (.var "v3.update")) (.var "r")) (.var "v11"))⟩,
  ⟨0, .ifS, (.bin "!=" (.var "v12") (.var "nil")), .none⟩,
  ⟨1, .returnS, (.var "v12"), .none⟩,
  ⟨0, .ifS, (.var "r.redraw"), .none⟩,
  ⟨1, .assign, (.var "r.redraw"), (.var "false")⟩,
  ⟨1, .assign, (.pair (.var "v11") (.var "v12")), (.arg (.call (.var "r.layout")) (.var "v0"))⟩,
  ⟨1, .ifS, (.bin "!=" (.var "v12") (.var "nil")), .none⟩,
  ⟨2, .returnS, (.var "v12"), .none⟩,
  ⟨0, .define, (.var "v13"), (.call (.var "r.vx.Window"))⟩,
  ⟨0, .exprS, (.call (.var "v13.Clear")), .none⟩,
  ⟨0, .exprS, (.call (.var "r.vx.HideCursor")), .none⟩,
  ⟨0, .exprS, (.arg (.arg (.call (.var "v11.render")) (.arg (.arg (.arg (.arg (.call (.var "v13.New")) (.int 0)) (.int 0)) (.arg (.call (.var "int")) (.var "v11.Size.Width"))) (.arg (.call (.var "int")) (.var "v11.Size.Height")))) (.var "r.fh.focused")), .none⟩,
  ⟨0, .switchS, (.var "r.refresh"), .none⟩,
  ⟨1, .caseS, (.var "true"), .none⟩,
  ⟨2, .exprS, (.call (.var "r.vx.Refresh")), .none⟩,
  ⟨2, .assign, (.var "r.refresh"), (.var "false")⟩,
  ⟨1, .caseS, (.var "false"), .none⟩,
  ⟨2, .exprS, (.call (.var "r.vx.Render")), .none⟩,
  ⟨0, .ifS, (.var "r.debug"), .none⟩,
  ⟨1, .exprS, (.arg (.arg (.arg (.call (.var "debugPrintWidget")) (.var "v11")) (.int 0)) (.var "r.fh.focused")), .none⟩,
  ⟨1, .assign, (.var "r.debug"), (.var "false")⟩,
  ⟨0, .exprS, (.arg (.arg (.call (.var "r.fh.updatePath")) (.var "r")) (.var "v11")), .none⟩,
  ⟨0, .assign, (.var "v3.lastFrame"), (.var "v11")⟩]

end VaxisModel.Lemmas.VxfwBodyExpected
