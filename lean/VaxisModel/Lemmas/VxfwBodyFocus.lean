import VaxisModel.Lemmas.VxfwBody

/-! `focusHandler.focusWidget`, executed from its body, is `Model.Vxfw.eFocusWidgetWith` (what is returned
    where: the FocusOut handler's error before anything changes; the FocusIn handler's error after the
    FocusOut handler's command has been handled). -/
set_option linter.unusedSimpArgs false
set_option linter.unusedVariables false

namespace VaxisModel.Lemmas.VxfwBody
open VaxisModel.Model VaxisModel.Model.GoSyn VaxisModel.Model.Vxfw VaxisModel.Model.VxfwInterp
open VaxisModel.Model.DynExec (Stmt parseBody)

def fw0 : Stmt :=
  (.ite (.bin "==" (.var "r.focused") (.var "v1"))
    (.seq (.atom ⟨1, .returnS, (.var "nil"), .none⟩)
    .skip)
    .skip)

def fw1 : Stmt :=
  (.atom ⟨0, .define, (.pair (.var "v2") (.var "v3")), (.arg (.arg (.call (.var "r.focused.HandleEvent")) (.lit "vaxis.FocusOut{}")) (.var "TargetPhase"))⟩)

def fw2 : Stmt :=
  (.ite (.bin "!=" (.var "v3") (.var "nil"))
    (.seq (.atom ⟨1, .returnS, (.var "v3"), .none⟩)
    .skip)
    .skip)

def fw3 : Stmt :=
  (.atom ⟨0, .assign, (.var "r.focused"), (.var "v1")⟩)

def fw4 : Stmt :=
  (.atom ⟨0, .exprS, (.call (.var "r.findPath")), .none⟩)

def fw5 : Stmt :=
  (.atom ⟨0, .define, (.pair (.var "v4") (.var "v3")), (.arg (.arg (.call (.var "v1.HandleEvent")) (.lit "vaxis.FocusIn{}")) (.var "TargetPhase"))⟩)

def fw6 : Stmt :=
  (.atom ⟨0, .exprS, (.arg (.call (.var "v0.handleCommand")) (.var "v2")), .none⟩)

def fw7 : Stmt :=
  (.ite (.bin "!=" (.var "v3") (.var "nil"))
    (.seq (.atom ⟨1, .returnS, (.var "v3"), .none⟩)
    .skip)
    .skip)

def fw8 : Stmt :=
  (.atom ⟨0, .exprS, (.arg (.call (.var "v0.handleCommand")) (.var "v4")), .none⟩)

def fw9 : Stmt :=
  (.atom ⟨0, .returnS, (.var "nil"), .none⟩)

def fwParts : List Stmt := [fw0, fw1, fw2, fw3, fw4, fw5, fw6, fw7, fw8, fw9]


theorem parse_fw : parseBody VxfwBodyExpected.focusWidget = seqOf fwParts := by decide +kernel

local macro "vs" "[" ts:Lean.Parser.Tactic.simpLemma,* "]" : tactic =>
  `(tactic| simp [exec, atom, evBool, evInt, evList, evOfLit, find, recv, bindId, doCall, phaseOf, seqOf, $ts,*])

theorem fw_exec (e : EOracle) (fuel : Nat) (s : St) (w : Id) :
    runFocusWidget (seqOf fwParts) e fuel s w = some (eFocusWidgetWith (eHandleCommand e fuel) e s w) := by
  unfold runFocusWidget eFocusWidgetWith
  by_cases hf : s.focused = w
  · vs [fwParts, fw0, fw1, fw2, fw3, fw4, fw5, fw6, fw7, fw8, fw9, hf]
  · cases ho : e.failsAt s s.focused .focusOut .target
    · obtain ⟨r1, hr1⟩ : ∃ r1 : St, r1 = (call e.o s s.focused .focusOut .target).1 := ⟨_, rfl⟩
      obtain ⟨s2, hs2⟩ : ∃ s2 : St, s2 = (findPath { r1 with focused := w, trace := r1.trace ++ [Entry.eff (Eff.focusSet w)] }).1 := ⟨_, rfl⟩
      cases hi : e.failsAt s2 w .focusIn .target
      · subst hs2; subst hr1
        vs [fwParts, fw0, fw1, fw2, fw3, fw4, fw5, fw6, fw7, fw8, fw9, hf, ho, hi]
      · subst hs2; subst hr1
        vs [fwParts, fw0, fw1, fw2, fw3, fw4, fw5, fw6, fw7, fw8, fw9, hf, ho, hi]
    · vs [fwParts, fw0, fw1, fw2, fw3, fw4, fw5, fw6, fw7, fw8, fw9, hf, ho]

end VaxisModel.Lemmas.VxfwBody
