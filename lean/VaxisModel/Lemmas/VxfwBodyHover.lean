import VaxisModel.Lemmas.VxfwBody

/-! `mouseHandler.mouseExit` and `mouseHandler.mouseEnter`, executed from their bodies, are
    `Model.Vxfw.eMouseExit` / `eMouseEnter`: every hovered widget is told MouseLeave and the hit list is
    emptied (terminal FocusOut, pointer leaving); a widget is entered only if it is not in the hit list,
    and is recorded there before it is notified. -/
set_option linter.unusedSimpArgs false
set_option linter.unusedVariables false

namespace VaxisModel.Lemmas.VxfwBody
open VaxisModel.Model VaxisModel.Model.GoSyn VaxisModel.Model.Vxfw VaxisModel.Model.VxfwInterp
open VaxisModel.Model.DynExec (Stmt parseBody)

def mx0 : Stmt :=
  (.rangeOver "_" "v1" (.var "r.lastHits")
    (.seq (.atom ⟨1, .define, (.pair (.var "v2") (.var "v3")), (.arg (.arg (.call (.var "v1.w.HandleEvent")) (.lit "MouseLeave{}")) (.var "TargetPhase"))⟩)
    (.seq (.ite (.bin "!=" (.var "v3") (.var "nil"))
      (.seq (.atom ⟨2, .returnS, (.var "v3"), .none⟩)
      .skip)
      .skip)
    (.seq (.atom ⟨1, .exprS, (.arg (.call (.var "v0.handleCommand")) (.var "v2")), .none⟩)
    .skip))))

def mx1 : Stmt :=
  (.atom ⟨0, .assign, (.var "r.lastHits"), (.lit "[]hitResult{}")⟩)

def mx2 : Stmt :=
  (.atom ⟨0, .returnS, (.var "nil"), .none⟩)

def mxParts : List Stmt := [mx0, mx1, mx2]

def me0 : Stmt :=
  (.rangeOver "_" "v2" (.var "r.lastHits")
    (.seq (.ite (.bin "==" (.var "v2.w") (.var "v1"))
      (.seq (.atom ⟨2, .returnS, (.var "nil"), .none⟩)
      .skip)
      .skip)
    .skip))

def me1 : Stmt :=
  (.atom ⟨0, .assign, (.var "r.lastHits"), (.arg (.arg (.call (.var "append")) (.var "r.lastHits")) (.lit "hitResult{v1:v1}"))⟩)

def me2 : Stmt :=
  (.atom ⟨0, .define, (.pair (.var "v3") (.var "v4")), (.arg (.arg (.call (.var "v1.HandleEvent")) (.lit "MouseEnter{}")) (.var "TargetPhase"))⟩)

def me3 : Stmt :=
  (.ite (.bin "!=" (.var "v4") (.var "nil"))
    (.seq (.atom ⟨1, .returnS, (.var "v4"), .none⟩)
    .skip)
    .skip)

def me4 : Stmt :=
  (.atom ⟨0, .exprS, (.arg (.call (.var "v0.handleCommand")) (.var "v3")), .none⟩)

def me5 : Stmt :=
  (.atom ⟨0, .returnS, (.var "nil"), .none⟩)

def meParts : List Stmt := [me0, me1, me2, me3, me4, me5]


theorem parse_mx : parseBody VxfwBodyExpected.mouseExit = seqOf mxParts := by decide +kernel
theorem parse_me : parseBody VxfwBodyExpected.mouseEnter = seqOf meParts := by decide +kernel

local macro "vs" "[" ts:Lean.Parser.Tactic.simpLemma,* "]" : tactic =>
  `(tactic| simp [exec, atom, evBool, evInt, evList, evOfLit, find, recv, bindId, doCall, phaseOf, seqOf, $ts,*])

/-! ### mouseExit -/

def mxBody : Stmt := match mx0 with | .rangeOver _ _ _ b => b | _ => .skip
theorem mx0_eq : mx0 = .rangeOver "_" "v1" (.var "r.lastHits") mxBody := rfl

theorem mx_body (e : EOracle) (fuel : Nat) (ev : Ev) (lf : Nat) (vm : VM) (w : Id) :
    view (exec e fuel ev mxBody lf (bindId vm "v1" w)) =
      some ((eNotify e fuel vm.s w .mouseLeave).1, vm.ints, vm.lists,
            if (eNotify e fuel vm.s w .mouseLeave).2 then .ret true else .norm) := by
  unfold eNotify
  cases hf : e.failsAt vm.s w .mouseLeave .target
  · vs [view, mxBody, mx0, hf]
  · vs [view, mxBody, mx0, hf]

theorem mx_loop (e : EOracle) (fuel : Nat) (ev : Ev) (lf : Nat) : ∀ (hits : List Hit) (vm : VM),
    view (rangeIds "v1" (exec e fuel ev mxBody lf) (hits.map (·.w)) vm) =
      some ((eNotifyLoop e fuel .mouseLeave (fun _ => false) hits vm.s).1, vm.ints, vm.lists,
            if (eNotifyLoop e fuel .mouseLeave (fun _ => false) hits vm.s).2 then .ret true else .norm) := by
  intro hits
  induction hits with
  | nil => intro vm; rfl
  | cons h hits ih =>
    intro vm
    obtain ⟨vm', hb, h1, h2, h3⟩ := view_some (mx_body e fuel ev lf vm h.w)
    simp only [List.map_cons, rangeIds, hb, eNotifyLoop, Bool.false_eq_true, ↓reduceIte]
    cases hx : (eNotify e fuel vm.s h.w .mouseLeave).2
    · simp only [Bool.false_eq_true, ↓reduceIte]
      rw [ih vm', h1, h2, h3]
    · simp only [↓reduceIte, view, Option.map_some, h1, h2, h3, hx]

theorem mx_exec (e : EOracle) (fuel : Nat) (s : St) :
    runMouseExit (seqOf mxParts) e fuel s = some (eMouseExit e fuel s) := by
  unfold runMouseExit eMouseExit mxParts
  rw [seqOf_cons, mx0_eq]
  obtain ⟨vm1, hl, h1, h2, h3⟩ := view_some (mx_loop e fuel .init 1 s.lastHits ⟨s, [], [], [], [], []⟩)
  have hex : exec e fuel .init (.rangeOver "_" "v1" (.var "r.lastHits") mxBody) 1 ⟨s, [], [], [], [], []⟩ =
      rangeIds "v1" (exec e fuel .init mxBody 1) (s.lastHits.map (·.w)) ⟨s, [], [], [], [], []⟩ := by
    simp [exec, evList]
  rw [hex, hl]
  simp only [] at h1
  generalize eNotifyLoop e fuel .mouseLeave (fun _ => false) s.lastHits s = r at h1 ⊢
  obtain ⟨s1, b⟩ := r
  simp only [] at h1 ⊢
  cases b with
  | true => simp [h1]
  | false =>
    simp only [Bool.false_eq_true, ↓reduceIte]
    have h12 : exec e fuel .init (seqOf [mx1, mx2]) 1 vm1 = some ({ vm1 with s := { vm1.s with lastHits := [] } }, .ret false) := by
      vs [mx1, mx2]
    rw [h12]
    simp [h1]

/-! ### mouseEnter -/

def meBody : Stmt := match me0 with | .rangeOver _ _ _ b => b | _ => .skip
theorem me0_eq : me0 = .rangeOver "_" "v2" (.var "r.lastHits") meBody := rfl

theorem me_body (e : EOracle) (fuel : Nat) (ev : Ev) (lf : Nat) (vm : VM) (x w : Id) (hw : find vm.ids "v1" = some w) :
    exec e fuel ev meBody lf (bindId vm "v2" x) = some (bindId vm "v2" x, if x = w then .ret false else .norm) := by
  by_cases h : x = w
  · vs [meBody, me0, hw, h]
  · vs [meBody, me0, hw, h]

theorem me_loop (e : EOracle) (fuel : Nat) (ev : Ev) (lf : Nat) (w : Id) : ∀ (hits : List Hit) (vm : VM),
    find vm.ids "v1" = some w → find vm.ids "v1.HandleEvent" = some w →
    ∃ vm', rangeIds "v2" (exec e fuel ev meBody lf) (hits.map (·.w)) vm =
        some (vm', if hits.any (fun h => h.w == w) then .ret false else .norm) ∧
      vm'.s = vm.s ∧ find vm'.ids "v1" = some w ∧ find vm'.ids "v1.HandleEvent" = some w := by
  intro hits
  induction hits with
  | nil => intro vm hw hw2; exact ⟨vm, rfl, rfl, hw, hw2⟩
  | cons h hits ih =>
    intro vm hw hw2
    simp only [List.map_cons, rangeIds, me_body e fuel ev lf vm h.w w hw, List.any_cons]
    by_cases hx : h.w = w
    · simp only [hx, ↓reduceIte, beq_self_eq_true, Bool.true_or]
      exact ⟨_, rfl, rfl, by simp [bindId, find, hw], by simp [bindId, find, hw2]⟩
    · have hb : (h.w == w) = false := by simpa using hx
      simp only [hx, ↓reduceIte, hb, Bool.false_or]
      obtain ⟨vm', h1, h2, h3, h4⟩ := ih (bindId vm "v2" h.w) (by simp [bindId, find, hw]) (by simp [bindId, find, hw2])
      exact ⟨vm', h1, h2, h3, h4⟩

theorem me_exec (e : EOracle) (fuel : Nat) (s : St) (w : Id) :
    runMouseEnter (seqOf meParts) e fuel s w = some (eMouseEnter e fuel s w) := by
  unfold runMouseEnter runFocusWidget eMouseEnter meParts
  rw [seqOf_cons, me0_eq]
  obtain ⟨vm1, hl, h1, h2, h2b⟩ := me_loop e fuel .init 1 w s.lastHits (bindId ⟨s, [], [], [], [], []⟩ "v1" w)
    (by simp [bindId, find]) (by simp [bindId, find])
  have hex : exec e fuel .init (.rangeOver "_" "v2" (.var "r.lastHits") meBody) 1 (bindId ⟨s, [], [], [], [], []⟩ "v1" w) =
      rangeIds "v2" (exec e fuel .init meBody 1) (s.lastHits.map (·.w)) (bindId ⟨s, [], [], [], [], []⟩ "v1" w) := by
    simp [exec, evList, bindId]
  rw [hex, hl]
  have h1' : vm1.s = s := h1
  by_cases hany : s.lastHits.any (fun h => h.w == w) = true
  · simp only [hany, ↓reduceIte, h1']
  · have hany' : s.lastHits.any (fun h => h.w == w) = false := by simpa using hany
    simp only [hany', Bool.false_eq_true, ↓reduceIte]
    unfold eNotify
    obtain ⟨s1, ints, ids, cmds, flags, lists⟩ := vm1
    simp only [] at h1' h2 h2b
    subst h1'
    cases hf : e.failsAt { s1 with lastHits := s1.lastHits ++ [⟨0, 0, w⟩] } w .mouseEnter .target
    · vs [me1, me2, me3, me4, me5, h2, h2b, hf]
    · vs [me1, me2, me3, me4, me5, h2, h2b, hf]

end VaxisModel.Lemmas.VxfwBody
