import VaxisModel.Model.VxfwInterpKnot
import VaxisModel.Lemmas.VxfwBodySel

/-! The first interpreter layer with its callees as parameters (`exec1`) equals the layer with the model functions inside (`exec`)
    whenever the plugged-in callees compute the model functions; the knot `kHandleCommand` is `eHandleCommand`. -/
set_option linter.unusedSimpArgs false
set_option linter.unusedVariables false

namespace VaxisModel.Lemmas.VxfwBodyKnot
open VaxisModel.Model VaxisModel.Model.GoSyn VaxisModel.Model.Vxfw VaxisModel.Model.VxfwInterp
open VaxisModel.Model.DynExec (Stmt parseBody)

/-- Is the line `err := m.update(app, m.lastFrame)`? -/
def isUpdLine (l : Line) : Bool :=
  match l.kind, l.e1, l.e2 with
  | .define, .var _, .arg (.arg (.call (.var "r.update")) (.var "v0")) (.var "r.lastFrame") => true
  | _, _, _ => false

def usesUpd : Stmt → Bool
  | .atom l => isUpdLine l
  | .seq a b => usesUpd a || usesUpd b
  | .ite _ t e => usesUpd t || usesUpd e
  | .loop _ b p => usesUpd b || usesUpd p
  | .rangeOver _ _ _ b => usesUpd b
  | _ => false

structure GoodK (e : EOracle) (fuel : Nat) (K : K1) : Prop where
  hc : ∀ s c, K.hc s c = some (eHandleCommand e fuel s c)
  fp : ∀ s, K.fp s = some (findPath s)

def GoodUpd (e : EOracle) (fuel : Nat) (K : K1) : Prop := ∀ s t, K.upd s t = some (eMouseUpdate e fuel s t)

theorem atom1_eq (K : K1) (e : EOracle) (fuel : Nat) (g : GoodK e fuel K) (ev : Ev) (vm : VM) (l : Line)
    (hu : isUpdLine l = false ∨ GoodUpd e fuel K) : atom1 K e fuel ev vm l = atom e fuel ev vm l := by
  obtain ⟨d, k, e1, e2⟩ := l
  unfold atom1
  simp only []
  split
  · subst_vars
    simp only [atom, g.hc]
    split <;> simp_all
  · subst_vars
    rcases hu with hu | hu
    · simp [isUpdLine] at hu
    · simp [atom, hu vm.s vm.s.lastFrame]
  · subst_vars
    simp [atom, g.fp]
  · rfl

theorem exec1_eq (K : K1) (e : EOracle) (fuel : Nat) (g : GoodK e fuel K) (ev : Ev) :
    ∀ (st : Stmt), (usesUpd st = false ∨ GoodUpd e fuel K) → ∀ (f : Nat) (vm : VM), exec1 K e fuel ev st f vm = exec e fuel ev st f vm := by
  have hor : ∀ {a b : Bool}, ((a || b) = false ∨ GoodUpd e fuel K) → (a = false ∨ GoodUpd e fuel K) ∧ (b = false ∨ GoodUpd e fuel K) := by
    intro a b h
    rcases h with h | h
    · simp at h; exact ⟨Or.inl h.1, Or.inl h.2⟩
    · exact ⟨Or.inr h, Or.inr h⟩
  intro st
  induction st with
  | skip => intro _ f vm; rfl
  | bad => intro _ f vm; rfl
  | atom l => intro hu f vm; exact atom1_eq K e fuel g ev vm l hu
  | seq a b iha ihb =>
    intro hu f vm
    obtain ⟨h1, h2⟩ := hor hu
    simp only [exec1, exec, iha h1, ihb h2]
    rfl
  | ite c t el iht ihe =>
    intro hu f vm
    obtain ⟨h1, h2⟩ := hor hu
    simp only [exec1, exec, iht h1, ihe h2]
    rfl
  | loop c b p ihb ihp =>
    intro hu f vm
    obtain ⟨h1, h2⟩ := hor hu
    have e1 : exec1 K e fuel ev b = exec e fuel ev b := by funext f vm; exact ihb h1 f vm
    have e2 : exec1 K e fuel ev p = exec e fuel ev p := by funext f vm; exact ihp h2 f vm
    simp only [exec1, exec, e1, e2]
  | range k v b ih => intro _ f vm; rfl
  | rangeOver k v coll b ih =>
    intro hu f vm
    have e1 : exec1 K e fuel ev b f = exec e fuel ev b f := by funext vm; exact ih hu f vm
    cases coll <;> simp only [exec1, exec, e1] <;> rfl
  | sw t tag c ih => intro _ f vm; rfl
  | case l b r ihb ihr => intro _ f vm; rfl

open VaxisModel.Lemmas.VxfwBody VaxisModel.Lemmas.VxfwBodyX VaxisModel.Lemmas.VxfwBodyAll VaxisModel.Lemmas.VxfwBodyRun
  VaxisModel.Lemmas.VxfwBodySel

/-- All the parsed expected bodies. -/
def expA : AllBodies := ⟨expB, expC, hcT, reT, rfT⟩

theorem iFindPath_eq (s : St) : iFindPath expA s = some (findPath s) := by
  simp only [iFindPath, expA, expC]
  rw [VxfwBodyTree.fp_exec s]
  rfl

theorem fin_run (r : Res) : fin r = (match r with
    | some (vm, .ret b) => some (vm.s, b)
    | some (vm, _) => some (vm.s, false)
    | none => none) := rfl

/-- `focusWidget` from its body with good callees is `eFocusWidget`. -/
theorem fw1_eq (K : K1) (e : EOracle) (n : Nat) (g : GoodK e n K) (s : St) (w : Id) :
    runFocusWidget1 K (seqOf fwParts) e n s w = some (eFocusWidget e (n + 1) s w) := by
  unfold runFocusWidget1
  rw [exec1_eq K e n g .init (seqOf fwParts) (Or.inl (by decide))]
  exact fw_exec e n s w

/-- **The knot is the model's command interpreter**, at every budget. -/
theorem knot_hc (e : EOracle) : ∀ (n : Nat) (s : St) (c : Cmd), kHandleCommand expA e n s c = some (eHandleCommand e n s c)
  | 0, _, _ => rfl
  | n + 1, s, c => by
    have gk : GoodK e n ⟨kHandleCommand expA e n, fun _ _ => none, iFindPath expA⟩ := ⟨knot_hc e n, iFindPath_eq⟩
    rw [kHandleCommand]
    apply hc_exec_x e n _ _ _ s c (Nat.lt_succ_self _)
    exact {
      fp := iFindPath_eq
      ht := fun _ _ _ _ => rfl
      cp := fun _ _ _ => rfl
      fw := fun s w => fw1_eq _ e n gk s w
      hitl0 := rfl }

/-! ### the second layer with `app.handleCommand` plugged in -/

theorem atomX1_eq (hc : St → Cmd → Option St) (e : EOracle) (fuel : Nat) (hg : ∀ s c, hc s c = some (eHandleCommand e fuel s c))
    (ev : Ev) (m : VMX) (l : Line) : atomX1 hc e fuel ev m l = atomX e fuel ev m l := by
  obtain ⟨d, k, e1, e2⟩ := l
  unfold atomX1
  simp only []
  split
  · subst_vars
    simp only [atomX, atom, liftRes, liftCtl, setS, hg]
    split <;> simp_all
  · rfl

theorem execX1_eq (hc : St → Cmd → Option St) (e : EOracle) (fuel : Nat) (hg : ∀ s c, hc s c = some (eHandleCommand e fuel s c))
    (ev : Ev) : ∀ (st : Stmt) (m : VMX), execX1 hc e fuel ev st m = execX e fuel ev st m := by
  intro st
  induction st with
  | skip => intro m; rfl
  | bad => intro m; rfl
  | atom l => intro m; exact atomX1_eq hc e fuel hg ev m l
  | seq a b iha ihb => intro m; simp only [execX1, execX, iha, ihb]; rfl
  | ite c t el iht ihe =>
    intro m
    by_cases hsp : c = .un "!" (.call (.var "r.findPath"))
    · subst hsp
      simp only [execX1, execX, iht, ihe]
      rfl
    · rw [execX1.eq_5 hc e fuel ev m c t el hsp, execX.eq_5 e fuel ev m c t el hsp]
      simp only [iht, ihe]
      rfl
  | loop c b p ihb ihp => intro m; rfl
  | range k v b ih => intro m; rfl
  | rangeOver k v coll b ih =>
    intro m
    have e1 : execX1 hc e fuel ev b = execX e fuel ev b := by funext m; exact ih m
    cases coll <;> simp only [execX1, execX, e1] <;> rfl
  | sw t tag c ih =>
    intro m
    by_cases hsp : t = true ∧ tag = .lit "v1 := v0.(type)"
    · obtain ⟨rfl, rfl⟩ := hsp
      simp only [execX1, execX, ih]
      rfl
    · have h1 : execX1 hc e fuel ev (.sw t tag c) m = none := by
        unfold execX1
        split <;> first | rfl | (exfalso; simp_all)
      have h2 : execX e fuel ev (.sw t tag c) m = none := by
        unfold execX
        split <;> first | rfl | (exfalso; simp_all)
      rw [h1, h2]
  | case l b r ihb ihr => intro m; simp only [execX1, execX, ihb, ihr]; rfl

theorem muK_eq (hc : St → Cmd → Option St) (e : EOracle) (fuel : Nat) (hg : ∀ s c, hc s c = some (eHandleCommand e fuel s c))
    (s : St) (t : STree) : runMouseUpdateK hc muT expC e fuel s t = some (eMouseUpdate e fuel s t) := by
  unfold runMouseUpdateK
  rw [execX1_eq hc e fuel hg]
  exact mu_all e fuel s t

theorem good_kK1 (e : EOracle) (F : Nat) : GoodK e F (kK1 expA e F) := ⟨knot_hc e F, iFindPath_eq⟩

theorem good_kK1_upd (e : EOracle) (F : Nat) : GoodUpd e F (kK1 expA e F) := fun s t => muK_eq _ e F (knot_hc e F) s t

theorem knot_fw (e : EOracle) (n : Nat) (s : St) (w : Id) : kFocusWidget expA e n s w = some (eFocusWidget e (n + 1) s w) :=
  fw1_eq _ e n ⟨knot_hc e n, iFindPath_eq⟩ s w

/-- The callees of the two arms, with the knot inside, compute the model functions. -/
theorem good_kcallees (e : EOracle) (fuel : Nat) : GoodR e (fuel + 1) (kCallees expA e fuel) where
  mouseHE := by
    intro s c r
    simp only [kCallees, runMouseHandleEvent1, runFocusHandleEvent1]
    rw [exec1_eq _ e (fuel + 1) (good_kK1 e (fuel + 1)) _ _ (Or.inr (good_kK1_upd e (fuel + 1)))]
    exact mhe_exec e (fuel + 1) s c r _ (mouse_fuel_ok e (fuel + 1) s c r)
  mouseEnter := by
    intro s w
    simp only [kCallees, runMouseEnter1, runFocusWidget1]
    rw [exec1_eq _ e (fuel + 1) (good_kK1 e (fuel + 1)) _ _ (Or.inr (good_kK1_upd e (fuel + 1)))]
    exact me_exec e (fuel + 1) s w
  mouseExit := by
    intro s
    simp only [kCallees, runMouseExit1]
    rw [exec1_eq _ e (fuel + 1) (good_kK1 e (fuel + 1)) _ _ (Or.inr (good_kK1_upd e (fuel + 1)))]
    exact mx_exec e (fuel + 1) s
  focusHE := by
    intro s ev
    simp only [kCallees, runFocusHandleEvent1]
    rw [exec1_eq _ e (fuel + 1) (good_kK1 e (fuel + 1)) _ _ (Or.inr (good_kK1_upd e (fuel + 1)))]
    exact fhe_exec e (fuel + 1) s ev _ (Nat.le_refl _)
  update := fun s t => muK_eq _ e (fuel + 1) (knot_hc e (fuel + 1)) s t
  updatePath := by
    intro s t
    simp only [kCallees]
    have gx : GoodX e fuel ({ fwF := some (kFocusWidget expA e fuel), findPathF := iFindPath expA } : VX) := {
      fp := iFindPath_eq
      ht := fun _ _ _ _ => rfl
      cp := fun _ _ _ => rfl
      fw := fun s w => knot_fw e fuel s w
      hitl0 := rfl }
    exact up_exec_x e fuel _ gx s t

theorem kRunInit_eq (e : EOracle) (fuel : Nat) (root : Id) (t : STree) :
    kRunInit expA e fuel root t = some (eRunInit e (fuel + 1) root t) := by
  unfold kRunInit eRunInit
  have h : runFocusHandleEvent1 (kK1 expA e (fuel + 1)) expA.B.focusHandleEvent e (fuel + 1) (St.init root) .init 2 =
      some (eHandleEvent e (fuel + 1) (St.init root) .init) := by
    simp only [runFocusHandleEvent1]
    rw [exec1_eq _ e (fuel + 1) (good_kK1 e (fuel + 1)) _ _ (Or.inr (good_kK1_upd e (fuel + 1)))]
    exact fhe_exec e (fuel + 1) (St.init root) .init 2 (by simp [St.init])
  simp only [h]
  split <;> rfl

/-- `Run` with the knot inside is the model's `eRun`. -/
theorem kRun_eq (e : EOracle) (fuel : Nat) (root : Id) (t0 : STree) (steps : List Step) :
    kRun expA e fuel root t0 steps = some (eRun e (fuel + 1) root t0 steps) := by
  unfold kRun eRun
  rw [kRunInit_eq]
  simp only []
  split
  · rfl
  · exact steps_eq e (fuel + 1) _ (good_kcallees e fuel) steps _

end VaxisModel.Lemmas.VxfwBodyKnot
