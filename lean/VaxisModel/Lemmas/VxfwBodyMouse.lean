import VaxisModel.Lemmas.VxfwBody

/-! `mouseHandler.handleEvent`, executed from its body (`Model/VxfwInterp.lean`), is
    `Model.Vxfw.eMouseHandleEvent`: the hit-list update, then the same three-phase dispatch over the
    widgets under the pointer, the deepest one being the target. -/
set_option linter.unusedSimpArgs false
set_option linter.unusedVariables false

namespace VaxisModel.Lemmas.VxfwBody
open VaxisModel.Model VaxisModel.Model.GoSyn VaxisModel.Model.Vxfw VaxisModel.Model.VxfwInterp
open VaxisModel.Model.DynExec (Stmt parseBody)

def mhe0 : Stmt :=
  (.atom ⟨0, .assign, (.var "r.mouse"), (.un "&" (.var "v1"))⟩)

def mhe1 : Stmt :=
  (.atom ⟨0, .define, (.var "v2"), (.arg (.arg (.call (.var "r.update")) (.var "v0")) (.var "r.lastFrame"))⟩)

def mhe2 : Stmt :=
  (.ite (.bin "!=" (.var "v2") (.var "nil"))
    (.seq (.atom ⟨1, .returnS, (.var "v2"), .none⟩)
    .skip)
    .skip)

def mhe3 : Stmt :=
  (.ite (.bin "==" (.arg (.call (.var "len")) (.var "r.lastHits")) (.int 0))
    (.seq (.atom ⟨1, .returnS, (.var "nil"), .none⟩)
    .skip)
    .skip)

def mhe4 : Stmt :=
  (.atom ⟨0, .assign, (.var "v0.consumeEvent"), (.var "false")⟩)

def mhe5 : Stmt :=
  (.rangeOver "_" "v3" (.var "r.lastHits")
    (.seq (.atom ⟨1, .define, (.pair (.var "v4") (.var "v5")), (.arg (.arg (.call (.var "assert")) (.var "v3.w")) (.var "EventCapturer"))⟩)
    (.seq (.ite (.un "!" (.var "v5"))
      (.seq (.atom ⟨2, .continueS, .none, .none⟩)
      .skip)
      .skip)
    (.seq (.atom ⟨1, .define, (.pair (.var "v6") (.var "v7")), (.arg (.call (.var "v4.CaptureEvent")) (.var "v1"))⟩)
    (.seq (.ite (.bin "!=" (.var "v7") (.var "nil"))
      (.seq (.atom ⟨2, .returnS, (.var "v7"), .none⟩)
      .skip)
      .skip)
    (.seq (.atom ⟨1, .exprS, (.arg (.call (.var "v0.handleCommand")) (.var "v6")), .none⟩)
    (.seq (.ite (.var "v0.consumeEvent")
      (.seq (.atom ⟨2, .assign, (.var "v0.consumeEvent"), (.var "false")⟩)
      (.seq (.atom ⟨2, .returnS, (.var "nil"), .none⟩)
      .skip))
      .skip)
    .skip)))))))

def mhe6 : Stmt :=
  (.atom ⟨0, .define, (.var "v8"), (.index (.var "r.lastHits") (.bin "-" (.arg (.call (.var "len")) (.var "r.lastHits")) (.int 1)))⟩)

def mhe7 : Stmt :=
  (.atom ⟨0, .define, (.pair (.var "v9") (.var "v2")), (.arg (.arg (.call (.var "v8.w.HandleEvent")) (.var "v1")) (.var "TargetPhase"))⟩)

def mhe8 : Stmt :=
  (.ite (.bin "!=" (.var "v2") (.var "nil"))
    (.seq (.atom ⟨1, .returnS, (.var "v2"), .none⟩)
    .skip)
    .skip)

def mhe9 : Stmt :=
  (.atom ⟨0, .exprS, (.arg (.call (.var "v0.handleCommand")) (.var "v9")), .none⟩)

def mhe10 : Stmt :=
  (.ite (.var "v0.consumeEvent")
    (.seq (.atom ⟨1, .assign, (.var "v0.consumeEvent"), (.var "false")⟩)
    (.seq (.atom ⟨1, .returnS, (.var "nil"), .none⟩)
    .skip))
    .skip)

def mhe11 : Stmt :=
  (.seq (.atom ⟨1, .define, (.var "v10"), (.bin "-" (.arg (.call (.var "len")) (.var "r.lastHits")) (.int 2))⟩)
  .skip)

def mhe12 : Stmt :=
  (.loop (.bin ">=" (.var "v10") (.int 0))
    (.seq (.atom ⟨1, .define, (.var "v11"), (.index (.var "r.lastHits") (.var "v10"))⟩)
    (.seq (.atom ⟨1, .define, (.pair (.var "v12") (.var "v13")), (.arg (.arg (.call (.var "v11.w.HandleEvent")) (.var "v1")) (.var "BubblePhase"))⟩)
    (.seq (.ite (.bin "!=" (.var "v13") (.var "nil"))
      (.seq (.atom ⟨2, .returnS, (.var "v13"), .none⟩)
      .skip)
      .skip)
    (.seq (.atom ⟨1, .exprS, (.arg (.call (.var "v0.handleCommand")) (.var "v12")), .none⟩)
    (.seq (.ite (.var "v0.consumeEvent")
      (.seq (.atom ⟨2, .assign, (.var "v0.consumeEvent"), (.var "false")⟩)
      (.seq (.atom ⟨2, .returnS, (.var "nil"), .none⟩)
      .skip))
      .skip)
    .skip)))))
    (.seq (.atom ⟨2, .subAssign, (.var "v10"), (.int 1)⟩)
    .skip))

def mhe13 : Stmt :=
  (.atom ⟨0, .returnS, (.var "nil"), .none⟩)

def mheParts : List Stmt := [mhe0, mhe1, mhe2, mhe3, mhe4, mhe5, mhe6, mhe7, mhe8, mhe9, mhe10, mhe11, mhe12, mhe13]


theorem parse_mhe : parseBody VxfwBodyExpected.mouseHandleEvent = seqOf mheParts := by decide +kernel

local macro "vs" "[" ts:Lean.Parser.Tactic.simpLemma,* "]" : tactic =>
  `(tactic| simp [exec, atom, evBool, evInt, evList, find, recv, bindId, doCall, phaseOf, seqOf, $ts,*])

/-! ### the dispatch does not touch the hit list -/

theorem eFocusWidgetWith_hits (hc : St → Cmd → St) (hhc : ∀ s c, (hc s c).lastHits = s.lastHits) (e : EOracle) (s : St) (w : Id) :
    (eFocusWidgetWith hc e s w).1.lastHits = s.lastHits := by
  unfold eFocusWidgetWith
  split
  · rfl
  · simp only []
    split
    · rfl
    · split
      · rw [hhc]; rfl
      · rw [hhc, hhc]; rfl

theorem eExecAtom_hits (hc : St → Cmd → St) (hhc : ∀ s c, (hc s c).lastHits = s.lastHits) (e : EOracle) (s : St) (a : Atom) :
    (eExecAtom hc e s a).lastHits = s.lastHits := by
  cases a with
  | focus w => exact eFocusWidgetWith_hits hc hhc e s w
  | _ => rfl

theorem eHandleCommand_hits (e : EOracle) : ∀ (fuel : Nat) (s : St) (c : Cmd), (eHandleCommand e fuel s c).lastHits = s.lastHits
  | 0, _, _ => rfl
  | fuel + 1, s, c => by
    unfold eHandleCommand
    generalize c.flatten = l
    induction l generalizing s with
    | nil => rfl
    | cons a l ih =>
      rw [List.foldl_cons, ih, eExecAtom_hits _ (eHandleCommand_hits e fuel)]

theorem eOffer_hits (e : EOracle) (fuel : Nat) (s : St) (w : Id) (ev : Ev) (ph : Phase) :
    (eOffer e fuel s w ev ph).1.lastHits = s.lastHits := by
  unfold eOffer
  simp only []
  split
  · rfl
  · split <;> simp only [eHandleCommand_hits] <;> rfl

theorem eCapturePhase_hits (e : EOracle) (fuel : Nat) (ev : Ev) : ∀ (ws : List Id) (s : St),
    (eCapturePhase e fuel ev ws s).1.lastHits = s.lastHits
  | [], _ => rfl
  | w :: ws, s => by
    unfold eCapturePhase
    split
    · simp only []
      split
      · rw [eCapturePhase_hits e fuel ev ws, eOffer_hits]
      · exact eOffer_hits e fuel s w ev .capture
    · exact eCapturePhase_hits e fuel ev ws s

/-! ### the capture loop over the hit list -/

def capBodyM : Stmt := match mhe5 with | .rangeOver _ _ _ b => b | _ => .skip
theorem mhe5_eq : mhe5 = .rangeOver "_" "v3" (.var "r.lastHits") capBodyM := rfl

theorem cap_bodyM (e : EOracle) (fuel : Nat) (ev : Ev) (lf : Nat) (vm : VM) (w : Id) :
    view (exec e fuel ev capBodyM lf (bindId vm "v3" w)) =
      some (if e.o.captures w then (eOffer e fuel vm.s w ev .capture).1 else vm.s, vm.ints, vm.lists,
            if e.o.captures w then ctlOf (eOffer e fuel vm.s w ev .capture).2 else .cont) := by
  unfold eOffer
  cases hc : e.o.captures w
  · vs [view, capBodyM, mhe5, hc]
  · cases hf : e.failsAt vm.s w ev .capture
    · cases hk : (eHandleCommand e fuel (call e.o vm.s w ev .capture).1 (call e.o vm.s w ev .capture).2).consume
      · vs [view, capBodyM, mhe5, hc, hf, hk, ctlOf]
      · vs [view, capBodyM, mhe5, hc, hf, hk, ctlOf]
    · vs [view, capBodyM, mhe5, hc, hf, ctlOf]

theorem cap_loopM (e : EOracle) (fuel : Nat) (ev : Ev) (lf : Nat) : ∀ (ws : List Id) (vm : VM),
    view (rangeIds "v3" (exec e fuel ev capBodyM lf) ws vm) =
      some ((eCapturePhase e fuel ev ws vm.s).1, vm.ints, vm.lists, ctlOf (eCapturePhase e fuel ev ws vm.s).2) := by
  intro ws
  induction ws with
  | nil => intro vm; rfl
  | cons w ws ih =>
    intro vm
    obtain ⟨vm', hb, h1, h2, h3⟩ := view_some (cap_bodyM e fuel ev lf vm w)
    rw [rangeIds, hb, eCapturePhase]
    cases hc : e.o.captures w
    · simp only [hc, Bool.false_eq_true, ↓reduceIte] at h1 ⊢
      rw [ih vm', h1, h2, h3]
    · simp only [hc, ↓reduceIte] at h1 ⊢
      cases ho : (eOffer e fuel vm.s w ev .capture).2
      · have hn : ctlOf Outcome.next = Ctl.norm := rfl
        simp only [ho, hn, ↓reduceIte]
        rw [ih vm', h1, h2, h3]
      · have hn : ctlOf Outcome.stop = Ctl.ret false := rfl
        have hne : ¬ (Outcome.stop = Outcome.next) := by decide
        simp only [ho, hn, hne, ↓reduceIte, view, Option.map_some, h1, h2, h3]
      · have hn : ctlOf Outcome.fail = Ctl.ret true := rfl
        have hne : ¬ (Outcome.fail = Outcome.next) := by decide
        simp only [ho, hn, hne, ↓reduceIte, view, Option.map_some, h1, h2, h3]

/-! ### target = the deepest hit; one step of the bubble loop -/

theorem tgt_execM (e : EOracle) (fuel : Nat) (ev : Ev) (lf : Nat) (vm : VM) (tg : Hit) (hl : vm.s.lastHits.getLast? = some tg) :
    view (exec e fuel ev (seqOf [mhe6, mhe7, mhe8, mhe9, mhe10]) lf vm) =
      some ((eOffer e fuel vm.s tg.w ev .target).1, vm.ints, vm.lists, ctlOf (eOffer e fuel vm.s tg.w ev .target).2) := by
  have hne : vm.s.lastHits ≠ [] := by intro h; rw [h] at hl; simp at hl
  have hlen : 0 < vm.s.lastHits.length := List.length_pos_iff.mpr hne
  have hidx : (vm.s.lastHits.map (·.w))[vm.s.lastHits.length - 1]? = some tg.w := by
    rw [List.getLast?_eq_getElem?] at hl
    simp [hl]
  have hneg : ¬ ((vm.s.lastHits.length : Int) - 1 < 0) := by omega
  unfold eOffer
  cases hf : e.failsAt vm.s tg.w ev .target
  · cases hk : (eHandleCommand e fuel (call e.o vm.s tg.w ev .target).1 (call e.o vm.s tg.w ev .target).2).consume
    · vs [view, mhe6, mhe7, mhe8, mhe9, mhe10, hidx, hneg, hf, hk, ctlOf]
    · vs [view, mhe6, mhe7, mhe8, mhe9, mhe10, hidx, hneg, hf, hk, ctlOf]
  · vs [view, mhe6, mhe7, mhe8, mhe9, mhe10, hidx, hneg, hf, ctlOf]

def bubBodyM : Stmt := match mhe12 with | .loop _ b _ => b | _ => .skip
def bubCondM : Expr := match mhe12 with | .loop c _ _ => c | _ => .none
def bubPostM : Stmt := match mhe12 with | .loop _ _ p => p | _ => .skip
theorem mhe12_eq : mhe12 = .loop bubCondM bubBodyM bubPostM := rfl

theorem bub_bodyM (e : EOracle) (fuel : Nat) (ev : Ev) (lf : Nat) (vm : VM) (k : Nat) (w : Id)
    (hi : find vm.ints "v10" = some (k : Int)) (hw : (vm.s.lastHits.map (·.w))[k]? = some w) :
    view (exec e fuel ev bubBodyM lf vm) =
      some ((eOffer e fuel vm.s w ev .bubble).1, vm.ints, vm.lists, ctlOf (eOffer e fuel vm.s w ev .bubble).2) := by
  unfold eOffer
  have hneg : ¬ ((k : Int) < 0) := by omega
  cases hf : e.failsAt vm.s w ev .bubble
  · cases hk : (eHandleCommand e fuel (call e.o vm.s w ev .bubble).1 (call e.o vm.s w ev .bubble).2).consume
    · vs [view, bubBodyM, mhe12, hi, hw, hneg, hf, hk, ctlOf]
    · vs [view, bubBodyM, mhe12, hi, hw, hneg, hf, hk, ctlOf]
  · vs [view, bubBodyM, mhe12, hi, hw, hneg, hf, ctlOf]

theorem bub_condM (vm : VM) (v : Int) (hi : find vm.ints "v10" = some v) :
    evBool vm bubCondM = some (decide (v ≥ 0)) := by
  vs [bubCondM, mhe12, hi]

theorem bub_postM (e : EOracle) (fuel : Nat) (ev : Ev) (lf : Nat) (vm : VM) (v : Int) (hi : find vm.ints "v10" = some v) :
    exec e fuel ev bubPostM lf vm = some ({ vm with ints := ("v10", v - 1) :: vm.ints }, .norm) := by
  vs [bubPostM, mhe12, hi]

theorem bub_loopM (e : EOracle) (fuel : Nat) (ev : Ev) (hits : List Hit) :
    ∀ (n : Nat) (vm : VM) (v : Int) (lf : Nat), vm.s.lastHits = hits → find vm.ints "v10" = some v →
      (v + 1).toNat = n → v + 1 ≥ 0 ∨ n = 0 → n ≤ hits.length → n + 1 ≤ lf →
      ∃ vm', loopN (fun vm => evBool vm bubCondM) (exec e fuel ev bubBodyM) (exec e fuel ev bubPostM) lf vm =
          some (vm', ctlOf (eBubblePhase e fuel ev ((hits.map (·.w)).take n).reverse vm.s).2) ∧
        vm'.s = (eBubblePhase e fuel ev ((hits.map (·.w)).take n).reverse vm.s).1 := by
  intro n
  induction n with
  | zero =>
    intro vm v lf hl hi hv _ _ hlf
    obtain ⟨lf', rfl⟩ : ∃ lf', lf = lf' + 1 := ⟨lf - 1, by omega⟩
    have hneg : decide (v ≥ 0) = false := by simp; omega
    rw [loopN]
    simp only [bub_condM vm v hi, hneg]
    exact ⟨vm, rfl, rfl⟩
  | succ n ih =>
    intro vm v lf hl hi hv _ hn hlf
    obtain ⟨lf', rfl⟩ : ∃ lf', lf = lf' + 1 := ⟨lf - 1, by omega⟩
    have hvn : v = (n : Int) := by omega
    subst hvn
    have hpos : decide ((n : Int) ≥ 0) = true := by simp
    have hlt : n < (hits.map (·.w)).length := by simp; omega
    have hw : (hits.map (·.w))[n]? = some (hits.map (·.w))[n] := List.getElem?_eq_getElem hlt
    obtain ⟨vm1, hb, h1, h2, h3⟩ := view_some (bub_bodyM e fuel ev lf' vm n (hits.map (·.w))[n] hi (by rw [hl]; exact hw))
    rw [loopN]
    simp only [bub_condM vm _ hi, hpos]
    rw [hb, take_succ_reverse (hits.map (·.w)) n _ hw, eBubblePhase]
    cases ho : (eOffer e fuel vm.s (hits.map (·.w))[n] ev .bubble).2
    · have hn' : ctlOf Outcome.next = Ctl.norm := rfl
      simp only [hn', ↓reduceIte]
      rw [bub_postM e fuel ev lf' vm1 (n : Int) (by rw [h2]; exact hi)]
      simp only []
      obtain ⟨vm2, hr, hs⟩ := ih { vm1 with ints := ("v10", (n : Int) - 1) :: vm1.ints } ((n : Int) - 1) lf'
        (by simp only []; rw [h1, eOffer_hits]; exact hl) (by simp [find]) (by omega) (by omega) (by omega) (by omega)
      simp only [] at hr hs
      rw [← h1]
      exact ⟨vm2, hr, hs⟩
    · have hn' : ctlOf Outcome.stop = Ctl.ret false := rfl
      have hne : ¬ (Outcome.stop = Outcome.next) := by decide
      simp only [hn', hne, ↓reduceIte, ho]
      exact ⟨vm1, rfl, h1⟩
    · have hn' : ctlOf Outcome.fail = Ctl.ret true := rfl
      have hne : ¬ (Outcome.fail = Outcome.next) := by decide
      simp only [hn', hne, ↓reduceIte, ho]
      exact ⟨vm1, rfl, h1⟩

/-! ### the whole of `mouseHandler.handleEvent` -/

theorem mhe_exec (e : EOracle) (fuel : Nat) (s : St) (col row : Int) (lf : Nat)
    (hlf : (eMouseUpdate e fuel { s with mouse := some (col, row) } s.lastFrame).1.lastHits.length + 1 ≤ lf) :
    runMouseHandleEvent (seqOf mheParts) e fuel s col row lf = some (eMouseHandleEvent e fuel s col row) := by
  unfold runMouseHandleEvent runFocusHandleEvent eMouseHandleEvent mheParts
  generalize hr : eMouseUpdate e fuel { s with mouse := some (col, row) } s.lastFrame = r at hlf ⊢
  obtain ⟨s1, b1⟩ := r
  simp only [] at hlf ⊢
  have h01 : exec e fuel (.mouse col row) (seqOf [mhe0, mhe1]) lf ⟨s, [], [], [], [], []⟩ =
      some (⟨s1, [], [], [], [("v2", b1)], []⟩, .norm) := by
    vs [mhe0, mhe1, hr]
  rw [show [mhe0, mhe1, mhe2, mhe3, mhe4, mhe5, mhe6, mhe7, mhe8, mhe9, mhe10, mhe11, mhe12, mhe13] =
      [mhe0, mhe1] ++ [mhe2, mhe3, mhe4, mhe5, mhe6, mhe7, mhe8, mhe9, mhe10, mhe11, mhe12, mhe13] from rfl, seqOf_append, h01]
  simp only []
  cases b1 with
  | true => vs [mhe2]
  | false =>
    simp only [Bool.false_eq_true, ↓reduceIte]
    cases hl : s1.lastHits.getLast? with
    | none =>
      have hnil : s1.lastHits = [] := List.getLast?_eq_none_iff.mp hl
      vs [mhe2, mhe3, hnil]
    | some tg =>
      have hne : s1.lastHits ≠ [] := by intro h; rw [h] at hl; simp at hl
      have hlen : 0 < s1.lastHits.length := List.length_pos_iff.mpr hne
      have hlen' : ¬ ((s1.lastHits.length : Int) = 0) := by omega
      have h24 : exec e fuel (.mouse col row) (seqOf [mhe2, mhe3, mhe4]) lf ⟨s1, [], [], [], [("v2", false)], []⟩ =
          some (⟨{ s1 with consume := false }, [], [], [], [("v2", false)], []⟩, .norm) := by
        vs [mhe2, mhe3, mhe4, hlen', hne]
      rw [show [mhe2, mhe3, mhe4, mhe5, mhe6, mhe7, mhe8, mhe9, mhe10, mhe11, mhe12, mhe13] =
          [mhe2, mhe3, mhe4] ++ [mhe5, mhe6, mhe7, mhe8, mhe9, mhe10, mhe11, mhe12, mhe13] from rfl, seqOf_append, h24]
      simp only []
      unfold eDispatch
      simp only []
      -- the capture loop
      rw [seqOf_cons, mhe5_eq]
      obtain ⟨vm2, hc, hc1, hc2, hc3⟩ := view_some (cap_loopM e fuel (.mouse col row) lf (s1.lastHits.map (·.w))
        ⟨{ s1 with consume := false }, [], [], [], [("v2", false)], []⟩)
      have hex : exec e fuel (.mouse col row) (.rangeOver "_" "v3" (.var "r.lastHits") capBodyM) lf
            ⟨{ s1 with consume := false }, [], [], [], [("v2", false)], []⟩ =
          rangeIds "v3" (exec e fuel (.mouse col row) capBodyM lf) (s1.lastHits.map (·.w))
            ⟨{ s1 with consume := false }, [], [], [], [("v2", false)], []⟩ := by
        simp [exec, evList]
      rw [hex, hc]
      simp only [] at hc1 hc2 hc3
      have hh2 := eCapturePhase_hits e fuel (.mouse col row) (s1.lastHits.map (·.w)) { s1 with consume := false }
      generalize eCapturePhase e fuel (.mouse col row) (s1.lastHits.map (·.w)) { s1 with consume := false } = rc at hc hc1 hh2 ⊢
      obtain ⟨s2, o1⟩ := rc
      simp only [] at hc hc1 hh2 ⊢
      cases o1 with
      | stop => simp [ctlOf, hc1]
      | fail => simp [ctlOf, hc1]
      | next =>
        have hn : ctlOf Outcome.next = Ctl.norm := rfl
        simp only [hn, ne_eq, not_true_eq_false, ↓reduceIte]
        -- the target phase
        rw [show [mhe6, mhe7, mhe8, mhe9, mhe10, mhe11, mhe12, mhe13] = [mhe6, mhe7, mhe8, mhe9, mhe10] ++ [mhe11, mhe12, mhe13] from rfl,
          seqOf_append]
        obtain ⟨vm3, ht, ht1, ht2, ht3⟩ := view_some (tgt_execM e fuel (.mouse col row) lf vm2 tg (by rw [hc1, hh2]; exact hl))
        rw [hc1] at ht ht1
        have hh3 := eOffer_hits e fuel s2 tg.w (.mouse col row) .target
        generalize eOffer e fuel s2 tg.w (.mouse col row) .target = r2 at ht ht1 hh3 ⊢
        obtain ⟨s3, o2⟩ := r2
        simp only [] at ht ht1 hh3 ⊢
        rw [ht]
        cases o2 with
        | stop => simp [ctlOf, ht1]
        | fail => simp [ctlOf, ht1]
        | next =>
          simp only [hn, ne_eq, not_true_eq_false, ↓reduceIte]
          -- the bubble loop
          have hl3 : vm3.s.lastHits = s1.lastHits := by rw [ht1, hh3, hh2]
          have h11 : exec e fuel (.mouse col row) mhe11 lf vm3 =
              some ({ vm3 with ints := ("v10", (s1.lastHits.length : Int) - 2) :: vm3.ints }, .norm) := by
            vs [mhe11, hl3]
          rw [seqOf_cons, h11]
          simp only []
          obtain ⟨vm4, hb, hb1⟩ := bub_loopM e fuel (.mouse col row) s1.lastHits (s1.lastHits.length - 1)
            { vm3 with ints := ("v10", (s1.lastHits.length : Int) - 2) :: vm3.ints } ((s1.lastHits.length : Int) - 2) lf
            (by simp only []; exact hl3) (by simp [find]) (by omega) (by omega) (by omega) (by omega)
          simp only [] at hb hb1
          rw [seqOf_cons, mhe12_eq]
          have hloop : exec e fuel (.mouse col row) (.loop bubCondM bubBodyM bubPostM) lf
                { vm3 with ints := ("v10", (s1.lastHits.length : Int) - 2) :: vm3.ints } =
              loopN (fun vm => evBool vm bubCondM) (exec e fuel (.mouse col row) bubBodyM) (exec e fuel (.mouse col row) bubPostM) lf
                { vm3 with ints := ("v10", (s1.lastHits.length : Int) - 2) :: vm3.ints } := rfl
          have hdl : (s1.lastHits.map (·.w)).dropLast = (s1.lastHits.map (·.w)).take (s1.lastHits.length - 1) := by
            rw [List.dropLast_eq_take]; simp
          rw [hloop, hb, ht1, ← hdl]
          rw [ht1, ← hdl] at hb1
          generalize eBubblePhase e fuel (.mouse col row) (s1.lastHits.map (·.w)).dropLast.reverse s3 = r3 at hb1 ⊢
          obtain ⟨s4, o3⟩ := r3
          simp only [] at hb1 ⊢
          cases o3 with
          | stop => simp [ctlOf, hb1]
          | fail => simp [ctlOf, hb1]
          | next =>
            simp only [hn]
            have h13 : exec e fuel (.mouse col row) (seqOf [mhe13]) lf vm4 = some (vm4, .ret false) := by vs [mhe13]
            rw [h13]
            simp [hb1]

end VaxisModel.Lemmas.VxfwBody
