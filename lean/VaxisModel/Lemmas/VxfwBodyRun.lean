import VaxisModel.Lemmas.VxfwBody
import VaxisModel.Lemmas.VxfwBodyMouse
import VaxisModel.Lemmas.VxfwBodyHover
import VaxisModel.Lemmas.VxfwBodyX

/-! The `Run` loop over the interpreted bodies (`Model.VxfwInterp.bRun`) is `Model.Vxfw.eRun`. -/
set_option linter.unusedSimpArgs false
set_option linter.unusedVariables false

namespace VaxisModel.Lemmas.VxfwBodyRun
open VaxisModel.Model VaxisModel.Model.GoSyn VaxisModel.Model.Vxfw VaxisModel.Model.VxfwInterp
open VaxisModel.Model.DynExec (Stmt parseBody)
open VaxisModel.Lemmas.VxfwBody VaxisModel.Lemmas.VxfwBodyX

/-- The parsed expected bodies. -/
def expB : Bodies := ⟨seqOf fheParts, seqOf mheParts, muT, seqOf mxParts, seqOf meParts, upT⟩

theorem eMouseUpdate_hits (e : EOracle) (fuel : Nat) (s : St) (t : STree) (c r : Int) (hm : s.mouse = some (c, r)) :
    (eMouseUpdate e fuel s t).1.lastHits = s.lastHits ∨ (eMouseUpdate e fuel s t).1.lastHits = hitsAt t c r := by
  unfold eMouseUpdate
  simp only [hm]
  split
  · left; exact eNotifyLoop_hits e fuel _ _ _ _
  · split
    · left; rw [eNotifyLoop_hits, eNotifyLoop_hits]
    · right; rfl

theorem mouse_fuel_ok (e : EOracle) (fuel : Nat) (s : St) (c r : Int) :
    (eMouseUpdate e fuel { s with mouse := some (c, r) } s.lastFrame).1.lastHits.length + 1 ≤ mouseLoopFuel s c r := by
  unfold mouseLoopFuel
  rcases eMouseUpdate_hits e fuel { s with mouse := some (c, r) } s.lastFrame c r rfl with h | h
  · rw [h]; simp only []; omega
  · rw [h]; omega

theorem bRunEvent_eq (e : EOracle) (fuel : Nat) (s : St) (ev : RunEv) :
    bRunEvent expB e fuel s ev = some (eRunEvent e (fuel + 1) s ev) := by
  cases ev with
  | resize => rfl
  | redraw => rfl
  | mouse c r => exact mhe_exec e (fuel + 1) s c r _ (mouse_fuel_ok e (fuel + 1) s c r)
  | focusIn => exact me_exec e (fuel + 1) s s.root
  | focusOut => exact mx_exec e (fuel + 1) _
  | key k => exact fhe_exec e (fuel + 1) s (.key k) _ (Nat.le_refl _)
  | other k => exact fhe_exec e (fuel + 1) s (.custom k) _ (Nat.le_refl _)

theorem bRunFrame_eq (e : EOracle) (fuel : Nat) (s : St) (t1 t2 : STree) :
    bRunFrame expB e fuel s t1 t2 = some (eRunFrame e (fuel + 1) s t1 t2) := by
  unfold bRunFrame eRunFrame
  cases hr : s.redraw
  · rfl
  · simp only [Bool.not_true, Bool.false_eq_true, ↓reduceIte, expB, mu_exec, up_exec]
    split <;> rfl

theorem bRunInit_eq (e : EOracle) (fuel : Nat) (root : Id) (t : STree) :
    bRunInit expB e fuel root t = some (eRunInit e (fuel + 1) root t) := by
  unfold bRunInit eRunInit
  have h := fhe_exec e (fuel + 1) (St.init root) .init 2 (by simp [St.init])
  simp only [expB, h]
  split <;> rfl

theorem bRunSteps_eq (e : EOracle) (fuel : Nat) : ∀ (steps : List Step) (s : St),
    bRunSteps expB e fuel s steps = some (eRunSteps e (fuel + 1) s steps)
  | [], _ => rfl
  | st :: rest, s => by
    have hst : bRunStep expB e fuel s st = some (eRunStep e (fuel + 1) s st) := by
      cases st with
      | ev ev => exact bRunEvent_eq e fuel s ev
      | frame t1 t2 => exact bRunFrame_eq e fuel s t1 t2
    unfold bRunSteps eRunSteps
    rw [hst]
    simp only []
    split
    · rfl
    · cases st with
      | ev ev =>
        simp only []
        split
        · rfl
        · exact bRunSteps_eq e fuel rest _
      | frame t1 t2 => exact bRunSteps_eq e fuel rest _

theorem bRun_eq (e : EOracle) (fuel : Nat) (root : Id) (t0 : STree) (steps : List Step) :
    bRun expB e fuel root t0 steps = some (eRun e (fuel + 1) root t0 steps) := by
  unfold bRun eRun
  rw [bRunInit_eq]
  simp only []
  split
  · rfl
  · exact bRunSteps_eq e fuel steps _

/-! ### quiet handlers: the notifications of one `update` -/

/-- With handlers that answer nil, one notification only appends its call to the trace. -/
theorem notify_quiet (o : Oracle) (hq : ∀ w ev ph k, o.h w ev ph k = .nil) (fuel : Nat) (s : St) (w : Id) (ev : Ev) :
    notify o (fuel + 1) s w ev = { s with calls := s.calls + 1, trace := s.trace ++ [.call w ev .target] } := by
  simp [notify, call, hq, handleCommand, Cmd.flatten]

theorem foldl_notify_quiet (o : Oracle) (hq : ∀ w ev ph k, o.h w ev ph k = .nil) (fuel : Nat) (ev : Ev) (skip : Hit → Bool) :
    ∀ (l : List Hit) (s : St),
      (l.foldl (fun s h => if skip h then s else notify o (fuel + 1) s h.w ev) s).trace =
        s.trace ++ (l.filter (fun h => !skip h)).map (fun h => Entry.call h.w ev .target) ∧
      (l.foldl (fun s h => if skip h then s else notify o (fuel + 1) s h.w ev) s).lastHits = s.lastHits
  | [], s => by simp
  | h :: l, s => by
    rw [List.foldl_cons]
    cases hs : skip h
    · obtain ⟨h1, h2⟩ := foldl_notify_quiet o hq fuel ev skip l (notify o (fuel + 1) s h.w ev)
      simp only [Bool.false_eq_true, ↓reduceIte]
      rw [h1, h2, notify_quiet o hq]
      simp [hs]
    · obtain ⟨h1, h2⟩ := foldl_notify_quiet o hq fuel ev skip l s
      simp only [↓reduceIte]
      rw [h1, h2]
      simp [hs]


theorem eMouseUpdate_err_hits (e : EOracle) (fuel : Nat) (s : St) (t : STree) (h : (eMouseUpdate e fuel s t).2 = true) :
    (eMouseUpdate e fuel s t).1.lastHits = s.lastHits := by
  unfold eMouseUpdate at h ⊢
  cases hm : s.mouse with
  | none => rfl
  | some p =>
    obtain ⟨c, r⟩ := p
    simp only [hm] at h ⊢
    by_cases h1 : (eNotifyLoop e fuel .mouseLeave (fun h => (hitsAt t c r).contains h) s.lastHits s).2 = true
    · rw [if_pos h1]
      exact eNotifyLoop_hits e fuel _ _ _ _
    · rw [if_neg h1] at h ⊢
      by_cases h2 : (eNotifyLoop e fuel .mouseEnter (fun h => s.lastHits.contains h) (hitsAt t c r)
          (eNotifyLoop e fuel .mouseLeave (fun h => (hitsAt t c r).contains h) s.lastHits s).1).2 = true
      · rw [if_pos h2]
        rw [eNotifyLoop_hits, eNotifyLoop_hits]
      · rw [if_neg h2] at h
        exact absurd h (by simp)

end VaxisModel.Lemmas.VxfwBodyRun
