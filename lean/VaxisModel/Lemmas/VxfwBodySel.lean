import VaxisModel.Model.VxfwInterpRun
import VaxisModel.Lemmas.VxfwBodyAll

/-! The two arms of the `select` in `App.Run`, executed from their regenerated statement lists (`Model/VxfwInterpRun.lean`), are
    the model's `eRunEvent` (+ the `shouldQuit` test of `eRunSteps`) and `eRunFrame`; the loop over them is `eRunSteps`. -/
set_option linter.unusedSimpArgs false
set_option linter.unusedVariables false

namespace VaxisModel.Lemmas.VxfwBodySel
open VaxisModel.Model VaxisModel.Model.GoSyn VaxisModel.Model.Vxfw VaxisModel.Model.VxfwInterp
open VaxisModel.Model.DynExec (Stmt parseBody)

def reT : Stmt :=
  (.seq (.sw true (.lit "v5 := v4.(type)")
      (.case (.var "vaxis.Resize")
        (.seq (.atom ⟨2, .assign, (.var "r.redraw"), (.var "true")⟩)
        .skip)
      (.case (.var "vaxis.Mouse")
        (.seq (.atom ⟨2, .define, (.var "v6"), (.arg (.arg (.call (.var "v3.handleEvent")) (.var "r")) (.var "v5"))⟩)
        (.seq (.ite (.bin "!=" (.var "v6") (.var "nil"))
            (.seq (.atom ⟨3, .returnS, (.var "v6"), .none⟩)
            .skip)
            .skip)
        .skip))
      (.case (.var "vaxis.FocusIn")
        (.seq (.atom ⟨2, .define, (.var "v7"), (.arg (.arg (.call (.var "v3.mouseEnter")) (.var "r")) (.var "v0"))⟩)
        (.seq (.ite (.bin "!=" (.var "v7") (.var "nil"))
            (.seq (.atom ⟨3, .returnS, (.var "v7"), .none⟩)
            .skip)
            .skip)
        .skip))
      (.case (.var "vaxis.FocusOut")
        (.seq (.atom ⟨2, .assign, (.var "v3.mouse"), (.var "nil")⟩)
        (.seq (.atom ⟨2, .define, (.var "v8"), (.arg (.call (.var "v3.mouseExit")) (.var "r"))⟩)
        (.seq (.ite (.bin "!=" (.var "v8") (.var "nil"))
            (.seq (.atom ⟨3, .returnS, (.var "v8"), .none⟩)
            .skip)
            .skip)
        .skip)))
      (.case (.var "vaxis.Key")
        (.seq (.atom ⟨2, .define, (.var "v9"), (.arg (.arg (.call (.var "r.fh.handleEvent")) (.var "r")) (.var "v5"))⟩)
        (.seq (.ite (.bin "!=" (.var "v9") (.var "nil"))
            (.seq (.atom ⟨3, .returnS, (.var "v9"), .none⟩)
            .skip)
            .skip)
        .skip))
      (.case (.var "vaxis.Redraw")
        (.seq (.atom ⟨2, .assign, (.var "r.redraw"), (.var "true")⟩)
        .skip)
      (.case (.var "default")
        (.seq (.atom ⟨2, .define, (.var "v10"), (.arg (.arg (.call (.var "r.fh.handleEvent")) (.var "r")) (.var "v5"))⟩)
        (.seq (.ite (.bin "!=" (.var "v10") (.var "nil"))
            (.seq (.atom ⟨3, .returnS, (.var "v10"), .none⟩)
            .skip)
            .skip)
        .skip))
      .skip))))))))
  (.seq (.ite (.var "r.shouldQuit")
      (.seq (.atom ⟨1, .returnS, (.var "nil"), .none⟩)
      .skip)
      .skip)
  .skip))
def rfA (K : Stmt) : Stmt :=
  (.seq (.ite (.un "!" (.var "r.redraw"))
      (.seq (.atom ⟨1, .continueS, .none, .none⟩)
      .skip)
      .skip)
  (.seq (.atom ⟨0, .assign, (.var "r.redraw"), (.var "false")⟩)
  (.seq (.atom ⟨0, .define, (.pair (.var "v11") (.var "v12")), (.arg (.call (.var "r.layout")) (.var "v0"))⟩)
  (.seq (.ite (.bin "!=" (.var "v12") (.var "nil"))
      (.seq (.atom ⟨1, .returnS, (.var "v12"), .none⟩)
      .skip)
      .skip)
  (.seq (.atom ⟨0, .assign, (.var "v12"), (.arg (.arg (.call (.var "v3.update")) (.var "r")) (.var "v11"))⟩)
  (.seq (.ite (.bin "!=" (.var "v12") (.var "nil"))
      (.seq (.atom ⟨1, .returnS, (.var "v12"), .none⟩)
      .skip)
      .skip)
  K))))))
def rfB (K : Stmt) : Stmt :=
  (.seq (.ite (.var "r.redraw")
      (.seq (.atom ⟨1, .assign, (.var "r.redraw"), (.var "false")⟩)
      (.seq (.atom ⟨1, .assign, (.pair (.var "v11") (.var "v12")), (.arg (.call (.var "r.layout")) (.var "v0"))⟩)
      (.seq (.ite (.bin "!=" (.var "v12") (.var "nil"))
          (.seq (.atom ⟨2, .returnS, (.var "v12"), .none⟩)
          .skip)
          .skip)
      .skip)))
      .skip)
  K)
def rfC : Stmt :=
  (.seq (.atom ⟨0, .define, (.var "v13"), (.call (.var "r.vx.Window"))⟩)
  (.seq (.atom ⟨0, .exprS, (.call (.var "v13.Clear")), .none⟩)
  (.seq (.atom ⟨0, .exprS, (.call (.var "r.vx.HideCursor")), .none⟩)
  (.seq (.atom ⟨0, .exprS, (.arg (.arg (.call (.var "v11.render")) (.arg (.arg (.arg (.arg (.call (.var "v13.New")) (.int 0)) (.int 0)) (.arg (.call (.var "int")) (.var "v11.Size.Width"))) (.arg (.call (.var "int")) (.var "v11.Size.Height")))) (.var "r.fh.focused")), .none⟩)
  (.seq (.sw false (.var "r.refresh")
      (.case (.var "true")
        (.seq (.atom ⟨2, .exprS, (.call (.var "r.vx.Refresh")), .none⟩)
        (.seq (.atom ⟨2, .assign, (.var "r.refresh"), (.var "false")⟩)
        .skip))
      (.case (.var "false")
        (.seq (.atom ⟨2, .exprS, (.call (.var "r.vx.Render")), .none⟩)
        .skip)
      .skip)))
  (.seq (.ite (.var "r.debug")
      (.seq (.atom ⟨1, .exprS, (.arg (.arg (.arg (.call (.var "debugPrintWidget")) (.var "v11")) (.int 0)) (.var "r.fh.focused")), .none⟩)
      (.seq (.atom ⟨1, .assign, (.var "r.debug"), (.var "false")⟩)
      .skip))
      .skip)
  (.seq (.atom ⟨0, .exprS, (.arg (.arg (.call (.var "r.fh.updatePath")) (.var "r")) (.var "v11")), .none⟩)
  (.seq (.atom ⟨0, .assign, (.var "v3.lastFrame"), (.var "v11")⟩)
  .skip))))))))
def rfT : Stmt := rfA (rfB rfC)

theorem parse_re : parseBody VxfwBodyExpected.runEventBlock = reT := by decide +kernel
theorem parse_rf : parseBody VxfwBodyExpected.runFrameBlock = rfT := by decide +kernel

/-- The callees compute the model functions at budget `F`. -/
structure GoodR (e : EOracle) (F : Nat) (C : RCallees) : Prop where
  mouseHE : ∀ s c r, C.mouseHE s c r = some (eMouseHandleEvent e F s c r)
  mouseEnter : ∀ s w, C.mouseEnter s w = some (eMouseEnter e F s w)
  mouseExit : ∀ s, C.mouseExit s = some (eMouseExit e F s)
  focusHE : ∀ s ev, C.focusHE s ev = some (eHandleEvent e F s ev)
  update : ∀ s t, C.update s t = some (eMouseUpdate e F s t)
  updatePath : ∀ s t, C.updatePath s t = some (eUpdatePath e F s t)

/-- How the event arm ends. -/
def evCtl (r : St × Bool) : Ctl := if r.2 then .ret true else if r.1.quit then .ret false else .norm

local macro "rs" "[" ts:Lean.Parser.Tactic.simpLemma,* "]" : tactic =>
  `(tactic| simp [runEventBlock, runFrameBlock, rexec, ratom, revBool, evType, boolTok, hasCase, labelTok, callErr, doLayout, setR,
      VxfwInterp.find, evCtl, $ts,*])

theorem re_exec (e : EOracle) (F : Nat) (C : RCallees) (g : GoodR e F C) (s : St) (ev : RunEv) :
    runEventBlock reT C s ev = some ((eRunEvent e F s ev).1, evCtl (eRunEvent e F s ev)) := by
  cases ev with
  | resize => cases hq : s.quit <;> rs [reT, eRunEvent, hq]
  | redraw => cases hq : s.quit <;> rs [reT, eRunEvent, hq]
  | mouse c r =>
    have h := g.mouseHE s c r
    simp only [eRunEvent]
    generalize eMouseHandleEvent e F s c r = x at h ⊢
    obtain ⟨s', b⟩ := x
    cases b <;> cases hq : s'.quit <;> rs [reT, h, hq]
  | focusIn =>
    have h := g.mouseEnter s s.root
    simp only [eRunEvent]
    generalize eMouseEnter e F s s.root = x at h ⊢
    obtain ⟨s', b⟩ := x
    cases b <;> cases hq : s'.quit <;> rs [reT, h, hq]
  | focusOut =>
    have h := g.mouseExit { s with mouse := none }
    simp only [eRunEvent]
    generalize eMouseExit e F { s with mouse := none } = x at h ⊢
    obtain ⟨s', b⟩ := x
    cases b <;> cases hq : s'.quit <;> rs [reT, h, hq]
  | key k =>
    have h := g.focusHE s (.key k)
    simp only [eRunEvent]
    generalize eHandleEvent e F s (.key k) = x at h ⊢
    obtain ⟨s', b⟩ := x
    cases b <;> cases hq : s'.quit <;> rs [reT, h, hq]
  | other k =>
    have h := g.focusHE s (.custom k)
    simp only [eRunEvent]
    generalize eHandleEvent e F s (.custom k) = x at h ⊢
    obtain ⟨s', b⟩ := x
    cases b <;> cases hq : s'.quit <;> rs [reT, h, hq]

/-- How the frame arm ends. -/
def frCtl (s : St) (r : St × Bool) : Ctl := if !s.redraw then .cont else if r.2 then .ret true else .norm

/-- Stage C: render (sort), `switch a.refresh`, `if a.debug`, `updatePath`, `mh.lastFrame = s`. -/
theorem rfC_exec (e : EOracle) (F : Nat) (C : RCallees) (g : GoodR e F C) (m : RM) (t : STree)
    (ht : VxfwInterp.find m.trees "v11" = some t) :
    (rexec C .resize rfC "" m).map (fun r => (r.1.s, r.2)) =
      some ({ (eUpdatePath e F { m.s with refresh := false, debug := false } (sortTree t)) with lastFrame := sortTree t }, .norm) := by
  obtain ⟨s1, fl, tr, ly⟩ := m
  obtain ⟨rd, rf, q, cns, dbg, foc, root, path, fh, lf, lh, mo, calls, trc, st⟩ := s1
  have hp := g.updatePath
  simp only [] at ht
  cases rf <;> cases dbg <;> rs [rfC, ht, hp]

/-- Stage B: the second layout if a hover handler asked for a redraw. -/
theorem rfB_exec (C : RCallees) (m : RM) (t1 t2 : STree) (K : Stmt) (ht : VxfwInterp.find m.trees "v11" = some t1)
    (hl : m.layouts = [t2]) :
    ∃ m', rexec C .resize (rfB K) "" m = rexec C .resize K "" m' ∧
      m'.s = (if m.s.redraw then { m.s with redraw := false, trace := m.s.trace ++ [.draw] } else m.s) ∧
      VxfwInterp.find m'.trees "v11" = some (if m.s.redraw then t2 else t1) := by
  obtain ⟨s1, fl, tr, ly⟩ := m
  simp only [] at ht hl
  subst hl
  cases hrd : s1.redraw
  · exact ⟨⟨s1, fl, tr, [t2]⟩, by rs [rfB, hrd], by simp [hrd], by simp [hrd, ht]⟩
  · refine ⟨⟨{ s1 with redraw := false, trace := s1.trace ++ [.draw] }, ("v12", false) :: fl, ("v11", t2) :: tr, []⟩, ?_, by simp [hrd], by simp [hrd, VxfwInterp.find]⟩
    rs [rfB, hrd]

theorem rf_exec (e : EOracle) (F : Nat) (C : RCallees) (g : GoodR e F C) (s : St) (t1 t2 : STree) :
    runFrameBlock rfT C s t1 t2 = some ((eRunFrame e F s t1 t2).1, frCtl s (eRunFrame e F s t1 t2)) := by
  cases hrd : s.redraw
  · rs [rfT, rfA, eRunFrame, frCtl, hrd]
  · have hu := g.update { s with redraw := false, trace := s.trace ++ [.draw] } t1
    unfold eRunFrame runFrameBlock
    simp only [hrd, Bool.not_true, Bool.false_eq_true, ↓reduceIte, frCtl]
    rcases hx : eMouseUpdate e F { s with redraw := false, trace := s.trace ++ [.draw] } t1 with ⟨s1, b1⟩
    rw [hx] at hu
    cases b1
    · -- stage A ends in the state `mA`
      have hA : rexec C .resize rfT "" { s := s, layouts := [t1, t2] } =
          rexec C .resize (rfB rfC) "" ⟨s1, [("v12", false), ("v12", false)], [("v11", t1)], [t2]⟩ := by
        rs [rfT, rfA, hrd, hu]
      obtain ⟨mB, hB, hsB, htB⟩ := rfB_exec C ⟨s1, [("v12", false), ("v12", false)], [("v11", t1)], [t2]⟩ t1 t2 rfC
        (by simp [VxfwInterp.find]) rfl
      have hC := rfC_exec e F C g mB _ htB
      rw [hA, hB, hC, hsB]
      cases s1.redraw <;> simp
    · have hA : rexec C .resize rfT "" { s := s, layouts := [t1, t2] } =
          some (⟨s1, [("v12", true), ("v12", false)], [("v11", t1)], [t2]⟩, .ret true) := by
        rs [rfT, rfA, hrd, hu]
      rw [hA]
      simp

theorem steps_eq (e : EOracle) (F : Nat) (C : RCallees) (g : GoodR e F C) : ∀ (steps : List Step) (s : St),
    rRunSteps reT rfT C s steps = some (eRunSteps e F s steps)
  | [], _ => rfl
  | .ev ev :: rest, s => by
    unfold rRunSteps eRunSteps
    rw [re_exec e F C g s ev]
    rcases hx : eRunEvent e F s ev with ⟨s', b⟩
    simp only [eRunStep, evCtl, hx]
    cases b
    · cases hq : s'.quit
      · simp only [Bool.false_eq_true, ↓reduceIte]
        exact steps_eq e F C g rest s'
      · simp only [Bool.false_eq_true, ↓reduceIte]
    · simp only [↓reduceIte]
  | .frame t1 t2 :: rest, s => by
    unfold rRunSteps eRunSteps
    rw [rf_exec e F C g s t1 t2]
    cases hrd : s.redraw
    · have h0 : eRunFrame e F s t1 t2 = (s, false) := by simp [eRunFrame, hrd]
      simp only [eRunStep, frCtl, hrd, h0, Bool.not_false, ↓reduceIte, Bool.false_eq_true]
      exact steps_eq e F C g rest s
    · rcases hx : eRunFrame e F s t1 t2 with ⟨s', b⟩
      simp only [eRunStep, frCtl, hrd, hx]
      cases b
      · simp only [Bool.not_true, Bool.false_eq_true, ↓reduceIte]
        exact steps_eq e F C g rest s'
      · simp only [Bool.not_true, Bool.false_eq_true, ↓reduceIte]

open VaxisModel.Lemmas.VxfwBody VaxisModel.Lemmas.VxfwBodyRun VaxisModel.Lemmas.VxfwBodyAll in
/-- The interpreters run on the callees' bodies compute the model functions (budget `fuel + 1`). -/
theorem good_rcallees (e : EOracle) (fuel : Nat) : GoodR e (fuel + 1) (rCallees expB expC e fuel) where
  mouseHE := fun s c r => mhe_exec e (fuel + 1) s c r _ (mouse_fuel_ok e (fuel + 1) s c r)
  mouseEnter := fun s w => me_exec e (fuel + 1) s w
  mouseExit := fun s => mx_exec e (fuel + 1) s
  focusHE := fun s ev => fhe_exec e (fuel + 1) s ev _ (Nat.le_refl _)
  update := fun s t => mu_all e (fuel + 1) s t
  updatePath := fun s t => up_all e fuel s t

open VaxisModel.Lemmas.VxfwBodyRun VaxisModel.Lemmas.VxfwBodyAll in
theorem rRun_eq (e : EOracle) (fuel : Nat) (root : Id) (t0 : STree) (steps : List Step) :
    rRun reT rfT expB expC e fuel root t0 steps = some (eRun e (fuel + 1) root t0 steps) := by
  unfold rRun eRun
  rw [bRunInit_eq]
  simp only []
  split
  · rfl
  · exact steps_eq e (fuel + 1) _ (good_rcallees e fuel) steps _

end VaxisModel.Lemmas.VxfwBodySel
