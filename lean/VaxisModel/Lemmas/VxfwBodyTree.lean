import VaxisModel.Model.VxfwInterpTree
import VaxisModel.Lemmas.VxfwBodyExpected

/-! `hitTest`, `SubSurface.containsPoint` and `focusHandler.childHasFocus`, executed from their bodies
    (`Model/VxfwInterpTree.lean`), are the model's `hitTest` (appended to the `hits` argument), `containsPoint`
    and `childHasFocus` (appended to `f.path`, with the returned bool). -/
set_option linter.unusedSimpArgs false
set_option linter.unusedVariables false

namespace VaxisModel.Lemmas.VxfwBodyTree
open VaxisModel.Model VaxisModel.Model.GoSyn VaxisModel.Model.Vxfw VaxisModel.Model.VxfwInterpTree
open VaxisModel.Model.DynExec (Stmt parseBody)

def htBody : Stmt :=
      (.seq (.ite (.un "!" (.arg (.arg (.call (.var "v5.containsPoint")) (.arg (.call (.var "int")) (.var "v2"))) (.arg (.call (.var "int")) (.var "v3"))))
          (.seq (.atom ⟨2, .continueS, .none, .none⟩)
          .skip)
          .skip)
      (.seq (.atom ⟨1, .define, (.var "v6"), (.bin "-" (.var "v2") (.arg (.call (.var "uint16")) (.var "v5.Origin.Col")))⟩)
      (.seq (.atom ⟨1, .define, (.var "v7"), (.bin "-" (.var "v3") (.arg (.call (.var "uint16")) (.var "v5.Origin.Row")))⟩)
      (.seq (.atom ⟨1, .assign, (.var "v1"), (.arg (.arg (.arg (.arg (.call (.var "hitTest")) (.var "v5.Surface")) (.var "v1")) (.var "v6")) (.var "v7"))⟩)
      .skip))))

def htPre : Stmt :=
  (.seq (.atom ⟨0, .define, (.var "v4"), (.lit "hitResult{v2:v2,v3:v3,w:v0.Widget}")⟩)
  (.seq (.atom ⟨0, .assign, (.var "v1"), (.arg (.arg (.call (.var "append")) (.var "v1")) (.var "v4"))⟩)
  .skip))

def htT : Stmt :=
  (.seq (.atom ⟨0, .define, (.var "v4"), (.lit "hitResult{v2:v2,v3:v3,w:v0.Widget}")⟩)
  (.seq (.atom ⟨0, .assign, (.var "v1"), (.arg (.arg (.call (.var "append")) (.var "v1")) (.var "v4"))⟩)
  (.seq (.rangeOver "_" "v5" (.var "v0.Children") htBody)
  (.seq (.atom ⟨0, .returnS, (.var "v1"), .none⟩)
  .skip))))

def chBody : Stmt :=
      (.seq (.ite (.un "!" (.arg (.call (.var "r.childHasFocus")) (.var "v1.Surface")))
          (.seq (.atom ⟨2, .continueS, .none, .none⟩)
          .skip)
          .skip)
      (.seq (.atom ⟨1, .assign, (.var "r.path"), (.arg (.arg (.call (.var "append")) (.var "r.path")) (.var "v0.Widget"))⟩)
      (.seq (.atom ⟨1, .returnS, (.var "true"), .none⟩)
      .skip)))

def chT : Stmt :=
  (.seq (.ite (.bin "==" (.var "v0.Widget") (.var "r.focused"))
      (.seq (.atom ⟨1, .assign, (.var "r.path"), (.arg (.arg (.call (.var "append")) (.var "r.path")) (.var "v0.Widget"))⟩)
      (.seq (.atom ⟨1, .returnS, (.var "true"), .none⟩)
      .skip))
      .skip)
  (.seq (.rangeOver "_" "v1" (.var "v0.Children") chBody)
  (.seq (.atom ⟨0, .returnS, (.var "false"), .none⟩)
  .skip)))

theorem parse_ht : parseBody VxfwBodyExpected.hitTest = htT := by decide +kernel
theorem parse_ch : parseBody VxfwBodyExpected.childHasFocus = chT := by decide +kernel

local macro "ts" "[" ts:Lean.Parser.Tactic.simpLemma,* "]" : tactic =>
  `(tactic| simp [texec, tatom, tevBool, VxfwInterpTree.find, bindKid, bindTree, $ts,*])

/-! ### containsPoint -/

theorem cp_run (k : Kid) (col row : Int) :
    runContainsPoint VxfwBodyExpected.containsPoint k col row =
      some (containsPoint k.1 k.2.1 k.2.2.2.w k.2.2.2.h col row) := by
  simp [runContainsPoint, VxfwBodyExpected.containsPoint, evalB, evalI, lookup, containsPoint, bind, Option.bind]

/-! ### depth -/

theorem depth_kid : ∀ (ks : List Kid) (k : Kid), k ∈ ks → treeDepth k.2.2.2 ≤ kidsDepth ks
  | [], _, h => by cases h
  | (a, b, c, t) :: r, k, h => by
    rw [kidsDepth]
    cases h with
    | head => exact Nat.le_max_left _ _
    | tail _ h' => exact Nat.le_trans (depth_kid r k h') (Nat.le_max_right _ _)

/-! ### hitTest -/

/-- One iteration of `for _, ss := range s.Children`. -/
theorem ht_body (env : TEnv) (m : TM) (k : Kid) (col row : Int) (hs : List Hit)
    (h2 : VxfwInterpTree.find m.ints "v2" = some col) (h3 : VxfwInterpTree.find m.ints "v3" = some row)
    (h1 : VxfwInterpTree.find m.hitl "v1" = some hs)
    (hcp : env.cp k col row = some (containsPoint k.1 k.2.1 k.2.2.2.w k.2.2.2.h col row))
    (hself : ∀ hs c r, env.selfH k.2.2.2 hs c r = some (hs ++ hitTest k.2.2.2 c r)) :
    ∃ m' c, texec env htBody (bindKid m "v5" k) = some (m', c) ∧ (c = .norm ∨ c = .cont) ∧
      VxfwInterpTree.find m'.ints "v2" = some col ∧ VxfwInterpTree.find m'.ints "v3" = some row ∧
      VxfwInterpTree.find m'.hitl "v1" = some (hs ++ (if containsPoint k.1 k.2.1 k.2.2.2.w k.2.2.2.h col row
        then hitTest k.2.2.2 (u16 (col - u16 k.1)) (u16 (row - u16 k.2.1)) else [])) := by
  cases hc : containsPoint k.1 k.2.1 k.2.2.2.w k.2.2.2.h col row
  · refine ⟨bindKid m "v5" k, .cont, ?_, Or.inr rfl, ?_, ?_, ?_⟩
    · rw [hc] at hcp
      ts [htBody, h2, h3, hcp]
    · simp [bindKid, VxfwInterpTree.find, h2]
    · simp [bindKid, VxfwInterpTree.find, h3]
    · simp [bindKid, h1]
  · rw [hc] at hcp
    refine ⟨{ (bindKid m "v5" k) with
        ints := ("v7", u16 (row - u16 k.2.1)) :: ("v6", u16 (col - u16 k.1)) :: (bindKid m "v5" k).ints,
        hitl := ("v1", hs ++ hitTest k.2.2.2 (u16 (col - u16 k.1)) (u16 (row - u16 k.2.1))) :: (bindKid m "v5" k).hitl },
      .norm, ?_, Or.inl rfl, ?_, ?_, ?_⟩
    · ts [htBody, h2, h3, h1, hcp, hself]
    · simp [bindKid, VxfwInterpTree.find, h2]
    · simp [bindKid, VxfwInterpTree.find, h3]
    · simp [VxfwInterpTree.find]

theorem ht_loop (env : TEnv) (col row : Int)
    (hcp : ∀ k, env.cp k col row = some (containsPoint k.1 k.2.1 k.2.2.2.w k.2.2.2.h col row)) :
    ∀ (ks : List Kid) (m : TM) (hs : List Hit),
      VxfwInterpTree.find m.ints "v2" = some col → VxfwInterpTree.find m.ints "v3" = some row →
      VxfwInterpTree.find m.hitl "v1" = some hs →
      (∀ k ∈ ks, ∀ hs c r, env.selfH k.2.2.2 hs c r = some (hs ++ hitTest k.2.2.2 c r)) →
      ∃ m', rangeKids "v5" (texec env htBody) ks m = some (m', .norm) ∧
        VxfwInterpTree.find m'.hitl "v1" = some (hs ++ hitKids ks col row) := by
  intro ks
  induction ks with
  | nil => intro m hs _ _ h1 _; exact ⟨m, rfl, by simpa [hitKids] using h1⟩
  | cons k ks ih =>
    intro m hs h2 h3 h1 hself
    obtain ⟨m1, c, hb, hc, h2', h3', h1'⟩ := ht_body env m k col row hs h2 h3 h1 (hcp k) (hself k List.mem_cons_self)
    obtain ⟨m2, hr, hh⟩ := ih m1 _ h2' h3' h1' (fun k' hk' => hself k' (List.mem_cons_of_mem _ hk'))
    refine ⟨m2, ?_, ?_⟩
    · rw [rangeKids, hb]
      rcases hc with rfl | rfl <;> exact hr
    · rw [hh]
      obtain ⟨oc, or_, z, t⟩ := k
      simp [hitKids, List.append_assoc]

theorem ht_exec : ∀ (d : Nat) (t : STree) (hits : List Hit) (col row : Int), treeDepth t < d →
    runHitTestD htT VxfwBodyExpected.containsPoint d t hits col row = some (hits ++ hitTest t col row) := by
  intro d
  induction d with
  | zero => intro t hits col row h; omega
  | succ d ih =>
    intro t hits col row hd
    obtain ⟨i, w, h, ch⟩ := t
    rw [treeDepth] at hd
    have hself : ∀ k ∈ ch, ∀ hs c r, runHitTestD htT VxfwBodyExpected.containsPoint d k.2.2.2 hs c r = some (hs ++ hitTest k.2.2.2 c r) := by
      intro k hk hs c r
      have := depth_kid ch k hk
      exact ih k.2.2.2 hs c r (by omega)
    rw [runHitTestD]
    generalize henv : (⟨runContainsPoint VxfwBodyExpected.containsPoint, runHitTestD htT VxfwBodyExpected.containsPoint d, fun _ _ _ => none⟩ : TEnv) = env
    have hcp : ∀ k, env.cp k col row = some (containsPoint k.1 k.2.1 k.2.2.2.w k.2.2.2.h col row) := by
      intro k; rw [← henv]; exact cp_run k col row
    have hself' : ∀ k ∈ ch, ∀ hs c r, env.selfH k.2.2.2 hs c r = some (hs ++ hitTest k.2.2.2 c r) := by
      intro k hk hs c r; rw [← henv]; exact hself k hk hs c r
    obtain ⟨m2, hr, hh⟩ := ht_loop env col row hcp ch
      { trees := [("v0", .node i w h ch), ("v0.Children", .node i w h ch)], ints := [("v2", col), ("v3", row)],
        ids := [("v0.Widget", i)], hitl := [("v1", hits ++ [⟨col, row, i⟩]), ("v1", hits)], hit := [("v4", ⟨col, row, i⟩)] }
      (hits ++ [⟨col, row, i⟩]) (by simp [VxfwInterpTree.find]) (by simp [VxfwInterpTree.find]) (by simp [VxfwInterpTree.find]) hself'
    unfold htT
    ts [STree.id, STree.ch, hr, hh, hitTest]

theorem ht_run (t : STree) (hits : List Hit) (col row : Int) :
    runHitTest htT VxfwBodyExpected.containsPoint t hits col row = some (hits ++ hitTest t col row) :=
  ht_exec _ t hits col row (Nat.lt_succ_self _)

/-! ### childHasFocus -/

/-- What `f.childHasFocus(s)` leaves in `f.path` and returns, in terms of the model. -/
def chfSpec (f : Id) (path : List Id) (t : STree) : List Id × Bool :=
  (path ++ (childHasFocus f t).getD [], (childHasFocus f t).isSome)

theorem ch_loop (env : TEnv) (f i : Id) : ∀ (ks : List Kid) (m : TM),
    m.focused = f → VxfwInterpTree.find m.ids "v0.Widget" = some i →
    (∀ k ∈ ks, ∀ path, env.selfC f path k.2.2.2 = some (chfSpec f path k.2.2.2)) →
    ∃ m', rangeKids "v1" (texec env chBody) ks m =
        some (m', match childHasFocusL f ks with | some _ => .retB true | none => .norm) ∧
      m'.path = m.path ++ (match childHasFocusL f ks with | some p => p ++ [i] | none => []) := by
  intro ks
  induction ks with
  | nil => intro m _ _ _; exact ⟨m, rfl, by simp [childHasFocusL]⟩
  | cons k ks ih =>
    intro m hf hi hself
    obtain ⟨oc, or_, z, t⟩ := k
    have hs := hself (oc, or_, z, t) List.mem_cons_self m.path
    simp only [chfSpec] at hs
    rw [rangeKids, childHasFocusL]
    cases hc : childHasFocus f t with
    | some p =>
      rw [hc] at hs
      refine ⟨{ (bindKid m "v1" (oc, or_, z, t)) with path := m.path ++ p ++ [i] }, ?_, ?_⟩
      · have hb : texec env chBody (bindKid m "v1" (oc, or_, z, t)) =
            some ({ (bindKid m "v1" (oc, or_, z, t)) with path := m.path ++ p ++ [i] }, .retB true) := by
          ts [chBody, hf, hs, hi]
        rw [hb]
      · simp
    | none =>
      rw [hc] at hs
      have hb : texec env chBody (bindKid m "v1" (oc, or_, z, t)) = some ({ (bindKid m "v1" (oc, or_, z, t)) with path := m.path }, .cont) := by
        ts [chBody, hf, hs]
      rw [hb]
      simp only []
      obtain ⟨m2, hr, hp⟩ := ih { (bindKid m "v1" (oc, or_, z, t)) with path := m.path } hf (by simpa [bindKid] using hi)
        (fun k' hk' => hself k' (List.mem_cons_of_mem _ hk'))
      exact ⟨m2, hr, hp⟩

theorem ch_exec : ∀ (d : Nat) (f : Id) (path : List Id) (t : STree), treeDepth t < d →
    runChildHasFocusD chT d f path t = some (chfSpec f path t) := by
  intro d
  induction d with
  | zero => intro f path t h; omega
  | succ d ih =>
    intro f path t hd
    obtain ⟨i, w, h, ch⟩ := t
    rw [treeDepth] at hd
    rw [runChildHasFocusD]
    generalize henv : (⟨fun _ _ _ => none, fun _ _ _ _ => none, runChildHasFocusD chT d⟩ : TEnv) = env
    have hself : ∀ k ∈ ch, ∀ path, env.selfC f path k.2.2.2 = some (chfSpec f path k.2.2.2) := by
      intro k hk path
      have := depth_kid ch k hk
      rw [← henv]
      exact ih f path k.2.2.2 (by omega)
    by_cases hif : i = f
    · unfold chT
      ts [STree.id, hif, chfSpec, childHasFocus]
    · obtain ⟨m2, hr, hp⟩ := ch_loop env f i ch
        { trees := [("v0", .node i w h ch), ("v0.Children", .node i w h ch)], ids := [("v0.Widget", i)], focused := f, path := path }
        rfl (by simp [VxfwInterpTree.find]) hself
      unfold chT
      cases hl : childHasFocusL f ch with
      | some p =>
        rw [hl] at hr hp
        ts [STree.id, STree.ch, hif, hr, hp, chfSpec, childHasFocus, hl]
      | none =>
        rw [hl] at hr hp
        ts [STree.id, STree.ch, hif, hr, hp, chfSpec, childHasFocus, hl]

theorem ch_run (f : Id) (path : List Id) (t : STree) :
    runChildHasFocus chT f path t = some (chfSpec f path t) :=
  ch_exec _ f path t (Nat.lt_succ_self _)

/-! ### findPath: the in-place reversal loop -/

/-- After `i` iterations of the swap loop on `orig`: the outer `i` positions at both ends hold the reversed list. -/
def RevInv (orig : List Id) (i : Nat) (l : List Id) : Prop :=
  l.length = orig.length ∧ ∀ j, l[j]? = if j < i ∨ orig.length - i ≤ j then orig.reverse[j]? else orig[j]?

theorem revInv_init (orig : List Id) : RevInv orig 0 orig := by
  refine ⟨rfl, fun j => ?_⟩
  by_cases h : orig.length ≤ j
  · have h' : orig.reverse.length ≤ j := by simpa using h
    simp only [List.getElem?_eq_none h, List.getElem?_eq_none h', ite_self]
  · have : ¬ (j < 0 ∨ orig.length - 0 ≤ j) := by omega
    rw [if_neg this]

theorem getElem?_set_set (l : List Id) (i j0 : Nat) (a b : Id) (hi : i < l.length) (hj : j0 < l.length) (j : Nat) :
    ((l.set i b).set j0 a)[j]? = if j0 = j then some a else if i = j then some b else l[j]? := by
  rw [List.getElem?_set, List.getElem?_set, List.length_set, if_pos hj, if_pos hi]

theorem revInv_step (orig l : List Id) (i : Nat) (hi : i < orig.length / 2) (hinv : RevInv orig i l) :
    ∃ p, swapIdx l i (l.length - 1 - i) = some p ∧ RevInv orig (i + 1) p := by
  obtain ⟨hlen, hget⟩ := hinv
  have hi' : i < orig.length := by omega
  have hj' : orig.length - 1 - i < orig.length := by omega
  have h1 : l[i]? = some orig[i] := by
    rw [hget i, if_neg (by omega), List.getElem?_eq_getElem hi']
  have h2 : l[l.length - 1 - i]? = some orig[orig.length - 1 - i] := by
    rw [hlen, hget, if_neg (by omega), List.getElem?_eq_getElem hj']
  refine ⟨(l.set i orig[orig.length - 1 - i]).set (l.length - 1 - i) orig[i], by simp [swapIdx, h1, h2], ?_, ?_⟩
  · simp [hlen]
  · intro j
    rw [getElem?_set_set l i (l.length - 1 - i) _ _ (by omega) (by omega), hlen]
    by_cases hj0 : orig.length - 1 - i = j
    · rw [if_pos hj0, if_pos (by omega), ← hj0, List.getElem?_reverse hj']
      have e : orig.length - 1 - (orig.length - 1 - i) = i := by omega
      rw [e, List.getElem?_eq_getElem hi']
    · rw [if_neg hj0]
      by_cases hji : i = j
      · rw [if_pos hji, if_pos (by omega), ← hji, List.getElem?_reverse hi', List.getElem?_eq_getElem hj']
      · rw [if_neg hji, hget j]
        by_cases hc : j < i ∨ orig.length - i ≤ j
        · rw [if_pos hc, if_pos (by omega)]
        · rw [if_neg hc, if_neg (by omega)]

theorem revInv_final (orig l : List Id) (hinv : RevInv orig (orig.length / 2) l) : l = orig.reverse := by
  obtain ⟨hlen, hget⟩ := hinv
  apply List.ext_getElem?
  intro j
  rw [hget j]
  by_cases hc : j < orig.length / 2 ∨ orig.length - orig.length / 2 ≤ j
  · rw [if_pos hc]
  · rw [if_neg hc]
    have hj : j < orig.length := by omega
    rw [List.getElem?_reverse hj]
    have : orig.length - 1 - j = j := by omega
    rw [this]

def fpCond : Expr := (.bin "<" (.var "v1") (.bin "/" (.arg (.call (.var "len")) (.var "r.path")) (.int 2)))
def fpBody : Stmt :=
      (.seq (.atom ⟨1, .assign, (.pair (.index (.var "r.path") (.var "v1")) (.index (.var "r.path") (.bin "-" (.bin "-" (.arg (.call (.var "len")) (.var "r.path")) (.int 1)) (.var "v1")))), (.pair (.index (.var "r.path") (.bin "-" (.bin "-" (.arg (.call (.var "len")) (.var "r.path")) (.int 1)) (.var "v1"))) (.index (.var "r.path") (.var "v1")))⟩)
      .skip)
def fpPost : Stmt := (.seq (.atom ⟨2, .addAssign, (.var "v1"), (.int 1)⟩) .skip)

def fpT : Stmt :=
  (.seq (.atom ⟨0, .assign, (.var "r.path"), (.lit "[]Widget{}")⟩)
  (.seq (.atom ⟨0, .define, (.var "v0"), (.arg (.call (.var "r.childHasFocus")) (.var "r.lastFrame"))⟩)
  (.seq (.ite (.bin "||" (.bin "!=" (.var "r.root") (.var "r.lastFrame.Widget")) (.bin "==" (.arg (.call (.var "len")) (.var "r.path")) (.int 0)))
      (.seq (.atom ⟨1, .assign, (.var "r.path"), (.arg (.arg (.call (.var "append")) (.var "r.path")) (.var "r.root"))⟩)
      .skip)
      .skip)
  (.seq (.seq (.atom ⟨1, .define, (.var "v1"), (.int 0)⟩)
    .skip)
  (.seq (.loop fpCond fpBody fpPost)
  (.seq (.atom ⟨0, .returnS, (.var "v0"), .none⟩)
  .skip))))))

theorem parse_fp : parseBody VxfwBodyExpected.findPath = fpT := by decide +kernel

theorem fp_swap_is : isSwap "v1" (.pair (.index (.var "r.path") (.var "v1")) (.index (.var "r.path") (.bin "-" (.bin "-" (.arg (.call (.var "len")) (.var "r.path")) (.int 1)) (.var "v1"))))
    (.pair (.index (.var "r.path") (.bin "-" (.bin "-" (.arg (.call (.var "len")) (.var "r.path")) (.int 1)) (.var "v1"))) (.index (.var "r.path") (.var "v1"))) = true := by decide

/-- The reversal loop, from iteration `i` on. -/
theorem fp_loop (env : TEnv) (orig : List Id) : ∀ (k i : Nat) (m : TM),
    VxfwInterpTree.find m.ints "v1" = some (i : Int) → RevInv orig i m.path → i ≤ orig.length / 2 → orig.length / 2 - i + 1 ≤ k →
    ∃ m', tloop (fun m => tevBool env m fpCond) (texec env fpBody) (texec env fpPost) k m = some (m', .norm) ∧
      m'.path = orig.reverse ∧ m'.flags = m.flags ∧ m'.hitl = m.hitl := by
  intro k
  induction k with
  | zero => intro i m _ _ _ hk; omega
  | succ k ih =>
    intro i m hv hinv hle hk
    have hlen : m.path.length = orig.length := hinv.1
    rw [tloop]
    have hc : tevBool env m fpCond = some (decide (i < orig.length / 2)) := by
      simp [fpCond, tevBool, hv, hlen]
      omega
    simp only [hc]
    by_cases hlt : i < orig.length / 2
    · simp only [hlt, decide_true]
      obtain ⟨p, hp, hinv'⟩ := revInv_step orig m.path i hlt hinv
      have hb : texec env fpBody m = some ({ m with path := p }, .norm) := by
        have hneg : ¬ ((i : Int) < 0) := by omega
        simp [fpBody, texec, tatom, fp_swap_is, hv, hneg, hp]
      have hpo : texec env fpPost { m with path := p } =
          some ({ m with path := p, ints := ("v1", ((i + 1 : Nat) : Int)) :: m.ints }, .norm) := by
        simp [fpPost, texec, tatom, hv]
      rw [hb]
      simp only [hpo]
      obtain ⟨m', hm, hp', hf', hh'⟩ := ih (i + 1) { m with path := p, ints := ("v1", ((i + 1 : Nat) : Int)) :: m.ints }
        (by simp [VxfwInterpTree.find]) hinv' (by omega) (by omega)
      exact ⟨m', hm, hp', hf', hh'⟩
    · have hi : i = orig.length / 2 := by omega
      simp only [hlt, decide_false]
      subst hi
      exact ⟨m, rfl, revInv_final orig m.path hinv, rfl, rfl⟩


def fpTail : Stmt :=
  (.seq (.loop fpCond fpBody fpPost)
  (.seq (.atom ⟨0, .returnS, (.var "v0"), .none⟩)
  .skip))

def fpPreK (K : Stmt) : Stmt :=
  (.seq (.atom ⟨0, .assign, (.var "r.path"), (.lit "[]Widget{}")⟩)
  (.seq (.atom ⟨0, .define, (.var "v0"), (.arg (.call (.var "r.childHasFocus")) (.var "r.lastFrame"))⟩)
  (.seq (.ite (.bin "||" (.bin "!=" (.var "r.root") (.var "r.lastFrame.Widget")) (.bin "==" (.arg (.call (.var "len")) (.var "r.path")) (.int 0)))
      (.seq (.atom ⟨1, .assign, (.var "r.path"), (.arg (.arg (.call (.var "append")) (.var "r.path")) (.var "r.root"))⟩)
      .skip)
      .skip)
  (.seq (.seq (.atom ⟨1, .define, (.var "v1"), (.int 0)⟩)
    .skip)
  K))))

theorem fpT_eq : fpT = fpPreK fpTail := rfl

theorem texec_seq (env : TEnv) (a b : Stmt) (m : TM) : texec env (.seq a b) m = (match texec env a m with
    | some (m', .norm) => texec env b m'
    | r => r) := by
  simp only [texec]
  rfl

/-- The path before the reversal loop. -/
def prePath (s : St) : List Id :=
  if !frameRootIsRoot s || ((frameHasFocus s).getD []).isEmpty then (frameHasFocus s).getD [] ++ [s.root] else (frameHasFocus s).getD []

theorem fp_pre (env : TEnv) (s : St) (K : Stmt)
    (hsel : ∀ t, s.fhFrame = some t → env.selfC s.focused [] t = some (chfSpec s.focused [] t)) :
    ∃ m1, texec env (fpPreK K) { focused := s.focused, root := s.root, frame := s.fhFrame } = texec env K m1 ∧
      m1.path = prePath s ∧ VxfwInterpTree.find m1.ints "v1" = some ((0 : Nat) : Int) ∧
      VxfwInterpTree.find m1.flags "v0" = some (frameHasFocus s).isSome ∧ m1.hitl = [] := by
  cases hfr : s.fhFrame with
  | none =>
    refine ⟨{ focused := s.focused, root := s.root, frame := none, path := [] ++ [s.root], flags := [("v0", false)], ints := [("v1", 0)] }, ?_, ?_, ?_, ?_, rfl⟩
    · ts [fpPreK]
    · simp [prePath, frameHasFocus, frameRootIsRoot, hfr]
    · simp [VxfwInterpTree.find]
    · simp [VxfwInterpTree.find, frameHasFocus, hfr]
  | some t =>
    have hs := hsel t hfr
    simp only [chfSpec, List.nil_append] at hs
    refine ⟨{ focused := s.focused, root := s.root, frame := some t, path := prePath s, flags := [("v0", (childHasFocus s.focused t).isSome)], ints := [("v1", 0)] }, ?_, rfl, ?_, ?_, rfl⟩
    · have hiso : ((childHasFocus s.focused t).getD []).isEmpty = decide ((childHasFocus s.focused t).getD [] = []) := by
        cases (childHasFocus s.focused t).getD [] <;> simp
      have hpp : prePath s = if (!decide (s.root = t.id) || decide ((childHasFocus s.focused t).getD [] = [])) = true
          then (childHasFocus s.focused t).getD [] ++ [s.root] else (childHasFocus s.focused t).getD [] := by
        simp only [prePath, frameHasFocus, frameRootIsRoot, hfr, hiso]
      cases hc : (!decide (s.root = t.id) || decide ((childHasFocus s.focused t).getD [] = []))
      · rw [hc] at hpp
        ts [fpPreK, hs, hc, hpp]
      · rw [hc] at hpp
        ts [fpPreK, hs, hc, hpp]
    · simp [VxfwInterpTree.find]
    · simp [VxfwInterpTree.find, frameHasFocus, hfr]

theorem fp_exec (s : St) :
    runFindPath fpT chT s.focused s.root s.fhFrame = some ((findPath s).1.path, (findPath s).2) := by
  unfold runFindPath
  simp only []
  generalize henv : (⟨fun _ _ _ => none, fun _ _ _ _ => none,
    runChildHasFocusD chT ((match s.fhFrame with | none => 0 | some t => treeDepth t) + 1)⟩ : TEnv) = env
  have hsel : ∀ t, s.fhFrame = some t → env.selfC s.focused [] t = some (chfSpec s.focused [] t) := by
    intro t ht
    rw [← henv, ht]
    exact ch_exec _ s.focused [] t (Nat.lt_succ_self _)
  obtain ⟨m1, hm1, hp1, hi1, hf1, hh1⟩ := fp_pre env s fpTail hsel
  obtain ⟨m2, hm2, hp2, hf2, hh2⟩ := fp_loop env (prePath s) (m1.path.length + 1) 0 m1 hi1 (by rw [hp1]; exact revInv_init _) (Nat.zero_le _)
    (by rw [hp1]; omega)
  have hfound : (findPath s).1.path = (prePath s).reverse := rfl
  have hok : (findPath s).2 = (frameHasFocus s).isSome := rfl
  rw [hfound, hok, fpT_eq, hm1]
  unfold fpTail
  have hloop : texec env (.loop fpCond fpBody fpPost) m1 =
      tloop (fun m => tevBool env m fpCond) (texec env fpBody) (texec env fpPost) (m1.path.length + 1) m1 := by
    simp only [texec]
  rw [texec_seq, hloop, hm2]
  have hret : texec env (.seq (.atom ⟨0, .returnS, (.var "v0"), .none⟩) .skip) m2 = some (m2, .retB (frameHasFocus s).isSome) := by
    have hn : VxfwInterpTree.find m2.hitl "v0" = none := by rw [hh2, hh1]; rfl
    have hfl : VxfwInterpTree.find m2.flags "v0" = some (frameHasFocus s).isSome := by rw [hf2]; exact hf1
    simp [texec, tatom, hn, hfl]
  simp only [hret, hp2]

end VaxisModel.Lemmas.VxfwBodyTree
