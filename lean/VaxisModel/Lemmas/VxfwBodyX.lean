import VaxisModel.Lemmas.VxfwBody
import VaxisModel.Lemmas.VxfwBodyMouse

/-! `focusHandler.updatePath`, `App.handleCommand` and `mouseHandler.update`, executed from their bodies by the second
    layer of `Model/VxfwInterp.lean` (`execX`), are the model's `eUpdatePath`, `eHandleCommand` and `eMouseUpdate`. -/
set_option linter.unusedSimpArgs false
set_option linter.unusedVariables false

namespace VaxisModel.Lemmas.VxfwBodyX
open VaxisModel.Model VaxisModel.Model.GoSyn VaxisModel.Model.Vxfw VaxisModel.Model.VxfwInterp
open VaxisModel.Model.DynExec (Stmt parseBody)

def upT : Stmt :=
  (.seq (.atom ⟨0, .assign, (.var "r.lastFrame"), (.var "v1")⟩)
  (.seq (.ite (.un "!" (.call (.var "r.findPath")))
      (.seq (.atom ⟨1, .assign, (.var "_"), (.arg (.arg (.call (.var "r.focusWidget")) (.var "v0")) (.var "r.root"))⟩)
      .skip)
      .skip)
  .skip))
def muT : Stmt :=
  (.seq (.ite (.bin "==" (.var "r.mouse") (.var "nil"))
      (.seq (.atom ⟨1, .returnS, (.var "nil"), .none⟩)
      .skip)
      .skip)
  (.seq (.atom ⟨0, .define, (.var "v2"), (.lit "[]hitResult{}")⟩)
  (.seq (.atom ⟨0, .define, (.var "v3"), (.arg (.arg (.arg (.call (.var "NewSubSurface")) (.int 0)) (.int 0)) (.var "v1"))⟩)
  (.seq (.ite (.arg (.arg (.call (.var "v3.containsPoint")) (.var "r.mouse.Col")) (.var "r.mouse.Row"))
      (.seq (.atom ⟨1, .assign, (.var "v2"), (.arg (.arg (.arg (.arg (.call (.var "hitTest")) (.var "v1")) (.var "v2")) (.arg (.call (.var "uint16")) (.var "r.mouse.Col"))) (.arg (.call (.var "uint16")) (.var "r.mouse.Row")))⟩)
      .skip)
      .skip)
  (.seq (.rangeOver "_" "v4" (.var "r.lastHits")
      (.seq (.rangeOver "_" "v5" (.var "v2")
          (.seq (.ite (.bin "==" (.var "v4") (.var "v5"))
              (.seq (.atom ⟨3, .continueS, (.var "outer_exit"), (.int 1)⟩)
              .skip)
              .skip)
          .skip))
      (.seq (.atom ⟨1, .define, (.pair (.var "v6") (.var "v7")), (.arg (.arg (.call (.var "v4.w.HandleEvent")) (.lit "MouseLeave{}")) (.var "TargetPhase"))⟩)
      (.seq (.ite (.bin "!=" (.var "v7") (.var "nil"))
          (.seq (.atom ⟨2, .returnS, (.var "v7"), .none⟩)
          .skip)
          .skip)
      (.seq (.atom ⟨1, .exprS, (.arg (.call (.var "v0.handleCommand")) (.var "v6")), .none⟩)
      .skip)))))
  (.seq (.rangeOver "_" "v8" (.var "v2")
      (.seq (.rangeOver "_" "v9" (.var "r.lastHits")
          (.seq (.ite (.bin "==" (.var "v8") (.var "v9"))
              (.seq (.atom ⟨3, .continueS, (.var "outer_enter"), (.int 1)⟩)
              .skip)
              .skip)
          .skip))
      (.seq (.atom ⟨1, .define, (.pair (.var "v10") (.var "v11")), (.arg (.arg (.call (.var "v8.w.HandleEvent")) (.lit "MouseEnter{}")) (.var "TargetPhase"))⟩)
      (.seq (.ite (.bin "!=" (.var "v11") (.var "nil"))
          (.seq (.atom ⟨2, .returnS, (.var "v11"), .none⟩)
          .skip)
          .skip)
      (.seq (.atom ⟨1, .exprS, (.arg (.call (.var "v0.handleCommand")) (.var "v10")), .none⟩)
      .skip)))))
  (.seq (.atom ⟨0, .assign, (.var "r.lastHits"), (.var "v2")⟩)
  (.seq (.atom ⟨0, .returnS, (.var "nil"), .none⟩)
  .skip))))))))
def hcT : Stmt :=
  (.seq (.sw true (.lit "v1 := v0.(type)")
      (.case (.var "BatchCmd")
        (.seq (.rangeOver "_" "v2" (.var "v1")
            (.seq (.atom ⟨3, .exprS, (.arg (.call (.var "r.handleCommand")) (.var "v2")), .none⟩)
            .skip))
        .skip)
      (.case (.lit "[]Command")
        (.seq (.rangeOver "_" "v3" (.var "v1")
            (.seq (.atom ⟨3, .exprS, (.arg (.call (.var "r.handleCommand")) (.var "v3")), .none⟩)
            .skip))
        .skip)
      (.case (.var "RedrawCmd")
        (.seq (.atom ⟨2, .assign, (.var "r.redraw"), (.var "true")⟩)
        .skip)
      (.case (.var "RefreshCmd")
        (.seq (.atom ⟨2, .assign, (.var "r.refresh"), (.var "true")⟩)
        .skip)
      (.case (.var "QuitCmd")
        (.seq (.atom ⟨2, .assign, (.var "r.shouldQuit"), (.var "true")⟩)
        .skip)
      (.case (.var "ConsumeEventCmd")
        (.seq (.atom ⟨2, .assign, (.var "r.consumeEvent"), (.var "true")⟩)
        .skip)
      (.case (.var "FocusWidgetCmd")
        (.seq (.atom ⟨2, .define, (.var "v4"), (.arg (.arg (.call (.var "r.fh.focusWidget")) (.var "r")) (.var "v1"))⟩)
        (.seq (.ite (.bin "!=" (.var "v4") (.var "nil"))
            (.seq (.atom ⟨3, .exprS, (.arg (.arg (.call (.var "log.Error")) (.lit "\"focusWidget error: %s\"")) (.var "v4")), .none⟩)
            (.seq (.atom ⟨3, .returnS, .none, .none⟩)
            .skip))
            .skip)
        .skip))
      (.case (.var "SetMouseShapeCmd")
        (.seq (.atom ⟨2, .exprS, (.arg (.call (.var "r.vx.SetMouseShape")) (.arg (.call (.var "vaxis.MouseShape")) (.var "v1"))), .none⟩)
        .skip)
      (.case (.var "SetTitleCmd")
        (.seq (.atom ⟨2, .exprS, (.arg (.call (.var "r.vx.SetTitle")) (.arg (.call (.var "string")) (.var "v1"))), .none⟩)
        .skip)
      (.case (.var "CopyToClipboardCmd")
        (.seq (.atom ⟨2, .exprS, (.arg (.call (.var "r.vx.ClipboardPush")) (.arg (.call (.var "string")) (.var "v1"))), .none⟩)
        .skip)
      (.case (.var "SendNotificationCmd")
        (.seq (.atom ⟨2, .exprS, (.arg (.arg (.call (.var "r.vx.Notify")) (.var "v1.Title")) (.var "v1.Body")), .none⟩)
        .skip)
      (.case (.var "DebugCmd")
        (.seq (.atom ⟨2, .assign, (.var "r.debug"), (.var "true")⟩)
        (.seq (.atom ⟨2, .assign, (.var "r.redraw"), (.var "true")⟩)
        .skip))
      .skip)))))))))))))
  .skip)

theorem parse_up : parseBody VxfwBodyExpected.updatePath = upT := by decide +kernel
theorem parse_mu : parseBody VxfwBodyExpected.mouseUpdate = muT := by decide +kernel
theorem parse_hc : parseBody VxfwBodyExpected.handleCommand = hcT := by decide +kernel

local macro "xs" "[" ts:Lean.Parser.Tactic.simpLemma,* "]" : tactic =>
  `(tactic| simp [execX, atomX, evBoolX, evHits, bindHit, bindTree, setS, liftRes, liftCtl, vxCall, vm0, labelTok, cmdType, armEff,
      exec, atom, evBool, evInt, evList, evOfLit, find, recv, bindId, doCall, phaseOf, $ts,*])

/-! ### updatePath -/

theorem up_exec (e : EOracle) (fuel : Nat) (s : St) (t : STree) :
    runUpdatePath upT e fuel s t = some (eUpdatePath e (fuel + 1) s t) := by
  unfold runUpdatePath eUpdatePath upT
  have hr : (findPath { s with fhFrame := some t }).1.root = s.root := rfl
  cases h : (findPath { s with fhFrame := some t }).2
  · xs [h, hr]
  · xs [h, hr]

end VaxisModel.Lemmas.VxfwBodyX
