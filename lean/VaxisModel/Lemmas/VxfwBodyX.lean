import VaxisModel.Lemmas.VxfwBody
import VaxisModel.Lemmas.VxfwBodyMouse

/-! `focusHandler.updatePath`, `App.handleCommand` and `mouseHandler.update`, executed from their bodies by the second
    layer of `Model/VxfwInterp.lean` (`execX`), are the model's `eUpdatePath`, `eHandleCommand` and `eMouseUpdate`. -/
set_option linter.unusedSimpArgs false
set_option linter.unusedVariables false

namespace VaxisModel.Lemmas.VxfwBodyX
open VaxisModel.Model VaxisModel.Model.GoSyn VaxisModel.Model.Vxfw VaxisModel.Model.VxfwInterp
open VaxisModel.Model.DynExec (Stmt parseBody)

def upT : Stmt :=
  (.seq (.atom ⟨0, .assign, (.var "r.lastFrame"), (.var "v1")⟩)
  (.seq (.ite (.un "!" (.call (.var "r.findPath")))
      (.seq (.atom ⟨1, .assign, (.var "_"), (.arg (.arg (.call (.var "r.focusWidget")) (.var "v0")) (.var "r.root"))⟩)
      .skip)
      .skip)
  .skip))
def mu0 : Stmt :=
  (.ite (.bin "==" (.var "r.mouse") (.var "nil"))
      (.seq (.atom ⟨1, .returnS, (.var "nil"), .none⟩)
      .skip)
      .skip)
def mu1 : Stmt := (.atom ⟨0, .define, (.var "v2"), (.lit "[]hitResult{}")⟩)
def mu2 : Stmt := (.atom ⟨0, .define, (.var "v3"), (.arg (.arg (.arg (.call (.var "NewSubSurface")) (.int 0)) (.int 0)) (.var "v1"))⟩)
def mu3 : Stmt :=
  (.ite (.arg (.arg (.call (.var "v3.containsPoint")) (.var "r.mouse.Col")) (.var "r.mouse.Row"))
      (.seq (.atom ⟨1, .assign, (.var "v2"), (.arg (.arg (.arg (.arg (.call (.var "hitTest")) (.var "v1")) (.var "v2")) (.arg (.call (.var "uint16")) (.var "r.mouse.Col"))) (.arg (.call (.var "uint16")) (.var "r.mouse.Row")))⟩)
      .skip)
      .skip)
/-- `for _, h2 := range hits { if h1 == h2 { continue outer_exit } }` -/
def inB1 : Stmt :=
          (.seq (.ite (.bin "==" (.var "v4") (.var "v5"))
              (.seq (.atom ⟨3, .continueS, (.var "L"), (.int 1)⟩)
              .skip)
              .skip)
          .skip)
def callB1 : Stmt :=
      (.seq (.atom ⟨1, .define, (.pair (.var "v6") (.var "v7")), (.arg (.arg (.call (.var "v4.w.HandleEvent")) (.lit "MouseLeave{}")) (.var "TargetPhase"))⟩)
      (.seq (.ite (.bin "!=" (.var "v7") (.var "nil"))
          (.seq (.atom ⟨2, .returnS, (.var "v7"), .none⟩)
          .skip)
          .skip)
      (.seq (.atom ⟨1, .exprS, (.arg (.call (.var "v0.handleCommand")) (.var "v6")), .none⟩)
      .skip)))
def outB1 : Stmt := (.seq (.rangeOver "_" "v5" (.var "v2") inB1) callB1)
def inB2 : Stmt :=
          (.seq (.ite (.bin "==" (.var "v8") (.var "v9"))
              (.seq (.atom ⟨3, .continueS, (.var "L"), (.int 1)⟩)
              .skip)
              .skip)
          .skip)
def callB2 : Stmt :=
      (.seq (.atom ⟨1, .define, (.pair (.var "v10") (.var "v11")), (.arg (.arg (.call (.var "v8.w.HandleEvent")) (.lit "MouseEnter{}")) (.var "TargetPhase"))⟩)
      (.seq (.ite (.bin "!=" (.var "v11") (.var "nil"))
          (.seq (.atom ⟨2, .returnS, (.var "v11"), .none⟩)
          .skip)
          .skip)
      (.seq (.atom ⟨1, .exprS, (.arg (.call (.var "v0.handleCommand")) (.var "v10")), .none⟩)
      .skip)))
def outB2 : Stmt := (.seq (.rangeOver "_" "v9" (.var "r.lastHits") inB2) callB2)
def muEnd : Stmt :=
  (.seq (.atom ⟨0, .assign, (.var "r.lastHits"), (.var "v2")⟩)
  (.seq (.atom ⟨0, .returnS, (.var "nil"), .none⟩)
  .skip))
def muLoops : Stmt :=
  (.seq (.rangeOver "_" "v4" (.var "r.lastHits") outB1)
  (.seq (.rangeOver "_" "v8" (.var "v2") outB2)
  muEnd))
def muT : Stmt := (.seq mu0 (.seq mu1 (.seq mu2 (.seq mu3 muLoops))))
/-- `{ a.handleCommand(c) }` -/
def hcLoopBody (v : String) : Stmt :=
  .seq (.atom ⟨3, .exprS, (.arg (.call (.var "r.handleCommand")) (.var v)), .none⟩) .skip

def hcT : Stmt :=
  (.seq (.sw true (.lit "v1 := v0.(type)")
      (.case (.var "BatchCmd")
        (.seq (.rangeOver "_" "v2" (.var "v1")
            (hcLoopBody "v2"))
        .skip)
      (.case (.lit "[]Command")
        (.seq (.rangeOver "_" "v3" (.var "v1")
            (hcLoopBody "v3"))
        .skip)
      (.case (.var "RedrawCmd")
        (.seq (.atom ⟨2, .assign, (.var "r.redraw"), (.var "true")⟩)
        .skip)
      (.case (.var "RefreshCmd")
        (.seq (.atom ⟨2, .assign, (.var "r.refresh"), (.var "true")⟩)
        .skip)
      (.case (.var "QuitCmd")
        (.seq (.atom ⟨2, .assign, (.var "r.shouldQuit"), (.var "true")⟩)
        .skip)
      (.case (.var "ConsumeEventCmd")
        (.seq (.atom ⟨2, .assign, (.var "r.consumeEvent"), (.var "true")⟩)
        .skip)
      (.case (.var "FocusWidgetCmd")
        (.seq (.atom ⟨2, .define, (.var "v4"), (.arg (.arg (.call (.var "r.fh.focusWidget")) (.var "r")) (.var "v1"))⟩)
        (.seq (.ite (.bin "!=" (.var "v4") (.var "nil"))
            (.seq (.atom ⟨3, .exprS, (.arg (.arg (.call (.var "log.Error")) (.lit "\"focusWidget error: %s\"")) (.var "v4")), .none⟩)
            (.seq (.atom ⟨3, .returnS, .none, .none⟩)
            .skip))
            .skip)
        .skip))
      (.case (.var "SetMouseShapeCmd")
        (.seq (.atom ⟨2, .exprS, (.arg (.call (.var "r.vx.SetMouseShape")) (.arg (.call (.var "vaxis.MouseShape")) (.var "v1"))), .none⟩)
        .skip)
      (.case (.var "SetTitleCmd")
        (.seq (.atom ⟨2, .exprS, (.arg (.call (.var "r.vx.SetTitle")) (.arg (.call (.var "string")) (.var "v1"))), .none⟩)
        .skip)
      (.case (.var "CopyToClipboardCmd")
        (.seq (.atom ⟨2, .exprS, (.arg (.call (.var "r.vx.ClipboardPush")) (.arg (.call (.var "string")) (.var "v1"))), .none⟩)
        .skip)
      (.case (.var "SendNotificationCmd")
        (.seq (.atom ⟨2, .exprS, (.arg (.arg (.call (.var "r.vx.Notify")) (.var "v1.Title")) (.var "v1.Body")), .none⟩)
        .skip)
      (.case (.var "DebugCmd")
        (.seq (.atom ⟨2, .assign, (.var "r.debug"), (.var "true")⟩)
        (.seq (.atom ⟨2, .assign, (.var "r.redraw"), (.var "true")⟩)
        .skip))
      .skip)))))))))))))
  .skip)

theorem parse_up : parseBody VxfwBodyExpected.updatePath = upT := by decide +kernel
theorem parse_mu : parseBody VxfwBodyExpected.mouseUpdate = muT := by decide +kernel
theorem parse_hc : parseBody VxfwBodyExpected.handleCommand = hcT := by decide +kernel

local macro "xs" "[" ts:Lean.Parser.Tactic.simpLemma,* "]" : tactic =>
  `(tactic| simp [execX, atomX, evBoolX, evHits, bindHit, bindTree, setS, liftRes, liftCtl, vxCall, callFw, vm0, labelTok, cmdType, armEff,
      exec, atom, evBool, evInt, evList, evOfLit, find, recv, bindId, doCall, phaseOf, $ts,*])

/-! ### updatePath -/

theorem up_exec (e : EOracle) (fuel : Nat) (s : St) (t : STree) :
    runUpdatePath upT e fuel s t = some (eUpdatePath e (fuel + 1) s t) := by
  unfold runUpdatePath eUpdatePath upT
  have hr : (findPath { s with fhFrame := some t }).1.root = s.root := rfl
  cases h : (findPath { s with fhFrame := some t }).2
  · xs [h, hr]
  · xs [h, hr]

/-! ### handleCommand -/

theorem foldl_flattenL {α : Type} (f : α → Atom → α) : ∀ (l : List Cmd) (s : α),
    (Cmd.flattenL l).foldl f s = l.foldl (fun s c => c.flatten.foldl f s) s
  | [], _ => rfl
  | c :: r, s => by
    rw [Cmd.flattenL, List.foldl_append, List.foldl_cons, foldl_flattenL f r]

theorem eHC_batch (e : EOracle) (fuel : Nat) (s : St) (l : List Cmd) :
    eHandleCommand e (fuel + 1) s (.batch l) = l.foldl (fun s c => eHandleCommand e (fuel + 1) s c) s := by
  simp only [eHandleCommand, Cmd.flatten, foldl_flattenL]

theorem eHC_slice (e : EOracle) (fuel : Nat) (s : St) (l : List Cmd) :
    eHandleCommand e (fuel + 1) s (.slice l) = l.foldl (fun s c => eHandleCommand e (fuel + 1) s c) s := by
  simp only [eHandleCommand, Cmd.flatten, foldl_flattenL]

theorem depth_mem : ∀ (l : List Cmd) (c : Cmd), c ∈ l → cmdDepth c ≤ cmdDepthL l
  | [], _, h => by cases h
  | a :: r, c, h => by
    rw [cmdDepthL]
    cases h with
    | head => exact Nat.le_max_left _ _
    | tail _ h' => exact Nat.le_trans (depth_mem r c h') (Nat.le_max_right _ _)

/-- The loop `for _, c := range cmd { a.handleCommand(c) }` when the recursive call is `run`. -/
theorem hc_range (e : EOracle) (fuel : Nat) (v : String) (run : St → Cmd → Option St) (g : St → Cmd → St) :
    ∀ (l : List Cmd) (m : VMX), m.x.self = run → (∀ c ∈ l, ∀ s, run s c = some (g s c)) →
      ∃ m', rangeCmds v (execX e fuel .init (hcLoopBody v)) l m = some (m', .norm) ∧
        m'.vm.s = l.foldl g m.vm.s := by
  intro l
  induction l with
  | nil => intro m _ _; exact ⟨m, rfl, rfl⟩
  | cons c l ih =>
    intro m hs hrun
    have h1 := hrun c (List.mem_cons_self) m.vm.s
    obtain ⟨m', hm, hs'⟩ := ih (setS { m with vm := { m.vm with cmds := (v, c) :: m.vm.cmds } } (g m.vm.s c)) hs
      (fun c' hc' => hrun c' (List.mem_cons_of_mem _ hc'))
    refine ⟨m', ?_, ?_⟩
    · rw [rangeCmds]
      have hb : execX e fuel .init (hcLoopBody v)
          { m with vm := { m.vm with cmds := (v, c) :: m.vm.cmds } } =
          some (setS { m with vm := { m.vm with cmds := (v, c) :: m.vm.cmds } } (g m.vm.s c), .norm) := by
        simp [hcLoopBody, execX, atomX, find, hs, h1, setS]
      rw [hb]
      exact hm
    · rw [hs']; rfl

theorem hc_exec (e : EOracle) (fuel : Nat) : ∀ (d : Nat) (s : St) (c : Cmd), cmdDepth c < d →
    runHandleCommandD hcT e fuel d s c = some (eHandleCommand e (fuel + 1) s c) := by
  intro d
  induction d with
  | zero => intro s c h; omega
  | succ d ih =>
    intro s c hd
    cases c with
    | nil => unfold runHandleCommandD hcT; xs [eHandleCommand, Cmd.flatten]
    | redraw => unfold runHandleCommandD hcT; xs [eHandleCommand, Cmd.flatten, eExecAtom, execAtom]
    | refresh => unfold runHandleCommandD hcT; xs [eHandleCommand, Cmd.flatten, eExecAtom, execAtom]
    | quit => unfold runHandleCommandD hcT; xs [eHandleCommand, Cmd.flatten, eExecAtom, execAtom]
    | consume => unfold runHandleCommandD hcT; xs [eHandleCommand, Cmd.flatten, eExecAtom, execAtom]
    | debug => unfold runHandleCommandD hcT; xs [eHandleCommand, Cmd.flatten, eExecAtom, execAtom]
    | focus w =>
      unfold runHandleCommandD hcT
      have hm : eHandleCommand e (fuel + 1) s (.focus w) = (eFocusWidget e (fuel + 1) s w).1 := by
        simp [eHandleCommand, Cmd.flatten, eExecAtom, eFocusWidget]
      have heta : ({ s with trace := s.trace } : St) = s := rfl
      rw [hm]
      cases hf : (eFocusWidget e (fuel + 1) s w).2
      · xs [heta, hf]
      · xs [heta, hf]
    | other k =>
      unfold runHandleCommandD hcT
      have h4 : k % 4 = 0 ∨ k % 4 = 1 ∨ k % 4 = 2 ∨ k % 4 = 3 := by omega
      rcases h4 with h | h | h | h
      · xs [eHandleCommand, Cmd.flatten, eExecAtom, execAtom, h]
      · xs [eHandleCommand, Cmd.flatten, eExecAtom, execAtom, h]
      · xs [eHandleCommand, Cmd.flatten, eExecAtom, execAtom, h]
      · xs [eHandleCommand, Cmd.flatten, eExecAtom, execAtom, h]
    | batch l =>
      have hl : ∀ c ∈ l, ∀ s, runHandleCommandD hcT e fuel d s c = some (eHandleCommand e (fuel + 1) s c) := by
        intro c hc s
        have := depth_mem l c hc
        rw [cmdDepth] at hd
        exact ih s c (by omega)
      rw [eHC_batch, runHandleCommandD]
      generalize runHandleCommandD hcT e fuel d = run at hl ⊢
      obtain ⟨m', hm, hs'⟩ := hc_range e fuel "v2" run (fun s c => eHandleCommand e (fuel + 1) s c) l
        ⟨⟨s, [], [], [("v1", .batch l), ("v0", .batch l)], [], []⟩, { self := run }⟩ rfl hl
      have heta : ({ s with trace := s.trace } : St) = s := rfl
      unfold hcT
      xs [heta, hm, hs']
    | slice l =>
      have hl : ∀ c ∈ l, ∀ s, runHandleCommandD hcT e fuel d s c = some (eHandleCommand e (fuel + 1) s c) := by
        intro c hc s
        have := depth_mem l c hc
        rw [cmdDepth] at hd
        exact ih s c (by omega)
      rw [eHC_slice, runHandleCommandD]
      generalize runHandleCommandD hcT e fuel d = run at hl ⊢
      obtain ⟨m', hm, hs'⟩ := hc_range e fuel "v3" run (fun s c => eHandleCommand e (fuel + 1) s c) l
        ⟨⟨s, [], [], [("v1", .slice l), ("v0", .slice l)], [], []⟩, { self := run }⟩ rfl hl
      have heta : ({ s with trace := s.trace } : St) = s := rfl
      unfold hcT
      xs [heta, hm, hs']

theorem hc_run (e : EOracle) (fuel : Nat) (s : St) (c : Cmd) :
    runHandleCommand hcT e fuel s c = some (eHandleCommand e (fuel + 1) s c) :=
  hc_exec e fuel _ s c (Nat.lt_succ_self _)

/-! ### mouseHandler.update -/

theorem eNotify_hits (e : EOracle) (fuel : Nat) (s : St) (w : Id) (ev : Ev) :
    (eNotify e fuel s w ev).1.lastHits = s.lastHits := by
  unfold eNotify
  simp only []
  split
  · rfl
  · rw [VxfwBody.eHandleCommand_hits]; rfl

theorem execX_range_hits (e : EOracle) (fuel : Nat) (ev : Ev) (k v l : String) (b : Stmt) (m : VMX) (hs : List Hit)
    (h : evHits m l = some hs) :
    execX e fuel ev (.rangeOver k v (.var l) b) m = rangeHits v (execX e fuel ev b) hs m := by
  simp [execX, h]

theorem execX_seq (e : EOracle) (fuel : Nat) (ev : Ev) (a b : Stmt) (m : VMX) :
    execX e fuel ev (.seq a b) m = (match execX e fuel ev a m with
      | some (m', .norm) => execX e fuel ev b m'
      | r => r) := by
  simp only [execX]
  rfl

def viewX (r : ResX) : Option (St × VX × CtlX) := r.map (fun r => (r.1.vm.s, r.1.x, r.2))

theorem viewX_some {r : ResX} {s : St} {x : VX} {c : CtlX} (h : viewX r = some (s, x, c)) :
    ∃ m', r = some (m', c) ∧ m'.vm.s = s ∧ m'.x = x := by
  cases r with
  | none => simp [viewX] at h
  | some y =>
    obtain ⟨m', c'⟩ := y
    simp only [viewX, Option.map_some, Option.some.injEq, Prod.mk.injEq] at h
    obtain ⟨h1, h2, h3⟩ := h
    subst h3
    exact ⟨m', rfl, h1, h2⟩

/-- The inner loop of the exit loop: `continue outer_exit` iff `h1` is among the new hits. -/
theorem in1_loop (e : EOracle) (fuel : Nat) (h1 : Hit) : ∀ (hs : List Hit) (m : VMX),
    find m.x.hit "v4" = some h1 →
    ∃ m', rangeHits "v5" (execX e fuel .init inB1) hs m = some (m', if hs.contains h1 then .contOut 0 else .norm) ∧
      m'.vm.s = m.vm.s ∧ m'.x.hitl = m.x.hitl ∧ find m'.x.hit "v4" = some h1 ∧
      find m'.vm.ids "v4.w.HandleEvent" = find m.vm.ids "v4.w.HandleEvent" := by
  intro hs
  induction hs with
  | nil => intro m h4; exact ⟨m, rfl, rfl, rfl, h4, rfl⟩
  | cons h hs ih =>
    intro m h4
    by_cases hx : h1 = h
    · refine ⟨bindHit m "v5" h, ?_, rfl, rfl, ?_, ?_⟩
      · rw [rangeHits]
        have hb : execX e fuel .init inB1 (bindHit m "v5" h) = some (bindHit m "v5" h, .contOut 1) := by
          xs [inB1, h4, hx]
        rw [hb]
        simp [hx]
      · simp [bindHit, find, h4]
      · simp [bindHit, find]
    · obtain ⟨m', hm, h1', h2', h3', h5'⟩ := ih (bindHit m "v5" h) (by simp [bindHit, find, h4])
      refine ⟨m', ?_, h1', h2', h3', ?_⟩
      · rw [rangeHits]
        have hb : execX e fuel .init inB1 (bindHit m "v5" h) = some (bindHit m "v5" h, .norm) := by
          xs [inB1, h4, hx]
        rw [hb]
        have hne : (h1 == h) = false := by simpa using hx
        simp only [hm, List.contains_cons, hne, Bool.false_or]
      · rw [h5']; simp [bindHit, find]

/-- The inner loop of the enter loop. -/
theorem in2_loop (e : EOracle) (fuel : Nat) (h1 : Hit) : ∀ (hs : List Hit) (m : VMX),
    find m.x.hit "v8" = some h1 →
    ∃ m', rangeHits "v9" (execX e fuel .init inB2) hs m = some (m', if hs.contains h1 then .contOut 0 else .norm) ∧
      m'.vm.s = m.vm.s ∧ m'.x.hitl = m.x.hitl ∧ find m'.x.hit "v8" = some h1 ∧
      find m'.vm.ids "v8.w.HandleEvent" = find m.vm.ids "v8.w.HandleEvent" := by
  intro hs
  induction hs with
  | nil => intro m h4; exact ⟨m, rfl, rfl, rfl, h4, rfl⟩
  | cons h hs ih =>
    intro m h4
    by_cases hx : h1 = h
    · refine ⟨bindHit m "v9" h, ?_, rfl, rfl, ?_, ?_⟩
      · rw [rangeHits]
        have hb : execX e fuel .init inB2 (bindHit m "v9" h) = some (bindHit m "v9" h, .contOut 1) := by
          xs [inB2, h4, hx]
        rw [hb]
        simp [hx]
      · simp [bindHit, find, h4]
      · simp [bindHit, find]
    · obtain ⟨m', hm, h1', h2', h3', h5'⟩ := ih (bindHit m "v9" h) (by simp [bindHit, find, h4])
      refine ⟨m', ?_, h1', h2', h3', ?_⟩
      · rw [rangeHits]
        have hb : execX e fuel .init inB2 (bindHit m "v9" h) = some (bindHit m "v9" h, .norm) := by
          xs [inB2, h4, hx]
        rw [hb]
        have hne : (h1 == h) = false := by simpa using hx
        simp only [hm, List.contains_cons, hne, Bool.false_or]
      · rw [h5']; simp [bindHit, find]

/-- `cmd, err := h1.w.HandleEvent(MouseLeave{}, TargetPhase); if err != nil { return err }; app.handleCommand(cmd)`. -/
theorem call1 (e : EOracle) (fuel : Nat) (m : VMX) (w : Id) (hw : find m.vm.ids "v4.w.HandleEvent" = some w) :
    ∃ m', execX e fuel .init callB1 m = some (m', if (eNotify e fuel m.vm.s w .mouseLeave).2 then .ret true else .norm) ∧
      m'.vm.s = (eNotify e fuel m.vm.s w .mouseLeave).1 ∧ m'.x = m.x := by
  apply viewX_some
  unfold eNotify
  cases hf : e.failsAt m.vm.s w .mouseLeave .target
  · xs [viewX, callB1, hw, hf]
  · xs [viewX, callB1, hw, hf]

theorem call2 (e : EOracle) (fuel : Nat) (m : VMX) (w : Id) (hw : find m.vm.ids "v8.w.HandleEvent" = some w) :
    ∃ m', execX e fuel .init callB2 m = some (m', if (eNotify e fuel m.vm.s w .mouseEnter).2 then .ret true else .norm) ∧
      m'.vm.s = (eNotify e fuel m.vm.s w .mouseEnter).1 ∧ m'.x = m.x := by
  apply viewX_some
  unfold eNotify
  cases hf : e.failsAt m.vm.s w .mouseEnter .target
  · xs [viewX, callB2, hw, hf]
  · xs [viewX, callB2, hw, hf]


theorem eNotifyLoop_hits (e : EOracle) (fuel : Nat) (ev : Ev) (skip : Hit → Bool) : ∀ (l : List Hit) (s : St),
    (eNotifyLoop e fuel ev skip l s).1.lastHits = s.lastHits
  | [], _ => rfl
  | h :: r, s => by
    unfold eNotifyLoop
    split
    · exact eNotifyLoop_hits e fuel ev skip r s
    · simp only []
      split
      · exact eNotify_hits e fuel s h.w ev
      · rw [eNotifyLoop_hits e fuel ev skip r, eNotify_hits]

/-- One iteration of the exit loop. -/
theorem out1_body (e : EOracle) (fuel : Nat) (hits : List Hit) (m : VMX) (h1 : Hit) (hh : find m.x.hitl "v2" = some hits) :
    ∃ m', execX e fuel .init outB1 (bindHit m "v4" h1) =
        some (m', if hits.contains h1 then .contOut 0 else if (eNotify e fuel m.vm.s h1.w .mouseLeave).2 then .ret true else .norm) ∧
      m'.vm.s = (if hits.contains h1 then m.vm.s else (eNotify e fuel m.vm.s h1.w .mouseLeave).1) ∧ m'.x.hitl = m.x.hitl := by
  obtain ⟨m1, hm, hs1, hl1, _, hi1⟩ := in1_loop e fuel h1 hits (bindHit m "v4" h1) (by simp [bindHit, find])
  have hev : evHits (bindHit m "v4" h1) "v2" = some hits := by simp [evHits, bindHit, hh]
  unfold outB1
  rw [execX_seq, execX_range_hits e fuel .init "_" "v5" "v2" inB1 _ hits hev, hm]
  cases hc : hits.contains h1
  · simp only [Bool.false_eq_true, ↓reduceIte]
    obtain ⟨m2, hm2, hs2, hx2⟩ := call1 e fuel m1 h1.w (by rw [hi1]; simp [bindHit, find])
    rw [hs1] at hm2 hs2
    exact ⟨m2, hm2, hs2, by rw [hx2, hl1]; rfl⟩
  · simp only [↓reduceIte]
    exact ⟨m1, rfl, hs1, hl1⟩

theorem out1_loop (e : EOracle) (fuel : Nat) (hits : List Hit) : ∀ (old : List Hit) (m : VMX), find m.x.hitl "v2" = some hits →
    ∃ m', rangeHits "v4" (execX e fuel .init outB1) old m =
        some (m', if (eNotifyLoop e fuel .mouseLeave (fun h => hits.contains h) old m.vm.s).2 then .ret true else .norm) ∧
      m'.vm.s = (eNotifyLoop e fuel .mouseLeave (fun h => hits.contains h) old m.vm.s).1 ∧ m'.x.hitl = m.x.hitl := by
  intro old
  induction old with
  | nil => intro m _; exact ⟨m, rfl, rfl, rfl⟩
  | cons h1 old ih =>
    intro m hh
    obtain ⟨m1, hm, hs1, hl1⟩ := out1_body e fuel hits m h1 hh
    rw [rangeHits, hm, eNotifyLoop]
    cases hc : hits.contains h1
    · simp only [hc, Bool.false_eq_true, ↓reduceIte] at hs1 ⊢
      cases hx : (eNotify e fuel m.vm.s h1.w .mouseLeave).2
      · simp only [Bool.false_eq_true, ↓reduceIte]
        obtain ⟨m2, hm2, hs2, hl2⟩ := ih m1 (by rw [hl1]; exact hh)
        rw [hs1] at hm2 hs2
        exact ⟨m2, hm2, hs2, by rw [hl2, hl1]⟩
      · simp only [↓reduceIte, hx]
        exact ⟨m1, rfl, hs1, hl1⟩
    · simp only [hc, ↓reduceIte] at hs1 ⊢
      obtain ⟨m2, hm2, hs2, hl2⟩ := ih m1 (by rw [hl1]; exact hh)
      rw [hs1] at hm2 hs2
      exact ⟨m2, hm2, hs2, by rw [hl2, hl1]⟩

/-- One iteration of the enter loop (`m.lastHits` is read live; nothing in the loop changes it). -/
theorem out2_body (e : EOracle) (fuel : Nat) (m : VMX) (h1 : Hit) :
    ∃ m', execX e fuel .init outB2 (bindHit m "v8" h1) =
        some (m', if m.vm.s.lastHits.contains h1 then .contOut 0 else if (eNotify e fuel m.vm.s h1.w .mouseEnter).2 then .ret true else .norm) ∧
      m'.vm.s = (if m.vm.s.lastHits.contains h1 then m.vm.s else (eNotify e fuel m.vm.s h1.w .mouseEnter).1) ∧ m'.x.hitl = m.x.hitl := by
  obtain ⟨m1, hm, hs1, hl1, _, hi1⟩ := in2_loop e fuel h1 m.vm.s.lastHits (bindHit m "v8" h1) (by simp [bindHit, find])
  have hev : evHits (bindHit m "v8" h1) "r.lastHits" = some m.vm.s.lastHits := by simp [evHits, bindHit]
  unfold outB2
  rw [execX_seq, execX_range_hits e fuel .init "_" "v9" "r.lastHits" inB2 _ m.vm.s.lastHits hev, hm]
  cases hc : m.vm.s.lastHits.contains h1
  · simp only [Bool.false_eq_true, ↓reduceIte]
    obtain ⟨m2, hm2, hs2, hx2⟩ := call2 e fuel m1 h1.w (by rw [hi1]; simp [bindHit, find])
    rw [hs1] at hm2 hs2
    exact ⟨m2, hm2, hs2, by rw [hx2, hl1]; rfl⟩
  · simp only [↓reduceIte]
    exact ⟨m1, rfl, hs1, hl1⟩

theorem out2_loop (e : EOracle) (fuel : Nat) (old : List Hit) : ∀ (hs : List Hit) (m : VMX), m.vm.s.lastHits = old →
    ∃ m', rangeHits "v8" (execX e fuel .init outB2) hs m =
        some (m', if (eNotifyLoop e fuel .mouseEnter (fun h => old.contains h) hs m.vm.s).2 then .ret true else .norm) ∧
      m'.vm.s = (eNotifyLoop e fuel .mouseEnter (fun h => old.contains h) hs m.vm.s).1 ∧ m'.x.hitl = m.x.hitl := by
  intro hs
  induction hs with
  | nil => intro m _; exact ⟨m, rfl, rfl, rfl⟩
  | cons h1 hs ih =>
    intro m ho
    obtain ⟨m1, hm, hs1, hl1⟩ := out2_body e fuel m h1
    rw [ho] at hm hs1
    rw [rangeHits, hm, eNotifyLoop]
    cases hc : old.contains h1
    · simp only [hc, Bool.false_eq_true, ↓reduceIte] at hs1 ⊢
      cases hx : (eNotify e fuel m.vm.s h1.w .mouseEnter).2
      · simp only [Bool.false_eq_true, ↓reduceIte]
        obtain ⟨m2, hm2, hs2, hl2⟩ := ih m1 (by rw [hs1, eNotify_hits]; exact ho)
        rw [hs1] at hm2 hs2
        exact ⟨m2, hm2, hs2, by rw [hl2, hl1]⟩
      · simp only [↓reduceIte, hx]
        exact ⟨m1, rfl, hs1, hl1⟩
    · simp only [hc, ↓reduceIte] at hs1 ⊢
      obtain ⟨m2, hm2, hs2, hl2⟩ := ih m1 (by rw [hs1]; exact ho)
      rw [hs1] at hm2 hs2
      exact ⟨m2, hm2, hs2, by rw [hl2, hl1]⟩

/-- The statements before the loops: `hits` = the model's `hitsAt`. -/
theorem mu_prefix (e : EOracle) (fuel : Nat) (s : St) (t : STree) (col row : Int) (hmo : s.mouse = some (col, row)) (K : Stmt) :
    ∃ m1, execX e fuel .init (.seq mu0 (.seq mu1 (.seq mu2 (.seq mu3 K)))) (bindTree ⟨vm0 s, {}⟩ "v1" t) = execX e fuel .init K m1 ∧
      m1.vm = vm0 s ∧ find m1.x.hitl "v2" = some (hitsAt t col row) := by
  unfold hitsAt
  cases hc : containsPoint 0 0 t.w t.h col row
  · refine ⟨⟨vm0 s, { hitl := [("v2", [])], tree := [("v3", t), ("v3.containsPoint", t), ("v1", t), ("v1.containsPoint", t)] }⟩, ?_, rfl, ?_⟩
    · xs [mu0, mu1, mu2, mu3, hmo, hc]
    · simp [find]
  · refine ⟨⟨vm0 s, { hitl := [("v2", (([] : List Hit) ++ hitTest t (u16 col) (u16 row))), ("v2", ([] : List Hit))], tree := [("v3", t), ("v3.containsPoint", t), ("v1", t), ("v1.containsPoint", t)] }⟩, ?_, rfl, ?_⟩
    · xs [mu0, mu1, mu2, mu3, hmo, hc]
    · simp [find]

theorem mu_exec (e : EOracle) (fuel : Nat) (s : St) (t : STree) :
    runMouseUpdate muT e fuel s t = some (eMouseUpdate e fuel s t) := by
  unfold runMouseUpdate eMouseUpdate
  cases hmo : s.mouse with
  | none => xs [muT, mu0, hmo]
  | some p =>
    obtain ⟨col, row⟩ := p
    obtain ⟨m1, hp, hv1, hh1⟩ := mu_prefix e fuel s t col row hmo muLoops
    unfold muT
    rw [hp]
    simp only []
    have hs1 : m1.vm.s = s := by rw [hv1]; rfl
    unfold muLoops
    obtain ⟨m2, hm2, hs2, hl2⟩ := out1_loop e fuel (hitsAt t col row) s.lastHits m1 hh1
    rw [hs1] at hm2 hs2
    rw [execX_seq, execX_range_hits e fuel .init "_" "v4" "r.lastHits" outB1 m1 s.lastHits (by simp [evHits, hs1]), hm2]
    cases h1 : (eNotifyLoop e fuel .mouseLeave (fun h => (hitsAt t col row).contains h) s.lastHits s).2
    · simp only [Bool.false_eq_true, ↓reduceIte]
      have hold : m2.vm.s.lastHits = s.lastHits := by rw [hs2, eNotifyLoop_hits]
      obtain ⟨m3, hm3, hs3, hl3⟩ := out2_loop e fuel s.lastHits (hitsAt t col row) m2 hold
      rw [hs2] at hm3 hs3
      rw [execX_seq, execX_range_hits e fuel .init "_" "v8" "v2" outB2 m2 (hitsAt t col row) (by simp [evHits, hl2, hh1]), hm3]
      cases h2 : (eNotifyLoop e fuel .mouseEnter (fun h => s.lastHits.contains h) (hitsAt t col row)
          (eNotifyLoop e fuel .mouseLeave (fun h => (hitsAt t col row).contains h) s.lastHits s).1).2
      · simp only [Bool.false_eq_true, ↓reduceIte]
        have hf3 : find m3.x.hitl "v2" = some (hitsAt t col row) := by rw [hl3, hl2]; exact hh1
        xs [muEnd, hf3, hs3]
      · simp only [↓reduceIte, hs3]
        exact congrArg some (Prod.ext rfl h2.symm)
    · simp only [↓reduceIte, hs2]
      exact congrArg some (Prod.ext rfl h1.symm)

end VaxisModel.Lemmas.VxfwBodyX
