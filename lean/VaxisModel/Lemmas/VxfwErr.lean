import VaxisModel.Model.VxfwErr
import VaxisModel.Lemmas.Vxfw

/-! Lemmas about the error plumbing (`Model/VxfwErr.lean`). -/
namespace VaxisModel.Lemmas.Vxfw
open VaxisModel.Model.Vxfw VaxisModel.Spec.Routing

/-- No call fails. -/
def e0 (o : Oracle) : EOracle := ⟨o, fun _ _ _ _ => false⟩

@[simp] theorem e0_o (o : Oracle) : (e0 o).o = o := rfl
@[simp] theorem e0_failsAt (o : Oracle) (s : St) (w : Id) (ev : Ev) (ph : Phase) :
    (e0 o).failsAt s w ev ph = false := rfl

theorem eFocusWidgetWith_noerr (hc : St → Cmd → St) (o : Oracle) (s : St) (w : Id) :
    eFocusWidgetWith hc (e0 o) s w = (focusWidgetWith hc o s w, false) := by
  simp only [eFocusWidgetWith, focusWidgetWith, e0_o, e0_failsAt]
  split <;> simp

theorem eExecAtom_noerr (hc : St → Cmd → St) (o : Oracle) (s : St) (a : Atom) :
    eExecAtom hc (e0 o) s a = execAtom hc o s a := by
  cases a <;> simp [eExecAtom, execAtom, eFocusWidgetWith_noerr]

theorem eHandleCommand_noerr (o : Oracle) (fuel : Nat) :
    eHandleCommand (e0 o) fuel = handleCommand o fuel := by
  induction fuel with
  | zero => funext s c; rfl
  | succ n ih =>
    funext s c
    simp only [eHandleCommand, handleCommand, ih]
    congr 1
    funext s a
    exact eExecAtom_noerr _ o s a

theorem eFocusWidget_noerr (o : Oracle) (fuel : Nat) (s : St) (w : Id) :
    eFocusWidget (e0 o) fuel s w = (focusWidget o fuel s w, false) := by
  cases fuel with
  | zero => rfl
  | succ n => simp [eFocusWidget, focusWidget, eHandleCommand_noerr, eFocusWidgetWith_noerr]

def outcomeOf (b : Bool) : Outcome := if b then .stop else .next

theorem eOffer_noerr (o : Oracle) (fuel : Nat) (s : St) (w : Id) (ev : Ev) (ph : Phase) :
    eOffer (e0 o) fuel s w ev ph = ((offer o fuel s w ev ph).1, outcomeOf (offer o fuel s w ev ph).2) := by
  unfold eOffer offer outcomeOf
  rw [e0_failsAt, eHandleCommand_noerr]
  simp only [Bool.false_eq_true, if_false, e0_o]
  split <;> simp_all

theorem eCapture_noerr (o : Oracle) (fuel : Nat) (ev : Ev) (ws : List Id) (s : St) :
    eCapturePhase (e0 o) fuel ev ws s =
      ((capturePhase o fuel ev ws s).1, outcomeOf (capturePhase o fuel ev ws s).2) := by
  induction ws generalizing s with
  | nil => rfl
  | cons w ws ih =>
    simp only [eCapturePhase, capturePhase, eOffer_noerr, e0_o]
    cases hc : o.captures w
    · simp only [Bool.false_eq_true, if_false]; exact ih s
    · simp only [if_true]
      cases hb : (offer o fuel s w ev .capture).2
      · simp only [outcomeOf, Bool.false_eq_true, if_false, if_true]; exact ih _
      · simp [outcomeOf, hb]

theorem eBubble_noerr (o : Oracle) (fuel : Nat) (ev : Ev) (ws : List Id) (s : St) :
    eBubblePhase (e0 o) fuel ev ws s = (bubblePhase o fuel ev ws s, .next) ∨
    eBubblePhase (e0 o) fuel ev ws s = (bubblePhase o fuel ev ws s, .stop) := by
  induction ws generalizing s with
  | nil => exact Or.inl rfl
  | cons w ws ih =>
    simp only [eBubblePhase, bubblePhase, eOffer_noerr]
    cases hb : (offer o fuel s w ev .bubble).2
    · simpa [outcomeOf] using ih _
    · simp [outcomeOf]

theorem eDispatch_noerr (o : Oracle) (fuel : Nat) (chain : List Id) (tgt : St → Id) (ev : Ev) (s : St) :
    eDispatch (e0 o) fuel chain tgt ev s = (dispatch o fuel chain tgt ev s, false) := by
  simp only [eDispatch, dispatch, eCapture_noerr, eOffer_noerr]
  cases h1 : (capturePhase o fuel ev chain { s with consume := false }).2
  · simp only [outcomeOf]
    cases h2 : (offer o fuel (capturePhase o fuel ev chain { s with consume := false }).1
        (tgt (capturePhase o fuel ev chain { s with consume := false }).1) ev .target).2
    · rcases eBubble_noerr o fuel ev chain.dropLast.reverse
        (offer o fuel (capturePhase o fuel ev chain { s with consume := false }).1
          (tgt (capturePhase o fuel ev chain { s with consume := false }).1) ev .target).1 with h | h <;>
        simp [h]
    · simp
  · simp [outcomeOf]

theorem eNotify_noerr (o : Oracle) (fuel : Nat) (s : St) (w : Id) (ev : Ev) :
    eNotify (e0 o) fuel s w ev = (notify o fuel s w ev, false) := by
  simp [eNotify, notify, eHandleCommand_noerr]

theorem eNotifyLoop_noerr (o : Oracle) (fuel : Nat) (ev : Ev) (skip : Hit → Bool) (l : List Hit) (s : St) :
    eNotifyLoop (e0 o) fuel ev skip l s =
      (l.foldl (fun s h => if skip h then s else notify o fuel s h.w ev) s, false) := by
  induction l generalizing s with
  | nil => rfl
  | cons h r ih =>
    simp only [eNotifyLoop, List.foldl_cons, eNotify_noerr]
    split
    · exact ih s
    · simpa using ih _

theorem eMouseUpdate_noerr (o : Oracle) (fuel : Nat) (s : St) (t : STree) :
    eMouseUpdate (e0 o) fuel s t = (mouseUpdate o fuel s t, false) := by
  unfold eMouseUpdate mouseUpdate
  cases hm : s.mouse with
  | none => rfl
  | some p => obtain ⟨c, r⟩ := p; simp [eNotifyLoop_noerr]

theorem eMouseExit_noerr (o : Oracle) (fuel : Nat) (s : St) :
    eMouseExit (e0 o) fuel s = (mouseExit o fuel s, false) := by
  simp [eMouseExit, mouseExit, eNotifyLoop_noerr]

theorem eMouseEnter_noerr (o : Oracle) (fuel : Nat) (s : St) (w : Id) :
    eMouseEnter (e0 o) fuel s w = (mouseEnter o fuel s w, false) := by
  simp only [eMouseEnter, mouseEnter, eNotify_noerr]
  split <;> rfl

theorem eMouseHandleEvent_noerr (o : Oracle) (fuel : Nat) (s : St) (c r : Int) :
    eMouseHandleEvent (e0 o) fuel s c r = (mouseHandleEvent o fuel s c r, false) := by
  simp only [eMouseHandleEvent, mouseHandleEvent, eMouseUpdate_noerr, eDispatch_noerr]
  cases (mouseUpdate o fuel { s with mouse := some (c, r) } s.lastFrame).lastHits.getLast? <;> simp

theorem eUpdatePath_noerr (o : Oracle) (fuel : Nat) (s : St) (t : STree) :
    eUpdatePath (e0 o) fuel s t = updatePath o fuel s t := by
  simp only [eUpdatePath, updatePath, eFocusWidget_noerr]

theorem eRunEvent_noerr (o : Oracle) (fuel : Nat) (s : St) (ev : RunEv) :
    eRunEvent (e0 o) fuel s ev = (runEvent o fuel s ev, false) := by
  cases ev <;>
    simp [eRunEvent, runEvent, eMouseHandleEvent_noerr, eMouseEnter_noerr, eMouseExit_noerr, eHandleEvent,
      handleEvent, eDispatch_noerr]

theorem eRunFrame_noerr (o : Oracle) (fuel : Nat) (s : St) (t1 t2 : STree) :
    eRunFrame (e0 o) fuel s t1 t2 = (runFrame o fuel s t1 t2, false) := by
  simp only [eRunFrame, runFrame, eMouseUpdate_noerr, eUpdatePath_noerr]
  split <;> simp

theorem eRunSteps_noerr (o : Oracle) (fuel : Nat) (steps : List Step) (s : St) :
    eRunSteps (e0 o) fuel s steps = (runSteps o fuel s steps, false) := by
  induction steps generalizing s with
  | nil => rfl
  | cons st rest ih =>
    cases st with
    | ev ev =>
      simp only [eRunSteps, runSteps, eRunStep, runStep, eRunEvent_noerr, Bool.false_eq_true, if_false]
      by_cases hq : (runEvent o fuel s ev).quit = true
      · simp [hq]
      · simp only [hq]
        rw [ih]; simp
    | frame t1 t2 =>
      simp only [eRunSteps, runSteps, eRunStep, runStep, eRunFrame_noerr, Bool.false_eq_true, if_false]
      exact ih _

theorem eRun_noerr (o : Oracle) (fuel : Nat) (root : Id) (t0 : STree) (steps : List Step) :
    eRun (e0 o) fuel root t0 steps = (runSteps o fuel (runInit o fuel root t0) steps, false) := by
  simp [eRun, eRunInit, runInit, eHandleEvent, handleEvent, eDispatch_noerr, eRunSteps_noerr]

/-! ### what a returned error looks like -/

/-- The last trace entry is a handler call (the failing one): nothing was executed after it. -/
def EndsWithCall (s : St) : Prop := ∃ pre w ev ph, s.trace = pre ++ [.call w ev ph]

theorem eOffer_fail (e : EOracle) (fuel : Nat) (s : St) (w : Id) (ev : Ev) (ph : Phase)
    (h : (eOffer e fuel s w ev ph).2 = .fail) :
    e.failsAt s w ev ph = true ∧ (eOffer e fuel s w ev ph).1 = (call e.o s w ev ph).1 := by
  simp only [eOffer] at h ⊢
  split at h
  · rename_i hf; simp [hf]
  · split at h <;> cases h

theorem endsWithCall_call (o : Oracle) (s : St) (w : Id) (ev : Ev) (ph : Phase) :
    EndsWithCall (call o s w ev ph).1 := ⟨s.trace, w, ev, ph, rfl⟩

theorem eCapture_fail (e : EOracle) (fuel : Nat) (ev : Ev) (ws : List Id) (s : St)
    (h : (eCapturePhase e fuel ev ws s).2 = .fail) : EndsWithCall (eCapturePhase e fuel ev ws s).1 := by
  induction ws generalizing s with
  | nil => cases h
  | cons w ws ih =>
    simp only [eCapturePhase] at h ⊢
    split
    · rename_i hc
      simp only [hc, if_true] at h
      split
      · rename_i hn; rw [if_pos hn] at h; exact ih _ h
      · rename_i hn; rw [if_neg hn] at h
        rw [(eOffer_fail e fuel s w ev .capture h).2]; exact endsWithCall_call _ _ _ _ _
    · rename_i hc
      simp only [hc] at h
      exact ih _ h

theorem eBubble_fail (e : EOracle) (fuel : Nat) (ev : Ev) (ws : List Id) (s : St)
    (h : (eBubblePhase e fuel ev ws s).2 = .fail) : EndsWithCall (eBubblePhase e fuel ev ws s).1 := by
  induction ws generalizing s with
  | nil => cases h
  | cons w ws ih =>
    simp only [eBubblePhase] at h ⊢
    split
    · rename_i hn; rw [if_pos hn] at h; exact ih _ h
    · rename_i hn; rw [if_neg hn] at h
      rw [(eOffer_fail e fuel s w ev .bubble h).2]; exact endsWithCall_call _ _ _ _ _

theorem eDispatch_fail (e : EOracle) (fuel : Nat) (chain : List Id) (tgt : St → Id) (ev : Ev) (s : St)
    (h : (eDispatch e fuel chain tgt ev s).2 = true) : EndsWithCall (eDispatch e fuel chain tgt ev s).1 := by
  simp only [eDispatch] at h ⊢
  split
  · rename_i h1; rw [if_pos h1] at h
    exact eCapture_fail e fuel ev chain _ (by simpa using h)
  · rename_i h1; rw [if_neg h1] at h
    split
    · rename_i h2; rw [if_pos h2] at h
      rw [(eOffer_fail e fuel _ _ ev .target (by simpa using h)).2]; exact endsWithCall_call _ _ _ _ _
    · rename_i h2; rw [if_neg h2] at h
      exact eBubble_fail e fuel ev _ _ (by simpa using h)

theorem eNotify_fail (e : EOracle) (fuel : Nat) (s : St) (w : Id) (ev : Ev) (h : (eNotify e fuel s w ev).2 = true) :
    EndsWithCall (eNotify e fuel s w ev).1 := by
  simp only [eNotify] at h ⊢
  split
  · exact endsWithCall_call e.o s w ev .target
  · rename_i hf; rw [if_neg hf] at h; cases h

theorem eNotifyLoop_fail (e : EOracle) (fuel : Nat) (ev : Ev) (skip : Hit → Bool) (l : List Hit) (s : St)
    (h : (eNotifyLoop e fuel ev skip l s).2 = true) : EndsWithCall (eNotifyLoop e fuel ev skip l s).1 := by
  induction l generalizing s with
  | nil => cases h
  | cons x r ih =>
    simp only [eNotifyLoop] at h ⊢
    split
    · rename_i hs; rw [if_pos hs] at h; exact ih _ h
    · rename_i hs; rw [if_neg hs] at h
      split
      · rename_i hx; exact eNotify_fail e fuel s x.w ev hx
      · rename_i hx; rw [if_neg hx] at h; exact ih _ h

theorem eMouseUpdate_fail (e : EOracle) (fuel : Nat) (s : St) (t : STree) (h : (eMouseUpdate e fuel s t).2 = true) :
    EndsWithCall (eMouseUpdate e fuel s t).1 := by
  simp only [eMouseUpdate] at h ⊢
  split
  · rename_i hm; simp [hm] at h
  · rename_i c r hm
    simp only [hm] at h
    split
    · rename_i h1; exact eNotifyLoop_fail e fuel _ _ _ _ h1
    · rename_i h1; rw [if_neg h1] at h
      split
      · rename_i h2; exact eNotifyLoop_fail e fuel _ _ _ _ h2
      · rename_i h2; rw [if_neg h2] at h; cases h

theorem eMouseExit_fail (e : EOracle) (fuel : Nat) (s : St) (h : (eMouseExit e fuel s).2 = true) :
    EndsWithCall (eMouseExit e fuel s).1 := by
  simp only [eMouseExit] at h ⊢
  split
  · rename_i h1; exact eNotifyLoop_fail e fuel _ _ _ _ h1
  · rename_i h1; rw [if_neg h1] at h; cases h

theorem eMouseEnter_fail (e : EOracle) (fuel : Nat) (s : St) (w : Id) (h : (eMouseEnter e fuel s w).2 = true) :
    EndsWithCall (eMouseEnter e fuel s w).1 := by
  simp only [eMouseEnter] at h ⊢
  split
  · rename_i h1; rw [if_pos h1] at h; cases h
  · rename_i h1; rw [if_neg h1] at h; exact eNotify_fail e fuel _ w _ h

theorem eMouseHandleEvent_fail (e : EOracle) (fuel : Nat) (s : St) (c r : Int)
    (h : (eMouseHandleEvent e fuel s c r).2 = true) : EndsWithCall (eMouseHandleEvent e fuel s c r).1 := by
  simp only [eMouseHandleEvent] at h ⊢
  split
  · rename_i h1; exact eMouseUpdate_fail e fuel _ _ h1
  · rename_i h1; rw [if_neg h1] at h
    split
    · rename_i hl; rw [hl] at h; simp only at h; exact absurd h h1
    · rename_i tg hl; rw [hl] at h; exact eDispatch_fail e fuel _ _ _ _ h

theorem eRunEvent_fail (e : EOracle) (fuel : Nat) (s : St) (ev : RunEv) (h : (eRunEvent e fuel s ev).2 = true) :
    EndsWithCall (eRunEvent e fuel s ev).1 := by
  cases ev with
  | resize => cases h
  | redraw => cases h
  | mouse c r => exact eMouseHandleEvent_fail e fuel s c r h
  | focusIn => exact eMouseEnter_fail e fuel s s.root h
  | focusOut => exact eMouseExit_fail e fuel _ h
  | key k => exact eDispatch_fail e fuel _ _ _ _ h
  | other k => exact eDispatch_fail e fuel _ _ _ _ h

theorem eRunFrame_fail (e : EOracle) (fuel : Nat) (s : St) (t1 t2 : STree) (h : (eRunFrame e fuel s t1 t2).2 = true) :
    EndsWithCall (eRunFrame e fuel s t1 t2).1 := by
  simp only [eRunFrame] at h ⊢
  split
  · rename_i h0; rw [if_pos h0] at h; cases h
  · rename_i h0; rw [if_neg h0] at h
    split
    · rename_i h1; exact eMouseUpdate_fail e fuel _ _ h1
    · rename_i h1; rw [if_neg h1] at h; cases h

theorem eRunSteps_fail (e : EOracle) (fuel : Nat) (steps : List Step) (s : St)
    (h : (eRunSteps e fuel s steps).2 = true) : EndsWithCall (eRunSteps e fuel s steps).1 := by
  induction steps generalizing s with
  | nil => cases h
  | cons st rest ih =>
    simp only [eRunSteps] at h ⊢
    split
    · rename_i h1
      cases st with
      | ev ev => exact eRunEvent_fail e fuel s ev h1
      | frame t1 t2 => exact eRunFrame_fail e fuel s t1 t2 h1
    · rename_i h1; rw [if_neg h1] at h
      cases st with
      | ev ev =>
        simp only at h ⊢
        split
        · rename_i hq; rw [if_pos hq] at h; exact absurd h h1
        · rename_i hq; rw [if_neg hq] at h; exact ih _ h
      | frame t1 t2 => exact ih _ h

end VaxisModel.Lemmas.Vxfw
