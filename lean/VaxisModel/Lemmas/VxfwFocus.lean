import VaxisModel.Lemmas.VxfwHover

/-! Focus notifications pair up over whole Run histories. -/
namespace VaxisModel.Lemmas.Vxfw
open VaxisModel.Model.Vxfw VaxisModel.Spec.Routing

/-- The trace grew by a stretch whose focus notifications pair up, starting from the focus of `s`
and ending with the focus of `s'`. -/
def FP (s s' : St) : Prop :=
  ∃ t, s'.trace = s.trace ++ t ∧ focusRun s.focused false t = some s'.focused

theorem FP.refl (s : St) : FP s s := ⟨[], by simp, rfl⟩

theorem FP.trans {a b c : St} (h1 : FP a b) (h2 : FP b c) : FP a c := by
  obtain ⟨t1, e1, p1⟩ := h1
  obtain ⟨t2, e2, p2⟩ := h2
  exact ⟨t1 ++ t2, by rw [e2, e1, List.append_assoc], by rw [focusRun_append _ _ _ _ p1]; exact p2⟩

theorem FP.same {s s' : St} (ht : s'.trace = s.trace) (hf : s'.focused = s.focused) : FP s s' :=
  ⟨[], by simp [ht], by simp [focusRun, hf]⟩

theorem FP.draw {s s' : St} (ht : s'.trace = s.trace ++ [.draw]) (hf : s'.focused = s.focused) : FP s s' :=
  ⟨[.draw], ht, by simp [focusRun, hf]⟩

theorem FP.call (o : Oracle) (s : St) (w : Id) (ev : Ev) (ph : Phase) (hev : Routable ev) :
    FP s (call o s w ev ph).1 := by
  refine ⟨[.call w ev ph], rfl, ?_⟩
  obtain ⟨h1, h2⟩ := hev
  cases ev <;> first | exact absurd rfl h1 | exact absurd rfl h2 | rfl

theorem fp_handleCommand (o : Oracle) (fuel : Nat) (s : St) (c : Cmd) : FP s (handleCommand o fuel s c) :=
  (focusGood_handleCommand o fuel).pairs s c

theorem fp_focusWidget (o : Oracle) (fuel : Nat) (s : St) (w : Id) : FP s (focusWidget o fuel s w) := by
  cases fuel with
  | zero => exact FP.same rfl rfl
  | succ n => exact focus_execAtom o (handleCommand o n) (focusGood_handleCommand o n) s (.focus w)

theorem fp_notify (o : Oracle) (fuel : Nat) (s : St) (w : Id) (ev : Ev) (hev : Routable ev) :
    FP s (notify o fuel s w ev) :=
  (FP.call o s w ev .target hev).trans (fp_handleCommand o fuel _ _)

theorem fp_offer (o : Oracle) (fuel : Nat) (s : St) (w : Id) (ev : Ev) (ph : Phase) (hev : Routable ev) :
    FP s (offer o fuel s w ev ph).1 := by
  have h := (FP.call o s w ev ph hev).trans (fp_handleCommand o fuel _ (Model.Vxfw.call o s w ev ph).2)
  simp only [offer]
  split
  · exact h.trans (FP.same rfl rfl)
  · exact h

theorem fp_capture (o : Oracle) (fuel : Nat) (ev : Ev) (hev : Routable ev) (ws : List Id) (s : St) :
    FP s (capturePhase o fuel ev ws s).1 := by
  induction ws generalizing s with
  | nil => exact FP.refl s
  | cons w ws ih =>
    simp only [capturePhase]
    split
    · split
      · exact fp_offer o fuel s w ev .capture hev
      · exact (fp_offer o fuel s w ev .capture hev).trans (ih _)
    · exact ih s

theorem fp_bubble (o : Oracle) (fuel : Nat) (ev : Ev) (hev : Routable ev) (ws : List Id) (s : St) :
    FP s (bubblePhase o fuel ev ws s) := by
  induction ws generalizing s with
  | nil => exact FP.refl s
  | cons w ws ih =>
    simp only [bubblePhase]
    split
    · exact fp_offer o fuel s w ev .bubble hev
    · exact (fp_offer o fuel s w ev .bubble hev).trans (ih _)

theorem fp_dispatch (o : Oracle) (fuel : Nat) (chain : List Id) (tgt : St → Id) (ev : Ev) (hev : Routable ev) (s : St) :
    FP s (dispatch o fuel chain tgt ev s) := by
  have h0 : FP s { s with consume := false } := FP.same rfl rfl
  have hc := h0.trans (fp_capture o fuel ev hev chain { s with consume := false })
  simp only [dispatch]
  split
  · exact hc
  · have ht := hc.trans (fp_offer o fuel _ (tgt (capturePhase o fuel ev chain { s with consume := false }).1) ev .target hev)
    split
    · exact ht
    · exact ht.trans (fp_bubble o fuel ev hev _ _)

theorem fp_foldl {α : Type} (f : St → α → St) (hf : ∀ s a, FP s (f s a)) (l : List α) (s : St) : FP s (l.foldl f s) := by
  induction l generalizing s with
  | nil => exact FP.refl s
  | cons a r ih => exact (hf s a).trans (ih (f s a))

theorem fp_condNotify (o : Oracle) (fuel : Nat) (ev : Ev) (hev : Routable ev) (keep : Hit → Bool) (l : List Hit) (s : St) :
    FP s (l.foldl (fun s h1 => if keep h1 then s else notify o fuel s h1.w ev) s) :=
  fp_foldl _ (fun s h1 => by
    by_cases hk : keep h1 = true
    · simp only [hk, if_true]; exact FP.refl s
    · simp only [hk]; exact fp_notify o fuel s h1.w ev hev) l s

theorem fp_mouseUpdate (o : Oracle) (fuel : Nat) (s : St) (t : STree) : FP s (mouseUpdate o fuel s t) := by
  simp only [mouseUpdate]
  split
  · exact FP.refl s
  · exact ((fp_condNotify o fuel .mouseLeave routable_leave _ _ s).trans
      (fp_condNotify o fuel .mouseEnter routable_enter _ _ _)).trans (FP.same rfl rfl)

theorem fp_mouseExit (o : Oracle) (fuel : Nat) (s : St) : FP s (mouseExit o fuel s) := by
  simp only [mouseExit]
  exact (fp_foldl (fun s (h : Hit) => notify o fuel s h.w .mouseLeave)
    (fun s h => fp_notify o fuel s h.w .mouseLeave routable_leave) s.lastHits s).trans (FP.same rfl rfl)

theorem fp_mouseEnter (o : Oracle) (fuel : Nat) (s : St) (w : Id) : FP s (mouseEnter o fuel s w) := by
  simp only [mouseEnter]
  split
  · exact FP.refl s
  · have h0 : FP s { s with lastHits := s.lastHits ++ [⟨0, 0, w⟩] } := FP.same rfl rfl
    exact h0.trans (fp_notify o fuel _ w .mouseEnter routable_enter)

theorem fp_mouseHandleEvent (o : Oracle) (fuel : Nat) (s : St) (c r : Int) : FP s (mouseHandleEvent o fuel s c r) := by
  have h0 : FP s { s with mouse := some (c, r) } := FP.same rfl rfl
  have h1 := h0.trans (fp_mouseUpdate o fuel { s with mouse := some (c, r) } s.lastFrame)
  simp only [mouseHandleEvent]
  generalize mouseUpdate o fuel { s with mouse := some (c, r) } s.lastFrame = s1 at h1
  cases s1.lastHits.getLast? with
  | none => exact h1
  | some tg => exact h1.trans (fp_dispatch o fuel _ _ (.mouse c r) ⟨by simp, by simp⟩ s1)

theorem fp_updatePath (o : Oracle) (fuel : Nat) (s : St) (t : STree) : FP s (updatePath o fuel s t) := by
  have h0 : FP s (findPath { s with fhFrame := some t }).1 := FP.same rfl rfl
  simp only [updatePath]
  split
  · exact h0
  · exact h0.trans (fp_focusWidget o fuel _ s.root)

theorem fp_runEvent (o : Oracle) (fuel : Nat) (s : St) (e : RunEv) : FP s (runEvent o fuel s e) := by
  cases e with
  | resize => exact FP.same rfl rfl
  | redraw => exact FP.same rfl rfl
  | mouse c r => exact fp_mouseHandleEvent o fuel s c r
  | focusIn => exact fp_mouseEnter o fuel s s.root
  | focusOut =>
    have h0 : FP s { s with mouse := none } := FP.same rfl rfl
    exact h0.trans (fp_mouseExit o fuel _)
  | key k => exact fp_dispatch o fuel _ _ (.key k) ⟨by simp, by simp⟩ s
  | other k => exact fp_dispatch o fuel _ _ (.custom k) ⟨by simp, by simp⟩ s

theorem fp_runFrame (o : Oracle) (fuel : Nat) (s : St) (t1 t2 : STree) : FP s (runFrame o fuel s t1 t2) := by
  simp only [runFrame]
  split
  · exact FP.refl s
  · have ha : FP s { s with redraw := false, trace := s.trace ++ [.draw] } := FP.draw rfl rfl
    have hu := ha.trans (fp_mouseUpdate o fuel { s with redraw := false, trace := s.trace ++ [.draw] } t1)
    generalize mouseUpdate o fuel { s with redraw := false, trace := s.trace ++ [.draw] } t1 = s1 at hu
    by_cases hr : s1.redraw = true
    · simp only [hr, if_true]
      have hb : FP s1 { s1 with redraw := false, trace := s1.trace ++ [.draw] } := FP.draw rfl rfl
      have hc : FP { s1 with redraw := false, trace := s1.trace ++ [.draw] }
          { s1 with redraw := false, trace := s1.trace ++ [.draw], refresh := false, debug := false } := FP.same rfl rfl
      have hd := fp_updatePath o fuel
        { s1 with redraw := false, trace := s1.trace ++ [.draw], refresh := false, debug := false } (sortTree t2)
      exact ((((hu.trans hb).trans hc).trans hd).trans (FP.same rfl rfl))
    · have hrf : s1.redraw = false := by simpa using hr
      simp only [hrf]
      have hc : FP s1 { s1 with refresh := false, debug := false } := FP.same rfl rfl
      have hd := fp_updatePath o fuel { s1 with refresh := false, debug := false } (sortTree t1)
      exact (((hu.trans hc).trans hd).trans (FP.same rfl rfl))

theorem fp_runInit (o : Oracle) (fuel : Nat) (root : Id) (t : STree) : FP (St.init root) (runInit o fuel root t) := by
  have h := fp_dispatch o fuel (St.init root).path (fun s => s.focused) .init ⟨by simp, by simp⟩ (St.init root)
  simp only [runInit, handleEvent]
  generalize dispatch o fuel (St.init root).path (fun s => s.focused) .init (St.init root) = s1 at h ⊢
  exact h.trans (FP.draw rfl rfl)

theorem fp_runSteps (o : Oracle) (fuel : Nat) (steps : List Step) (s : St) : FP s (runSteps o fuel s steps) := by
  induction steps generalizing s with
  | nil => exact FP.refl s
  | cons st rest ih =>
    cases st with
    | ev e =>
      rw [runSteps_ev]
      split
      · exact fp_runEvent o fuel s e
      · exact (fp_runEvent o fuel s e).trans (ih _)
    | frame t1 t2 =>
      rw [runSteps_frame]
      exact (fp_runFrame o fuel s t1 t2).trans (ih _)

theorem focusPairs_run (o : Oracle) (fuel : Nat) (root : Id) (t0 : STree) (steps : List Step) :
    focusRun root false (runSteps o fuel (runInit o fuel root t0) steps).trace =
      some (runSteps o fuel (runInit o fuel root t0) steps).focused := by
  obtain ⟨t, ht, hp⟩ := (fp_runInit o fuel root t0).trans (fp_runSteps o fuel steps _)
  have ht' : (runSteps o fuel (runInit o fuel root t0) steps).trace = t := by simpa [St.init] using ht
  rw [ht']
  simpa [St.init] using hp

end VaxisModel.Lemmas.Vxfw
