import VaxisModel.Lemmas.VxfwFocus
import VaxisModel.Lemmas.VxfwErr

/-! C15: focus notifications pair up over whole Run histories also when handlers fail — apart from the FocusOut calls that failed
    (a failing FocusOut handler cancels the focus change). -/
set_option linter.unusedSimpArgs false
set_option linter.unusedVariables false

namespace VaxisModel.Lemmas.Vxfw
open VaxisModel.Model.Vxfw VaxisModel.Spec.Routing

/-- The trace without the FocusOut calls that failed (`k` = number of handler calls before the stretch). -/
def dropFailedOut (e : EOracle) : Nat → List Entry → List Entry
  | _, [] => []
  | k, .call w ev ph :: r =>
    if ev = .focusOut ∧ e.fails w ev ph k = true then dropFailedOut e (k + 1) r else .call w ev ph :: dropFailedOut e (k + 1) r
  | k, .eff x :: r => .eff x :: dropFailedOut e k r
  | k, .draw :: r => .draw :: dropFailedOut e k r

theorem dropFailedOut_append (e : EOracle) : ∀ (a b : List Entry) (k : Nat),
    dropFailedOut e k (a ++ b) = dropFailedOut e k a ++ dropFailedOut e (k + nCalls a) b
  | [], b, k => by simp [dropFailedOut, nCalls]
  | .call w ev ph :: a, b, k => by
    have h := dropFailedOut_append e a b (k + 1)
    have hk : k + 1 + nCalls a = k + (nCalls a + 1) := by omega
    simp only [List.cons_append, dropFailedOut, nCalls, h, hk]
    split <;> simp
  | .eff x :: a, b, k => by simp [dropFailedOut, nCalls, dropFailedOut_append e a b k]
  | .draw :: a, b, k => by simp [dropFailedOut, nCalls, dropFailedOut_append e a b k]

theorem nCalls_append (a b : List Entry) : nCalls (a ++ b) = nCalls a + nCalls b := by
  induction a with
  | nil => simp [nCalls]
  | cons x a ih => cases x <;> simp [nCalls, ih] <;> omega

/-- The trace grew by a stretch whose focus notifications — the failed FocusOut calls dropped — pair up. -/
def FPe (e : EOracle) (s s' : St) : Prop :=
  ∃ t, s'.trace = s.trace ++ t ∧ s'.calls = s.calls + nCalls t ∧
    focusRun s.focused false (dropFailedOut e s.calls t) = some s'.focused

theorem FPe.refl (e : EOracle) (s : St) : FPe e s s := ⟨[], by simp, by simp [nCalls], rfl⟩

theorem FPe.trans {e : EOracle} {a b c : St} (h1 : FPe e a b) (h2 : FPe e b c) : FPe e a c := by
  obtain ⟨t1, e1, c1, p1⟩ := h1
  obtain ⟨t2, e2, c2, p2⟩ := h2
  refine ⟨t1 ++ t2, by rw [e2, e1, List.append_assoc], by rw [c2, c1, nCalls_append]; omega, ?_⟩
  rw [dropFailedOut_append, focusRun_append _ _ _ _ p1, ← c1]
  exact p2

theorem FPe.same {e : EOracle} {s s' : St} (ht : s'.trace = s.trace) (hc : s'.calls = s.calls) (hf : s'.focused = s.focused) :
    FPe e s s' := ⟨[], by simp [ht], by simp [nCalls, hc], by simp [dropFailedOut, focusRun, hf]⟩

theorem FPe.draw {e : EOracle} {s s' : St} (ht : s'.trace = s.trace ++ [.draw]) (hc : s'.calls = s.calls)
    (hf : s'.focused = s.focused) : FPe e s s' :=
  ⟨[.draw], ht, by simp [nCalls, hc], by simp [dropFailedOut, focusRun, hf]⟩

theorem FPe.call (e : EOracle) (s : St) (w : Id) (ev : Ev) (ph : Phase) (hev : Routable ev) :
    FPe e s (Model.Vxfw.call e.o s w ev ph).1 := by
  refine ⟨[.call w ev ph], rfl, by simp [Model.Vxfw.call, nCalls], ?_⟩
  obtain ⟨h1, h2⟩ := hev
  cases ev <;> first | exact absurd rfl h1 | exact absurd rfl h2 | simp [dropFailedOut, focusRun, Model.Vxfw.call]

theorem fpe_execAtom_nonfocus (e : EOracle) (hc : St → Cmd → St) (s : St) (a : Atom) (h : ∀ w, a ≠ .focus w) :
    FPe e s (execAtom hc e.o s a) := by
  cases a <;> first
    | exact ⟨[.eff _], rfl, rfl, rfl⟩
    | exact absurd rfl (h _)

theorem fpe_eFocusWidgetWith (hc : St → Cmd → St) (e : EOracle) (hg : ∀ s c, FPe e s (hc s c)) (s : St) (w : Id) :
    FPe e s (eFocusWidgetWith hc e s w).1 := by
  unfold eFocusWidgetWith
  split
  · exact FPe.refl e s
  · rename_i hne
    simp only []
    split
    · rename_i hfail
      refine ⟨[.call s.focused .focusOut .target], rfl, by simp [Model.Vxfw.call, nCalls], ?_⟩
      have hf : e.fails s.focused .focusOut .target s.calls = true := hfail
      simp [dropFailedOut, hf, focusRun, Model.Vxfw.call]
    · rename_i hok
      have hf : e.fails s.focused .focusOut .target s.calls = false := by
        have : ¬ (e.failsAt s s.focused .focusOut .target = true) := hok
        simpa [EOracle.failsAt] using this
      generalize hs3 : (Model.Vxfw.call e.o (findPath { (Model.Vxfw.call e.o s s.focused .focusOut .target).1 with focused := w, trace := (Model.Vxfw.call e.o s s.focused .focusOut .target).1.trace ++ [.eff (.focusSet w)] }).1 w .focusIn .target) = r3
      have h3 : FPe e s r3.1 := by
        refine ⟨[.call s.focused .focusOut .target, .eff (.focusSet w), .call w .focusIn .target], ?_, ?_, ?_⟩
        · rw [← hs3]; simp [Model.Vxfw.call, findPath]
        · rw [← hs3]; simp [Model.Vxfw.call, findPath, nCalls]
        · rw [← hs3]; simp [dropFailedOut, hf, focusRun, Model.Vxfw.call, findPath]
      have h4 := h3.trans (hg r3.1 (Model.Vxfw.call e.o s s.focused .focusOut .target).2)
      split
      · exact h4
      · exact h4.trans (hg _ _)

theorem fpe_eExecAtom (hc : St → Cmd → St) (e : EOracle) (hg : ∀ s c, FPe e s (hc s c)) (s : St) (a : Atom) :
    FPe e s (eExecAtom hc e s a) := by
  cases a with
  | focus w => exact fpe_eFocusWidgetWith hc e hg s w
  | redraw => exact fpe_execAtom_nonfocus e hc s .redraw (fun w h => nomatch h)
  | refresh => exact fpe_execAtom_nonfocus e hc s .refresh (fun w h => nomatch h)
  | quit => exact fpe_execAtom_nonfocus e hc s .quit (fun w h => nomatch h)
  | consume => exact fpe_execAtom_nonfocus e hc s .consume (fun w h => nomatch h)
  | debug => exact fpe_execAtom_nonfocus e hc s .debug (fun w h => nomatch h)
  | other k => exact fpe_execAtom_nonfocus e hc s (.other k) (fun w h => nomatch h)

theorem fpe_eHandleCommand (e : EOracle) : ∀ (fuel : Nat) (s : St) (c : Cmd), FPe e s (eHandleCommand e fuel s c)
  | 0, s, _ => FPe.same rfl rfl rfl
  | fuel + 1, s, c => by
    unfold eHandleCommand
    generalize c.flatten = l
    induction l generalizing s with
    | nil => exact FPe.refl e s
    | cons a l ih =>
      rw [List.foldl_cons]
      exact (fpe_eExecAtom _ e (fpe_eHandleCommand e fuel) s a).trans (ih _)

theorem fpe_eFocusWidget (e : EOracle) (fuel : Nat) (s : St) (w : Id) : FPe e s (eFocusWidget e fuel s w).1 := by
  cases fuel with
  | zero => exact FPe.same rfl rfl rfl
  | succ f => exact fpe_eFocusWidgetWith _ e (fpe_eHandleCommand e f) s w

theorem routable_mouse (c r : Int) : Routable (.mouse c r) := ⟨by simp, by simp⟩

theorem fpe_eOffer (e : EOracle) (fuel : Nat) (s : St) (w : Id) (ev : Ev) (ph : Phase) (hev : Routable ev) :
    FPe e s (eOffer e fuel s w ev ph).1 := by
  have hc := FPe.call e s w ev ph hev
  unfold eOffer
  simp only []
  split
  · exact hc
  · have h := hc.trans (fpe_eHandleCommand e fuel _ (Model.Vxfw.call e.o s w ev ph).2)
    split
    · exact h.trans (FPe.same rfl rfl rfl)
    · exact h

theorem fpe_eCapture (e : EOracle) (fuel : Nat) (ev : Ev) (hev : Routable ev) :
    ∀ (ws : List Id) (s : St), FPe e s (eCapturePhase e fuel ev ws s).1
  | [], s => FPe.refl e s
  | w :: ws, s => by
    unfold eCapturePhase
    split
    · simp only []
      split
      · exact (fpe_eOffer e fuel s w ev .capture hev).trans (fpe_eCapture e fuel ev hev ws _)
      · exact fpe_eOffer e fuel s w ev .capture hev
    · exact fpe_eCapture e fuel ev hev ws s

theorem fpe_eBubble (e : EOracle) (fuel : Nat) (ev : Ev) (hev : Routable ev) :
    ∀ (ws : List Id) (s : St), FPe e s (eBubblePhase e fuel ev ws s).1
  | [], s => FPe.refl e s
  | w :: ws, s => by
    unfold eBubblePhase
    simp only []
    split
    · exact (fpe_eOffer e fuel s w ev .bubble hev).trans (fpe_eBubble e fuel ev hev ws _)
    · exact fpe_eOffer e fuel s w ev .bubble hev

theorem fpe_eDispatch (e : EOracle) (fuel : Nat) (chain : List Id) (tgt : St → Id) (ev : Ev) (hev : Routable ev) (s : St) :
    FPe e s (eDispatch e fuel chain tgt ev s).1 := by
  have h0 : FPe e s { s with consume := false } := FPe.same rfl rfl rfl
  have hc := h0.trans (fpe_eCapture e fuel ev hev chain { s with consume := false })
  unfold eDispatch
  simp only []
  split
  · exact hc
  · have ht := hc.trans (fpe_eOffer e fuel _ (tgt (eCapturePhase e fuel ev chain { s with consume := false }).1) ev .target hev)
    split
    · exact ht
    · exact ht.trans (fpe_eBubble e fuel ev hev _ _)

theorem fpe_eNotify (e : EOracle) (fuel : Nat) (s : St) (w : Id) (ev : Ev) (hev : Routable ev) :
    FPe e s (eNotify e fuel s w ev).1 := by
  unfold eNotify
  simp only []
  split
  · exact FPe.call e s w ev .target hev
  · exact (FPe.call e s w ev .target hev).trans (fpe_eHandleCommand e fuel _ _)

theorem fpe_eNotifyLoop (e : EOracle) (fuel : Nat) (ev : Ev) (hev : Routable ev) (skip : Hit → Bool) :
    ∀ (l : List Hit) (s : St), FPe e s (eNotifyLoop e fuel ev skip l s).1
  | [], s => FPe.refl e s
  | h :: r, s => by
    unfold eNotifyLoop
    split
    · exact fpe_eNotifyLoop e fuel ev hev skip r s
    · simp only []
      split
      · exact fpe_eNotify e fuel s h.w ev hev
      · exact (fpe_eNotify e fuel s h.w ev hev).trans (fpe_eNotifyLoop e fuel ev hev skip r _)

theorem routable_enter' : Routable .mouseEnter := ⟨by simp, by simp⟩
theorem routable_leave' : Routable .mouseLeave := ⟨by simp, by simp⟩

theorem fpe_eMouseUpdate (e : EOracle) (fuel : Nat) (s : St) (t : STree) : FPe e s (eMouseUpdate e fuel s t).1 := by
  unfold eMouseUpdate
  cases hm : s.mouse with
  | none => exact FPe.refl e s
  | some p =>
    obtain ⟨c, r⟩ := p
    simp only []
    have h1 := fpe_eNotifyLoop e fuel .mouseLeave routable_leave' (fun h => (hitsAt t c r).contains h) s.lastHits s
    split
    · exact h1
    · have h2 := h1.trans (fpe_eNotifyLoop e fuel .mouseEnter routable_enter' (fun h => s.lastHits.contains h) (hitsAt t c r) _)
      split
      · exact h2
      · exact h2.trans (FPe.same rfl rfl rfl)

theorem fpe_eMouseExit (e : EOracle) (fuel : Nat) (s : St) : FPe e s (eMouseExit e fuel s).1 := by
  unfold eMouseExit
  simp only []
  have h1 := fpe_eNotifyLoop e fuel .mouseLeave routable_leave' (fun _ => false) s.lastHits s
  split
  · exact h1
  · exact h1.trans (FPe.same rfl rfl rfl)

theorem fpe_eMouseEnter (e : EOracle) (fuel : Nat) (s : St) (w : Id) : FPe e s (eMouseEnter e fuel s w).1 := by
  unfold eMouseEnter
  split
  · exact FPe.refl e s
  · have h0 : FPe e s { s with lastHits := s.lastHits ++ [⟨0, 0, w⟩] } := FPe.same rfl rfl rfl
    exact h0.trans (fpe_eNotify e fuel _ w .mouseEnter routable_enter')

theorem fpe_eMouseHandleEvent (e : EOracle) (fuel : Nat) (s : St) (c r : Int) : FPe e s (eMouseHandleEvent e fuel s c r).1 := by
  have h0 : FPe e s { s with mouse := some (c, r) } := FPe.same rfl rfl rfl
  have h1 := h0.trans (fpe_eMouseUpdate e fuel { s with mouse := some (c, r) } s.lastFrame)
  unfold eMouseHandleEvent
  simp only []
  split
  · exact h1
  · split
    · exact h1
    · exact h1.trans (fpe_eDispatch e fuel _ _ (.mouse c r) (routable_mouse c r) _)

theorem fpe_eUpdatePath (e : EOracle) (fuel : Nat) (s : St) (t : STree) : FPe e s (eUpdatePath e fuel s t) := by
  have h0 : FPe e s (findPath { s with fhFrame := some t }).1 := FPe.same (by simp [findPath]) rfl rfl
  unfold eUpdatePath
  simp only []
  split
  · exact h0
  · exact h0.trans (fpe_eFocusWidget e fuel _ s.root)

theorem fpe_eRunEvent (e : EOracle) (fuel : Nat) (s : St) (ev : RunEv) : FPe e s (eRunEvent e fuel s ev).1 := by
  cases ev with
  | resize => exact FPe.same rfl rfl rfl
  | redraw => exact FPe.same rfl rfl rfl
  | mouse c r => exact fpe_eMouseHandleEvent e fuel s c r
  | focusIn => exact fpe_eMouseEnter e fuel s s.root
  | focusOut =>
    have h0 : FPe e s { s with mouse := none } := FPe.same rfl rfl rfl
    exact h0.trans (fpe_eMouseExit e fuel _)
  | key k => exact fpe_eDispatch e fuel s.path (fun s => s.focused) (.key k) ⟨by simp, by simp⟩ s
  | other k => exact fpe_eDispatch e fuel s.path (fun s => s.focused) (.custom k) ⟨by simp, by simp⟩ s

theorem fpe_eRunFrame (e : EOracle) (fuel : Nat) (s : St) (t1 t2 : STree) : FPe e s (eRunFrame e fuel s t1 t2).1 := by
  unfold eRunFrame
  split
  · exact FPe.refl e s
  · have ha : FPe e s { s with redraw := false, trace := s.trace ++ [.draw] } := FPe.draw rfl rfl rfl
    have hu := ha.trans (fpe_eMouseUpdate e fuel { s with redraw := false, trace := s.trace ++ [.draw] } t1)
    simp only []
    split
    · exact hu
    · generalize (eMouseUpdate e fuel { s with redraw := false, trace := s.trace ++ [.draw] } t1).1 = s1 at hu
      by_cases hr : s1.redraw = true
      · simp only [hr, if_true]
        have hb : FPe e s1 { s1 with redraw := false, trace := s1.trace ++ [.draw], refresh := false, debug := false } :=
          FPe.draw rfl rfl rfl
        have hd := (hu.trans hb).trans (fpe_eUpdatePath e fuel
          { s1 with redraw := false, trace := s1.trace ++ [.draw], refresh := false, debug := false } (sortTree t2))
        exact hd.trans (FPe.same rfl rfl rfl)
      · have hrf : s1.redraw = false := by simpa using hr
        simp only [hrf]
        have hb : FPe e s1 { s1 with refresh := false, debug := false } := FPe.same rfl rfl rfl
        have hd := (hu.trans hb).trans (fpe_eUpdatePath e fuel { s1 with refresh := false, debug := false } (sortTree t1))
        exact hd.trans (FPe.same rfl rfl rfl)

theorem fpe_eRunInit (e : EOracle) (fuel : Nat) (root : Id) (t : STree) : FPe e (St.init root) (eRunInit e fuel root t).1 := by
  have h := fpe_eDispatch e fuel (St.init root).path (fun s => s.focused) .init ⟨by simp, by simp⟩ (St.init root)
  unfold eRunInit eHandleEvent
  simp only []
  split
  · exact h
  · exact h.trans (FPe.draw rfl rfl rfl)

theorem fpe_eRunSteps (e : EOracle) (fuel : Nat) : ∀ (steps : List Step) (s : St), FPe e s (eRunSteps e fuel s steps).1
  | [], s => FPe.refl e s
  | .ev ev :: rest, s => by
    have hd : eRunSteps e fuel s (.ev ev :: rest) = (if (eRunEvent e fuel s ev).2 = true then eRunEvent e fuel s ev else
        if (eRunEvent e fuel s ev).1.quit = true then eRunEvent e fuel s ev else eRunSteps e fuel (eRunEvent e fuel s ev).1 rest) := rfl
    rw [hd]
    split
    · exact fpe_eRunEvent e fuel s ev
    · split
      · exact fpe_eRunEvent e fuel s ev
      · exact (fpe_eRunEvent e fuel s ev).trans (fpe_eRunSteps e fuel rest _)
  | .frame t1 t2 :: rest, s => by
    have hd : eRunSteps e fuel s (.frame t1 t2 :: rest) = (if (eRunFrame e fuel s t1 t2).2 = true then eRunFrame e fuel s t1 t2 else
        eRunSteps e fuel (eRunFrame e fuel s t1 t2).1 rest) := rfl
    rw [hd]
    split
    · exact fpe_eRunFrame e fuel s t1 t2
    · exact (fpe_eRunFrame e fuel s t1 t2).trans (fpe_eRunSteps e fuel rest _)

/-- Over every history, with any failing calls: the focus notifications — the failed FocusOut calls dropped — pair up from the root
    widget and end with the widget focused now. -/
theorem focusPairs_eRun (e : EOracle) (fuel : Nat) (root : Id) (t0 : STree) (steps : List Step) :
    focusRun root false (dropFailedOut e 0 (eRun e fuel root t0 steps).1.trace) = some (eRun e fuel root t0 steps).1.focused := by
  have h : FPe e (St.init root) (eRun e fuel root t0 steps).1 := by
    unfold eRun
    simp only []
    split
    · exact fpe_eRunInit e fuel root t0
    · exact (fpe_eRunInit e fuel root t0).trans (fpe_eRunSteps e fuel steps _)
  obtain ⟨t, ht, _, hp⟩ := h
  have ht' : (eRun e fuel root t0 steps).1.trace = t := by simpa [St.init] using ht
  rw [ht']
  simpa [St.init] using hp

end VaxisModel.Lemmas.Vxfw
