import VaxisModel.Lemmas.Vxfw

/-! Helper lemmas for C15 (hover notifications). -/
namespace VaxisModel.Lemmas.Vxfw
open VaxisModel.Model.Vxfw VaxisModel.Spec.Routing

/-- Entries that are not hover notifications. -/
def HQuiet (t : List Entry) : Prop :=
  ∀ e ∈ t, isRouted .mouseEnter e = false ∧ isRouted .mouseLeave e = false

/-- `s'` extends `s` by entries that are not hover notifications and keeps the mouse handler. -/
structure HQ (s s' : St) : Prop where
  ex : ∃ t, s'.trace = s.trace ++ t ∧ HQuiet t
  lastHits : s'.lastHits = s.lastHits
  mouse : s'.mouse = s.mouse
  lastFrame : s'.lastFrame = s.lastFrame
  pinv : PathInv s → PathInv s'

theorem HQ.refl (s : St) : HQ s s := ⟨⟨[], by simp, by intro e he; cases he⟩, rfl, rfl, rfl, id⟩

theorem HQ.trans {a b c : St} (h1 : HQ a b) (h2 : HQ b c) : HQ a c := by
  obtain ⟨⟨t1, e1, q1⟩, l1, m1, f1, i1⟩ := h1
  obtain ⟨⟨t2, e2, q2⟩, l2, m2, f2, i2⟩ := h2
  refine ⟨⟨t1 ++ t2, by rw [e2, e1, List.append_assoc], ?_⟩, l2.trans l1, m2.trans m1, f2.trans f1,
    fun h => i2 (i1 h)⟩
  intro e he
  rcases List.mem_append.mp he with h | h
  · exact q1 e h
  · exact q2 e h

theorem HQ.of_ext {s s' : St} (h1 : Ext .mouseEnter s s') (h2 : Ext .mouseLeave s s') : HQ s s' := by
  obtain ⟨⟨t1, e1, q1, _, _⟩, _, _, lf, lh, m, pi⟩ := h1
  obtain ⟨⟨t2, e2, q2, _, _⟩, _, _, _, _, _, _⟩ := h2
  have : t1 = t2 := List.append_cancel_left (e1.symm.trans e2)
  subst this
  exact ⟨⟨t1, e1, fun e he => ⟨q1 e he, q2 e he⟩⟩, lh, m, lf, pi⟩

theorem routable_enter : Routable .mouseEnter := ⟨by simp, by simp⟩
theorem routable_leave : Routable .mouseLeave := ⟨by simp, by simp⟩

theorem hq_handleCommand (o : Oracle) (fuel : Nat) (s : St) (c : Cmd) : HQ s (handleCommand o fuel s c) :=
  HQ.of_ext (ext_handleCommand routable_enter o fuel s c) (ext_handleCommand routable_leave o fuel s c)

theorem hq_focusWidget (o : Oracle) (fuel : Nat) (s : St) (w : Id) : HQ s (focusWidget o fuel s w) :=
  HQ.of_ext (focusWidget_ext routable_enter o fuel s w) (focusWidget_ext routable_leave o fuel s w)

theorem hq_call (o : Oracle) (s : St) (w : Id) (e : Ev) (ph : Phase) (h1 : e ≠ .mouseEnter) (h2 : e ≠ .mouseLeave) :
    HQ s (Model.Vxfw.call o s w e ph).1 :=
  HQ.of_ext (Ext.call o s w e ph h1) (Ext.call o s w e ph h2)

theorem hq_offer (o : Oracle) (fuel : Nat) (s : St) (w : Id) (e : Ev) (ph : Phase)
    (h1 : e ≠ .mouseEnter) (h2 : e ≠ .mouseLeave) : HQ s (offer o fuel s w e ph).1 := by
  have h := (hq_call o s w e ph h1 h2).trans (hq_handleCommand o fuel _ (Model.Vxfw.call o s w e ph).2)
  simp only [offer]
  split
  · exact ⟨h.ex, h.lastHits, h.mouse, h.lastFrame, fun hp => PathInv.congr rfl rfl rfl rfl (h.pinv hp)⟩
  · exact h

theorem hq_capture (o : Oracle) (fuel : Nat) (e : Ev) (h1 : e ≠ .mouseEnter) (h2 : e ≠ .mouseLeave)
    (ws : List Id) (s : St) : HQ s (capturePhase o fuel e ws s).1 := by
  induction ws generalizing s with
  | nil => exact HQ.refl s
  | cons w ws ih =>
    simp only [capturePhase]
    split
    · split
      · exact hq_offer o fuel s w e .capture h1 h2
      · exact (hq_offer o fuel s w e .capture h1 h2).trans (ih _)
    · exact ih s

theorem hq_bubble (o : Oracle) (fuel : Nat) (e : Ev) (h1 : e ≠ .mouseEnter) (h2 : e ≠ .mouseLeave)
    (ws : List Id) (s : St) : HQ s (bubblePhase o fuel e ws s) := by
  induction ws generalizing s with
  | nil => exact HQ.refl s
  | cons w ws ih =>
    simp only [bubblePhase]
    split
    · exact hq_offer o fuel s w e .bubble h1 h2
    · exact (hq_offer o fuel s w e .bubble h1 h2).trans (ih _)

theorem hq_dispatch (o : Oracle) (fuel : Nat) (chain : List Id) (tgt : St → Id) (e : Ev)
    (h1 : e ≠ .mouseEnter) (h2 : e ≠ .mouseLeave) (s : St) : HQ s (dispatch o fuel chain tgt e s) := by
  have h0 : HQ s { s with consume := false } :=
    ⟨⟨[], by simp, by intro e he; cases he⟩, rfl, rfl, rfl, PathInv.congr rfl rfl rfl rfl⟩
  have hc := h0.trans (hq_capture o fuel e h1 h2 chain { s with consume := false })
  simp only [dispatch]
  split
  · exact hc
  · have ht := hc.trans (hq_offer o fuel _ (tgt (capturePhase o fuel e chain { s with consume := false }).1) e .target h1 h2)
    split
    · exact ht
    · exact ht.trans (hq_bubble o fuel e h1 h2 _ _)

theorem hq_updatePath (o : Oracle) (fuel : Nat) (s : St) (t : STree) : HQ s (updatePath o fuel s t) := by
  have h0 : HQ s (findPath { s with fhFrame := some t }).1 :=
    ⟨⟨[], by simp [findPath], by intro e he; cases he⟩, rfl, rfl, rfl, fun _ => pathInv_findPath _⟩
  simp only [updatePath]
  split
  · exact h0
  · exact h0.trans (hq_focusWidget o fuel _ s.root)

/-! ### hoverRun -/

theorem hoverRun_append (hs hs' : List Id) (a b : List Entry) (h : hoverRun hs a = some hs') :
    hoverRun hs (a ++ b) = hoverRun hs' b := by
  induction a generalizing hs with
  | nil => simp [hoverRun] at h; subst h; rfl
  | cons e a ih =>
    cases e with
    | draw => simpa [hoverRun] using ih hs (by simpa [hoverRun] using h)
    | eff x => simpa [hoverRun] using ih hs (by simpa [hoverRun] using h)
    | call w ev ph =>
      cases ev with
      | mouseEnter =>
        simp only [hoverRun, List.cons_append] at h ⊢
        split at h
        · cases h
        · rename_i hc; rw [if_neg hc]; exact ih _ h
      | mouseLeave =>
        simp only [hoverRun, List.cons_append] at h ⊢
        split at h
        · rename_i hc; rw [if_pos hc]; exact ih _ h
        · cases h
      | key k => simpa [hoverRun] using ih hs (by simpa [hoverRun] using h)
      | custom k => simpa [hoverRun] using ih hs (by simpa [hoverRun] using h)
      | init => simpa [hoverRun] using ih hs (by simpa [hoverRun] using h)
      | mouse c r => simpa [hoverRun] using ih hs (by simpa [hoverRun] using h)
      | focusIn => simpa [hoverRun] using ih hs (by simpa [hoverRun] using h)
      | focusOut => simpa [hoverRun] using ih hs (by simpa [hoverRun] using h)

theorem hoverRun_quiet (hs : List Id) (t : List Entry) (q : HQuiet t) : hoverRun hs t = some hs := by
  induction t with
  | nil => rfl
  | cons e t ih =>
    have ih' := ih (fun e he => q e (by simp [he]))
    have qe := q e (by simp)
    cases e with
    | draw => simpa [hoverRun] using ih'
    | eff x => simpa [hoverRun] using ih'
    | call w ev ph =>
      cases ev with
      | mouseEnter => simp [isRouted] at qe
      | mouseLeave => simp [isRouted] at qe
      | key k => simpa [hoverRun] using ih'
      | custom k => simpa [hoverRun] using ih'
      | init => simpa [hoverRun] using ih'
      | mouse c r => simpa [hoverRun] using ih'
      | focusIn => simpa [hoverRun] using ih'
      | focusOut => simpa [hoverRun] using ih'

/-- The hover invariant: the widgets whose last hover notification is MouseEnter are exactly the
widgets of the hit list, and the history so far alternates. -/
def HovInv (s : St) : Prop :=
  ∃ hs, hoverRun [] s.trace = some hs ∧ hs.Nodup ∧ (s.lastHits.map Hit.w).Nodup ∧
    ∀ w, w ∈ hs ↔ w ∈ s.lastHits.map Hit.w

theorem HovInv.of_hq {s s' : St} (h : HQ s s') (hi : HovInv s) : HovInv s' := by
  obtain ⟨hs, hr, nd, ndl, hm⟩ := hi
  obtain ⟨⟨t, et, qt⟩, lh, _, _, _⟩ := h
  refine ⟨hs, ?_, nd, by rw [lh]; exact ndl, by rw [lh]; exact hm⟩
  rw [et, hoverRun_append _ _ _ _ hr]
  exact hoverRun_quiet hs t qt

theorem notify_hover (o : Oracle) (fuel : Nat) (s : St) (w : Id) (ev : Ev) :
    ∃ t, (notify o fuel s w ev).trace = s.trace ++ (.call w ev .target :: t) ∧ HQuiet t ∧
      (notify o fuel s w ev).lastHits = s.lastHits ∧ (notify o fuel s w ev).mouse = s.mouse := by
  obtain ⟨⟨t, et, qt⟩, lh, m, _, _⟩ := hq_handleCommand o fuel (Model.Vxfw.call o s w ev .target).1
    (Model.Vxfw.call o s w ev .target).2
  refine ⟨t, ?_, qt, lh, m⟩
  simp only [notify]
  rw [et]
  simp [Model.Vxfw.call]

theorem inj_of_nodup_map {l : List Hit} (nd : (l.map Hit.w).Nodup) {a b : Hit} (ha : a ∈ l) (hb : b ∈ l)
    (hw : a.w = b.w) : a = b := by
  induction l with
  | nil => cases ha
  | cons x r ih =>
    simp only [List.map_cons, List.nodup_cons, List.mem_map, not_exists, not_and] at nd
    rcases List.mem_cons.mp ha with rfl | ha'
    · rcases List.mem_cons.mp hb with rfl | hb'
      · rfl
      · exact absurd hw.symm (nd.1 b hb')
    · rcases List.mem_cons.mp hb with rfl | hb'
      · exact absurd hw (nd.1 a ha')
      · exact ih nd.2 ha' hb'

theorem leave_fold (o : Oracle) (fuel : Nat) (keep : Hit → Bool) :
    ∀ (l : List Hit) (s : St) (hs : List Id),
      hoverRun [] s.trace = some hs → hs.Nodup → (l.map Hit.w).Nodup →
      (∀ h ∈ l, keep h = false → h.w ∈ hs) →
      ∃ hs', hoverRun [] (l.foldl (fun s h1 => if keep h1 then s else notify o fuel s h1.w .mouseLeave) s).trace = some hs' ∧
        hs'.Nodup ∧
        (∀ w, w ∈ hs' ↔ (w ∈ hs ∧ w ∉ (l.filter (fun h => !keep h)).map Hit.w)) ∧
        (l.foldl (fun s h1 => if keep h1 then s else notify o fuel s h1.w .mouseLeave) s).lastHits = s.lastHits ∧
        (l.foldl (fun s h1 => if keep h1 then s else notify o fuel s h1.w .mouseLeave) s).mouse = s.mouse := by
  intro l
  induction l with
  | nil => intro s hs hr nd _ _; exact ⟨hs, hr, nd, by simp, rfl, rfl⟩
  | cons h r ih =>
    intro s hs hr nd ndl hin
    simp only [List.map_cons, List.nodup_cons] at ndl
    by_cases hk : keep h = true
    · simp only [List.foldl_cons, hk, if_true]
      obtain ⟨hs', a, b, c, d, e⟩ := ih s hs hr nd ndl.2 (fun h' hh' => hin h' (by simp [hh']))
      refine ⟨hs', a, b, ?_, d, e⟩
      intro w
      rw [c w]
      simp [hk]
    · have hkf : keep h = false := by simpa using hk
      simp only [List.foldl_cons, hkf]
      obtain ⟨t, et, qt, lh, mm⟩ := notify_hover o fuel s h.w .mouseLeave
      have hmem : h.w ∈ hs := hin h (by simp) hkf
      have hr1 : hoverRun [] (notify o fuel s h.w .mouseLeave).trace = some (hs.erase h.w) := by
        rw [et, hoverRun_append _ _ _ _ hr]
        simp only [hoverRun, List.contains_iff_mem, hmem, if_true]
        exact hoverRun_quiet _ t qt
      obtain ⟨hs', a, b, c, d, e⟩ := ih (notify o fuel s h.w .mouseLeave) (hs.erase h.w) hr1 (nd.erase _) ndl.2
        (fun h' hh' hk' => by
          have hne : h'.w ≠ h.w := fun heq => ndl.1 (heq ▸ List.mem_map_of_mem hh')
          exact (List.mem_erase_of_ne hne).mpr (hin h' (by simp [hh']) hk'))
      refine ⟨hs', by simpa using a, b, ?_, by simpa using d.trans lh, by simpa using e.trans mm⟩
      intro w
      rw [c w, nd.mem_erase_iff]
      simp only [List.filter_cons, hkf, Bool.not_false, if_true, List.map_cons, List.mem_cons, not_or]
      constructor
      · rintro ⟨⟨h1, h2⟩, h3⟩; exact ⟨h2, h1, h3⟩
      · rintro ⟨h2, h1, h3⟩; exact ⟨⟨h1, h2⟩, h3⟩

theorem enter_fold (o : Oracle) (fuel : Nat) (skip : Hit → Bool) :
    ∀ (l : List Hit) (s : St) (hs : List Id),
      hoverRun [] s.trace = some hs → hs.Nodup → (l.map Hit.w).Nodup →
      (∀ h ∈ l, skip h = false → h.w ∉ hs) →
      ∃ hs', hoverRun [] (l.foldl (fun s h1 => if skip h1 then s else notify o fuel s h1.w .mouseEnter) s).trace = some hs' ∧
        hs'.Nodup ∧
        (∀ w, w ∈ hs' ↔ (w ∈ hs ∨ w ∈ (l.filter (fun h => !skip h)).map Hit.w)) ∧
        (l.foldl (fun s h1 => if skip h1 then s else notify o fuel s h1.w .mouseEnter) s).lastHits = s.lastHits ∧
        (l.foldl (fun s h1 => if skip h1 then s else notify o fuel s h1.w .mouseEnter) s).mouse = s.mouse := by
  intro l
  induction l with
  | nil => intro s hs hr nd _ _; exact ⟨hs, hr, nd, by simp, rfl, rfl⟩
  | cons h r ih =>
    intro s hs hr nd ndl hin
    simp only [List.map_cons, List.nodup_cons] at ndl
    by_cases hk : skip h = true
    · simp only [List.foldl_cons, hk, if_true]
      obtain ⟨hs', a, b, c, d, e⟩ := ih s hs hr nd ndl.2 (fun h' hh' => hin h' (by simp [hh']))
      refine ⟨hs', a, b, ?_, d, e⟩
      intro w
      rw [c w]
      simp [hk]
    · have hkf : skip h = false := by simpa using hk
      simp only [List.foldl_cons, hkf]
      obtain ⟨t, et, qt, lh, mm⟩ := notify_hover o fuel s h.w .mouseEnter
      have hnm : h.w ∉ hs := hin h (by simp) hkf
      have hr1 : hoverRun [] (notify o fuel s h.w .mouseEnter).trace = some (h.w :: hs) := by
        rw [et, hoverRun_append _ _ _ _ hr]
        simp only [hoverRun, List.contains_iff_mem, hnm, if_false]
        exact hoverRun_quiet _ t qt
      obtain ⟨hs', a, b, c, d, e⟩ := ih (notify o fuel s h.w .mouseEnter) (h.w :: hs) hr1
        (List.nodup_cons.mpr ⟨hnm, nd⟩) ndl.2
        (fun h' hh' hk' => by
          have hne : h'.w ≠ h.w := fun heq => ndl.1 (heq ▸ List.mem_map_of_mem hh')
          intro hmem
          rcases List.mem_cons.mp hmem with h1 | h1
          · exact hne h1
          · exact hin h' (by simp [hh']) hk' h1)
      refine ⟨hs', by simpa using a, b, ?_, by simpa using d.trans lh, by simpa using e.trans mm⟩
      intro w
      rw [c w]
      simp only [List.filter_cons, hkf, Bool.not_false, if_true, List.map_cons, List.mem_cons]
      constructor
      · rintro (⟨h1 | h1⟩ | h1)
        · exact Or.inr (Or.inl h1)
        · exact Or.inl h1
        · exact Or.inr (Or.inr h1)
      · rintro (h1 | h1 | h1)
        · exact Or.inl (Or.inr h1)
        · exact Or.inl (Or.inl h1)
        · exact Or.inr h1


/-- All hit lists of a tree mention each widget at most once. -/
def HitsNodup (t : STree) : Prop := ∀ c r, ((hitsAt t c r).map Hit.w).Nodup

theorem mouseUpdate_lastHits (o : Oracle) (fuel : Nat) (s : St) (t : STree) (c r : Int)
    (hm : s.mouse = some (c, r)) : (mouseUpdate o fuel s t).lastHits = hitsAt t c r := by
  simp [mouseUpdate, hm]

theorem mouseUpdate_inv (o : Oracle) (fuel : Nat) (s : St) (t : STree) (ht : HitsNodup t) (hi : HovInv s) :
    HovInv (mouseUpdate o fuel s t) ∧ (mouseUpdate o fuel s t).mouse = s.mouse := by
  cases hm : s.mouse with
  | none => simp only [mouseUpdate, hm]; exact ⟨hi, trivial⟩
  | some p =>
    obtain ⟨c, r⟩ := p
    obtain ⟨hs, hr, nd, ndl, hmem⟩ := hi
    have ndh := ht c r
    simp only [mouseUpdate, hm]
    generalize hhits : hitsAt t c r = hits at ndh
    obtain ⟨hs1, r1, nd1, m1, l1, mo1⟩ := leave_fold o fuel (fun h => hits.contains h) s.lastHits s hs hr nd ndl
      (fun h hh _ => (hmem h.w).mpr (List.mem_map_of_mem hh))
    generalize hs1def : (s.lastHits.foldl (fun s h1 => if hits.contains h1 then s else notify o fuel s h1.w .mouseLeave) s) = s1 at *
    obtain ⟨hs2, r2, nd2, m2, l2, mo2⟩ := enter_fold o fuel (fun h => s.lastHits.contains h) hits s1 hs1 r1 nd1 ndh
      (by
        intro h hh hnot hin1
        have hnot' : h ∉ s.lastHits := by simpa using hnot
        obtain ⟨hin, hnl⟩ := (m1 h.w).mp hin1
        obtain ⟨h', hh', hw'⟩ := List.mem_map.mp ((hmem h.w).mp hin)
        have hk : h' ∈ hits := by
          by_cases hc : h' ∈ hits
          · exact hc
          · exact absurd (List.mem_map.mpr ⟨h', by simp [List.mem_filter, hh', hc], hw'⟩) hnl
        have : h' = h := inj_of_nodup_map ndh hk hh hw'
        exact hnot' (this ▸ hh'))
    refine ⟨⟨hs2, by simpa using r2, nd2, by simpa using ndh, ?_⟩, by simpa using mo2.trans (mo1.trans hm)⟩
    intro w
    simp only
    rw [m2 w, m1 w, hmem w]
    constructor
    · rintro (⟨hin, hnl⟩ | hent)
      · obtain ⟨h', hh', hw'⟩ := List.mem_map.mp hin
        have hk : h' ∈ hits := by
          by_cases hc : h' ∈ hits
          · exact hc
          · exact absurd (List.mem_map.mpr ⟨h', by simp [List.mem_filter, hh', hc], hw'⟩) hnl
        exact List.mem_map.mpr ⟨h', hk, hw'⟩
      · obtain ⟨h', hh', hw'⟩ := List.mem_map.mp hent
        exact List.mem_map.mpr ⟨h', (List.mem_filter.mp hh').1, hw'⟩
    · intro hin
      obtain ⟨h', hh', hw'⟩ := List.mem_map.mp hin
      by_cases hold : h' ∈ s.lastHits
      · left
        refine ⟨List.mem_map.mpr ⟨h', hold, hw'⟩, ?_⟩
        intro hl
        obtain ⟨h2, hh2, hw2⟩ := List.mem_map.mp hl
        have hh2' := List.mem_filter.mp hh2
        have : h2 = h' := inj_of_nodup_map ndl hh2'.1 hold (hw2.trans hw'.symm)
        subst this
        simp [hh'] at hh2'
      · right
        exact List.mem_map.mpr ⟨h', by simp [List.mem_filter, hh', hold], hw'⟩

theorem mouseExit_inv (o : Oracle) (fuel : Nat) (s : St) (hi : HovInv s) :
    hoverRun [] (mouseExit o fuel s).trace = some [] ∧ (mouseExit o fuel s).lastHits = [] := by
  obtain ⟨hs, hr, nd, ndl, hmem⟩ := hi
  obtain ⟨hs1, r1, _, m1, _, _⟩ := leave_fold o fuel (fun _ => false) s.lastHits s hs hr nd ndl
    (fun h hh _ => (hmem h.w).mpr (List.mem_map_of_mem hh))
  simp only [Bool.false_eq_true, if_false] at r1
  have hnil : hs1 = [] := by
    apply List.eq_nil_iff_forall_not_mem.mpr
    intro w hw
    obtain ⟨hin, hnl⟩ := (m1 w).mp hw
    apply hnl
    simpa using (hmem w).mp hin
  subst hnil
  exact ⟨by simpa [mouseExit] using r1, by simp [mouseExit]⟩

theorem HovInv.of_exit (o : Oracle) (fuel : Nat) (s : St) (hi : HovInv s) : HovInv (mouseExit o fuel s) := by
  obtain ⟨h1, h2⟩ := mouseExit_inv o fuel s hi
  exact ⟨[], h1, List.nodup_nil, by simp [h2], by simp [h2]⟩

/-! ### the Run loop -/

/-- Steps whose trees have duplicate-free hit lists (before and after render's sort); any event. -/
def StepOk : Step → Prop
  | .ev _ => True
  | .frame t1 t2 => HitsNodup t1 ∧ HitsNodup (sortTree t1) ∧ HitsNodup (sortTree t2)

/-- `lastFrame` has duplicate-free hit lists. -/
def FrameOk (s : St) : Prop := HitsNodup s.lastFrame

theorem notify_lastFrame (o : Oracle) (fuel : Nat) (s : St) (w : Id) (ev : Ev) :
    (notify o fuel s w ev).lastFrame = s.lastFrame :=
  (hq_handleCommand o fuel (Model.Vxfw.call o s w ev .target).1 (Model.Vxfw.call o s w ev .target).2).lastFrame

theorem foldl_lastFrame {α : Type} (f : St → α → St) (hf : ∀ s a, (f s a).lastFrame = s.lastFrame)
    (l : List α) (s : St) : (l.foldl f s).lastFrame = s.lastFrame := by
  induction l generalizing s with
  | nil => rfl
  | cons a r ih => rw [List.foldl_cons, ih, hf]

theorem mouseUpdate_lastFrame (o : Oracle) (fuel : Nat) (s : St) (t : STree) :
    (mouseUpdate o fuel s t).lastFrame = s.lastFrame := by
  simp only [mouseUpdate]
  split
  · rfl
  · simp only
    rw [foldl_lastFrame _ (fun s a => by split <;> simp [notify_lastFrame]),
      foldl_lastFrame _ (fun s a => by split <;> simp [notify_lastFrame])]

theorem hov_mouseHandleEvent (o : Oracle) (fuel : Nat) (s : St) (c r : Int) (hf : FrameOk s) (hi : HovInv s) :
    HovInv (mouseHandleEvent o fuel s c r) ∧ (mouseHandleEvent o fuel s c r).lastFrame = s.lastFrame := by
  have hi0 : HovInv { s with mouse := some (c, r) } := hi
  have hu := (mouseUpdate_inv o fuel { s with mouse := some (c, r) } s.lastFrame hf hi0).1
  have hlf : (mouseUpdate o fuel { s with mouse := some (c, r) } s.lastFrame).lastFrame = s.lastFrame :=
    mouseUpdate_lastFrame o fuel _ _
  simp only [mouseHandleEvent]
  generalize mouseUpdate o fuel { s with mouse := some (c, r) } s.lastFrame = s1 at hu hlf
  cases s1.lastHits.getLast? with
  | none => exact ⟨hu, hlf⟩
  | some tg =>
    have h := hq_dispatch o fuel (s1.lastHits.map (·.w)) (fun _ => tg.w) (.mouse c r) (by simp) (by simp) s1
    exact ⟨HovInv.of_hq h hu, h.lastFrame.trans hlf⟩

theorem any_w_iff (l : List Hit) (w : Id) : (l.any (fun h => h.w == w)) = true ↔ w ∈ l.map Hit.w := by
  simp only [List.any_eq_true, List.mem_map, beq_iff_eq]

/-- `mouseHandler.mouseEnter` keeps the hover invariant: the widget is notified only if it is not
entered, and is recorded in the hit list. -/
theorem HovInv.of_enter (o : Oracle) (fuel : Nat) (s : St) (w : Id) (hi : HovInv s) :
    HovInv (mouseEnter o fuel s w) := by
  simp only [mouseEnter]
  split
  · exact hi
  · rename_i hnot
    have hnm : w ∉ s.lastHits.map Hit.w := fun h => hnot ((any_w_iff _ _).mpr h)
    obtain ⟨hs, hr, nd, ndl, hmem⟩ := hi
    have hnh : w ∉ hs := fun h => hnm ((hmem w).mp h)
    obtain ⟨t, et, qt, lh, _⟩ := notify_hover o fuel { s with lastHits := s.lastHits ++ [⟨0, 0, w⟩] } w .mouseEnter
    refine ⟨w :: hs, ?_, List.nodup_cons.mpr ⟨hnh, nd⟩, ?_, ?_⟩
    · rw [et]
      show hoverRun [] (s.trace ++ _) = _
      rw [hoverRun_append _ _ _ _ hr]
      simp only [hoverRun, List.contains_iff_mem, hnh, if_false]
      exact hoverRun_quiet _ t qt
    · rw [lh]
      simp only [List.map_append, List.map_cons, List.map_nil]
      exact List.nodup_append.mpr ⟨ndl, by simp, by
        intro a ha b hb
        simp only [List.mem_singleton] at hb
        subst hb
        exact fun h => hnm (h ▸ ha)⟩
    · intro x
      rw [lh]
      simp only [List.map_append, List.map_cons, List.map_nil, List.mem_append, List.mem_cons,
        List.not_mem_nil, or_false]
      rw [hmem x]
      exact or_comm

theorem mouseEnter_lastFrame (o : Oracle) (fuel : Nat) (s : St) (w : Id) :
    (mouseEnter o fuel s w).lastFrame = s.lastFrame := by
  simp only [mouseEnter]
  split
  · rfl
  · exact notify_lastFrame o fuel _ w .mouseEnter

theorem hov_runEvent (o : Oracle) (fuel : Nat) (s : St) (e : RunEv)
    (hf : FrameOk s) (hi : HovInv s) :
    HovInv (runEvent o fuel s e) ∧ FrameOk (runEvent o fuel s e) := by
  cases e with
  | resize => exact ⟨hi, hf⟩
  | redraw => exact ⟨hi, hf⟩
  | focusIn =>
    exact ⟨HovInv.of_enter o fuel s s.root hi, by simpa [FrameOk, runEvent, mouseEnter_lastFrame] using hf⟩
  | mouse c r =>
    obtain ⟨h1, h2⟩ := hov_mouseHandleEvent o fuel s c r hf hi
    exact ⟨h1, by simpa [FrameOk, runEvent, h2] using hf⟩
  | focusOut =>
    have hi0 : HovInv { s with mouse := none } := hi
    refine ⟨HovInv.of_exit o fuel _ hi0, ?_⟩
    simp only [FrameOk, runEvent, mouseExit]
    rw [foldl_lastFrame (fun s (h : Hit) => notify o fuel s h.w .mouseLeave)
      (fun s a => notify_lastFrame o fuel s a.w .mouseLeave)]
    exact hf
  | key k =>
    have h := hq_dispatch o fuel s.path (fun s => s.focused) (.key k) (by simp) (by simp) s
    exact ⟨HovInv.of_hq h hi, by simpa [FrameOk, runEvent, handleEvent, h.lastFrame] using hf⟩
  | other k =>
    have h := hq_dispatch o fuel s.path (fun s => s.focused) (.custom k) (by simp) (by simp) s
    exact ⟨HovInv.of_hq h hi, by simpa [FrameOk, runEvent, handleEvent, h.lastFrame] using hf⟩

theorem hq_draw (s : St) (f : St → St) (hf : ∀ s, (f s).trace = s.trace ++ [.draw] ∧ (f s).lastHits = s.lastHits ∧
    (f s).mouse = s.mouse ∧ (f s).lastFrame = s.lastFrame)
    (hp : ∀ s, PathInv s → PathInv (f s)) : HQ s (f s) :=
  ⟨⟨[.draw], (hf s).1, by intro e he; simp at he; subst he; simp [isRouted]⟩, (hf s).2.1, (hf s).2.2.1, (hf s).2.2.2, hp s⟩

theorem hov_runFrame (o : Oracle) (fuel : Nat) (s : St) (t1 t2 : STree) (hok : StepOk (.frame t1 t2))
    (hf : FrameOk s) (hi : HovInv s) :
    HovInv (runFrame o fuel s t1 t2) ∧ FrameOk (runFrame o fuel s t1 t2) := by
  obtain ⟨ok1, ok1s, ok2s⟩ := hok
  simp only [runFrame]
  split
  · exact ⟨hi, hf⟩
  · have ha : HQ s { s with redraw := false, trace := s.trace ++ [.draw] } :=
      hq_draw s (fun s => { s with redraw := false, trace := s.trace ++ [.draw] }) (fun s => ⟨rfl, rfl, rfl, rfl⟩) (fun s => PathInv.congr rfl rfl rfl rfl)
    have hia := HovInv.of_hq ha hi
    have hu := (mouseUpdate_inv o fuel _ t1 ok1 hia).1
    generalize mouseUpdate o fuel { s with redraw := false, trace := s.trace ++ [.draw] } t1 = s1 at hu
    by_cases hr : s1.redraw = true
    · simp only [hr, if_true]
      have hb : HQ s1 { s1 with redraw := false, trace := s1.trace ++ [.draw] } :=
        hq_draw s1 (fun s => { s with redraw := false, trace := s.trace ++ [.draw] }) (fun s => ⟨rfl, rfl, rfl, rfl⟩) (fun s => PathInv.congr rfl rfl rfl rfl)
      have hc : HQ { s1 with redraw := false, trace := s1.trace ++ [.draw] }
          { s1 with redraw := false, trace := s1.trace ++ [.draw], refresh := false, debug := false } :=
        ⟨⟨[], by simp, by intro e he; cases he⟩, rfl, rfl, rfl, PathInv.congr rfl rfl rfl rfl⟩
      have hd := hq_updatePath o fuel
        { s1 with redraw := false, trace := s1.trace ++ [.draw], refresh := false, debug := false } (sortTree t2)
      have hall := (hb.trans hc).trans hd
      refine ⟨?_, ok2s⟩
      have := HovInv.of_hq hall hu
      exact this
    · have hrf : s1.redraw = false := by simpa using hr
      simp only [hrf]
      have hc : HQ s1 { s1 with refresh := false, debug := false } :=
        ⟨⟨[], by simp, by intro e he; cases he⟩, rfl, rfl, rfl, PathInv.congr rfl rfl rfl rfl⟩
      have hd := hq_updatePath o fuel { s1 with refresh := false, debug := false } (sortTree t1)
      have hall := hc.trans hd
      refine ⟨?_, ok1s⟩
      have := HovInv.of_hq hall hu
      exact this

theorem hov_runInit (o : Oracle) (fuel : Nat) (root : Id) (t0 : STree) (h0 : HitsNodup t0) :
    HovInv (runInit o fuel root t0) ∧ FrameOk (runInit o fuel root t0) := by
  have hi : HovInv (St.init root) := ⟨[], rfl, List.nodup_nil, by simp [St.init], by simp [St.init]⟩
  have h := hq_dispatch o fuel (St.init root).path (fun s => s.focused) .init (by simp) (by simp) (St.init root)
  have hi1 := HovInv.of_hq h hi
  simp only [runInit, handleEvent]
  generalize dispatch o fuel (St.init root).path (fun s => s.focused) .init (St.init root) = s1 at hi1
  have hb : HQ s1 { s1 with trace := s1.trace ++ [.draw] } :=
    hq_draw s1 (fun s => { s with trace := s.trace ++ [.draw] }) (fun s => ⟨rfl, rfl, rfl, rfl⟩) (fun s => PathInv.congr rfl rfl rfl rfl)
  have hx := HovInv.of_hq hb hi1
  exact ⟨hx, h0⟩

theorem runSteps_ev (o : Oracle) (fuel : Nat) (s : St) (e : RunEv) (rest : List Step) :
    runSteps o fuel s (.ev e :: rest) =
      if (runEvent o fuel s e).quit = true then runEvent o fuel s e else runSteps o fuel (runEvent o fuel s e) rest := rfl

theorem runSteps_frame (o : Oracle) (fuel : Nat) (s : St) (t1 t2 : STree) (rest : List Step) :
    runSteps o fuel s (.frame t1 t2 :: rest) = runSteps o fuel (runFrame o fuel s t1 t2) rest := rfl

theorem hov_runSteps (o : Oracle) (fuel : Nat) (steps : List Step) (hs : ∀ st ∈ steps, StepOk st)
    (s : St) (hf : FrameOk s) (hi : HovInv s) :
    HovInv (runSteps o fuel s steps) ∧ FrameOk (runSteps o fuel s steps) := by
  induction steps generalizing s with
  | nil => exact ⟨hi, hf⟩
  | cons st rest ih =>
    have hst := hs st (by simp)
    have hrest : ∀ st ∈ rest, StepOk st := fun x hx => hs x (by simp [hx])
    cases st with
    | ev e =>
      obtain ⟨h1, h2⟩ := hov_runEvent o fuel s e hf hi
      rw [runSteps_ev]
      by_cases hq : (runEvent o fuel s e).quit = true
      · rw [if_pos hq]; exact ⟨h1, h2⟩
      · rw [if_neg hq]; exact ih hrest _ h2 h1
    | frame t1 t2 =>
      obtain ⟨h1, h2⟩ := hov_runFrame o fuel s t1 t2 hst hf hi
      rw [runSteps_frame]
      exact ih hrest _ h2 h1


/-! ### the path invariant over the Run loop -/

theorem pinv_notify (o : Oracle) (fuel : Nat) (s : St) (w : Id) (ev : Ev) (h1 : ev ≠ .init)
    (hp : PathInv s) : PathInv (notify o fuel s w ev) := by
  have h := (Ext.call o (ev := .init) s w ev .target h1).trans
    (ext_handleCommand ⟨by simp, by simp⟩ o fuel _ (Model.Vxfw.call o s w ev .target).2)
  exact h.pinv hp

theorem foldl_pinv {α : Type} (f : St → α → St) (hf : ∀ s a, PathInv s → PathInv (f s a))
    (l : List α) (s : St) (hp : PathInv s) : PathInv (l.foldl f s) := by
  induction l generalizing s with
  | nil => exact hp
  | cons a r ih => exact ih _ (hf s a hp)

theorem pinv_mouseUpdate (o : Oracle) (fuel : Nat) (s : St) (t : STree) (hp : PathInv s) :
    PathInv (mouseUpdate o fuel s t) := by
  simp only [mouseUpdate]
  split
  · exact hp
  · refine PathInv.congr rfl rfl rfl rfl (foldl_pinv _ (fun s a h => ?_) _ _ (foldl_pinv _ (fun s a h => ?_) _ _ hp))
    · split
      · exact h
      · exact pinv_notify o fuel s a.w .mouseEnter (by simp) h
    · split
      · exact h
      · exact pinv_notify o fuel s a.w .mouseLeave (by simp) h

theorem pinv_mouseExit (o : Oracle) (fuel : Nat) (s : St) (hp : PathInv s) : PathInv (mouseExit o fuel s) := by
  simp only [mouseExit]
  exact PathInv.congr rfl rfl rfl rfl
    (foldl_pinv _ (fun s a h => pinv_notify o fuel s a.w .mouseLeave (by simp) h) _ _ hp)

theorem pinv_mouseEnter (o : Oracle) (fuel : Nat) (s : St) (w : Id) (hp : PathInv s) :
    PathInv (mouseEnter o fuel s w) := by
  simp only [mouseEnter]
  split
  · exact hp
  · exact pinv_notify o fuel _ w .mouseEnter (by simp) (PathInv.congr rfl rfl rfl rfl hp)

theorem pinv_mouseHandleEvent (o : Oracle) (fuel : Nat) (s : St) (c r : Int) (hp : PathInv s) :
    PathInv (mouseHandleEvent o fuel s c r) := by
  have h1 : PathInv (mouseUpdate o fuel { s with mouse := some (c, r) } s.lastFrame) :=
    pinv_mouseUpdate o fuel _ _ (PathInv.congr rfl rfl rfl rfl hp)
  simp only [mouseHandleEvent]
  generalize mouseUpdate o fuel { s with mouse := some (c, r) } s.lastFrame = s1 at h1
  cases s1.lastHits.getLast? with
  | none => exact h1
  | some tg => exact (hq_dispatch o fuel _ _ (.mouse c r) (by simp) (by simp) s1).pinv h1

theorem pinv_runEvent (o : Oracle) (fuel : Nat) (s : St) (e : RunEv) (hp : PathInv s) :
    PathInv (runEvent o fuel s e) := by
  cases e with
  | resize => exact PathInv.congr rfl rfl rfl rfl hp
  | redraw => exact PathInv.congr rfl rfl rfl rfl hp
  | focusIn => exact pinv_mouseEnter o fuel s s.root hp
  | mouse c r => exact pinv_mouseHandleEvent o fuel s c r hp
  | focusOut => exact pinv_mouseExit o fuel _ (PathInv.congr rfl rfl rfl rfl hp)
  | key k => exact (hq_dispatch o fuel s.path (fun s => s.focused) (.key k) (by simp) (by simp) s).pinv hp
  | other k => exact (hq_dispatch o fuel s.path (fun s => s.focused) (.custom k) (by simp) (by simp) s).pinv hp

theorem pinv_updatePath_frame (o : Oracle) (fuel : Nat) (s : St) (t t' : STree) :
    PathInv { updatePath o fuel s t with lastFrame := t' } :=
  PathInv.congr (s := updatePath o fuel s t) rfl rfl rfl rfl (pathInv_updatePath o fuel s t).1

theorem pinv_runFrame (o : Oracle) (fuel : Nat) (s : St) (t1 t2 : STree) (hp : PathInv s) :
    PathInv (runFrame o fuel s t1 t2) := by
  simp only [runFrame]
  split
  · exact hp
  · exact pinv_updatePath_frame o fuel _ _ _

theorem updatePath_root (o : Oracle) (fuel : Nat) (s : St) (t : STree) : (updatePath o fuel s t).root = s.root := by
  simp only [updatePath]
  split
  · rfl
  · exact (focusWidget_ext (ev := .init) ⟨by simp, by simp⟩ o fuel _ s.root).root

theorem pinv_runInit (o : Oracle) (fuel : Nat) (root : Id) (t : STree) : PathInv (runInit o fuel root t) := by
  have h0 : PathInv (St.init root) := rfl
  have h := (hq_dispatch o fuel (St.init root).path (fun s => s.focused) .init (by simp) (by simp) (St.init root)).pinv h0
  exact PathInv.congr rfl rfl rfl rfl h

theorem pinv_runSteps (o : Oracle) (fuel : Nat) (steps : List Step) (s : St) (hp : PathInv s) :
    PathInv (runSteps o fuel s steps) := by
  induction steps generalizing s with
  | nil => exact hp
  | cons st rest ih =>
    cases st with
    | ev e =>
      rw [runSteps_ev]
      split
      · exact pinv_runEvent o fuel s e hp
      · exact ih _ (pinv_runEvent o fuel s e hp)
    | frame t1 t2 =>
      rw [runSteps_frame]
      exact ih _ (pinv_runFrame o fuel s t1 t2 hp)

/-! ### trees that draw each widget at most once -/

mutual
/-- Widgets of a surface tree in pre-order. -/
def ids : STree → List Id
  | .node i _ _ ch => i :: idsL ch
def idsL : List Kid → List Id
  | [] => []
  | (_, _, _, t) :: r => ids t ++ idsL r
end

theorem idsL_cons (x : Kid) (l : List Kid) : idsL (x :: l) = ids x.2.2.2 ++ idsL l := by
  obtain ⟨c, r, z, t⟩ := x
  simp [idsL]

mutual
theorem hitTest_sublist : (t : STree) → (c r : Int) → ((hitTest t c r).map Hit.w).Sublist (ids t)
  | .node i w h ch, c, r => by
    simp only [hitTest, ids, List.map_cons]
    exact (hitKids_sublist ch c r).cons_cons i
theorem hitKids_sublist : (l : List Kid) → (c r : Int) → ((hitKids l c r).map Hit.w).Sublist (idsL l)
  | [], _, _ => by simp [hitKids, idsL]
  | (oc, or_, z, t) :: rest, c, r => by
    simp only [hitKids, idsL, List.map_append]
    apply List.Sublist.append _ (hitKids_sublist rest c r)
    split
    · exact hitTest_sublist t _ _
    · simp
end

theorem hitsNodup_of_ids (t : STree) (h : (ids t).Nodup) : HitsNodup t := by
  intro c r
  simp only [hitsAt]
  split
  · exact (hitTest_sublist t _ _).nodup h
  · simp

theorem idsL_insertKid (x : Kid) : (l : List Kid) → (idsL (insertKid x l)).Perm (ids x.2.2.2 ++ idsL l)
  | [] => by simp [insertKid, idsL_cons, idsL]
  | y :: ys => by
    simp only [insertKid]
    split
    · rw [idsL_cons]
    · rw [idsL_cons, idsL_cons]
      exact ((idsL_insertKid x ys).append_left _).trans (List.perm_append_comm_assoc _ _ _)

theorem idsL_foldl_insert (l acc : List Kid) :
    (idsL (l.foldl (fun acc x => insertKid x acc) acc)).Perm (idsL acc ++ idsL l) := by
  induction l generalizing acc with
  | nil => simp [idsL]
  | cons x r ih =>
    rw [List.foldl_cons, idsL_cons]
    refine (ih _).trans ?_
    refine ((idsL_insertKid x acc).append_right _).trans ?_
    rw [List.append_assoc]
    exact (List.perm_append_comm_assoc _ _ _)

theorem idsL_sortKids (l : List Kid) : (idsL (sortKids l)).Perm (idsL l) := by
  have := idsL_foldl_insert l []
  simpa [sortKids, idsL] using this

mutual
theorem ids_sortTree : (t : STree) → (ids (sortTree t)).Perm (ids t)
  | .node i w h ch => by
    simp only [sortTree, ids]
    exact ((idsL_sortKids _).trans (idsL_sortTreeL ch)).cons i
theorem idsL_sortTreeL : (l : List Kid) → (idsL (sortTreeL l)).Perm (idsL l)
  | [] => by simp [sortTreeL]
  | (c, r, z, t) :: rest => by
    simp only [sortTreeL, idsL]
    exact (ids_sortTree t).append (idsL_sortTreeL rest)
end

theorem hitsNodup_sortTree (t : STree) (h : (ids t).Nodup) : HitsNodup (sortTree t) :=
  hitsNodup_of_ids _ ((ids_sortTree t).symm.nodup h)

/-- A history whose trees draw every widget at most once. -/
def StepDistinct : Step → Prop
  | .ev _ => True
  | .frame t1 t2 => (ids t1).Nodup ∧ (ids t2).Nodup

theorem StepOk.of_distinct {st : Step} (h : StepDistinct st) : StepOk st := by
  cases st with
  | ev e => trivial
  | frame t1 t2 =>
    exact ⟨hitsNodup_of_ids t1 h.1, hitsNodup_sortTree t1 h.1, hitsNodup_sortTree t2 h.2⟩

/-! ### render's child sort -/

theorem mem_insertKid (x a : Kid) : (l : List Kid) → (a ∈ insertKid x l ↔ a = x ∨ a ∈ l)
  | [] => by simp [insertKid]
  | y :: ys => by
    simp only [insertKid]
    split
    · simp
    · simp only [List.mem_cons, mem_insertKid x a ys]
      constructor
      · rintro (h | h | h)
        · exact Or.inr (Or.inl h)
        · exact Or.inl h
        · exact Or.inr (Or.inr h)
      · rintro (h | h | h)
        · exact Or.inr (Or.inl h)
        · exact Or.inl h
        · exact Or.inr (Or.inr h)

theorem insertKid_sorted (x : Kid) : (l : List Kid) → l.Pairwise (fun a b => a.2.2.1 ≤ b.2.2.1) →
    (insertKid x l).Pairwise (fun a b => a.2.2.1 ≤ b.2.2.1)
  | [], _ => by simp [insertKid]
  | y :: ys, h => by
    have hy := List.pairwise_cons.mp h
    simp only [insertKid]
    split
    · rename_i hlt
      refine List.pairwise_cons.mpr ⟨?_, h⟩
      intro a ha
      rcases List.mem_cons.mp ha with rfl | ha'
      · exact Int.le_of_lt hlt
      · exact Int.le_trans (Int.le_of_lt hlt) (hy.1 a ha')
    · rename_i hge
      refine List.pairwise_cons.mpr ⟨?_, insertKid_sorted x ys hy.2⟩
      intro a ha
      rcases (mem_insertKid x a ys).mp ha with rfl | ha'
      · exact Int.not_lt.mp hge
      · exact hy.1 a ha'

theorem sortKids_sorted (l : List Kid) : (sortKids l).Pairwise (fun a b => a.2.2.1 ≤ b.2.2.1) := by
  suffices H : ∀ (l acc : List Kid), acc.Pairwise (fun a b => a.2.2.1 ≤ b.2.2.1) →
      (l.foldl (fun acc x => insertKid x acc) acc).Pairwise (fun a b => a.2.2.1 ≤ b.2.2.1) from
    H l [] List.Pairwise.nil
  intro l
  induction l with
  | nil => intro acc h; exact h
  | cons x r ih => intro acc h; exact ih _ (insertKid_sorted x acc h)

end VaxisModel.Lemmas.Vxfw
