import VaxisModel.Lemmas.VxfwHover
import VaxisModel.Lemmas.VxfwErr

/-! C15: hover notifications under handlers that fail (error-aware functions of `Model/VxfwErr.lean`). -/
set_option linter.unusedSimpArgs false
set_option linter.unusedVariables false

namespace VaxisModel.Lemmas.Vxfw
open VaxisModel.Model.Vxfw VaxisModel.Spec.Routing

/-- `s'` extends `s` by entries that are not hover notifications and keeps the mouse handler. -/
structure EQ (s s' : St) : Prop where
  ex : ∃ t, s'.trace = s.trace ++ t ∧ HQuiet t
  lastHits : s'.lastHits = s.lastHits
  mouse : s'.mouse = s.mouse
  lastFrame : s'.lastFrame = s.lastFrame

theorem EQ.refl (s : St) : EQ s s := ⟨⟨[], by simp, by intro e he; cases he⟩, rfl, rfl, rfl⟩

theorem EQ.trans {a b c : St} (h1 : EQ a b) (h2 : EQ b c) : EQ a c := by
  obtain ⟨⟨t1, e1, q1⟩, l1, m1, f1⟩ := h1
  obtain ⟨⟨t2, e2, q2⟩, l2, m2, f2⟩ := h2
  refine ⟨⟨t1 ++ t2, by rw [e2, e1, List.append_assoc], ?_⟩, l2.trans l1, m2.trans m1, f2.trans f1⟩
  intro e he
  rcases List.mem_append.mp he with h | h
  · exact q1 e h
  · exact q2 e h

/-- One more trace entry that is not a hover notification, other fields arbitrary but the mouse handler's. -/
theorem EQ.step (s s' : St) (x : Entry) (ht : s'.trace = s.trace ++ [x])
    (hx : isRouted .mouseEnter x = false ∧ isRouted .mouseLeave x = false)
    (h1 : s'.lastHits = s.lastHits) (h2 : s'.mouse = s.mouse) (h3 : s'.lastFrame = s.lastFrame) : EQ s s' :=
  ⟨⟨[x], ht, by intro e he; simp only [List.mem_singleton] at he; subst he; exact hx⟩, h1, h2, h3⟩

theorem eq_call (o : Oracle) (s : St) (w : Id) (ev : Ev) (ph : Phase) (h1 : ev ≠ .mouseEnter) (h2 : ev ≠ .mouseLeave) :
    EQ s (Model.Vxfw.call o s w ev ph).1 :=
  EQ.step _ _ (.call w ev ph) rfl ⟨by simpa [isRouted] using h1, by simpa [isRouted] using h2⟩ rfl rfl rfl

theorem eq_execAtom_nonfocus (hc : St → Cmd → St) (o : Oracle) (s : St) (a : Atom) (h : ∀ w, a ≠ .focus w) :
    EQ s (execAtom hc o s a) := by
  cases a <;> first
    | exact EQ.step _ _ _ rfl ⟨rfl, rfl⟩ rfl rfl rfl
    | exact absurd rfl (h _)

theorem eq_findPath (s : St) : EQ s (findPath s).1 := ⟨⟨[], by simp [findPath], by intro e he; cases he⟩, rfl, rfl, rfl⟩

theorem eq_eFocusWidgetWith (hc : St → Cmd → St) (hhc : ∀ s c, EQ s (hc s c)) (e : EOracle) (s : St) (w : Id) :
    EQ s (eFocusWidgetWith hc e s w).1 := by
  unfold eFocusWidgetWith
  split
  · exact EQ.refl s
  · have h1 : EQ s (Model.Vxfw.call e.o s s.focused .focusOut .target).1 := eq_call e.o s s.focused .focusOut .target (by simp) (by simp)
    simp only []
    split
    · exact h1
    · have h2 : EQ (Model.Vxfw.call e.o s s.focused .focusOut .target).1 { (Model.Vxfw.call e.o s s.focused .focusOut .target).1 with focused := w, trace := (Model.Vxfw.call e.o s s.focused .focusOut .target).1.trace ++ [.eff (.focusSet w)] } :=
        EQ.step _ _ (.eff (.focusSet w)) rfl ⟨rfl, rfl⟩ rfl rfl rfl
      have h3 := (h1.trans h2).trans (eq_findPath _)
      have h4 := h3.trans (eq_call e.o _ w .focusIn .target (by simp) (by simp))
      have h5 := h4.trans (hhc _ (Model.Vxfw.call e.o s s.focused .focusOut .target).2)
      split
      · exact h5
      · exact h5.trans (hhc _ _)

theorem eq_eExecAtom (hc : St → Cmd → St) (hhc : ∀ s c, EQ s (hc s c)) (e : EOracle) (s : St) (a : Atom) :
    EQ s (eExecAtom hc e s a) := by
  cases a with
  | focus w => exact eq_eFocusWidgetWith hc hhc e s w
  | redraw => exact eq_execAtom_nonfocus hc e.o s .redraw (fun w h => nomatch h)
  | refresh => exact eq_execAtom_nonfocus hc e.o s .refresh (fun w h => nomatch h)
  | quit => exact eq_execAtom_nonfocus hc e.o s .quit (fun w h => nomatch h)
  | consume => exact eq_execAtom_nonfocus hc e.o s .consume (fun w h => nomatch h)
  | debug => exact eq_execAtom_nonfocus hc e.o s .debug (fun w h => nomatch h)
  | other k => exact eq_execAtom_nonfocus hc e.o s (.other k) (fun w h => nomatch h)

theorem eq_eHandleCommand (e : EOracle) : ∀ (fuel : Nat) (s : St) (c : Cmd), EQ s (eHandleCommand e fuel s c)
  | 0, s, _ => ⟨⟨[], by simp [eHandleCommand], by intro e he; cases he⟩, rfl, rfl, rfl⟩
  | fuel + 1, s, c => by
    unfold eHandleCommand
    generalize c.flatten = l
    induction l generalizing s with
    | nil => exact EQ.refl s
    | cons a l ih =>
      rw [List.foldl_cons]
      exact (eq_eExecAtom _ (eq_eHandleCommand e fuel) e s a).trans (ih _)

theorem eq_eFocusWidget (e : EOracle) (fuel : Nat) (s : St) (w : Id) : EQ s (eFocusWidget e fuel s w).1 := by
  cases fuel with
  | zero => exact ⟨⟨[], by simp [eFocusWidget], by intro e he; cases he⟩, rfl, rfl, rfl⟩
  | succ f => exact eq_eFocusWidgetWith _ (eq_eHandleCommand e f) e s w

/-! ### one notification, the two loops -/

theorem eNotify_hover (e : EOracle) (fuel : Nat) (s : St) (w : Id) (ev : Ev) :
    ∃ t, (eNotify e fuel s w ev).1.trace = s.trace ++ (.call w ev .target :: t) ∧ HQuiet t ∧
      (eNotify e fuel s w ev).1.lastHits = s.lastHits ∧ (eNotify e fuel s w ev).1.mouse = s.mouse ∧
      (eNotify e fuel s w ev).1.lastFrame = s.lastFrame := by
  unfold eNotify
  simp only []
  split
  · exact ⟨[], by simp [Model.Vxfw.call], (fun x hx => nomatch hx), rfl, rfl, rfl⟩
  · obtain ⟨⟨t, et, qt⟩, lh, m, lf⟩ := eq_eHandleCommand e fuel (Model.Vxfw.call e.o s w ev .target).1 (Model.Vxfw.call e.o s w ev .target).2
    refine ⟨t, ?_, qt, lh, m, lf⟩
    simp only []
    rw [et]
    simp [Model.Vxfw.call]

theorem leave_loop_e (e : EOracle) (fuel : Nat) (keep : Hit → Bool) :
    ∀ (l : List Hit) (s : St) (hs : List Id),
      hoverRun [] s.trace = some hs → hs.Nodup → (l.map Hit.w).Nodup →
      (∀ h ∈ l, keep h = false → h.w ∈ hs) →
      ∃ hs', hoverRun [] (eNotifyLoop e fuel .mouseLeave keep l s).1.trace = some hs' ∧
        hs'.Nodup ∧
        ((eNotifyLoop e fuel .mouseLeave keep l s).2 = false →
          ∀ w, w ∈ hs' ↔ (w ∈ hs ∧ w ∉ (l.filter (fun h => !keep h)).map Hit.w)) ∧
        (eNotifyLoop e fuel .mouseLeave keep l s).1.lastHits = s.lastHits ∧
        (eNotifyLoop e fuel .mouseLeave keep l s).1.mouse = s.mouse ∧
        (eNotifyLoop e fuel .mouseLeave keep l s).1.lastFrame = s.lastFrame := by
  intro l
  induction l with
  | nil => intro s hs hr nd _ _; exact ⟨hs, hr, nd, by intro _; simp, rfl, rfl, rfl⟩
  | cons h r ih =>
    intro s hs hr nd ndl hin
    simp only [List.map_cons, List.nodup_cons] at ndl
    by_cases hk : keep h = true
    · simp only [eNotifyLoop, hk, if_true]
      obtain ⟨hs', a, b, c, d, e', f⟩ := ih s hs hr nd ndl.2 (fun h' hh' => hin h' (by simp [hh']))
      refine ⟨hs', a, b, ?_, d, e', f⟩
      intro hne w
      rw [c hne w]
      simp [hk]
    · have hkf : keep h = false := by simpa using hk
      simp only [eNotifyLoop, hkf, Bool.false_eq_true, if_false]
      obtain ⟨t, et, qt, lh, mm, lff⟩ := eNotify_hover e fuel s h.w .mouseLeave
      have hmem : h.w ∈ hs := hin h (by simp) hkf
      have hr1 : hoverRun [] (eNotify e fuel s h.w .mouseLeave).1.trace = some (hs.erase h.w) := by
        rw [et, hoverRun_append _ _ _ _ hr]
        simp only [hoverRun, List.contains_iff_mem, hmem, if_true]
        exact hoverRun_quiet _ t qt
      by_cases hx : (eNotify e fuel s h.w .mouseLeave).2 = true
      · simp only [hx, if_true]
        exact ⟨hs.erase h.w, hr1, nd.erase _, by intro hf; simp at hf, lh, mm, lff⟩
      · have hxf : (eNotify e fuel s h.w .mouseLeave).2 = false := by simpa using hx
        simp only [hxf, Bool.false_eq_true, if_false]
        obtain ⟨hs', a, b, c, d, e', f⟩ := ih (eNotify e fuel s h.w .mouseLeave).1 (hs.erase h.w) hr1 (nd.erase _) ndl.2
          (fun h' hh' hk' => by
            have hne : h'.w ≠ h.w := fun heq => ndl.1 (heq ▸ List.mem_map_of_mem hh')
            exact (List.mem_erase_of_ne hne).mpr (hin h' (by simp [hh']) hk'))
        refine ⟨hs', a, b, ?_, d.trans lh, e'.trans mm, f.trans lff⟩
        intro hne w
        rw [c hne w, nd.mem_erase_iff]
        simp only [List.filter_cons, hkf, Bool.not_false, if_true, List.map_cons, List.mem_cons, not_or]
        constructor
        · rintro ⟨⟨h1, h2⟩, h3⟩; exact ⟨h2, h1, h3⟩
        · rintro ⟨h2, h1, h3⟩; exact ⟨⟨h1, h2⟩, h3⟩

theorem enter_loop_e (e : EOracle) (fuel : Nat) (skip : Hit → Bool) :
    ∀ (l : List Hit) (s : St) (hs : List Id),
      hoverRun [] s.trace = some hs → hs.Nodup → (l.map Hit.w).Nodup →
      (∀ h ∈ l, skip h = false → h.w ∉ hs) →
      ∃ hs', hoverRun [] (eNotifyLoop e fuel .mouseEnter skip l s).1.trace = some hs' ∧
        hs'.Nodup ∧
        ((eNotifyLoop e fuel .mouseEnter skip l s).2 = false →
          ∀ w, w ∈ hs' ↔ (w ∈ hs ∨ w ∈ (l.filter (fun h => !skip h)).map Hit.w)) ∧
        (eNotifyLoop e fuel .mouseEnter skip l s).1.lastHits = s.lastHits ∧
        (eNotifyLoop e fuel .mouseEnter skip l s).1.mouse = s.mouse ∧
        (eNotifyLoop e fuel .mouseEnter skip l s).1.lastFrame = s.lastFrame := by
  intro l
  induction l with
  | nil => intro s hs hr nd _ _; exact ⟨hs, hr, nd, by intro _; simp, rfl, rfl, rfl⟩
  | cons h r ih =>
    intro s hs hr nd ndl hin
    simp only [List.map_cons, List.nodup_cons] at ndl
    by_cases hk : skip h = true
    · simp only [eNotifyLoop, hk, if_true]
      obtain ⟨hs', a, b, c, d, e', f⟩ := ih s hs hr nd ndl.2 (fun h' hh' => hin h' (by simp [hh']))
      refine ⟨hs', a, b, ?_, d, e', f⟩
      intro hne w
      rw [c hne w]
      simp [hk]
    · have hkf : skip h = false := by simpa using hk
      simp only [eNotifyLoop, hkf, Bool.false_eq_true, if_false]
      obtain ⟨t, et, qt, lh, mm, lff⟩ := eNotify_hover e fuel s h.w .mouseEnter
      have hnm : h.w ∉ hs := hin h (by simp) hkf
      have hr1 : hoverRun [] (eNotify e fuel s h.w .mouseEnter).1.trace = some (h.w :: hs) := by
        rw [et, hoverRun_append _ _ _ _ hr]
        simp only [hoverRun, List.contains_iff_mem, hnm, if_false]
        exact hoverRun_quiet _ t qt
      by_cases hx : (eNotify e fuel s h.w .mouseEnter).2 = true
      · simp only [hx, if_true]
        exact ⟨h.w :: hs, hr1, List.nodup_cons.mpr ⟨hnm, nd⟩, by intro hf; simp at hf, lh, mm, lff⟩
      · have hxf : (eNotify e fuel s h.w .mouseEnter).2 = false := by simpa using hx
        simp only [hxf, Bool.false_eq_true, if_false]
        obtain ⟨hs', a, b, c, d, e', f⟩ := ih (eNotify e fuel s h.w .mouseEnter).1 (h.w :: hs) hr1
          (List.nodup_cons.mpr ⟨hnm, nd⟩) ndl.2
          (fun h' hh' hk' => by
            have hne : h'.w ≠ h.w := fun heq => ndl.1 (heq ▸ List.mem_map_of_mem hh')
            intro hmem
            rcases List.mem_cons.mp hmem with h1 | h1
            · exact hne h1
            · exact hin h' (by simp [hh']) hk' h1)
        refine ⟨hs', a, b, ?_, d.trans lh, e'.trans mm, f.trans lff⟩
        intro hne w
        rw [c hne w]
        simp only [List.filter_cons, hkf, Bool.not_false, if_true, List.map_cons, List.mem_cons]
        constructor
        · rintro (⟨h1 | h1⟩ | h1)
          · exact Or.inr (Or.inl h1)
          · exact Or.inl h1
          · exact Or.inr (Or.inr h1)
        · rintro (h1 | h1 | h1)
          · exact Or.inl (Or.inr h1)
          · exact Or.inl (Or.inl h1)
          · exact Or.inr h1

/-! ### update / mouseExit / mouseEnter -/

/-- What holds of a result `(s', err)`: the hover notifications so far alternate; with no error the hover invariant holds. -/
def HovRes (s' : St) (b : Bool) : Prop := (∃ hs, hoverRun [] s'.trace = some hs) ∧ (b = false → HovInv s')

theorem HovRes.of_inv {s : St} (b : Bool) (h : HovInv s) : HovRes s b := ⟨⟨h.choose, h.choose_spec.1⟩, fun _ => h⟩

theorem HovInv.of_eq {s s' : St} (h : EQ s s') (hi : HovInv s) : HovInv s' := by
  obtain ⟨hs, hr, nd, ndl, hm⟩ := hi
  obtain ⟨⟨t, et, qt⟩, lh, _, _⟩ := h
  refine ⟨hs, ?_, nd, by rw [lh]; exact ndl, by rw [lh]; exact hm⟩
  rw [et, hoverRun_append _ _ _ _ hr]
  exact hoverRun_quiet hs t qt

theorem eMouseUpdate_hov (e : EOracle) (fuel : Nat) (s : St) (t : STree) (ht : HitsNodup t) (hi : HovInv s) :
    HovRes (eMouseUpdate e fuel s t).1 (eMouseUpdate e fuel s t).2 ∧ (eMouseUpdate e fuel s t).1.mouse = s.mouse ∧
      (eMouseUpdate e fuel s t).1.lastFrame = s.lastFrame := by
  cases hm : s.mouse with
  | none => simp only [eMouseUpdate, hm]; exact ⟨HovRes.of_inv _ hi, trivial, trivial⟩
  | some p =>
    obtain ⟨c, r⟩ := p
    obtain ⟨hs, hr, nd, ndl, hmem⟩ := hi
    have ndh := ht c r
    simp only [eMouseUpdate, hm]
    generalize hhits : hitsAt t c r = hits at ndh
    obtain ⟨hs1, r1, nd1, m1, l1, mo1, lf1⟩ := leave_loop_e e fuel (fun h => hits.contains h) s.lastHits s hs hr nd ndl
      (fun h hh _ => (hmem h.w).mpr (List.mem_map_of_mem hh))
    by_cases hb1 : (eNotifyLoop e fuel .mouseLeave (fun h => hits.contains h) s.lastHits s).2 = true
    · simp only [hb1, if_true]
      exact ⟨⟨⟨hs1, r1⟩, by intro h; cases h⟩, mo1.trans hm, lf1⟩
    · have hb1f : (eNotifyLoop e fuel .mouseLeave (fun h => hits.contains h) s.lastHits s).2 = false := by simpa using hb1
      simp only [hb1f, Bool.false_eq_true, if_false]
      have m1' := m1 hb1f
      obtain ⟨hs2, r2, nd2, m2, l2, mo2, lf2⟩ := enter_loop_e e fuel (fun h => s.lastHits.contains h) hits _ hs1 r1 nd1 ndh
        (by
          intro h hh hnot hin1
          have hnot' : h ∉ s.lastHits := by simpa using hnot
          obtain ⟨hin, hnl⟩ := (m1' h.w).mp hin1
          obtain ⟨h', hh', hw'⟩ := List.mem_map.mp ((hmem h.w).mp hin)
          have hk : h' ∈ hits := by
            by_cases hc : h' ∈ hits
            · exact hc
            · exact absurd (List.mem_map.mpr ⟨h', by simp [List.mem_filter, hh', hc], hw'⟩) hnl
          have : h' = h := inj_of_nodup_map ndh hk hh hw'
          exact hnot' (this ▸ hh'))
      by_cases hb2 : (eNotifyLoop e fuel .mouseEnter (fun h => s.lastHits.contains h) hits
          (eNotifyLoop e fuel .mouseLeave (fun h => hits.contains h) s.lastHits s).1).2 = true
      · simp only [hb2, if_true]
        exact ⟨⟨⟨hs2, r2⟩, by intro h; cases h⟩, (mo2.trans mo1).trans hm, lf2.trans lf1⟩
      · have hb2f : (eNotifyLoop e fuel .mouseEnter (fun h => s.lastHits.contains h) hits
            (eNotifyLoop e fuel .mouseLeave (fun h => hits.contains h) s.lastHits s).1).2 = false := by simpa using hb2
        simp only [hb2f, Bool.false_eq_true, if_false]
        have m2' := m2 hb2f
        refine ⟨⟨⟨hs2, by simpa using r2⟩, fun _ => ⟨hs2, by simpa using r2, nd2, by simpa using ndh, ?_⟩⟩,
          by simpa using (mo2.trans mo1).trans hm, by simpa using lf2.trans lf1⟩
        intro w
        simp only
        rw [m2' w, m1' w, hmem w]
        constructor
        · rintro (⟨hin, hnl⟩ | hent)
          · obtain ⟨h', hh', hw'⟩ := List.mem_map.mp hin
            have hk : h' ∈ hits := by
              by_cases hc : h' ∈ hits
              · exact hc
              · exact absurd (List.mem_map.mpr ⟨h', by simp [List.mem_filter, hh', hc], hw'⟩) hnl
            exact List.mem_map.mpr ⟨h', hk, hw'⟩
          · obtain ⟨h', hh', hw'⟩ := List.mem_map.mp hent
            exact List.mem_map.mpr ⟨h', (List.mem_filter.mp hh').1, hw'⟩
        · intro hin
          obtain ⟨h', hh', hw'⟩ := List.mem_map.mp hin
          by_cases hold : h' ∈ s.lastHits
          · left
            refine ⟨List.mem_map.mpr ⟨h', hold, hw'⟩, ?_⟩
            intro hl
            obtain ⟨h2, hh2, hw2⟩ := List.mem_map.mp hl
            have hh2' := List.mem_filter.mp hh2
            have : h2 = h' := inj_of_nodup_map ndl hh2'.1 hold (hw2.trans hw'.symm)
            subst this
            simp [hh'] at hh2'
          · right
            exact List.mem_map.mpr ⟨h', by simp [List.mem_filter, hh', hold], hw'⟩

theorem eMouseExit_hov (e : EOracle) (fuel : Nat) (s : St) (hi : HovInv s) :
    HovRes (eMouseExit e fuel s).1 (eMouseExit e fuel s).2 ∧ (eMouseExit e fuel s).1.lastFrame = s.lastFrame := by
  obtain ⟨hs, hr, nd, ndl, hmem⟩ := hi
  obtain ⟨hs1, r1, nd1, m1, l1, mo1, lf1⟩ := leave_loop_e e fuel (fun _ => false) s.lastHits s hs hr nd ndl
    (fun h hh _ => (hmem h.w).mpr (List.mem_map_of_mem hh))
  unfold eMouseExit
  simp only []
  by_cases hb : (eNotifyLoop e fuel .mouseLeave (fun _ => false) s.lastHits s).2 = true
  · simp only [hb, if_true]
    exact ⟨⟨⟨hs1, r1⟩, by intro h; cases h⟩, lf1⟩
  · have hbf : (eNotifyLoop e fuel .mouseLeave (fun _ => false) s.lastHits s).2 = false := by simpa using hb
    simp only [hbf, Bool.false_eq_true, if_false]
    have m1' := m1 hbf
    have hnil : hs1 = [] := by
      apply List.eq_nil_iff_forall_not_mem.mpr
      intro w hw
      obtain ⟨hin, hnl⟩ := (m1' w).mp hw
      apply hnl
      simpa using (hmem w).mp hin
    subst hnil
    exact ⟨⟨⟨[], by simpa using r1⟩, fun _ => ⟨[], by simpa using r1, List.nodup_nil, by simp, by simp⟩⟩, by simpa using lf1⟩

theorem eMouseEnter_hov (e : EOracle) (fuel : Nat) (s : St) (w : Id) (hi : HovInv s) :
    HovRes (eMouseEnter e fuel s w).1 (eMouseEnter e fuel s w).2 ∧ (eMouseEnter e fuel s w).1.lastFrame = s.lastFrame := by
  simp only [eMouseEnter]
  split
  · exact ⟨HovRes.of_inv _ hi, rfl⟩
  · rename_i hnot
    have hnm : w ∉ s.lastHits.map Hit.w := fun h => hnot ((any_w_iff _ _).mpr h)
    obtain ⟨hs, hr, nd, ndl, hmem⟩ := hi
    have hnh : w ∉ hs := fun h => hnm ((hmem w).mp h)
    obtain ⟨t, et, qt, lh, _, lf⟩ := eNotify_hover e fuel { s with lastHits := s.lastHits ++ [⟨0, 0, w⟩] } w .mouseEnter
    have hrun : hoverRun [] (eNotify e fuel { s with lastHits := s.lastHits ++ [⟨0, 0, w⟩] } w .mouseEnter).1.trace = some (w :: hs) := by
      rw [et]
      show hoverRun [] (s.trace ++ _) = _
      rw [hoverRun_append _ _ _ _ hr]
      simp only [hoverRun, List.contains_iff_mem, hnh, if_false]
      exact hoverRun_quiet _ t qt
    refine ⟨⟨⟨w :: hs, hrun⟩, fun _ => ⟨w :: hs, hrun, List.nodup_cons.mpr ⟨hnh, nd⟩, ?_, ?_⟩⟩, lf⟩
    · rw [lh]
      simp only [List.map_append, List.map_cons, List.map_nil]
      exact List.nodup_append.mpr ⟨ndl, by simp, by
        intro a ha b hb
        simp only [List.mem_singleton] at hb
        subst hb
        exact fun h => hnm (h ▸ ha)⟩
    · intro x
      rw [lh]
      simp only [List.map_append, List.map_cons, List.map_nil, List.mem_append, List.mem_cons,
        List.not_mem_nil, or_false]
      rw [hmem x]
      exact or_comm

/-! ### the dispatch, `updatePath` -/

/-- Same observable fields, other fields changed. -/
theorem EQ.congr {s a b : St} (h : EQ s a) (ht : b.trace = a.trace) (hl : b.lastHits = a.lastHits) (hm : b.mouse = a.mouse)
    (hf : b.lastFrame = a.lastFrame) : EQ s b :=
  ⟨by rw [ht]; exact h.ex, hl.trans h.lastHits, hm.trans h.mouse, hf.trans h.lastFrame⟩

theorem eq_eOffer (e : EOracle) (fuel : Nat) (s : St) (w : Id) (ev : Ev) (ph : Phase)
    (h1 : ev ≠ .mouseEnter) (h2 : ev ≠ .mouseLeave) : EQ s (eOffer e fuel s w ev ph).1 := by
  have hc := eq_call e.o s w ev ph h1 h2
  unfold eOffer
  simp only []
  split
  · exact hc
  · have h := hc.trans (eq_eHandleCommand e fuel _ (Model.Vxfw.call e.o s w ev ph).2)
    split
    · exact h.congr rfl rfl rfl rfl
    · exact h

theorem eq_eCapture (e : EOracle) (fuel : Nat) (ev : Ev) (h1 : ev ≠ .mouseEnter) (h2 : ev ≠ .mouseLeave) :
    ∀ (ws : List Id) (s : St), EQ s (eCapturePhase e fuel ev ws s).1
  | [], s => EQ.refl s
  | w :: ws, s => by
    unfold eCapturePhase
    split
    · simp only []
      split
      · exact (eq_eOffer e fuel s w ev .capture h1 h2).trans (eq_eCapture e fuel ev h1 h2 ws _)
      · exact eq_eOffer e fuel s w ev .capture h1 h2
    · exact eq_eCapture e fuel ev h1 h2 ws s

theorem eq_eBubble (e : EOracle) (fuel : Nat) (ev : Ev) (h1 : ev ≠ .mouseEnter) (h2 : ev ≠ .mouseLeave) :
    ∀ (ws : List Id) (s : St), EQ s (eBubblePhase e fuel ev ws s).1
  | [], s => EQ.refl s
  | w :: ws, s => by
    unfold eBubblePhase
    simp only []
    split
    · exact (eq_eOffer e fuel s w ev .bubble h1 h2).trans (eq_eBubble e fuel ev h1 h2 ws _)
    · exact eq_eOffer e fuel s w ev .bubble h1 h2

theorem eq_eDispatch (e : EOracle) (fuel : Nat) (chain : List Id) (tgt : St → Id) (ev : Ev)
    (h1 : ev ≠ .mouseEnter) (h2 : ev ≠ .mouseLeave) (s : St) : EQ s (eDispatch e fuel chain tgt ev s).1 := by
  have h0 : EQ s { s with consume := false } := (EQ.refl s).congr rfl rfl rfl rfl
  have hc := h0.trans (eq_eCapture e fuel ev h1 h2 chain { s with consume := false })
  unfold eDispatch
  simp only []
  split
  · exact hc
  · have ht := hc.trans (eq_eOffer e fuel _ (tgt (eCapturePhase e fuel ev chain { s with consume := false }).1) ev .target h1 h2)
    split
    · exact ht
    · exact ht.trans (eq_eBubble e fuel ev h1 h2 _ _)

theorem eq_eUpdatePath (e : EOracle) (fuel : Nat) (s : St) (t : STree) : EQ s (eUpdatePath e fuel s t) := by
  have h0 : EQ s (findPath { s with fhFrame := some t }).1 :=
    ⟨⟨[], by simp [findPath], fun x hx => nomatch hx⟩, rfl, rfl, rfl⟩
  unfold eUpdatePath
  simp only []
  split
  · exact h0
  · exact h0.trans (eq_eFocusWidget e fuel _ s.root)

/-! ### the Run loop -/

theorem hov_eMouseHandleEvent (e : EOracle) (fuel : Nat) (s : St) (c r : Int) (hf : FrameOk s) (hi : HovInv s) :
    HovRes (eMouseHandleEvent e fuel s c r).1 (eMouseHandleEvent e fuel s c r).2 ∧
      (eMouseHandleEvent e fuel s c r).1.lastFrame = s.lastFrame := by
  have hi0 : HovInv { s with mouse := some (c, r) } := hi
  obtain ⟨hu, _, hlf⟩ := eMouseUpdate_hov e fuel { s with mouse := some (c, r) } s.lastFrame hf hi0
  unfold eMouseHandleEvent
  simp only []
  split
  · exact ⟨hu, hlf⟩
  · rename_i hb
    have hbf : (eMouseUpdate e fuel { s with mouse := some (c, r) } s.lastFrame).2 = false := by simpa using hb
    have hinv := hu.2 hbf
    split
    · exact ⟨hu, hlf⟩
    · rename_i tg _
      have hd := eq_eDispatch e fuel ((eMouseUpdate e fuel { s with mouse := some (c, r) } s.lastFrame).1.lastHits.map (·.w))
        (fun _ => tg.w) (.mouse c r) (by simp) (by simp) (eMouseUpdate e fuel { s with mouse := some (c, r) } s.lastFrame).1
      exact ⟨HovRes.of_inv _ (HovInv.of_eq hd hinv), hd.lastFrame.trans hlf⟩

theorem hov_eRunEvent (e : EOracle) (fuel : Nat) (s : St) (ev : RunEv) (hf : FrameOk s) (hi : HovInv s) :
    HovRes (eRunEvent e fuel s ev).1 (eRunEvent e fuel s ev).2 ∧ FrameOk (eRunEvent e fuel s ev).1 := by
  cases ev with
  | resize => exact ⟨HovRes.of_inv _ hi, hf⟩
  | redraw => exact ⟨HovRes.of_inv _ hi, hf⟩
  | focusIn =>
    obtain ⟨h1, h2⟩ := eMouseEnter_hov e fuel s s.root hi
    exact ⟨h1, by simpa [FrameOk, eRunEvent, h2] using hf⟩
  | mouse c r =>
    obtain ⟨h1, h2⟩ := hov_eMouseHandleEvent e fuel s c r hf hi
    exact ⟨h1, by simpa [FrameOk, eRunEvent, h2] using hf⟩
  | focusOut =>
    have hi0 : HovInv { s with mouse := none } := hi
    obtain ⟨h1, h2⟩ := eMouseExit_hov e fuel { s with mouse := none } hi0
    exact ⟨h1, by simpa [FrameOk, eRunEvent, h2] using hf⟩
  | key k =>
    have h := eq_eDispatch e fuel s.path (fun s => s.focused) (.key k) (by simp) (by simp) s
    exact ⟨HovRes.of_inv _ (HovInv.of_eq h hi), by simpa [FrameOk, eRunEvent, eHandleEvent, h.lastFrame] using hf⟩
  | other k =>
    have h := eq_eDispatch e fuel s.path (fun s => s.focused) (.custom k) (by simp) (by simp) s
    exact ⟨HovRes.of_inv _ (HovInv.of_eq h hi), by simpa [FrameOk, eRunEvent, eHandleEvent, h.lastFrame] using hf⟩

theorem eq_draw (s s' : St) (ht : s'.trace = s.trace ++ [.draw]) (h1 : s'.lastHits = s.lastHits) (h2 : s'.mouse = s.mouse)
    (h3 : s'.lastFrame = s.lastFrame) : EQ s s' := EQ.step s s' .draw ht ⟨rfl, rfl⟩ h1 h2 h3

theorem hov_eRunFrame (e : EOracle) (fuel : Nat) (s : St) (t1 t2 : STree) (hok : StepOk (.frame t1 t2))
    (hf : FrameOk s) (hi : HovInv s) :
    HovRes (eRunFrame e fuel s t1 t2).1 (eRunFrame e fuel s t1 t2).2 ∧
      ((eRunFrame e fuel s t1 t2).2 = false → FrameOk (eRunFrame e fuel s t1 t2).1) := by
  obtain ⟨ok1, ok1s, ok2s⟩ := hok
  unfold eRunFrame
  split
  · exact ⟨HovRes.of_inv _ hi, fun _ => hf⟩
  · have hia : HovInv { s with redraw := false, trace := s.trace ++ [.draw] } :=
      HovInv.of_eq (eq_draw s _ rfl rfl rfl rfl) hi
    obtain ⟨hu, _, _⟩ := eMouseUpdate_hov e fuel { s with redraw := false, trace := s.trace ++ [.draw] } t1 ok1 hia
    simp only []
    split
    · rename_i hb
      exact ⟨hu, by intro h; rw [hb] at h; cases h⟩
    · rename_i hb
      have hbf : (eMouseUpdate e fuel { s with redraw := false, trace := s.trace ++ [.draw] } t1).2 = false := by simpa using hb
      have hinv := hu.2 hbf
      generalize (eMouseUpdate e fuel { s with redraw := false, trace := s.trace ++ [.draw] } t1).1 = s1 at hinv
      by_cases hr : s1.redraw = true
      · simp only [hr, if_true]
        have hb' : EQ s1 { s1 with redraw := false, trace := s1.trace ++ [.draw] } := eq_draw s1 _ rfl rfl rfl rfl
        have hc : EQ s1 { s1 with redraw := false, trace := s1.trace ++ [.draw], refresh := false, debug := false } :=
          hb'.congr rfl rfl rfl rfl
        have hd := hc.trans (eq_eUpdatePath e fuel
          { s1 with redraw := false, trace := s1.trace ++ [.draw], refresh := false, debug := false } (sortTree t2))
        have hfin := HovInv.of_eq hd hinv
        exact ⟨HovRes.of_inv _ hfin, fun _ => ok2s⟩
      · have hrf : s1.redraw = false := by simpa using hr
        simp only [hrf]
        have hc : EQ s1 { s1 with refresh := false, debug := false } := (EQ.refl s1).congr rfl rfl rfl rfl
        have hd := hc.trans (eq_eUpdatePath e fuel { s1 with refresh := false, debug := false } (sortTree t1))
        have hfin := HovInv.of_eq hd hinv
        exact ⟨HovRes.of_inv _ hfin, fun _ => ok1s⟩

theorem hov_eRunInit (e : EOracle) (fuel : Nat) (root : Id) (t0 : STree) (h0 : HitsNodup t0) :
    HovRes (eRunInit e fuel root t0).1 (eRunInit e fuel root t0).2 ∧
      ((eRunInit e fuel root t0).2 = false → FrameOk (eRunInit e fuel root t0).1) := by
  have hi : HovInv (St.init root) := ⟨[], rfl, List.nodup_nil, by simp [St.init], by simp [St.init]⟩
  have h := eq_eDispatch e fuel (St.init root).path (fun s => s.focused) .init (by simp) (by simp) (St.init root)
  have hi1 := HovInv.of_eq h hi
  unfold eRunInit eHandleEvent
  simp only []
  split
  · rename_i hb
    exact ⟨HovRes.of_inv _ hi1, by intro hx; rw [hb] at hx; cases hx⟩
  · have hb' := eq_draw (eDispatch e fuel (St.init root).path (fun s => s.focused) .init (St.init root)).1
      { (eDispatch e fuel (St.init root).path (fun s => s.focused) .init (St.init root)).1 with trace := (eDispatch e fuel (St.init root).path (fun s => s.focused) .init (St.init root)).1.trace ++ [.draw] } rfl rfl rfl rfl
    have hx := HovInv.of_eq hb' hi1
    exact ⟨HovRes.of_inv _ hx, fun _ => h0⟩

theorem hov_eRunSteps (e : EOracle) (fuel : Nat) : ∀ (steps : List Step), (∀ st ∈ steps, StepOk st) →
    ∀ (s : St), FrameOk s → HovInv s → HovRes (eRunSteps e fuel s steps).1 (eRunSteps e fuel s steps).2
  | [], _, s, _, hi => HovRes.of_inv _ hi
  | .ev ev :: rest, hs, s, hf, hi => by
    obtain ⟨h1, h2⟩ := hov_eRunEvent e fuel s ev hf hi
    have hd : eRunSteps e fuel s (.ev ev :: rest) = (if (eRunEvent e fuel s ev).2 = true then eRunEvent e fuel s ev else
        if (eRunEvent e fuel s ev).1.quit = true then eRunEvent e fuel s ev else eRunSteps e fuel (eRunEvent e fuel s ev).1 rest) := rfl
    rw [hd]
    by_cases hb : (eRunEvent e fuel s ev).2 = true
    · rw [if_pos hb]; exact h1
    · rw [if_neg hb]
      have hbf : (eRunEvent e fuel s ev).2 = false := by simpa using hb
      by_cases hq : (eRunEvent e fuel s ev).1.quit = true
      · rw [if_pos hq]; exact h1
      · rw [if_neg hq]
        exact hov_eRunSteps e fuel rest (fun x hx => hs x (by simp [hx])) _ h2 (h1.2 hbf)
  | .frame t1 t2 :: rest, hs, s, hf, hi => by
    obtain ⟨h1, h2⟩ := hov_eRunFrame e fuel s t1 t2 (hs _ (by simp)) hf hi
    have hd : eRunSteps e fuel s (.frame t1 t2 :: rest) = (if (eRunFrame e fuel s t1 t2).2 = true then eRunFrame e fuel s t1 t2 else
        eRunSteps e fuel (eRunFrame e fuel s t1 t2).1 rest) := rfl
    rw [hd]
    by_cases hb : (eRunFrame e fuel s t1 t2).2 = true
    · rw [if_pos hb]; exact h1
    · rw [if_neg hb]
      have hbf : (eRunFrame e fuel s t1 t2).2 = false := by simpa using hb
      exact hov_eRunSteps e fuel rest (fun x hx => hs x (by simp [hx])) _ (h2 hbf) (h1.2 hbf)

/-- Over every history with failing handlers: the hover notifications so far alternate; with no error returned the
    hover invariant holds. -/
theorem hov_eRun (e : EOracle) (fuel : Nat) (root : Id) (t0 : STree) (steps : List Step) (h0 : HitsNodup t0)
    (hs : ∀ st ∈ steps, StepOk st) : HovRes (eRun e fuel root t0 steps).1 (eRun e fuel root t0 steps).2 := by
  obtain ⟨h1, h2⟩ := hov_eRunInit e fuel root t0 h0
  unfold eRun
  simp only []
  split
  · exact h1
  · rename_i hb
    have hbf : (eRunInit e fuel root t0).2 = false := by simpa using hb
    exact hov_eRunSteps e fuel steps hs _ (h2 hbf) (h1.2 hbf)

end VaxisModel.Lemmas.Vxfw
