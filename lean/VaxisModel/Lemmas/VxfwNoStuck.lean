import VaxisModel.Model.Vxfw

set_option linter.unusedVariables false

/-! C15: when do the nested calls `handleCommand → focusWidget → handler → handleCommand` stay within a
    nesting budget?  If no handler answers a FocusIn / FocusOut NOTIFICATION with a command that contains
    a focus command (`NotifFF`), the nesting is at most two deep: with a budget of 2 or more the model
    never gives up (`stuck` stays false) — over every function of the Run loop and every history.
    (`Witness/F115c.lean` shows that without the condition every budget is exhausted.) -/
namespace VaxisModel.Lemmas.Vxfw
open VaxisModel.Model.Vxfw

/-- The command contains no focus command (however deeply batched). -/
def FF (c : Cmd) : Prop := ∀ a ∈ c.flatten, ∀ w, a ≠ Atom.focus w

/-- No handler answers a focus notification with a focus command. -/
def NotifFF (o : Oracle) : Prop := ∀ w ph k, FF (o.h w .focusIn ph k) ∧ FF (o.h w .focusOut ph k)

theorem execAtom_nonfocus (hc : St → Cmd → St) (o : Oracle) (s : St) (a : Atom) (h : ∀ w, a ≠ .focus w) :
    (execAtom hc o s a).stuck = s.stuck := by
  cases a <;> first | rfl | exact absurd rfl (h _)

theorem foldl_nonfocus (hc : St → Cmd → St) (o : Oracle) : ∀ (l : List Atom) (s : St), (∀ a ∈ l, ∀ w, a ≠ Atom.focus w) →
    (l.foldl (execAtom hc o) s).stuck = s.stuck
  | [], _, _ => rfl
  | a :: l, s, h => by
    rw [List.foldl_cons, foldl_nonfocus hc o l _ (fun b hb => h b (List.mem_cons_of_mem _ hb)),
      execAtom_nonfocus hc o s a (h a List.mem_cons_self)]

theorem hc_ff (o : Oracle) (fuel : Nat) (hf : 1 ≤ fuel) (s : St) (c : Cmd) (h : FF c) :
    (handleCommand o fuel s c).stuck = s.stuck := by
  obtain ⟨f, rfl⟩ : ∃ f, fuel = f + 1 := ⟨fuel - 1, by omega⟩
  exact foldl_nonfocus _ o _ s h

theorem focusWidgetWith_ns (o : Oracle) (hff : NotifFF o) (f : Nat) (hf : 1 ≤ f) (s : St) (w : Id) :
    (focusWidgetWith (handleCommand o f) o s w).stuck = s.stuck := by
  unfold focusWidgetWith
  split
  · rfl
  · simp only []
    have hin : ∀ (s' : St), FF (call o s' w .focusIn .target).2 := fun s' => (hff w .target s'.calls).1
    have hout : FF (call o s s.focused .focusOut .target).2 := (hff s.focused .target s.calls).2
    rw [hc_ff o f hf _ _ (hin _), hc_ff o f hf _ _ hout]
    rfl

theorem foldl_any (o : Oracle) (hff : NotifFF o) (f : Nat) (hf : 1 ≤ f) : ∀ (l : List Atom) (s : St),
    (l.foldl (execAtom (handleCommand o f) o) s).stuck = s.stuck
  | [], _ => rfl
  | a :: l, s => by
    rw [List.foldl_cons, foldl_any o hff f hf l]
    cases a with
    | focus w => exact focusWidgetWith_ns o hff f hf s w
    | _ => rfl

theorem hc_ns (o : Oracle) (hff : NotifFF o) (fuel : Nat) (hf : 2 ≤ fuel) (s : St) (c : Cmd) :
    (handleCommand o fuel s c).stuck = s.stuck := by
  obtain ⟨f, rfl⟩ : ∃ f, fuel = f + 1 := ⟨fuel - 1, by omega⟩
  exact foldl_any o hff f (by omega) _ s

theorem focusWidget_ns (o : Oracle) (hff : NotifFF o) (fuel : Nat) (hf : 2 ≤ fuel) (s : St) (w : Id) :
    (focusWidget o fuel s w).stuck = s.stuck := by
  obtain ⟨f, rfl⟩ : ∃ f, fuel = f + 1 := ⟨fuel - 1, by omega⟩
  exact focusWidgetWith_ns o hff f (by omega) s w

/-- `handleCommand` / `focusWidget` at budget `fuel` never exhaust it (what the lemmas below need; provided by `hc_ns` /
    `focusWidget_ns` under `NotifFF`, by `Lemmas/VxfwRank.lean` under a rank condition). -/
abbrev HcNs (o : Oracle) (fuel : Nat) : Prop := ∀ (s : St) (c : Cmd), (handleCommand o fuel s c).stuck = s.stuck
abbrev FwNs (o : Oracle) (fuel : Nat) : Prop := ∀ (s : St) (w : Id), (focusWidget o fuel s w).stuck = s.stuck

theorem offer_ns (o : Oracle) (fuel : Nat) (H : HcNs o fuel) (H2 : FwNs o fuel) (s : St) (w : Id) (ev : Ev) (ph : Phase) :
    (offer o fuel s w ev ph).1.stuck = s.stuck := by
  unfold offer
  simp only []
  split <;> simp only [H] <;> rfl

theorem capturePhase_ns (o : Oracle) (fuel : Nat) (H : HcNs o fuel) (H2 : FwNs o fuel) (ev : Ev) : ∀ (ws : List Id) (s : St),
    (capturePhase o fuel ev ws s).1.stuck = s.stuck
  | [], _ => rfl
  | w :: ws, s => by
    unfold capturePhase
    split
    · simp only []
      split
      · exact offer_ns o fuel H H2 s w ev .capture
      · rw [capturePhase_ns o fuel H H2 ev ws, offer_ns o fuel H H2]
    · exact capturePhase_ns o fuel H H2 ev ws s

theorem bubblePhase_ns (o : Oracle) (fuel : Nat) (H : HcNs o fuel) (H2 : FwNs o fuel) (ev : Ev) : ∀ (ws : List Id) (s : St),
    (bubblePhase o fuel ev ws s).stuck = s.stuck
  | [], _ => rfl
  | w :: ws, s => by
    unfold bubblePhase
    simp only []
    split
    · exact offer_ns o fuel H H2 s w ev .bubble
    · rw [bubblePhase_ns o fuel H H2 ev ws, offer_ns o fuel H H2]

theorem dispatch_ns (o : Oracle) (fuel : Nat) (H : HcNs o fuel) (H2 : FwNs o fuel) (chain : List Id) (tgt : St → Id) (ev : Ev) (s : St) :
    (dispatch o fuel chain tgt ev s).stuck = s.stuck := by
  unfold dispatch
  simp only []
  split
  · rw [capturePhase_ns o fuel H H2]
  · split
    · rw [offer_ns o fuel H H2, capturePhase_ns o fuel H H2]
    · rw [bubblePhase_ns o fuel H H2, offer_ns o fuel H H2, capturePhase_ns o fuel H H2]

theorem handleEvent_ns (o : Oracle) (fuel : Nat) (H : HcNs o fuel) (H2 : FwNs o fuel) (s : St) (ev : Ev) :
    (handleEvent o fuel s ev).stuck = s.stuck := dispatch_ns o fuel H H2 _ _ ev s

theorem updatePath_ns (o : Oracle) (fuel : Nat) (H : HcNs o fuel) (H2 : FwNs o fuel) (s : St) (t : STree) :
    (updatePath o fuel s t).stuck = s.stuck := by
  unfold updatePath
  simp only []
  split
  · rfl
  · rw [H2]; rfl

theorem notify_ns (o : Oracle) (fuel : Nat) (H : HcNs o fuel) (H2 : FwNs o fuel) (s : St) (w : Id) (ev : Ev) :
    (notify o fuel s w ev).stuck = s.stuck := by
  unfold notify
  simp only [H]
  rfl

theorem foldl_notify_ns (o : Oracle) (fuel : Nat) (H : HcNs o fuel) (H2 : FwNs o fuel) (ev : Ev) (skip : Hit → Bool) :
    ∀ (l : List Hit) (s : St),
      (l.foldl (fun s h1 => if skip h1 then s else notify o fuel s h1.w ev) s).stuck = s.stuck
  | [], _ => rfl
  | h :: l, s => by
    rw [List.foldl_cons, foldl_notify_ns o fuel H H2 ev skip l]
    split
    · rfl
    · exact notify_ns o fuel H H2 s h.w ev

theorem mouseUpdate_ns (o : Oracle) (fuel : Nat) (H : HcNs o fuel) (H2 : FwNs o fuel) (s : St) (t : STree) :
    (mouseUpdate o fuel s t).stuck = s.stuck := by
  unfold mouseUpdate
  split
  · rfl
  · simp only []
    rw [foldl_notify_ns o fuel H H2 .mouseEnter (fun h1 => s.lastHits.contains h1),
      foldl_notify_ns o fuel H H2 .mouseLeave (fun h1 => (hitsAt t _ _).contains h1)]

theorem mouseExit_ns (o : Oracle) (fuel : Nat) (H : HcNs o fuel) (H2 : FwNs o fuel) (s : St) :
    (mouseExit o fuel s).stuck = s.stuck := by
  unfold mouseExit
  simp only []
  have := foldl_notify_ns o fuel H H2 .mouseLeave (fun _ => false) s.lastHits s
  simpa using this

theorem mouseEnter_ns (o : Oracle) (fuel : Nat) (H : HcNs o fuel) (H2 : FwNs o fuel) (s : St) (w : Id) :
    (mouseEnter o fuel s w).stuck = s.stuck := by
  unfold mouseEnter
  split
  · rfl
  · rw [notify_ns o fuel H H2]

theorem mouseHandleEvent_ns (o : Oracle) (fuel : Nat) (H : HcNs o fuel) (H2 : FwNs o fuel) (s : St) (c r : Int) :
    (mouseHandleEvent o fuel s c r).stuck = s.stuck := by
  unfold mouseHandleEvent
  simp only []
  split
  · rw [mouseUpdate_ns o fuel H H2]
  · rw [dispatch_ns o fuel H H2, mouseUpdate_ns o fuel H H2]

theorem runEvent_ns (o : Oracle) (fuel : Nat) (H : HcNs o fuel) (H2 : FwNs o fuel) (s : St) (e : RunEv) :
    (runEvent o fuel s e).stuck = s.stuck := by
  cases e with
  | resize => rfl
  | mouse c r => exact mouseHandleEvent_ns o fuel H H2 s c r
  | focusIn => exact mouseEnter_ns o fuel H H2 s s.root
  | focusOut => exact mouseExit_ns o fuel H H2 _
  | key k => exact handleEvent_ns o fuel H H2 s _
  | redraw => rfl
  | other k => exact handleEvent_ns o fuel H H2 s _

theorem runFrame_ns (o : Oracle) (fuel : Nat) (H : HcNs o fuel) (H2 : FwNs o fuel) (s : St) (t1 t2 : STree) :
    (runFrame o fuel s t1 t2).stuck = s.stuck := by
  unfold runFrame
  split
  · rfl
  · simp only []
    rw [updatePath_ns o fuel H H2]
    simp only []
    split <;> simp only [mouseUpdate_ns o fuel H H2]

theorem runSteps_ns (o : Oracle) (fuel : Nat) (H : HcNs o fuel) (H2 : FwNs o fuel) : ∀ (steps : List Step) (s : St),
    (runSteps o fuel s steps).stuck = s.stuck
  | [], _ => rfl
  | st :: rest, s => by
    unfold runSteps
    simp only []
    cases st with
    | ev e =>
      simp only [runStep]
      by_cases hq : (runEvent o fuel s e).quit = true
      · simp only [hq, ↓reduceIte]; exact runEvent_ns o fuel H H2 s e
      · have hq' : (runEvent o fuel s e).quit = false := by simpa using hq
        simp only [hq', Bool.false_eq_true, ↓reduceIte]; rw [runSteps_ns o fuel H H2 rest, runEvent_ns o fuel H H2]
    | frame t1 t2 =>
      simp only [runStep]
      rw [runSteps_ns o fuel H H2 rest, runFrame_ns o fuel H H2]

/-- The budget flag over a whole history, given that `handleCommand` and `focusWidget` at this budget keep it. -/
theorem run_never_stuck_of (o : Oracle) (fuel : Nat) (H : HcNs o fuel) (H2 : FwNs o fuel) (root : Id) (t0 : STree) (steps : List Step) :
    (runSteps o fuel (runInit o fuel root t0) steps).stuck = false := by
  rw [runSteps_ns o fuel H H2]
  unfold runInit
  simp only []
  rw [handleEvent_ns o fuel H H2]
  rfl

/-- **The nesting budget is never exhausted** by handlers that do not answer focus notifications with
    focus commands: any budget ≥ 2, any history of the Run loop. -/
theorem run_never_stuck (o : Oracle) (hff : NotifFF o) (fuel : Nat) (hf : 2 ≤ fuel) (root : Id) (t0 : STree) (steps : List Step) :
    (runSteps o fuel (runInit o fuel root t0) steps).stuck = false :=
  run_never_stuck_of o fuel (hc_ns o hff fuel hf) (focusWidget_ns o hff fuel hf) root t0 steps

end VaxisModel.Lemmas.Vxfw
