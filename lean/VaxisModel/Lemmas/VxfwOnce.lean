import VaxisModel.Lemmas.VxfwHover

/-! Every command a handler returns takes effect exactly once — over whole Run histories. -/

namespace VaxisModel.Lemmas.Vxfw
open VaxisModel.Model.Vxfw VaxisModel.Spec.Routing

/-- A relation between a state and a later one: the trace grew by `t`, the call counter by the
calls of `t`, and — unless the nesting budget ran out (`stuck`) — every non-focus effect in `t`
is accounted for: effects executed + effects still to execute (`post`: answers of calls in `t`
not yet handled) = effects that were due before (`pre`) + effects answered by the calls in `t`. -/
def Bal (o : Oracle) (s s' : St) (pre post : List Eff) : Prop :=
  ∃ t, s'.trace = s.trace ++ t ∧ s'.calls = s.calls + nCalls t ∧
    (s'.stuck = false → s.stuck = false ∧
      ∀ e, (effectsIn t).count e + post.count e = pre.count e + (owed o.h s.calls t).count e)

theorem effectsIn_append (a b : List Entry) : effectsIn (a ++ b) = effectsIn a ++ effectsIn b := by
  induction a with
  | nil => rfl
  | cons x r ih =>
    cases x with
    | call w ev ph => simpa [effectsIn] using ih
    | draw => simpa [effectsIn] using ih
    | eff e => cases e <;> simp [effectsIn, ih]

theorem nCalls_append (a b : List Entry) : nCalls (a ++ b) = nCalls a + nCalls b := by
  induction a with
  | nil => simp [nCalls]
  | cons x r ih =>
    cases x with
    | call w ev ph => simp [nCalls, ih]; omega
    | draw => simpa [nCalls] using ih
    | eff e => simpa [nCalls] using ih

theorem owed_append (h : Id → Ev → Phase → Nat → Cmd) (k : Nat) (a b : List Entry) :
    owed h k (a ++ b) = owed h k a ++ owed h (k + nCalls a) b := by
  induction a generalizing k with
  | nil => simp [owed, nCalls]
  | cons x r ih =>
    cases x with
    | call w ev ph =>
      simp only [List.cons_append, owed, nCalls, ih, List.append_assoc]
      congr 3; omega
    | draw => simpa [owed, nCalls] using ih k
    | eff e => simpa [owed, nCalls] using ih k

theorem Bal.refl (o : Oracle) (s : St) : Bal o s s [] [] :=
  ⟨[], by simp, by simp [nCalls], fun h => ⟨h, fun e => by simp [effectsIn, owed]⟩⟩

theorem Bal.trans {o : Oracle} {a b c : St} {p1 q1 p2 q2 : List Eff}
    (h1 : Bal o a b p1 q1) (h2 : Bal o b c p2 q2) : Bal o a c (p1 ++ p2) (q1 ++ q2) := by
  obtain ⟨t1, e1, c1, b1⟩ := h1
  obtain ⟨t2, e2, c2, b2⟩ := h2
  refine ⟨t1 ++ t2, by rw [e2, e1, List.append_assoc], by rw [c2, c1, nCalls_append]; omega, ?_⟩
  intro hs
  obtain ⟨hb, k2⟩ := b2 hs
  obtain ⟨ha, k1⟩ := b1 hb
  refine ⟨ha, fun e => ?_⟩
  have := k1 e
  have := k2 e
  rw [c1] at this
  simp only [effectsIn_append, owed_append, List.count_append]
  omega

theorem Bal.trans0 {o : Oracle} {a b c : St} (h1 : Bal o a b [] []) (h2 : Bal o b c [] []) : Bal o a c [] [] := by
  simpa using h1.trans h2

/-- Debts that cancel. -/
theorem Bal.cancel {o : Oracle} {a b : St} {p q : List Eff} (h : Bal o a b p q)
    (hpq : ∀ e, p.count e = q.count e) : Bal o a b [] [] := by
  obtain ⟨t, e1, c1, b1⟩ := h
  refine ⟨t, e1, c1, fun hs => ?_⟩
  obtain ⟨ha, k⟩ := b1 hs
  refine ⟨ha, fun e => ?_⟩
  have := k e
  have := hpq e
  simp only [List.count_nil]
  omega

/-- A change of fields the relation does not look at. -/
theorem Bal.same {o : Oracle} {s s' : St} (ht : s'.trace = s.trace) (hc : s'.calls = s.calls)
    (hs : s'.stuck = s.stuck) : Bal o s s' [] [] :=
  ⟨[], by simp [ht], by simp [hc, nCalls], fun h => ⟨by rw [← hs]; exact h, fun e => by simp [effectsIn, owed]⟩⟩

theorem Bal.call (o : Oracle) (s : St) (w : Id) (ev : Ev) (ph : Phase) :
    Bal o s (call o s w ev ph).1 [] (nfEffs (call o s w ev ph).2.flatten) :=
  ⟨[.call w ev ph], rfl, by simp [Model.Vxfw.call, nCalls], fun h => ⟨h, fun e => by
    simp [effectsIn, owed, Model.Vxfw.call]⟩⟩

theorem Bal.draw (o : Oracle) (s s' : St) (ht : s'.trace = s.trace ++ [.draw]) (hc : s'.calls = s.calls)
    (hs : s'.stuck = s.stuck) : Bal o s s' [] [] :=
  ⟨[.draw], ht, by simp [hc, nCalls], fun h => ⟨by rw [← hs]; exact h, fun e => by simp [effectsIn, owed]⟩⟩

theorem bal_setFocus (o : Oracle) (s : St) (w : Id) :
    Bal o s (findPath { s with focused := w, trace := s.trace ++ [.eff (.focusSet w)] }).1 [] [] :=
  ⟨[.eff (.focusSet w)], rfl, by simp [findPath, nCalls], fun h => ⟨h, fun e => by simp [effectsIn, owed]⟩⟩

theorem nfEffs_cons (a : Atom) (l : List Atom) : nfEffs (a :: l) = nfEffs [a] ++ nfEffs l := by
  simp only [nfEffs, List.filterMap_cons]
  cases effOfAtom a <;> simp

theorem bal_execAtom (o : Oracle) (hc : St → Cmd → St)
    (hhc : ∀ s c, Bal o s (hc s c) (nfEffs c.flatten) []) (s : St) (a : Atom) :
    Bal o s (execAtom hc o s a) (nfEffs [a]) [] := by
  have one : ∀ (e : Eff) (s' : St), (∀ w, e ≠ .focusSet w) → s'.trace = s.trace ++ [.eff e] → s'.calls = s.calls →
      s'.stuck = s.stuck → Bal o s s' [e] [] := by
    intro e s' hne ht hcalls hst
    refine ⟨[.eff e], ht, by simp [hcalls, nCalls], fun h => ⟨by rw [← hst]; exact h, fun x => ?_⟩⟩
    cases e with
    | focusSet w => exact absurd rfl (hne w)
    | _ => simp [effectsIn, owed]
  cases a with
  | redraw => exact one .redraw _ (by intro w; simp) rfl rfl rfl
  | refresh => exact one .refresh _ (by intro w; simp) rfl rfl rfl
  | quit => exact one .quit _ (by intro w; simp) rfl rfl rfl
  | consume => exact one .consume _ (by intro w; simp) rfl rfl rfl
  | debug => exact one .debug _ (by intro w; simp) rfl rfl rfl
  | other k => exact one (.other k) _ (by intro w; simp) rfl rfl rfl
  | focus w =>
    have hnil : nfEffs [Atom.focus w] = [] := rfl
    rw [hnil]
    simp only [execAtom, focusWidgetWith]
    split
    · exact Bal.refl o s
    · have h1 := Bal.call o s s.focused .focusOut .target
      generalize Model.Vxfw.call o s s.focused .focusOut .target = r1 at h1 ⊢
      have h2 := bal_setFocus o r1.1 w
      generalize (findPath { r1.1 with focused := w, trace := r1.1.trace ++ [.eff (.focusSet w)] }).1 = s2 at h2 ⊢
      have h3 := Bal.call o s2 w .focusIn .target
      generalize Model.Vxfw.call o s2 w .focusIn .target = r3 at h3 ⊢
      have h4 := hhc r3.1 r1.2
      have h5 := hhc (hc r3.1 r1.2) r3.2
      have hall := (((h1.trans h2).trans h3).trans h4).trans h5
      exact hall.cancel (fun e => by simp)

theorem bal_foldl (o : Oracle) (hc : St → Cmd → St)
    (hhc : ∀ s c, Bal o s (hc s c) (nfEffs c.flatten) []) (l : List Atom) (s : St) :
    Bal o s (l.foldl (execAtom hc o) s) (nfEffs l) [] := by
  induction l generalizing s with
  | nil => exact Bal.refl o s
  | cons a r ih =>
    rw [List.foldl_cons, nfEffs_cons]
    have := (bal_execAtom o hc hhc s a).trans (ih (execAtom hc o s a))
    simpa using this

theorem bal_handleCommand (o : Oracle) (fuel : Nat) (s : St) (c : Cmd) :
    Bal o s (handleCommand o fuel s c) (nfEffs c.flatten) [] := by
  induction fuel generalizing s c with
  | zero => exact ⟨[], by simp [handleCommand], by simp [handleCommand, nCalls], fun h => by simp [handleCommand] at h⟩
  | succ n ih => exact bal_foldl o _ ih _ s

theorem bal_focusWidget (o : Oracle) (fuel : Nat) (s : St) (w : Id) : Bal o s (focusWidget o fuel s w) [] [] := by
  cases fuel with
  | zero => exact ⟨[], by simp [focusWidget], by simp [focusWidget, nCalls], fun h => by simp [focusWidget] at h⟩
  | succ n =>
    exact bal_execAtom o (handleCommand o n) (bal_handleCommand o n) s (.focus w)

/-- A handler call followed by the processing of its answer. -/
theorem bal_notify (o : Oracle) (fuel : Nat) (s : St) (w : Id) (ev : Ev) : Bal o s (notify o fuel s w ev) [] [] := by
  have := (Bal.call o s w ev .target).trans (bal_handleCommand o fuel _ (Model.Vxfw.call o s w ev .target).2)
  exact this.cancel (fun e => by simp)

theorem bal_offer (o : Oracle) (fuel : Nat) (s : St) (w : Id) (ev : Ev) (ph : Phase) :
    Bal o s (offer o fuel s w ev ph).1 [] [] := by
  have h := ((Bal.call o s w ev ph).trans (bal_handleCommand o fuel _ (Model.Vxfw.call o s w ev ph).2)).cancel
    (fun e => by simp)
  simp only [offer]
  split
  · exact h.trans0 (Bal.same rfl rfl rfl)
  · exact h

theorem bal_capture (o : Oracle) (fuel : Nat) (ev : Ev) (ws : List Id) (s : St) :
    Bal o s (capturePhase o fuel ev ws s).1 [] [] := by
  induction ws generalizing s with
  | nil => exact Bal.refl o s
  | cons w ws ih =>
    simp only [capturePhase]
    split
    · split
      · exact bal_offer o fuel s w ev .capture
      · exact (bal_offer o fuel s w ev .capture).trans0 (ih _)
    · exact ih s

theorem bal_bubble (o : Oracle) (fuel : Nat) (ev : Ev) (ws : List Id) (s : St) :
    Bal o s (bubblePhase o fuel ev ws s) [] [] := by
  induction ws generalizing s with
  | nil => exact Bal.refl o s
  | cons w ws ih =>
    simp only [bubblePhase]
    split
    · exact bal_offer o fuel s w ev .bubble
    · exact (bal_offer o fuel s w ev .bubble).trans0 (ih _)

theorem bal_dispatch (o : Oracle) (fuel : Nat) (chain : List Id) (tgt : St → Id) (ev : Ev) (s : St) :
    Bal o s (dispatch o fuel chain tgt ev s) [] [] := by
  have h0 : Bal o s { s with consume := false } [] [] := Bal.same rfl rfl rfl
  have hc : Bal o s (capturePhase o fuel ev chain { s with consume := false }).1 [] [] := by
    exact h0.trans0 (bal_capture o fuel ev chain { s with consume := false })
  simp only [dispatch]
  split
  · exact hc
  · have ht : Bal o s (offer o fuel (capturePhase o fuel ev chain { s with consume := false }).1
        (tgt (capturePhase o fuel ev chain { s with consume := false }).1) ev .target).1 [] [] := by
      exact hc.trans0 (bal_offer o fuel _ _ ev .target)
    split
    · exact ht
    · exact ht.trans0 (bal_bubble o fuel ev _ _)

theorem bal_foldl_st {α : Type} (o : Oracle) (f : St → α → St) (hf : ∀ s a, Bal o s (f s a) [] [])
    (l : List α) (s : St) : Bal o s (l.foldl f s) [] [] := by
  induction l generalizing s with
  | nil => exact Bal.refl o s
  | cons a r ih => exact (hf s a).trans0 (ih (f s a))

theorem bal_condNotify (o : Oracle) (fuel : Nat) (ev : Ev) (keep : Hit → Bool) (l : List Hit) (s : St) :
    Bal o s (l.foldl (fun s h1 => if keep h1 then s else notify o fuel s h1.w ev) s) [] [] :=
  bal_foldl_st o _ (fun s h1 => by
    by_cases hk : keep h1 = true
    · simp only [hk, if_true]; exact Bal.refl o s
    · simp only [hk]; exact bal_notify o fuel s h1.w ev) l s

theorem bal_mouseUpdate (o : Oracle) (fuel : Nat) (s : St) (t : STree) : Bal o s (mouseUpdate o fuel s t) [] [] := by
  simp only [mouseUpdate]
  split
  · exact Bal.refl o s
  · exact ((bal_condNotify o fuel .mouseLeave _ _ s).trans0 (bal_condNotify o fuel .mouseEnter _ _ _)).trans0
      (Bal.same rfl rfl rfl)

theorem bal_mouseExit (o : Oracle) (fuel : Nat) (s : St) : Bal o s (mouseExit o fuel s) [] [] := by
  simp only [mouseExit]
  have h1 := bal_foldl_st o (fun s (h : Hit) => notify o fuel s h.w .mouseLeave)
    (fun s h => bal_notify o fuel s h.w .mouseLeave) s.lastHits s
  exact h1.trans0 (Bal.same rfl rfl rfl)

theorem bal_mouseEnter (o : Oracle) (fuel : Nat) (s : St) (w : Id) : Bal o s (mouseEnter o fuel s w) [] [] := by
  simp only [mouseEnter]
  split
  · exact Bal.refl o s
  · have h0 : Bal o s { s with lastHits := s.lastHits ++ [⟨0, 0, w⟩] } [] [] := Bal.same rfl rfl rfl
    exact h0.trans0 (bal_notify o fuel _ w .mouseEnter)

theorem bal_mouseHandleEvent (o : Oracle) (fuel : Nat) (s : St) (c r : Int) :
    Bal o s (mouseHandleEvent o fuel s c r) [] [] := by
  have h0 : Bal o s { s with mouse := some (c, r) } [] [] := Bal.same rfl rfl rfl
  have h1 : Bal o s (mouseUpdate o fuel { s with mouse := some (c, r) } s.lastFrame) [] [] := by
    exact h0.trans0 (bal_mouseUpdate o fuel _ _)
  simp only [mouseHandleEvent]
  generalize mouseUpdate o fuel { s with mouse := some (c, r) } s.lastFrame = s1 at h1
  cases s1.lastHits.getLast? with
  | none => exact h1
  | some tg => exact h1.trans0 (bal_dispatch o fuel _ _ _ s1)

theorem bal_updatePath (o : Oracle) (fuel : Nat) (s : St) (t : STree) : Bal o s (updatePath o fuel s t) [] [] := by
  have h0 : Bal o s (findPath { s with fhFrame := some t }).1 [] [] := Bal.same rfl rfl rfl
  simp only [updatePath]
  split
  · exact h0
  · exact h0.trans0 (bal_focusWidget o fuel _ s.root)

theorem bal_runEvent (o : Oracle) (fuel : Nat) (s : St) (e : RunEv) : Bal o s (runEvent o fuel s e) [] [] := by
  cases e with
  | resize => exact Bal.same rfl rfl rfl
  | redraw => exact Bal.same rfl rfl rfl
  | mouse c r => exact bal_mouseHandleEvent o fuel s c r
  | focusIn => exact bal_mouseEnter o fuel s s.root
  | focusOut =>
    have h0 : Bal o s { s with mouse := none } [] [] := Bal.same rfl rfl rfl
    exact h0.trans0 (bal_mouseExit o fuel _)
  | key k => exact bal_dispatch o fuel _ _ _ s
  | other k => exact bal_dispatch o fuel _ _ _ s

theorem bal_runFrame (o : Oracle) (fuel : Nat) (s : St) (t1 t2 : STree) : Bal o s (runFrame o fuel s t1 t2) [] [] := by
  simp only [runFrame]
  split
  · exact Bal.refl o s
  · have ha : Bal o s { s with redraw := false, trace := s.trace ++ [.draw] } [] [] := Bal.draw o _ _ rfl rfl rfl
    have hu : Bal o s (mouseUpdate o fuel { s with redraw := false, trace := s.trace ++ [.draw] } t1) [] [] := by
      exact ha.trans0 (bal_mouseUpdate o fuel _ t1)
    generalize mouseUpdate o fuel { s with redraw := false, trace := s.trace ++ [.draw] } t1 = s1 at hu
    by_cases hr : s1.redraw = true
    · simp only [hr, if_true]
      have hb : Bal o s1 { s1 with redraw := false, trace := s1.trace ++ [.draw] } [] [] := Bal.draw o _ _ rfl rfl rfl
      have hc : Bal o { s1 with redraw := false, trace := s1.trace ++ [.draw] }
          { s1 with redraw := false, trace := s1.trace ++ [.draw], refresh := false, debug := false } [] [] :=
        Bal.same rfl rfl rfl
      have hd := bal_updatePath o fuel
        { s1 with redraw := false, trace := s1.trace ++ [.draw], refresh := false, debug := false } (sortTree t2)
      have he : Bal o (updatePath o fuel
          { s1 with redraw := false, trace := s1.trace ++ [.draw], refresh := false, debug := false } (sortTree t2))
          { (updatePath o fuel
          { s1 with redraw := false, trace := s1.trace ++ [.draw], refresh := false, debug := false } (sortTree t2)) with
            lastFrame := sortTree t2 } [] [] := Bal.same rfl rfl rfl
      exact (((hu.trans0 hb).trans0 hc).trans0 hd).trans0 he
    · have hrf : s1.redraw = false := by simpa using hr
      simp only [hrf]
      have hc : Bal o s1 { s1 with refresh := false, debug := false } [] [] := Bal.same rfl rfl rfl
      have hd := bal_updatePath o fuel { s1 with refresh := false, debug := false } (sortTree t1)
      have he : Bal o (updatePath o fuel { s1 with refresh := false, debug := false } (sortTree t1))
          { (updatePath o fuel { s1 with refresh := false, debug := false } (sortTree t1)) with
            lastFrame := sortTree t1 } [] [] := Bal.same rfl rfl rfl
      exact ((hu.trans0 hc).trans0 hd).trans0 he

theorem bal_runInit (o : Oracle) (fuel : Nat) (root : Id) (t : STree) :
    Bal o (St.init root) (runInit o fuel root t) [] [] := by
  have h := bal_dispatch o fuel (St.init root).path (fun s => s.focused) .init (St.init root)
  simp only [runInit, handleEvent]
  generalize dispatch o fuel (St.init root).path (fun s => s.focused) .init (St.init root) = s1 at h ⊢
  have hb : Bal o s1 { s1 with trace := s1.trace ++ [.draw], lastFrame := t } [] [] := Bal.draw o _ _ rfl rfl rfl
  exact h.trans0 hb

theorem bal_runSteps (o : Oracle) (fuel : Nat) (steps : List Step) (s : St) :
    Bal o s (runSteps o fuel s steps) [] [] := by
  induction steps generalizing s with
  | nil => exact Bal.refl o s
  | cons st rest ih =>
    cases st with
    | ev e =>
      rw [runSteps_ev]
      split
      · exact bal_runEvent o fuel s e
      · exact (bal_runEvent o fuel s e).trans0 (ih _)
    | frame t1 t2 =>
      rw [runSteps_frame]
      exact (bal_runFrame o fuel s t1 t2).trans0 (ih _)

end VaxisModel.Lemmas.Vxfw
