import VaxisModel.Lemmas.VxfwOnce
import VaxisModel.Lemmas.VxfwErr

/-! C15: every command a handler returns takes effect exactly once over whole Run histories also when handlers fail — counting only
    the answers of the calls that did NOT fail (the command returned together with an error is dropped at every call site). -/
set_option linter.unusedSimpArgs false
set_option linter.unusedVariables false

namespace VaxisModel.Lemmas.Vxfw
open VaxisModel.Model.Vxfw VaxisModel.Spec.Routing

/-- The oracle whose failing calls answer nil: what the error-aware functions execute. -/
def eo (e : EOracle) : Oracle := ⟨fun w ev ph k => if e.fails w ev ph k then .nil else e.o.h w ev ph k, e.o.captures⟩

/-- `Bal` for the effective oracle, nothing pending. -/
abbrev BalE (e : EOracle) (s s' : St) : Prop := Bal (eo e) s s' [] []

/-- A call under `e`: what is owed afterwards is the answer, or nothing if the call fails. -/
theorem balE_call (e : EOracle) (s : St) (w : Id) (ev : Ev) (ph : Phase) :
    Bal (eo e) s (Model.Vxfw.call e.o s w ev ph).1 []
      (if e.failsAt s w ev ph then [] else nfEffs (Model.Vxfw.call e.o s w ev ph).2.flatten) := by
  have h := Bal.call (eo e) s w ev ph
  have h1 : (Model.Vxfw.call (eo e) s w ev ph).1 = (Model.Vxfw.call e.o s w ev ph).1 := rfl
  rw [h1] at h
  by_cases hf : e.failsAt s w ev ph = true
  · have hf' : e.fails w ev ph s.calls = true := hf
    simp only [hf, if_true]
    simpa [Model.Vxfw.call, eo, hf', Cmd.flatten, nfEffs] using h
  · have hf' : e.fails w ev ph s.calls = false := by simpa [EOracle.failsAt] using hf
    have hff : e.failsAt s w ev ph = false := by simpa using hf
    simp only [hff, Bool.false_eq_true, if_false]
    simpa [Model.Vxfw.call, eo, hf'] using h

theorem balE_eFocusWidgetWith (hc : St → Cmd → St) (e : EOracle)
    (hhc : ∀ s c, Bal (eo e) s (hc s c) (nfEffs c.flatten) []) (s : St) (w : Id) :
    BalE e s (eFocusWidgetWith hc e s w).1 := by
  unfold eFocusWidgetWith
  split
  · exact Bal.refl (eo e) s
  · have h1 := balE_call e s s.focused .focusOut .target
    simp only []
    split
    · rename_i hfail
      simpa [hfail] using h1
    · rename_i hok
      have hokf : e.failsAt s s.focused .focusOut .target = false := by simpa using hok
      simp only [hokf, Bool.false_eq_true, if_false] at h1
      generalize Model.Vxfw.call e.o s s.focused .focusOut .target = r1 at h1 ⊢
      have h2 := bal_setFocus (eo e) r1.1 w
      generalize (findPath { r1.1 with focused := w, trace := r1.1.trace ++ [.eff (.focusSet w)] }).1 = s2 at h2 ⊢
      have h3 := balE_call e s2 w .focusIn .target
      have h4 := hhc (Model.Vxfw.call e.o s2 w .focusIn .target).1 r1.2
      split
      · rename_i hfin
        simp only [hfin, if_true] at h3
        exact (((h1.trans h2).trans h3).trans h4).cancel (fun x => by simp)
      · rename_i hfin
        have hfinf : e.failsAt s2 w .focusIn .target = false := by simpa using hfin
        simp only [hfinf, Bool.false_eq_true, if_false] at h3
        have h5 := hhc (hc (Model.Vxfw.call e.o s2 w .focusIn .target).1 r1.2) (Model.Vxfw.call e.o s2 w .focusIn .target).2
        exact ((((h1.trans h2).trans h3).trans h4).trans h5).cancel (fun x => by simp)

theorem balE_eExecAtom (hc : St → Cmd → St) (e : EOracle)
    (hhc : ∀ s c, Bal (eo e) s (hc s c) (nfEffs c.flatten) []) (s : St) (a : Atom) :
    Bal (eo e) s (eExecAtom hc e s a) (nfEffs [a]) [] := by
  cases a with
  | focus w => exact balE_eFocusWidgetWith hc e hhc s w
  | redraw => exact bal_execAtom (eo e) hc hhc s .redraw
  | refresh => exact bal_execAtom (eo e) hc hhc s .refresh
  | quit => exact bal_execAtom (eo e) hc hhc s .quit
  | consume => exact bal_execAtom (eo e) hc hhc s .consume
  | debug => exact bal_execAtom (eo e) hc hhc s .debug
  | other k => exact bal_execAtom (eo e) hc hhc s (.other k)

theorem balE_eHandleCommand (e : EOracle) : ∀ (fuel : Nat) (s : St) (c : Cmd),
    Bal (eo e) s (eHandleCommand e fuel s c) (nfEffs c.flatten) []
  | 0, s, c => ⟨[], by simp [eHandleCommand], by simp [eHandleCommand, nCalls], fun h => by simp [eHandleCommand] at h⟩
  | fuel + 1, s, c => by
    unfold eHandleCommand
    generalize c.flatten = l
    induction l generalizing s with
    | nil => exact Bal.refl (eo e) s
    | cons a l ih =>
      rw [List.foldl_cons, nfEffs_cons]
      have := (balE_eExecAtom _ e (balE_eHandleCommand e fuel) s a).trans (ih _)
      simpa using this

theorem balE_eFocusWidget (e : EOracle) (fuel : Nat) (s : St) (w : Id) : BalE e s (eFocusWidget e fuel s w).1 := by
  cases fuel with
  | zero => exact ⟨[], by simp [eFocusWidget], by simp [eFocusWidget, nCalls], fun h => by simp [eFocusWidget] at h⟩
  | succ f => exact balE_eFocusWidgetWith _ e (balE_eHandleCommand e f) s w

/-- A call followed — unless it fails — by the processing of its answer. -/
theorem balE_callThen (e : EOracle) (fuel : Nat) (s : St) (w : Id) (ev : Ev) (ph : Phase) :
    (e.failsAt s w ev ph = true → BalE e s (Model.Vxfw.call e.o s w ev ph).1) ∧
    (e.failsAt s w ev ph = false →
      BalE e s (eHandleCommand e fuel (Model.Vxfw.call e.o s w ev ph).1 (Model.Vxfw.call e.o s w ev ph).2)) := by
  have h1 := balE_call e s w ev ph
  constructor
  · intro hf; simpa [hf] using h1
  · intro hf
    simp only [hf, Bool.false_eq_true, if_false] at h1
    exact (h1.trans (balE_eHandleCommand e fuel _ _)).cancel (fun x => by simp)

theorem balE_eOffer (e : EOracle) (fuel : Nat) (s : St) (w : Id) (ev : Ev) (ph : Phase) :
    BalE e s (eOffer e fuel s w ev ph).1 := by
  obtain ⟨ha, hb⟩ := balE_callThen e fuel s w ev ph
  unfold eOffer
  simp only []
  split
  · rename_i hf; exact ha hf
  · rename_i hf
    have h := hb (by simpa using hf)
    split
    · exact h.trans0 (Bal.same rfl rfl rfl)
    · exact h

theorem balE_eNotify (e : EOracle) (fuel : Nat) (s : St) (w : Id) (ev : Ev) :
    BalE e s (eNotify e fuel s w ev).1 := by
  obtain ⟨ha, hb⟩ := balE_callThen e fuel s w ev .target
  unfold eNotify
  simp only []
  split
  · rename_i hf; exact ha hf
  · rename_i hf; exact hb (by simpa using hf)

theorem balE_eCapture (e : EOracle) (fuel : Nat) (ev : Ev) :
    ∀ (ws : List Id) (s : St), BalE e s (eCapturePhase e fuel ev ws s).1
  | [], s => Bal.refl (eo e) s
  | w :: ws, s => by
    unfold eCapturePhase
    split
    · simp only []
      split
      · exact (balE_eOffer e fuel s w ev .capture).trans0 (balE_eCapture e fuel ev ws _)
      · exact balE_eOffer e fuel s w ev .capture
    · exact balE_eCapture e fuel ev ws s

theorem balE_eBubble (e : EOracle) (fuel : Nat) (ev : Ev) :
    ∀ (ws : List Id) (s : St), BalE e s (eBubblePhase e fuel ev ws s).1
  | [], s => Bal.refl (eo e) s
  | w :: ws, s => by
    unfold eBubblePhase
    simp only []
    split
    · exact (balE_eOffer e fuel s w ev .bubble).trans0 (balE_eBubble e fuel ev ws _)
    · exact balE_eOffer e fuel s w ev .bubble

theorem balE_eDispatch (e : EOracle) (fuel : Nat) (chain : List Id) (tgt : St → Id) (ev : Ev) (s : St) :
    BalE e s (eDispatch e fuel chain tgt ev s).1 := by
  have h0 : BalE e s { s with consume := false } := Bal.same rfl rfl rfl
  have hc := h0.trans0 (balE_eCapture e fuel ev chain { s with consume := false })
  unfold eDispatch
  simp only []
  split
  · exact hc
  · have ht := hc.trans0 (balE_eOffer e fuel _ (tgt (eCapturePhase e fuel ev chain { s with consume := false }).1) ev .target)
    split
    · exact ht
    · exact ht.trans0 (balE_eBubble e fuel ev _ _)

theorem balE_eNotifyLoop (e : EOracle) (fuel : Nat) (ev : Ev) (skip : Hit → Bool) :
    ∀ (l : List Hit) (s : St), BalE e s (eNotifyLoop e fuel ev skip l s).1
  | [], s => Bal.refl (eo e) s
  | h :: r, s => by
    unfold eNotifyLoop
    split
    · exact balE_eNotifyLoop e fuel ev skip r s
    · simp only []
      split
      · exact balE_eNotify e fuel s h.w ev
      · exact (balE_eNotify e fuel s h.w ev).trans0 (balE_eNotifyLoop e fuel ev skip r _)


theorem balE_eMouseUpdate (e : EOracle) (fuel : Nat) (s : St) (t : STree) : BalE e s (eMouseUpdate e fuel s t).1 := by
  unfold eMouseUpdate
  cases hm : s.mouse with
  | none => exact Bal.refl (eo e) s
  | some p =>
    obtain ⟨c, r⟩ := p
    simp only []
    have h1 := balE_eNotifyLoop e fuel .mouseLeave (fun h => (hitsAt t c r).contains h) s.lastHits s
    split
    · exact h1
    · have h2 := h1.trans0 (balE_eNotifyLoop e fuel .mouseEnter (fun h => s.lastHits.contains h) (hitsAt t c r) _)
      split
      · exact h2
      · exact h2.trans0 (Bal.same rfl rfl rfl)

theorem balE_eMouseExit (e : EOracle) (fuel : Nat) (s : St) : BalE e s (eMouseExit e fuel s).1 := by
  unfold eMouseExit
  simp only []
  have h1 := balE_eNotifyLoop e fuel .mouseLeave (fun _ => false) s.lastHits s
  split
  · exact h1
  · exact h1.trans0 (Bal.same rfl rfl rfl)

theorem balE_eMouseEnter (e : EOracle) (fuel : Nat) (s : St) (w : Id) : BalE e s (eMouseEnter e fuel s w).1 := by
  unfold eMouseEnter
  split
  · exact Bal.refl (eo e) s
  · have h0 : BalE e s { s with lastHits := s.lastHits ++ [⟨0, 0, w⟩] } := Bal.same rfl rfl rfl
    exact h0.trans0 (balE_eNotify e fuel _ w .mouseEnter)

theorem balE_eMouseHandleEvent (e : EOracle) (fuel : Nat) (s : St) (c r : Int) : BalE e s (eMouseHandleEvent e fuel s c r).1 := by
  have h0 : BalE e s { s with mouse := some (c, r) } := Bal.same rfl rfl rfl
  have h1 := h0.trans0 (balE_eMouseUpdate e fuel { s with mouse := some (c, r) } s.lastFrame)
  unfold eMouseHandleEvent
  simp only []
  split
  · exact h1
  · split
    · exact h1
    · exact h1.trans0 (balE_eDispatch e fuel _ _ (.mouse c r) _)

theorem balE_eUpdatePath (e : EOracle) (fuel : Nat) (s : St) (t : STree) : BalE e s (eUpdatePath e fuel s t) := by
  have h0 : BalE e s (findPath { s with fhFrame := some t }).1 := Bal.same (by simp [findPath]) rfl rfl
  unfold eUpdatePath
  simp only []
  split
  · exact h0
  · exact h0.trans0 (balE_eFocusWidget e fuel _ s.root)

theorem balE_eRunEvent (e : EOracle) (fuel : Nat) (s : St) (ev : RunEv) : BalE e s (eRunEvent e fuel s ev).1 := by
  cases ev with
  | resize => exact Bal.same rfl rfl rfl
  | redraw => exact Bal.same rfl rfl rfl
  | mouse c r => exact balE_eMouseHandleEvent e fuel s c r
  | focusIn => exact balE_eMouseEnter e fuel s s.root
  | focusOut =>
    have h0 : BalE e s { s with mouse := none } := Bal.same rfl rfl rfl
    exact h0.trans0 (balE_eMouseExit e fuel _)
  | key k => exact balE_eDispatch e fuel s.path (fun s => s.focused) (.key k) s
  | other k => exact balE_eDispatch e fuel s.path (fun s => s.focused) (.custom k) s

theorem balE_eRunFrame (e : EOracle) (fuel : Nat) (s : St) (t1 t2 : STree) : BalE e s (eRunFrame e fuel s t1 t2).1 := by
  unfold eRunFrame
  split
  · exact Bal.refl (eo e) s
  · have ha : BalE e s { s with redraw := false, trace := s.trace ++ [.draw] } := Bal.draw (eo e) _ _ rfl rfl rfl
    have hu := ha.trans0 (balE_eMouseUpdate e fuel { s with redraw := false, trace := s.trace ++ [.draw] } t1)
    simp only []
    split
    · exact hu
    · generalize (eMouseUpdate e fuel { s with redraw := false, trace := s.trace ++ [.draw] } t1).1 = s1 at hu
      by_cases hr : s1.redraw = true
      · simp only [hr, if_true]
        have hb : BalE e s1 { s1 with redraw := false, trace := s1.trace ++ [.draw], refresh := false, debug := false } :=
          Bal.draw (eo e) _ _ rfl rfl rfl
        have hd := (hu.trans0 hb).trans0 (balE_eUpdatePath e fuel
          { s1 with redraw := false, trace := s1.trace ++ [.draw], refresh := false, debug := false } (sortTree t2))
        exact hd.trans0 (Bal.same rfl rfl rfl)
      · have hrf : s1.redraw = false := by simpa using hr
        simp only [hrf]
        have hb : BalE e s1 { s1 with refresh := false, debug := false } := Bal.same rfl rfl rfl
        have hd := (hu.trans0 hb).trans0 (balE_eUpdatePath e fuel { s1 with refresh := false, debug := false } (sortTree t1))
        exact hd.trans0 (Bal.same rfl rfl rfl)

theorem balE_eRunInit (e : EOracle) (fuel : Nat) (root : Id) (t : STree) : BalE e (St.init root) (eRunInit e fuel root t).1 := by
  have h := balE_eDispatch e fuel (St.init root).path (fun s => s.focused) .init (St.init root)
  unfold eRunInit eHandleEvent
  simp only []
  split
  · exact h
  · exact h.trans0 (Bal.draw (eo e) _ _ rfl rfl rfl)

theorem balE_eRunSteps (e : EOracle) (fuel : Nat) : ∀ (steps : List Step) (s : St), BalE e s (eRunSteps e fuel s steps).1
  | [], s => Bal.refl (eo e) s
  | .ev ev :: rest, s => by
    have hd : eRunSteps e fuel s (.ev ev :: rest) = (if (eRunEvent e fuel s ev).2 = true then eRunEvent e fuel s ev else
        if (eRunEvent e fuel s ev).1.quit = true then eRunEvent e fuel s ev else eRunSteps e fuel (eRunEvent e fuel s ev).1 rest) := rfl
    rw [hd]
    split
    · exact balE_eRunEvent e fuel s ev
    · split
      · exact balE_eRunEvent e fuel s ev
      · exact (balE_eRunEvent e fuel s ev).trans0 (balE_eRunSteps e fuel rest _)
  | .frame t1 t2 :: rest, s => by
    have hd : eRunSteps e fuel s (.frame t1 t2 :: rest) = (if (eRunFrame e fuel s t1 t2).2 = true then eRunFrame e fuel s t1 t2 else
        eRunSteps e fuel (eRunFrame e fuel s t1 t2).1 rest) := rfl
    rw [hd]
    split
    · exact balE_eRunFrame e fuel s t1 t2
    · exact (balE_eRunFrame e fuel s t1 t2).trans0 (balE_eRunSteps e fuel rest _)


/-- Over every history with any failing calls (budget not exhausted): the command effects in the trace are a permutation of the
    effects asked for by the calls that did not fail. -/
theorem commandsOnce_eRun (e : EOracle) (fuel : Nat) (root : Id) (t0 : STree) (steps : List Step)
    (hs : (eRun e fuel root t0 steps).1.stuck = false) :
    (effectsIn (eRun e fuel root t0 steps).1.trace).Perm (owed (eo e).h 0 (eRun e fuel root t0 steps).1.trace) := by
  have h : BalE e (St.init root) (eRun e fuel root t0 steps).1 := by
    unfold eRun
    simp only []
    split
    · exact balE_eRunInit e fuel root t0
    · exact (balE_eRunInit e fuel root t0).trans0 (balE_eRunSteps e fuel steps _)
  obtain ⟨t, ht, _, hb⟩ := h
  obtain ⟨_, hc⟩ := hb hs
  have ht' : (eRun e fuel root t0 steps).1.trace = t := by simpa [St.init] using ht
  rw [ht']
  apply List.perm_iff_count.mpr
  intro x
  have := hc x
  simpa [St.init] using this

end VaxisModel.Lemmas.Vxfw
