import VaxisModel.Model.Vxfw

/-! The code of `vxfw/vxfw.go` *before* the repairs of F115a / F115b / F43 (commits acdac0e,
4c7e445, b1816d3), transcribed the same way as `Model/Vxfw.lean`, for the witnesses in
`Witness/F43.lean`, `F115a.lean`, `F115b.lean`: they show that the pre-fix code violates the
statements that `Props/C15.lean` proves of the current code. Definitions only. -/
namespace VaxisModel.Lemmas.VxfwPrefix
open VaxisModel.Model.Vxfw

/-- Pre-fix `focusWidget`: FocusOut, *run its command*, `focused := w`, FocusIn, run its
command; `path` is not touched. -/
def focusWidgetWith (hc : St → Cmd → St) (o : Oracle) (s : St) (w : Id) : St :=
  if s.focused = w then s else
  let r1 := call o s s.focused .focusOut .target
  let s2 := hc r1.1 r1.2
  let s3 := { s2 with focused := w, trace := s2.trace ++ [.eff (.focusSet w)] }
  let r4 := call o s3 w .focusIn .target
  hc r4.1 r4.2

def execAtom (hc : St → Cmd → St) (o : Oracle) (s : St) : Atom → St
  | .focus w => focusWidgetWith hc o s w
  | a => Model.Vxfw.execAtom hc o s a

def handleCommand (o : Oracle) : Nat → St → Cmd → St
  | 0, s, _ => { s with stuck := true }
  | fuel + 1, s, c => c.flatten.foldl (execAtom (handleCommand o fuel) o) s

/-- Pre-fix `vaxis.FocusIn` arm of `Run`: MouseEnter to the root widget, nothing recorded. -/
def runFocusIn (o : Oracle) (fuel : Nat) (s : St) : St := notify o fuel s s.root .mouseEnter

end VaxisModel.Lemmas.VxfwPrefix
