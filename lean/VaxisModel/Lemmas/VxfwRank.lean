import VaxisModel.Model.Vxfw

/-! C15: refocus chains that terminate.  A RANK on widgets such that every focus command in an answer to a FocusIn /
    FocusOut NOTIFICATION of widget `w` targets a widget of strictly lower rank than `w` (`NotifRanked`; answers to every
    other call are arbitrary).  Then the nesting `handleCommand → focusWidget → handler → handleCommand` is bounded: with
    ranks ≤ `R`, a budget of `3 * R + 5` never runs out, over every history of the Run loop (`run_never_stuck_ranked`).
    This generalises `run_never_stuck` (`NotifFF` = rank 0 everywhere) to chains like "A's FocusIn handler focuses B, B's
    answers nil"; `Witness/F115c.lean` (two widgets focusing each other) shows a condition of this kind is necessary.

    The measure: while a command all of whose focus targets have rank < `b` is handled with widget `f` focused,
    `pot b (rk f) = 3 * max b (rk f) + (if b ≤ rk f then 2 else 1)` bounds the remaining nesting depth: handling `focus x`
    (rank < `b`) handles the FocusOut answer of `f` (targets < `rk f`) with `x` focused — `pot (rk f) (rk x) < pot b (rk f)` —
    and then the FocusIn answer of `x` (targets < `rk x`) with a widget focused that is `x` or of rank < `max (rk f) (rk x)`. -/
namespace VaxisModel.Lemmas.Vxfw
open VaxisModel.Model.Vxfw

/-- Every focus command in `c` (however deeply batched) targets a widget of rank `< b`. -/
def Below (rk : Id → Nat) (b : Nat) (c : Cmd) : Prop := ∀ a ∈ c.flatten, ∀ w, a = Atom.focus w → rk w < b

/-- Focus commands issued from focus notifications go strictly down in rank. -/
def NotifRanked (o : Oracle) (rk : Id → Nat) : Prop :=
  ∀ w ph k, Below rk (rk w) (o.h w .focusIn ph k) ∧ Below rk (rk w) (o.h w .focusOut ph k)

def pot (b rf : Nat) : Nat := 3 * max b rf + (if b ≤ rf then 2 else 1)

/-- What handling a command does to the budget flag and the focus. -/
def Good (rk : Id → Nat) (b : Nat) (s s' : St) : Prop :=
  s'.stuck = s.stuck ∧ (s'.focused = s.focused ∨ rk s'.focused < max b (rk s.focused))

theorem good_refl (rk : Id → Nat) (b : Nat) (s : St) : Good rk b s s := ⟨rfl, Or.inl rfl⟩

theorem focus_atom_good (o : Oracle) (rk : Id → Nat) (hrk : NotifRanked o rk) (F : Nat)
    (ih : ∀ (s : St) (c : Cmd) (b : Nat), Below rk b c → pot b (rk s.focused) ≤ F → Good rk b s (handleCommand o F s c))
    (s : St) (w : Id) (b : Nat) (hw : rk w < b) (hp : pot b (rk s.focused) ≤ F + 1) :
    Good rk b s (focusWidgetWith (handleCommand o F) o s w) := by
  unfold focusWidgetWith
  split
  · exact good_refl rk b s
  · simp only []
    have hout : Below rk (rk s.focused) (call o s s.focused .focusOut .target).2 := (hrk s.focused .target s.calls).2
    have hin : ∀ s', Below rk (rk w) (call o s' w .focusIn .target).2 := fun s' => (hrk w .target s'.calls).1
    -- the state after both notifications: `w` focused
    generalize hs3 : (call o (findPath { (call o s s.focused .focusOut .target).1 with focused := w, trace := (call o s s.focused .focusOut .target).1.trace ++ [.eff (.focusSet w)] }).1 w .focusIn .target) = r3
    have hf3 : r3.1.focused = w := by rw [← hs3]; rfl
    have hst3 : r3.1.stuck = s.stuck := by rw [← hs3]; rfl
    have hin3 : Below rk (rk w) r3.2 := by rw [← hs3]; exact hin _
    have h1 : pot (rk s.focused) (rk r3.1.focused) ≤ F := by
      rw [hf3]; revert hp; unfold pot; split <;> split <;> omega
    obtain ⟨g1s, g1f⟩ := ih r3.1 (call o s s.focused .focusOut .target).2 (rk s.focused) hout h1
    rw [hf3] at g1f
    generalize handleCommand o F r3.1 (call o s s.focused .focusOut .target).2 = s4 at g1s g1f
    have h4 : rk s4.focused = rk w ∨ rk s4.focused < max (rk s.focused) (rk w) := by
      rcases g1f with h | h
      · left; rw [h]
      · right; exact h
    have h2 : pot (rk w) (rk s4.focused) ≤ F := by
      revert hp; unfold pot; split <;> split <;> omega
    obtain ⟨g2s, g2f⟩ := ih s4 r3.2 (rk w) hin3 h2
    refine ⟨by rw [g2s, g1s, hst3], Or.inr ?_⟩
    rcases g2f with h | h
    · rw [h]; omega
    · omega

theorem nonfocus_atom_good (hc : St → Cmd → St) (o : Oracle) (rk : Id → Nat) (b : Nat) (s : St) (a : Atom) (h : ∀ w, a ≠ .focus w) :
    Good rk b s (execAtom hc o s a) := by
  cases a <;> first | exact ⟨rfl, Or.inl rfl⟩ | exact absurd rfl (h _)

theorem fold_good (o : Oracle) (rk : Id → Nat) (hrk : NotifRanked o rk) (F : Nat)
    (ih : ∀ (s : St) (c : Cmd) (b : Nat), Below rk b c → pot b (rk s.focused) ≤ F → Good rk b s (handleCommand o F s c))
    (b : Nat) : ∀ (l : List Atom) (s : St), (∀ a ∈ l, ∀ w, a = Atom.focus w → rk w < b) → pot b (rk s.focused) ≤ F + 1 →
      Good rk b s (l.foldl (execAtom (handleCommand o F) o) s)
  | [], s, _, _ => good_refl rk b s
  | a :: l, s, hl, hp => by
    rw [List.foldl_cons]
    have h1 : Good rk b s (execAtom (handleCommand o F) o s a) := by
      cases a with
      | focus w => exact focus_atom_good o rk hrk F ih s w b (hl _ List.mem_cons_self w rfl) hp
      | _ => exact nonfocus_atom_good _ o rk b s _ (by intro w h; cases h)
    obtain ⟨h1s, h1f⟩ := h1
    generalize execAtom (handleCommand o F) o s a = s1 at h1s h1f
    have hp1 : pot b (rk s1.focused) ≤ F + 1 := by
      rcases h1f with h | h
      · rw [h]; exact hp
      · revert hp; unfold pot; split <;> split <;> omega
    obtain ⟨h2s, h2f⟩ := fold_good o rk hrk F ih b l s1 (fun a ha => hl a (List.mem_cons_of_mem _ ha)) hp1
    refine ⟨by rw [h2s, h1s], ?_⟩
    rcases h2f with h2 | h2 <;> rcases h1f with h1 | h1
    · left; rw [h2, h1]
    · right; rw [h2]; exact h1
    · right; rw [h1] at h2; exact h2
    · right; omega

/-- **The budget bound**: a command whose focus targets have rank `< b`, handled with budget `≥ pot b (rank of the focused
    widget)`, never exhausts the budget; afterwards the focus is unchanged or on a widget of rank `< max b (old rank)`. -/
theorem hc_good (o : Oracle) (rk : Id → Nat) (hrk : NotifRanked o rk) : ∀ (F : Nat) (s : St) (c : Cmd) (b : Nat),
    Below rk b c → pot b (rk s.focused) ≤ F → Good rk b s (handleCommand o F s c)
  | 0, s, c, b, _, hp => by
    exfalso; revert hp; unfold pot; split <;> omega
  | F + 1, s, c, b, hb, hp => fold_good o rk hrk F (hc_good o rk hrk F) b c.flatten s hb hp

/-- Any command at all, when all ranks are `≤ R`: budget `3 * R + 4`. -/
theorem hc_ranked (o : Oracle) (rk : Id → Nat) (R : Nat) (hR : ∀ w, rk w ≤ R) (hrk : NotifRanked o rk) (fuel : Nat)
    (hf : 3 * R + 4 ≤ fuel) (s : St) (c : Cmd) : (handleCommand o fuel s c).stuck = s.stuck := by
  have hb : Below rk (R + 1) c := fun a _ w _ => Nat.lt_succ_of_le (hR w)
  have hp : pot (R + 1) (rk s.focused) ≤ fuel := by
    have := hR s.focused
    unfold pot; split <;> omega
  exact (hc_good o rk hrk fuel s c (R + 1) hb hp).1

theorem focusWidget_ranked (o : Oracle) (rk : Id → Nat) (R : Nat) (hR : ∀ w, rk w ≤ R) (hrk : NotifRanked o rk) (fuel : Nat)
    (hf : 3 * R + 4 ≤ fuel) (s : St) (w : Id) : (focusWidget o fuel s w).stuck = s.stuck := by
  obtain ⟨f, rfl⟩ : ∃ f, fuel = f + 1 := ⟨fuel - 1, by omega⟩
  have h := hc_ranked o rk R hR hrk (f + 1) hf s (.focus w)
  simpa [handleCommand, focusWidget, Cmd.flatten, execAtom] using h

end VaxisModel.Lemmas.Vxfw
