import VaxisModel.Lemmas.WidTrees
import VaxisModel.Lemmas.Pager

/-! `Model/WidExec.lean` run on the statement trees of `Lemmas/WidTrees.lean` IS the widgets' models
    (`Model/SimpleList.lean`, `Model/Pager.lean`, `Model/Scrollbar.lean`).  `Props/C19Wid.lean` transfers the
    statements to the regenerated bodies. -/
set_option linter.unusedSimpArgs false
set_option linter.unusedVariables false

namespace VaxisModel.Lemmas.WidExec
open VaxisModel.Model VaxisModel.Model.GoSyn VaxisModel.Model.WidExec
open VaxisModel.Model.DynExec (Stmt Ctl Err)
open VaxisModel.Model.Pager (Ch layoutStep layoutLoop LState)
open VaxisModel.Lemmas.WidTrees
open VaxisModel.Lemmas.DynTrees (seqOf)

theorem fn_v1 : ("v1" ∈ fieldNames) = False := by simp [fieldNames]
theorem fn_v2 : ("v2" ∈ fieldNames) = False := by simp [fieldNames]
theorem fn_v4 : ("v4" ∈ fieldNames) = False := by simp [fieldNames]
theorem fn_v5 : ("v5" ∈ fieldNames) = False := by simp [fieldNames]
theorem fn_v7 : ("v7" ∈ fieldNames) = False := by simp [fieldNames]
theorem fn_index : ("d.index" ∈ fieldNames) = True := by simp [fieldNames]
theorem fn_offset : ("d.offset" ∈ fieldNames) = True := by simp [fieldNames]
theorem fn_items : ("#d.items" ∈ fieldNames) = True := by simp [fieldNames]
theorem fn_Offset : ("d.Offset" ∈ fieldNames) = True := by simp [fieldNames]
theorem fn_width : ("d.width" ∈ fieldNames) = True := by simp [fieldNames]

/-- The simp set that symbolically executes a statement tree. -/
local macro "xs" "[" ts:Lean.Parser.Tactic.simpLemma,* "]" : tactic =>
  `(tactic| simp [exec, atom, evB, evI, look, lookup, lookupC, lookupL, consts, store, WidExec.bind, bindC, bindE, WidExec.ok, fieldOf,
      seqOf, fn_v1, fn_v2, fn_v4, fn_v5, fn_v7, fn_index, fn_offset, fn_items, fn_Offset, fn_width, $ts,*])

/-- The expected bodies, parsed. -/
def expB : Bodies :=
  ⟨seqOf lminParts, seqOf lmaxParts, seqOf lnewParts, seqOf lindexParts, seqOf ldrawParts, seqOf ldownParts, seqOf lupParts, seqOf lhomeParts,
   seqOf lendParts, seqOf lpgdnParts, seqOf lpgupParts, seqOf lsetParts, seqOf pdrawParts, seqOf playParts, seqOf pdownParts,
   seqOf pupParts, seqOf lappParts, seqOf bdrawParts⟩

/-- A `range` loop ends normally or with a `return`. -/
theorem rangeE_not_cont (k v : String) (body : M → Res) (es : List Elem) : ∀ (i : Nat) (m m' : M),
    rangeE k v body es i m ≠ .ok (m', .cont) := by
  induction es with
  | nil => intro i m m' h; simp [rangeE] at h
  | cons e es ih =>
    intro i m m' h
    simp only [rangeE] at h
    split at h
    · cases h
    · cases h
    · cases h
    · exact ih _ _ _ h

theorem rangeE_not_brk (k v : String) (body : M → Res) (es : List Elem) : ∀ (i : Nat) (m m' : M),
    rangeE k v body es i m ≠ .ok (m', .brk) := by
  induction es with
  | nil => intro i m m' h; simp [rangeE] at h
  | cons e es ih =>
    intro i m m' h
    simp only [rangeE] at h
    split at h
    · cases h
    · cases h
    · cases h
    · exact ih _ _ _ h

/-! ### pager `Layout` -/

/-- The body of the inner loop of `Layout`. -/
def playInner : Stmt :=
      (.seq (.ite (.arg (.arg (.call (.var "strings.ContainsRune")) (.var "v3.Grapheme")) (.lit "'\\n'"))
        (.seq (.atom ⟨3, .assign, (.var "d.lines"), (.arg (.arg (.call (.var "append")) (.var "d.lines")) (.var "v0"))⟩)
        (.seq (.atom ⟨3, .assign, (.var "v0"), (.un "&" (.lit "line{}"))⟩)
        (.seq (.atom ⟨3, .assign, (.var "v1"), (.int 0)⟩)
        (.seq (.atom ⟨3, .continueS, .none, .none⟩)
        .skip))))
        .skip)
      (.seq (.atom ⟨2, .define, (.var "v4"), (.arg (.arg (.call (.lit "vaxis.Cell{}")) (.pair (.var "Character") (.var "v3"))) (.pair (.var "Style") (.var "v2.Style")))⟩)
      (.seq (.atom ⟨2, .exprS, (.arg (.call (.var "v0.append")) (.var "v4")), .none⟩)
      (.seq (.atom ⟨2, .addAssign, (.var "v1"), (.var "v3.Width")⟩)
      (.seq (.ite (.bin ">=" (.var "v1") (.var "d.width"))
        (.seq (.atom ⟨3, .assign, (.var "d.lines"), (.arg (.arg (.call (.var "append")) (.var "d.lines")) (.var "v0"))⟩)
        (.seq (.atom ⟨3, .assign, (.var "v0"), (.un "&" (.lit "line{}"))⟩)
        (.seq (.atom ⟨3, .assign, (.var "v1"), (.int 0)⟩)
        .skip)))
        .skip)
      .skip)))))


/-- What `Layout`'s loops keep: the machine represents the loop state `st` of the model. -/
def MInv (φ : List (String × Int)) (win : Win) (rows : List SimpleList.Row) (width : Int) (st : LState) (m : M) : Prop :=
  m.φ = φ ∧ m.lines = st.lines ∧ m.lv = "v0" ∧ m.cur = st.cur ∧ m.alias = [] ∧ m.win = win ∧ m.rows = rows ∧
  lookup (m.ρ ++ φ ++ consts) "d.width" = some width ∧ lookup (m.ρ ++ φ ++ consts) "v1" = some st.col

def RInv (φ : List (String × Int)) (win : Win) (rows : List SimpleList.Row) (width : Int) (st : LState) : Res → Prop
  | .ok (m, ctl) => (ctl = .norm ∨ ctl = .cont) ∧ MInv φ win rows width st m
  | .error _ => False

/-- One iteration of the inner loop = `Pager.layoutStep`. -/
theorem play_step (R : Ro) (hcall : R.call "line.append" = some (appendCallee expB)) (f : Nat) (φ : List (String × Int)) (win : Win) (rows : List SimpleList.Row) (width : Int)
    (st : LState) (m : M) (i : Nat) (c : Ch) (h : MInv φ win rows width st m) :
    RInv φ win rows width (layoutStep width st c) (exec R playInner f (bindE (WidExec.bind m "_" (i : Int)) "v3" (.ch c))) := by
  obtain ⟨φ', ρ, χ, ls, L, lv, C, sh, win', rows'⟩ := m
  obtain ⟨L0, C0, col⟩ := st
  obtain ⟨h1, h2, h3, h4, h5, h6, h7, hw, hc⟩ := h
  simp only at h1 h2 h3 h4 h5 h6 h7 hw hc
  subst h1 h2 h3 h4 h5 h6 h7
  simp only [consts, List.append_assoc] at hw hc
  by_cases hn : c.isNl = true
  · xs [playInner, layoutStep, hn, hw, hc, RInv, MInv]
  · by_cases hge : col + c.width ≥ width
    · xs [playInner, layoutStep, hn, hw, hc, hge, RInv, MInv, hcall, appendCallee, expB, lappParts, lapp0]
    · xs [playInner, layoutStep, hn, hw, hc, hge, RInv, MInv, hcall, appendCallee, expB, lappParts, lapp0]

theorem play_inner_loop (R : Ro) (hcall : R.call "line.append" = some (appendCallee expB)) (f : Nat) (φ : List (String × Int)) (win : Win) (rows : List SimpleList.Row) (width : Int)
    (cs : List Ch) : ∀ (st : LState) (m : M) (i : Nat), MInv φ win rows width st m →
      RInv φ win rows width (layoutLoop width st cs) (rangeE "_" "v3" (exec R playInner f) (cs.map .ch) i m) := by
  induction cs with
  | nil => intro st m i h; exact ⟨Or.inl rfl, h⟩
  | cons c cs ih =>
    intro st m i h
    have hs := play_step R hcall f φ win rows width st m i c h
    simp only [List.map_cons, rangeE, layoutLoop, List.foldl_cons]
    revert hs
    generalize exec R playInner f (bindE (WidExec.bind m "_" (i : Int)) "v3" (Elem.ch c)) = r
    intro hs
    match r, hs with
    | .ok (m', .norm), ⟨_, hm⟩ => exact ih _ m' (i + 1) hm
    | .ok (m', .cont), ⟨_, hm⟩ => exact ih _ m' (i + 1) hm
    | .ok (m', .brk), ⟨hc, _⟩ => cases hc <;> contradiction
    | .ok (m', .ret _), ⟨hc, _⟩ => cases hc <;> contradiction
    | .error _, hf => exact hf.elim

/-- The body of the outer loop of `Layout`. -/
def playOuter : Stmt := .seq (.rangeOver "_" "v3" (.arg (.call (.var "vaxis.Characters")) (.var "v2.Text")) playInner) .skip

theorem play3_eq : play3 = .rangeOver "_" "v2" (.var "d.Segments") playOuter := rfl

theorem play3_run (R : Ro) (f : Nat) (m : M) :
    exec R play3 f m = rangeE "_" "v2" (exec R playOuter f) (R.segs.map .seg) 0 m := by
  simp [play3_eq, exec, collOf]

theorem play_outer_step (R : Ro) (hcall : R.call "line.append" = some (appendCallee expB)) (f : Nat) (φ : List (String × Int)) (win : Win) (rows : List SimpleList.Row) (width : Int)
    (st : LState) (m : M) (i : Nat) (cs : List Ch) (h : MInv φ win rows width st m) :
    RInv φ win rows width (layoutLoop width st cs) (exec R playOuter f (bindE (WidExec.bind m "_" (i : Int)) "v2" (.seg cs))) := by
  have hm : MInv φ win rows width st { m with ls := ("v2.Text", cs) :: m.ls } := h
  have hl := play_inner_loop R hcall f φ win rows width cs st { m with ls := ("v2.Text", cs) :: m.ls } 0 hm
  simp only [playOuter, exec, collOf, bindE, WidExec.bind, lookupL]
  simp only [show (("_" : String) = "_") = True from by simp, if_true, show ("v2" ++ ".Text" : String) = "v2.Text" from by decide, if_true]
  revert hl
  generalize rangeE "_" "v3" (exec R playInner f) (cs.map Elem.ch) 0 { m with ls := ("v2.Text", cs) :: m.ls } = r
  intro hl
  match r, hl with
  | .ok (m', .norm), ⟨_, hm'⟩ => exact ⟨Or.inl rfl, hm'⟩
  | .ok (m', .cont), ⟨_, hm'⟩ => exact ⟨Or.inr rfl, hm'⟩
  | .ok (m', .brk), ⟨hc, _⟩ => cases hc <;> contradiction
  | .ok (m', .ret _), ⟨hc, _⟩ => cases hc <;> contradiction
  | .error _, hf => exact hf.elim

theorem layoutLoop_append (width : Int) (st : LState) (a b : List Ch) :
    layoutLoop width st (a ++ b) = layoutLoop width (layoutLoop width st a) b := by
  simp [layoutLoop, List.foldl_append]

theorem play_outer_loop (R : Ro) (hcall : R.call "line.append" = some (appendCallee expB)) (f : Nat) (φ : List (String × Int)) (win : Win) (rows : List SimpleList.Row) (width : Int)
    (segs : List (List Ch)) : ∀ (st : LState) (m : M) (i : Nat), MInv φ win rows width st m →
      RInv φ win rows width (layoutLoop width st segs.flatten) (rangeE "_" "v2" (exec R playOuter f) (segs.map .seg) i m) := by
  induction segs with
  | nil => intro st m i h; exact ⟨Or.inl rfl, h⟩
  | cons cs segs ih =>
    intro st m i h
    have hs := play_outer_step R hcall f φ win rows width st m i cs h
    simp only [List.map_cons, rangeE, List.flatten_cons, layoutLoop_append]
    revert hs
    generalize exec R playOuter f (bindE (WidExec.bind m "_" (i : Int)) "v2" (Elem.seg cs)) = r
    intro hs
    match r, hs with
    | .ok (m', .norm), ⟨_, hm⟩ => exact ih _ m' (i + 1) hm
    | .ok (m', .cont), ⟨_, hm⟩ => exact ih _ m' (i + 1) hm
    | .ok (m', .brk), ⟨hc, _⟩ => cases hc <;> contradiction
    | .ok (m', .ret _), ⟨hc, _⟩ => cases hc <;> contradiction
    | .error _, hf => exact hf.elim

/-- What a caller sees of `Layout()`. -/
def LayRes (m : M) (lines : List PLine) : Res → Prop
  | .ok (m', c) => c = .norm ∧ m'.φ = m.φ ∧ m'.lines = lines ∧ m'.win = m.win ∧ m'.rows = m.rows
  | .error _ => False

/-- `Layout()` executed from its body = `Pager.layout` (with the final flush) at the width stored in `d.width`, on the
    characters of all segments. -/
theorem play_exec (R : Ro) (hcall : R.call "line.append" = some (appendCallee expB)) (f : Nat) (m : M) (width : Int) (hρ : m.ρ = [])
    (hw : lookup (m.φ ++ consts) "d.width" = some width) :
    LayRes m (Pager.layout true width R.segs.flatten) (exec R (seqOf playParts) f m) := by
  obtain ⟨φ, ρ, χ, ls, L, lv, C, sh, win, rows⟩ := m
  simp only at hρ hw
  subst hρ
  have h0 : MInv φ win rows width ⟨[], [], 0⟩ ⟨φ, [("v1", 0)], χ, ls, [], "v0", [], [], win, rows⟩ := by
    refine ⟨rfl, rfl, rfl, rfl, rfl, rfl, rfl, ?_, ?_⟩
    · simpa [lookup] using hw
    · simp [lookup]
  have hl := play_outer_loop R hcall f φ win rows width R.segs ⟨[], [], 0⟩ _ 0 h0
  simp only [seqOf, playParts, exec, play3_run]
  simp [play0, play1, play2, exec, atom, WidExec.ok, evI, WidExec.bind]
  revert hl
  generalize hr : rangeE "_" "v2" (exec R playOuter f) (R.segs.map Elem.seg) 0 ⟨φ, [("v1", 0)], χ, ls, [], "v0", [], [], win, rows⟩ = r
  intro hl
  have fin : ∀ m' : M, MInv φ win rows width (layoutLoop width ⟨[], [], 0⟩ R.segs.flatten) m' →
      LayRes ⟨φ, [], χ, ls, L, lv, C, sh, win, rows⟩ (Pager.layout true width R.segs.flatten)
        (match exec R play4 f m' with
          | .ok (m'', .norm) => .ok (m'', .norm)
          | r => r) := by
    intro m' hm'
    obtain ⟨φ', ρ', χ', ls', L', lv', C', sh', win', rows'⟩ := m'
    obtain ⟨h1, h2, h3, h4, h5, h6, h7, _, _⟩ := hm'
    simp only at h1 h2 h3 h4 h5 h6 h7
    subst h1 h3 h5 h6 h7
    cases hC : C' with
    | nil => simp [play4, exec, atom, evB, evI, WidExec.ok, LayRes, Pager.layout, ← h2, ← h4, hC]
    | cons c cs => simp [play4, exec, atom, evB, evI, WidExec.ok, LayRes, Pager.layout, ← h2, ← h4, hC]
  match r, hl with
  | .ok (m', .norm), ⟨_, hm'⟩ => exact fin m' hm'
  | .ok (m', .cont), ⟨_, hm'⟩ => exact absurd hr (rangeE_not_cont _ _ _ _ _ _ _)
  | .ok (m', .brk), ⟨hc, _⟩ => cases hc <;> contradiction
  | .ok (m', .ret _), ⟨hc, _⟩ => cases hc <;> contradiction
  | .error _, hf => exact hf.elim

/-! ### pager `Draw` -/

/-- The cells `SetCell` writes for one line, starting at column `col`, into window row `r`. -/
def goRow (win : Win) (r : Int) : Int → List Ch → Win
  | _, [] => win
  | col, c :: cs => goRow (setCell win col r c) r (col + c.width) cs

/-- The window after the loop over the lines from index `i` on. -/
def paint (off : Int) (h : Nat) : Win → Nat → List PLine → Win
  | win, _, [] => win
  | win, i, l :: rest =>
    if (i : Int) < off then paint off h win (i + 1) rest
    else if (i : Int) - off ≥ (h : Int) then win
    else paint off h (goRow win ((i : Int) - off) 0 l) (i + 1) rest

/-- The body of the loop over the characters of a line. -/
def pcell : Stmt :=
      (.seq (.atom ⟨2, .exprS, (.arg (.arg (.arg (.call (.var "v0.SetCell")) (.var "v5")) (.bin "-" (.var "v3") (.var "d.Offset"))) (.var "v6")), .none⟩)
      (.seq (.atom ⟨2, .addAssign, (.var "v5"), (.var "v6.Width")⟩)
      .skip))

/-- The body of the loop over the lines. -/
def prow : Stmt :=
    (.seq (.ite (.bin "<" (.var "v3") (.var "d.Offset"))
      (.seq (.atom ⟨2, .continueS, .none, .none⟩)
      .skip)
      .skip)
    (.seq (.ite (.bin ">=" (.bin "-" (.var "v3") (.var "d.Offset")) (.var "v2"))
      (.seq (.atom ⟨2, .returnS, .none, .none⟩)
      .skip)
      .skip)
    (.seq (.atom ⟨1, .define, (.var "v5"), (.int 0)⟩)
    (.seq (.rangeOver "_" "v6" (.var "v4.characters") pcell)
    .skip))))

theorem pdraw6_eq : pdraw6 = .rangeOver "v3" "v4" (.var "d.lines") prow := rfl

def CInv (φ : List (String × Int)) (lines : List PLine) (rows : List SimpleList.Row) (v3 off v2 : Int) (win : Win) (col : Int) (m : M) : Prop :=
  m.φ = φ ∧ m.lines = lines ∧ m.rows = rows ∧ m.win = win ∧ m.lv = "" ∧
  lookup (m.ρ ++ (φ ++ consts)) "v5" = some col ∧ lookup (m.ρ ++ (φ ++ consts)) "v3" = some v3 ∧
  lookup (m.ρ ++ (φ ++ consts)) "d.Offset" = some off ∧ lookup (m.ρ ++ (φ ++ consts)) "v2" = some v2

def CRes (φ : List (String × Int)) (lines : List PLine) (rows : List SimpleList.Row) (v3 off v2 : Int) (win : Win) (col : Int) : Res → Prop
  | .ok (m, c) => c = .norm ∧ CInv φ lines rows v3 off v2 win col m
  | .error _ => False

theorem pcell_step (R : Ro) (f : Nat) (φ : List (String × Int)) (lines : List PLine) (rows : List SimpleList.Row) (v3 off v2 : Int)
    (win : Win) (col : Int) (m : M) (i : Nat) (c : Ch) (h : CInv φ lines rows v3 off v2 win col m) :
    CRes φ lines rows v3 off v2 (setCell win col (v3 - off) c) (col + c.width)
      (exec R pcell f (bindE (WidExec.bind m "_" (i : Int)) "v6" (.ch c))) := by
  obtain ⟨φ', ρ, χ, ls, L, lv, C, sh, win', rows'⟩ := m
  obtain ⟨h1, h2, h3, h4, h5, h6, h7, h8, h9⟩ := h
  simp only at h1 h2 h3 h4 h5 h6 h7 h8 h9
  subst h1 h2 h3 h4 h5
  simp only [consts] at h6 h7 h8 h9
  xs [pcell, h6, h7, h8, h9, CRes, CInv]

theorem pcell_loop (R : Ro) (f : Nat) (φ : List (String × Int)) (lines : List PLine) (rows : List SimpleList.Row) (v3 off v2 : Int)
    (l : List Ch) : ∀ (win : Win) (col : Int) (m : M) (i : Nat), CInv φ lines rows v3 off v2 win col m →
      ∃ col', CRes φ lines rows v3 off v2 (goRow win (v3 - off) col l) col'
        (rangeE "_" "v6" (exec R pcell f) (l.map .ch) i m) := by
  induction l with
  | nil => intro win col m i h; exact ⟨col, rfl, h⟩
  | cons c cs ih =>
    intro win col m i h
    have hs := pcell_step R f φ lines rows v3 off v2 win col m i c h
    simp only [List.map_cons, rangeE, goRow]
    revert hs
    generalize exec R pcell f (bindE (WidExec.bind m "_" (i : Int)) "v6" (Elem.ch c)) = r
    intro hs
    match r, hs with
    | .ok (m', .norm), ⟨_, hm⟩ => exact ih _ _ m' (i + 1) hm
    | .ok (m', .cont), ⟨hc, _⟩ => cases hc
    | .ok (m', .brk), ⟨hc, _⟩ => cases hc
    | .ok (m', .ret _), ⟨hc, _⟩ => cases hc
    | .error _, hf => exact hf.elim

def PInv (φ : List (String × Int)) (lines : List PLine) (rows : List SimpleList.Row) (off v2 : Int) (win : Win) (m : M) : Prop :=
  m.φ = φ ∧ m.lines = lines ∧ m.rows = rows ∧ m.win = win ∧ m.lv = "" ∧
  lookup (m.ρ ++ (φ ++ consts)) "d.Offset" = some off ∧ lookup (m.ρ ++ (φ ++ consts)) "v2" = some v2

theorem prow_step (R : Ro) (f : Nat) (φ : List (String × Int)) (lines : List PLine) (rows : List SimpleList.Row) (off : Int) (hh : Nat)
    (win : Win) (m : M) (i : Nat) (l : PLine) (h : PInv φ lines rows off hh win m) :
    match exec R prow f (bindE (WidExec.bind m "v3" (i : Int)) "v4" (.line l)) with
    | .ok (m', c) =>
      if (i : Int) < off then c = .cont ∧ PInv φ lines rows off hh win m'
      else if (i : Int) - off ≥ (hh : Int) then c = .ret [] ∧ PInv φ lines rows off hh win m'
      else c = .norm ∧ PInv φ lines rows off hh (goRow win ((i : Int) - off) 0 l) m'
    | .error _ => False := by
  obtain ⟨φ', ρ, χ, ls, L, lv, C, sh, win', rows'⟩ := m
  obtain ⟨h1, h2, h3, h4, h5, h6, h7⟩ := h
  simp only at h1 h2 h3 h4 h5 h6 h7
  subst h1 h2 h3 h4 h5
  simp only [consts] at h6 h7
  by_cases c1 : (i : Int) < off
  · xs [prow, h6, h7, c1, PInv]
  · by_cases c2 : (i : Int) - off ≥ (hh : Int)
    · xs [prow, h6, h7, c1, c2, PInv]
    · have hc : CInv φ' L rows' (i : Int) off hh win' 0
          ⟨φ', ("v5", 0) :: ("v3", (i : Int)) :: ρ, χ, ("v4.characters", l) :: ls, L, "", C, sh, win', rows'⟩ := by
        refine ⟨rfl, rfl, rfl, rfl, rfl, ?_, ?_, ?_, ?_⟩ <;> simp [lookup, consts, h6, h7]
      obtain ⟨col', hl⟩ := pcell_loop R f φ' L rows' (i : Int) off hh l win' 0 _ 0 hc
      simp only [prow, exec, evB, evI, look, bindE, WidExec.bind, collOf, atom, WidExec.ok, consts]
      simp [lookup, lookupL, h6, h7, c1, c2]
      revert hl
      generalize rangeE "_" "v6" (exec R pcell f) (l.map Elem.ch) 0
        ⟨φ', ("v5", 0) :: ("v3", (i : Int)) :: ρ, χ, ("v4.characters", l) :: ls, L, "", C, sh, win', rows'⟩ = r
      intro hl
      match r, hl with
      | .ok (m', .norm), ⟨_, hm⟩ =>
        obtain ⟨g1, g2, g3, g4, g5, _, _, g8, g9⟩ := hm
        simp [c1, c2]
        exact ⟨g1, g2, g3, g4, g5, g8, g9⟩
      | .ok (m', .cont), ⟨hc, _⟩ => cases hc
      | .ok (m', .brk), ⟨hc, _⟩ => cases hc
      | .ok (m', .ret _), ⟨hc, _⟩ => cases hc
      | .error _, hf => exact hf.elim

def PRes (φ : List (String × Int)) (lines : List PLine) (rows : List SimpleList.Row) (off : Int) (hh : Nat) (win : Win) : Res → Prop
  | .ok (m, c) => (c = .norm ∨ c = .ret []) ∧ PInv φ lines rows off hh win m
  | .error _ => False

theorem prow_loop (R : Ro) (f : Nat) (φ : List (String × Int)) (lines : List PLine) (rows : List SimpleList.Row) (off : Int) (hh : Nat)
    (rest : List PLine) : ∀ (win : Win) (m : M) (i : Nat), PInv φ lines rows off hh win m →
      PRes φ lines rows off hh (paint off hh win i rest) (rangeE "v3" "v4" (exec R prow f) (rest.map .line) i m) := by
  induction rest with
  | nil => intro win m i h; exact ⟨Or.inl rfl, h⟩
  | cons l rest ih =>
    intro win m i h
    have hs := prow_step R f φ lines rows off hh win m i l h
    simp only [List.map_cons, rangeE, paint]
    revert hs
    generalize exec R prow f (bindE (WidExec.bind m "v3" (i : Int)) "v4" (Elem.line l)) = r
    intro hs
    match r, hs with
    | .error _, hf => exact hf.elim
    | .ok (m', c), hs =>
      by_cases c1 : (i : Int) < off
      · simp only [c1, if_true] at hs ⊢
        obtain ⟨rfl, hm⟩ := hs
        exact ih _ m' (i + 1) hm
      · by_cases c2 : (i : Int) - off ≥ (hh : Int)
        · simp only [c1, c2, if_true, if_false] at hs ⊢
          obtain ⟨rfl, hm⟩ := hs
          exact ⟨Or.inr rfl, hm⟩
        · simp only [c1, c2, if_false] at hs ⊢
          obtain ⟨rfl, hm⟩ := hs
          exact ih _ m' (i + 1) hm

/-! #### the window painted = the model's rows -/

theorem setCell_row (win : Win) (k : Nat) (row : List (Option Ch)) (w : Nat) (col : Int) (c : Ch)
    (hk : win[k]? = some row) (hw : row.length = w) :
    setCell win col (k : Int) c = win.set k (if 0 ≤ col ∧ col < (w : Int) then row.set col.toNat (some c) else row) := by
  obtain ⟨hlt, hrow⟩ := List.getElem?_eq_some_iff.mp hk
  unfold setCell
  by_cases h0 : 0 ≤ col
  · by_cases h1 : col < (w : Int)
    · simp [h0, h1, hk]
    · have : row.set col.toNat (some c) = row := List.set_eq_of_length_le (by omega)
      simp [h0, h1, hk, this]
  · have : win.set k row = win := by rw [← hrow]; exact List.set_getElem_self hlt
    simp [h0, this]

theorem goRow_eq (w : Nat) (k : Nat) (l : List Ch) : ∀ (win : Win) (row : List (Option Ch)) (col : Int),
    win[k]? = some row → row.length = w →
    goRow win (k : Int) col l = win.set k (Pager.drawRow.go w row col l) := by
  induction l with
  | nil =>
    intro win row col hk hw
    obtain ⟨hlt, hrow⟩ := List.getElem?_eq_some_iff.mp hk
    simp only [goRow, Pager.drawRow.go]
    rw [← hrow]; exact (List.set_getElem_self hlt).symm
  | cons c cs ih =>
    intro win row col hk hw
    obtain ⟨hlt, hrow⟩ := List.getElem?_eq_some_iff.mp hk
    simp only [goRow, Pager.drawRow.go]
    rw [setCell_row win k row w col c hk hw]
    rw [ih (win.set k _) (if 0 ≤ col ∧ col < (w : Int) then row.set col.toNat (some c) else row) (col + c.width)
      (by simp [hlt]) (by split <;> simp [hw])]
    simp [List.set_set]

/-- Lines above the offset are skipped. -/
theorem paint_skip (off : Int) (h : Nat) (win : Win) (pre : List PLine) : ∀ (i : Nat) (post : List PLine),
    ((i + pre.length : Nat) : Int) ≤ off → paint off h win i (pre ++ post) = paint off h win (i + pre.length) post := by
  induction pre with
  | nil => intro i post _; simp
  | cons l pre ih =>
    intro i post hle
    simp only [List.length_cons] at hle
    have c1 : (i : Int) < off := by omega
    simp only [List.cons_append, paint, c1, if_true]
    rw [ih (i + 1) post (by omega)]
    congr 1
    simp only [List.length_cons]; omega

/-- From the offset on the rows are drawn top to bottom until the window is full. -/
theorem paint_fill (o w h : Nat) (rest : List PLine) : ∀ (i : Nat) (D : Win), i = o + D.length → D.length ≤ h →
    paint (o : Int) h (D ++ List.replicate (h - D.length) (List.replicate w Option.none)) i rest =
      D ++ (rest.take (h - D.length)).map (Pager.drawRow w) ++
        List.replicate (h - D.length - (rest.take (h - D.length)).length) (List.replicate w Option.none) := by
  induction rest with
  | nil => intro i D _ _; simp [paint]
  | cons l rest ih =>
    intro i D hi hD
    have c1 : ¬ ((i : Int) < (o : Int)) := by omega
    by_cases c2 : (i : Int) - (o : Int) ≥ (h : Int)
    · have hk : D.length = h := by omega
      simp [paint, c1, c2, hk]
    · have hk : D.length < h := by omega
      have hik : (i : Int) - (o : Int) = ((D.length : Nat) : Int) := by omega
      simp only [paint, c1, c2, if_false, hik]
      have hget : (D ++ List.replicate (h - D.length) (List.replicate w (Option.none : Option Ch)))[D.length]? = some (List.replicate w Option.none) := by
        rw [List.getElem?_append_right (Nat.le_refl _)]
        have hh : h - D.length = (h - D.length - 1) + 1 := by omega
        rw [Nat.sub_self, hh, List.replicate_succ]; rfl
      rw [goRow_eq w D.length l _ (List.replicate w Option.none) 0 hget (by simp)]
      have hset : (D ++ List.replicate (h - D.length) (List.replicate w (Option.none : Option Ch))).set D.length (Pager.drawRow w l) =
          (D ++ [Pager.drawRow w l]) ++ List.replicate (h - (D ++ [Pager.drawRow w l]).length) (List.replicate w Option.none) := by
        rw [List.set_append_right _ _ (Nat.le_refl _)]
        have : h - D.length = (h - (D.length + 1)) + 1 := by omega
        simp only [Nat.sub_self, List.length_append, List.length_cons, List.length_nil, Nat.zero_add]
        rw [this, List.replicate_succ, List.set_cons_zero]
        simp
      have hd : Pager.drawRow w l = Pager.drawRow.go w (List.replicate w Option.none) 0 l := rfl
      rw [← hd, hset, ih (i + 1) (D ++ [Pager.drawRow w l]) (by simp; omega) (by simp; omega)]
      have : h - D.length = (h - (D.length + 1)) + 1 := by omega
      simp only [List.length_append, List.length_cons, List.length_nil, Nat.zero_add]
      rw [this, List.take_succ_cons]
      simp
      omega

theorem paint_blank (o w h : Nat) (lines : List PLine) (ho : o ≤ lines.length) :
    paint (o : Int) h (blank w h) 0 lines =
      ((lines.drop o).take h).map (Pager.drawRow w) ++
        List.replicate (h - ((lines.drop o).take h).length) (List.replicate w Option.none) := by
  have hsplit : lines = lines.take o ++ lines.drop o := (List.take_append_drop o lines).symm
  rw [hsplit, paint_skip (o : Int) h (blank w h) (lines.take o) 0 (lines.drop o) (by simp; omega)]
  have := paint_fill o w h (lines.drop o) (0 + (lines.take o).length) [] (by simp; omega) (by simp)
  simp only [List.nil_append, List.length_nil, Nat.sub_zero] at this
  rw [← hsplit]
  exact this


/-! #### the whole `Draw` -/

theorem lookup_append_some (a b : List (String × Int)) (k : String) (v : Int) (h : lookup a k = some v) :
    lookup (a ++ b) k = some v := by
  induction a with
  | nil => simp [lookup] at h
  | cons x a ih =>
    obtain ⟨k', v'⟩ := x
    simp only [List.cons_append, lookup] at h ⊢
    by_cases hk : k' = k
    · simpa [hk] using h
    · simp only [hk, if_false] at h ⊢; exact ih h

theorem pdraw6_run (R : Ro) (f : Nat) (m : M) :
    exec R pdraw6 f m = rangeE "v3" "v4" (exec R prow f) (m.lines.map .line) 0 m := by
  simp [pdraw6_eq, exec, collOf]

/-- What `Draw` leaves: the fields, the lines and the window. -/
def DrawOK (lines : List PLine) (off wd : Int) (win : Win) : Res → Prop
  | .ok (m', _) => lookup m'.φ "d.Offset" = some off ∧ lookup m'.φ "d.width" = some wd ∧ m'.lines = lines ∧ m'.win = win
  | .error _ => False

theorem pdraw6_ok (R : Ro) (f : Nat) (m : M) (off wd : Int) (hh : Nat)
    (h : PInv m.φ m.lines m.rows off hh m.win m) (ho : lookup m.φ "d.Offset" = some off) (hwd : lookup m.φ "d.width" = some wd) :
    DrawOK m.lines off wd (paint off hh m.win 0 m.lines) (exec R pdraw6 f m) := by
  have hl := prow_loop R f m.φ m.lines m.rows off hh m.lines m.win m 0 h
  rw [pdraw6_run]
  revert hl
  generalize rangeE "v3" "v4" (exec R prow f) (m.lines.map Elem.line) 0 m = r
  intro hl
  match r, hl with
  | .ok (m', c), ⟨_, g1, g2, _, g4, _⟩ => exact ⟨g1 ▸ ho, g1 ▸ hwd, g2, g4⟩
  | .error _, hf => exact hf.elim

theorem drawOK_tail {lines : List PLine} {off wd : Int} {win : Win} {r : Res} : DrawOK lines off wd win r →
    DrawOK lines off wd win (match r with
      | .ok (m', .norm) => .ok (m', .norm)
      | r => r) := by
  intro h
  match r with
  | .ok (m', .norm) => exact h
  | .ok (m', .cont) => exact h
  | .ok (m', .brk) => exact h
  | .ok (m', .ret _) => exact h
  | .error _ => exact h.elim

theorem pdraw_rest (R : Ro) (f : Nat) (φ : List (String × Int)) (χ : List (String × Ch)) (lines : List PLine) (w h : Nat)
    (off wd : Int) (g : Ch) (win0 : Win) (hW : R.W = w) (hH : R.H = h)
    (ho : lookup φ "d.Offset" = some off) (hwd : lookup φ "d.width" = some wd)
    (hg : lookupC χ "d.Fill.Grapheme" = some g) (hdf : lookupC χ "defaultFill" = some fillCh) :
    DrawOK lines (Pager.clampOffset lines.length off h) wd (paint (Pager.clampOffset lines.length off h) h (blank w h) 0 lines)
      (exec R (seqOf [pdraw2, pdraw3, pdraw4, pdraw5, pdraw6]) f
        ⟨φ, [("v2", (h : Int)), ("v1", (w : Int))], χ, [], lines, "", [], [], win0, []⟩) := by
  have ho' := lookup_append_some φ consts _ _ ho
  simp only [consts] at ho'
  by_cases c1 : (lines.length : Int) - off < (h : Int)
  · by_cases c2 : (lines.length : Int) - (h : Int) < 0
    · have hc : Pager.clampOffset lines.length off h = 0 := by simp [Pager.clampOffset, c1, c2]
      rw [hc]
      cases hb : g.bytes.isEmpty <;>
      · xs [pdraw2, pdraw3, pdraw4, pdraw5, ho', hg, hdf, hb, c1, c2, hW, hH]
        refine drawOK_tail (pdraw6_ok R f _ 0 wd h ?_ ?_ ?_)
        · refine ⟨rfl, rfl, rfl, rfl, rfl, ?_, ?_⟩ <;> simp [lookup, consts]
        · simp [lookup]
        · simpa [lookup] using hwd
    · have hc : Pager.clampOffset lines.length off h = (lines.length : Int) - (h : Int) := by simp [Pager.clampOffset, c1, c2]
      rw [hc]
      cases hb : g.bytes.isEmpty <;>
      · xs [pdraw2, pdraw3, pdraw4, pdraw5, ho', hg, hdf, hb, c1, c2, hW, hH]
        refine drawOK_tail (pdraw6_ok R f _ _ wd h ?_ ?_ ?_)
        · refine ⟨rfl, rfl, rfl, rfl, rfl, ?_, ?_⟩ <;> simp [lookup, consts]
        · simp [lookup]
        · simpa [lookup] using hwd
  · by_cases c2 : off < 0
    · have hc : Pager.clampOffset lines.length off h = 0 := by simp [Pager.clampOffset, c1, c2]
      rw [hc]
      cases hb : g.bytes.isEmpty <;>
      · xs [pdraw2, pdraw3, pdraw4, pdraw5, ho', hg, hdf, hb, c1, c2, hW, hH]
        refine drawOK_tail (pdraw6_ok R f _ 0 wd h ?_ ?_ ?_)
        · refine ⟨rfl, rfl, rfl, rfl, rfl, ?_, ?_⟩ <;> simp [lookup, consts]
        · simp [lookup]
        · simpa [lookup] using hwd
    · have hc : Pager.clampOffset lines.length off h = off := by simp [Pager.clampOffset, c1, c2]
      rw [hc]
      cases hb : g.bytes.isEmpty <;>
      · xs [pdraw2, pdraw3, pdraw4, pdraw5, ho', hg, hdf, hb, c1, c2, hW, hH]
        refine drawOK_tail (pdraw6_ok R f _ off wd h ?_ ?_ ?_)
        · refine ⟨rfl, rfl, rfl, rfl, rfl, ?_, ?_⟩ <;> simp [lookup, consts, ho']
        · simpa [lookup] using ho
        · simpa [lookup] using hwd

theorem pdrawParts_split : seqOf pdrawParts = .seq pdraw0 (.seq pdraw1 (seqOf [pdraw2, pdraw3, pdraw4, pdraw5, pdraw6])) := rfl

/-- The lines after the re-layout at the top of `Draw`. -/
def relaid (s : Pager.St) (w : Nat) : List PLine :=
  if (w : Int) ≠ s.width then Pager.layout true w s.text else s.lines

theorem pdraw_key (segs : List (List Ch)) (s : Pager.St) (w h : Nat) (fe : Bool) (ht : segs.flatten = s.text) :
    DrawOK (relaid s w) (Pager.clampOffset (relaid s w).length s.offset h) (w : Int)
      (paint (Pager.clampOffset (relaid s w).length s.offset h) h (blank w h) 0 (relaid s w))
      (exec (pagerRo expB segs w h) (seqOf pdrawParts) 0 (pagerM s w h fe)) := by
  rw [pdrawParts_split]
  obtain ⟨text, lines, offset, width⟩ := s
  simp only at ht
  by_cases hw : (w : Int) = width
  · subst hw
    have hr : relaid ⟨text, lines, offset, (w : Int)⟩ w = lines := by simp [relaid]
    rw [hr]
    simp only [exec, pdraw0, pdraw1, atom, evB, evI, look, WidExec.bind, WidExec.ok, pagerM, pagerRo, m0, consts]
    simp [lookup]
    refine pdraw_rest _ 0 _ _ lines w h offset w (if fe = true then ⟨[], 0⟩ else fillCh) _ ?_ ?_ ?_ ?_ ?_ ?_
    · rfl
    · rfl
    · simp [lookup]
    · simp [lookup]
    · simp [lookupC]
    · simp [lookupC]
  · have hr : relaid ⟨text, lines, offset, width⟩ w = Pager.layout true w text := by simp [relaid, hw]
    rw [hr]
    have hl := play_exec ⟨0, 0, segs, lineCalls expB, noFn⟩ rfl 0
      ⟨[("d.width", (w : Int)), ("d.Offset", offset), ("d.width", width)], [],
       [("d.Fill.Grapheme", if fe = true then ⟨[], 0⟩ else fillCh), ("defaultFill", fillCh)], [], lines, "", [], [], blank w h, []⟩
      (w : Int) rfl (by simp [lookup])
    simp only [exec, pdraw0, pdraw1, atom, evB, evI, look, WidExec.bind, WidExec.ok, pagerM, pagerRo, m0, consts]
    have hpl : expB.pagerLayout = seqOf playParts := rfl
    simp [lookup, lookupC, hw, store, fn_width, layoutCallee, hpl]
    revert hl
    simp only [ht]
    generalize exec ⟨0, 0, segs, lineCalls expB, noFn⟩ (seqOf playParts) 0
      ⟨[("d.width", (w : Int)), ("d.Offset", offset), ("d.width", width)], [],
       [("d.Fill.Grapheme", if fe = true then ⟨[], 0⟩ else fillCh), ("defaultFill", fillCh)], [], lines, "", [], [], blank w h, []⟩ = r
    intro hl
    match r, hl with
    | .error _, hf => exact hf.elim
    | .ok (m', c), ⟨hc, g1, g2, g3, g4⟩ =>
      obtain ⟨φ', ρ', χ', ls', L', lv', C', sh', win', rows'⟩ := m'
      simp only at g1 g2 g3 g4
      subst g1 g2 g3 g4 hc
      refine pdraw_rest _ 0 _ _ _ w h offset w (if fe = true then ⟨[], 0⟩ else fillCh) _ ?_ ?_ ?_ ?_ ?_ ?_
      · rfl
      · rfl
      · simp [lookup]
      · simp [lookup]
      · simp [lookupC]
      · simp [lookupC]

theorem clamp_bounds (n : Nat) (off : Int) (h : Nat) :
    0 ≤ Pager.clampOffset n off h ∧ Pager.clampOffset n off h ≤ n := by
  unfold Pager.clampOffset
  constructor <;> (simp only; split <;> split <;> omega)

/-- `Draw` executed from its body (with the call of `Layout`'s body) IS `Pager.draw`: the new state and the window. -/
theorem pdraw_run (segs : List (List Ch)) (s : Pager.St) (w h : Nat) (fe : Bool) (ht : segs.flatten = s.text) :
    runPager expB expB.pagerDraw segs s w h fe = some (Pager.draw true s w h) := by
  have hk := pdraw_key segs s w h fe ht
  unfold runPager
  have he : expB.pagerDraw = seqOf pdrawParts := rfl
  rw [he]
  revert hk
  generalize exec (pagerRo expB segs w h) (seqOf pdrawParts) 0 (pagerM s w h fe) = r
  intro hk
  match r, hk with
  | .error _, hf => exact hf.elim
  | .ok (m', c), ⟨g1, g2, g3, g4⟩ =>
    obtain ⟨hc0, hc1⟩ := clamp_bounds (relaid s w).length s.offset h
    have hcast : Pager.clampOffset (relaid s w).length s.offset h = ((Pager.clampOffset (relaid s w).length s.offset h).toNat : Int) := by omega
    have hp := paint_blank (Pager.clampOffset (relaid s w).length s.offset h).toNat w h (relaid s w) (by omega)
    rw [← hcast] at hp
    simp only [pagerSt, g1, g2, g3, g4, Option.map_some, hp, ht]
    obtain ⟨text, lines, offset, width⟩ := s
    by_cases hw : (w : Int) = width
    · subst hw; simp [Pager.draw, relaid]
    · simp [Pager.draw, relaid, hw]

end VaxisModel.Lemmas.WidExec
