import VaxisModel.Lemmas.WidExec
import VaxisModel.Model.SimpleList

/-! widgets/list `List` and widgets/scrollbar `Model.Draw`: the interpreted bodies are the models. -/
set_option linter.unusedSimpArgs false
set_option linter.unusedVariables false

namespace VaxisModel.Lemmas.WidExec
open VaxisModel.Model VaxisModel.Model.GoSyn VaxisModel.Model.WidExec
open VaxisModel.Model.DynExec (Stmt Ctl Err)
open VaxisModel.Model.Pager (Ch)
open VaxisModel.Model.SimpleList (Row)
open VaxisModel.Lemmas.WidTrees
open VaxisModel.Lemmas.DynTrees (seqOf)

local macro "xs" "[" ts:Lean.Parser.Tactic.simpLemma,* "]" : tactic =>
  `(tactic| simp [exec, atom, evB, evI, look, lookup, lookupC, lookupL, consts, store, WidExec.bind, bindC, bindE, WidExec.ok, fieldOf,
      seqOf, fn_v1, fn_v2, fn_v4, fn_v5, fn_v7, fn_index, fn_offset, fn_items, fn_Offset, fn_width, $ts,*])

/-- The index expressions of list.go as they are now (what `SimpleList.gen` regenerates). -/
def rhsFixed : SimpleList.Rhs where
  down n i _ := max 0 (min (n - 1) (i + 1))
  up _ i _ := max 0 (i - 1)
  home _ _ _ := 0
  «end» n _ _ := max 0 (n - 1)
  pageDown n i h := max 0 (min (n - 1) (i + h))
  pageUp _ i h := max 0 (i - h)
  setItems n i _ := max 0 (min (n - 1) i)
  drawEmptyGuard := true

/-! ### `min`, `max`, `Index`, the navigation methods -/

theorem lmin_run (a b : Int) : runFun2 (seqOf lminParts) a b = .ok (some (min a b)) := by
  by_cases h : a < b
  · have : min a b = a := by omega
    xs [runFun2, lminParts, lmin0, lmin1, m0, h, this]
  · have : min a b = b := by omega
    xs [runFun2, lminParts, lmin0, lmin1, m0, h, this]

theorem lmax_run (a b : Int) : runFun2 (seqOf lmaxParts) a b = .ok (some (max a b)) := by
  by_cases h : a > b
  · have : max a b = a := by omega
    xs [runFun2, lmaxParts, lmax0, lmax1, m0, h, this]
  · have : max a b = b := by omega
    xs [runFun2, lmaxParts, lmax0, lmax1, m0, h, this]

theorem fun2_min (a b : Int) : fun2 (seqOf lminParts) a b = some (min a b) := by simp [fun2, lmin_run]
theorem fun2_max (a b : Int) : fun2 (seqOf lmaxParts) a b = some (max a b) := by simp [fun2, lmax_run]

@[simp] theorem listRo_H (B : Bodies) (h : Nat) : (listRo B h).H = h := rfl
@[simp] theorem listRo_W (B : Bodies) (h : Nat) : (listRo B h).W = 0 := rfl
theorem listRo_min (h : Nat) : (listRo expB h).fn2 "min" = some (fun2 (seqOf lminParts)) := by simp [listRo, listFns, expB]
theorem listRo_max (h : Nat) : (listRo expB h).fn2 "max" = some (fun2 (seqOf lmaxParts)) := by simp [listRo, listFns, expB]

theorem lnew_run (k : Nat) : runListNew (seqOf lnewParts) k = some (SimpleList.new k) := by
  xs [runListNew, lnewParts, lnew0, listSt, m0, SimpleList.new]

theorem lindex_run (s : SimpleList.St) : runListIndex (seqOf lindexParts) s = some s.index := by
  xs [runListIndex, lindexParts, lindex0, listM, m0]

theorem lnav_run (s : SimpleList.St) (h k : Nat) :
    runList expB (seqOf ldownParts) s h k = some (.ok (SimpleList.nav rhsFixed s .down, [])) ∧
    runList expB (seqOf lupParts) s h k = some (.ok (SimpleList.nav rhsFixed s .up, [])) ∧
    runList expB (seqOf lhomeParts) s h k = some (.ok (SimpleList.nav rhsFixed s .home, [])) ∧
    runList expB (seqOf lendParts) s h k = some (.ok (SimpleList.nav rhsFixed s .«end», [])) ∧
    runList expB (seqOf lpgdnParts) s h k = some (.ok (SimpleList.nav rhsFixed s (.pageDown h), [])) ∧
    runList expB (seqOf lpgupParts) s h k = some (.ok (SimpleList.nav rhsFixed s (.pageUp h), [])) ∧
    runList expB (seqOf lsetParts) s h k = some (.ok (SimpleList.nav rhsFixed s (.setItems k), [])) := by
  refine ⟨?_, ?_, ?_, ?_, ?_, ?_, ?_⟩
  · xs [runList, ldownParts, ldown0, listM, listSt, m0, SimpleList.nav, rhsFixed, listRo_min, listRo_max, fun2_min, fun2_max]
  · xs [runList, lupParts, lup0, listM, listSt, m0, SimpleList.nav, rhsFixed, listRo_min, listRo_max, fun2_min, fun2_max]
  · xs [runList, lhomeParts, lhome0, listM, listSt, m0, SimpleList.nav, rhsFixed, listRo_min, listRo_max, fun2_min, fun2_max]
  · xs [runList, lendParts, lend0, listM, listSt, m0, SimpleList.nav, rhsFixed, listRo_min, listRo_max, fun2_min, fun2_max]
  · xs [runList, lpgdnParts, lpgdn0, lpgdn1, listM, listSt, m0, SimpleList.nav, rhsFixed, listRo_min, listRo_max, fun2_min, fun2_max]
  · xs [runList, lpgupParts, lpgup0, lpgup1, listM, listSt, m0, SimpleList.nav, rhsFixed, listRo_min, listRo_max, fun2_min, fun2_max]
  · xs [runList, lsetParts, lset0, lset1, listM, listSt, m0, SimpleList.nav, rhsFixed, listRo_min, listRo_max, fun2_min, fun2_max]

/-! ### `List.Draw` -/

/-- The body of the loop over `m.items[m.offset:]`. -/
def lbody : Stmt :=
    (.seq (.atom ⟨1, .varS, (.var "v7"), (.lit "vaxis.Style")⟩)
    (.seq (.ite (.bin "==" (.var "v5") (.var "v4"))
      (.seq (.atom ⟨2, .assign, (.var "v7"), (.var "v3")⟩)
      .skip)
      (.seq (.atom ⟨2, .assign, (.var "v7"), (.var "v2")⟩)
      .skip))
    (.seq (.atom ⟨1, .exprS, (.arg (.arg (.call (.var "v0.Println")) (.var "v5")) (.arg (.arg (.call (.lit "vaxis.Segment{}")) (.pair (.var "Style") (.var "v7"))) (.pair (.var "Text") (.var "v6")))), .none⟩)
    .skip)))

theorem ldraw6_eq : ldraw6 = .rangeOver "v5" "v6" (.bin "[:]" (.var "d.items") (.pair (.var "d.offset") .none)) lbody := rfl

def LInv (φ : List (String × Int)) (sel : Int) (rows : List Row) (m : M) : Prop :=
  m.φ = φ ∧ m.rows = rows ∧ m.χ = [] ∧ lookup (m.ρ ++ (φ ++ consts)) "v4" = some sel ∧
  lookup (m.ρ ++ (φ ++ consts)) "v3" = some 1 ∧ lookup (m.ρ ++ (φ ++ consts)) "v2" = some 0

def LRes (φ : List (String × Int)) (sel : Int) (rows : List Row) : Res → Prop
  | .ok (m, c) => c = .norm ∧ LInv φ sel rows m
  | .error _ => False

def mkRow (off sel : Int) (j : Nat) : Row := { row := j, item := off + (j : Int), sel := ((j : Int) == sel) }

theorem lbody_step (R : Ro) (f : Nat) (φ : List (String × Int)) (off sel : Int) (rows : List Row) (m : M) (j : Nat)
    (h : LInv φ sel rows m) :
    LRes φ sel (rows ++ if j < R.H then [mkRow off sel j] else [])
      (exec R lbody f (bindE (WidExec.bind m "v5" (j : Int)) "v6" (.int (off + (j : Int))))) := by
  obtain ⟨φ', ρ, χ, ls, L, lv, C, sh, win', rows'⟩ := m
  obtain ⟨h1, h2, h3, h4, h5, h6⟩ := h
  simp only at h1 h2 h3 h4 h5 h6
  subst h1 h2 h3
  simp only [consts] at h4 h5 h6
  by_cases hs : (j : Int) = sel
  · subst hs
    by_cases hj : j < R.H
    · have hj' : (j : Int) < (R.H : Int) := by omega
      xs [lbody, h4, h5, h6, hj, hj', LRes, LInv, mkRow]
    · have hj' : ¬ (j : Int) < (R.H : Int) := by omega
      xs [lbody, h4, h5, h6, hj, hj', LRes, LInv, mkRow]
  · by_cases hj : j < R.H
    · have hj' : (j : Int) < (R.H : Int) := by omega
      xs [lbody, h4, h5, h6, hs, hj, hj', LRes, LInv, mkRow]
    · have hj' : ¬ (j : Int) < (R.H : Int) := by omega
      xs [lbody, h4, h5, h6, hs, hj, hj', LRes, LInv, mkRow]

theorem lbody_loop (R : Ro) (f : Nat) (φ : List (String × Int)) (off sel : Int) (k : Nat) :
    ∀ (i : Nat) (rows : List Row) (m : M), LInv φ sel rows m →
      LRes φ sel (rows ++ ((List.range' i k).filter (· < R.H)).map (mkRow off sel))
        (rangeE "v5" "v6" (exec R lbody f) ((List.range' i k).map fun (j : Nat) => Elem.int (off + (j : Int))) i m) := by
  induction k with
  | zero => intro i rows m h; simpa [rangeE, LRes] using h
  | succ k ih =>
    intro i rows m h
    have hs := lbody_step R f φ off sel rows m i h
    simp only [List.range'_succ, List.map_cons, rangeE]
    revert hs
    generalize exec R lbody f (bindE (WidExec.bind m "v5" (i : Int)) "v6" (Elem.int (off + (i : Int)))) = r
    intro hs
    match r, hs with
    | .error _, hf => exact hf.elim
    | .ok (m', .norm), ⟨_, hm⟩ =>
      have := ih (i + 1) _ m' hm
      by_cases hi : i < R.H
      · simpa [List.filter_cons, hi, List.append_assoc] using this
      · simpa [List.filter_cons, hi] using this
    | .ok (m', .cont), ⟨hc, _⟩ => cases hc
    | .ok (m', .brk), ⟨hc, _⟩ => cases hc
    | .ok (m', .ret _), ⟨hc, _⟩ => cases hc

theorem range'_filter_lt (H : Nat) : ∀ (k i : Nat), (List.range' i k).filter (· < H) = List.range' i (min (i + k) H - i) := by
  intro k
  induction k with
  | zero => intro i; have : min i H - i = 0 := by omega
            simp [this]
  | succ k ih =>
    intro i
    rw [List.range'_succ, List.filter_cons]
    by_cases hi : i < H
    · simp only [hi, decide_true, if_true]
      rw [ih (i + 1)]
      have : min (i + (k + 1)) H - i = (min (i + 1 + k) H - (i + 1)) + 1 := by omega
      rw [this, List.range'_succ]
    · simp only [hi, decide_false]
      rw [ih (i + 1)]
      have h1 : min (i + 1 + k) H - (i + 1) = 0 := by omega
      have h2 : min (i + (k + 1)) H - i = 0 := by omega
      simp [h1, h2]

/-- What the loop of `List.Draw` leaves (or the panic of the slice expression). -/
def LDraw (φ : List (String × Int)) (off sel : Int) (n H : Nat) : Res → Prop
  | .ok (m', _) => 0 ≤ off ∧ off ≤ (n : Int) ∧ m'.φ = φ ∧ m'.rows = (List.range (min (n - off.toNat) H)).map (mkRow off sel)
  | .error .panic => ¬ (0 ≤ off ∧ off ≤ (n : Int))
  | .error _ => False

theorem hash_items : ("#" ++ "d.items" : String) = "#d.items" := by decide

theorem ldraw6_ok (R : Ro) (f : Nat) (m : M) (off sel : Int) (n : Nat) (hlv : m.lv = "")
    (hInv : LInv m.φ sel [] m) (hoff : lookup (m.ρ ++ (m.φ ++ consts)) "d.offset" = some off)
    (hn : lookup (m.ρ ++ (m.φ ++ consts)) "#d.items" = some (n : Int)) :
    LDraw m.φ off sel n R.H (exec R ldraw6 f m) := by
  simp only [consts] at hoff hn
  by_cases hb : 0 ≤ off ∧ off ≤ (n : Int)
  · have hk : ((n : Int) - off).toNat = n - off.toNat := by omega
    have hl := lbody_loop R f m.φ off sel (n - off.toNat) 0 [] m hInv
    rw [← List.range_eq_range'] at hl
    simp only [ldraw6_eq, exec, collOf, evI, look, consts, List.append_assoc, hash_items, hoff, hn, hb, and_self, if_true, hk]
    revert hl
    generalize rangeE "v5" "v6" (exec R lbody f) ((List.range (n - off.toNat)).map fun (j : Nat) => Elem.int (off + (j : Int))) 0 m = r
    intro hl
    match r, hl with
    | .error _, hf => exact hf.elim
    | .ok (m', c), ⟨_, g1, g2, _⟩ =>
      refine ⟨hb.1, hb.2, g1, ?_⟩
      rw [g2, List.range_eq_range', range'_filter_lt, List.nil_append, List.range_eq_range']
      simp
  · simp only [ldraw6_eq, exec, collOf, evI, look, consts, List.append_assoc, hash_items, hoff, hn, hb, if_false]
    exact hb

def LDraw' (idx off : Int) (n H : Nat) : Res → Prop
  | .ok (m', _) => 0 ≤ off ∧ off ≤ (n : Int) ∧ lookup m'.φ "d.index" = some idx ∧ lookup m'.φ "d.offset" = some off ∧
      lookup m'.φ "#d.items" = some (n : Int) ∧ m'.rows = (List.range (min (n - off.toNat) H)).map (mkRow off (idx - off))
  | .error .panic => ¬ (0 ≤ off ∧ off ≤ (n : Int))
  | .error _ => False

theorem ldraw_tail {φ : List (String × Int)} {idx off : Int} {n H : Nat} {r : Res}
    (h1 : lookup φ "d.index" = some idx) (h2 : lookup φ "d.offset" = some off) (h3 : lookup φ "#d.items" = some (n : Int)) :
    LDraw φ off (idx - off) n H r →
    LDraw' idx off n H (match r with
      | .ok (m', .norm) => .ok (m', .norm)
      | r => r) := by
  intro h
  match r with
  | .ok (m', .norm) => obtain ⟨a, b, c, d⟩ := h; exact ⟨a, b, c ▸ h1, c ▸ h2, c ▸ h3, d⟩
  | .ok (m', .cont) => obtain ⟨a, b, c, d⟩ := h; exact ⟨a, b, c ▸ h1, c ▸ h2, c ▸ h3, d⟩
  | .ok (m', .brk) => obtain ⟨a, b, c, d⟩ := h; exact ⟨a, b, c ▸ h1, c ▸ h2, c ▸ h3, d⟩
  | .ok (m', .ret _) => obtain ⟨a, b, c, d⟩ := h; exact ⟨a, b, c ▸ h1, c ▸ h2, c ▸ h3, d⟩
  | .error .panic => exact h
  | .error (.stuck _) => exact h.elim
  | .error .oof => exact h.elim

theorem ldraw_key (s : SimpleList.St) (h : Nat) (hn : s.n ≠ 0) :
    LDraw' s.index (SimpleList.follow s h) s.n h (exec (listRo expB h) (seqOf ldrawParts) 0 (listM s 0)) := by
  obtain ⟨idx, off, n⟩ := s
  simp only at hn
  have hn' : ¬ ((n : Int) = 0) := by omega
  by_cases c1 : idx ≥ off + (h : Int)
  · have hf : SimpleList.follow ⟨idx, off, n⟩ h = idx - (h : Int) + 1 := by simp [SimpleList.follow, c1]
    rw [hf]
    xs [ldrawParts, ldraw0, ldraw1, ldraw2, ldraw3, ldraw4, ldraw5, listM, m0, hn, hn', c1]
    refine ldraw_tail ?_ ?_ ?_ (ldraw6_ok _ 0 _ (idx - (h : Int) + 1) (idx - (idx - (h : Int) + 1)) n ?_ ?_ ?_ ?_)
    · simp [lookup]
    · simp [lookup]
    · simp [lookup]
    · rfl
    · refine ⟨rfl, rfl, rfl, ?_, ?_, ?_⟩ <;> simp [lookup, consts]
    · simp [lookup, consts]
    · simp [lookup, consts]
  · by_cases c2 : idx < off
    · have hf : SimpleList.follow ⟨idx, off, n⟩ h = idx := by simp [SimpleList.follow, c1, c2]
      rw [hf]
      xs [ldrawParts, ldraw0, ldraw1, ldraw2, ldraw3, ldraw4, ldraw5, listM, m0, hn, hn', c1, c2]
      refine ldraw_tail ?_ ?_ ?_ (ldraw6_ok _ 0 _ idx (idx - idx) n ?_ ?_ ?_ ?_)
      · simp [lookup]
      · simp [lookup]
      · simp [lookup]
      · rfl
      · refine ⟨rfl, rfl, rfl, ?_, ?_, ?_⟩ <;> simp [lookup, consts]
      · simp [lookup, consts]
      · simp [lookup, consts]
    · have hf : SimpleList.follow ⟨idx, off, n⟩ h = off := by simp [SimpleList.follow, c1, c2]
      rw [hf]
      xs [ldrawParts, ldraw0, ldraw1, ldraw2, ldraw3, ldraw4, ldraw5, listM, m0, hn, hn', c1, c2]
      refine ldraw_tail ?_ ?_ ?_ (ldraw6_ok _ 0 _ off (idx - off) n ?_ ?_ ?_ ?_)
      · simp [lookup]
      · simp [lookup]
      · simp [lookup]
      · rfl
      · refine ⟨rfl, rfl, rfl, ?_, ?_, ?_⟩ <;> simp [lookup, consts]
      · simp [lookup, consts]
      · simp [lookup, consts]

/-- What the harness sees of a `Draw`: the new state and the rows, or "panicked". -/
def obs (r : Except SimpleList.Panic (SimpleList.St × List Row)) : Except Unit (SimpleList.St × List Row) :=
  match r with
  | .ok x => .ok x
  | .error _ => .error ()

/-- `List.Draw` executed from its body IS `SimpleList.draw` (same state, same rows, panic iff the model panics). -/
theorem ldraw_run (s : SimpleList.St) (h : Nat) :
    runList expB (seqOf ldrawParts) s h 0 = some (obs (SimpleList.draw rhsFixed s h)) := by
  by_cases hn : s.n = 0
  · obtain ⟨idx, off, n⟩ := s
    simp only at hn
    subst hn
    xs [runList, ldrawParts, ldraw0, ldraw1, listM, listSt, m0, SimpleList.draw, rhsFixed, obs]
  · have hk := ldraw_key s h hn
    unfold runList
    revert hk
    generalize exec (listRo expB h) (seqOf ldrawParts) 0 (listM s 0) = r
    intro hk
    have hg : (rhsFixed.drawEmptyGuard && s.n == 0) = false := by simp [rhsFixed, hn]
    match r, hk with
    | .ok (m', c), ⟨a, b, g1, g2, g3, g4⟩ =>
      simp only [listSt, g1, g2, g3, g4, Option.map_some, SimpleList.draw, hg, a, b, and_self, if_true, obs, Int.toNat_natCast]
      rfl
    | .error .panic, hb =>
      have hb' : ¬ (0 ≤ SimpleList.follow s h ∧ SimpleList.follow s h ≤ (s.n : Int)) := hb
      simp [SimpleList.draw, hg, hb', obs]
    | .error (.stuck _), hf => exact hf.elim
    | .error .oof, hf => exact hf.elim

/-! ### scrollbar `Draw` -/

def bbody : Stmt :=
    (.seq (.atom ⟨1, .define, (.var "v5"), (.arg (.arg (.call (.lit "vaxis.Cell{}")) (.pair (.var "Character") (.var "d.Character"))) (.pair (.var "Style") (.var "d.Style")))⟩)
    (.seq (.atom ⟨1, .exprS, (.arg (.arg (.arg (.call (.var "v0.SetCell")) (.int 0)) (.bin "+" (.var "v3") (.var "v4"))) (.var "v5")), .none⟩)
    .skip))

def bpost : Stmt := (.seq (.atom ⟨2, .addAssign, (.var "v4"), (.int 1)⟩) .skip)

theorem bdraw8_eq : bdraw8 = .loop (.bin "<" (.var "v4") (.var "v2")) bbody bpost := rfl

/-- A window row: marked (the bar character in column 0) or blank. -/
def rowOf (w : Nat) (c : Ch) (b : Bool) : List (Option Ch) :=
  if b then (List.replicate w Option.none).set 0 (some c) else List.replicate w Option.none

def BInv (top barH : Int) (c : Ch) (w h : Nat) (i : Int) (m : M) : Prop :=
  lookup (m.ρ ++ (m.φ ++ consts)) "v4" = some i ∧ lookup (m.ρ ++ (m.φ ++ consts)) "v2" = some barH ∧
  lookup (m.ρ ++ (m.φ ++ consts)) "v3" = some top ∧ lookupC m.χ "d.Character" = some c ∧
  m.win.length = h ∧ ∀ r : Nat, r < h → m.win[r]? = some (rowOf w c (decide (top ≤ (r : Int) ∧ (r : Int) < top + i)))

def BRes (top barH : Int) (c : Ch) (w h : Nat) (i : Int) : Res → Prop
  | .ok (m, ctl) => ctl = .norm ∧ BInv top barH c w h i m
  | .error _ => False

theorem setCell_mark (win : Win) (w h : Nat) (c : Ch) (top i : Int) (hlen : win.length = h)
    (hrows : ∀ r : Nat, r < h → win[r]? = some (rowOf w c (decide (top ≤ (r : Int) ∧ (r : Int) < top + i)))) (hi : 0 ≤ i) :
    (setCell win 0 (top + i) c).length = h ∧
    ∀ r : Nat, r < h → (setCell win 0 (top + i) c)[r]? = some (rowOf w c (decide (top ≤ (r : Int) ∧ (r : Int) < top + (i + 1)))) := by
  unfold setCell
  by_cases h0 : 0 ≤ top + i
  · by_cases h1 : (top + i).toNat < h
    · have hr := hrows (top + i).toNat h1
      simp only [Int.le_refl, h0, and_self, if_true, hr, Int.toNat_zero]
      refine ⟨by simpa using hlen, ?_⟩
      intro r hrh
      by_cases hrr : r = (top + i).toNat
      · subst hrr
        have e1 : (decide (top ≤ ((top + i).toNat : Int) ∧ ((top + i).toNat : Int) < top + i)) = false := by
          simp; omega
        have e2 : (decide (top ≤ ((top + i).toNat : Int) ∧ ((top + i).toNat : Int) < top + (i + 1))) = true := by
          simp; omega
        rw [List.getElem?_set_self (by omega), e1, e2]
        simp [rowOf]
      · rw [List.getElem?_set_ne (Ne.symm hrr), hrows r hrh]
        congr 2
        simp only [decide_eq_decide]
        omega
    · have hnone : win[(top + i).toNat]? = Option.none := by
        rw [List.getElem?_eq_none]; omega
      simp only [Int.le_refl, h0, and_self, if_true, hnone]
      refine ⟨hlen, ?_⟩
      intro r hrh
      rw [hrows r hrh]
      congr 2
      simp only [decide_eq_decide]
      omega
  · simp only [h0, and_false, if_false]
    refine ⟨hlen, ?_⟩
    intro r hrh
    rw [hrows r hrh]
    congr 2
    simp only [decide_eq_decide]
    omega

theorem bloop (R : Ro) (top barH : Int) (c : Ch) (w h : Nat) : ∀ (k fuel : Nat) (i : Int) (m : M),
    (barH - i).toNat = k → 0 ≤ i → i ≤ barH → k < fuel → BInv top barH c w h i m →
    BRes top barH c w h barH
      (loopN (fun m => evB R.fn2 m (.bin "<" (.var "v4") (.var "v2"))) (exec R bbody) (exec R bpost) fuel m) := by
  intro k
  induction k with
  | zero =>
    intro fuel i m hk hi0 hib hf hInv
    obtain ⟨fuel', rfl⟩ : ∃ f', fuel = f' + 1 := ⟨fuel - 1, by omega⟩
    have hib' : i = barH := by omega
    subst hib'
    obtain ⟨h1, h2, h3, h4, h5, h6⟩ := hInv
    have hc : evB R.fn2 m (.bin "<" (.var "v4") (.var "v2")) = some false := by
      simp only [consts] at h1 h2
      simp [evB, evI, look, consts, h1, h2]
    simp only [loopN, hc]
    exact ⟨rfl, h1, h2, h3, h4, h5, h6⟩
  | succ k ih =>
    intro fuel i m hk hi0 hib hf hInv
    obtain ⟨fuel', rfl⟩ : ∃ f', fuel = f' + 1 := ⟨fuel - 1, by omega⟩
    have hlt : i < barH := by omega
    obtain ⟨φ', ρ, χ, ls, L, lv, C, sh, win', rows'⟩ := m
    obtain ⟨h1, h2, h3, h4, h5, h6⟩ := hInv
    simp only [consts] at h1 h2 h3
    simp only at h4 h5 h6
    have hm := setCell_mark win' w h c top i h5 h6 hi0
    have hcond : evB R.fn2 ⟨φ', ρ, χ, ls, L, lv, C, sh, win', rows'⟩ (.bin "<" (.var "v4") (.var "v2")) = some true := by
      simp [evB, evI, look, consts, h1, h2, hlt]
    have hbody : exec R bbody fuel' ⟨φ', ρ, χ, ls, L, lv, C, sh, win', rows'⟩ =
        .ok (⟨φ', ("v5.Width", c.width) :: ρ, ("v5", c) :: ("v5.Grapheme", c) :: χ, ls, L, lv, C, sh, setCell win' 0 (top + i) c, rows'⟩, .norm) := by
      xs [bbody, h1, h2, h3, h4]
    have hpost : exec R bpost fuel' ⟨φ', ("v5.Width", c.width) :: ρ, ("v5", c) :: ("v5.Grapheme", c) :: χ, ls, L, lv, C, sh, setCell win' 0 (top + i) c, rows'⟩ =
        .ok (⟨φ', ("v4", i + 1) :: ("v5.Width", c.width) :: ρ, ("v5", c) :: ("v5.Grapheme", c) :: χ, ls, L, lv, C, sh, setCell win' 0 (top + i) c, rows'⟩, .norm) := by
      xs [bpost, h1]
    simp only [loopN, hcond, hbody, hpost]
    refine ih fuel' (i + 1) _ ?_ ?_ ?_ ?_ ?_
    · omega
    · omega
    · omega
    · omega
    · refine ⟨?_, ?_, ?_, ?_, hm.1, hm.2⟩
      · simp [lookup, consts]
      · simp [lookup, consts, h2]
      · simp [lookup, consts, h3]
      · simp [lookupC, h4]

theorem barRows_of (win : Win) (w h : Nat) (c : Ch) (P : Nat → Bool) (hw : 1 ≤ w) (hlen : win.length = h)
    (hrows : ∀ r : Nat, r < h → win[r]? = some (rowOf w c (P r))) :
    barRows win = (List.range h).filter P := by
  unfold barRows
  rw [hlen]
  apply List.filter_congr
  intro r hr
  have hr' : r < h := by simpa using hr
  rw [hrows r hr']
  obtain ⟨w', rfl⟩ : ∃ w', w = w' + 1 := ⟨w - 1, by omega⟩
  cases hP : P r <;> simp [rowOf, List.replicate_succ]

theorem tdiv_le_h (total view : Int) (h : Nat) (h1 : 1 ≤ total) (h2 : view < total) : Int.tdiv (view * h) total ≤ h := by
  by_cases hv : 0 ≤ view
  · have hnn : 0 ≤ view * (h : Int) := Int.mul_nonneg hv (by omega)
    rw [Int.tdiv_eq_ediv_of_nonneg hnn]
    apply Int.ediv_le_of_le_mul (by omega)
    have : view * (h : Int) ≤ total * (h : Int) := Int.mul_le_mul_of_nonneg_right (by omega) (by omega)
    rw [Int.mul_comm (h : Int) total]; exact this
  · have hle : view * (h : Int) ≤ 0 := by
      have := Int.mul_le_mul_of_nonneg_right (show view ≤ 0 by omega) (show (0 : Int) ≤ (h : Int) by omega)
      simpa using this
    have : Int.tdiv (view * (h : Int)) total ≤ 0 := by
      have h3 := Int.tdiv_nonneg (a := -(view * (h : Int))) (b := total) (by omega) (by omega)
      rw [Int.neg_tdiv] at h3
      omega
    omega

theorem bdraw8_run (R : Ro) (f : Nat) (m : M) :
    exec R bdraw8 f m = loopN (fun m => evB R.fn2 m (.bin "<" (.var "v4") (.var "v2"))) (exec R bbody) (exec R bpost) f m := by
  rw [bdraw8_eq]; rfl

theorem bdraw8_ok (R : Ro) (top barH : Int) (c : Ch) (w h : Nat) (k fuel : Nat) (m : M)
    (hk : (barH - 0).toNat = k) (h0 : (0 : Int) ≤ 0) (hb : 0 ≤ barH) (hf : k < fuel) (hInv : BInv top barH c w h 0 m) :
    BRes top barH c w h barH (exec R bdraw8 fuel m) := by
  rw [bdraw8_run]; exact bloop R top barH c w h k fuel 0 m hk h0 hb hf hInv

theorem bres_tail {top barH : Int} {c : Ch} {w h : Nat} {r : Res} : BRes top barH c w h barH r →
    BRes top barH c w h barH (match r with
      | .ok (m', .norm) => .ok (m', .norm)
      | r => r) := by
  intro hr
  match r with
  | .ok (m', .norm) => exact hr
  | .ok (m', .cont) => exact hr
  | .ok (m', .brk) => exact hr
  | .ok (m', .ret _) => exact hr
  | .error _ => exact hr.elim

theorem blank_rows (w h : Nat) (c : Ch) (r : Nat) (hr : r < h) : (blank w h)[r]? = some (rowOf w c false) := by
  simp [blank, rowOf, hr]

theorem bres_rows {top barH : Int} {w h : Nat} {r : Res} (hw : 1 ≤ w) : BRes top barH barCh w h barH r →
    (match r with
      | .error _ => Option.none
      | .ok (m, _) => some (barRows m.win)) =
      some ((List.range h).filter fun (r : Nat) => decide (top ≤ (r : Int) ∧ (r : Int) < top + barH)) := by
  intro hres
  match r with
  | .error _ => exact hres.elim
  | .ok (m, _) =>
    obtain ⟨_, _, _, _, _, g5, g6⟩ := hres
    simp only
    rw [barRows_of m.win w h barCh _ hw g5 g6]

theorem bdraw_run (total view top : Int) (w h fuel : Nat) (ce : Bool) (hw : 1 ≤ w) (hf : h + 2 ≤ fuel) :
    runBar (seqOf bdrawParts) total view top w h fuel ce = some (Scrollbar.rows total view top h) := by
  have hblank : barRows (blank w h) = [] := by
    rw [barRows_of (blank w h) w h barCh (fun _ => false) hw (by simp [blank]) (fun r hr => blank_rows w h barCh r hr)]
    simp
  by_cases c0 : total < 1
  · xs [runBar, bdrawParts, bdraw0, barM, m0, c0, Scrollbar.rows, Scrollbar.bar, hblank]
  · by_cases c1 : view ≥ total
    · xs [runBar, bdrawParts, bdraw0, bdraw1, barM, m0, c0, c1, Scrollbar.rows, Scrollbar.bar, hblank]
    · have ht0 : ¬ total = 0 := by omega
      have hle := tdiv_le_h total view h (by omega) (by omega)
      unfold runBar
      by_cases c2 : Int.tdiv (view * (h : Int)) total < 1
      · have hrows : Scrollbar.rows total view top h =
            (List.range h).filter fun (r : Nat) => decide (Int.tdiv (top * (h : Int)) total ≤ (r : Int) ∧ (r : Int) < Int.tdiv (top * (h : Int)) total + 1) := by
          simp [Scrollbar.rows, Scrollbar.bar, c0, c1, c2]
        rw [hrows]
        refine bres_rows hw ?_
        cases ce <;>
        · xs [bdrawParts, bdraw0, bdraw1, bdraw2, bdraw3, bdraw4, bdraw5, bdraw6, bdraw7, barM, m0, c0, c1, c2, ht0]
          refine bres_tail (bdraw8_ok _ _ 1 barCh w h 1 fuel _ ?_ ?_ ?_ ?_ ?_)
          · rfl
          · omega
          · omega
          · omega
          · refine ⟨?_, ?_, ?_, ?_, ?_, ?_⟩
            · simp [lookup, consts]
            · simp [lookup, consts]
            · simp [lookup, consts]
            · simp [lookupC]
            · simp [blank]
            · intro r hr
              have : (decide (Int.tdiv (top * (h : Int)) total ≤ (r : Int) ∧ (r : Int) < Int.tdiv (top * (h : Int)) total + 0)) = false := by
                simp
              rw [this]; exact blank_rows w h barCh r hr
      · have hrows : Scrollbar.rows total view top h =
            (List.range h).filter fun (r : Nat) => decide (Int.tdiv (top * (h : Int)) total ≤ (r : Int) ∧
              (r : Int) < Int.tdiv (top * (h : Int)) total + Int.tdiv (view * (h : Int)) total) := by
          simp [Scrollbar.rows, Scrollbar.bar, c0, c1, c2]
        rw [hrows]
        refine bres_rows hw ?_
        cases ce <;>
        · xs [bdrawParts, bdraw0, bdraw1, bdraw2, bdraw3, bdraw4, bdraw5, bdraw6, bdraw7, barM, m0, c0, c1, c2, ht0]
          refine bres_tail (bdraw8_ok _ _ (Int.tdiv (view * (h : Int)) total) barCh w h (Int.tdiv (view * (h : Int)) total).toNat fuel _ ?_ ?_ ?_ ?_ ?_)
          · simp
          · omega
          · omega
          · omega
          · refine ⟨?_, ?_, ?_, ?_, ?_, ?_⟩
            · simp [lookup, consts]
            · simp [lookup, consts]
            · simp [lookup, consts]
            · simp [lookupC]
            · simp [blank]
            · intro r hr
              have : (decide (Int.tdiv (top * (h : Int)) total ≤ (r : Int) ∧ (r : Int) < Int.tdiv (top * (h : Int)) total + 0)) = false := by
                simp
              rw [this]; exact blank_rows w h barCh r hr

/-! ### pager `Layout()` on its own, `ScrollDown`, `ScrollUp` -/

theorem play_run (segs : List (List Ch)) (s : Pager.St) (w h : Nat) (fe : Bool) (ht : segs.flatten = s.text) :
    runPager expB expB.pagerLayout segs s w h fe = some (Pager.relayout true s, blank w h) := by
  have hl := play_exec (pagerRo expB segs w h) rfl 0 (pagerM s w h fe) s.width rfl (by simp [pagerM, m0, lookup])
  unfold runPager
  have he : expB.pagerLayout = seqOf playParts := rfl
  rw [he]
  revert hl
  generalize exec (pagerRo expB segs w h) (seqOf playParts) 0 (pagerM s w h fe) = r
  intro hl
  match r, hl with
  | .error _, hf => exact hf.elim
  | .ok (m', c), ⟨_, g1, g2, g3, _⟩ =>
    simp only [pagerSt, g1, g2, g3, pagerM, m0, lookup]
    simp [Pager.relayout, pagerRo, ht]

theorem pscroll_run (segs : List (List Ch)) (s : Pager.St) (w h : Nat) (fe : Bool) (ht : segs.flatten = s.text) :
    runPager expB expB.pagerScrollDown segs s w h fe = some (Pager.scrollDown s, blank w h) ∧
    runPager expB expB.pagerScrollUp segs s w h fe = some (Pager.scrollUp s, blank w h) := by
  constructor
  · xs [runPager, expB, pdownParts, pdown0, pagerM, pagerSt, m0, Pager.scrollDown, ht]
  · xs [runPager, expB, pupParts, pup0, pagerM, pagerSt, m0, Pager.scrollUp, ht]

end VaxisModel.Lemmas.WidExec
