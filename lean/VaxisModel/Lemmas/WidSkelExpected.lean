import VaxisModel.Model.GoSyn

/-! The statement skeletons of widgets/list/list.go, widgets/pager/pager.go and widgets/scrollbar/scrollbar.go
    that `Lemmas/WidExec.lean` executes (a copy of `Gen/WidSkel.lean` as of /repo HEAD when the lemmas were written).
    `Props/C19Wid.wid_bodies_as_expected` proves the regenerated skeletons equal to these: a change of the source
    shows up as that theorem failing, naming the function. -/
namespace VaxisModel.Lemmas.WidSkelExpected
open VaxisModel.Model.GoSyn

/-- `widgets/list min` -/
def listMin : List Line := [
  ⟨0, .ifS, (.bin "<" (.var "v0") (.var "v1")), .none⟩,
  ⟨1, .returnS, (.var "v0"), .none⟩,
  ⟨0, .returnS, (.var "v1"), .none⟩]

/-- `widgets/list max` -/
def listMax : List Line := [
  ⟨0, .ifS, (.bin ">" (.var "v0") (.var "v1")), .none⟩,
  ⟨1, .returnS, (.var "v0"), .none⟩,
  ⟨0, .returnS, (.var "v1"), .none⟩]

/-- `widgets/list New` -/
def listNew : List Line := [
  ⟨0, .returnS, (.arg (.call (.lit "List{}")) (.pair (.var "items") (.var "v0"))), .none⟩]

/-- `List.Index` -/
def listIndex : List Line := [
  ⟨0, .returnS, (.var "d.index"), .none⟩]

/-- `List.Draw` -/
def listDraw : List Line := [
  ⟨0, .define, (.pair (.var "_") (.var "v1")), (.call (.var "v0.Size"))⟩,
  ⟨0, .ifS, (.bin "==" (.arg (.call (.var "len")) (.var "d.items")) (.int 0)), .none⟩,
  ⟨1, .returnS, .none, .none⟩,
  ⟨0, .ifS, (.bin ">=" (.var "d.index") (.bin "+" (.var "d.offset") (.var "v1"))), .none⟩,
  ⟨1, .assign, (.var "d.offset"), (.bin "+" (.bin "-" (.var "d.index") (.var "v1")) (.int 1))⟩,
  ⟨0, .elseS, .none, .none⟩,
  ⟨1, .ifS, (.bin "<" (.var "d.index") (.var "d.offset")), .none⟩,
  ⟨2, .assign, (.var "d.offset"), (.var "d.index")⟩,
  ⟨0, .define, (.var "v2"), (.lit "vaxis.Style{}")⟩,
  ⟨0, .define, (.var "v3"), (.arg (.call (.lit "vaxis.Style{}")) (.pair (.var "Attribute") (.var "vaxis.AttrReverse")))⟩,
  ⟨0, .define, (.var "v4"), (.bin "-" (.var "d.index") (.var "d.offset"))⟩,
  ⟨0, .rangeS, (.pair (.var "v5") (.var "v6")), (.bin "[:]" (.var "d.items") (.pair (.var "d.offset") .none))⟩,
  ⟨1, .varS, (.var "v7"), (.lit "vaxis.Style")⟩,
  ⟨1, .ifS, (.bin "==" (.var "v5") (.var "v4")), .none⟩,
  ⟨2, .assign, (.var "v7"), (.var "v3")⟩,
  ⟨1, .elseS, .none, .none⟩,
  ⟨2, .assign, (.var "v7"), (.var "v2")⟩,
  ⟨1, .exprS, (.arg (.arg (.call (.var "v0.Println")) (.var "v5")) (.arg (.arg (.call (.lit "vaxis.Segment{}")) (.pair (.var "Style") (.var "v7"))) (.pair (.var "Text") (.var "v6")))), .none⟩]

/-- `List.Down` -/
def listDown : List Line := [
  ⟨0, .assign, (.var "d.index"), (.arg (.arg (.call (.var "max")) (.int 0)) (.arg (.arg (.call (.var "min")) (.bin "-" (.arg (.call (.var "len")) (.var "d.items")) (.int 1))) (.bin "+" (.var "d.index") (.int 1))))⟩]

/-- `List.Up` -/
def listUp : List Line := [
  ⟨0, .assign, (.var "d.index"), (.arg (.arg (.call (.var "max")) (.int 0)) (.bin "-" (.var "d.index") (.int 1)))⟩]

/-- `List.Home` -/
def listHome : List Line := [
  ⟨0, .assign, (.var "d.index"), (.int 0)⟩]

/-- `List.End` -/
def listEnd : List Line := [
  ⟨0, .assign, (.var "d.index"), (.arg (.arg (.call (.var "max")) (.int 0)) (.bin "-" (.arg (.call (.var "len")) (.var "d.items")) (.int 1)))⟩]

/-- `List.PageDown` -/
def listPageDown : List Line := [
  ⟨0, .define, (.pair (.var "_") (.var "v1")), (.call (.var "v0.Size"))⟩,
  ⟨0, .assign, (.var "d.index"), (.arg (.arg (.call (.var "max")) (.int 0)) (.arg (.arg (.call (.var "min")) (.bin "-" (.arg (.call (.var "len")) (.var "d.items")) (.int 1))) (.bin "+" (.var "d.index") (.var "v1"))))⟩]

/-- `List.PageUp` -/
def listPageUp : List Line := [
  ⟨0, .define, (.pair (.var "_") (.var "v1")), (.call (.var "v0.Size"))⟩,
  ⟨0, .assign, (.var "d.index"), (.arg (.arg (.call (.var "max")) (.int 0)) (.bin "-" (.var "d.index") (.var "v1")))⟩]

/-- `List.SetItems` -/
def listSetItems : List Line := [
  ⟨0, .assign, (.var "d.items"), (.var "v0")⟩,
  ⟨0, .assign, (.var "d.index"), (.arg (.arg (.call (.var "max")) (.int 0)) (.arg (.arg (.call (.var "min")) (.bin "-" (.arg (.call (.var "len")) (.var "v0")) (.int 1))) (.var "d.index")))⟩]

/-- `pager Model.Draw` -/
def pagerDraw : List Line := [
  ⟨0, .define, (.pair (.var "v1") (.var "v2")), (.call (.var "v0.Size"))⟩,
  ⟨0, .ifS, (.bin "!=" (.var "v1") (.var "d.width")), .none⟩,
  ⟨1, .assign, (.var "d.width"), (.var "v1")⟩,
  ⟨1, .exprS, (.call (.var "d.Layout")), .none⟩,
  ⟨0, .ifS, (.bin "<" (.bin "-" (.arg (.call (.var "len")) (.var "d.lines")) (.var "d.Offset")) (.var "v2")), .none⟩,
  ⟨1, .assign, (.var "d.Offset"), (.bin "-" (.arg (.call (.var "len")) (.var "d.lines")) (.var "v2"))⟩,
  ⟨0, .ifS, (.bin "<" (.var "d.Offset") (.int 0)), .none⟩,
  ⟨1, .assign, (.var "d.Offset"), (.int 0)⟩,
  ⟨0, .ifS, (.bin "==" (.var "d.Fill.Grapheme") (.lit "\"\"")), .none⟩,
  ⟨1, .assign, (.var "d.Fill.Character"), (.var "defaultFill")⟩,
  ⟨0, .exprS, (.arg (.call (.var "v0.Fill")) (.var "d.Fill")), .none⟩,
  ⟨0, .rangeS, (.pair (.var "v3") (.var "v4")), (.var "d.lines")⟩,
  ⟨1, .ifS, (.bin "<" (.var "v3") (.var "d.Offset")), .none⟩,
  ⟨2, .continueS, .none, .none⟩,
  ⟨1, .ifS, (.bin ">=" (.bin "-" (.var "v3") (.var "d.Offset")) (.var "v2")), .none⟩,
  ⟨2, .returnS, .none, .none⟩,
  ⟨1, .define, (.var "v5"), (.int 0)⟩,
  ⟨1, .rangeS, (.pair (.var "_") (.var "v6")), (.var "v4.characters")⟩,
  ⟨2, .exprS, (.arg (.arg (.arg (.call (.var "v0.SetCell")) (.var "v5")) (.bin "-" (.var "v3") (.var "d.Offset"))) (.var "v6")), .none⟩,
  ⟨2, .addAssign, (.var "v5"), (.var "v6.Width")⟩]

/-- `pager Model.Layout` -/
def pagerLayout : List Line := [
  ⟨0, .assign, (.var "d.lines"), (.lit "[]*line{}")⟩,
  ⟨0, .define, (.var "v0"), (.un "&" (.lit "line{}"))⟩,
  ⟨0, .define, (.var "v1"), (.int 0)⟩,
  ⟨0, .rangeS, (.pair (.var "_") (.var "v2")), (.var "d.Segments")⟩,
  ⟨1, .rangeS, (.pair (.var "_") (.var "v3")), (.arg (.call (.var "vaxis.Characters")) (.var "v2.Text"))⟩,
  ⟨2, .ifS, (.arg (.arg (.call (.var "strings.ContainsRune")) (.var "v3.Grapheme")) (.lit "'\\n'")), .none⟩,
  ⟨3, .assign, (.var "d.lines"), (.arg (.arg (.call (.var "append")) (.var "d.lines")) (.var "v0"))⟩,
  ⟨3, .assign, (.var "v0"), (.un "&" (.lit "line{}"))⟩,
  ⟨3, .assign, (.var "v1"), (.int 0)⟩,
  ⟨3, .continueS, .none, .none⟩,
  ⟨2, .define, (.var "v4"), (.arg (.arg (.call (.lit "vaxis.Cell{}")) (.pair (.var "Character") (.var "v3"))) (.pair (.var "Style") (.var "v2.Style")))⟩,
  ⟨2, .exprS, (.arg (.call (.var "v0.append")) (.var "v4")), .none⟩,
  ⟨2, .addAssign, (.var "v1"), (.var "v3.Width")⟩,
  ⟨2, .ifS, (.bin ">=" (.var "v1") (.var "d.width")), .none⟩,
  ⟨3, .assign, (.var "d.lines"), (.arg (.arg (.call (.var "append")) (.var "d.lines")) (.var "v0"))⟩,
  ⟨3, .assign, (.var "v0"), (.un "&" (.lit "line{}"))⟩,
  ⟨3, .assign, (.var "v1"), (.int 0)⟩,
  ⟨0, .ifS, (.bin ">" (.arg (.call (.var "len")) (.var "v0.characters")) (.int 0)), .none⟩,
  ⟨1, .assign, (.var "d.lines"), (.arg (.arg (.call (.var "append")) (.var "d.lines")) (.var "v0"))⟩]

/-- `pager Model.ScrollDown` -/
def pagerScrollDown : List Line := [
  ⟨0, .addAssign, (.var "d.Offset"), (.int 1)⟩]

/-- `pager Model.ScrollUp` -/
def pagerScrollUp : List Line := [
  ⟨0, .subAssign, (.var "d.Offset"), (.int 1)⟩]

/-- `pager line.append` -/
def lineAppend : List Line := [
  ⟨0, .assign, (.var "d.characters"), (.arg (.arg (.call (.var "append")) (.var "d.characters")) (.var "v0"))⟩]

/-- `scrollbar Model.Draw` -/
def barDraw : List Line := [
  ⟨0, .ifS, (.bin "<" (.var "d.TotalHeight") (.int 1)), .none⟩,
  ⟨1, .returnS, .none, .none⟩,
  ⟨0, .ifS, (.bin ">=" (.var "d.ViewHeight") (.var "d.TotalHeight")), .none⟩,
  ⟨1, .returnS, .none, .none⟩,
  ⟨0, .define, (.pair (.var "_") (.var "v1")), (.call (.var "v0.Size"))⟩,
  ⟨0, .define, (.var "v2"), (.bin "/" (.bin "*" (.var "d.ViewHeight") (.var "v1")) (.var "d.TotalHeight"))⟩,
  ⟨0, .ifS, (.bin "<" (.var "v2") (.int 1)), .none⟩,
  ⟨1, .assign, (.var "v2"), (.int 1)⟩,
  ⟨0, .define, (.var "v3"), (.bin "/" (.bin "*" (.var "d.Top") (.var "v1")) (.var "d.TotalHeight"))⟩,
  ⟨0, .ifS, (.bin "==" (.var "d.Character.Grapheme") (.lit "\"\"")), .none⟩,
  ⟨1, .assign, (.var "d.Character"), (.var "defaultChar")⟩,
  ⟨0, .forInit, .none, .none⟩,
  ⟨1, .define, (.var "v4"), (.int 0)⟩,
  ⟨0, .forS, (.bin "<" (.var "v4") (.var "v2")), .none⟩,
  ⟨1, .define, (.var "v5"), (.arg (.arg (.call (.lit "vaxis.Cell{}")) (.pair (.var "Character") (.var "d.Character"))) (.pair (.var "Style") (.var "d.Style")))⟩,
  ⟨1, .exprS, (.arg (.arg (.arg (.call (.var "v0.SetCell")) (.int 0)) (.bin "+" (.var "v3") (.var "v4"))) (.var "v5")), .none⟩,
  ⟨1, .forPost, .none, .none⟩,
  ⟨2, .addAssign, (.var "v4"), (.int 1)⟩]

end VaxisModel.Lemmas.WidSkelExpected
