/-
Helper lemmas for C11: reading the screen after a write; `Win.put` is a guarded screen write at
origin + offset; folds of `SetCell`.
-/
import VaxisModel.Model.Window
import VaxisModel.Spec.Window

namespace VaxisModel.Lemmas.Window
open VaxisModel.Model.Window VaxisModel.Spec.Window

/-! ### screen -/

theorem get_update (s : Screen) (col row : Int) (f : Cell → Cell) (hc : 0 ≤ col) (hr : 0 ≤ row)
    (x y : Int) :
    (s.update col row f).get x y = if x = col ∧ y = row then (s.get x y).map f else s.get x y := by
  unfold Screen.get Screen.update
  by_cases hneg : x < 0 ∨ y < 0
  · simp only [hneg, if_true]
    split <;> rfl
  · simp only [hneg, if_false]
    have hx : 0 ≤ x := by omega
    have hy : 0 ≤ y := by omega
    rw [List.getElem?_modify]
    cases hrow : s.buf[y.toNat]? with
    | none => simp
    | some l =>
      simp only [Option.map_eq_map, Option.map_some]
      by_cases hyr : y = row
      · subst hyr
        simp only [if_true, and_true]
        rw [List.getElem?_modify]
        by_cases hxc : x = col
        · subst hxc
          simp only [if_true]
          cases l[x.toNat]? <;> rfl
        · have : col.toNat ≠ x.toNat := by omega
          simp only [hxc, this, if_false]
          cases l[x.toNat]? <;> rfl
      · have : row.toNat ≠ y.toNat := by omega
        simp only [this, if_false, hyr, and_false]

theorem guard_iff (s : Screen) (col row : Int) :
    s.guard col row = true ↔ inScreen s col row := by
  unfold Screen.guard inScreen
  split
  · simp; omega
  · split
    · simp; omega
    · split
      · simp; omega
      · simp; omega

/-- Reading after `screenPut`: only the addressed cell, and only if it is inside the screen. -/
theorem get_screenPut (s : Screen) (col row : Int) (p : Win.Put) (x y : Int) :
    (Win.screenPut s col row p).get x y =
      if x = col ∧ y = row ∧ inScreen s col row then (s.get x y).map p.apply else s.get x y := by
  cases p with
  | cell c =>
    simp only [Win.screenPut, Screen.setCell]
    by_cases hg : s.guard col row = true
    · have hin := (guard_iff s col row).1 hg
      have h0 : 0 ≤ col ∧ 0 ≤ row := ⟨hin.1, hin.2.2.1⟩
      simp only [hg, if_true, get_update s col row _ h0.1 h0.2, hin, and_true]
      split <;> rfl
    · have hin : ¬ inScreen s col row := fun h => hg ((guard_iff s col row).2 h)
      simp [hg, hin]
  | style st =>
    simp only [Win.screenPut, Screen.setStyle]
    by_cases hg : s.guard col row = true
    · have hin := (guard_iff s col row).1 hg
      have h0 : 0 ≤ col ∧ 0 ≤ row := ⟨hin.1, hin.2.2.1⟩
      simp only [hg, if_true, get_update s col row _ h0.1 h0.2, hin, and_true]
      split <;> rfl
    · have hin : ¬ inScreen s col row := fun h => hg ((guard_iff s col row).2 h)
      simp [hg, hin]

theorem screenPut_dims (s : Screen) (col row : Int) (p : Win.Put) :
    (Win.screenPut s col row p).cols = s.cols ∧ (Win.screenPut s col row p).rows = s.rows := by
  cases p <;> simp only [Win.screenPut, Screen.setCell, Screen.setStyle, Screen.update] <;> split <;> simp

/-! ### window -/

theorem origin_eq_absOrigin (win : Win) : win.origin = absOrigin win := by
  induction win with
  | root c r w h => rfl
  | child c r w h p ih => simp [Win.origin, absOrigin, ih]

theorem winGuard_iff (win : Win) (col row : Int) :
    win.guard col row = true ↔ (0 ≤ col ∧ col < win.width ∧ 0 ≤ row ∧ row < win.height) := by
  unfold Win.guard
  split
  · simp; omega
  · split
    · simp; omega
    · simp; omega

/-- `put` = a screen write at origin + offset, performed iff that absolute cell lies in the
rectangle of the window and of every ancestor. -/
theorem put_eq (win : Win) (s : Screen) (col row : Int) (p : Win.Put) :
    win.put s col row p =
      if covers win ((absOrigin win).1 + col) ((absOrigin win).2 + row)
      then Win.screenPut s ((absOrigin win).1 + col) ((absOrigin win).2 + row) p else s := by
  induction win generalizing col row with
  | root c r w h =>
    simp only [Win.put, covers, inOwnRect, absOrigin]
    by_cases hg : (Win.root c r w h).guard col row = true
    · have := (winGuard_iff _ col row).1 hg
      simp only [Win.width, Win.height] at this
      have hc : c ≤ c + col ∧ c + col < c + w ∧ r ≤ r + row ∧ r + row < r + h := by
        omega
      simp only [hg, if_true, Win.width, Win.height, hc, and_self]
      rw [Int.add_comm col c, Int.add_comm row r]
    · have hn : ¬ (c ≤ c + col ∧ c + col < c + w ∧ r ≤ r + row ∧ r + row < r + h) := by
        intro hc; apply hg; rw [winGuard_iff]; simp only [Win.width, Win.height]; omega
      simp only [hg, Win.width, Win.height, hn]
      simp
  | child c r w h par ih =>
    simp only [Win.put, covers, inOwnRect, absOrigin]
    by_cases hg : (Win.child c r w h par).guard col row = true
    · have := (winGuard_iff _ col row).1 hg
      simp only [Win.width, Win.height] at this
      simp only [hg, if_true, Win.width, Win.height]
      rw [ih]
      have e1 : (absOrigin par).1 + (col + c) = (absOrigin par).1 + c + col := by omega
      have e2 : (absOrigin par).2 + (row + r) = (absOrigin par).2 + r + row := by omega
      rw [e1, e2]
      have hc : (absOrigin par).1 + c ≤ (absOrigin par).1 + c + col ∧
          (absOrigin par).1 + c + col < (absOrigin par).1 + c + w ∧
          (absOrigin par).2 + r ≤ (absOrigin par).2 + r + row ∧
          (absOrigin par).2 + r + row < (absOrigin par).2 + r + h := by omega
      simp only [hc, and_self, true_and]
    · have hn : ¬ ((absOrigin par).1 + c ≤ (absOrigin par).1 + c + col ∧
          (absOrigin par).1 + c + col < (absOrigin par).1 + c + w ∧
          (absOrigin par).2 + r ≤ (absOrigin par).2 + r + row ∧
          (absOrigin par).2 + r + row < (absOrigin par).2 + r + h) := by
        intro hc; apply hg; rw [winGuard_iff]; simp only [Win.width, Win.height]; omega
      simp only [hg, Win.width, Win.height, hn]
      simp

/-- Reading the screen after a window write. -/
theorem get_put (win : Win) (s : Screen) (col row : Int) (p : Win.Put) (x y : Int) :
    (win.put s col row p).get x y =
      if x = (absOrigin win).1 + col ∧ y = (absOrigin win).2 + row ∧ visible win s x y
      then (s.get x y).map p.apply else s.get x y := by
  rw [put_eq]
  by_cases hcov : covers win ((absOrigin win).1 + col) ((absOrigin win).2 + row)
  · simp only [hcov, if_true, get_screenPut]
    by_cases hx : x = (absOrigin win).1 + col
    · by_cases hy : y = (absOrigin win).2 + row
      · subst hx; subst hy
        simp only [true_and, visible, hcov]
      · simp [hy]
    · simp [hx]
  · simp only [hcov, if_false]
    by_cases hx : x = (absOrigin win).1 + col
    · by_cases hy : y = (absOrigin win).2 + row
      · subst hx; subst hy
        simp [visible, hcov]
      · simp [hy]
    · simp [hx]

theorem put_dims (win : Win) (s : Screen) (col row : Int) (p : Win.Put) :
    (win.put s col row p).cols = s.cols ∧ (win.put s col row p).rows = s.rows := by
  rw [put_eq]
  split
  · exact screenPut_dims ..
  · exact ⟨rfl, rfl⟩

/-! ### folds of SetCell -/

theorem applyOps_dims (win : Win) (ops : List Op) (s : Screen) :
    (applyOps win s ops).cols = s.cols ∧ (applyOps win s ops).rows = s.rows := by
  induction ops generalizing s with
  | nil => exact ⟨rfl, rfl⟩
  | cons o rest ih =>
    simp only [applyOps, List.foldl_cons]
    have h1 := ih (win.setCell s o.col o.row o.cell)
    have h2 := put_dims win s o.col o.row (.cell o.cell)
    simp only [applyOps, Win.setCell] at h1 h2 ⊢
    exact ⟨h1.1.trans h2.1, h1.2.trans h2.2⟩

theorem visible_congr (win : Win) (s s' : Screen) (hc : s'.cols = s.cols) (hr : s'.rows = s.rows)
    (x y : Int) : visible win s' x y ↔ visible win s x y := by
  simp only [visible, inScreen, hc, hr]

/-- A cell changed by a fold of `SetCell`s is changed by one of them: it is the target
(origin + offset) of some call in the list and it is visible. -/
theorem applyOps_changed (win : Win) (ops : List Op) (s : Screen) (x y : Int)
    (h : (applyOps win s ops).get x y ≠ s.get x y) :
    visible win s x y ∧
    ∃ o ∈ ops, x = (absOrigin win).1 + o.col ∧ y = (absOrigin win).2 + o.row := by
  induction ops generalizing s with
  | nil => exact absurd rfl h
  | cons o rest ih =>
    simp only [applyOps, List.foldl_cons] at h
    let s1 := win.setCell s o.col o.row o.cell
    have hd := put_dims win s o.col o.row (.cell o.cell)
    by_cases h1 : (applyOps win s1 rest).get x y = s1.get x y
    · -- changed by the head
      have h2 : s1.get x y ≠ s.get x y := by
        intro e; apply h; simp only [applyOps] at h1; exact h1.trans e
      simp only [s1, Win.setCell, get_put] at h2
      split at h2
      · rename_i hc
        exact ⟨hc.2.2, o, List.mem_cons_self, hc.1, hc.2.1⟩
      · exact absurd rfl h2
    · obtain ⟨hv, o', ho', hxy⟩ := ih s1 h1
      refine ⟨(visible_congr win s s1 hd.1 hd.2 x y).1 hv, o', List.mem_cons_of_mem _ ho', hxy⟩

/-! ### more on clipping -/

theorem covers_iff_chain' (win : Win) (x y : Int) :
    covers win x y ↔ ∀ a ∈ chain win, inOwnRect a x y := by
  induction win with
  | root c r w h => simp [covers, chain]
  | child c r w h p ih => simp [covers, chain, ih]

theorem screenPut_outside (s : Screen) (col row : Int) (p : Win.Put) (h : ¬ inScreen s col row) :
    Win.screenPut s col row p = s := by
  have hg : ¬ s.guard col row = true := fun hg => h ((guard_iff s col row).1 hg)
  cases p <;> simp [Win.screenPut, Screen.setCell, Screen.setStyle, hg]

theorem put_invisible (win : Win) (s : Screen) (c r : Int) (p : Win.Put)
    (hv : ¬ visible win s ((absOrigin win).1 + c) ((absOrigin win).2 + r)) :
    win.put s c r p = s := by
  rw [put_eq]
  split
  · rename_i hc
    exact screenPut_outside s _ _ p (fun hin => hv ⟨hc, hin⟩)
  · rfl

/-! ### well-formed screens: the index expressions are in range -/

theorem index_ok (s : Screen) (hwf : s.WF) (col row : Int) (hg : s.guard col row = true) :
    row.toNat < s.buf.length ∧ ∀ l, s.buf[row.toNat]? = some l → col.toNat < l.length := by
  have hin := (guard_iff s col row).1 hg
  obtain ⟨hc, hr, hlen, hrows⟩ := hwf
  unfold inScreen at hin
  refine ⟨by omega, ?_⟩
  intro l hl
  have hm : l ∈ s.buf := List.mem_iff_getElem?.2 ⟨_, hl⟩
  rw [hrows l hm]; omega

theorem wf_resize (cols rows : Int) (hc : 0 ≤ cols) (hr : 0 ≤ rows) : (Screen.resize cols rows).WF := by
  refine ⟨hc, hr, by simp [Screen.resize], ?_⟩
  intro l hl
  simp only [Screen.resize] at hl
  rw [(List.mem_replicate.1 hl).2]; simp [Screen.resize]

theorem wf_update (s : Screen) (hwf : s.WF) (col row : Int) (f : Cell → Cell) : (s.update col row f).WF := by
  obtain ⟨hc, hr, hlen, hrows⟩ := hwf
  refine ⟨hc, hr, by simp [Screen.update, hlen], ?_⟩
  intro l hl
  simp only [Screen.update] at hl
  obtain ⟨i, hi⟩ := List.mem_iff_getElem?.1 hl
  rw [List.getElem?_modify] at hi
  cases hb : s.buf[i]? with
  | none => simp [hb] at hi
  | some l0 =>
    have hm : l0 ∈ s.buf := List.mem_iff_getElem?.2 ⟨_, hb⟩
    simp only [hb, Option.map_eq_map, Option.map_some, Option.some.injEq] at hi
    rw [← hi]
    split
    · simp [hrows l0 hm, Screen.update]
    · exact hrows l0 hm

theorem wf_screenPut (s : Screen) (hwf : s.WF) (col row : Int) (p : Win.Put) : (Win.screenPut s col row p).WF := by
  cases p <;> simp only [Win.screenPut, Screen.setCell, Screen.setStyle] <;> split <;>
    first | exact wf_update s hwf _ _ _ | exact hwf

theorem wf_put (win : Win) (s : Screen) (hwf : s.WF) (c r : Int) (p : Win.Put) : (win.put s c r p).WF := by
  rw [put_eq]
  split
  · exact wf_screenPut s hwf _ _ p
  · exact hwf

theorem get_some_of_inScreen (s : Screen) (hwf : s.WF) (x y : Int) (h : inScreen s x y) :
    ∃ v, s.get x y = some v := by
  obtain ⟨hc, hr, hlen, hrows⟩ := hwf
  unfold inScreen at h
  unfold Screen.get
  have hneg : ¬ (x < 0 ∨ y < 0) := by omega
  simp only [hneg, if_false]
  have hy : y.toNat < s.buf.length := by omega
  rw [List.getElem?_eq_getElem hy]
  have hm : s.buf[y.toNat] ∈ s.buf := List.getElem_mem hy
  have hx : x.toNat < (s.buf[y.toNat]).length := by rw [hrows _ hm]; omega
  exact ⟨_, List.getElem?_eq_getElem hx⟩

/-! ### Fill reaches every visible cell -/

theorem mem_upTo (n k : Int) : k ∈ upTo n ↔ 0 ≤ k ∧ k < n := by
  simp only [upTo, List.mem_map, List.mem_range]
  constructor
  · rintro ⟨a, ha, rfl⟩; simp only [Int.ofNat_eq_natCast]; omega
  · intro h; exact ⟨k.toNat, by omega, by simp; omega⟩

theorem applyOps_const (win : Win) (c : Cell) (x y : Int) (ops : List Op) (s : Screen)
    (hall : ∀ o ∈ ops, o.cell = c) (hs : (s.get x y).isSome) (hv : visible win s x y)
    (h : s.get x y = some c ∨ ∃ o ∈ ops, x = (absOrigin win).1 + o.col ∧ y = (absOrigin win).2 + o.row) :
    (applyOps win s ops).get x y = some c := by
  induction ops generalizing s with
  | nil =>
    rcases h with h | ⟨o, ho, _⟩
    · exact h
    · cases ho
  | cons o rest ih =>
    simp only [applyOps, List.foldl_cons]
    have hd := put_dims win s o.col o.row (.cell o.cell)
    have hg := get_put win s o.col o.row (.cell o.cell) x y
    have hoc : o.cell = c := hall o List.mem_cons_self
    apply ih (win.setCell s o.col o.row o.cell) (fun o' ho' => hall o' (List.mem_cons_of_mem _ ho'))
    · simp only [Win.setCell, hg]; split
      · cases hq : s.get x y with
        | none => simp [hq] at hs
        | some v => rfl
      · exact hs
    · exact (visible_congr win s _ hd.1 hd.2 x y).2 hv
    · by_cases ht : x = (absOrigin win).1 + o.col ∧ y = (absOrigin win).2 + o.row
      · left
        simp only [Win.setCell, hg, ht.1.symm, ht.2.symm, hv, and_self, if_true]
        cases hq : s.get x y with
        | none => simp [hq] at hs
        | some v => simp [Win.Put.apply, hoc]
      · rcases h with h | ⟨o', ho', hxy⟩
        · left
          simp only [Win.setCell, hg]
          split
          · rename_i hc; exact absurd ⟨hc.1, hc.2.1⟩ ht
          · exact h
        · rcases List.mem_cons.1 ho' with rfl | hr
          · exact absurd hxy ht
          · exact Or.inr ⟨o', hr, hxy⟩

theorem covers_own (win : Win) (x y : Int) (h : covers win x y) : inOwnRect win x y := by
  cases win <;> simp only [covers] at h
  · exact h
  · exact h.1

theorem fill_reaches (win : Win) (s : Screen) (hwf : s.WF) (c : Cell) (x y : Int)
    (hv : visible win s x y) : (fill win s c).get x y = some c := by
  obtain ⟨v, hsome⟩ := get_some_of_inScreen s hwf x y hv.2
  have hown := covers_own win x y hv.1
  unfold inOwnRect at hown
  apply applyOps_const win c x y (fillOps win c) s
  · intro o ho
    simp only [fillOps, List.mem_flatMap, List.mem_map] at ho
    obtain ⟨_, _, _, _, rfl⟩ := ho
    rfl
  · simp [hsome]
  · exact hv
  · right
    refine ⟨{ col := x - (absOrigin win).1, row := y - (absOrigin win).2, cell := c }, ?_, by simp; omega, by simp; omega⟩
    simp only [fillOps, List.mem_flatMap, List.mem_map]
    exact ⟨y - (absOrigin win).2, (mem_upTo _ _).2 (by omega), x - (absOrigin win).1, (mem_upTo _ _).2 (by omega), rfl⟩

/-! ### the window `New` creates -/

theorem width_root (c r w h : Int) : (Win.root c r w h).width = w := rfl
theorem height_root (c r w h : Int) : (Win.root c r w h).height = h := rfl
theorem width_child (c r w h : Int) (p : Win) : (Win.child c r w h p).width = w := rfl
theorem height_child (c r w h : Int) (p : Win) : (Win.child c r w h p).height = h := rfl

/-- Whatever `New` clamps, the region of the new window is the requested rectangle (at the parent's
origin + offset) intersected with the parent's region. -/
theorem covers_new (win : Win) (c r W H : Int) (hW : 0 ≤ W) (hH : 0 ≤ H) (x y : Int) :
    covers (win.new c r W H) x y ↔
      (((absOrigin win).1 + c ≤ x ∧ x < (absOrigin win).1 + c + W ∧
        (absOrigin win).2 + r ≤ y ∧ y < (absOrigin win).2 + r + H) ∧ covers win x y) := by
  have hW' : ¬ W < 0 := by omega
  have hH' : ¬ H < 0 := by omega
  simp only [Win.new, covers, inOwnRect, absOrigin, width_child, height_child, hW', hH', if_false]
  constructor
  · rintro ⟨h1, h2⟩
    have ho := covers_own win x y h2
    unfold inOwnRect at ho
    refine ⟨?_, h2⟩
    by_cases a : W + c > win.width <;> by_cases b : H + r > win.height <;>
      simp only [a, b, if_true, if_false] at h1 <;> omega
  · rintro ⟨h1, h2⟩
    have ho := covers_own win x y h2
    unfold inOwnRect at ho
    refine ⟨?_, h2⟩
    by_cases a : W + c > win.width <;> by_cases b : H + r > win.height <;>
      simp only [a, b, if_true, if_false] <;> omega

theorem absOrigin_new (win : Win) (c r W H : Int) :
    absOrigin (win.new c r W H) = ((absOrigin win).1 + c, (absOrigin win).2 + r) := by
  simp [Win.new, absOrigin]

/-! ### continuation columns of a wide cluster -/

/-- In a right-nested chain, a point of the clip region can be moved right as far as the window's
own right edge without leaving the clip region. -/
theorem covers_extend (win : Win) (hn : rightNested win) (x x' y : Int) (h : covers win x y)
    (h1 : x ≤ x') (h2 : x' < (absOrigin win).1 + win.width) : covers win x' y := by
  induction win generalizing x x' with
  | root c r w h' =>
    simp only [covers, inOwnRect, absOrigin, width_root] at h h2 ⊢
    omega
  | child c r w h' p ih =>
    simp only [covers, inOwnRect, absOrigin, width_child, height_child] at h h2 ⊢
    simp only [rightNested] at hn
    refine ⟨by omega, ih hn.2 x x' h.2 h1 (by omega)⟩

/-- `New` makes a right-nested child of a right-nested window, whatever its arguments. -/
theorem rightNested_new (win : Win) (hn : rightNested win) (c r W H : Int) :
    rightNested (win.new c r W H) := by
  simp only [Win.new, rightNested]
  refine ⟨?_, hn⟩
  split
  · omega
  · split <;> omega

theorem rightNested_ofScreen (s : Screen) : rightNested (Win.ofScreen s) := trivial

end VaxisModel.Lemmas.Window
