/-
Row-level display lemmas for C11's observation point ("the set of screen cells whose rendered
content changes, observed through the reference terminal after a Render"): what
`Spec.Expected.expectedRowC` shows outside a column interval `[a,b)` depends only on the cells
outside the interval, provided no glyph whose cell lies left of `b` extends to `b` or beyond
(`NoOverhang`).
-/
import VaxisModel.Spec.ExpectedClip

namespace VaxisModel.Lemmas.WindowDisplay
open VaxisModel.Spec.Expected VaxisModel.Spec.Display
open VaxisModel.Model.Render (Cell Caps)

/-- No cell at a column `p < b` holds a glyph that reaches column `b` (whether or not the cell is
    itself hidden under a glyph to its left); a glyph that does not fit in the row at all is shown as
    a blank of width 1 and reaches nothing. -/
def NoOverhang (cw : String → Nat) (r : List Cell) (b : Nat) : Prop :=
  ∀ p c, p < b → r[p]? = some c → p + (cellWidth cw c).toNat ≤ b ∨ r.length < p + (cellWidth cw c).toNat

/-- From column `b` on, the display is that of the cells from column `b` on. -/
theorem expectedRowC_drop (cw : String → Nat) (caps : Caps) :
    ∀ (r : List Cell) (skip b : Nat), skip ≤ b → b ≤ r.length → NoOverhang cw r b →
      (expectedRowC cw caps skip r).drop b = expectedRowC cw caps 0 (r.drop b) := by
  intro r
  induction r with
  | nil => intro skip b _ hb _; simp at hb; subst hb; cases skip <;> simp [expectedRowC]
  | cons c cs ih =>
    intro skip b hs hb hno
    cases b with
    | zero =>
      have : skip = 0 := by omega
      subst this; simp
    | succ b' =>
      have hno' : NoOverhang cw cs b' := by
        intro p c' hp hc'
        have := hno (p + 1) c' (by omega) (by simpa using hc')
        simp only [List.length_cons] at this
        omega
      have hb' : b' ≤ cs.length := by simpa using hb
      cases skip with
      | succ k =>
        simp only [expectedRowC, List.drop_succ_cons]
        exact ih k b' (by omega) hb' hno'
      | zero =>
        have h0 := hno 0 c (by omega) (by simp)
        simp only [List.length_cons] at h0
        simp only [expectedRowC]
        split
        · simp only [List.drop_succ_cons]
          exact ih _ b' (by omega) hb' hno'
        · simp only [List.drop_succ_cons]
          exact ih 0 b' (by omega) hb' hno'

/-- Left of column `a`, the display is determined by the cells left of `a` (and the row's length). -/
theorem expectedRowC_take (cw : String → Nat) (caps : Caps) :
    ∀ (r r' : List Cell) (skip a : Nat), r.length = r'.length → r.take a = r'.take a →
      (expectedRowC cw caps skip r).take a = (expectedRowC cw caps skip r').take a := by
  intro r
  induction r with
  | nil =>
    intro r' skip a hl _
    have : r' = [] := by cases r' <;> simp_all
    subst this; rfl
  | cons c cs ih =>
    intro r' skip a hl ht
    cases r' with
    | nil => simp at hl
    | cons c' cs' =>
      cases a with
      | zero => simp
      | succ a' =>
        simp only [List.take_succ_cons, List.cons.injEq] at ht
        obtain ⟨hc, ht'⟩ := ht
        subst hc
        have hl' : cs.length = cs'.length := by simpa using hl
        cases skip with
        | succ k =>
          simp only [expectedRowC, List.take_succ_cons]
          rw [ih cs' k a' hl' ht']
        | zero =>
          simp only [expectedRowC, hl']
          split
          · simp only [List.take_succ_cons]; rw [ih cs' _ a' hl' ht']
          · simp only [List.take_succ_cons]; rw [ih cs' 0 a' hl' ht']

/-- **What is displayed outside `[a,b)` does not depend on the cells inside**, for two rows of the
    same length without overhang at `b`. -/
theorem display_outside (cw : String → Nat) (caps : Caps) (r r' : List Cell) (a b : Nat)
    (hlen : r.length = r'.length) (hb : b ≤ r.length)
    (hpre : r.take a = r'.take a) (hsuf : r.drop b = r'.drop b)
    (hno : NoOverhang cw r b) (hno' : NoOverhang cw r' b) :
    (expectedRowC cw caps 0 r).take a = (expectedRowC cw caps 0 r').take a ∧
    (expectedRowC cw caps 0 r).drop b = (expectedRowC cw caps 0 r').drop b := by
  refine ⟨expectedRowC_take cw caps r r' 0 a hlen hpre, ?_⟩
  rw [expectedRowC_drop cw caps r 0 b (by omega) hb hno,
    expectedRowC_drop cw caps r' 0 b (by omega) (by omega) hno', hsuf]

/-- Pointwise forms. -/
theorem display_left (cw : String → Nat) (caps : Caps) (r r' : List Cell) (x : Nat)
    (hlen : r.length = r'.length) (hpre : ∀ p, p ≤ x → r[p]? = r'[p]?) :
    (expectedRowC cw caps 0 r)[x]? = (expectedRowC cw caps 0 r')[x]? := by
  have ht : r.take (x + 1) = r'.take (x + 1) := by
    apply List.ext_getElem?
    intro i
    simp only [List.getElem?_take]
    split
    · exact hpre i (by omega)
    · rfl
  have := expectedRowC_take cw caps r r' 0 (x + 1) hlen ht
  have h1 : ((expectedRowC cw caps 0 r).take (x + 1))[x]? = (expectedRowC cw caps 0 r)[x]? := by
    simp [List.getElem?_take]
  have h2 : ((expectedRowC cw caps 0 r').take (x + 1))[x]? = (expectedRowC cw caps 0 r')[x]? := by
    simp [List.getElem?_take]
  rw [← h1, ← h2, this]

theorem display_right (cw : String → Nat) (caps : Caps) (r r' : List Cell) (b x : Nat)
    (hlen : r.length = r'.length) (hb : b ≤ r.length) (hx : b ≤ x)
    (hsuf : ∀ p, b ≤ p → r[p]? = r'[p]?)
    (hno : NoOverhang cw r b) (hno' : NoOverhang cw r' b) :
    (expectedRowC cw caps 0 r)[x]? = (expectedRowC cw caps 0 r')[x]? := by
  have hd : r.drop b = r'.drop b := by
    apply List.ext_getElem?
    intro i
    simp only [List.getElem?_drop]
    exact hsuf (b + i) (by omega)
  have h1 := expectedRowC_drop cw caps r 0 b (by omega) hb hno
  have h2 := expectedRowC_drop cw caps r' 0 b (by omega) (by omega) hno'
  have e1 : (expectedRowC cw caps 0 r)[x]? = ((expectedRowC cw caps 0 r).drop b)[x - b]? := by
    rw [List.getElem?_drop]; congr 1; omega
  have e2 : (expectedRowC cw caps 0 r')[x]? = ((expectedRowC cw caps 0 r').drop b)[x - b]? := by
    rw [List.getElem?_drop]; congr 1; omega
  rw [e1, e2, h1, h2, hd]

end VaxisModel.Lemmas.WindowDisplay
