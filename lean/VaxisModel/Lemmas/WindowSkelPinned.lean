/-
The statement skeletons of the window.go helpers as transcribed by `Model/Window.lean` and
`Model/App.lean` (`cursorPos`, `fillOps`, `origin`, `clear`, `printGo`, `truncGo`, `lnGo`,
`wrapSegs`/`wrapChars`), pinned: `Props.C11.facts_helper_skeletons` proves that the skeletons the
extractor regenerates from the source on every run (`Gen/WindowFacts.lean`, locals under their role
names) are these.  A statement added, removed, reordered or changed in one of the helpers makes that
theorem fail; renaming a local does not.
-/
namespace VaxisModel.Lemmas.WindowSkelPinned

def skShowCursor : List (Nat × String × String) := [
  (0, "assign", "col+=win.Column"),
  (0, "assign", "row+=win.Row"),
  (0, "if", "win.Parent==nil"),
  (1, "call", "win.Vx.ShowCursor(col,row,style)"),
  (1, "return", ""),
  (0, "call", "win.Parent.ShowCursor(col,row,style)")]

def skFill : List (Nat × String × String) := [
  (0, "assign", "cols,rows:=win.Size()"),
  (0, "for", "row:=0;row<rows;row+=1"),
  (1, "for", "col:=0;col<cols;col+=1"),
  (2, "call", "win.SetCell(col,row,cell)")]

def skOrigin : List (Nat × String × String) := [
  (0, "assign", "w:=win"),
  (0, "assign", "col:=0"),
  (0, "assign", "row:=0"),
  (0, "for", ";;"),
  (1, "assign", "col+=w.Column"),
  (1, "assign", "row+=w.Row"),
  (1, "if", "w.Parent==nil"),
  (2, "return", "col,row"),
  (1, "assign", "w=*w.Parent")]

def skClear : List (Nat × String × String) := [
  (0, "call", "win.Fill(Cell{Character:Character{\" \",1},Style:Style{}})"),
  (0, "assign", "win.Vx.graphicsNext=[]*placement{}")]

def skPrint : List (Nat × String × String) := [
  (0, "assign", "cols,rows:=win.Size()"),
  (0, "range", "_,seg:=range segs"),
  (1, "range", "_,char:=range Characters(seg.Text)"),
  (2, "if", "strings.ContainsRune(char.Grapheme,'\\n')"),
  (3, "assign", "col=0"),
  (3, "assign", "row+=1"),
  (3, "continue", ""),
  (2, "if", "row>rows"),
  (3, "return", "col,row"),
  (2, "if", "!win.Vx.caps.unicodeCore||!win.Vx.caps.explicitWidth"),
  (3, "assign", "char.Width=win.Vx.characterWidth(char.Grapheme)"),
  (2, "if", "col+char.Width>cols"),
  (3, "if", "char.Width>cols"),
  (4, "continue", ""),
  (3, "assign", "row+=1"),
  (3, "assign", "col=0"),
  (2, "assign", "cell:=Cell{Character:char,Style:seg.Style,}"),
  (2, "call", "win.SetCell(col,row,cell)"),
  (2, "assign", "col+=char.Width"),
  (2, "if", "col>=cols"),
  (3, "assign", "row+=1"),
  (3, "assign", "col=0"),
  (0, "return", "col,row")]

def skPrintTruncate : List (Nat × String × String) := [
  (0, "assign", "cols,rows:=win.Size()"),
  (0, "if", "row>=rows"),
  (1, "return", ""),
  (0, "assign", "col:=0"),
  (0, "assign", "truncator:=Character{Grapheme:\"…\",Width:1,}"),
  (0, "range", "_,seg:=range segs"),
  (1, "range", "_,char:=range Characters(seg.Text)"),
  (2, "if", "!win.Vx.caps.unicodeCore||!win.Vx.caps.explicitWidth"),
  (3, "assign", "char.Width=win.Vx.characterWidth(char.Grapheme)"),
  (2, "assign", "w:=char.Width"),
  (2, "assign", "cell:=Cell{Character:char,Style:seg.Style,}"),
  (2, "if", "col+truncator.Width+w>cols"),
  (3, "assign", "cell.Character=truncator"),
  (3, "call", "win.SetCell(col,row,cell)"),
  (3, "return", ""),
  (2, "call", "win.SetCell(col,row,cell)"),
  (2, "assign", "col+=w")]

def skPrintln : List (Nat × String × String) := [
  (0, "assign", "cols,rows:=win.Size()"),
  (0, "if", "row>=rows"),
  (1, "return", ""),
  (0, "assign", "col:=0"),
  (0, "range", "_,seg:=range segs"),
  (1, "range", "_,char:=range Characters(seg.Text)"),
  (2, "if", "!win.Vx.caps.unicodeCore||!win.Vx.caps.explicitWidth"),
  (3, "assign", "char.Width=win.Vx.characterWidth(char.Grapheme)"),
  (2, "assign", "w:=char.Width"),
  (2, "if", "col+w>cols"),
  (3, "return", ""),
  (2, "assign", "cell:=Cell{Character:char,Style:seg.Style,}"),
  (2, "call", "win.SetCell(col,row,cell)"),
  (2, "assign", "col+=w")]

def skWrap : List (Nat × String × String) := [
  (0, "assign", "cols,rows:=win.Size()"),
  (0, "var", "state=-1"),
  (0, "var", "segment string"),
  (0, "range", "_,seg:=range segs"),
  (1, "assign", "rest:=seg.Text"),
  (1, "for", ";len(rest)>0;"),
  (2, "if", "row>=rows"),
  (3, "break", ""),
  (2, "assign", "segment,rest,_,state=uniseg.FirstLineSegmentInString(rest,state)"),
  (2, "for", ";len(rest)>0&&splitsCluster(segment,rest);"),
  (3, "var", "more string"),
  (3, "assign", "more,rest,_,state=uniseg.FirstLineSegmentInString(rest,state)"),
  (3, "assign", "segment+=more"),
  (2, "assign", "chars:=Characters(segment)"),
  (2, "assign", "total:=0"),
  (2, "range", "i,char:=range chars"),
  (3, "if", "!win.Vx.caps.unicodeCore||!win.Vx.caps.explicitWidth"),
  (4, "assign", "char.Width=win.Vx.characterWidth(char.Grapheme)"),
  (4, "assign", "chars[i].Width=char.Width"),
  (3, "assign", "total+=char.Width"),
  (2, "switch", ""),
  (3, "case", "total>cols"),
  (3, "case", "total+col>cols"),
  (4, "assign", "col=0"),
  (4, "assign", "row+=1"),
  (3, "default", ""),
  (2, "range", "_,char:=range chars"),
  (3, "if", "uniseg.HasTrailingLineBreakInString(char.Grapheme)"),
  (4, "assign", "row+=1"),
  (4, "assign", "col=0"),
  (4, "continue", ""),
  (3, "if", "col+char.Width>cols"),
  (4, "if", "char.Width>cols"),
  (5, "continue", ""),
  (4, "assign", "row+=1"),
  (4, "assign", "col=0"),
  (3, "assign", "cell:=Cell{Character:char,Style:seg.Style,}"),
  (3, "call", "win.SetCell(col,row,cell)"),
  (3, "assign", "col+=char.Width"),
  (3, "if", "col>=cols"),
  (4, "assign", "row+=1"),
  (4, "assign", "col=0"),
  (0, "return", "col,row")]

def sksplitsCluster : List (Nat × String × String) := [
  (0, "var", "last string"),
  (0, "assign", "state:=-1"),
  (0, "for", ";len(a)>0;"),
  (1, "assign", "last,a,_,state=uniseg.FirstGraphemeClusterInString(a,state)"),
  (0, "assign", "cluster,_,_,_:=uniseg.FirstGraphemeClusterInString(last+b,-1)"),
  (0, "return", "len(cluster)>len(last)")]


end VaxisModel.Lemmas.WindowSkelPinned
