/-
Helper lemmas for C11's reading-order clause: the `SetCell` call lists of the text helpers versus
the layouts of `Spec.Window`.
-/
import VaxisModel.Model.Window
import VaxisModel.Spec.Window

namespace VaxisModel.Lemmas.WindowText
open VaxisModel.Model.Window VaxisModel.Spec.Window

theorem measured_g (lib : Lib) (rm : Bool) (ch : Chr) : (measured lib rm ch).g = ch.g := by
  unfold measured; split <;> rfl

/-- Every call of a layout started at row `row` is on row ≥ `row`. -/
theorem layout_rows_ge (cols : Int) (l : List Item) (col row : Int) :
    ∀ o ∈ (layout cols l col row).1, row ≤ o.row := by
  induction l generalizing col row with
  | nil => intro o ho; cases ho
  | cons it rest ih =>
    intro o ho
    simp only [layout] at ho
    split at ho
    · have := ih 0 (row + 1) o ho; omega
    · rcases List.mem_cons.1 ho with rfl | h
      · exact Int.le_refl _
      · have := ih _ _ o h
        simp only [advance] at this
        split at this <;> simp at this <;> omega

/-- `Print` = reading-order layout, minus calls below the window (`row > rows`). -/
theorem printGo_layout (lib : Lib) (rm : Bool) (cols rows : Int) (l : List Styled) (col row : Int) :
    ∃ dropped, (layout cols (printItems lib rm l) col row).1 =
        (printGo lib rm cols rows l col row).1 ++ dropped ∧ ∀ o ∈ dropped, rows < o.row := by
  induction l generalizing col row with
  | nil => exact ⟨[], rfl, fun _ h => by cases h⟩
  | cons sc rest ih =>
    obtain ⟨st, ch⟩ := sc
    simp only [printItems, List.map_cons, layout, printGo]
    by_cases hnl : lib.hasNL ch.g = true
    · simp only [hnl, if_true]
      exact ih 0 (row + 1)
    · simp only [hnl, Bool.false_eq_true, if_false]
      by_cases hrow : row > rows
      · simp only [hrow, if_true, List.nil_append]
        refine ⟨_, rfl, ?_⟩
        intro o ho
        rcases List.mem_cons.1 ho with rfl | h
        · exact hrow
        · have := layout_rows_ge _ _ _ _ o h
          simp only [advance] at this
          split at this <;> simp at this <;> omega
      · simp only [hrow, if_false, advance]
        by_cases hfull : col + (measured lib rm ch).w ≥ cols
        · simp only [hfull, if_true]
          obtain ⟨d, hd, hdr⟩ := ih 0 (row + 1)
          refine ⟨d, ?_, hdr⟩
          simp only [printItems] at hd
          simp only [List.cons_append, hd, Item.cell, measured_g]
        · simp only [hfull, if_false]
          obtain ⟨d, hd, hdr⟩ := ih (col + (measured lib rm ch).w) row
          refine ⟨d, ?_, hdr⟩
          simp only [printItems] at hd
          simp only [List.cons_append, hd, Item.cell, measured_g]

/-- Lower bound in reading order for everything a layout writes. -/
theorem layout_ge_pen (cols : Int) (l : List Item) (col row : Int)
    (hw : ∀ it ∈ l, it.brk = false → 0 < it.w) :
    ∀ o ∈ (layout cols l col row).1, row < o.row ∨ (row = o.row ∧ col ≤ o.col) := by
  induction l generalizing col row with
  | nil => intro o ho; cases ho
  | cons it rest ih =>
    have hw' : ∀ it' ∈ rest, it'.brk = false → 0 < it'.w := fun a h => hw a (List.mem_cons_of_mem _ h)
    intro o ho
    simp only [layout] at ho
    split at ho
    · have := ih 0 (row + 1) hw' o ho; omega
    · rename_i hb
      rcases List.mem_cons.1 ho with rfl | h
      · right; exact ⟨rfl, Int.le_refl _⟩
      · have hpos := hw it List.mem_cons_self (by simpa using hb)
        have := ih _ _ hw' o h
        simp only [advance] at this
        split at this <;> simp at this <;> omega

theorem layout_pairwise (cols : Int) (l : List Item) (col row : Int)
    (hw : ∀ it ∈ l, it.brk = false → 0 < it.w) :
    List.Pairwise before (layout cols l col row).1 := by
  induction l generalizing col row with
  | nil => exact List.Pairwise.nil
  | cons it rest ih =>
    have hw' : ∀ it' ∈ rest, it'.brk = false → 0 < it'.w := fun a h => hw a (List.mem_cons_of_mem _ h)
    simp only [layout]
    split
    · exact ih 0 (row + 1) hw'
    · rename_i hb
      have hpos := hw it List.mem_cons_self (by simpa using hb)
      refine List.Pairwise.cons ?_ (ih _ _ hw')
      intro o ho
      have := layout_ge_pen cols rest _ _ hw' o ho
      simp only [before]
      simp only [advance] at this
      split at this <;> simp at this <;> omega

theorem layout_cells (cols : Int) (l : List Item) (col row : Int) :
    (layout cols l col row).1.map (·.cell) = (l.filter (fun it => !it.brk)).map Item.cell := by
  induction l generalizing col row with
  | nil => rfl
  | cons it rest ih =>
    simp only [layout]
    split
    · rename_i hb; simp [hb, ih]
    · rename_i hb; simp [hb, ih]

theorem lnGo_layout (lib : Lib) (rm : Bool) (cols row : Int) (l : List Styled) (col : Int) :
    lnGo lib rm cols row l col = layoutLine cols row (lineItems lib rm l) col := by
  induction l generalizing col with
  | nil => rfl
  | cons sc rest ih =>
    obtain ⟨st, ch⟩ := sc
    simp only [lnGo, lineItems, List.map_cons, layoutLine]
    split
    · rfl
    · simp only [lineItems] at ih; simp only [ih, Item.cell, measured_g]

theorem truncGo_layout (lib : Lib) (rm : Bool) (cols row : Int) (l : List Styled) (col : Int) :
    truncGo lib rm cols row l col = layoutTrunc cols row (lineItems lib rm l) col := by
  induction l generalizing col with
  | nil => rfl
  | cons sc rest ih =>
    obtain ⟨st, ch⟩ := sc
    simp only [truncGo, lineItems, List.map_cons, layoutTrunc]
    split
    · rfl
    · simp only [lineItems] at ih; simp only [ih, Item.cell, measured_g]

theorem layoutLine_ge (cols row : Int) (l : List Item) (col : Int) (hw : ∀ it ∈ l, 0 < it.w) :
    ∀ o ∈ layoutLine cols row l col, o.row = row ∧ col ≤ o.col := by
  induction l generalizing col with
  | nil => intro o ho; cases ho
  | cons it rest ih =>
    have hw' : ∀ it' ∈ rest, 0 < it'.w := fun a h => hw a (List.mem_cons_of_mem _ h)
    have hpos := hw it List.mem_cons_self
    intro o ho
    simp only [layoutLine] at ho
    split at ho
    · cases ho
    · rcases List.mem_cons.1 ho with rfl | h
      · exact ⟨rfl, Int.le_refl _⟩
      · have := ih (col + it.w) hw' o h; omega

theorem layoutLine_pairwise (cols row : Int) (l : List Item) (col : Int) (hw : ∀ it ∈ l, 0 < it.w) :
    List.Pairwise before (layoutLine cols row l col) := by
  induction l generalizing col with
  | nil => exact List.Pairwise.nil
  | cons it rest ih =>
    have hw' : ∀ it' ∈ rest, 0 < it'.w := fun a h => hw a (List.mem_cons_of_mem _ h)
    have hpos := hw it List.mem_cons_self
    simp only [layoutLine]
    split
    · exact List.Pairwise.nil
    · refine List.Pairwise.cons ?_ (ih _ hw')
      intro o ho
      have := layoutLine_ge cols row rest _ hw' o ho
      simp only [before]; omega

end VaxisModel.Lemmas.WindowText
