/-
Helper lemmas for C11's reading-order clause: the `SetCell` call lists of the text helpers versus
the layouts of `Spec.Window`.
-/
import VaxisModel.Model.Window
import VaxisModel.Spec.Window

namespace VaxisModel.Lemmas.WindowText
open VaxisModel.Model.Window VaxisModel.Spec.Window

theorem measured_g (lib : Lib) (rm : Bool) (ch : Chr) : (measured lib rm ch).g = ch.g := by
  unfold measured; split <;> rfl

theorem fitPen_cases (cols col row w : Int) :
    (fitPen cols col row w = (0, row + 1) ∧ col + w > cols) ∨
    (fitPen cols col row w = (col, row) ∧ ¬ col + w > cols) := by
  unfold fitPen; split
  · exact Or.inl ⟨rfl, by assumption⟩
  · exact Or.inr ⟨rfl, by assumption⟩

theorem advance_cases (cols col row w : Int) :
    (advance cols col row w = (0, row + 1) ∧ col + w ≥ cols) ∨
    (advance cols col row w = (col + w, row) ∧ ¬ col + w ≥ cols) := by
  unfold advance; split
  · exact Or.inl ⟨rfl, by assumption⟩
  · exact Or.inr ⟨rfl, by assumption⟩

/-- One placing step of the layout, in arithmetic form: where the cluster goes (`q`) and where the
pen is afterwards (`p`). -/
theorem step_cases (cols col row w : Int) :
    ∃ qc qr pc pr, fitPen cols col row w = (qc, qr) ∧ advance cols qc qr w = (pc, pr) ∧
      ((qc = 0 ∧ qr = row + 1 ∧ col + w > cols) ∨ (qc = col ∧ qr = row ∧ ¬ col + w > cols)) ∧
      ((pc = 0 ∧ pr = qr + 1 ∧ qc + w ≥ cols) ∨ (pc = qc + w ∧ pr = qr ∧ ¬ qc + w ≥ cols)) := by
  rcases fitPen_cases cols col row w with ⟨h1, h1'⟩ | ⟨h1, h1'⟩
  · rcases advance_cases cols 0 (row + 1) w with ⟨h2, h2'⟩ | ⟨h2, h2'⟩
    · exact ⟨0, row + 1, 0, row + 1 + 1, h1, h2, Or.inl ⟨rfl, rfl, h1'⟩, Or.inl ⟨rfl, rfl, h2'⟩⟩
    · exact ⟨0, row + 1, 0 + w, row + 1, h1, h2, Or.inl ⟨rfl, rfl, h1'⟩, Or.inr ⟨rfl, rfl, h2'⟩⟩
  · rcases advance_cases cols col row w with ⟨h2, h2'⟩ | ⟨h2, h2'⟩
    · exact ⟨col, row, 0, row + 1, h1, h2, Or.inr ⟨rfl, rfl, h1'⟩, Or.inl ⟨rfl, rfl, h2'⟩⟩
    · exact ⟨col, row, col + w, row, h1, h2, Or.inr ⟨rfl, rfl, h1'⟩, Or.inr ⟨rfl, rfl, h2'⟩⟩

/-- The layout of a non-break cluster that is placed. -/
theorem layout_cons_placed (cols : Int) (it : Item) (rest : List Item) (col row : Int)
    (hb : it.brk = false) (hs : ¬ (col + it.w > cols ∧ it.w > cols)) :
    layout cols (it :: rest) col row =
      ({ col := (fitPen cols col row it.w).1, row := (fitPen cols col row it.w).2, cell := it.cell } ::
        (layout cols rest (advance cols (fitPen cols col row it.w).1 (fitPen cols col row it.w).2 it.w).1
          (advance cols (fitPen cols col row it.w).1 (fitPen cols col row it.w).2 it.w).2).1,
       (layout cols rest (advance cols (fitPen cols col row it.w).1 (fitPen cols col row it.w).2 it.w).1
          (advance cols (fitPen cols col row it.w).1 (fitPen cols col row it.w).2 it.w).2).2) := by
  simp only [layout, hb, Bool.false_eq_true, if_false, hs]

theorem layout_cons_skipped (cols : Int) (it : Item) (rest : List Item) (col row : Int)
    (hb : it.brk = false) (hs : col + it.w > cols ∧ it.w > cols) :
    layout cols (it :: rest) col row = layout cols rest col row := by
  simp only [layout, hb, Bool.false_eq_true, if_false, hs, and_self, if_true]

theorem layout_cons_brk (cols : Int) (it : Item) (rest : List Item) (col row : Int)
    (hb : it.brk = true) :
    layout cols (it :: rest) col row = layout cols rest 0 (row + 1) := by
  simp only [layout, hb, if_true]

/-- Every call of a layout started at row `row` is on row ≥ `row`. -/
theorem layout_rows_ge (cols : Int) (l : List Item) (col row : Int) :
    ∀ o ∈ (layout cols l col row).1, row ≤ o.row := by
  induction l generalizing col row with
  | nil => intro o ho; cases ho
  | cons it rest ih =>
    intro o ho
    by_cases hb : it.brk = true
    · rw [layout_cons_brk _ _ _ _ _ hb] at ho
      have := ih 0 (row + 1) o ho; omega
    · have hb' : it.brk = false := by simpa using hb
      by_cases hs : col + it.w > cols ∧ it.w > cols
      · rw [layout_cons_skipped _ _ _ _ _ hb' hs] at ho
        exact ih col row o ho
      · rw [layout_cons_placed _ _ _ _ _ hb' hs] at ho
        obtain ⟨qc, qr, pc, pr, hq, hp, hqc, hpc⟩ := step_cases cols col row it.w
        rw [hq] at ho; simp only [hp] at ho
        rcases List.mem_cons.1 ho with rfl | h
        · simp only; omega
        · have := ih _ _ o h; omega

/-- `Print` = reading-order layout, minus calls below the window (`row > rows`). -/
theorem printGo_layout (lib : Lib) (rm : Bool) (cols rows : Int) (l : List Styled) (col row : Int) :
    ∃ dropped, (layout cols (printItems lib rm l) col row).1 =
        (printGo lib rm cols rows l col row).1 ++ dropped ∧ ∀ o ∈ dropped, rows < o.row := by
  induction l generalizing col row with
  | nil => exact ⟨[], rfl, fun _ h => by cases h⟩
  | cons sc rest ih =>
    obtain ⟨st, ch⟩ := sc
    by_cases hrow : row > rows
    · -- everything the layout writes from here on is below the window
      have hall := layout_rows_ge cols (printItems lib rm ((st, ch) :: rest)) col row
      by_cases hnl : lib.hasNL ch.g = true
      · simp only [printItems, List.map_cons, layout, printGo, hnl, if_true]
        exact ih 0 (row + 1)
      · refine ⟨_, ?_, fun o ho => by have := hall o ho; omega⟩
        simp only [printGo, hnl, Bool.false_eq_true, if_false, hrow, if_true, List.nil_append]
    · simp only [printItems, List.map_cons, layout, printGo, fitPen, advance]
      by_cases hnl : lib.hasNL ch.g = true
      · simp only [hnl, if_true]
        exact ih 0 (row + 1)
      · simp only [hnl, Bool.false_eq_true, if_false, hrow]
        by_cases hs : col + (measured lib rm ch).w > cols ∧ (measured lib rm ch).w > cols
        · simp only [hs, and_self, if_true]
          exact ih col row
        · simp only [hs, if_false]
          by_cases hfit : col + (measured lib rm ch).w > cols
          · simp only [hfit, if_true]
            by_cases hfull : 0 + (measured lib rm ch).w ≥ cols
            · simp only [hfull, if_true]
              obtain ⟨d, hd, hdr⟩ := ih 0 (row + 1 + 1)
              refine ⟨d, ?_, hdr⟩
              simp only [printItems] at hd
              simp only [List.cons_append, hd, Item.cell, measured_g]
            · simp only [hfull, if_false]
              obtain ⟨d, hd, hdr⟩ := ih (0 + (measured lib rm ch).w) (row + 1)
              refine ⟨d, ?_, hdr⟩
              simp only [printItems] at hd
              simp only [List.cons_append, hd, Item.cell, measured_g]
          · simp only [hfit, if_false]
            by_cases hfull : col + (measured lib rm ch).w ≥ cols
            · simp only [hfull, if_true]
              obtain ⟨d, hd, hdr⟩ := ih 0 (row + 1)
              refine ⟨d, ?_, hdr⟩
              simp only [printItems] at hd
              simp only [List.cons_append, hd, Item.cell, measured_g]
            · simp only [hfull, if_false]
              obtain ⟨d, hd, hdr⟩ := ih (col + (measured lib rm ch).w) row
              refine ⟨d, ?_, hdr⟩
              simp only [printItems] at hd
              simp only [List.cons_append, hd, Item.cell, measured_g]

/-- Lower bound in reading order for everything a layout writes. -/
theorem layout_ge_pen (cols : Int) (l : List Item) (col row : Int)
    (hw : ∀ it ∈ l, it.brk = false → 0 < it.w) :
    ∀ o ∈ (layout cols l col row).1, row < o.row ∨ (row = o.row ∧ col ≤ o.col) := by
  induction l generalizing col row with
  | nil => intro o ho; cases ho
  | cons it rest ih =>
    have hw' : ∀ it' ∈ rest, it'.brk = false → 0 < it'.w := fun a h => hw a (List.mem_cons_of_mem _ h)
    intro o ho
    by_cases hb : it.brk = true
    · rw [layout_cons_brk _ _ _ _ _ hb] at ho
      have := ih 0 (row + 1) hw' o ho; omega
    · have hb' : it.brk = false := by simpa using hb
      have hpos := hw it List.mem_cons_self hb'
      by_cases hs : col + it.w > cols ∧ it.w > cols
      · rw [layout_cons_skipped _ _ _ _ _ hb' hs] at ho
        exact ih col row hw' o ho
      · rw [layout_cons_placed _ _ _ _ _ hb' hs] at ho
        obtain ⟨qc, qr, pc, pr, hq, hp, hqc, hpc⟩ := step_cases cols col row it.w
        rw [hq] at ho; simp only [hp] at ho
        rcases List.mem_cons.1 ho with rfl | h
        · simp only; omega
        · have := ih _ _ hw' o h; omega

theorem layout_pairwise (cols : Int) (l : List Item) (col row : Int)
    (hw : ∀ it ∈ l, it.brk = false → 0 < it.w) :
    List.Pairwise before (layout cols l col row).1 := by
  induction l generalizing col row with
  | nil => exact List.Pairwise.nil
  | cons it rest ih =>
    have hw' : ∀ it' ∈ rest, it'.brk = false → 0 < it'.w := fun a h => hw a (List.mem_cons_of_mem _ h)
    by_cases hb : it.brk = true
    · rw [layout_cons_brk _ _ _ _ _ hb]; exact ih 0 (row + 1) hw'
    · have hb' : it.brk = false := by simpa using hb
      have hpos := hw it List.mem_cons_self hb'
      by_cases hs : col + it.w > cols ∧ it.w > cols
      · rw [layout_cons_skipped _ _ _ _ _ hb' hs]; exact ih col row hw'
      · rw [layout_cons_placed _ _ _ _ _ hb' hs]
        obtain ⟨qc, qr, pc, pr, hq, hp, hqc, hpc⟩ := step_cases cols col row it.w
        rw [hq]; simp only [hp]
        refine List.Pairwise.cons ?_ (ih _ _ hw')
        intro o ho
        have := layout_ge_pen cols rest _ _ hw' o ho
        simp only [before]; omega

/-- One call per cluster that is neither a break nor skipped; stated without positions when the pen
column is non-negative (then "skipped" = wider than the window). -/
theorem layout_cells (cols : Int) (l : List Item) (col row : Int) (hcol : 0 ≤ col)
    (hw : ∀ it ∈ l, 0 ≤ it.w) :
    (layout cols l col row).1.map (·.cell) =
      (l.filter (fun it => !it.brk && decide (it.w ≤ cols))).map Item.cell := by
  induction l generalizing col row with
  | nil => rfl
  | cons it rest ih =>
    have hw' : ∀ it' ∈ rest, 0 ≤ it'.w := fun a h => hw a (List.mem_cons_of_mem _ h)
    have h0 := hw it List.mem_cons_self
    by_cases hb : it.brk = true
    · rw [layout_cons_brk _ _ _ _ _ hb, ih 0 (row + 1) (Int.le_refl _) hw']
      simp [hb]
    · have hb' : it.brk = false := by simpa using hb
      by_cases hs : col + it.w > cols ∧ it.w > cols
      · rw [layout_cons_skipped _ _ _ _ _ hb' hs, ih col row hcol hw']
        have : ¬ it.w ≤ cols := by omega
        simp [hb', this]
      · rw [layout_cons_placed _ _ _ _ _ hb' hs]
        obtain ⟨qc, qr, pc, pr, hq, hp, hqc, hpc⟩ := step_cases cols col row it.w
        rw [hq]; simp only [hp]
        have hle : it.w ≤ cols := by omega
        rw [List.map_cons, ih pc pr (by omega) hw']
        simp [hb', hle]

theorem lnGo_layout (lib : Lib) (rm : Bool) (cols row : Int) (l : List Styled) (col : Int) :
    lnGo lib rm cols row l col = layoutLine cols row (lineItems lib rm l) col := by
  induction l generalizing col with
  | nil => rfl
  | cons sc rest ih =>
    obtain ⟨st, ch⟩ := sc
    simp only [lnGo, lineItems, List.map_cons, layoutLine]
    split
    · rfl
    · simp only [lineItems] at ih; simp only [ih, Item.cell, measured_g]

theorem truncGo_layout (lib : Lib) (rm : Bool) (cols row : Int) (l : List Styled) (col : Int) :
    truncGo lib rm cols row l col = layoutTrunc cols row (lineItems lib rm l) col := by
  induction l generalizing col with
  | nil => rfl
  | cons sc rest ih =>
    obtain ⟨st, ch⟩ := sc
    simp only [truncGo, lineItems, List.map_cons, layoutTrunc]
    split
    · rfl
    · simp only [lineItems] at ih; simp only [ih, Item.cell, measured_g]

theorem layoutLine_ge (cols row : Int) (l : List Item) (col : Int) (hw : ∀ it ∈ l, 0 < it.w) :
    ∀ o ∈ layoutLine cols row l col, o.row = row ∧ col ≤ o.col := by
  induction l generalizing col with
  | nil => intro o ho; cases ho
  | cons it rest ih =>
    have hw' : ∀ it' ∈ rest, 0 < it'.w := fun a h => hw a (List.mem_cons_of_mem _ h)
    have hpos := hw it List.mem_cons_self
    intro o ho
    simp only [layoutLine] at ho
    split at ho
    · cases ho
    · rcases List.mem_cons.1 ho with rfl | h
      · exact ⟨rfl, Int.le_refl _⟩
      · have := ih (col + it.w) hw' o h; omega

theorem layoutLine_pairwise (cols row : Int) (l : List Item) (col : Int) (hw : ∀ it ∈ l, 0 < it.w) :
    List.Pairwise before (layoutLine cols row l col) := by
  induction l generalizing col with
  | nil => exact List.Pairwise.nil
  | cons it rest ih =>
    have hw' : ∀ it' ∈ rest, 0 < it'.w := fun a h => hw a (List.mem_cons_of_mem _ h)
    have hpos := hw it List.mem_cons_self
    simp only [layoutLine]
    split
    · exact List.Pairwise.nil
    · refine List.Pairwise.cons ?_ (ih _ hw')
      intro o ho
      have := layoutLine_ge cols row rest _ hw' o ho
      simp only [before]; omega

/-! ### Wrap -/

theorem layout_end_ge (cols : Int) (l : List Item) (col row : Int) :
    row ≤ (layout cols l col row).2.2 := by
  induction l generalizing col row with
  | nil => exact Int.le_refl _
  | cons it rest ih =>
    by_cases hb : it.brk = true
    · rw [layout_cons_brk _ _ _ _ _ hb]; have := ih 0 (row + 1); omega
    · have hb' : it.brk = false := by simpa using hb
      by_cases hs : col + it.w > cols ∧ it.w > cols
      · rw [layout_cons_skipped _ _ _ _ _ hb' hs]; exact ih col row
      · rw [layout_cons_placed _ _ _ _ _ hb' hs]
        obtain ⟨qc, qr, pc, pr, hq, hp, hqc, hpc⟩ := step_cases cols col row it.w
        rw [hq]; simp only [hp]
        have := ih pc pr; omega

theorem layoutWrap_rows_ge (cols : Int) (L : List (List Item)) (col row : Int) :
    (∀ o ∈ (layoutWrap cols L col row).1, row ≤ o.row) ∧ row ≤ (layoutWrap cols L col row).2.2 := by
  induction L generalizing col row with
  | nil => exact ⟨(by intro o ho; cases ho), Int.le_refl _⟩
  | cons seg rest ih =>
    simp only [layoutWrap]
    generalize hp : (if totalW seg ≤ cols ∧ totalW seg + col > cols then ((0 : Int), row + 1) else (col, row)) = p
    have hp2 : row ≤ p.2 := by
      rw [← hp]; split <;> simp <;> omega
    have h1 := layout_rows_ge cols seg p.1 p.2
    have h2 := layout_end_ge cols seg p.1 p.2
    have h3 := ih (layout cols seg p.1 p.2).2.1 (layout cols seg p.1 p.2).2.2
    refine ⟨?_, by omega⟩
    intro o ho
    rcases List.mem_append.1 ho with h | h
    · have := h1 o h; omega
    · have := h3.1 o h; omega

theorem layoutWrap_append (cols : Int) (A B : List (List Item)) (col row : Int) :
    layoutWrap cols (A ++ B) col row =
      ((layoutWrap cols A col row).1 ++
        (layoutWrap cols B (layoutWrap cols A col row).2.1 (layoutWrap cols A col row).2.2).1,
       (layoutWrap cols B (layoutWrap cols A col row).2.1 (layoutWrap cols A col row).2.2).2) := by
  induction A generalizing col row with
  | nil => simp [layoutWrap]
  | cons seg rest ih =>
    simp only [List.cons_append, layoutWrap, ih, List.append_assoc]

theorem wrapSegs_broken (lib : Lib) (rm stored : Bool) (cols rows : Int) (st : Nat)
    (l : List (List Raw)) (col row : Int) (h : rows ≤ row) :
    wrapSegs lib rm stored cols rows st l col row = ([], col, row) := by
  cases l with
  | nil => rfl
  | cons seg rest => simp [wrapSegs, h]

theorem wrapGo_broken (lib : Lib) (rm stored : Bool) (cols rows : Int)
    (segs : List (Nat × List (List Raw))) (col row : Int) (h : rows ≤ row) :
    wrapGo lib rm stored cols rows segs col row = ([], col, row) := by
  induction segs with
  | nil => rfl
  | cons sg rest ih =>
    obtain ⟨st, lsegs⟩ := sg
    simp [wrapGo, wrapSegs_broken lib rm stored cols rows st lsegs col row h, ih]

theorem wrapChars_layout (lib : Lib) (rm : Bool) (cols : Int) (st : Nat) (chars : List Chr) (col row : Int) :
    wrapChars lib cols st (chars.map (measured lib rm)) col row =
      layout cols (chars.map fun ch => { g := ch.g, w := (measured lib rm ch).w, brk := lib.trailBrk ch.g, st := st }) col row := by
  induction chars generalizing col row with
  | nil => rfl
  | cons ch rest ih =>
    simp only [List.map_cons, wrapChars, layout, measured_g, advance, fitPen]
    split
    · exact ih 0 (row + 1)
    · split
      · exact ih col row
      · by_cases hfit : col + (measured lib rm ch).w > cols
        · simp only [hfit, if_true]
          by_cases hfull : 0 + (measured lib rm ch).w ≥ cols
          · simp only [hfull, if_true, ih, Item.cell]
          · simp only [hfull, if_false, ih, Item.cell]
        · simp only [hfit, if_false]
          by_cases hfull : col + (measured lib rm ch).w ≥ cols
          · simp only [hfull, if_true, ih, Item.cell]
          · simp only [hfull, if_false, ih, Item.cell]

theorem sumW_totalW (lib : Lib) (rm : Bool) (st : Nat) (chars : List Chr) :
    sumW (chars.map (measured lib rm)) =
      totalW (chars.map fun ch => { g := ch.g, w := (measured lib rm ch).w, brk := lib.trailBrk ch.g, st := st }) := by
  induction chars with
  | nil => rfl
  | cons ch rest ih => simp only [List.map_cons, sumW, totalW, ih]

/-- One Segment of `Wrap` (with the measured width stored): the calls are the word-wrapping layout
of its line segments minus calls at rows ≥ height; either nothing was dropped and the pens agree,
or both pens are below the window. -/
theorem wrapSegs_layout (lib : Lib) (rm : Bool) (cols rows : Int) (st : Nat) (lsegs : List (List Raw)) (col row : Int) :
    ∃ d, (layoutWrap cols (lsegs.map (wrapItems lib rm st)) col row).1 =
          (wrapSegs lib rm true cols rows st lsegs col row).1 ++ d ∧
      (∀ o ∈ d, rows ≤ o.row) ∧
      ((d = [] ∧ (wrapSegs lib rm true cols rows st lsegs col row).2 =
                 (layoutWrap cols (lsegs.map (wrapItems lib rm st)) col row).2) ∨
       (rows ≤ (wrapSegs lib rm true cols rows st lsegs col row).2.2 ∧
        rows ≤ (layoutWrap cols (lsegs.map (wrapItems lib rm st)) col row).2.2)) := by
  induction lsegs generalizing col row with
  | nil => exact ⟨[], rfl, (by intro o h; cases h), Or.inl ⟨rfl, rfl⟩⟩
  | cons seg rest ih =>
    by_cases hbrk : rows ≤ row
    · have hr := layoutWrap_rows_ge cols ((seg :: rest).map (wrapItems lib rm st)) col row
      rw [wrapSegs_broken lib rm true cols rows st (seg :: rest) col row hbrk]
      refine ⟨_, (List.nil_append _).symm, fun o ho => by have := hr.1 o ho; omega, Or.inr ⟨hbrk, by omega⟩⟩
    · simp only [List.map_cons, layoutWrap, wrapSegs, show ¬ row ≥ rows by omega, if_false, if_true]
      have ht := sumW_totalW lib rm st (characters seg)
      have hit : wrapItems lib rm st seg =
          (characters seg).map fun ch => { g := ch.g, w := (measured lib rm ch).w, brk := lib.trailBrk ch.g, st := st } := rfl
      rw [hit, ← ht]
      generalize sumW ((characters seg).map (measured lib rm)) = total
      have hp : (if total > cols then (col, row) else if total + col > cols then ((0 : Int), row + 1) else (col, row)) =
          (if total ≤ cols ∧ total + col > cols then ((0 : Int), row + 1) else (col, row)) := by
        by_cases h1 : total > cols
        · have : ¬ (total ≤ cols ∧ total + col > cols) := by omega
          simp [h1, this]
        · by_cases h2 : total + col > cols
          · have : total ≤ cols ∧ total + col > cols := by omega
            simp [h1, h2, this]
          · simp [h1, h2]
      rw [hp]
      generalize (if total ≤ cols ∧ total + col > cols then ((0 : Int), row + 1) else (col, row)) = p
      rw [wrapChars_layout lib rm cols st (characters seg) p.1 p.2]
      generalize layout cols ((characters seg).map fun ch =>
        ({ g := ch.g, w := (measured lib rm ch).w, brk := lib.trailBrk ch.g, st := st } : Item)) p.1 p.2 = a
      obtain ⟨d, hd, hrows, hdis⟩ := ih a.2.1 a.2.2
      refine ⟨d, by rw [hd, List.append_assoc], hrows, hdis⟩

theorem wrapGo_layout (lib : Lib) (rm : Bool) (cols rows : Int) (segs : List (Nat × List (List Raw))) (col row : Int) :
    ∃ d, (layoutWrap cols (wrapAllItems lib rm segs) col row).1 =
          (wrapGo lib rm true cols rows segs col row).1 ++ d ∧
      (∀ o ∈ d, rows ≤ o.row) := by
  induction segs generalizing col row with
  | nil => exact ⟨[], rfl, (by intro o h; cases h)⟩
  | cons sg rest ih =>
    obtain ⟨st, lsegs⟩ := sg
    have hall : wrapAllItems lib rm ((st, lsegs) :: rest) = lsegs.map (wrapItems lib rm st) ++ wrapAllItems lib rm rest := by
      simp [wrapAllItems]
    rw [hall, layoutWrap_append]
    simp only [wrapGo]
    obtain ⟨d1, hd1, hr1, hdis⟩ := wrapSegs_layout lib rm cols rows st lsegs col row
    rcases hdis with ⟨hnil, hst⟩ | ⟨hm, hs⟩
    · subst hnil
      rw [hst]
      obtain ⟨d2, hd2, hr2⟩ := ih (layoutWrap cols (lsegs.map (wrapItems lib rm st)) col row).2.1
        (layoutWrap cols (lsegs.map (wrapItems lib rm st)) col row).2.2
      refine ⟨d2, ?_, hr2⟩
      simp only [hd1, List.append_nil, hd2, List.append_assoc]
    · rw [wrapGo_broken lib rm true cols rows rest _ _ hm]
      have hr := layoutWrap_rows_ge cols (wrapAllItems lib rm rest)
        (layoutWrap cols (lsegs.map (wrapItems lib rm st)) col row).2.1
        (layoutWrap cols (lsegs.map (wrapItems lib rm st)) col row).2.2
      refine ⟨d1 ++ (layoutWrap cols (wrapAllItems lib rm rest)
        (layoutWrap cols (lsegs.map (wrapItems lib rm st)) col row).2.1
        (layoutWrap cols (lsegs.map (wrapItems lib rm st)) col row).2.2).1, ?_, ?_⟩
      · simp only [hd1, List.append_nil, List.append_assoc]
      · intro o ho
        rcases List.mem_append.1 ho with h | h
        · exact hr1 o h
        · have := hr.1 o h; omega

/-! ### strict reading order of the word-wrapping layout -/

/-- Pen `(c1,r1)` is at or before pen `(c2,r2)` in reading order. -/
def penLe (c1 r1 c2 r2 : Int) : Prop := r1 < r2 ∨ (r1 = r2 ∧ c1 ≤ c2)

theorem layout_pen_mono (cols : Int) (l : List Item) (col row : Int)
    (hw : ∀ it ∈ l, it.brk = false → 0 < it.w) :
    penLe col row (layout cols l col row).2.1 (layout cols l col row).2.2 := by
  induction l generalizing col row with
  | nil => exact Or.inr ⟨rfl, Int.le_refl _⟩
  | cons it rest ih =>
    have hw' : ∀ it' ∈ rest, it'.brk = false → 0 < it'.w := fun a h => hw a (List.mem_cons_of_mem _ h)
    by_cases hb : it.brk = true
    · rw [layout_cons_brk _ _ _ _ _ hb]
      have := ih 0 (row + 1) hw'
      unfold penLe at this ⊢; omega
    · have hb' : it.brk = false := by simpa using hb
      have hpos := hw it List.mem_cons_self hb'
      by_cases hs : col + it.w > cols ∧ it.w > cols
      · rw [layout_cons_skipped _ _ _ _ _ hb' hs]; exact ih col row hw'
      · rw [layout_cons_placed _ _ _ _ _ hb' hs]
        obtain ⟨qc, qr, pc, pr, hq, hp, hqc, hpc⟩ := step_cases cols col row it.w
        rw [hq]; simp only [hp]
        have := ih pc pr hw'
        unfold penLe at this ⊢; omega

theorem layout_lt_end (cols : Int) (l : List Item) (col row : Int)
    (hw : ∀ it ∈ l, it.brk = false → 0 < it.w) :
    ∀ o ∈ (layout cols l col row).1,
      o.row < (layout cols l col row).2.2 ∨
      (o.row = (layout cols l col row).2.2 ∧ o.col < (layout cols l col row).2.1) := by
  induction l generalizing col row with
  | nil => intro o ho; cases ho
  | cons it rest ih =>
    have hw' : ∀ it' ∈ rest, it'.brk = false → 0 < it'.w := fun a h => hw a (List.mem_cons_of_mem _ h)
    intro o ho
    by_cases hb : it.brk = true
    · rw [layout_cons_brk _ _ _ _ _ hb] at ho ⊢
      exact ih 0 (row + 1) hw' o ho
    · have hb' : it.brk = false := by simpa using hb
      have hpos := hw it List.mem_cons_self hb'
      by_cases hs : col + it.w > cols ∧ it.w > cols
      · rw [layout_cons_skipped _ _ _ _ _ hb' hs] at ho ⊢
        exact ih col row hw' o ho
      · rw [layout_cons_placed _ _ _ _ _ hb' hs] at ho ⊢
        obtain ⟨qc, qr, pc, pr, hq, hp, hqc, hpc⟩ := step_cases cols col row it.w
        rw [hq] at ho ⊢; simp only [hp] at ho ⊢
        rcases List.mem_cons.1 ho with rfl | h
        · have := layout_pen_mono cols rest pc pr hw'
          unfold penLe at this; simp only; omega
        · exact ih pc pr hw' o h

theorem layoutWrap_ge_pen (cols : Int) (L : List (List Item)) (col row : Int)
    (hw : ∀ seg ∈ L, ∀ it ∈ seg, it.brk = false → 0 < it.w) :
    (∀ o ∈ (layoutWrap cols L col row).1, penLe col row o.col o.row) ∧
    penLe col row (layoutWrap cols L col row).2.1 (layoutWrap cols L col row).2.2 := by
  induction L generalizing col row with
  | nil => exact ⟨(by intro o ho; cases ho), Or.inr ⟨rfl, Int.le_refl _⟩⟩
  | cons seg rest ih =>
    have hseg := hw seg List.mem_cons_self
    have hrest : ∀ s ∈ rest, ∀ it ∈ s, it.brk = false → 0 < it.w := fun s h => hw s (List.mem_cons_of_mem _ h)
    simp only [layoutWrap]
    generalize hp : (if totalW seg ≤ cols ∧ totalW seg + col > cols then ((0 : Int), row + 1) else (col, row)) = p
    have hp2 : penLe col row p.1 p.2 := by
      rw [← hp]; unfold penLe; split <;> simp <;> omega
    have h1 := layout_ge_pen cols seg p.1 p.2 hseg
    have h2 := layout_pen_mono cols seg p.1 p.2 hseg
    have h3 := ih (layout cols seg p.1 p.2).2.1 (layout cols seg p.1 p.2).2.2 hrest
    unfold penLe at hp2 h2 h3 ⊢
    refine ⟨?_, by omega⟩
    intro o ho
    rcases List.mem_append.1 ho with h | h
    · have := h1 o h; omega
    · have := h3.1 o h; omega

theorem layoutWrap_pairwise (cols : Int) (L : List (List Item)) (col row : Int)
    (hw : ∀ seg ∈ L, ∀ it ∈ seg, it.brk = false → 0 < it.w) :
    List.Pairwise before (layoutWrap cols L col row).1 := by
  induction L generalizing col row with
  | nil => exact List.Pairwise.nil
  | cons seg rest ih =>
    have hseg := hw seg List.mem_cons_self
    have hrest : ∀ s ∈ rest, ∀ it ∈ s, it.brk = false → 0 < it.w := fun s h => hw s (List.mem_cons_of_mem _ h)
    simp only [layoutWrap]
    generalize (if totalW seg ≤ cols ∧ totalW seg + col > cols then ((0 : Int), row + 1) else (col, row)) = p
    rw [List.pairwise_append]
    refine ⟨layout_pairwise cols seg p.1 p.2 hseg, ih _ _ hrest, ?_⟩
    intro a ha b hb
    have h1 := layout_lt_end cols seg p.1 p.2 hseg a ha
    have h2 := (layoutWrap_ge_pen cols rest _ _ hrest).1 b hb
    unfold penLe at h2
    simp only [before]; omega

/-! ### No cluster extends beyond the window's row (F111 repaired) -/

/-- Everything the reading-order layout writes lies, continuation columns included, left of the
right edge: `col + width ≤ cols`.  No hypothesis on widths or on the pen. -/
theorem layout_fits (cols : Int) (l : List Item) (col row : Int) :
    ∀ o ∈ (layout cols l col row).1, o.col + o.cell.w ≤ cols := by
  induction l generalizing col row with
  | nil => intro o ho; cases ho
  | cons it rest ih =>
    intro o ho
    by_cases hb : it.brk = true
    · rw [layout_cons_brk _ _ _ _ _ hb] at ho; exact ih 0 (row + 1) o ho
    · have hb' : it.brk = false := by simpa using hb
      by_cases hs : col + it.w > cols ∧ it.w > cols
      · rw [layout_cons_skipped _ _ _ _ _ hb' hs] at ho; exact ih col row o ho
      · rw [layout_cons_placed _ _ _ _ _ hb' hs] at ho
        obtain ⟨qc, qr, pc, pr, hq, hp, hqc, hpc⟩ := step_cases cols col row it.w
        rw [hq] at ho; simp only [hp] at ho
        rcases List.mem_cons.1 ho with rfl | h
        · simp only [Item.cell]; omega
        · exact ih pc pr o h

/-- With non-negative widths and a non-negative pen column, every write is at a column ≥ 0. -/
theorem layout_col_nonneg (cols : Int) (l : List Item) (col row : Int) (hcol : 0 ≤ col)
    (hw : ∀ it ∈ l, 0 ≤ it.w) : ∀ o ∈ (layout cols l col row).1, 0 ≤ o.col := by
  induction l generalizing col row with
  | nil => intro o ho; cases ho
  | cons it rest ih =>
    have hw' : ∀ it' ∈ rest, 0 ≤ it'.w := fun a h => hw a (List.mem_cons_of_mem _ h)
    have h0 := hw it List.mem_cons_self
    intro o ho
    by_cases hb : it.brk = true
    · rw [layout_cons_brk _ _ _ _ _ hb] at ho; exact ih 0 (row + 1) (Int.le_refl _) hw' o ho
    · have hb' : it.brk = false := by simpa using hb
      by_cases hs : col + it.w > cols ∧ it.w > cols
      · rw [layout_cons_skipped _ _ _ _ _ hb' hs] at ho; exact ih col row hcol hw' o ho
      · rw [layout_cons_placed _ _ _ _ _ hb' hs] at ho
        obtain ⟨qc, qr, pc, pr, hq, hp, hqc, hpc⟩ := step_cases cols col row it.w
        rw [hq] at ho; simp only [hp] at ho
        rcases List.mem_cons.1 ho with rfl | h
        · simp only; omega
        · exact ih pc pr (by omega) hw' o h

theorem layoutWrap_fits (cols : Int) (L : List (List Item)) (col row : Int) :
    ∀ o ∈ (layoutWrap cols L col row).1, o.col + o.cell.w ≤ cols := by
  induction L generalizing col row with
  | nil => intro o ho; cases ho
  | cons seg rest ih =>
    intro o ho
    simp only [layoutWrap] at ho
    rcases List.mem_append.1 ho with h | h
    · exact layout_fits cols seg _ _ o h
    · exact ih _ _ o h

theorem layoutLine_fits (cols row : Int) (l : List Item) (col : Int) :
    ∀ o ∈ layoutLine cols row l col, o.col + o.cell.w ≤ cols := by
  induction l generalizing col with
  | nil => intro o ho; cases ho
  | cons it rest ih =>
    intro o ho
    simp only [layoutLine] at ho
    split at ho
    · cases ho
    · rcases List.mem_cons.1 ho with rfl | h
      · simp only [Item.cell]; omega
      · exact ih _ o h

/-- `PrintTruncate`: a call either fits or is at a column the window itself rejects (the ellipsis
in a window without columns). -/
theorem layoutTrunc_fits (cols row : Int) (l : List Item) (col : Int) :
    ∀ o ∈ layoutTrunc cols row l col, cols ≤ o.col ∨ o.col + o.cell.w ≤ cols := by
  induction l generalizing col with
  | nil => intro o ho; cases ho
  | cons it rest ih =>
    intro o ho
    simp only [layoutTrunc] at ho
    split at ho
    · rcases List.mem_singleton.1 ho with rfl
      simp only; omega
    · rcases List.mem_cons.1 ho with rfl | h
      · simp only [Item.cell]; omega
      · exact ih _ o h

/-! ### one call per cluster, for the word-wrapping layout -/

theorem layout_end_col_nonneg (cols : Int) (l : List Item) (col row : Int) (hcol : 0 ≤ col)
    (hw : ∀ it ∈ l, 0 ≤ it.w) : 0 ≤ (layout cols l col row).2.1 := by
  induction l generalizing col row with
  | nil => exact hcol
  | cons it rest ih =>
    have hw' : ∀ it' ∈ rest, 0 ≤ it'.w := fun a h => hw a (List.mem_cons_of_mem _ h)
    have h0 := hw it List.mem_cons_self
    by_cases hb : it.brk = true
    · rw [layout_cons_brk _ _ _ _ _ hb]; exact ih 0 (row + 1) (Int.le_refl _) hw'
    · have hb' : it.brk = false := by simpa using hb
      by_cases hs : col + it.w > cols ∧ it.w > cols
      · rw [layout_cons_skipped _ _ _ _ _ hb' hs]; exact ih col row hcol hw'
      · rw [layout_cons_placed _ _ _ _ _ hb' hs]
        obtain ⟨qc, qr, pc, pr, hq, hp, hqc, hpc⟩ := step_cases cols col row it.w
        rw [hq]; simp only [hp]
        exact ih pc pr (by omega) hw'

theorem layoutWrap_cells (cols : Int) (L : List (List Item)) (col row : Int) (hcol : 0 ≤ col)
    (hw : ∀ seg ∈ L, ∀ it ∈ seg, 0 ≤ it.w) :
    (layoutWrap cols L col row).1.map (·.cell) =
      (L.flatten.filter (fun it => !it.brk && decide (it.w ≤ cols))).map Item.cell := by
  induction L generalizing col row with
  | nil => rfl
  | cons seg rest ih =>
    have hseg := hw seg List.mem_cons_self
    have hrest : ∀ s ∈ rest, ∀ it ∈ s, 0 ≤ it.w := fun s h => hw s (List.mem_cons_of_mem _ h)
    simp only [layoutWrap, List.flatten_cons, List.filter_append, List.map_append]
    generalize hp : (if totalW seg ≤ cols ∧ totalW seg + col > cols then ((0 : Int), row + 1) else (col, row)) = p
    have hp1 : 0 ≤ p.1 := by rw [← hp]; split <;> simp <;> omega
    rw [layout_cells cols seg p.1 p.2 hp1 hseg,
      ih _ _ (layout_end_col_nonneg cols seg p.1 p.2 hp1 hseg) hrest]

end VaxisModel.Lemmas.WindowText
